/-
C04 alignment invariant, part 3: what `plan` hands to `runMicros` is invariant-preserving
(`plan_ok`); constructors push a frame that satisfies the invariant; destructors never throw and leave
the invariant for the remaining frames; unwinding therefore never reaches std::terminate.
-/
import Osmium.Lemmas.BufAlign2

namespace Osmium.Buf

open Osmium.Layout

/-! ### micro steps only ever touch the top frame of the builder stack -/

theorem tail_setTopPtr (st : List Frame) (p : Option (Nat × Nat)) : (setTopPtr st p).tail = st.tail := by
  cases st <;> rfl

theorem execBase_tail (s s' : St) (m : Micro) (h : execBase s m = .ok s') : s'.stack.tail = s.stack.tail := by
  cases m with
  | alloc n save g =>
    simp only [execBase] at h
    split at h
    · cases h
    · injection h with h; subst h
      simp only []; split
      · exact tail_setTopPtr _ _
      · rfl
  | upd g => simp only [execBase] at h; injection h with h; subst h; rfl
  | deref keep g =>
    simp only [execBase] at h
    split at h
    · cases h
    · split at h
      · cases h
      · split at h
        · injection h with h; subst h
          simp only []; split
          · rfl
          · exact tail_setTopPtr _ _
        · cases h
  | finish offs => simp only [execBase] at h; injection h with h; subst h; rfl

theorem execMicro_tail (s s' : St) (m : Micro) (h : execMicro s m = .ok s') : s'.stack.tail = s.stack.tail := by
  cases m with
  | finish offs =>
    rcases execMicro_finish s s' offs h with rfl | rfl
    · rfl
    · exact execList_inv execBase (fun t => t.stack.tail = s.stack.tail) (fun _ => True)
        (fun a b m _ hp hx => (execBase_tail a b m hx).trans hp) _ s (fun _ _ => trivial) rfl
  | alloc n save g => simp only [execMicro] at h; exact execBase_tail s s' _ h
  | upd g => simp only [execMicro] at h; exact execBase_tail s s' _ h
  | deref keep g => simp only [execMicro] at h; exact execBase_tail s s' _ h

theorem execMicros_tail (ms : List Micro) (s : St) : (execMicros s ms).1.stack.tail = s.stack.tail :=
  execList_inv execMicro (fun t => t.stack.tail = s.stack.tail) (fun _ => True)
    (fun a b m _ hp hx => (execMicro_tail a b m hx).trans hp) ms s (fun _ _ => trivial) rfl

/-! ### constructor -/

theorem sizeT8 (k : Kind) : (k.sizeT + 8) % 8 = 0 := by cases k <;> rfl

theorem aok_mCtor (sig : List (Nat × Kind)) (k : Kind) (hobj : k.isObj = true → sig = []) :
    AllAOK sig (mCtor k (sig.map (·.1))) := by
  intro m hm
  unfold mCtor at hm
  split at hm
  · rename_i hk
    simp only [List.mem_cons, List.not_mem_nil, or_false] at hm
    subst hm
    apply aok_alloc
    exact aok_alloc_obj sig (Or.inr (hobj hk)) (k.sizeT + 8) (sizeT8 k) _ (by intro off p; simp)
  · simp only [List.mem_cons, List.not_mem_nil, or_false] at hm
    subst hm
    apply aok_alloc
    intro st p x ep hsig hp
    simp only [Bool.false_eq_true, ↓reduceIte]
    have h1 : PInv st (addSizeChain (offsOf st) 8 (p ++ List.replicate 8 x)) :=
      pinv_append_chain st p _ 8 (by simp) (fun o ho => u32At_append_left _ _ _ ho) (Or.inr rfl) hp
    rw [← hsig, ← offsOf_sig]
    apply pinv_same_headers st _ _ (by simp) ?_ h1
    intro f hf
    have := framesOK_mem p p.length st hp.1 f hf
    exact u32At_writeAt_out _ _ _ _ (Or.inl (by omega))

theorem framesOK_reub (q : Pend) (ub ub' : Nat) (st : List Frame) (h : FramesOK q ub st)
    (hb : ∀ f r, st = f :: r → f.off + 8 ≤ ub') : FramesOK q ub' st := by
  cases st with
  | nil => trivial
  | cons f rest => exact ⟨h.1, hb f rest rfl, h.2.2.1, h.2.2.2.1, h.2.2.2.2.1, h.2.2.2.2.2⟩

theorem pinv_push (st : List Frame) (q : Pend) (off : Nat) (k : Kind) (hst : PInv st q) (hoff : off % 8 = 0)
    (hin : off + 8 ≤ q.length) (htop : ∀ f r, st = f :: r → f.off + 8 ≤ off)
    (hobj : k.isObj = true → st = [] ∧ q.length % 8 = 0)
    (hlist : k.isObj = false → u32At q off % 8 = (q.length - off) % 8) : PInv (⟨off, k, none⟩ :: st) q := by
  refine ⟨⟨hoff, hin, fun h => (hobj h).1, hlist, (fun e o h => by cases h), framesOK_reub q _ off st hst.1 htop⟩, ?_⟩
  simp only [TopOK]
  exact fun h => (hobj h).2

theorem u32At_itemHeader (l : Bytes) (off size ty : Nat) (h : off + 8 ≤ l.length) :
    u32At (writeAt l off (itemHeader size ty)) off = size % 4294967296 := by
  have hl : (itemHeader size ty).length = 8 := by simp [itemHeader, leBytes_len]
  unfold u32At
  have h1 : leAt (writeAt l off (itemHeader size ty)) off 4 = leAt (itemHeader size ty) 0 4 := by
    apply leAt_congr
    intro i hi
    rw [writeAt_getElem?_in _ l off i (by omega) (by omega)]
    simp
  rw [h1]
  have h2 : leAt (itemHeader size ty) 0 4 = leAt (leBytes size 4) 0 4 := by
    unfold itemHeader
    rw [List.append_assoc]
    exact leAt_append_left _ _ 0 4 (by rw [leBytes_len]; omega)
  rw [h2, leAt_leBytes0]

/-- the constructor program: the old frames keep their invariant; if it does not throw, the new frame
    satisfies it too -/
theorem ctor_ainv (s : St) (k : Kind) (hA : AInv s) (hal : s.b0.pend.length % 8 = 0)
    (hobj : k.isObj = true → s.stack = []) :
    AInv (execMicros s (mCtor k (offsOf s.stack))).1 ∧
    ((execMicros s (mCtor k (offsOf s.stack))).2 = none →
      AInv (applyAfter (.push s.b0.pend.length k) (execMicros s (mCtor k (offsOf s.stack))).1)) := by
  have hsig : frameSig s.stack = frameSig s.stack := rfl
  have hobj' : k.isObj = true → frameSig s.stack = [] := fun h => by rw [hobj h]; rfl
  have hall := execMicros_ainv (frameSig s.stack) (mCtor k (offsOf s.stack)) s
    (by rw [offsOf_sig]; exact aok_mCtor _ k hobj') (allLP_mCtor _ _) ⟨hA, rfl⟩
  refine ⟨hall.1, ?_⟩
  intro hnone
  -- the program is one `alloc`: make the resulting state explicit
  have hone : ∃ n g, mCtor k (offsOf s.stack) = [.alloc (fun _ => n) false g] ∧ 8 ≤ n ∧ n % 8 = 0 ∧
      (∀ p x, (g p.length (p ++ List.replicate n x)).length = p.length + n) ∧
      (k.isObj = false → ∀ (p : Pend) x, u32At (g p.length (p ++ List.replicate n x)) p.length % 8 = n % 8) := by
    unfold mCtor
    split
    · refine ⟨k.sizeT + 8, _, rfl, by omega, sizeT8 k, by intro p x; simp, ?_⟩
      intro h; rename_i hk; rw [hk] at h; cases h
    · refine ⟨8, _, rfl, by omega, rfl, by intro p x; simp, ?_⟩
      intro _ p x
      rw [u32At_itemHeader _ _ _ _ (by simp)]
  obtain ⟨n, g, hprog, hn8, hnm, hglen, hgsz⟩ := hone
  rw [hprog] at hall hnone ⊢
  simp only [execMicros, execList, execMicro, execBase] at hall hnone ⊢
  cases hr : reserve n s.b0 with
  | error e => simp [hr] at hnone
  | ok b' =>
    simp only [hr, Bool.false_eq_true, ↓reduceIte, applyAfter] at hall ⊢
    have ab := alloc_abs _ _ _ (g s.b0.pend.length) (by
      have := allLP_mCtor k (offsOf s.stack) _ (by rw [hprog]; exact List.mem_cons_self)
      exact this s.b0.pend.length) hA.bounds.1 hr
    obtain ⟨⟨hb, hc0, hcap0, ha1, hcap1, hpinv⟩, _⟩ := hall
    refine ⟨hb, hc0, hcap0, ha1, hcap1, ?_⟩
    simp only [] at hpinv ⊢
    rw [ab.1] at hpinv ⊢
    have hlen := hglen s.b0.pend s.b0.fill
    apply pinv_push _ _ _ _ hpinv hal (by omega)
    · intro f r hst
      have := hA.pinv.1
      rw [hst] at this
      exact this.2.1
    · intro hk
      have hst := hobj hk
      have ht := hA.pinv.2
      rw [hst] at ht
      simp only [TopOK] at ht
      exact ⟨hst, by omega⟩
    · intro hk
      rw [hgsz hk, hlen]
      omega

/-! ### destructor -/

theorem reserve_fits (n : Nat) (b : Buf) (h : b.written + n ≤ b.cap) : reserve n b = .ok (extend n b) := by
  unfold reserve
  rw [if_neg (by omega)]

theorem execBase_alloc_err (s : St) (n : Pend → Nat) (sv : Bool) (g : Nat → Pend → Pend) (e : Err)
    (h : execBase s (.alloc n sv g) = .error e) : e = .full := by
  simp only [execBase] at h
  split at h
  · rename_i e' hr
    injection h with h; subst h
    unfold reserve at hr
    split at hr
    · split at hr
      · injection hr with hr; exact hr.symm
      · cases hr
    · cases hr
  · cases h

/-- a run of `alloc` steps can only fail with buffer_is_full -/
theorem execList_allocs_err (ms : List Micro) (hms : ∀ m ∈ ms, ∃ n sv g, m = .alloc n sv g) (s : St) (e : Err)
    (h : (execList execBase s ms).2 = some e) : e = .full := by
  induction ms generalizing s with
  | nil => simp [execList] at h
  | cons m ms ih =>
    obtain ⟨n, sv, g, rfl⟩ := hms _ List.mem_cons_self
    simp only [execList] at h
    cases hx : execBase s (.alloc n sv g) with
    | error e' =>
      rw [hx] at h; simp at h; subst h
      exact execBase_alloc_err s n sv g _ hx
    | ok s' =>
      rw [hx] at h
      exact ih (fun m hm => hms m (List.mem_cons_of_mem _ hm)) s' h

/-- `~ChangesetDiscussionBuilder()`'s repair of a pending comment never lets anything escape -/
theorem finish_ok (s : St) (offs : List Nat) : ∃ s1, execMicro s (.finish offs) = .ok s1 := by
  simp only [execMicro]
  split
  · rename_i hc
    simp only [Bool.and_eq_true] at hc
    obtain ⟨hfix, hpend⟩ := hc
    -- the first step is the write through the saved offset: it succeeds
    have hfull : ∀ e, (execList execBase s (mCommentText offs [])).2 = some e → e = .full := by
      intro e he
      unfold mCommentText at he
      simp only [List.cons_append, List.nil_append, execList] at he
      unfold pendingTop at hpend
      cases hst : s.stack with
      | nil => rw [hst] at hpend; cases hpend
      | cons f rest =>
        rw [hst] at hpend
        simp only [] at hpend
        cases hp : f.ptr with
        | none => rw [hp] at hpend; cases hpend
        | some eo =>
          obtain ⟨e0, o⟩ := eo
          simp only [execBase, hst, hp, hfix, or_true, ↓reduceIte] at he
          refine execList_allocs_err _ ?_ _ e he
          intro m hm
          rcases List.mem_append.1 hm with h | h
          · simp only [mAppend, List.mem_cons, List.not_mem_nil, or_false] at h
            exact ⟨_, _, _, h⟩
          · cases offs with
            | nil => simp [mPadding] at h
            | cons t ps =>
              simp only [mPadding, List.mem_cons, List.not_mem_nil, or_false] at h
              exact ⟨_, _, _, h⟩
    generalize execList execBase s (mCommentText offs []) = r at hfull
    obtain ⟨s1, oe⟩ := r
    cases oe with
    | none => exact ⟨s1, rfl⟩
    | some e =>
      have := hfull e rfl
      subst this
      exact ⟨s1, rfl⟩
  · exact ⟨s, rfl⟩

theorem padOf_lt (sz : Nat) : padOf sz < 8 ∧ (sz + padOf sz) % 8 = 0 := by
  unfold padOf; split <;> omega

/-- `add_padding()` of a list builder's destructor: the padding always fits (capacity and item
    start are multiples of 8), and afterwards the remaining frames satisfy the invariant -/
theorem pad_close (s : St) (f : Frame) (rest : List Frame) (hA : AInv s) (hst : s.stack = f :: rest)
    (hk : f.kind.isObj = false) :
    ∃ s', execMicros s (mPadding (offsOf s.stack) false) = (s', none) ∧ AInv { s' with stack := rest } := by
  obtain ⟨hb, hc0, hcap0, ha1, hcap1, hpinv⟩ := hA
  rw [hst] at hpinv
  obtain ⟨⟨h1, h2, h3, h4, h5, h6⟩, _⟩ := hpinv
  have hcong := h4 hk
  have hpl := pend_length s.b0 hb.1.1
  have hpad := padOf_lt (u32At s.b0.pend f.off)
  have hfit : s.b0.written + padOf (u32At s.b0.pend f.off) ≤ s.b0.cap := by
    have := hb.1.1; have := hb.1.2.1
    omega
  rw [hst]
  simp only [offsOf, List.map_cons, mPadding, Bool.false_eq_true, ↓reduceIte, execMicros, execList, execMicro,
    execBase, reserve_fits _ _ hfit]
  refine ⟨_, rfl, ?_⟩
  have hcw : (extend (padOf (u32At s.b0.pend f.off)) s.b0).committed ≤ (extend (padOf (u32At s.b0.pend f.off)) s.b0).written := by
    have := hb.1.1
    simp only [extend, Buf.written, List.length_append] at *; omega
  have hpend : ∀ g, ((extend (padOf (u32At s.b0.pend f.off)) s.b0).onPend g).pend =
      g (s.b0.pend ++ List.replicate (padOf (u32At s.b0.pend f.off)) s.b0.fill) := by
    intro g; rw [onPend_pend _ _ hcw, extend_pend _ _ hb.1.1]
  have hlp : LP (fun p : Pend => addSizeChain (List.map (fun x => x.off) rest) (p.length - s.b0.pend.length)
      (writeAt p s.b0.pend.length (zeros (p.length - s.b0.pend.length)))) := by intro p; simp
  refine ⟨⟨onPend_bounds _ _ hlp (extend_bounds _ _ hb.1.1 hfit hb.1.2.2), hb.2⟩, hc0, hcap0, ha1, hcap1, ?_⟩
  simp only []
  rw [hpend]
  have hk' : (s.b0.pend ++ List.replicate (padOf (u32At s.b0.pend f.off)) s.b0.fill).length - s.b0.pend.length =
      padOf (u32At s.b0.pend f.off) := by simp
  rw [hk']
  -- the remaining frames: sizes and extents grew by the padding
  have hfr : FramesOK s.b0.pend s.b0.pend.length rest := framesOK_mono _ _ _ _ h6 (by omega)
  have hd := framesOK_desc _ _ _ h6
  have hal : (s.b0.pend.length + padOf (u32At s.b0.pend f.off)) % 8 = 0 := by omega
  generalize padOf (u32At s.b0.pend f.off) = k at hal ⊢
  have hqlen : (writeAt (s.b0.pend ++ List.replicate k s.b0.fill) s.b0.pend.length (zeros k)).length =
      s.b0.pend.length + k := by simp
  have hqh : ∀ o, o + 4 ≤ s.b0.pend.length →
      u32At (writeAt (s.b0.pend ++ List.replicate k s.b0.fill) s.b0.pend.length (zeros k)) o = u32At s.b0.pend o := by
    intro o ho
    rw [u32At_writeAt_out _ _ _ _ (Or.inl ho), u32At_append_left _ _ _ ho]
  generalize writeAt (s.b0.pend ++ List.replicate k s.b0.fill) s.b0.pend.length (zeros k) = q at hqlen hqh ⊢
  have hfin : FramesOK (addSizeChain (List.map (fun x => x.off) rest) k q)
      (addSizeChain (List.map (fun x => x.off) rest) k q).length rest := by
    rw [addSizeChain_length, hqlen]
    apply framesOK_mono _ s.b0.pend.length _ _ _ (by omega)
    apply framesOK_of_cong rest s.b0.pend _ s.b0.pend.length k (by rw [addSizeChain_length, hqlen]) (Nat.le_refl _) ?_ hfr
    intro g hg _
    have hmem : g.off ∈ List.map (fun x => x.off) rest := List.mem_map.2 ⟨g, hg, rfl⟩
    have hgo := framesOK_mem _ _ _ h6 g hg
    have hd' : Desc f.off (List.map (fun x => x.off) rest) := hd
    rw [u32At_addSizeChain_mem _ k q f.off hd' (by omega) g.off hmem]
    rw [hqh _ (by omega)]
    omega
  refine ⟨hfin, ?_⟩
  rw [addSizeChain_length, hqlen]
  cases rest with
  | nil => exact hal
  | cons g r => exact fun _ => hal

theorem execList_append (ex : St → Micro → Except Err St) (a b : List Micro) (s : St) :
    execList ex s (a ++ b) =
      match execList ex s a with
      | (s', none) => execList ex s' b
      | (s', some e) => (s', some e) := by
  induction a generalizing s with
  | nil => rfl
  | cons m ms ih =>
    simp only [List.cons_append, execList]
    split
    · rfl
    · exact ih _

/-- destructor of the top builder: never throws; the remaining frames satisfy the invariant -/
theorem close_ainv (s : St) (f : Frame) (rest : List Frame) (hA : AInv s) (hst : s.stack = f :: rest) :
    ∃ s', execMicros s (mDtor f.kind (offsOf s.stack)) = (s', none) ∧ AInv { s' with stack := rest } := by
  unfold mDtor
  cases hk : f.kind.isObj with
  | true =>
    simp only [↓reduceIte, execMicros, execList]
    refine ⟨s, rfl, ?_⟩
    obtain ⟨hb, hc0, hcap0, ha1, hcap1, hpinv⟩ := hA
    rw [hst] at hpinv
    have hr := hpinv.1.2.2.1 hk
    subst hr
    have := hpinv.2
    simp only [TopOK] at this
    exact ⟨hb, hc0, hcap0, ha1, hcap1, ⟨trivial, this hk⟩⟩
  | false =>
    simp only [Bool.false_eq_true, ↓reduceIte]
    by_cases hd : f.kind = .disc
    · simp only [hd, ↓reduceIte, List.cons_append, List.nil_append]
      obtain ⟨s1, hs1⟩ := finish_ok s (offsOf s.stack)
      have hsig : ListTop (frameSig s.stack) := by
        rw [hst]; exact ⟨(f.off, f.kind), _, rfl, hk⟩
      have h1 := execMicro_ainv (frameSig s.stack) s s1 (.finish (offsOf s.stack))
        ⟨by rw [offsOf_sig]; exact baseAOK_mCommentText _ hsig [], trivial⟩ ⟨hA, rfl⟩ hs1
      -- the stack of s1 has the same signature and the same tail
      have htl : s1.stack.tail = rest := by rw [execMicro_tail s s1 _ hs1, hst]; rfl
      have hst1 : ∃ f1, s1.stack = f1 :: rest ∧ f1.kind = f.kind := by
        have := h1.2
        rw [hst] at this
        cases h : s1.stack with
        | nil => rw [h] at this; simp [frameSig] at this
        | cons f1 r1 =>
          rw [h] at this htl
          simp only [frameSig, List.map_cons, List.cons.injEq, Prod.mk.injEq] at this
          simp only [List.tail_cons] at htl
          exact ⟨f1, by rw [htl], this.1.2⟩
      obtain ⟨f1, hs1st, hkk⟩ := hst1
      obtain ⟨s2, hs2, hA2⟩ := pad_close s1 f1 rest h1.1 hs1st (by rw [hkk]; exact hk)
      have hoffs : offsOf s1.stack = offsOf s.stack := by rw [offsOf_sig, offsOf_sig, h1.2]
      simp only [execMicros] at hs2 ⊢
      simp only [execList, hs1]
      rw [hoffs] at hs2
      exact ⟨s2, hs2, hA2⟩
    · simp only [hd, ↓reduceIte, List.nil_append]
      exact pad_close s f rest hA hst hk

end Osmium.Buf
