/-
Termination under WEAK FAIRNESS (C07).  `Term.call_returns` needs `Term.Fair` (busy-wait iterations do
not repeat for ever).  Here `Term.Fair`-style termination is DERIVED from three weak-fairness
conditions of the usual form "continuously enabled ⇒ eventually taken" (`Sched.WeakFair`):

* `progress`: if from some position on a step that is not a busy-wait iteration is enabled at every
  position, such a step is eventually taken (the scheduler does not for ever run only threads that
  busy-wait while another thread can do real work);
* `twIn` / `twOut`: the 10 ms timed wait of the read thread's / the parser thread's bounded push()
  returns (if the thread sits in that wait for ever, its wait eventually ends).

The proof needs that a busy-wait step never DISABLES progress (`Sched.can_frame`): it changes only the
pc / `sawSize` / wait-set entry of the thread that makes it.
-/
import Osmium.Lemmas.PipelineProg

set_option linter.unusedSimpArgs false
set_option linter.unusedVariables false
set_option linter.unnecessarySeqFocus false

namespace Osmium.Pipeline

open Osmium.Mon

variable {α : Type} [DecidableEq α]

namespace Sched

open Live Prog

/-- the thread that makes a step -/
def _root_.Osmium.Pipeline.Ev.thread : Ev α → Tid
  | .qi e => e.tid
  | .qo e => e.tid
  | .rTestDone _ | .rRead _ | .rCloseDec _ | .rSet => tR
  | .pInUse _ | .pGet _ | .pHeader | .pObj _ | .pThrow | .pFlushNested | .pNewBuf | .pFlushFinal | .pRunEnd
  | .pBlob _ | .pCatch | .pSet => tP
  | .wStart w | .wDone w => w
  | .cHeader | .cHeaderGet | .cRead | .cInUse _ | .cGet _ | .cClose | .cDtor | .cJoinR | .cJoinP | .cRet _ => tC

/-- thread `t` has an enabled internal step that is not a busy-wait iteration -/
def CanT (c : Cfg α) (t : Tid) (s : State α) : Prop :=
  ∃ e s', e.thread = t ∧ e.isCall = false ∧ isStutter c s e = false ∧ (machine c).Step s e s'

theorem can_iff (c : Cfg α) (s : State α) : Can c s ↔ ∃ t, CanT c t s :=
  ⟨fun ⟨e, s', h1, h2, h3⟩ => ⟨e.thread, e, s', rfl, h1, h2, h3⟩, fun ⟨_, e, s', _, h1, h2, h3⟩ => ⟨e, s', h1, h2, h3⟩⟩

theorem enT (c : Cfg α) (s : State α) (t : Tid) (ev : Ev α) (ht : ev.thread = t) (hc : ev.isCall = false)
    (hs : isStutter c s ev = false) (h : (step? c s ev).isSome = true) : CanT c t s := by
  obtain ⟨s', hs'⟩ := Option.isSome_iff_exists.mp h
  exact ⟨ev, s', ht, hc, hs, hs'⟩

/-! ## a busy-wait step does not disable a non-busy-wait step -/

set_option maxHeartbeats 1600000 in
/-- events that are not events of the input queue do not look at it, except at `m_in_use` -/
theorem frameA_in (c : Cfg α) (s : State α) (q' : QueueSM.State Nat) (hu : q'.inUse = s.inq.inUse) (e' : Ev α)
    (hne : ∀ qe, e' ≠ .qi qe) (h : (step? c s e').isSome = true) :
    (step? c { s with inq := q' } e').isSome = true := by
  cases e' with
  | qi qe => exact absurd rfl (hne qe)
  | qo qe =>
    cases qe <;> simp only [step?] at h ⊢ <;> (repeat' split at h) <;> simp_all
  | _ =>
    simp only [step?] at h ⊢ <;> (repeat' split at h) <;> simp_all <;> (try split) <;> simp_all

set_option maxHeartbeats 1600000 in
/-- the same for the osmdata queue -/
theorem frameA_out (c : Cfg α) (s : State α) (q' : QueueSM.State Nat) (hu : q'.inUse = s.outq.inUse) (e' : Ev α)
    (hne : ∀ qe, e' ≠ .qo qe) (h : (step? c s e').isSome = true) :
    (step? c { s with outq := q' } e').isSome = true := by
  cases e' with
  | qo qe => exact absurd rfl (hne qe)
  | qi qe =>
    cases qe <;> simp only [step?] at h ⊢ <;> (repeat' split at h) <;> simp_all
  | _ =>
    simp only [step?] at h ⊢ <;> (repeat' split at h) <;> simp_all <;> (try split) <;> simp_all

/-! ### events of the queue on which the busy-wait step happens -/

set_option maxHeartbeats 1600000 in
/-- input queue, `size()` saw a full queue: the read thread goes into the timed wait -/
theorem frameB_in1 (c : Cfg α) (s : State α) (x : Nat) (sz : Option Nat) (hx : s.inq.pc tR = .pushPolling x)
    (hfull : c.inqC.max ≤ s.inq.items.length) (qe : QueueSM.Ev Nat)
    (hns : isStutter c s (.qi qe) = false) (h : (step? c s (.qi qe)).isSome = true) :
    (step? c { s with inq := { s.inq with pc := setPc s.inq.pc tR (.pushMustWait x),
                                          sawSize := setPc s.inq.sawSize tR sz } } (.qi qe)).isSome = true := by
  cases qe <;> simp only [step?] at h ⊢ <;> (repeat' split at h) <;>
    simp_all [QueueSM.step?, setPc_apply, tR, tP, tC, isStutter, QueueSM.pred, QueueSM.take] <;> omega

set_option maxHeartbeats 1600000 in
/-- input queue, the timed wait of the read thread ends -/
theorem frameB_in2 (c : Cfg α) (s : State α) (x : Nat) (hx : s.inq.pc tR = .pushMustWait x)
    (qe : QueueSM.Ev Nat)
    (hns : isStutter c s (.qi qe) = false) (h : (step? c s (.qi qe)).isSome = true) :
    (step? c { s with inq := { s.inq with pc := setPc s.inq.pc tR (.pushPolling x) } } (.qi qe)).isSome = true := by
  cases qe <;> simp only [step?] at h ⊢ <;> (repeat' split at h) <;>
    simp_all [QueueSM.step?, setPc_apply, tR, tP, tC, isStutter, QueueSM.pred, QueueSM.take]

set_option maxHeartbeats 1600000 in
/-- osmdata queue, `size()` saw a full queue: the parser thread goes into the timed wait -/
theorem frameB_out1 (c : Cfg α) (s : State α) (x : Nat) (sz : Option Nat) (hx : s.outq.pc tP = .pushPolling x)
    (hfull : c.outqC.max ≤ s.outq.items.length) (qe : QueueSM.Ev Nat)
    (hns : isStutter c s (.qo qe) = false) (h : (step? c s (.qo qe)).isSome = true) :
    (step? c { s with outq := { s.outq with pc := setPc s.outq.pc tP (.pushMustWait x),
                                            sawSize := setPc s.outq.sawSize tP sz } } (.qo qe)).isSome = true := by
  cases qe <;> simp only [step?] at h ⊢ <;> (repeat' split at h) <;>
    simp_all [QueueSM.step?, setPc_apply, tR, tP, tC, isStutter, QueueSM.pred, QueueSM.take] <;> omega

set_option maxHeartbeats 1600000 in
/-- osmdata queue, the timed wait of the parser thread ends -/
theorem frameB_out2 (c : Cfg α) (s : State α) (x : Nat) (hx : s.outq.pc tP = .pushMustWait x)
    (qe : QueueSM.Ev Nat)
    (hns : isStutter c s (.qo qe) = false) (h : (step? c s (.qo qe)).isSome = true) :
    (step? c { s with outq := { s.outq with pc := setPc s.outq.pc tP (.pushPolling x) } } (.qo qe)).isSome = true := by
  cases qe <;> simp only [step?] at h ⊢ <;> (repeat' split at h) <;>
    simp_all [QueueSM.step?, setPc_apply, tR, tP, tC, isStutter, QueueSM.pred, QueueSM.take]

set_option maxHeartbeats 1600000 in
/-- input queue, the parser thread wakes up in wait_and_pop(), finds the predicate false and waits again:
    only the wait set changes; a push() that is about to notify picks its waiter again -/
theorem frameB_in3 (c : Cfg α) (s : State α) (hpc : s.inq.pc tP = .popWaiting)
    (hpred : QueueSM.pred s.inq = false) (qe : QueueSM.Ev Nat)
    (hns : isStutter c s (.qi qe) = false) (h : (step? c s (.qi qe)).isSome = true) :
    ∃ qe', qe'.tid = qe.tid ∧ isStutter c s (.qi qe') = false ∧
      (step? c { s with inq := { s.inq with waiters := (s.inq.waiters.remove tP).wait tP } } (.qi qe')).isSome = true := by
  cases qe with
  | pushLocked t n w =>
    simp only [step?, QueueSM.step?] at h
    (repeat' split at h) <;> simp_all
    rename_i id v k _ x hx
    rcases CondVar.all_or_unnotified ((s.inq.waiters.remove tP).wait tP) with hall | ⟨w', hw⟩
    · exact ⟨.pushLocked tR n none, by simp_all [QueueSM.Ev.tid], rfl, by simp_all [step?, QueueSM.step?, CondVar.notifyOneOk]⟩
    · exact ⟨.pushLocked tR n (some w'), by simp_all [QueueSM.Ev.tid], rfl, by simp_all [step?, QueueSM.step?, CondVar.notifyOneOk]⟩
  | _ =>
    refine ⟨_, rfl, hns, ?_⟩
    simp only [step?, QueueSM.step?] at h ⊢ <;> (repeat' split at h) <;>
      simp_all [setPc_apply, tR, tP, tC, isStutter, QueueSM.pred, QueueSM.take]

set_option maxHeartbeats 1600000 in
/-- osmdata queue, the consumer wakes up in wait_and_pop(), finds the predicate false and waits again -/
theorem frameB_out3 (c : Cfg α) (s : State α) (hpc : s.outq.pc tC = .popWaiting)
    (hpred : QueueSM.pred s.outq = false) (qe : QueueSM.Ev Nat)
    (hns : isStutter c s (.qo qe) = false) (h : (step? c s (.qo qe)).isSome = true) :
    ∃ qe', qe'.tid = qe.tid ∧ isStutter c s (.qo qe') = false ∧
      (step? c { s with outq := { s.outq with waiters := (s.outq.waiters.remove tC).wait tC } } (.qo qe')).isSome = true := by
  cases qe with
  | pushLocked t n w =>
    simp only [step?, QueueSM.step?] at h
    (repeat' split at h) <;> simp_all
    all_goals
      rcases CondVar.all_or_unnotified ((s.outq.waiters.remove tC).wait tC) with hall | ⟨w', hw⟩
      · exact ⟨.pushLocked tP n none, by simp_all [QueueSM.Ev.tid], rfl, by simp_all [step?, QueueSM.step?, CondVar.notifyOneOk]⟩
      · exact ⟨.pushLocked tP n (some w'), by simp_all [QueueSM.Ev.tid], rfl, by simp_all [step?, QueueSM.step?, CondVar.notifyOneOk]⟩
  | _ =>
    refine ⟨_, rfl, hns, ?_⟩
    simp only [step?, QueueSM.step?] at h ⊢ <;> (repeat' split at h) <;>
      simp_all [setPc_apply, tR, tP, tC, isStutter, QueueSM.pred, QueueSM.take]

/-! ### `Can` is stable under busy-wait steps -/

omit [DecidableEq α] in
theorem isStutter_any (c : Cfg α) (s s1 : State α) (e : Ev α) : isStutter c s1 e = isStutter c s e := rfl

theorem can_some {c : Cfg α} {s s'' : State α} {e' : Ev α} (h : (machine c).Step s e' s'') :
    (step? c s e').isSome = true := by
  have : step? c s e' = some s'' := h
  simp [this]

theorem can_in1 (c : Cfg α) (t : Tid) (s : State α) (x : Nat) (sz : Option Nat) (hx : s.inq.pc tR = .pushPolling x)
    (hfull : c.inqC.max ≤ s.inq.items.length) (hcan : CanT c t s) :
    CanT c t { s with inq := { s.inq with pc := setPc s.inq.pc tR (.pushMustWait x),
                                          sawSize := setPc s.inq.sawSize tR sz } } := by
  obtain ⟨e', s'', ht', hc', hns', hst'⟩ := hcan
  have hsome := can_some hst'
  cases e' with
  | qi qe => exact enT c _ t (.qi qe) ht' hc' hns' (frameB_in1 c s x sz hx hfull qe hns' hsome)
  | _ => exact enT c _ t _ ht' hc' hns' (frameA_in c s _ (by rfl) _ (by intro qe; simp) hsome)

theorem can_in2 (c : Cfg α) (t : Tid) (s : State α) (x : Nat) (hx : s.inq.pc tR = .pushMustWait x)
    (hcan : CanT c t s) :
    CanT c t { s with inq := { s.inq with pc := setPc s.inq.pc tR (.pushPolling x) } } := by
  obtain ⟨e', s'', ht', hc', hns', hst'⟩ := hcan
  have hsome := can_some hst'
  cases e' with
  | qi qe => exact enT c _ t (.qi qe) ht' hc' hns' (frameB_in2 c s x hx qe hns' hsome)
  | _ => exact enT c _ t _ ht' hc' hns' (frameA_in c s _ (by rfl) _ (by intro qe; simp) hsome)

theorem can_in3 (c : Cfg α) (t : Tid) (s : State α) (hpc : s.inq.pc tP = .popWaiting)
    (hpred : QueueSM.pred s.inq = false) (hcan : CanT c t s) :
    CanT c t { s with inq := { s.inq with waiters := (s.inq.waiters.remove tP).wait tP } } := by
  obtain ⟨e', s'', ht', hc', hns', hst'⟩ := hcan
  have hsome := can_some hst'
  cases e' with
  | qi qe =>
    obtain ⟨qe', h0, h1, h2⟩ := frameB_in3 c s hpc hpred qe hns' hsome
    exact enT c _ t (.qi qe') (by simp only [Ev.thread] at ht' ⊢; rw [h0]; exact ht') rfl h1 h2
  | _ => exact enT c _ t _ ht' hc' hns' (frameA_in c s _ (by rfl) _ (by intro qe; simp) hsome)

theorem can_out1 (c : Cfg α) (t : Tid) (s : State α) (x : Nat) (sz : Option Nat) (hx : s.outq.pc tP = .pushPolling x)
    (hfull : c.outqC.max ≤ s.outq.items.length) (hcan : CanT c t s) :
    CanT c t { s with outq := { s.outq with pc := setPc s.outq.pc tP (.pushMustWait x),
                                            sawSize := setPc s.outq.sawSize tP sz } } := by
  obtain ⟨e', s'', ht', hc', hns', hst'⟩ := hcan
  have hsome := can_some hst'
  cases e' with
  | qo qe => exact enT c _ t (.qo qe) ht' hc' hns' (frameB_out1 c s x sz hx hfull qe hns' hsome)
  | _ => exact enT c _ t _ ht' hc' hns' (frameA_out c s _ (by rfl) _ (by intro qe; simp) hsome)

theorem can_out2 (c : Cfg α) (t : Tid) (s : State α) (x : Nat) (hx : s.outq.pc tP = .pushMustWait x)
    (hcan : CanT c t s) :
    CanT c t { s with outq := { s.outq with pc := setPc s.outq.pc tP (.pushPolling x) } } := by
  obtain ⟨e', s'', ht', hc', hns', hst'⟩ := hcan
  have hsome := can_some hst'
  cases e' with
  | qo qe => exact enT c _ t (.qo qe) ht' hc' hns' (frameB_out2 c s x hx qe hns' hsome)
  | _ => exact enT c _ t _ ht' hc' hns' (frameA_out c s _ (by rfl) _ (by intro qe; simp) hsome)

theorem can_out3 (c : Cfg α) (t : Tid) (s : State α) (hpc : s.outq.pc tC = .popWaiting)
    (hpred : QueueSM.pred s.outq = false) (hcan : CanT c t s) :
    CanT c t { s with outq := { s.outq with waiters := (s.outq.waiters.remove tC).wait tC } } := by
  obtain ⟨e', s'', ht', hc', hns', hst'⟩ := hcan
  have hsome := can_some hst'
  cases e' with
  | qo qe =>
    obtain ⟨qe', h0, h1, h2⟩ := frameB_out3 c s hpc hpred qe hns' hsome
    exact enT c _ t (.qo qe') (by simp only [Ev.thread] at ht' ⊢; rw [h0]; exact ht') rfl h1 h2
  | _ => exact enT c _ t _ ht' hc' hns' (frameA_out c s _ (by rfl) _ (by intro qe; simp) hsome)

/-- `canT_frame`: a busy-wait step (of any thread) does not disable the progress of thread `t` -/
theorem canT_frame (c : Cfg α) (t : Tid) (s s' : State α) (e : Ev α) (hst : (machine c).Step s e s')
    (hs : isStutter c s e = true) (hcan : CanT c t s) : CanT c t s' := by
  plv_cases e with hst q hq
  all_goals (try (simp [isStutter] at hs; done))
  all_goals q_unfold hq
  all_goals (try (simp [isStutter] at hs; omega))
  all_goals (try subst_vars)
  · exact can_in1 c t s _ _ (by assumption) (by omega) hcan
  · exact can_in2 c t s _ (by assumption) hcan
  · rename_i h1 h2
    obtain ⟨rfl, _⟩ := h1
    exact can_in3 c t s h2.1 h2.2.2 hcan
  · exact can_out1 c t s _ _ (by assumption) (by omega) hcan
  · exact can_out2 c t s _ (by assumption) hcan
  · rename_i h1 h2
    obtain ⟨rfl, _⟩ := h1
    exact can_out3 c t s h2.1 h2.2.2 hcan

/-- `can_frame`: a busy-wait step does not disable progress — if a step that is not a busy-wait iteration
    is enabled before a busy-wait step (of any thread), one is enabled after it. -/
theorem can_frame (c : Cfg α) (s s' : State α) (e : Ev α) (hst : (machine c).Step s e s')
    (hs : isStutter c s e = true) (hcan : Can c s) : Can c s' := by
  obtain ⟨t, ht⟩ := (can_iff c s).mp hcan
  exact (can_iff c s').mpr ⟨t, canT_frame c t s s' e hst hs ht⟩

/-! ## the timed wait of a bounded push() -/

/-- the read thread sits in the timed wait of push() on the input queue -/
def TwIn (s : State α) : Prop := ∃ x, s.inq.pc tR = .pushMustWait x

/-- the parser thread sits in the timed wait of push() on the osmdata queue -/
def TwOut (s : State α) : Prop := ∃ x, s.outq.pc tP = .pushMustWait x

/-- the event "the timed wait of push() on the input queue ends" -/
def isTwIn : Ev α → Bool
  | .qi (.pushFullWaited _ _) => true
  | _ => false

/-- the event "the timed wait of push() on the osmdata queue ends" -/
def isTwOut : Ev α → Bool
  | .qo (.pushFullWaited _ _) => true
  | _ => false

/-- while the read thread sits in its timed wait and the input queue has room, a busy-wait step of
    another thread changes nothing about that; when the timed wait ends, `size()` can see the room -/
theorem qin_frame (c : Cfg α) (s s' : State α) (e : Ev α) (hst : (machine c).Step s e s')
    (hs : isStutter c s e = true) (hq : QIn c s) :
    (isTwIn e = true ∧ Can c s') ∨ (isTwIn e = false ∧ QIn c s') := by
  obtain ⟨x, hx, hlt⟩ := hq
  plv_cases e with hst q hq
  all_goals (try (simp [isStutter] at hs; done))
  all_goals q_unfold hq
  all_goals (try (simp [isStutter] at hs; omega))
  all_goals (try subst_vars)
  all_goals first
    | exact .inr ⟨rfl, x, hx, hlt⟩
    | (rename_i hp; rw [hx] at hp; cases hp; done)
    | (refine .inl ⟨rfl, en2 c _ (.qi (.pushSize tR s.inq.items.length)) rfl ?_ ?_⟩
       · simp only [isStutter, decide_eq_false_iff_not]; omega
       · have : ¬ s.inq.items.length ≥ c.inqC.max := by omega
         simp [step?, QueueSM.step?, this])

theorem qout_frame (c : Cfg α) (s s' : State α) (e : Ev α) (hst : (machine c).Step s e s')
    (hs : isStutter c s e = true) (hq : QOut c s) :
    (isTwOut e = true ∧ Can c s') ∨ (isTwOut e = false ∧ QOut c s') := by
  obtain ⟨x, hx, hlt⟩ := hq
  plv_cases e with hst q hq
  all_goals (try (simp [isStutter] at hs; done))
  all_goals q_unfold hq
  all_goals (try (simp [isStutter] at hs; omega))
  all_goals (try subst_vars)
  all_goals first
    | exact .inr ⟨rfl, x, hx, hlt⟩
    | (rename_i hp; rw [hx] at hp; cases hp; done)
    | (refine .inl ⟨rfl, en2 c _ (.qo (.pushSize tP s.outq.items.length)) rfl ?_ ?_⟩
       · simp only [isStutter, decide_eq_false_iff_not]; omega
       · have : ¬ s.outq.items.length ≥ c.outqC.max := by omega
         simp [step?, QueueSM.step?, this])

/-! ## termination under weak fairness -/

/-- Weak fairness of a run, three conditions of the form "enabled at every position from some position
    on ⇒ eventually taken". -/
structure WeakFair (c : Cfg α) (σ : Nat → State α) (ε : Nat → Option (Ev α)) : Prop where
  /-- steps that are not busy-wait iterations, taken together -/
  progress : ∀ i, (∀ j, i ≤ j → Can c (σ j)) → ∃ j, i ≤ j ∧ Term.progressAt c σ ε j = true
  /-- the timed wait of the read thread's push() returns -/
  twIn : ∀ i, (∀ j, i ≤ j → TwIn (σ j)) → ∃ j e, i ≤ j ∧ ε j = some e ∧ isTwIn e = true
  /-- the timed wait of the parser thread's push() returns -/
  twOut : ∀ i, (∀ j, i ≤ j → TwOut (σ j)) → ∃ j e, i ≤ j ∧ ε j = some e ∧ isTwOut e = true

open Term in
/-- `call_returns_weak_fair`: every maximal run without further API calls that is weakly fair reaches a
    state in which the call has returned, after at most `rank c (σ 0)` steps that are not busy-wait
    iterations. -/
theorem call_returns_weak_fair (c : Cfg α) (wf : c.WF) (σ : Nat → State α) (ε : Nat → Option (Ev α))
    (hrun : MaxRun c σ ε) (h0 : (machine c).Reachable (σ 0)) (hf : WeakFair c σ ε) :
    ∃ n, ¬ InCall (σ n) ∧ (∀ i, i < n → InCall (σ i)) ∧ work c σ ε n + rank c (σ n) ≤ rank c (σ 0) := by
  by_cases hret : ∃ n, ¬ InCall (σ n)
  · obtain ⟨n, hn, hmin⟩ := exists_first _ hret
    exact ⟨n, hn, fun i hi => Classical.not_not.mp (hmin i hi), hrun.work_le h0 n⟩
  exfalso
  have hin : ∀ n, InCall (σ n) := fun n => Classical.not_not.mp fun h => hret ⟨n, h⟩
  rcases call_returns_or_spins c wf σ ε hrun h0 with ⟨n, hn, _⟩ | ⟨N, hN⟩
  · exact hn (hin n)
  have hreach := hrun.reachable h0
  -- every position from N on is a busy-wait step
  have hstep : ∀ j, N ≤ j → ∃ e, (machine c).Step (σ j) e (σ (j + 1)) ∧ isStutter c (σ j) e = true ∧ ε j = some e := by
    intro j hj
    obtain ⟨e, he, hs⟩ := hN j hj
    exact ⟨e, (hrun.step j e he).2, hs, he⟩
  -- progress, once possible, stays possible
  have hcanP : ∀ j, N ≤ j → Can c (σ j) → ∀ k, j ≤ k → Can c (σ k) := by
    intro j hj hc k hk
    induction k with
    | zero => have : j = 0 := by omega
              subst this; exact hc
    | succ k ih =>
      by_cases hjk : j = k + 1
      · subst hjk; exact hc
      · obtain ⟨e, hst, hs, _⟩ := hstep k (by omega)
        exact can_frame c _ _ e hst hs (ih (by omega))
  -- so it is never possible from N on
  have hnocan : ∀ j, N ≤ j → ¬ Can c (σ j) := by
    intro j hj hc
    obtain ⟨k, hk, hp⟩ := hf.progress j (hcanP j hj hc)
    obtain ⟨e, he, hs⟩ := hN k (by omega)
    simp [progressAt, he, hs] at hp
  rcases progress_possible c wf (σ N) (hreach N) (hin N).1 (hin N).2 with hc | hq | hq
  · exact hnocan N (Nat.le_refl _) hc
  · -- the read thread sits in its timed wait, the input queue has room
    have hqP : ∀ k, N ≤ k → QIn c (σ k) := by
      intro k hk
      induction k with
      | zero => have : N = 0 := by omega
                subst this; exact hq
      | succ k ih =>
        by_cases hNk : N = k + 1
        · subst hNk; exact hq
        · obtain ⟨e, hst, hs, _⟩ := hstep k (by omega)
          rcases qin_frame c _ _ e hst hs (ih (by omega)) with ⟨_, hc⟩ | ⟨_, hq'⟩
          · exact absurd hc (hnocan (k + 1) (by omega))
          · exact hq'
    obtain ⟨j, e, hj, he, htw⟩ := hf.twIn N (fun k hk => by
      obtain ⟨x, hx, _⟩ := hqP k hk
      exact ⟨x, hx⟩)
    obtain ⟨e', hst, hs, he'⟩ := hstep j hj
    rw [he] at he'
    simp only [Option.some.injEq] at he'
    subst he'
    rcases qin_frame c _ _ e hst hs (hqP j hj) with ⟨_, hc⟩ | ⟨hno, _⟩
    · exact hnocan (j + 1) (by omega) hc
    · rw [htw] at hno; cases hno
  · -- the parser thread sits in its timed wait, the osmdata queue has room
    have hqP : ∀ k, N ≤ k → QOut c (σ k) := by
      intro k hk
      induction k with
      | zero => have : N = 0 := by omega
                subst this; exact hq
      | succ k ih =>
        by_cases hNk : N = k + 1
        · subst hNk; exact hq
        · obtain ⟨e, hst, hs, _⟩ := hstep k (by omega)
          rcases qout_frame c _ _ e hst hs (ih (by omega)) with ⟨_, hc⟩ | ⟨_, hq'⟩
          · exact absurd hc (hnocan (k + 1) (by omega))
          · exact hq'
    obtain ⟨j, e, hj, he, htw⟩ := hf.twOut N (fun k hk => by
      obtain ⟨x, hx, _⟩ := hqP k hk
      exact ⟨x, hx⟩)
    obtain ⟨e', hst, hs, he'⟩ := hstep j hj
    rw [he] at he'
    simp only [Option.some.injEq] at he'
    subst he'
    rcases qout_frame c _ _ e hst hs (hqP j hj) with ⟨_, hc⟩ | ⟨hno, _⟩
    · exact hnocan (j + 1) (by omega) hc
    · rw [htw] at hno; cases hno

/-- The fairness conditions are satisfiable: the run that follows a finite trace to a state without enabled
    internal step (and stays there) is weakly fair. -/
theorem weakFair_of_trace (c : Cfg α) (s0 sf : State α) (tr : List (Ev α))
    (hrun : runTr c s0 tr = some sf)
    (hq : ∀ e s', e.isCall = false → ¬ (machine c).Step sf e s') :
    WeakFair c (Term.runSt c s0 tr) (fun i => tr[i]?) := by
  have hend := Term.runSt_end c tr s0 sf hrun
  refine ⟨fun i hall => ?_, fun i hall => ?_, fun i hall => ?_⟩
  · exfalso
    obtain ⟨e, s', hc, _, hst⟩ := hall (max i tr.length) (Nat.le_max_left _ _)
    rw [hend _ (Nat.le_max_right _ _)] at hst
    exact hq e s' hc hst
  · exfalso
    obtain ⟨x, hx⟩ := hall (max i tr.length) (Nat.le_max_left _ _)
    rw [hend _ (Nat.le_max_right _ _)] at hx
    have hstep : (machine c).Step sf (.qi (.pushFullWaited tR sf.inq.items.length))
        { sf with inq := { sf.inq with pc := setPc sf.inq.pc tR (.pushPolling x) } } := by
      simp [Machine.Step, machine, step?, QueueSM.step?, hx]
    exact hq _ _ rfl hstep
  · exfalso
    obtain ⟨x, hx⟩ := hall (max i tr.length) (Nat.le_max_left _ _)
    rw [hend _ (Nat.le_max_right _ _)] at hx
    have hstep : (machine c).Step sf (.qo (.pushFullWaited tP sf.outq.items.length))
        { sf with outq := { sf.outq with pc := setPc sf.outq.pc tP (.pushPolling x) } } := by
      simp [Machine.Step, machine, step?, QueueSM.step?, hx]
    exact hq _ _ rfl hstep

end Sched

end Osmium.Pipeline
