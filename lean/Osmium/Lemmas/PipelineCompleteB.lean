import Osmium.Lemmas.PipelineCompleteA

set_option linter.unusedSimpArgs false
set_option linter.unusedVariables false

namespace Osmium.Pipeline
open Osmium.Mon
variable {α : Type} [DecidableEq α]
namespace Complete

set_option maxHeartbeats 1600000 in
theorem invB (c : Cfg α) : ∀ s, (machine c).Reachable s → InvB c s := by
  apply Machine.invariant
  · constructor <;> simp [machine, init, inR, inClose]
  · intro s e s' hr ih hst
    have hA := (invA c s hr).fut_ok
    obtain ⟨h1, h2, h3⟩ := ih
    pc_cases e with hst
    all_goals (refine ⟨?_, ?_, ?_⟩ <;> first
      | assumption
      | (simp_all [inR, inClose, apCpc, apBack, acStatus, acCpc]; done)
      | (simp_all [inR, inClose, apCpc, apBack, acStatus, acCpc] <;> grind [wf_head, okVal])
      | skip)

end Complete
end Osmium.Pipeline
