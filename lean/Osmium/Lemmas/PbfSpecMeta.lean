/-
C02, PBF: the Info submessage and the keys / vals / info part common to Node, Way and Relation, as the
specification encoder writes them (any rank, unknown extras, optional fields omitted, version -1, date granularity).
-/
import Osmium.Lemmas.PbfSpecGrid

namespace Osmium.Pbf

open Osmium.Wire Osmium.Osm Osmium.PbfMsg
open Osmium.PbfSpec (Choices)

/-- `decode_info` on the spec encoder's Info message -/
theorem spec_info (ch : Choices) (hch : ChoicesOk ch) (table : List Bytes) (hist : Bool) (m : Meta) (p : Params)
    (hps : p.strings = table) (hpd : p.dateFactor = ch.dateGranularity)
    (hm : MetaInDomain m) (hts : StampRep ch m.timestamp) (hu : TableOk table m.user) :
    decodeInfo p {} (PbfSpec.msg ch PbfSpec.kInfo (PbfSpec.infoFields ch table hist m)) = some (infoOf m, m.user) := by
  sorry

/-- the fields 2 (keys), 3 (vals), 4 (info) in canonical order through `metaStep` -/
theorem spec_meta (ch : Choices) (hch : ChoicesOk ch) (table : List Bytes) (hist : Bool) (m : Meta) (p : Params)
    (hps : p.strings = table) (hpd : p.dateFactor = ch.dateGranularity)
    (hm : MetaInDomain m) (hts : StampRep ch m.timestamp) (hu : TableOk table m.user)
    (s : ObjAcc) (hs : s.keys = [] ∧ s.vals = [] ∧ s.info = {} ∧ s.user = []) :
    decodeMsg (metaStep p {}) s (PbfSpec.metaFields ch table hist m) =
      some { s with keys := pack (m.tags.map fun t => PbfSpec.idx table t.key),
                    vals := pack (m.tags.map fun t => PbfSpec.idx table t.value),
                    info := infoOf m, user := m.user } := by
  sorry

/-- `build_tag_list` on the packed key / value indices -/
theorem spec_finishTags (table : List Bytes) (p : Params) (hps : p.strings = table) (m : Meta) (s : ObjAcc)
    (hk : s.keys = pack (m.tags.map fun t => PbfSpec.idx table t.key))
    (hv : s.vals = pack (m.tags.map fun t => PbfSpec.idx table t.value))
    (htab : ∀ t ∈ m.tags, TableOk table t.key ∧ TableOk table t.value) : finishTags p s = some m.tags := by
  sorry

/-- shape of the meta fields: length-delimited, tags 2 / 3 / 4 -/
theorem spec_metaFields_shape (ch : Choices) (table : List Bytes) (hist : Bool) (m : Meta) :
    ∀ f ∈ PbfSpec.metaFields ch table hist m, f.wt = .lengthDelimited ∧ (f.tag = 2 ∨ f.tag = 3 ∨ f.tag = 4) ∧ f.val = 0 := by
  sorry

end Osmium.Pbf
