/-
C02, PBF: the Info submessage and the keys / vals / info part common to Node, Way and Relation, as the
specification encoder writes them (any rank, unknown extras, optional fields omitted, version -1, date granularity).
-/
import Osmium.Lemmas.PbfSpecGrid

namespace Osmium.Pbf

open Osmium.Wire Osmium.Osm Osmium.PbfMsg
open Osmium.PbfSpec (Choices)

/-! ### the six Info members, one at a time -/

theorem spec_decodeMsg_nil {σ : Type} (step : σ → Field → Option σ) (s : σ) : decodeMsg step s [] = some s := rfl

theorem spec_decodeMsg_single {σ : Type} (step : σ → Field → Option σ) (s : σ) (f : Field) :
    decodeMsg step s [f] = step s f := by
  unfold decodeMsg
  rw [foldlM_cons']
  cases step s f <;> rfl

theorem spec_int32_nat (v : Nat) (h : v < 2 ^ 31) : toInt32 (u64 (v : Int)) = (v : Int) := by
  rw [u64_nat v (by simp only [Nat.reducePow] at *; omega), toInt32_small v h]

theorem spec_info_version (ch : Choices) (m : Meta) (p : Params) (a : InfoAcc) (u : Bytes)
    (hv : m.version < 2 ^ 31) (ha : a.version = 0) :
    decodeMsg (infoStep p) (a, u)
      (if m.version == 0 && ch.omitDefaults then []
       else [PbfSpec.fInt 1 (if m.version == 0 && ch.versionMinusOne then -1 else m.version)]) =
      some ({ a with version := m.version }, u) := by
  by_cases hc : (m.version == 0 && ch.omitDefaults) = true
  · simp only [hc, ↓reduceIte, spec_decodeMsg_nil]
    have : m.version = 0 := by simp at hc; exact hc.1
    rw [this]; cases a; simp_all
  · simp only [hc, Bool.false_eq_true, ↓reduceIte, spec_decodeMsg_single, spec_fInt]
    by_cases hm : (m.version == 0 && ch.versionMinusOne) = true
    · have h0 : m.version = 0 := by simp at hm; exact hm.1
      have e : versionOf (toInt32 (u64 (-1))) = some 0 := by decide
      rw [if_pos hm]
      simp [infoStep, fVarint, e, h0]
    · have e := spec_int32_nat m.version hv
      rw [if_neg hm]
      simp [infoStep, fVarint, e, versionOf_nat]

theorem spec_info_timestamp (ch : Choices) (hch : ChoicesOk ch) (m : Meta) (p : Params) (a : InfoAcc) (u : Bytes)
    (hpd : p.dateFactor = ch.dateGranularity) (ht : m.timestamp < 2 ^ 32) (hts : StampRep ch m.timestamp)
    (ha : a.timestamp = 0) :
    decodeMsg (infoStep p) (a, u)
      (if m.timestamp == 0 && ch.omitDefaults then []
       else [PbfSpec.fInt 2 (PbfSpec.stamp ch.dateGranularity m.timestamp)]) =
      some ({ a with timestamp := m.timestamp }, u) := by
  by_cases hc : (m.timestamp == 0 && ch.omitDefaults) = true
  · simp only [hc, ↓reduceIte, spec_decodeMsg_nil]
    have : m.timestamp = 0 := by simp at hc; exact hc.1
    rw [this]; cases a; simp_all
  · simp only [hc, Bool.false_eq_true, ↓reduceIte, spec_decodeMsg_single, spec_fInt]
    have hb := spec_stamp_bound ch.dateGranularity m.timestamp hch.dgran.1 ht
    have e1 : toInt64 (u64 (PbfSpec.stamp ch.dateGranularity m.timestamp)) = PbfSpec.stamp ch.dateGranularity m.timestamp := by
      apply toInt64_u64
      unfold IdOk
      simp only [Int.reducePow] at *
      omega
    have e2 := spec_convTimestamp_stamp ch.dateGranularity m.timestamp hch.dgran ht hts
    simp [infoStep, fVarint, e1, e2, hpd]

theorem spec_info_changeset (ch : Choices) (m : Meta) (p : Params) (a : InfoAcc) (u : Bytes)
    (hv : m.changeset < 2 ^ 32) (ha : a.changeset = 0) :
    decodeMsg (infoStep p) (a, u)
      (if m.changeset == 0 && ch.omitDefaults then [] else [PbfSpec.fInt 3 m.changeset]) =
      some ({ a with changeset := m.changeset }, u) := by
  by_cases hc : (m.changeset == 0 && ch.omitDefaults) = true
  · simp only [hc, ↓reduceIte, spec_decodeMsg_nil]
    have : m.changeset = 0 := by simp at hc; exact hc.1
    rw [this]; cases a; simp_all
  · simp only [hc, Bool.false_eq_true, ↓reduceIte, spec_decodeMsg_single, spec_fInt]
    have e1 := int64_field m.changeset hv
    have e2 := changesetOf_nat m.changeset hv
    simp [infoStep, fVarint, e1, e2]

theorem spec_info_uid (ch : Choices) (m : Meta) (p : Params) (a : InfoAcc) (u : Bytes)
    (hv : m.uid < 2 ^ 31) (ha : a.uid = 0) :
    decodeMsg (infoStep p) (a, u)
      (if m.uid == 0 && ch.omitDefaults then [] else [PbfSpec.fInt 4 m.uid]) =
      some ({ a with uid := m.uid }, u) := by
  by_cases hc : (m.uid == 0 && ch.omitDefaults) = true
  · simp only [hc, ↓reduceIte, spec_decodeMsg_nil]
    have : m.uid = 0 := by simp at hc; exact hc.1
    rw [this]; cases a; simp_all
  · simp only [hc, Bool.false_eq_true, ↓reduceIte, spec_decodeMsg_single, spec_fInt]
    have e1 := spec_int32_nat m.uid hv
    simp [infoStep, fVarint, e1, uidOf_nat]

theorem spec_lookup_idx (table : List Bytes) (s : Bytes) (p : Params) (hps : p.strings = table) (hu : TableOk table s) :
    StringTable.lookup p.strings ((PbfSpec.idx table s % 2 ^ 32 : Nat) : Int) = some s := by
  obtain ⟨_, h2, h3⟩ := hu
  have hm : PbfSpec.idx table s % 2 ^ 32 = PbfSpec.idx table s :=
    Nat.mod_eq_of_lt (by simp only [Nat.reducePow] at *; omega)
  rw [hm, lookup_nat, hps, h3]

theorem spec_info_user (ch : Choices) (table : List Bytes) (m : Meta) (p : Params) (a : InfoAcc) (u : Bytes)
    (hps : p.strings = table) (hu : TableOk table m.user) (hu0 : u = []) :
    decodeMsg (infoStep p) (a, u)
      (if m.user.isEmpty && ch.omitDefaults then [] else [PbfSpec.fVarint 5 (PbfSpec.idx table m.user)]) =
      some (a, m.user) := by
  by_cases hc : (m.user.isEmpty && ch.omitDefaults) = true
  · simp only [hc, ↓reduceIte, spec_decodeMsg_nil]
    have : m.user = [] := by simp at hc; exact hc.1
    rw [this, hu0]
  · simp only [hc, Bool.false_eq_true, ↓reduceIte, spec_decodeMsg_single, spec_fVarint]
    have e := spec_lookup_idx table m.user p hps hu
    simp only [infoStep, fVarint]
    rw [e]; rfl

theorem spec_info_visible (ch : Choices) (hist : Bool) (m : Meta) (p : Params) (a : InfoAcc) (u : Bytes)
    (ha : a.visible = true) :
    decodeMsg (infoStep p) (a, u)
      (if (m.visible && ch.omitDefaults) || (m.visible && !hist) then []
       else [PbfSpec.fVarint 6 (if m.visible then 1 else 0)]) =
      some ({ a with visible := m.visible }, u) := by
  by_cases hc : ((m.visible && ch.omitDefaults) || (m.visible && !hist)) = true
  · simp only [hc, ↓reduceIte, spec_decodeMsg_nil]
    have : m.visible = true := by
      cases hv : m.visible
      · simp [hv] at hc
      · rfl
    rw [this]; cases a; simp_all
  · simp only [hc, Bool.false_eq_true, ↓reduceIte, spec_decodeMsg_single, spec_fVarint]
    cases hv : m.visible <;> simp [infoStep, fVarint]

/-- the canonical Info field list through `infoStep` -/
theorem spec_infoFields (ch : Choices) (hch : ChoicesOk ch) (table : List Bytes) (hist : Bool) (m : Meta) (p : Params)
    (hps : p.strings = table) (hpd : p.dateFactor = ch.dateGranularity)
    (hm : MetaInDomain m) (hts : StampRep ch m.timestamp) (hu : TableOk table m.user) :
    decodeMsg (infoStep p) ({}, []) (PbfSpec.infoFields ch table hist m) = some (infoOf m, m.user) := by
  obtain ⟨hv, hui, ht, hcs⟩ := hm
  unfold PbfSpec.infoFields
  simp only [decodeMsg_append]
  rw [spec_info_version ch m p _ _ hv rfl, Option.bind_some,
    spec_info_timestamp ch hch m p _ _ hpd ht hts rfl, Option.bind_some,
    spec_info_changeset ch m p _ _ hcs rfl, Option.bind_some,
    spec_info_uid ch m p _ _ hui rfl, Option.bind_some,
    spec_info_user ch table m p _ _ hps hu rfl, Option.bind_some,
    spec_info_visible ch hist m p _ _ rfl]
  rfl

theorem spec_infoFields_wf (ch : Choices) (table : List Bytes) (hist : Bool) (m : Meta) (hu : TableOk table m.user) :
    ∀ f ∈ PbfSpec.infoFields ch table hist m, f.WF := by
  intro f hf
  have h64 := u64_lt
  have hi : PbfSpec.idx table m.user < 2 ^ 64 := by
    have := hu.2.1
    simp only [Nat.reducePow] at *; omega
  simp only [PbfSpec.infoFields, List.mem_append] at hf
  rcases hf with ((((hf | hf) | hf) | hf) | hf) | hf <;>
    (split at hf <;> simp only [List.mem_nil_iff, List.mem_singleton] at hf <;> try subst hf)
  · exact wf_varint 1 _ (by decide) (by decide) (h64 _)
  · exact wf_varint 2 _ (by decide) (by decide) (h64 _)
  · exact wf_varint 3 _ (by decide) (by decide) (h64 _)
  · exact wf_varint 4 _ (by decide) (by decide) (h64 _)
  · exact wf_varint 5 _ (by decide) (by decide) hi
  · exact wf_varint 6 _ (by decide) (by decide) (by split <;> decide)

/-- `decode_info` on the spec encoder's Info message -/
theorem spec_info (ch : Choices) (hch : ChoicesOk ch) (table : List Bytes) (hist : Bool) (m : Meta) (p : Params)
    (hps : p.strings = table) (hpd : p.dateFactor = ch.dateGranularity)
    (hm : MetaInDomain m) (hts : StampRep ch m.timestamp) (hu : TableOk table m.user) :
    decodeInfo p {} (PbfSpec.msg ch PbfSpec.kInfo (PbfSpec.infoFields ch table hist m)) = some (infoOf m, m.user) := by
  unfold decodeInfo
  rw [readFields_msg ch PbfSpec.kInfo _ (spec_infoFields_wf ch table hist m hu) (hch.extrasWF PbfSpec.kInfo)]
  simp only
  rw [decodeMsg_arrange' (infoStep p) infoKnown (infoStep_unknown p) (infoStep_commutes p) ch PbfSpec.kInfo _ _
    (hch.extrasUnknown PbfSpec.kInfo)]
  exact spec_infoFields ch hch table hist m p hps hpd hm hts hu

theorem spec_pack_nil_of_isEmpty (l : List Nat) (h : l.isEmpty = true) : pack l = [] := by
  have : l = [] := List.isEmpty_iff.mp h
  subst this; rfl

theorem spec_meta_keys (p : Params) (r : ROpts) (od : Bool) (ks : List Nat) (s : ObjAcc) (hk : s.keys = []) :
    decodeMsg (metaStep p r) s (PbfSpec.fPacked od 2 ks) = some { s with keys := pack ks } := by
  unfold PbfSpec.fPacked
  by_cases hc : (ks.isEmpty && od) = true
  · simp only [hc, ↓reduceIte, spec_decodeMsg_nil]
    have : ks.isEmpty = true := by simp at hc; simp [hc.1]
    rw [spec_pack_nil_of_isEmpty ks this]
    cases s; simp_all
  · simp only [hc, Bool.false_eq_true, ↓reduceIte, spec_decodeMsg_single, spec_fBytes]
    simp [metaStep, fBytes]

theorem spec_meta_vals (p : Params) (r : ROpts) (od : Bool) (vs : List Nat) (s : ObjAcc) (hv : s.vals = []) :
    decodeMsg (metaStep p r) s (PbfSpec.fPacked od 3 vs) = some { s with vals := pack vs } := by
  unfold PbfSpec.fPacked
  by_cases hc : (vs.isEmpty && od) = true
  · simp only [hc, ↓reduceIte, spec_decodeMsg_nil]
    have : vs.isEmpty = true := by simp at hc; simp [hc.1]
    rw [spec_pack_nil_of_isEmpty vs this]
    cases s; simp_all
  · simp only [hc, Bool.false_eq_true, ↓reduceIte, spec_decodeMsg_single, spec_fBytes]
    simp [metaStep, fBytes]

/-- an omitted Info message: all members have their default value -/
theorem spec_info_omitted (ch : Choices) (table : List Bytes) (hist : Bool) (m : Meta)
    (h : ((PbfSpec.infoFields ch table hist m).isEmpty && ch.omitDefaults) = true) : infoOf m = {} ∧ m.user = [] := by
  simp only [Bool.and_eq_true, List.isEmpty_iff] at h
  obtain ⟨h, hod⟩ := h
  simp only [PbfSpec.infoFields, hod, Bool.and_true, List.append_eq_nil_iff] at h
  obtain ⟨⟨⟨⟨⟨h1, h2⟩, h3⟩, h4⟩, h5⟩, h6⟩ := h
  have e1 : m.version = 0 := by
    by_cases c : (m.version == 0) = true
    · simpa using c
    · simp [c] at h1
  have e2 : m.timestamp = 0 := by
    by_cases c : (m.timestamp == 0) = true
    · simpa using c
    · simp [c] at h2
  have e3 : m.changeset = 0 := by
    by_cases c : (m.changeset == 0) = true
    · simpa using c
    · simp [c] at h3
  have e4 : m.uid = 0 := by
    by_cases c : (m.uid == 0) = true
    · simpa using c
    · simp [c] at h4
  have e5 : m.user = [] := by
    by_cases c : m.user.isEmpty = true
    · exact List.isEmpty_iff.mp c
    · simp [c] at h5
  have e6 : m.visible = true := by
    cases c : m.visible
    · simp [c] at h6
    · rfl
  exact ⟨by simp [infoOf, e1, e2, e3, e4, e6], e5⟩

/-- the fields 2 (keys), 3 (vals), 4 (info) in canonical order through `metaStep` -/
theorem spec_meta (ch : Choices) (hch : ChoicesOk ch) (table : List Bytes) (hist : Bool) (m : Meta) (p : Params)
    (hps : p.strings = table) (hpd : p.dateFactor = ch.dateGranularity)
    (hm : MetaInDomain m) (hts : StampRep ch m.timestamp) (hu : TableOk table m.user)
    (s : ObjAcc) (hs : s.keys = [] ∧ s.vals = [] ∧ s.info = {} ∧ s.user = []) :
    decodeMsg (metaStep p {}) s (PbfSpec.metaFields ch table hist m) =
      some { s with keys := pack (m.tags.map fun t => PbfSpec.idx table t.key),
                    vals := pack (m.tags.map fun t => PbfSpec.idx table t.value),
                    info := infoOf m, user := m.user } := by
  obtain ⟨hk, hv, hi, hus⟩ := hs
  unfold PbfSpec.metaFields
  simp only [decodeMsg_append]
  rw [spec_meta_keys p {} ch.omitDefaults _ s hk, Option.bind_some,
    spec_meta_vals p {} ch.omitDefaults (m.tags.map fun t => PbfSpec.idx table t.value)
      { s with keys := pack (m.tags.map fun t => PbfSpec.idx table t.key) } hv, Option.bind_some]
  by_cases hc : ((PbfSpec.infoFields ch table hist m).isEmpty && ch.omitDefaults) = true
  · obtain ⟨e1, e2⟩ := spec_info_omitted ch table hist m hc
    simp only [hc, ↓reduceIte, spec_decodeMsg_nil]
    rw [e1, e2]
    cases s; simp_all
  · simp only [hc, Bool.false_eq_true, ↓reduceIte, spec_decodeMsg_single, spec_fBytes]
    have e := spec_info ch hch table hist m p hps hpd hm hts hu
    simp [metaStep, fBytes, hi, e]

/-- `build_tag_list` on the packed key / value indices -/
theorem spec_finishTags (table : List Bytes) (p : Params) (hps : p.strings = table) (m : Meta) (s : ObjAcc)
    (hk : s.keys = pack (m.tags.map fun t => PbfSpec.idx table t.key))
    (hv : s.vals = pack (m.tags.map fun t => PbfSpec.idx table t.value))
    (htab : ∀ t ∈ m.tags, TableOk table t.key ∧ TableOk table t.value) : finishTags p s = some m.tags := by
  have bk : ∀ k ∈ m.tags.map (fun t => PbfSpec.idx table t.key), k < 2 ^ 31 := by
    intro k hk'
    obtain ⟨t, ht, rfl⟩ := List.mem_map.mp hk'
    exact (htab t ht).1.2.1
  have bv : ∀ k ∈ m.tags.map (fun t => PbfSpec.idx table t.value), k < 2 ^ 31 := by
    intro k hk'
    obtain ⟨t, ht, rfl⟩ := List.mem_map.mp hk'
    exact (htab t ht).2.2.1
  unfold finishTags
  rw [hk, hv, unpack_pack _ (fun v h => by have := bk v h; simp only [Nat.reducePow] at *; omega),
    unpack_pack _ (fun v h => by have := bv v h; simp only [Nat.reducePow] at *; omega)]
  simp only [bind, Option.bind]
  apply buildTags_ok p m.tags
  · rw [hps, List.map_map, List.map_map]
    apply List.map_congr_left
    intro t ht
    exact (htab t ht).1.2.2
  · rw [hps, List.map_map, List.map_map]
    apply List.map_congr_left
    intro t ht
    exact (htab t ht).2.2.2
  · exact fun v h => by have := bk v h; simp only [Nat.reducePow] at *; omega
  · exact fun v h => by have := bv v h; simp only [Nat.reducePow] at *; omega

/-- shape of the meta fields: length-delimited, tags 2 / 3 / 4 -/
theorem spec_metaFields_shape (ch : Choices) (table : List Bytes) (hist : Bool) (m : Meta) :
    ∀ f ∈ PbfSpec.metaFields ch table hist m, f.wt = .lengthDelimited ∧ (f.tag = 2 ∨ f.tag = 3 ∨ f.tag = 4) ∧ f.val = 0 := by
  intro f hf
  simp only [PbfSpec.metaFields, PbfSpec.fPacked, List.mem_append] at hf
  rcases hf with (hf | hf) | hf <;>
    (split at hf <;> simp only [List.mem_nil_iff, List.mem_singleton] at hf <;> try subst hf) <;>
    simp [PbfSpec.fBytes]

end Osmium.Pbf
