/-
Pipeline base lemmas (C05, C07): every pipeline step is a step of the embedded queue machines
(so every QueueSM theorem of C19 holds for both Reader queues), each Reader queue has a single
producer, and the simple safety invariants of the consumer's status machine / header promise.
-/
import Osmium.Lemmas.PipelineBaseA
import Osmium.Lemmas.PipelineBaseB
import Osmium.Lemmas.PipelineBaseC
import Osmium.Lemmas.PipelineBaseD
import Osmium.Lemmas.PipelineBaseE
import Osmium.Lemmas.PipelineBaseF
import Osmium.Lemmas.PipelineBaseG

namespace Osmium.Pipeline

open Osmium.Mon

set_option linter.unusedSimpArgs false

variable {α : Type}
variable [DecidableEq α]

/-! ## witness: `status = okay → outq.inUse = true` is not an invariant -/

/-- run a trace -/
def runTr {α : Type} [DecidableEq α] (c : Cfg α) (s : State α) : List (Ev α) → Option (State α)
  | [] => some s
  | e :: r => (step? c s e).bind fun s1 => runTr c s1 r

theorem runTr_reachable {α : Type} [DecidableEq α] (c : Cfg α) (s s' : State α) (tr : List (Ev α))
    (hs : (machine c).Reachable s) (h : runTr c s tr = some s') : (machine c).Reachable s' := by
  induction tr generalizing s with
  | nil => simp [runTr] at h; exact h ▸ hs
  | cons e r ih =>
    simp only [runTr, Option.bind_eq_some_iff] at h
    obtain ⟨s1, h1, h2⟩ := h
    exact ih s1 (.step hs h1) h2

/-- empty file, nothing faulty, unbounded queues -/
def cfgEmpty : Cfg Nat :=
  { file := [], sel := fun _ => true, strip := id, chunkEnd := [], pbf := false, blobEnd := [], usePool := false,
    workers := [], wqMax := 0, inqC := { max := 0, spurious := true }, outqC := { max := 0, spurious := true },
    single := false, nothing := false, readFault := none, closeFault := false, parseFault := none, blobFault := none }

/-- read() of an empty file up to the store `m_in_use = false` inside the shutdown() that follows the
    end-of-data marker -/
def trEodSdFlag : List (Ev Nat) :=
  [ .rTestDone false, .rRead .eod, .rCloseDec true,
    .qi (.pushEnter tR 0), .qi (.pushTest tR true), .qi (.pushLocked tR 1 none), .rSet,
    .pInUse true, .qi (.popNow tP 1 (some (tR, 0))), .pGet .eod,
    .qi (.sdEnter tP), .qi (.sdFlag tP), .qi (.sdLocked tP),
    .pHeader, .pRunEnd,
    .qo (.pushEnter tP 1), .qo (.pushTest tP true), .qo (.pushLocked tP 1 none), .pSet,
    .cRead, .cInUse true, .qo (.popNow tC 1 (some (tP, 1))), .cGet .eod,
    .qo (.sdEnter tC), .qo (.sdFlag tC) ]

/-- `status = okay → outq.inUse = true` is NOT an invariant: witness. -/
theorem okay_not_inUse_reachable :
    ∃ s : State Nat, (machine cfgEmpty).Reachable s ∧ s.status = .okay ∧ s.outq.inUse = false ∧ s.cpc = .eodSdRun := by
  have h : (runTr cfgEmpty (init Nat) trEodSdFlag).map
      (fun s => decide (s.status = .okay ∧ s.outq.inUse = false ∧ s.cpc = .eodSdRun)) = some true := by decide
  obtain ⟨s, hs, hp⟩ := Option.map_eq_some_iff.mp h
  exact ⟨s, runTr_reachable _ _ _ _ .init hs, of_decide_eq_true hp⟩

end Osmium.Pipeline
