/-
Pipeline base lemmas (C05, C07): every pipeline step is a step of the embedded queue machines
(so every QueueSM theorem of C19 holds for both Reader queues), each Reader queue has a single
producer, and the simple safety invariants of the consumer's status machine / header promise.
-/
import Osmium.Lemmas.PipelineDefs

namespace Osmium.Pipeline

open Osmium.Mon

set_option linter.unusedSimpArgs false

variable {α : Type}

/-! ## `afterPop` / `afterClose` field by field -/

section proj
variable (s : State α) (lv : List (List α)) (k : CK)

@[simp] theorem afterPop_inq : (afterPop s lv).inq = s.inq := by
  unfold afterPop; split <;> (try split) <;> rfl
@[simp] theorem afterPop_outq : (afterPop s lv).outq = s.outq := by
  unfold afterPop; split <;> (try split) <;> rfl
@[simp] theorem afterPop_fut : (afterPop s lv).fut = s.fut := by
  unfold afterPop; split <;> (try split) <;> rfl
@[simp] theorem afterPop_want : (afterPop s lv).want = s.want := by
  unfold afterPop; split <;> (try split) <;> rfl
@[simp] theorem afterPop_nIn : (afterPop s lv).nIn = s.nIn := by
  unfold afterPop; split <;> (try split) <;> rfl
@[simp] theorem afterPop_nOut : (afterPop s lv).nOut = s.nOut := by
  unfold afterPop; split <;> (try split) <;> rfl
@[simp] theorem afterPop_rpc : (afterPop s lv).rpc = s.rpc := by
  unfold afterPop; split <;> (try split) <;> rfl
@[simp] theorem afterPop_stop : (afterPop s lv).stop = s.stop := by
  unfold afterPop; split <;> (try split) <;> rfl
@[simp] theorem afterPop_reads : (afterPop s lv).reads = s.reads := by
  unfold afterPop; split <;> (try split) <;> rfl
@[simp] theorem afterPop_ppc : (afterPop s lv).ppc = s.ppc := by
  unfold afterPop; split <;> (try split) <;> rfl
@[simp] theorem afterPop_avail : (afterPop s lv).avail = s.avail := by
  unfold afterPop; split <;> (try split) <;> rfl
@[simp] theorem afterPop_next : (afterPop s lv).next = s.next := by
  unfold afterPop; split <;> (try split) <;> rfl
@[simp] theorem afterPop_inputDone : (afterPop s lv).inputDone = s.inputDone := by
  unfold afterPop; split <;> (try split) <;> rfl
@[simp] theorem afterPop_hdr : (afterPop s lv).hdr = s.hdr := by
  unfold afterPop; split <;> (try split) <;> rfl
@[simp] theorem afterPop_hdrSets : (afterPop s lv).hdrSets = s.hdrSets := by
  unfold afterPop; split <;> (try split) <;> rfl
@[simp] theorem afterPop_nested : (afterPop s lv).nested = s.nested := by
  unfold afterPop; split <;> (try split) <;> rfl
@[simp] theorem afterPop_cur : (afterPop s lv).cur = s.cur := by
  unfold afterPop; split <;> (try split) <;> rfl
@[simp] theorem afterPop_blob : (afterPop s lv).blob = s.blob := by
  unfold afterPop; split <;> (try split) <;> rfl
@[simp] theorem afterPop_work : (afterPop s lv).work = s.work := by
  unfold afterPop; split <;> (try split) <;> rfl
@[simp] theorem afterPop_wpc : (afterPop s lv).wpc = s.wpc := by
  unfold afterPop; split <;> (try split) <;> rfl
@[simp] theorem afterPop_status : (afterPop s lv).status = s.status := by
  unfold afterPop; split <;> (try split) <;> rfl
@[simp] theorem afterPop_hdrGot : (afterPop s lv).hdrGot = s.hdrGot := by
  unfold afterPop; split <;> (try split) <;> rfl
@[simp] theorem afterPop_results : (afterPop s lv).results = s.results := by
  unfold afterPop; split <;> (try split) <;> rfl
@[simp] theorem afterPop_faulted : (afterPop s lv).faulted = s.faulted := by
  unfold afterPop; split <;> (try split) <;> rfl
@[simp] theorem afterPop_sawEod : (afterPop s lv).sawEod = s.sawEod := by
  unfold afterPop; split <;> (try split) <;> rfl
@[simp] theorem afterPop_readsAtClose : (afterPop s lv).readsAtClose = s.readsAtClose := by
  unfold afterPop; split <;> (try split) <;> rfl
@[simp] theorem afterPop_destroyed : (afterPop s lv).destroyed = s.destroyed := by
  unfold afterPop; split <;> (try split) <;> rfl

/-- the three fields `afterPop` changes: with `l` the first (oldest) level -/
theorem afterPop_nil : afterPop s [] = { s with cpc := .readPop } := rfl

@[simp] theorem afterPop_back : (afterPop s lv).back = if lv.length ≤ 1 then s.back else lv.tail := by
  unfold afterPop; split <;> (try split) <;> simp_all
  all_goals (rename_i h _; cases ‹List (List α)› <;> simp_all)

@[simp] theorem afterPop_cpc : (afterPop s lv).cpc =
    if (lv.headD []).isEmpty then .readPop else .ret (.data (lv.headD [])) := by
  unfold afterPop; split <;> (try split) <;> simp_all

@[simp] theorem afterPop_delivered : (afterPop s lv).delivered = s.delivered ++ lv.headD [] := by
  unfold afterPop; split <;> (try split) <;> simp_all

@[simp] theorem afterClose_inq : (afterClose s k).inq = s.inq := by cases k <;> rfl
@[simp] theorem afterClose_outq : (afterClose s k).outq = s.outq := by cases k <;> rfl
@[simp] theorem afterClose_fut : (afterClose s k).fut = s.fut := by cases k <;> rfl
@[simp] theorem afterClose_want : (afterClose s k).want = s.want := by cases k <;> rfl
@[simp] theorem afterClose_nIn : (afterClose s k).nIn = s.nIn := by cases k <;> rfl
@[simp] theorem afterClose_nOut : (afterClose s k).nOut = s.nOut := by cases k <;> rfl
@[simp] theorem afterClose_rpc : (afterClose s k).rpc = s.rpc := by cases k <;> rfl
@[simp] theorem afterClose_stop : (afterClose s k).stop = s.stop := by cases k <;> rfl
@[simp] theorem afterClose_reads : (afterClose s k).reads = s.reads := by cases k <;> rfl
@[simp] theorem afterClose_ppc : (afterClose s k).ppc = s.ppc := by cases k <;> rfl
@[simp] theorem afterClose_avail : (afterClose s k).avail = s.avail := by cases k <;> rfl
@[simp] theorem afterClose_next : (afterClose s k).next = s.next := by cases k <;> rfl
@[simp] theorem afterClose_inputDone : (afterClose s k).inputDone = s.inputDone := by cases k <;> rfl
@[simp] theorem afterClose_hdr : (afterClose s k).hdr = s.hdr := by cases k <;> rfl
@[simp] theorem afterClose_hdrSets : (afterClose s k).hdrSets = s.hdrSets := by cases k <;> rfl
@[simp] theorem afterClose_nested : (afterClose s k).nested = s.nested := by cases k <;> rfl
@[simp] theorem afterClose_cur : (afterClose s k).cur = s.cur := by cases k <;> rfl
@[simp] theorem afterClose_blob : (afterClose s k).blob = s.blob := by cases k <;> rfl
@[simp] theorem afterClose_work : (afterClose s k).work = s.work := by cases k <;> rfl
@[simp] theorem afterClose_wpc : (afterClose s k).wpc = s.wpc := by cases k <;> rfl
@[simp] theorem afterClose_back : (afterClose s k).back = s.back := by cases k <;> rfl
@[simp] theorem afterClose_hdrGot : (afterClose s k).hdrGot = s.hdrGot := by cases k <;> rfl
@[simp] theorem afterClose_delivered : (afterClose s k).delivered = s.delivered := by cases k <;> rfl
@[simp] theorem afterClose_results : (afterClose s k).results = s.results := by cases k <;> rfl
@[simp] theorem afterClose_faulted : (afterClose s k).faulted = s.faulted := by cases k <;> rfl
@[simp] theorem afterClose_sawEod : (afterClose s k).sawEod = s.sawEod := by cases k <;> rfl
@[simp] theorem afterClose_destroyed : (afterClose s k).destroyed = s.destroyed := by cases k <;> rfl
@[simp] theorem afterClose_readsAtClose :
    (afterClose s k).readsAtClose = s.readsAtClose.or (some s.reads) := by cases k <;> rfl
@[simp] theorem afterClose_status :
    (afterClose s k).status = match k with | .rethrow _ => .error | _ => s.status := by cases k <;> rfl
@[simp] theorem afterClose_cpc :
    (afterClose s k).cpc = match k with | .ret => .ret .ok | .rethrow c => .ret (.exc c) | .dtor => .dtorJoinP := by
  cases k <;> rfl

end proj

/-! ## definitions for the status invariant -/

/-- consumer program counters in which the Reader has not started to close -/
def cpcLive : CPc α → Bool
  | .idle | .hdrWait | .readPop | .readWaitPop | .readGot _ | .eodSd | .eodSdRun | .ret _ => true
  | _ => false

/-- consumer program counters inside `m_osmdata_queue.shutdown()` -/
def cpcSdRun : CPc α → Bool
  | .closeSdRun _ | .eodSdRun | .dtorSdRun => true
  | _ => false

/-- the invariant of the consumer's status machine -/
def StatusInv (s : State α) : Prop :=
  (s.status = .okay → s.stop = false ∧ cpcLive s.cpc = true ∧ (s.outq.inUse = true ∨ s.cpc = .eodSdRun)) ∧
  ((s.outq.pc tC = .sdEntered ∨ s.outq.pc tC = .sdFlagged) → cpcSdRun s.cpc = true) ∧
  (s.status = .error → s.cpc = .idle ∨ ∃ r, s.cpc = .ret r)

theorem cpcLive_sdRun (p : CPc α) (h1 : cpcLive p = true) (h2 : cpcSdRun p = true) : p = .eodSdRun := by
  cases p <;> simp_all [cpcLive, cpcSdRun]


/-! ## definitions and helper lemmas for the buffer invariant -/

def isBuf : Val α → Bool
  | .buf _ => true
  | _ => false

def wfVal : Val α → Bool
  | .buf lv => wfLevels lv
  | _ => true

/-- the value the read thread is handing to the input queue -/
def rpcVal : RPc α → Option (Val α)
  | .push v _ | .pushing _ v _ | .pushed _ v _ => some v
  | _ => none

/-- the value the parser thread is handing to the osmdata queue -/
def ppcVal : PPc α → Option (Val α)
  | .push v _ | .pushing _ (some v) _ | .pushed _ v _ => some v
  | _ => none

/-- parser program counters after the catch block of Parser::parse (never back to run()) -/
def ppcPost : PPc α → Bool
  | .push _ k | .pushing _ (some _) k | .pushed _ _ k | .sdIn k | .sdInRun k => k != .run
  | .done => true
  | _ => false

/-- consumer program counters in which `m_back_buffers` is empty: inside read() before a buffer was
    unpacked, and inside the close() of a catch block -/
def cpcBackNil : CPc α → Bool
  | .readPop | .readWaitPop | .readGot _ | .eodSd | .eodSdRun
  | .closeSd (.rethrow _) | .closeSdRun (.rethrow _) | .closeJoin (.rethrow _) => true
  | _ => false

def NoBuf (s : State α) : Prop :=
  (∀ id, isBuf (s.want id) = false) ∧ (∀ id v, s.fut id = some v → isBuf v = false) ∧
  (∀ v, ppcVal s.ppc = some v → isBuf v = false) ∧ s.nested = [] ∧ s.cur = [] ∧ s.back = []

def BufInv (s : State α) : Prop :=
  (∀ v, rpcVal s.rpc = some v → isBuf v = false) ∧
  (∀ l ∈ s.nested, l ≠ []) ∧
  (∀ id, wfVal (s.want id) = true) ∧
  (∀ id v, s.fut id = some v → wfVal v = true) ∧
  (∀ v, ppcVal s.ppc = some v → wfVal v = true) ∧
  (cpcBackNil s.cpc = true → s.back = []) ∧
  (s.status = .error → s.back = []) ∧
  (s.hdr ≠ some none → NoBuf s) ∧
  (∀ code, s.hdr = some (some code) → ppcPost s.ppc = true)

theorem wfLevels_append_singleton (n : List (List α)) (cur : List α) (h : ∀ l ∈ n, l ≠ []) :
    wfLevels (n ++ [cur]) = true := by
  induction n with
  | nil => simp [wfLevels]
  | cons a n ih =>
    cases n with
    | nil => simp_all [wfLevels]
    | cons b n => simp_all [wfLevels]

theorem isBuf_false_wfVal (v : Val α) (h : isBuf v = false) : wfVal v = true := by
  cases v <;> simp_all [isBuf, wfVal]

theorem afterPop_backNil (s : State α) (lv : List (List α)) (hw : wfLevels lv = true) (hb : s.back = [])
    (hc : cpcBackNil (afterPop s lv).cpc = true) : (afterPop s lv).back = [] := by
  unfold afterPop at hc ⊢
  split at hc <;> (try split at hc) <;> simp_all [wfLevels, cpcBackNil]

theorem hdr_cases (h : Option (Option Nat)) : h = none ∨ h = some none ∨ ∃ c, h = some (some c) := by
  rcases h with _ | _ | c <;> simp

theorem ppcVal_pCont (k : PK) (v : Val α) (h : ppcVal (pCont k : PPc α) = some v) : v = .eod := by
  cases k <;> simp_all [pCont, ppcVal]

theorem rpcVal_rCont (k : RK) (v : Val α) (h : rpcVal (rCont k : RPc α) = some v) : v = .eod := by
  cases k <;> simp_all [rCont, rpcVal]

theorem ppcVal_pCont_iff (k : PK) (v : Val α) : ppcVal (pCont k : PPc α) = some v ↔ (k = .eodNext ∧ v = .eod) := by
  cases k <;> simp [pCont, ppcVal, eq_comm]

theorem rpcVal_rCont_iff (k : RK) (v : Val α) : rpcVal (rCont k : RPc α) = some v ↔ (k = .eodNext ∧ v = .eod) := by
  cases k <;> simp [rCont, rpcVal, eq_comm]

theorem ppcPost_pCont (k : PK) (h : (k != .run) = true) : ppcPost (pCont k : PPc α) = true := by
  cases k <;> simp_all [pCont, ppcPost]

theorem cpcBackNil_closeSdRun (k : CK) : cpcBackNil (.closeSdRun k : CPc α) = cpcBackNil (.closeSd k : CPc α) := by
  cases k <;> rfl
theorem cpcBackNil_closeJoin (k : CK) : cpcBackNil (.closeJoin k : CPc α) = cpcBackNil (.closeSd k : CPc α) := by
  cases k <;> rfl

theorem wfLevels_single (b : List α) : wfLevels [b] = true := rfl

variable [DecidableEq α]

/-- Case split of one pipeline step over all events (queue events split into the thirteen QueueSM
    events).  In every goal `s'` is replaced by the successor state; for a queue event the new
    queue state is `q` and `hq : QueueSM.step? _ _ _ = some q`; the guards are anonymous
    hypotheses. -/
syntax "pl_cases " ident " with " ident ident ident : tactic
macro_rules
  | `(tactic| pl_cases $e:ident with $h:ident $q:ident $hq:ident) => `(tactic|
      ((try simp only [Machine.Step, machine] at $h:ident)
       cases $e:ident <;> (try (rename_i qe; cases qe)) <;>
         simp only [step?] at $h:ident <;> (repeat' split at $h:ident) <;>
         simp only [Option.map_eq_some_iff, Option.some.injEq, reduceCtorEq, false_and, exists_false] at $h:ident <;>
         first
           | (obtain ⟨$q:ident, $hq:ident, $h:ident⟩ := $h:ident; (repeat' split at $h:ident) <;> subst $h:ident)
           | subst $h:ident))

/-- every pipeline step leaves the input queue alone or is a step of the queue machine -/
theorem step_inq (c : Cfg α) (s s' : State α) (e : Ev α) (h : step? c s e = some s') :
    s'.inq = s.inq ∨ ∃ qe, QueueSM.step? c.inqC s.inq qe = some s'.inq := by
  pl_cases e with h q hq
  all_goals first
    | (left; simp; done)
    | (right; exact ⟨_, hq⟩)

theorem step_outq (c : Cfg α) (s s' : State α) (e : Ev α) (h : step? c s e = some s') :
    s'.outq = s.outq ∨ ∃ qe, QueueSM.step? c.outqC s.outq qe = some s'.outq := by
  pl_cases e with h q hq
  all_goals first
    | (left; simp; done)
    | (right; exact ⟨_, hq⟩)

/-! ## frame lemmas of the queue machine (who can change what) -/

section qframe
variable {β : Type} [DecidableEq β]

theorem q_producers (c : QueueSM.Cfg) (s s' : QueueSM.State β) (e : QueueSM.Ev β)
    (h : QueueSM.step? c s e = some s') :
    ∀ t, t ∈ s'.producers → t ∈ s.producers ∨ ∃ x, e = .pushEnter t x := by
  replace h : (QueueSM.machine β c).Step s e s' := h
  qsm_cases e with h tid t <;> intro u hu <;> simp only [QueueSM.take_producers] at hu <;>
    first | grind | (simp_all; done) | (simp_all <;> grind)

theorem q_called (c : QueueSM.Cfg) (s s' : QueueSM.State β) (e : QueueSM.Ev β)
    (h : QueueSM.step? c s e = some s') :
    ∀ x, x ∈ s'.called → x ∈ s.called ∨ e = .pushEnter x.1 x.2 := by
  replace h : (QueueSM.machine β c).Step s e s' := h
  qsm_cases e with h tid t <;> intro u hu <;> simp only [QueueSM.take_called] at hu <;> grind

/-- a thread is inside shutdown() only after it called it, and leaves it with `sdLocked` -/
theorem q_pc_sd (c : QueueSM.Cfg) (s s' : QueueSM.State β) (e : QueueSM.Ev β)
    (h : QueueSM.step? c s e = some s') (u : Tid) :
    (s'.pc u = .sdEntered ∨ s'.pc u = .sdFlagged) →
      ((s.pc u = .sdEntered ∨ s.pc u = .sdFlagged) ∧ e ≠ .sdLocked u) ∨ e = .sdEnter u := by
  replace h : (QueueSM.machine β c).Step s e s' := h
  qsm_cases e with h tid t <;> simp only [QueueSM.take_pc, setPc_apply] <;> grind

theorem q_pc_pop (c : QueueSM.Cfg) (s s' : QueueSM.State β) (e : QueueSM.Ev β)
    (h : QueueSM.step? c s e = some s') (u : Tid) :
    s'.pc u = .popWaiting → s.pc u = .popWaiting ∨ e = .popBlock u := by
  replace h : (QueueSM.machine β c).Step s e s' := h
  qsm_cases e with h tid t <;> simp only [QueueSM.take_pc, setPc_apply] <;> grind

/-- `m_in_use` is only cleared by the store of a thread inside shutdown() -/
theorem q_inUse (c : QueueSM.Cfg) (s s' : QueueSM.State β) (e : QueueSM.Ev β)
    (h : QueueSM.step? c s e = some s') :
    s'.inUse = false → s.inUse = false ∨ ∃ t, e = .sdFlag t ∧ s.pc t = .sdEntered := by
  replace h : (QueueSM.machine β c).Step s e s' := h
  qsm_cases e with h tid t <;> simp only [QueueSM.take_inUse] <;> grind

end qframe

/-- The input queue of ANY pipeline run is a run of the queue machine of C19. -/
theorem reachable_inq (c : Cfg α) (s : State α) (h : (machine c).Reachable s) :
    (QueueSM.machine Nat c.inqC).Reachable s.inq := by
  induction h with
  | init => exact .init
  | step hr hst ih =>
    rcases step_inq c _ _ _ hst with h | ⟨qe, h⟩
    · rw [h]; exact ih
    · exact .step ih h

/-- The osmdata queue of ANY pipeline run is a run of the queue machine of C19. -/
theorem reachable_outq (c : Cfg α) (s : State α) (h : (machine c).Reachable s) :
    (QueueSM.machine Nat c.outqC).Reachable s.outq := by
  induction h with
  | init => exact .init
  | step hr hst ih =>
    rcases step_outq c _ _ _ hst with h | ⟨qe, h⟩
    · rw [h]; exact ih
    · exact .step ih h

/-! ## single producer / single consumer / single shutdown caller per Reader queue -/

theorem inq_single_producer (c : Cfg α) (s : State α) (h : (machine c).Reachable s) :
    (∀ t ∈ s.inq.producers, t = tR) ∧ (∀ x ∈ s.inq.called, x.1 = tR) := by
  revert s
  apply Machine.invariant
  · simp [machine, init, QueueSM.init]
  · intro s e s' _ ih hst
    obtain ⟨ih1, ih2⟩ := ih
    pl_cases e with hst q hq
    all_goals first
      | exact ⟨ih1, ih2⟩
      | (simp only [afterPop_inq, afterPop_outq, afterClose_inq, afterClose_outq]; exact ⟨ih1, ih2⟩)
      | (have h1 := q_producers _ _ _ _ hq
         have h2 := q_called _ _ _ _ hq
         refine ⟨fun t ht => ?_, fun x hx => ?_⟩
         · rcases h1 t ht with h | ⟨y, h⟩
           · exact ih1 t h
           · cases h <;> first | assumption | exact (‹_ ∧ _›).1
         · rcases h2 x hx with h | h
           · exact ih2 x h
           · cases h <;> first | assumption | exact (‹_ ∧ _›).1)

theorem outq_single_producer (c : Cfg α) (s : State α) (h : (machine c).Reachable s) :
    (∀ t ∈ s.outq.producers, t = tP) ∧ (∀ x ∈ s.outq.called, x.1 = tP) := by
  revert s
  apply Machine.invariant
  · simp [machine, init, QueueSM.init]
  · intro s e s' _ ih hst
    obtain ⟨ih1, ih2⟩ := ih
    pl_cases e with hst q hq
    all_goals first
      | exact ⟨ih1, ih2⟩
      | (simp only [afterPop_inq, afterPop_outq, afterClose_inq, afterClose_outq]; exact ⟨ih1, ih2⟩)
      | (have h1 := q_producers _ _ _ _ hq
         have h2 := q_called _ _ _ _ hq
         refine ⟨fun t ht => ?_, fun x hx => ?_⟩
         · rcases h1 t ht with h | ⟨y, h⟩
           · exact ih1 t h
           · cases h <;> first | assumption | exact (‹_ ∧ _›).1
         · rcases h2 x hx with h | h
           · exact ih2 x h
           · cases h <;> first | assumption | exact (‹_ ∧ _›).1)

theorem length_le_one_of_nodup_const {l : List Tid} {a : Tid} (hn : l.Nodup) (h : ∀ t ∈ l, t = a) :
    l.length ≤ 1 := by
  match l, hn, h with
  | [], _, _ => simp
  | [_], _, _ => simp
  | x :: y :: _, hn, h =>
    have hx := h x (by simp)
    have hy := h y (by simp)
    simp_all

/-- The C19 finding "push() spins after shutdown() with ≥ 2 producers on a bounded queue" needs two
    producers: not reachable from a Reader. -/
theorem inq_producers_le_one (c : Cfg α) (s : State α) (h : (machine c).Reachable s) :
    s.inq.producers.length ≤ 1 :=
  length_le_one_of_nodup_const (QueueSM.inv_producers _ _ (reachable_inq c s h)).1 (inq_single_producer c s h).1

theorem outq_producers_le_one (c : Cfg α) (s : State α) (h : (machine c).Reachable s) :
    s.outq.producers.length ≤ 1 :=
  length_le_one_of_nodup_const (QueueSM.inv_producers _ _ (reachable_outq c s h)).1 (outq_single_producer c s h).1

/-- only the parser thread calls shutdown() on / pops from the input queue -/
theorem inq_roles (c : Cfg α) (s : State α) (h : (machine c).Reachable s) :
    (∀ t, (s.inq.pc t = .sdEntered ∨ s.inq.pc t = .sdFlagged) → t = tP) ∧
    (∀ t, s.inq.pc t = .popWaiting → t = tP) := by
  revert s
  apply Machine.invariant
  · simp [machine, init, QueueSM.init]
  · intro s e s' _ ih hst
    obtain ⟨ih1, ih2⟩ := ih
    pl_cases e with hst q hq
    all_goals first
      | exact ⟨ih1, ih2⟩
      | (simp only [afterPop_inq, afterPop_outq, afterClose_inq, afterClose_outq]; exact ⟨ih1, ih2⟩)
      | (refine ⟨fun t ht => ?_, fun t ht => ?_⟩
         · rcases q_pc_sd _ _ _ _ hq t ht with h | h
           · exact ih1 t h.1
           · cases h <;> first | assumption | exact (‹_ ∧ _›).1
         · rcases q_pc_pop _ _ _ _ hq t ht with h | h
           · exact ih2 t h
           · cases h <;> first | assumption | exact (‹_ ∧ _›).1)

/-- only the consumer calls shutdown() on / pops from the osmdata queue -/
theorem outq_roles (c : Cfg α) (s : State α) (h : (machine c).Reachable s) :
    (∀ t, (s.outq.pc t = .sdEntered ∨ s.outq.pc t = .sdFlagged) → t = tC) ∧
    (∀ t, s.outq.pc t = .popWaiting → t = tC) := by
  revert s
  apply Machine.invariant
  · simp [machine, init, QueueSM.init]
  · intro s e s' _ ih hst
    obtain ⟨ih1, ih2⟩ := ih
    pl_cases e with hst q hq
    all_goals first
      | exact ⟨ih1, ih2⟩
      | (simp only [afterPop_inq, afterPop_outq, afterClose_inq, afterClose_outq]; exact ⟨ih1, ih2⟩)
      | (refine ⟨fun t ht => ?_, fun t ht => ?_⟩
         · rcases q_pc_sd _ _ _ _ hq t ht with h | h
           · exact ih1 t h.1
           · cases h <;> first | assumption | exact (‹_ ∧ _›).1
         · rcases q_pc_pop _ _ _ _ hq t ht with h | h
           · exact ih2 t h
           · cases h <;> first | assumption | exact (‹_ ∧ _›).1)

theorem inq_sd_caller (c : Cfg α) (s : State α) (h : (machine c).Reachable s) :
    ∀ t, (s.inq.pc t = .sdEntered ∨ s.inq.pc t = .sdFlagged) → t = tP := (inq_roles c s h).1
theorem outq_sd_caller (c : Cfg α) (s : State α) (h : (machine c).Reachable s) :
    ∀ t, (s.outq.pc t = .sdEntered ∨ s.outq.pc t = .sdFlagged) → t = tC := (outq_roles c s h).1
theorem inq_consumer (c : Cfg α) (s : State α) (h : (machine c).Reachable s) :
    ∀ t, s.inq.pc t = .popWaiting → t = tP := (inq_roles c s h).2
theorem outq_consumer (c : Cfg α) (s : State α) (h : (machine c).Reachable s) :
    ∀ t, s.outq.pc t = .popWaiting → t = tC := (outq_roles c s h).2


/-! ## the header promise is fulfilled exactly once (C07) -/

theorem hdr_once (c : Cfg α) (s : State α) (h : (machine c).Reachable s) :
    s.hdrSets ≤ 1 ∧ (s.hdr = none ↔ s.hdrSets = 0) := by
  revert s
  apply Machine.invariant
  · simp [machine, init]
  · intro s e s' _ ih hst
    pl_cases e with hst q hq
    all_goals first
      | exact ih
      | (simp only [afterPop_hdr, afterPop_hdrSets, afterClose_hdr, afterClose_hdrSets]; exact ih)
      | (cases hh : s.hdr <;> simp_all)

theorem hdr_stable (c : Cfg α) (s s' : State α) (e : Ev α) (hst : (machine c).Step s e s') :
    s.hdr ≠ none → s'.hdr = s.hdr := by
  intro hne
  pl_cases e with hst q hq
  all_goals first
    | rfl
    | (simp only [afterPop_hdr, afterClose_hdr]; done)
    | (cases hh : s.hdr <;> simp_all)

/-! ## read thread: joined by close(), no read() afterwards -/

theorem reads_after_close_inv (c : Cfg α) (s : State α) (h : (machine c).Reachable s) :
    ∀ n, s.readsAtClose = some n → s.rpc = .done ∧ s.reads = n := by
  revert s
  apply Machine.invariant
  · simp [machine, init]
  · intro s e s' _ ih hst
    pl_cases e with hst q hq
    all_goals first
      | exact ih
      | (simp only [afterPop_readsAtClose, afterPop_rpc, afterPop_reads]; exact ih)
      | (intro n hn; have := ih n hn; simp_all; done)
      | (intro n; simp only [afterClose_readsAtClose, afterClose_rpc, afterClose_reads]
         cases hh : s.readsAtClose <;> simp_all)

theorem reads_after_close (c : Cfg α) (s : State α) (h : (machine c).Reachable s) :
    ∀ n, s.readsAtClose = some n → s.reads = n :=
  fun n hn => (reads_after_close_inv c s h n hn).2


/-- the read thread never leaves `done` -/
theorem rpc_done_stable (c : Cfg α) (s s' : State α) (e : Ev α) (hst : (machine c).Step s e s') :
    s.rpc = .done → s'.rpc = .done := by
  intro hd
  pl_cases e with hst q hq
  all_goals first
    | exact hd
    | (simp only [afterPop_rpc, afterClose_rpc]; exact hd)
    | simp_all


theorem status_inv (c : Cfg α) : ∀ s, (machine c).Reachable s → StatusInv s := by
  apply Machine.invariant
  · simp [StatusInv, machine, init, QueueSM.init, cpcLive]
  · intro s e s' _ ih hst
    obtain ⟨ih1, ih2, ih3⟩ := ih
    pl_cases e with hst q hq
    all_goals first | exact ⟨ih1, ih2, ih3⟩ | skip
    any_goals (revert hq; intro hq
               have hsd := q_pc_sd _ _ _ _ hq tC
               have hiu := q_inUse _ _ _ _ hq)
    all_goals simp only [StatusInv, afterPop_status, afterPop_stop, afterPop_outq, afterPop_cpc,
      afterClose_status, afterClose_stop, afterClose_outq, afterClose_cpc]
    all_goals (grind [cpcLive, cpcSdRun, cpcLive_sdRun])

/-- status okay: the read thread has not been told to stop, and the osmdata queue is in use, except
    inside the shutdown() that read() calls after it popped the end-of-data marker (status becomes
    eof only when that shutdown() returns). -/
theorem status_okay_stop (c : Cfg α) (s : State α) (h : (machine c).Reachable s) :
    s.status = .okay → s.stop = false ∧ (s.outq.inUse = true ∨ s.cpc = .eodSdRun) := by
  intro hs
  obtain ⟨h1, h2, h3⟩ := (status_inv c s h).1 hs
  exact ⟨h1, h3⟩

theorem status_okay_live (c : Cfg α) (s : State α) (h : (machine c).Reachable s) :
    s.status = .okay → cpcLive s.cpc = true := fun hs => ((status_inv c s h).1 hs).2.1

theorem status_error_cpc (c : Cfg α) (s : State α) (h : (machine c).Reachable s) :
    s.status = .error → s.cpc = .idle ∨ ∃ r, s.cpc = .ret r := (status_inv c s h).2.2

/-- the consumer is inside `m_osmdata_queue.shutdown()` only in the three `…SdRun` states -/
theorem outq_sd_cpc (c : Cfg α) (s : State α) (h : (machine c).Reachable s) :
    (s.outq.pc tC = .sdEntered ∨ s.outq.pc tC = .sdFlagged) → cpcSdRun s.cpc = true := (status_inv c s h).2.1

/-- status error is left only by close() / the destructor (status closed) -/
theorem error_is_final (c : Cfg α) (s : State α) (h : (machine c).Reachable s) (e : Ev α) (s' : State α)
    (hst : (machine c).Step s e s') : s.status = .error → s'.status = .error ∨ s'.status = .closed := by
  intro hs
  have h3 := status_error_cpc c s h hs
  pl_cases e with hst q hq
  all_goals first
    | (left; exact hs)
    | (simp only [afterPop_status, afterClose_status]; grind)

/-- after an error no read() hands out anything but what is still in the back buffers -/
theorem no_data_after_error (c : Cfg α) (s : State α) (h : (machine c).Reachable s) (e : Ev α) (s' : State α)
    (hst : (machine c).Step s e s') : s.status = .error → s.back = [] → s'.delivered = s.delivered := by
  intro hs hb
  have h3 := status_error_cpc c s h hs
  pl_cases e with hst q hq
  all_goals first
    | rfl
    | (simp only [afterPop_delivered, afterClose_delivered] <;> grind)

/-- read() on a Reader in status error throws io_error unless back buffers are left -/
theorem read_after_error (c : Cfg α) (s s' : State α) (hst : (machine c).Step s .cRead s') :
    s.status = .error → s'.cpc = .ret .ioError ∨ s.back ≠ [] := by
  intro hs
  simp only [Machine.Step, machine, step?] at hst
  repeat' split at hst
  all_goals (simp only [Option.some.injEq, reduceCtorEq] at hst)
  all_goals (subst hst; simp_all)

/-! ## buffers in flight are well-formed; status error means nothing is left to deliver -/


set_option maxHeartbeats 1000000 in
theorem buf_inv (c : Cfg α) : ∀ s, (machine c).Reachable s → BufInv s := by
  apply Machine.invariant
  · simp [BufInv, NoBuf, machine, init, rpcVal, ppcVal, wfVal, isBuf, cpcBackNil]
  · intro s e s' hr ih hst
    have herr := status_error_cpc c s hr
    pl_cases e with hst q hq
    all_goals first | exact ih | skip
    all_goals simp only [BufInv, NoBuf] at ih ⊢
    all_goals obtain ⟨i1, i2, i3, i4, i5, i6, i7, i8, i9⟩ := ih
    all_goals try simp only [afterPop_rpc, afterPop_nested, afterPop_want, afterPop_fut, afterPop_ppc, afterPop_status,
      afterPop_hdr, afterPop_cur, afterClose_rpc, afterClose_nested, afterClose_want, afterClose_fut, afterClose_ppc,
      afterClose_status, afterClose_hdr, afterClose_cur, afterClose_back, afterClose_cpc]
    all_goals have hh := hdr_cases s.hdr
    all_goals try simp only [ppcVal_pCont_iff, rpcVal_rCont_iff]
    all_goals (refine ⟨?_, ?_, ?_, ?_, ?_, ?_, ?_, ?_, ?_⟩)
    all_goals first
      | assumption
      | (grind [rpcVal, ppcVal, wfVal, isBuf, cpcBackNil, ppcPost, setPc_apply, isBuf_false_wfVal, ppcVal_pCont, rpcVal_rCont,
          ppcPost_pCont, cpcBackNil_closeSdRun, cpcBackNil_closeJoin, wfLevels_single, wfLevels_append_singleton, afterPop_backNil])

/-- every buffer a future holds has only non-empty nested levels (what `Reader::read` relies on
    when it moves the nested buffers to `m_back_buffers`) -/
theorem fut_wf (c : Cfg α) (s : State α) (h : (machine c).Reachable s) (id : Nat) (lv : List (List α)) :
    s.fut id = some (.buf lv) → wfLevels lv = true := by
  intro hf
  have := (buf_inv c s h).2.2.2.1 id _ hf
  simpa [wfVal] using this

/-- a Reader in status error has no back buffers left … -/
theorem error_back_nil (c : Cfg α) (s : State α) (h : (machine c).Reachable s) :
    s.status = .error → s.back = [] := (buf_inv c s h).2.2.2.2.2.2.1

/-- … so nothing is handed to the caller any more … -/
theorem no_data_after_error' (c : Cfg α) (s : State α) (h : (machine c).Reachable s) (e : Ev α) (s' : State α)
    (hst : (machine c).Step s e s') : s.status = .error → s'.delivered = s.delivered :=
  fun hs => no_data_after_error c s h e s' hst hs (error_back_nil c s h hs)

/-- … and every read() throws io_error. -/
theorem read_after_error' (c : Cfg α) (s : State α) (h : (machine c).Reachable s) (s' : State α)
    (hst : (machine c).Step s .cRead s') : s.status = .error → s'.cpc = .ret .ioError := by
  intro hs
  rcases read_after_error c s s' hst hs with h1 | h1
  · exact h1
  · exact absurd (error_back_nil c s h hs) h1

/-- a parser that failed before it set the header has produced no buffer at all -/
theorem hdr_exc_no_data (c : Cfg α) (s : State α) (h : (machine c).Reachable s) :
    s.hdr ≠ some none → NoBuf s := (buf_inv c s h).2.2.2.2.2.2.2.1

/-! ## witness: `status = okay → outq.inUse = true` is not an invariant -/

/-- run a trace -/
def runTr {α : Type} [DecidableEq α] (c : Cfg α) (s : State α) : List (Ev α) → Option (State α)
  | [] => some s
  | e :: r => (step? c s e).bind fun s1 => runTr c s1 r

theorem runTr_reachable {α : Type} [DecidableEq α] (c : Cfg α) (s s' : State α) (tr : List (Ev α))
    (hs : (machine c).Reachable s) (h : runTr c s tr = some s') : (machine c).Reachable s' := by
  induction tr generalizing s with
  | nil => simp [runTr] at h; exact h ▸ hs
  | cons e r ih =>
    simp only [runTr, Option.bind_eq_some_iff] at h
    obtain ⟨s1, h1, h2⟩ := h
    exact ih s1 (.step hs h1) h2

/-- empty file, nothing faulty, unbounded queues -/
def cfgEmpty : Cfg Nat :=
  { file := [], sel := fun _ => true, strip := id, chunkEnd := [], pbf := false, blobEnd := [], usePool := false,
    workers := [], wqMax := 0, inqC := { max := 0, spurious := true }, outqC := { max := 0, spurious := true },
    single := false, nothing := false, readFault := none, closeFault := false, parseFault := none, blobFault := none }

/-- read() of an empty file up to the store `m_in_use = false` inside the shutdown() that follows the
    end-of-data marker -/
def trEodSdFlag : List (Ev Nat) :=
  [ .rTestDone false, .rRead .eod, .rCloseDec true,
    .qi (.pushEnter tR 0), .qi (.pushTest tR true), .qi (.pushLocked tR 1 none), .rSet,
    .pInUse true, .qi (.popNow tP 1 (some (tR, 0))), .pGet .eod,
    .qi (.sdEnter tP), .qi (.sdFlag tP), .qi (.sdLocked tP),
    .pHeader, .pRunEnd,
    .qo (.pushEnter tP 1), .qo (.pushTest tP true), .qo (.pushLocked tP 1 none), .pSet,
    .cRead, .cInUse true, .qo (.popNow tC 1 (some (tP, 1))), .cGet .eod,
    .qo (.sdEnter tC), .qo (.sdFlag tC) ]

/-- `status = okay → outq.inUse = true` is NOT an invariant: witness. -/
theorem okay_not_inUse_reachable :
    ∃ s : State Nat, (machine cfgEmpty).Reachable s ∧ s.status = .okay ∧ s.outq.inUse = false ∧ s.cpc = .eodSdRun := by
  have h : (runTr cfgEmpty (init Nat) trEodSdFlag).map
      (fun s => decide (s.status = .okay ∧ s.outq.inUse = false ∧ s.cpc = .eodSdRun)) = some true := by decide
  obtain ⟨s, hs, hp⟩ := Option.map_eq_some_iff.mp h
  exact ⟨s, runTr_reachable _ _ _ _ .init hs, of_decide_eq_true hp⟩

end Osmium.Pipeline
