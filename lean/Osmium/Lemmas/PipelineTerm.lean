/-
Termination of the Reader pipeline (C07): `no_stuck_state` (PipelineLive.lean) + the ranking
function (PipelineRank.lean) combined into statements about whole runs.

* `Term.joined`            — what the destructor has joined / shut down at each of its stages;
* `Term.dead_only_pool`    — after the destructor has returned only pool workers still move;
* `Term.rank_mono`         — `rank` never increases along a run without API-call events;
* `Term.eventually_stutter`— an infinite run without API-call events consists, from some point on, of
                             busy-wait iterations only (at most `rank` steps are anything else);
* `Term.call_returns_or_spins` / `Term.call_returns` — every maximal run without further API calls
                             reaches a state in which the call has returned, unless it is an endless
                             busy wait; under the fairness assumption `Term.Fair` it returns.
-/
import Osmium.Lemmas.PipelineBase
import Osmium.Lemmas.PipelineLive
import Osmium.Lemmas.PipelineRank

set_option linter.unusedSimpArgs false
set_option linter.unusedVariables false

namespace Osmium.Pipeline

open Osmium.Mon

variable {α : Type} [DecidableEq α]

namespace Term

/-! ## the destructor joins both threads -/

/-- consumer pcs after `m_read_thread_manager.close()` inside the destructor -/
def afterJoinR : CPc α → Bool
  | .dtorJoinP | .dtorSd | .dtorSdRun | .dead => true
  | _ => false

/-- consumer pcs after `~thread_handler` has joined the parser thread -/
def afterJoinP : CPc α → Bool
  | .dtorSd | .dtorSdRun | .dead => true
  | _ => false

structure Joined (s : State α) : Prop where
  jr : afterJoinR s.cpc = true → s.rpc = .done
  jp : afterJoinP s.cpc = true → s.ppc = .done
  jd : s.destroyed = true ↔ s.cpc = .dead
  /-- the parser thread shuts the input queue down before it returns (`~queue_wrapper`) -/
  ji : s.ppc = .done → s.inq.inUse = false
  /-- once the destructor has returned the osmdata queue is shut down -/
  jo : s.cpc = .dead → s.outq.inUse = false

omit [DecidableEq α] in
@[simp] theorem afterPop_destroyed (s : State α) (lv : List (List α)) : (afterPop s lv).destroyed = s.destroyed := by
  unfold afterPop; split <;> (try split) <;> rfl
omit [DecidableEq α] in
@[simp] theorem afterClose_destroyed (s : State α) (k : CK) : (afterClose s k).destroyed = s.destroyed := by
  cases k <;> rfl

syntax "jn_close " ident ident : tactic
macro_rules
  | `(tactic| jn_close $s:ident $ih:ident) => `(tactic|
      first
        | exact $ih
        | (ap_norm; exact $ih)
        | (simp_all [afterJoinR, afterJoinP, rCont, pCont, Live.kOk]; done)
        | (cases ‹PK› <;> simp_all [afterJoinR, afterJoinP, rCont, pCont, Live.kOk]; done)
        | (cases ‹RK› <;> simp_all [afterJoinR, afterJoinP, rCont, pCont, Live.kOk]; done)
        | (cases hh : State.cpc $s <;> simp_all [afterJoinR, afterJoinP, rCont, pCont, Live.kOk]; done)
        | (rcases Live.afterPop_cpc $s ‹List (List _)› with h | ⟨r, h⟩ <;> simp_all [afterJoinR, afterJoinP]; done)
        | (cases ‹CK› <;> simp_all [afterClose, afterJoinR, afterJoinP]; done))

set_option maxHeartbeats 1600000 in
theorem j_r (c : Cfg α) : ∀ s, (machine c).Reachable s → afterJoinR s.cpc = true → s.rpc = .done := by
  apply Machine.invariant
  · simp [machine, init, afterJoinR]
  · intro s e s' _ ih hst
    plv_cases e with hst q hq
    all_goals jn_close s ih

set_option maxHeartbeats 1600000 in
theorem j_p (c : Cfg α) : ∀ s, (machine c).Reachable s → afterJoinP s.cpc = true → s.ppc = .done := by
  apply Machine.invariant
  · simp [machine, init, afterJoinP]
  · intro s e s' _ ih hst
    plv_cases e with hst q hq
    all_goals jn_close s ih

set_option maxHeartbeats 1600000 in
theorem j_d (c : Cfg α) : ∀ s, (machine c).Reachable s → (s.destroyed = true ↔ s.cpc = .dead) := by
  apply Machine.invariant
  · simp [machine, init]
  · intro s e s' _ ih hst
    plv_cases e with hst q hq
    all_goals jn_close s ih

set_option maxHeartbeats 1600000 in
theorem j_i (c : Cfg α) : ∀ s, (machine c).Reachable s → s.ppc = .done → s.inq.sdDone = true := by
  apply Machine.invariant
  · simp [machine, init]
  · intro s e s' hr ih hst
    have hk := Live.inv_kOk c s hr
    plv_cases e with hst q hq
    all_goals (try q_unfold hq)
    all_goals jn_close s ih

set_option maxHeartbeats 1600000 in
theorem j_o (c : Cfg α) : ∀ s, (machine c).Reachable s → s.cpc = .dead → s.outq.sdDone = true := by
  apply Machine.invariant
  · simp [machine, init]
  · intro s e s' _ ih hst
    plv_cases e with hst q hq
    all_goals (try q_unfold hq)
    all_goals jn_close s ih

theorem joined (c : Cfg α) (s : State α) (h : (machine c).Reachable s) : Joined s :=
  ⟨j_r c s h, j_p c s h, j_d c s h,
   fun hp => (QueueSM.inv_sdDone c.inqC s.inq (Q.reachable_inq c s h) (j_i c s h hp)).1,
   fun hd => (QueueSM.inv_sdDone c.outqC s.outq (Q.reachable_outq c s h) (j_o c s h hd)).1⟩

/-- Once the destructor has returned only pool workers still move (a blob job that was submitted
    before the Reader was destructed is still run by the pool: it owns its input and its promise, it
    touches nothing of the Reader); the consumer, the read thread and the parser thread have no step. -/
theorem dead_only_pool (c : Cfg α) (s s' : State α) (e : Ev α) (h : (machine c).Reachable s)
    (hd : s.cpc = .dead) (hst : (machine c).Step s e s') :
    (∃ w, e = .wStart w ∨ e = .wDone w) ∧ s'.cpc = .dead ∧ s'.rpc = .done ∧ s'.ppc = .done := by
  have hj := joined c s h
  have hr := hj.jr (by rw [hd]; rfl)
  have hp := hj.jp (by rw [hd]; rfl)
  have hpc := Live.pcInv c s h
  have h1 := hpc.rIn
  have h2 := hpc.pIn
  have h3 := hpc.pOut
  have h4 := hpc.cOut
  rw [hr] at h1; rw [hp] at h2 h3; rw [hd] at h4
  simp only [Live.rOk, Live.pOkIn, Live.pOkOut, Live.cOk] at h1 h2 h3 h4
  plv_cases e with hst q hq
  all_goals (try q_unfold hq)
  all_goals simp_all [tR, tP, tC]

/-! ## runs -/

/-- the API call in progress has not returned (and the Reader is not destructed) -/
def InCall (s : State α) : Prop := s.cpc ≠ .idle ∧ s.cpc ≠ .dead

/-- A MAXIMAL run without API-call events: at position `i` either an internal step `e` is taken
    (`ε i = some e`), or NO internal step is enabled and the run stays where it is (`ε i = none`). -/
structure MaxRun (c : Cfg α) (σ : Nat → State α) (ε : Nat → Option (Ev α)) : Prop where
  step : ∀ i e, ε i = some e → e.isCall = false ∧ (machine c).Step (σ i) e (σ (i + 1))
  halt : ∀ i, ε i = none → σ (i + 1) = σ i ∧ ∀ e s', e.isCall = false → ¬ (machine c).Step (σ i) e s'

/-- position `i` of the run is a step that is not a busy-wait iteration -/
def progressAt (c : Cfg α) (σ : Nat → State α) (ε : Nat → Option (Ev α)) (i : Nat) : Bool :=
  match ε i with
  | some e => !isStutter c (σ i) e
  | none => false

/-- position `i` of the run is a busy-wait iteration -/
def stutterAt (c : Cfg α) (σ : Nat → State α) (ε : Nat → Option (Ev α)) (i : Nat) : Bool :=
  match ε i with
  | some e => isStutter c (σ i) e
  | none => false

/-- number of steps before position `n` that are not busy-wait iterations -/
def work (c : Cfg α) (σ : Nat → State α) (ε : Nat → Option (Ev α)) (n : Nat) : Nat :=
  ((List.range n).filter (progressAt c σ ε)).length

/-- The fairness assumption of the termination theorem: busy-wait iterations do not repeat for ever
    (after every position there is a position that is not a busy-wait iteration). -/
def Fair (c : Cfg α) (σ : Nat → State α) (ε : Nat → Option (Ev α)) : Prop :=
  ∀ i, ∃ j, i ≤ j ∧ stutterAt c σ ε j = false

section runs
variable {c : Cfg α} {σ : Nat → State α} {ε : Nat → Option (Ev α)}

theorem MaxRun.reachable (hrun : MaxRun c σ ε) (h0 : (machine c).Reachable (σ 0)) :
    ∀ i, (machine c).Reachable (σ i) := by
  intro i
  induction i with
  | zero => exact h0
  | succ i ih =>
    cases he : ε i with
    | none => rw [(hrun.halt i he).1]; exact ih
    | some e => exact .step ih (hrun.step i e he).2

/-- one position of a run: the rank does not increase, and it decreases at a progress step -/
theorem MaxRun.rank_step (hrun : MaxRun c σ ε) (h0 : (machine c).Reachable (σ 0)) (i : Nat) :
    rank c (σ (i + 1)) + (if progressAt c σ ε i then 1 else 0) ≤ rank c (σ i) := by
  have hr := hrun.reachable h0 i
  cases he : ε i with
  | none => simp [progressAt, he, (hrun.halt i he).1]
  | some e =>
    obtain ⟨hc, hst⟩ := hrun.step i e he
    cases hs : isStutter c (σ i) e with
    | true => simp [progressAt, he, hs, rank_stutter c _ _ e hr hst hs]
    | false =>
      have := rank_decreases c _ _ e hr hst hc hs
      simp [progressAt, he, hs]; omega

/-- `rank` never increases along a run without API-call events -/
theorem MaxRun.rank_mono (hrun : MaxRun c σ ε) (h0 : (machine c).Reachable (σ 0)) (i j : Nat) (hij : i ≤ j) :
    rank c (σ j) ≤ rank c (σ i) := by
  induction j with
  | zero => have : i = 0 := by omega
            subst this; exact Nat.le_refl _
  | succ j ih =>
    by_cases h : i = j + 1
    · subst h; exact Nat.le_refl _
    · have := ih (by omega)
      have := hrun.rank_step h0 j
      omega

/-- the steps of a run that are not busy-wait iterations are paid for by the rank -/
theorem MaxRun.work_le (hrun : MaxRun c σ ε) (h0 : (machine c).Reachable (σ 0)) (n : Nat) :
    work c σ ε n + rank c (σ n) ≤ rank c (σ 0) := by
  induction n with
  | zero => simp [work]
  | succ n ih =>
    have := hrun.rank_step h0 n
    simp only [work, List.range_succ, List.filter_append, List.length_append] at ih ⊢
    cases hp : progressAt c σ ε n <;> simp [hp] at this ⊢ <;> omega

theorem MaxRun.eventually_aux (hrun : MaxRun c σ ε) (h0 : (machine c).Reachable (σ 0)) :
    ∀ r k, rank c (σ k) ≤ r → ∃ N, k ≤ N ∧ ∀ i, N ≤ i → progressAt c σ ε i = false := by
  intro r
  induction r with
  | zero =>
    intro k hk
    refine ⟨k, Nat.le_refl _, fun i hi => ?_⟩
    have h1 := hrun.rank_mono h0 k i hi
    have h2 := hrun.rank_step h0 i
    cases hp : progressAt c σ ε i
    · rfl
    · simp [hp] at h2; omega
  | succ r ih =>
    intro k hk
    by_cases hex : ∃ i, k ≤ i ∧ progressAt c σ ε i = true
    · obtain ⟨i, hi, hp⟩ := hex
      have h1 := hrun.rank_mono h0 k i hi
      have h2 := hrun.rank_step h0 i
      simp [hp] at h2
      obtain ⟨N, hN, hall⟩ := ih (i + 1) (by omega)
      exact ⟨N, by omega, hall⟩
    · refine ⟨k, Nat.le_refl _, fun i hi => ?_⟩
      cases hp : progressAt c σ ε i
      · rfl
      · exact absurd ⟨i, hi, hp⟩ hex

/-- `eventually_stutter`: in an infinite run without API-call events only finitely many positions (at
    most `rank c (σ 0)`, see `work_le`) are steps other than busy-wait iterations. -/
theorem MaxRun.eventually_stutter (hrun : MaxRun c σ ε) (h0 : (machine c).Reachable (σ 0)) :
    ∃ N, ∀ i, N ≤ i → progressAt c σ ε i = false := by
  obtain ⟨N, _, h⟩ := hrun.eventually_aux h0 (rank c (σ 0)) 0 (Nat.le_refl _)
  exact ⟨N, h⟩

end runs

theorem exists_first (p : Nat → Prop) (h : ∃ n, p n) : ∃ n, p n ∧ ∀ i, i < n → ¬ p i := by
  obtain ⟨n, hn⟩ := h
  induction n using Nat.strongRecOn with
  | _ n ih =>
    by_cases hex : ∃ i, i < n ∧ p i
    · obtain ⟨i, hi, hpi⟩ := hex
      exact ih i hi hpi
    · exact ⟨n, hn, fun i hi hpi => hex ⟨i, hi, hpi⟩⟩

/-- `call_returns_or_spins` (NO fairness assumption): every maximal run without further API calls that
    starts in a reachable state of a well-formed configuration either reaches a state in which the call
    has returned (consumer idle, or destructed) — the first such position `n` comes after at most
    `rank c (σ 0)` steps that are not busy-wait iterations — or it is infinite and from some position
    on EVERY step is a busy-wait iteration (`isStutter`). -/
theorem call_returns_or_spins (c : Cfg α) (wf : c.WF) (σ : Nat → State α) (ε : Nat → Option (Ev α))
    (hrun : MaxRun c σ ε) (h0 : (machine c).Reachable (σ 0)) :
    (∃ n, ¬ InCall (σ n) ∧ (∀ i, i < n → InCall (σ i)) ∧ work c σ ε n + rank c (σ n) ≤ rank c (σ 0)) ∨
    (∃ N, ∀ i, N ≤ i → ∃ e, ε i = some e ∧ isStutter c (σ i) e = true) := by
  by_cases hret : ∃ n, ¬ InCall (σ n)
  · left
    obtain ⟨n, hn, hmin⟩ := exists_first _ hret
    exact ⟨n, hn, fun i hi => Classical.not_not.mp (hmin i hi), hrun.work_le h0 n⟩
  · right
    obtain ⟨N, hN⟩ := hrun.eventually_stutter h0
    refine ⟨N, fun i hi => ?_⟩
    have hp := hN i hi
    cases he : ε i with
    | none =>
      exfalso
      apply hret
      refine ⟨i, fun hin => ?_⟩
      obtain ⟨e, s', hc, hst⟩ := no_stuck_state c wf (σ i) (hrun.reachable h0 i) hin.1 hin.2
      exact (hrun.halt i he).2 e s' hc hst
    | some e =>
      refine ⟨e, rfl, ?_⟩
      simpa [progressAt, he] using hp

/-- `call_returns`: under the fairness assumption `Fair` (busy-wait iterations do not repeat for ever)
    every maximal run without further API calls reaches a state in which the call has returned, after
    at most `rank c (σ 0)` steps that are not busy-wait iterations. -/
theorem call_returns (c : Cfg α) (wf : c.WF) (σ : Nat → State α) (ε : Nat → Option (Ev α))
    (hrun : MaxRun c σ ε) (h0 : (machine c).Reachable (σ 0)) (hfair : Fair c σ ε) :
    ∃ n, ¬ InCall (σ n) ∧ (∀ i, i < n → InCall (σ i)) ∧ work c σ ε n + rank c (σ n) ≤ rank c (σ 0) := by
  rcases call_returns_or_spins c wf σ ε hrun h0 with h | ⟨N, hN⟩
  · exact h
  · exfalso
    obtain ⟨j, hj, hs⟩ := hfair N
    obtain ⟨e, he, hst⟩ := hN j hj
    simp [stutterAt, he, hst] at hs

/-- finite form: a finite run without API-call events that cannot be extended by an internal step ends
    in a state in which the call has returned, and it made at most `rank c s` steps that are not
    busy-wait iterations -/
theorem finite_maximal_run_returns (c : Cfg α) (wf : c.WF) (tr : List (Ev α)) (s s' : State α)
    (h : (machine c).Reachable s) (hc : ∀ e ∈ tr, e.isCall = false) (hr : (machine c).run? s tr 0 = .ok s')
    (hmax : ∀ e s'', e.isCall = false → ¬ (machine c).Step s' e s'') :
    (s'.cpc = .idle ∨ s'.cpc = .dead) ∧ (tr.filter fun e => !isStutter c s e).length + rank c s' ≤ rank c s := by
  refine ⟨?_, internal_steps_bounded c tr s s' 0 h hc hr⟩
  have hr' := Machine.run?_reachable _ s s' tr 0 h hr
  by_cases h1 : s'.cpc = .idle
  · exact .inl h1
  by_cases h2 : s'.cpc = .dead
  · exact .inr h2
  obtain ⟨e, s'', hce, hst⟩ := no_stuck_state c wf s' hr' h1 h2
  exact absurd hst (hmax e s'' hce)

/-! ## building runs from traces (for the non-vacuity examples) -/

/-- nothing internal is enabled once both threads have returned, the consumer is between calls (or
    destructed) and there is no pool -/
theorem quiescent (c : Cfg α) (s : State α) (h : (machine c).Reachable s) (hr : s.rpc = .done)
    (hp : s.ppc = .done) (hc : s.cpc = .idle ∨ s.cpc = .dead) (hw : c.workers = []) :
    ∀ e s', e.isCall = false → ¬ (machine c).Step s e s' := by
  intro e s' hcall hst
  have hpc := Live.pcInv c s h
  have h1 := hpc.rIn
  have h2 := hpc.pIn
  have h3 := hpc.pOut
  have h4 := hpc.cOut
  have hwk := Rank.wpc_workers c s h
  rw [hr] at h1; rw [hp] at h2 h3
  simp only [Live.rOk, Live.pOkIn, Live.pOkOut] at h1 h2 h3
  have h4' : s.outq.pc tC = .idle := by
    rcases hc with hc | hc <;> (rw [hc] at h4; simpa [Live.cOk] using h4)
  plv_cases e with hst q hq
  all_goals (try q_unfold hq)
  all_goals simp_all [tR, tP, tC, Ev.isCall]

theorem runTr_eq_foldlM (c : Cfg α) (tr : List (Ev α)) (s : State α) :
    runTr c s tr = tr.foldlM (step? c) s := by
  induction tr generalizing s with
  | nil => rfl
  | cons e r ih => simp [runTr, List.foldlM_cons, ih]

/-- the states of the run that follows the trace `tr` from `s` and then stays -/
def runSt (c : Cfg α) : State α → List (Ev α) → Nat → State α
  | s, _, 0 => s
  | s, [], _ + 1 => s
  | s, e :: r, i + 1 =>
    match step? c s e with
    | some s1 => runSt c s1 r i
    | none => s

theorem runSt_end (c : Cfg α) (tr : List (Ev α)) : ∀ (s sf : State α), runTr c s tr = some sf →
    ∀ i, tr.length ≤ i → runSt c s tr i = sf := by
  induction tr with
  | nil =>
    intro s sf h i _
    simp only [runTr, Option.some.injEq] at h
    subst h
    cases i <;> rfl
  | cons e r ih =>
    intro s sf h i hi
    simp only [runTr, Option.bind_eq_some_iff] at h
    obtain ⟨s1, h1, h2⟩ := h
    cases i with
    | zero => simp at hi
    | succ i =>
      simp only [runSt, h1]
      exact ih s1 sf h2 i (by simpa using hi)

theorem runSt_step (c : Cfg α) (tr : List (Ev α)) : ∀ (s sf : State α), runTr c s tr = some sf →
    ∀ i e, tr[i]? = some e → (machine c).Step (runSt c s tr i) e (runSt c s tr (i + 1)) := by
  induction tr with
  | nil => intro s sf _ i e he; simp at he
  | cons e0 r ih =>
    intro s sf h i e he
    simp only [runTr, Option.bind_eq_some_iff] at h
    obtain ⟨s1, h1, h2⟩ := h
    cases i with
    | zero =>
      simp only [List.getElem?_cons_zero, Option.some.injEq] at he
      subst he
      simp only [runSt, h1]
      cases r <;> exact h1
    | succ i =>
      simp only [List.getElem?_cons_succ] at he
      have := ih s1 sf h2 i e he
      simpa only [runSt, h1] using this

/-- a trace of internal events that ends in a state without enabled internal step is a maximal,
    fair run -/
theorem maxRun_of_trace (c : Cfg α) (s0 sf : State α) (tr : List (Ev α))
    (hrun : runTr c s0 tr = some sf) (hcall : ∀ e ∈ tr, e.isCall = false)
    (hq : ∀ e s', e.isCall = false → ¬ (machine c).Step sf e s') :
    MaxRun c (runSt c s0 tr) (fun i => tr[i]?) ∧ Fair c (runSt c s0 tr) (fun i => tr[i]?) ∧
      runSt c s0 tr 0 = s0 := by
  refine ⟨⟨fun i e he => ⟨hcall e (List.mem_of_getElem? he), runSt_step c tr s0 sf hrun i e he⟩, fun i he => ?_⟩,
    fun i => ⟨max i tr.length, Nat.le_max_left _ _, ?_⟩, by cases tr <;> rfl⟩
  · have hi : tr.length ≤ i := by
      simp only [List.getElem?_eq_none_iff] at he; exact he
    rw [runSt_end c tr s0 sf hrun i hi, runSt_end c tr s0 sf hrun (i + 1) (by omega)]
    exact ⟨rfl, hq⟩
  · have : tr[max i tr.length]? = none := by
      simp only [List.getElem?_eq_none_iff]; exact Nat.le_max_right _ _
    simp [stutterAt, this]

end Term

end Osmium.Pipeline
