/-
Pipeline base lemmas, part G: buffers in flight are well-formed; status error means nothing is left
to deliver.
-/
import Osmium.Lemmas.PipelineBaseG1
import Osmium.Lemmas.PipelineBaseG2

namespace Osmium.Pipeline

open Osmium.Mon

set_option linter.unusedSimpArgs false

variable {α : Type}
variable [DecidableEq α]

/-! ## buffers in flight are well-formed; status error means nothing is left to deliver -/


theorem buf_inv (c : Cfg α) : ∀ s, (machine c).Reachable s → BufInv s := by
  apply Machine.invariant
  · simp [BufInv, NoBuf, machine, init, rpcVal, ppcVal, wfVal, isBuf, cpcBackNil]
  · intro s e s' hr ih hst
    by_cases he : e.ctorIdx < 10
    · exact buf_inv_step_lo c s e s' hr ih hst he
    · exact buf_inv_step_hi c s e s' hr ih hst he

/-- every buffer a future holds has only non-empty nested levels (what `Reader::read` relies on
    when it moves the nested buffers to `m_back_buffers`) -/
theorem fut_wf (c : Cfg α) (s : State α) (h : (machine c).Reachable s) (id : Nat) (lv : List (List α)) :
    s.fut id = some (.buf lv) → wfLevels lv = true := by
  intro hf
  have := (buf_inv c s h).2.2.2.1 id _ hf
  simpa [wfVal] using this

/-- a Reader in status error has no back buffers left … -/
theorem error_back_nil (c : Cfg α) (s : State α) (h : (machine c).Reachable s) :
    s.status = .error → s.back = [] := (buf_inv c s h).2.2.2.2.2.2.1

/-- … so nothing is handed to the caller any more … -/
theorem no_data_after_error' (c : Cfg α) (s : State α) (h : (machine c).Reachable s) (e : Ev α) (s' : State α)
    (hst : (machine c).Step s e s') : s.status = .error → s'.delivered = s.delivered :=
  fun hs => no_data_after_error c s h e s' hst hs (error_back_nil c s h hs)

/-- … and every read() throws io_error. -/
theorem read_after_error' (c : Cfg α) (s : State α) (h : (machine c).Reachable s) (s' : State α)
    (hst : (machine c).Step s .cRead s') : s.status = .error → s'.cpc = .ret .ioError := by
  intro hs
  rcases read_after_error c s s' hst hs with h1 | h1
  · exact h1
  · exact absurd (error_back_nil c s h hs) h1

/-- a parser that failed before it set the header has produced no buffer at all -/
theorem hdr_exc_no_data (c : Cfg α) (s : State α) (h : (machine c).Reachable s) :
    s.hdr ≠ some none → NoBuf s := (buf_inv c s h).2.2.2.2.2.2.2.1

end Osmium.Pipeline
