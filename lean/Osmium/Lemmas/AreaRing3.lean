/-
C10 stage B, part 3 — what the rings of the simple case ARE.

* every ring has at least three segments (hence four points) when no segment occurs twice;
* the segments of a ring form a connected component of the graph "segments sharing an end point":
  the ring is connected (consecutive segments touch) and closed under touching (both ends of every
  location it visits belong to it);
* hence the partition of the segments into rings does not depend on the order of the segment list,
  on which end of a segment comes first in `m_locations`, or on what `find_enclosing_ring` answers.
-/
import Osmium.Lemmas.AreaRing2

namespace Osmium.Area

/-! ## at least three segments -/

theorem seg_eq_of_ends (s t : Seg) (hs : s.wf = true) (ht : t.wf = true)
    (h : (s.first = t.first ∧ s.second = t.second) ∨ (s.first = t.second ∧ s.second = t.first)) : s = t := by
  rcases h with ⟨h1, h2⟩ | ⟨h1, h2⟩
  · cases s; cases t; simp_all
  · exfalso
    unfold Seg.wf at hs ht
    rw [h1, h2] at hs
    rw [vec_lt_asymm _ _ hs] at ht
    exact absurd ht (by decide)

theorem loc_stop_ends (segs : List Seg) (x : SLoc) :
    ((segAt segs x.item).first = x.loc segs ∧ (segAt segs x.item).second = x.stop segs) ∨
    ((segAt segs x.item).first = x.stop segs ∧ (segAt segs x.item).second = x.loc segs) := by
  unfold SLoc.loc SLoc.stop
  cases x.reverse <;> simp

theorem loc_ne_stop (segs : List Seg) (hw : WfSegs segs) (x : SLoc) (hx : x.item < segs.length) :
    x.loc segs ≠ x.stop segs := by
  have hne := segAt_wf segs hw x.item hx
  rcases loc_stop_ends segs x with ⟨h1, h2⟩ | ⟨h1, h2⟩
  · rw [← h1, ← h2]; exact hne
  · rw [← h1, ← h2]; exact fun e => hne e.symm

theorem segAt_mem (segs : List Seg) (i : Nat) (hi : i < segs.length) : segAt segs i ∈ segs := by
  rw [segAt_eq segs i hi]; exact List.getElem_mem hi

/-- a closed chain of distinct segments has at least three of them (so the ring has at least four
    points) when the list has no duplicate segment and no segment of length zero -/
theorem ring_min3 (segs : List Seg) (hw : WfSegs segs) (hnd : segs.Nodup) (r : List SLoc)
    (h : RingOk segs r) : 3 ≤ r.length := by
  obtain ⟨a, hp⟩ := h.closed
  match r, h.nonempty, hp, h.items with
  | [x], _, hp, hit =>
    exfalso
    simp only [IsPath] at hp
    have hx : x.item < segs.length := hit.2 x.item (by simp [ringItems])
    exact loc_ne_stop segs hw x hx (hp.1.trans hp.2.symm)
  | [x, y], _, hp, hit =>
    exfalso
    simp only [IsPath] at hp
    obtain ⟨h1, h2, h3⟩ := hp
    have hx : x.item < segs.length := hit.2 x.item (by simp [ringItems])
    have hy : y.item < segs.length := hit.2 y.item (by simp [ringItems])
    have hxy : x.item ≠ y.item := by
      have := hit.1
      simp only [ringItems, List.map_cons, List.map_nil, List.nodup_cons, List.mem_cons,
        List.not_mem_nil, or_false] at this
      exact this.1
    have hsx := hw _ (segAt_mem segs x.item hx)
    have hsy := hw _ (segAt_mem segs y.item hy)
    have heq : segAt segs x.item = segAt segs y.item := by
      apply seg_eq_of_ends _ _ hsx hsy
      rcases loc_stop_ends segs x with ⟨a1, a2⟩ | ⟨a1, a2⟩ <;>
        rcases loc_stop_ends segs y with ⟨b1, b2⟩ | ⟨b1, b2⟩
      · right; rw [a1, a2, b1, b2]; exact ⟨h1.trans h3.symm, h2.symm⟩
      · left; rw [a1, a2, b1, b2]; exact ⟨h1.trans h3.symm, h2.symm⟩
      · left; rw [a1, a2, b1, b2]; exact ⟨h2.symm, h1.trans h3.symm⟩
      · right; rw [a1, a2, b1, b2]; exact ⟨h2.symm, h1.trans h3.symm⟩
    rw [segAt_eq segs _ hx, segAt_eq segs _ hy] at heq
    exact hxy ((List.getElem_inj hnd).mp heq)
  | _ :: _ :: _ :: _, _, _, _ => simp

/-! ## rings are connected components -/

/-- two segments share an end point -/
def Touch (s t : Seg) : Prop :=
  s.first = t.first ∨ s.first = t.second ∨ s.second = t.first ∨ s.second = t.second

theorem touch_symm {s t : Seg} (h : Touch s t) : Touch t s := by
  unfold Touch at *
  rcases h with h | h | h | h
  · exact Or.inl h.symm
  · exact Or.inr (Or.inr (Or.inl h.symm))
  · exact Or.inr (Or.inl h.symm)
  · exact Or.inr (Or.inr (Or.inr h.symm))

/-- connected in the graph whose vertices are the segments of `segs` and whose edges join segments
    sharing an end point -/
inductive Conn (segs : List Seg) : Seg → Seg → Prop
  | refl (s : Seg) : s ∈ segs → Conn segs s s
  | step {s t u : Seg} : Conn segs s t → u ∈ segs → Touch t u → Conn segs s u

theorem Conn.mem_left {segs : List Seg} {s t : Seg} (h : Conn segs s t) : s ∈ segs := by
  induction h with
  | refl hs => exact hs
  | step _ _ _ ih => exact ih

theorem Conn.mem_right {segs : List Seg} {s t : Seg} (h : Conn segs s t) : t ∈ segs := by
  cases h with
  | refl hs => exact hs
  | step _ hu _ => exact hu

theorem Conn.trans {segs : List Seg} {s t u : Seg} (h1 : Conn segs s t) (h2 : Conn segs t u) :
    Conn segs s u := by
  induction h2 with
  | refl _ => exact h1
  | step _ hu ht ih => exact Conn.step ih hu ht

theorem Conn.head {segs : List Seg} {s t u : Seg} (hs : s ∈ segs) (hst : Touch s t)
    (h : Conn segs t u) : Conn segs s u :=
  Conn.trans (Conn.step (Conn.refl s hs) h.mem_left hst) h

theorem Conn.symm {segs : List Seg} {s t : Seg} (h : Conn segs s t) : Conn segs t s := by
  induction h with
  | refl hs => exact Conn.refl _ hs
  | step h1 hu ht ih => exact Conn.head hu (touch_symm ht) ih

/-- connectivity only depends on which segments there are -/
theorem Conn.of_mem_iff {segs segs' : List Seg} (hm : ∀ s, s ∈ segs ↔ s ∈ segs') {s t : Seg}
    (h : Conn segs s t) : Conn segs' s t := by
  induction h with
  | refl hs => exact Conn.refl _ ((hm _).mp hs)
  | step _ hu ht ih => exact Conn.step ih ((hm _).mp hu) ht

/-- the segments of a ring -/
def ringSegs (segs : List Seg) (r : List SLoc) : List Seg := r.map fun e => segAt segs e.item

theorem mem_ringSegs_of_item (segs : List Seg) (r : List SLoc) (i : Nat) (h : i ∈ ringItems r) :
    segAt segs i ∈ ringSegs segs r := by
  simp only [ringItems, List.mem_map] at h
  obtain ⟨x, hx, rfl⟩ := h
  exact List.mem_map.mpr ⟨x, hx, rfl⟩

/-- a segment of the set has its ends counted -/
theorem dc_pos (segs : List Seg) (R : List Nat) (hR : DoneOk segs R) (i : Nat) (hi : i ∈ R) (v : Vec)
    (hv : (segAt segs i).first = v ∨ (segAt segs i).second = v) : 1 ≤ dc segs R v := by
  have hp : R.Perm (i :: R.erase i) := List.perm_cons_erase hi
  have hnd : (i :: R.erase i).Nodup := hp.nodup_iff.mp hR.1
  rw [dc_perm segs R _ hp v, dc_cons segs _ i (List.nodup_cons.mp hnd).1 (hR.2 i hi) v]
  rcases hv with h | h <;> simp [h] <;> omega

/-- a `Closed` set of segments is closed under "shares an end point" -/
theorem closed_touch (segs : List Seg) (h2 : Deg2 segs) (R : List Nat) (hR : DoneOk segs R)
    (hc : Closed segs R) (i : Nat) (hi : i ∈ R) (j : Nat) (hj : j < segs.length)
    (ht : Touch (segAt segs i) (segAt segs j)) : j ∈ R := by
  apply Classical.byContradiction
  intro hn
  -- the shared location
  obtain ⟨v, hvi, hvj⟩ : ∃ v, ((segAt segs i).first = v ∨ (segAt segs i).second = v) ∧
      ((segAt segs j).first = v ∨ (segAt segs j).second = v) := by
    unfold Touch at ht
    rcases ht with h | h | h | h
    · exact ⟨_, Or.inl rfl, Or.inl h.symm⟩
    · exact ⟨_, Or.inl rfl, Or.inr h.symm⟩
    · exact ⟨_, Or.inr rfl, Or.inl h.symm⟩
    · exact ⟨_, Or.inr rfl, Or.inr h.symm⟩
  have h1 := dc_pos segs R hR i hi v hvi
  have h3 := hc v
  have h4 := dc_le_deg segs (j :: R) v
  have h5 := dc_cons segs R j hn hj v
  have h6 : 1 ≤ (if (segAt segs j).first = v then 1 else 0) + (if (segAt segs j).second = v then 1 else 0) := by
    rcases hvj with h | h <;> simp [h]
  rcases h2 v with h | h <;> omega

/-- consecutive segments of a chain touch: everything after the head is connected to the head -/
theorem path_conn (segs : List Seg) (r : List SLoc) : ∀ (x : SLoc) (a b : Vec),
    IsPath segs a (x :: r) b → (∀ y ∈ x :: r, y.item < segs.length) →
    ∀ y ∈ x :: r, Conn segs (segAt segs x.item) (segAt segs y.item) := by
  induction r with
  | nil =>
    intro x a b _ hlt y hy
    simp only [List.mem_cons, List.not_mem_nil, or_false] at hy
    subst hy
    exact Conn.refl _ (segAt_mem segs _ (hlt _ List.mem_cons_self))
  | cons z r ih =>
    intro x a b hp hlt y hy
    have hx := segAt_mem segs _ (hlt x List.mem_cons_self)
    rcases List.mem_cons.mp hy with rfl | hy
    · exact Conn.refl _ hx
    · simp only [IsPath] at hp
      have hz := ih z _ b ⟨hp.2.1, hp.2.2⟩ (fun w hw => hlt w (List.mem_cons_of_mem _ hw)) y hy
      refine Conn.head hx ?_ hz
      -- stop x = loc z
      have hxz : x.stop segs = z.loc segs := hp.2.1.symm
      unfold Touch
      rcases loc_stop_ends segs x with ⟨_, a2⟩ | ⟨a1, _⟩ <;>
        rcases loc_stop_ends segs z with ⟨b1, _⟩ | ⟨_, b2⟩
      · exact Or.inr (Or.inr (Or.inl (by rw [a2, b1, hxz])))
      · exact Or.inr (Or.inr (Or.inr (by rw [a2, b2, hxz])))
      · exact Or.inl (by rw [a1, b1, hxz])
      · exact Or.inr (Or.inl (by rw [a1, b2, hxz]))

/-- THE RINGS ARE THE CONNECTED COMPONENTS: a segment belongs to a ring exactly when it is connected
    (through shared end points) to the segments of that ring. -/
theorem ring_is_component (segs : List Seg) (h2 : Deg2 segs) (r : List SLoc) (hr : RingOk segs r)
    (s : Seg) (hs : s ∈ ringSegs segs r) (t : Seg) :
    t ∈ ringSegs segs r ↔ Conn segs s t := by
  have hlt : ∀ y ∈ r, y.item < segs.length := fun y hy =>
    hr.items.2 y.item (List.mem_map.mpr ⟨y, hy, rfl⟩)
  constructor
  · intro ht
    match r, hr.closed, hlt, hs, ht with
    | x :: r', ⟨a, hp⟩, hlt, hs, ht =>
      obtain ⟨y, hy, rfl⟩ := List.mem_map.mp hs
      obtain ⟨z, hz, rfl⟩ := List.mem_map.mp ht
      exact (path_conn segs r' x a a hp hlt y hy).symm.trans (path_conn segs r' x a a hp hlt z hz)
  · intro hc
    induction hc with
    | refl _ => exact hs
    | step _ hu ht ih =>
      obtain ⟨y, hy, rfl⟩ := List.mem_map.mp ih
      obtain ⟨j, hj, rfl⟩ := List.getElem_of_mem hu
      have := closed_touch segs h2 (ringItems r) hr.items hr.closedSet y.item
        (List.mem_map.mpr ⟨y, hy, rfl⟩) j hj (by rw [segAt_eq segs j hj]; exact ht)
      rw [← segAt_eq segs j hj]
      exact mem_ringSegs_of_item segs r j this

/-! ## independence of order -/

/-- `s` and `t` are in the same ring -/
def SameRing (segs : List Seg) (rings : List PRing) (s t : Seg) : Prop :=
  ∃ r ∈ rings, s ∈ ringSegs segs r.segs ∧ t ∈ ringSegs segs r.segs

/-- which segments share a ring is decided by connectivity alone -/
theorem sameRing_iff_conn (segs : List Seg) (h2 : Deg2 segs) (rings : List PRing)
    (hok : ∀ r ∈ rings, RingOk segs r.segs) (hpart : (allItems rings).Perm (List.range segs.length))
    (s t : Seg) : SameRing segs rings s t ↔ Conn segs s t := by
  constructor
  · rintro ⟨r, hr, hs, ht⟩
    exact (ring_is_component segs h2 r.segs (hok r hr) s hs t).mp ht
  · intro hc
    obtain ⟨i, hi, rfl⟩ := List.getElem_of_mem hc.mem_left
    have hmem : i ∈ allItems rings := hpart.mem_iff.mpr (List.mem_range.mpr hi)
    simp only [allItems, List.mem_flatMap] at hmem
    obtain ⟨r, hr, hir⟩ := hmem
    have hs : segs[i] ∈ ringSegs segs r.segs := by
      rw [← segAt_eq segs i hi]; exact mem_ringSegs_of_item segs r.segs i hir
    exact ⟨r, hr, hs, (ring_is_component segs h2 r.segs (hok r hr) _ hs t).mpr hc⟩

theorem endpoints_perm {l l' : List Seg} (h : l.Perm l') : (endpoints l).Perm (endpoints l') := by
  unfold endpoints
  exact List.Perm.flatMap_right _ h

theorem deg2_perm {l l' : List Seg} (h : l.Perm l') (h2 : Deg2 l) : Deg2 l' := by
  intro v
  have := h2 v
  rw [deg_eq_count, (endpoints_perm h).count_eq] at this
  rw [deg_eq_count]; exact this

theorem wfSegs_perm {l l' : List Seg} (h : l.Perm l') (hw : WfSegs l) : WfSegs l' :=
  fun s hs => hw s (h.mem_iff.mpr hs)

end Osmium.Area
