/-
C17 helper lemmas for the text formats (WKT, GeoJSON): the `str.back() = …` implementation writes
the declarative token list; the recursive-descent decoders invert it.  Core only.
-/
import Osmium.Lemmas.GeomSpec

namespace Osmium.Geom

theorem list_map_inj {α β : Type} (f : α → β) (hf : ∀ a b, f a = f b → a = b) :
    ∀ l l' : List α, l.map f = l'.map f → l = l'
  | [], [], _ => rfl
  | [], _ :: _, h => by simp at h
  | _ :: _, [], h => by simp at h
  | a :: l, b :: l', h => by
    simp only [List.map_cons, List.cons.injEq] at h
    rw [hf a b h.1, list_map_inj f hf l l' h.2]

theorem Poly.map_injective {P Q : Type} (f : P → Q) (hf : Function.Injective f) (p p' : Poly P)
    (h : p.map f = p'.map f) : p = p' := by
  obtain ⟨o, i⟩ := p
  obtain ⟨o', i'⟩ := p'
  simp only [Poly.map, Poly.mk.injEq] at h
  have h1 := list_map_inj f (fun a b => @hf a b) _ _ h.1
  have h2 := list_map_inj _ (list_map_inj f (fun a b => @hf a b)) _ _ h.2
  simp [h1, h2]

theorem Geom.map_injective {P Q : Type} (f : P → Q) (hf : Function.Injective f) (g g' : Geom P)
    (h : g.map f = g'.map f) : g = g' := by
  cases g <;> cases g' <;> simp only [Geom.map, reduceCtorEq] at h <;> try cases h
  · simp only [Geom.point.injEq] at h ⊢; exact hf h
  · simp only [Geom.linestring.injEq] at h ⊢; exact list_map_inj f (fun a b => @hf a b) _ _ h
  · simp only [Geom.polygon.injEq] at h ⊢; exact Poly.map_injective f hf _ _ h
  · simp only [Geom.multipolygon.injEq] at h ⊢
    exact list_map_inj _ (fun a b => Poly.map_injective f hf a b) _ _ h

/-! ## double2string helper -/

theorem dropZerosRev_some_of_mem (l : List Char) (c : Char) (hc : c ∈ l) (h0 : c ≠ '0') :
    ∃ r, dropZerosRev l = some r := by
  induction l with
  | nil => cases hc
  | cons a l ih =>
    unfold dropZerosRev
    by_cases ha : a = '0'
    · simp only [ha, if_true]
      rcases List.mem_cons.mp hc with h | h
      · exact absurd (h.trans ha) h0
      · exact ih h
    · refine ⟨a :: l, ?_⟩; simp [ha]

namespace Text

def PolyNonEmpty {α : Type} (p : Poly α) : Prop := p.outer ≠ [] ∧ ∀ r ∈ p.inners, r ≠ []

/-- no empty coordinate list anywhere (the text formats cannot express one) -/
def NonEmpty {α : Type} : Geom α → Prop
  | .point _ => True
  | .linestring ps => ps ≠ []
  | .polygon p => PolyNonEmpty p
  | .multipolygon ps => ps ≠ [] ∧ ∀ p ∈ ps, PolyNonEmpty p

theorem nonEmpty_map {α β : Type} (f : α → β) (g : Geom α) (h : NonEmpty g) : NonEmpty (g.map f) := by
  cases g with
  | point p => trivial
  | linestring ps => simpa [NonEmpty, Geom.map] using h
  | polygon p =>
    obtain ⟨h1, h2⟩ := h
    refine ⟨by simpa [Poly.map] using h1, ?_⟩
    intro r hr
    simp only [Poly.map, List.mem_map] at hr
    obtain ⟨r', hr', rfl⟩ := hr
    simpa using h2 r' hr'
  | multipolygon ps =>
    obtain ⟨h0, hps⟩ := h
    refine ⟨by simpa [Geom.map] using h0, ?_⟩
    intro p hp
    simp only [List.mem_map] at hp
    obtain ⟨p', hp', rfl⟩ := hp
    obtain ⟨h1, h2⟩ := hps p' hp'
    refine ⟨by simpa [Poly.map] using h1, ?_⟩
    intro r hr
    simp only [Poly.map, List.mem_map] at hr
    obtain ⟨r', hr', rfl⟩ := hr
    simpa using h2 r' hr'

/-! ### implementation = declarative -/

theorem setBack_concat (s : List Tok) (y c : Tok) : setBack c (s ++ [y]) = s ++ [c] := by
  simp [setBack]

theorem setBack_items {α : Type} (item : α → List Tok) (l : List α) (hl : l ≠ []) (s : List Tok) :
    setBack .close (s ++ l.flatMap (fun q => item q ++ [.comma])) = s ++ listClose item l := by
  induction l generalizing s with
  | nil => exact absurd rfl hl
  | cons a l ih =>
    cases l with
    | nil =>
      simp only [List.flatMap_cons, List.flatMap_nil, List.append_nil, listClose]
      rw [← List.append_assoc, setBack_concat]
      simp
    | cons b rest =>
      have := ih (by simp) (s ++ item a ++ [.comma])
      simp only [List.flatMap_cons, List.append_assoc, listClose] at this ⊢
      exact this

theorem listClose_cons {α : Type} (item : α → List Tok) (a : α) (l : List α) :
    listClose item (a :: l) = item a ++ l.flatMap (fun x => Tok.comma :: item x) ++ [.close] := by
  induction l generalizing a with
  | nil => simp [listClose]
  | cons b l ih => simp [listClose, ih b]

section
variable {P : Type} (T : Fmt) (fmt : P → TPoint)

theorem foldl_add (ps : List P) (s : List Tok) :
    ps.foldl (fun s p => s ++ T.pt (fmt p) ++ [Tok.comma]) s
      = s ++ (ps.map fmt).flatMap (fun q => T.pt q ++ [.comma]) := by
  induction ps generalizing s with
  | nil => simp
  | cons p ps ih =>
    rw [List.foldl_cons, ih]
    simp

theorem runOuter_text (s : List Tok) (r : List P) (hr : r ≠ []) :
    runOuter (impl T fmt) s r = s ++ [.open] ++ ring T (r.map fmt) := by
  have h : runOuter (impl T fmt) s r
      = setBack .close (r.foldl (fun s p => s ++ T.pt (fmt p) ++ [Tok.comma]) (s ++ [.open] ++ [.open])) := rfl
  rw [h, foldl_add, setBack_items T.pt _ (by simpa using hr)]
  simp [ring]

theorem runInner_text (s : List Tok) (r : List P) (hr : r ≠ []) :
    runInner (impl T fmt) s r = s ++ Tok.comma :: ring T (r.map fmt) := by
  have h : runInner (impl T fmt) s r
      = setBack .close (r.foldl (fun s p => s ++ T.pt (fmt p) ++ [Tok.comma]) (s ++ [.comma, .open])) := rfl
  rw [h, foldl_add, setBack_items T.pt _ (by simpa using hr)]
  simp [ring]

theorem foldl_runInner_text (rs : List (List P)) (hrs : ∀ r ∈ rs, r ≠ []) (s : List Tok) :
    rs.foldl (runInner (impl T fmt)) s
      = s ++ (rs.map (·.map fmt)).flatMap (fun r => Tok.comma :: ring T r) := by
  induction rs generalizing s with
  | nil => simp
  | cons r rs ih =>
    rw [List.foldl_cons, runInner_text T fmt s r (hrs r (by simp)), ih (fun r' h => hrs r' (by simp [h]))]
    simp

theorem runPoly_text (s : List Tok) (p : Poly P) (hp : PolyNonEmpty p) :
    runPoly (impl T fmt) s p = s ++ (poly T (p.map fmt) ++ [.comma]) := by
  have h : runPoly (impl T fmt) s p
      = p.inners.foldl (runInner (impl T fmt)) (runOuter (impl T fmt) s p.outer) ++ [.close, .comma] := rfl
  rw [h, runOuter_text T fmt s _ hp.1, foldl_runInner_text T fmt _ hp.2]
  simp [poly, Poly.rings, Poly.map, listClose_cons]

theorem foldl_runPoly_text (ps : List (Poly P)) (hps : ∀ p ∈ ps, PolyNonEmpty p) (s : List Tok) :
    ps.foldl (runPoly (impl T fmt)) s
      = s ++ (ps.map (·.map fmt)).flatMap (fun p => poly T p ++ [.comma]) := by
  induction ps generalizing s with
  | nil => simp
  | cons p ps ih =>
    rw [List.foldl_cons, runPoly_text T fmt s p (hps p (by simp)), ih (fun q h => hps q (by simp [h]))]
    simp

/-- the text implementation's calls produce the declarative token list -/
theorem run_eq_emit (g : Geom P) (hg : ∀ p, g = .polygon p → p.inners = []) (hne : NonEmpty g) :
    run (impl T fmt) g = emit T (g.map fmt) := by
  cases g with
  | point p => rfl
  | linestring ps =>
    have h : run (impl T fmt) (.linestring ps)
        = setBack .close (ps.foldl (fun s p => s ++ T.pt (fmt p) ++ [Tok.comma]) (T.head .linestring ++ [.open]))
          ++ T.tail := rfl
    rw [h, foldl_add, setBack_items T.pt _ (by simpa [NonEmpty] using hne)]
    simp [emit, Geom.map]
  | polygon p =>
    obtain ⟨o, inn⟩ := p
    have := hg _ rfl
    simp at this
    subst this
    have h : run (impl T fmt) (.polygon ⟨o, []⟩)
        = setBack .close (o.foldl (fun s p => s ++ T.pt (fmt p) ++ [Tok.comma]) (T.head .polygon ++ [.open, .open]))
          ++ [.close] ++ T.tail := rfl
    rw [h, foldl_add, setBack_items T.pt _ (by simpa [NonEmpty, PolyNonEmpty] using hne.1)]
    simp [emit, Geom.map, Poly.map, poly, Poly.rings, listClose, ring]
  | multipolygon ps =>
    have h : run (impl T fmt) (.multipolygon ps)
        = setBack .close (ps.foldl (runPoly (impl T fmt)) (T.head .multipolygon ++ [.open])) ++ T.tail := rfl
    rw [h, foldl_runPoly_text T fmt ps hne.2, setBack_items (poly T) _ (by simpa using hne.1)]
    simp [emit, Geom.map]

end

/-! ### decoder ∘ encoder, generic in the point-list reader -/

theorem listClose_length {α : Type} (item : α → List Tok) (l : List α) :
    l.length ≤ (listClose item l).length := by
  induction l with
  | nil => simp [listClose]
  | cons a l ih =>
    cases l with
    | nil => simp [listClose]
    | cons b rest => simp only [listClose, List.length_append, List.length_cons] at ih ⊢; omega

section
variable (T : Fmt) (parsePts : List Tok → Option (List TPoint × List Tok))
  (hP : ∀ ps : List TPoint, ps ≠ [] → ∀ rest, parsePts (listClose T.pt ps ++ rest) = some (ps, rest))
include hP

theorem parseRings_emit (rs : List (List TPoint)) (h0 : rs ≠ []) (hrs : ∀ r ∈ rs, r ≠ [])
    (fuel : Nat) (hf : rs.length ≤ fuel) (rest : List Tok) :
    parseRings parsePts fuel (listClose (ring T) rs ++ rest) = some (rs, rest) := by
  induction rs generalizing fuel with
  | nil => exact absurd rfl h0
  | cons r rs ih =>
    cases fuel with
    | zero => simp at hf
    | succ fuel =>
      cases rs with
      | nil =>
        simp only [listClose, ring, List.append_assoc, List.cons_append, List.nil_append, parseRings]
        rw [hP r (hrs r (by simp))]
      | cons r2 rs' =>
        simp only [listClose, ring, List.append_assoc, List.cons_append, List.nil_append, parseRings]
        rw [hP r (hrs r (by simp))]
        have := ih (by simp) (fun q h => hrs q (by simp [h])) fuel (by simp at hf ⊢; omega)
        simp only [this]

theorem parsePoly_emit (p : Poly TPoint) (hp : PolyNonEmpty p) (fuel : Nat)
    (hf : p.rings.length ≤ fuel) (rest : List Tok) :
    parsePoly parsePts fuel (poly T p ++ rest) = some (p, rest) := by
  have hr : ∀ r ∈ p.rings, r ≠ [] := by
    intro r h
    rcases List.mem_cons.mp h with h | h
    · subst h; exact hp.1
    · exact hp.2 r h
  have := parseRings_emit T parsePts hP p.rings (by simp [Poly.rings]) hr fuel hf rest
  simp only [Poly.rings] at this
  simp only [poly, List.cons_append, List.nil_append, parsePoly, this, Poly.rings]

theorem parsePolys_emit (ps : List (Poly TPoint)) (h0 : ps ≠ []) (hps : ∀ p ∈ ps, PolyNonEmpty p)
    (fuel : Nat) (hf : ps.length ≤ fuel) (rest : List Tok) :
    parsePolys parsePts fuel (listClose (poly T) ps ++ rest) = some (ps, rest) := by
  induction ps generalizing fuel with
  | nil => exact absurd rfl h0
  | cons p ps ih =>
    cases fuel with
    | zero => simp at hf
    | succ fuel =>
      have hlen : ∀ (more : List Tok), p.rings.length ≤ (poly T p ++ more).length := by
        intro more
        have := listClose_length (ring T) p.rings
        simp only [poly, List.length_append, List.length_cons] at this ⊢
        omega
      cases ps with
      | nil =>
        simp only [listClose, List.append_assoc, parsePolys]
        rw [parsePoly_emit T parsePts hP p (hps p (by simp)) _ (hlen _)]
        simp
      | cons p2 ps' =>
        simp only [listClose, List.append_assoc, parsePolys]
        rw [parsePoly_emit T parsePts hP p (hps p (by simp)) _ (hlen _)]
        have := ih (by simp) (fun q h => hps q (by simp [h])) fuel (by simp at hf ⊢; omega)
        simp only [List.cons_append, List.nil_append, List.append_assoc] at this ⊢
        simp only [this]

theorem parsePoly_emit' (p : Poly TPoint) (hp : PolyNonEmpty p) (fuel : Nat)
    (hf : (listClose (ring T) p.rings).length ≤ fuel) (rest : List Tok) :
    parsePoly parsePts fuel (Tok.open :: (listClose (ring T) p.rings ++ rest)) = some (p, rest) := by
  have := parsePoly_emit T parsePts hP p hp fuel
    (Nat.le_trans (listClose_length (ring T) p.rings) hf) rest
  simpa [poly] using this

theorem parsePolys_emit' (ps : List (Poly TPoint)) (h0 : ps ≠ []) (hps : ∀ p ∈ ps, PolyNonEmpty p)
    (fuel : Nat) (hf : (listClose (poly T) ps).length ≤ fuel) (rest : List Tok) :
    parsePolys parsePts fuel (listClose (poly T) ps ++ rest) = some (ps, rest) :=
  parsePolys_emit T parsePts hP ps h0 hps fuel (Nat.le_trans (listClose_length (poly T) ps) hf) rest

end
end Text

/-! ### WKT -/
namespace Wkt

theorem parsePts_emit (ps : List TPoint) (h : ps ≠ []) (rest : List Tok) :
    parsePts (listClose pt ps ++ rest) = some (ps, rest) := by
  induction ps with
  | nil => exact absurd rfl h
  | cons a ps ih =>
    cases ps with
    | nil => simp [listClose, pt, parsePts]
    | cons b ps' =>
      have := ih (by simp)
      simp only [listClose, pt, List.cons_append, List.nil_append, List.append_assoc, parsePts] at this ⊢
      simp only [this]

theorem parse_emit (c : Cfg) (hc : ∀ s, c.sridPrefix = some s → s.startsWith "SRID=" = true)
    (g : Geom TPoint) (hg : Text.NonEmpty g) : parse (emit c g) = some (c.sridPrefix, g) := by
  have hbody : ∀ (k : GType) (body : List Tok) (r : Option (Geom TPoint)),
      parseBody (kwOf k) (.open :: body) = r →
      parse (pre c ++ Tok.kw (kwOf k) :: .open :: body) = r.map (c.sridPrefix, ·) := by
    intro k body r hr
    cases hsp : c.sridPrefix with
    | none => simp only [pre, hsp, List.nil_append, parse, hr]
    | some s =>
      simp only [pre, hsp, List.cons_append, List.nil_append, parse, hc s hsp, if_true, hr]
  cases g with
  | point p =>
    have := hbody .point [.num p.1, .sp, .num p.2, .close] (some (.point p)) (by simp [parseBody, kwOf])
    simpa [emit, Text.emit, tfmt, pt] using this
  | linestring ps =>
    have h1 := parsePts_emit ps hg []
    simp only [List.append_nil] at h1
    have := hbody .linestring (listClose pt ps) (some (.linestring ps))
      (by simp [parseBody, kwOf, h1])
    simpa [emit, Text.emit, tfmt] using this
  | polygon p =>
    have h1 := Text.parsePoly_emit' (tfmt c) parsePts parsePts_emit p hg
      ((listClose (Text.ring (tfmt c)) p.rings).length + 1) (by omega) []
    simp only [List.append_nil] at h1
    have := hbody .polygon (listClose (Text.ring (tfmt c)) p.rings) (some (.polygon p))
      (by simp [parseBody, kwOf, h1])
    simpa [emit, Text.emit, tfmt, Text.poly] using this
  | multipolygon ps =>
    have h1 := Text.parsePolys_emit' (tfmt c) parsePts parsePts_emit ps hg.1 hg.2
      (listClose (Text.poly (tfmt c)) ps).length (Nat.le_refl _) []
    simp only [List.append_nil] at h1
    have := hbody .multipolygon (listClose (Text.poly (tfmt c)) ps) (some (.multipolygon ps))
      (by simp [parseBody, kwOf, h1])
    simpa [emit, Text.emit, tfmt] using this

end Wkt

/-! ### GeoJSON -/
namespace GeoJson

theorem parsePts_emit (ps : List TPoint) (h : ps ≠ []) (rest : List Tok) :
    parsePts (listClose pt ps ++ rest) = some (ps, rest) := by
  induction ps with
  | nil => exact absurd rfl h
  | cons a ps ih =>
    cases ps with
    | nil => simp [listClose, pt, parsePts]
    | cons b ps' =>
      have := ih (by simp)
      simp only [listClose, pt, List.cons_append, List.nil_append, List.append_assoc, parsePts] at this ⊢
      simp only [this]

theorem kw_ne : kwOf .polygon ≠ kwOf .point ∧ kwOf .polygon ≠ kwOf .linestring ∧
    kwOf .multipolygon ≠ kwOf .point ∧ kwOf .multipolygon ≠ kwOf .linestring ∧
    kwOf .multipolygon ≠ kwOf .polygon ∧ kwOf .linestring ≠ kwOf .point := by decide

theorem parse_emit (g : Geom TPoint) (hg : Text.NonEmpty g) : parse (emit g) = some g := by
  obtain ⟨n1, n2, n3, n4, n5, n6⟩ := kw_ne
  cases g with
  | point p =>
    have e : emit (.point p) = Tok.kw (kwOf .point) :: (pt p ++ [Tok.kw kwEnd]) := rfl
    rw [e]
    simp [parse, pt]
  | linestring ps =>
    have h1 := parsePts_emit ps hg [Tok.kw kwEnd]
    have e : emit (.linestring ps)
        = Tok.kw (kwOf .linestring) :: Tok.open :: (listClose pt ps ++ [Tok.kw kwEnd]) := rfl
    rw [e]
    simp only [parse, if_neg n6, if_true, h1]
  | polygon p =>
    have e : emit (.polygon p)
        = Tok.kw (kwOf .polygon) :: Tok.open :: (listClose (Text.ring tfmt) p.rings ++ [Tok.kw kwEnd]) := rfl
    rw [e]
    have h1 := Text.parsePoly_emit' tfmt parsePts parsePts_emit p hg
      (Tok.open :: (listClose (Text.ring tfmt) p.rings ++ [Tok.kw kwEnd])).length
      (by simp only [List.length_cons, List.length_append]; omega) [Tok.kw kwEnd]
    simp only [parse, if_neg n1, if_neg n2, if_true, h1]
  | multipolygon ps =>
    have e : emit (.multipolygon ps)
        = Tok.kw (kwOf .multipolygon) :: Tok.open :: (listClose (Text.poly tfmt) ps ++ [Tok.kw kwEnd]) := rfl
    rw [e]
    have h1 := Text.parsePolys_emit' tfmt parsePts parsePts_emit ps hg.1 hg.2
      (listClose (Text.poly tfmt) ps ++ [Tok.kw kwEnd]).length
      (by simp only [List.length_append]; omega) [Tok.kw kwEnd]
    simp only [parse, if_neg n3, if_neg n4, if_neg n5, if_true, h1]

end GeoJson


/-! ### geometries produced by `geomOf` have no empty list -/

theorem mapM_ok_forall {α β ε : Type} (f : α → Except ε β) (l : List α) (bs : List β)
    (h : l.mapM f = .ok bs) : ∀ b ∈ bs, ∃ a ∈ l, f a = .ok b := by
  induction l generalizing bs with
  | nil =>
    simp [List.mapM_nil, pure, Except.pure] at h
    subst h
    intro b hb; cases hb
  | cons a l ih =>
    simp only [List.mapM_cons, bind, Except.bind, pure, Except.pure] at h
    cases hf : f a with
    | error e => simp [hf] at h
    | ok b0 =>
      simp only [hf] at h
      cases hl : l.mapM f with
      | error e => simp [hl] at h
      | ok bs' =>
        simp only [hl] at h
        cases h
        intro b hb
        rcases List.mem_cons.mp hb with h1 | h1
        · subst h1; exact ⟨a, by simp, hf⟩
        · obtain ⟨a', ha', hfa'⟩ := ih bs' hl b h1
          exact ⟨a', by simp [ha'], hfa'⟩

theorem groupAux_nonEmpty {P : Type} (qs : List (Bool × List P)) (h : ∀ q ∈ qs, q.2 ≠ []) :
    (∀ r ∈ (groupAux qs).1, r ≠ []) ∧ (∀ p ∈ (groupAux qs).2, Text.PolyNonEmpty p) := by
  induction qs with
  | nil => simp [groupAux]
  | cons q qs ih =>
    obtain ⟨fl, r⟩ := q
    obtain ⟨h1, h2⟩ := ih (fun q hq => h q (by simp [hq]))
    have hr : r ≠ [] := h (fl, r) (by simp)
    cases fl with
    | false =>
      refine ⟨?_, h2⟩
      intro r' hr'
      simp only [groupAux, List.mem_cons] at hr'
      rcases hr' with e | e
      · subst e; exact hr
      · exact h1 r' e
    | true =>
      refine ⟨by simp [groupAux], ?_⟩
      intro p hp
      simp only [groupAux, List.mem_cons] at hp
      rcases hp with e | e
      · subst e; exact ⟨hr, h1⟩
      · exact h2 p e

section
variable {P : Type} (proj : Location → Except Err P)

theorem ringOf_len (it : RingItem) (q : Bool × List P) (h : ringOf proj it = .ok q) : q.2 ≠ [] := by
  simp only [ringOf, projAll, bind, Except.bind] at h
  cases h1 : (dedup it.2).mapM proj with
  | error e => simp [h1] at h
  | ok ps =>
    simp only [h1] at h
    by_cases h4 : ps.length < 4
    · simp [h4, throw, throwThe, MonadExceptOf.throw] at h
    · simp [h4, pure, Except.pure] at h
      cases h
      intro e
      simp only at e
      simp [e] at h4

theorem geomOf_nonEmpty (obj : Obj) (o : Opts) (g : Geom P) (h : geomOf proj obj o = .ok g)
    (hwf : obj.wf) : Text.NonEmpty g := by
  cases obj with
  | node l =>
    simp only [geomOf, bind, Except.bind] at h
    cases hl : proj l <;> simp [hl, pure, Except.pure] at h
    subst h; trivial
  | way nodes =>
    simp only [geomOf, bind, Except.bind] at h
    cases hm : projAll proj (seqOf o nodes) with
    | error e => simp [hm] at h
    | ok ps =>
      simp only [hm] at h
      by_cases h2 : ps.length < 2 <;> simp [h2, pure, Except.pure, throw, throwThe, MonadExceptOf.throw] at h
      subst h
      intro e; simp [e] at h2
  | wayPolygon nodes =>
    simp only [geomOf, bind, Except.bind] at h
    cases hm : projAll proj (seqOf o nodes) with
    | error e => simp [hm] at h
    | ok ps =>
      simp only [hm] at h
      by_cases h2 : ps.length < 4 <;> simp [h2, pure, Except.pure, throw, throwThe, MonadExceptOf.throw] at h
      subst h
      exact ⟨by intro e; simp only at e; simp [e] at h2, by simp⟩
  | area items =>
    simp only [geomOf, bind, Except.bind] at h
    cases hm : items.mapM (ringOf proj) with
    | error e => simp [hm] at h
    | ok rs =>
      simp only [hm] at h
      have hall : ∀ q ∈ rs, q.2 ≠ [] := by
        intro q hq
        obtain ⟨a, _, ha⟩ := mapM_ok_forall _ _ _ hm q hq
        exact ringOf_len proj a q ha
      cases items with
      | nil =>
        simp [List.mapM_nil, pure, Except.pure] at hm
        subst hm
        simp [throw, throwThe, MonadExceptOf.throw] at h
      | cons it rest =>
        obtain ⟨fl, r⟩ := it
        cases fl with
        | false => exact absurd hwf (by simp [Obj.wf])
        | true =>
          obtain ⟨ps, qs', rfl⟩ := mapM_head_outer (ε := Err) (ringOf proj) (ringOf_flag proj) r rest rs hm
          simp [pure, Except.pure] at h
          subst h
          exact ⟨by simp [groupAux], (groupAux_nonEmpty _ hall).2⟩

end

end Osmium.Geom
