/-
DenseNodes: one iteration of the `while (!ids.empty())` loop of `decode_dense_nodes` in clean form, and the
field-list round trip of `DenseNodes::serialize` against it.
-/
import Osmium.Lemmas.PbfObj

namespace Osmium.Pbf

open Osmium.Wire Osmium.Osm Osmium.PbfMsg
open Osmium.StringTable (Table lookup)

/-- definitional unfolding of one iteration (the equation compiler cannot generate it: too many splits) -/
theorem denseLoop_succ (p : Params) (hasInfo : Bool) (fuel : Nat) (c : DenseCur) (acc : List Object) :
  denseLoop p hasInfo (fuel + 1) c acc =
    (match c.ids with
    | [] => some acc.reverse
    | idv :: ids' =>
      if c.lons.isEmpty || c.lats.isEmpty then none else do
      let id := wrap64 (c.dId + unzigzag64 idv)
      let mut c := { c with ids := ids', dId := id }
      let mut info : InfoAcc := {}
      let mut user : Bytes := []
      if hasInfo then
        if let some (v, rest) := pop c.versions then
          let ver ← versionOf (toInt32 v)
          info := { info with version := ver }
          c := { c with versions := rest }
        if let some (v, rest) := pop c.changesets then
          let d := wrap64 (c.dChangeset + unzigzag64 v)
          let cs ← changesetOf d
          info := { info with changeset := cs }
          c := { c with changesets := rest, dChangeset := d }
        if let some (v, rest) := pop c.timestamps then
          let d := wrap64 (c.dTimestamp + unzigzag64 v)
          info := { info with timestamp := convTimestamp p.dateFactor d }
          c := { c with timestamps := rest, dTimestamp := d }
        if let some (v, rest) := pop c.uids then
          let d := wrap64 (c.dUid + unzigzag32 v)
          info := { info with uid := uidOf (toInt32 (u64 d)) }
          c := { c with uids := rest, dUid := d }
        if let some (v, rest) := pop c.visibles then
          info := { info with visible := toInt32 v != 0 }
          c := { c with visibles := rest }
        if let some (v, rest) := pop c.userSids then
          let d := wrap64 (c.dUserSid + unzigzag32 v)
          let u ← lookup p.strings d
          user := u
          c := { c with userSids := rest, dUserSid := d }
      match c.lons, c.lats with
      | lonv :: lons', latv :: lats' =>
        let lon := wrap64 (c.dLon + unzigzag64 lonv)
        let lat := wrap64 (c.dLat + unzigzag64 latv)
        c := { c with lons := lons', lats := lats', dLon := lon, dLat := lat }
        let loc := if info.visible then Location.mk (convCoord p.granularity p.lonOffset lon) (convCoord p.granularity p.latOffset lat)
                   else Location.undefined
        let (tags, trest) ← if c.tags.isEmpty then some ([], []) else denseTags p c.tags.length c.tags
        c := { c with tags := trest }
        let m : Meta := { id := id, version := info.version, visible := info.visible, timestamp := info.timestamp,
                          changeset := info.changeset, uid := info.uid, user := user, tags := tags }
        denseLoop p hasInfo fuel c (.node m loc :: acc)
      | _, _ => none) := rfl


/-! ### the per-array parts of one iteration -/

def dsVersion : List Nat → Option (Nat × List Nat)
  | [] => some (0, [])
  | v :: r => (versionOf (toInt32 v)).map fun x => (x, r)

def dsChangeset (d0 : Int) : List Nat → Option (Nat × List Nat × Int)
  | [] => some (0, [], d0)
  | v :: r => (changesetOf (wrap64 (d0 + unzigzag64 v))).map fun x => (x, r, wrap64 (d0 + unzigzag64 v))

def dsTimestamp (factor d0 : Int) : List Nat → Nat × List Nat × Int
  | [] => (0, [], d0)
  | v :: r => (convTimestamp factor (wrap64 (d0 + unzigzag64 v)), r, wrap64 (d0 + unzigzag64 v))

def dsUid (d0 : Int) : List Nat → Nat × List Nat × Int
  | [] => (0, [], d0)
  | v :: r => (uidOf (toInt32 (u64 (wrap64 (d0 + unzigzag32 v)))), r, wrap64 (d0 + unzigzag32 v))

def dsVisible : List Nat → Bool × List Nat
  | [] => (true, [])
  | v :: r => (toInt32 v != 0, r)

def dsUser (strs : List Bytes) (d0 : Int) : List Nat → Option (Bytes × List Nat × Int)
  | [] => some ([], [], d0)
  | v :: r => (lookup strs (wrap64 (d0 + unzigzag32 v))).map fun u => (u, r, wrap64 (d0 + unzigzag32 v))

def dsTags (p : Params) (ts : List Nat) : Option (List Tag × List Nat) :=
  if ts.isEmpty then some ([], []) else denseTags p ts.length ts

/-- one iteration with metadata (`has_info`), all arrays at once -/
def denseIter (p : Params) (c : DenseCur) : Option (DenseCur × Object) :=
  match c.ids, c.lons, c.lats with
  | idv :: ids', lonv :: lons', latv :: lats' =>
    (dsVersion c.versions).bind fun (ver, vr) =>
    (dsChangeset c.dChangeset c.changesets).bind fun (cs, cr, dcs) =>
    let (ts, tr, dts) := dsTimestamp p.dateFactor c.dTimestamp c.timestamps
    let (uid, ur, dui) := dsUid c.dUid c.uids
    let (vis, visr) := dsVisible c.visibles
    (dsUser p.strings c.dUserSid c.userSids).bind fun (user, usr, dus) =>
    (dsTags p c.tags).bind fun (tags, trest) =>
    let id := wrap64 (c.dId + unzigzag64 idv)
    let lon := wrap64 (c.dLon + unzigzag64 lonv)
    let lat := wrap64 (c.dLat + unzigzag64 latv)
    some ({ ids := ids', lats := lats', lons := lons', tags := trest, versions := vr, timestamps := tr, changesets := cr,
            uids := ur, userSids := usr, visibles := visr, dId := id, dLat := lat, dLon := lon, dUid := dui,
            dUserSid := dus, dChangeset := dcs, dTimestamp := dts },
          .node { id := id, version := ver, visible := vis, timestamp := ts, changeset := cs, uid := uid, user := user, tags := tags }
            (if vis then Location.mk (convCoord p.granularity p.lonOffset lon) (convCoord p.granularity p.latOffset lat)
             else Location.undefined))
  | _, _, _ => none

theorem denseLoop_iter (p : Params) (fuel : Nat) (c : DenseCur) (acc : List Object) (idv : Nat) (ids' : List Nat)
    (h : c.ids = idv :: ids') :
    denseLoop p true (fuel + 1) c acc = (denseIter p c).bind fun (c', ob) => denseLoop p true fuel c' (ob :: acc) := by
  obtain ⟨ids, lats, lons, tags, vs, ts, cs, us, ss, vis, a1, a2, a3, a4, a5, a6, a7⟩ := c
  simp only at h; subst h
  rw [denseLoop_succ]
  cases lats <;> cases lons <;> cases vs <;> cases ts <;> cases cs <;> cases us <;> cases ss <;> cases vis <;>
    simp [pop, denseIter, dsVersion, dsChangeset, dsTimestamp, dsUid, dsVisible, dsUser, dsTags, Option.bind_map, Function.comp_def] <;>
    (try (split <;> simp [Option.bind_assoc]))

/-- without DenseInfo (`has_info == false`) the six metadata arrays are not looked at; when they are empty
    anyway (nothing was written) the iteration is the same -/
theorem denseLoop_iter_noinfo (p : Params) (fuel : Nat) (c : DenseCur) (acc : List Object) (idv : Nat) (ids' : List Nat)
    (h : c.ids = idv :: ids') (h1 : c.versions = []) (h2 : c.timestamps = []) (h3 : c.changesets = [])
    (h4 : c.uids = []) (h5 : c.userSids = []) (h6 : c.visibles = []) :
    denseLoop p false (fuel + 1) c acc = (denseIter p c).bind fun (c', ob) => denseLoop p false fuel c' (ob :: acc) := by
  obtain ⟨ids, lats, lons, tags, vs, ts, cs, us, ss, vis, a1, a2, a3, a4, a5, a6, a7⟩ := c
  simp only at h h1 h2 h3 h4 h5 h6; subst h h1 h2 h3 h4 h5 h6
  rw [denseLoop_succ]
  cases lats <;> cases lons <;>
    simp [pop, denseIter, dsVersion, dsChangeset, dsTimestamp, dsUid, dsVisible, dsUser, dsTags, Option.bind_map, Function.comp_def] <;>
    (try (split <;> simp [Option.bind_assoc]))

/-! ### what the writer put into the arrays, read back array by array -/

theorem zigzag64_int32_lt (d : Int) (h1 : -(2:Int)^31 ≤ d) (h2 : d < (2:Int)^31) : zigzag64 d < 2 ^ 32 := by
  unfold zigzag64
  simp only [Int.reducePow, Nat.reducePow] at *
  split <;> omega

theorem unzigzag32_zigzag32 (d : Int) (h1 : -(2:Int)^31 ≤ d) (h2 : d < (2:Int)^31) : unzigzag32 (zigzag32 d) = d := by
  unfold unzigzag32 zigzag32
  have := zigzag64_int32_lt d h1 h2
  rw [Nat.mod_mod, Nat.mod_eq_of_lt this, unzigzag_zigzag]

theorem swrap32_range (x : Int) : -(2:Int)^31 ≤ Delta.swrap 32 x ∧ Delta.swrap 32 x < (2:Int)^31 := by
  simp only [Delta.swrap, Int.reducePow, Nat.reduceSub]
  split <;> omega

theorem ds_version (b : Bool) (ver : Nat) (rest : List Nat) (hv : ver < 2 ^ 31) :
    dsVersion (if b then u64 (toInt32 ver) :: rest else []) = some (if b then ver else 0, if b then rest else []) := by
  cases b <;> simp [dsVersion, int32_field ver hv, versionOf_nat]

theorem ds_changeset (b : Bool) (pv : Int) (cs : Nat) (rest : List Nat) (hp1 : 0 ≤ pv) (hp2 : pv < (2:Int)^32) (hc : cs < 2 ^ 32) :
    dsChangeset pv (if b then zigzag64 (Delta.swrap 64 (Delta.swrap 64 (cs : Int) - Delta.swrap 64 pv)) :: rest else []) =
      some (if b then cs else 0, if b then rest else [], if b then (cs : Int) else pv) := by
  cases b
  · simp [dsChangeset]
  · have := Delta.step64 pv (cs : Int) (by simp only [Int.reducePow, Nat.reducePow] at *; omega) (by simp only [Int.reducePow, Nat.reducePow] at *; omega)
      (by simp only [Int.reducePow] at *; omega) (by simp only [Int.reducePow] at *; omega)
    simp [dsChangeset, unzigzag_zigzag, wrap64, this, changesetOf_nat cs hc]

theorem ds_timestamp (b : Bool) (pv : Int) (ts : Nat) (rest : List Nat) (hp1 : 0 ≤ pv) (hp2 : pv < (2:Int)^32) (hc : ts < 2 ^ 32) :
    dsTimestamp 1000 pv (if b then zigzag64 (Delta.swrap 64 (Delta.swrap 64 (ts : Int) - Delta.swrap 64 pv)) :: rest else []) =
      (if b then ts else 0, if b then rest else [], if b then (ts : Int) else pv) := by
  cases b
  · simp [dsTimestamp]
  · have := Delta.step64 pv (ts : Int) (by simp only [Int.reducePow, Nat.reducePow] at *; omega) (by simp only [Int.reducePow, Nat.reducePow] at *; omega)
      (by simp only [Int.reducePow] at *; omega) (by simp only [Int.reducePow] at *; omega)
    simp [dsTimestamp, unzigzag_zigzag, wrap64, this, convTimestamp_default ts hc]

theorem ds_uid (b : Bool) (pv : Int) (uid : Nat) (rest : List Nat) (hp1 : 0 ≤ pv) (hp2 : pv < (2:Int)^31) (hc : uid < 2 ^ 31) :
    dsUid pv (if b then zigzag32 (Delta.swrap 32 (Delta.swrap 32 (uid : Int) - Delta.swrap 32 pv)) :: rest else []) =
      (if b then uid else 0, if b then rest else [], if b then (uid : Int) else pv) := by
  cases b
  · simp [dsUid]
  · have r := swrap32_range (Delta.swrap 32 (uid : Int) - Delta.swrap 32 pv)
    have := Delta.step32 pv (uid : Int) (by omega) (by simp only [Int.reducePow, Nat.reducePow] at *; omega) hp1 hp2
    have e : toInt32 (u64 (uid : Int)) = (uid : Int) := by
      rw [u64_nat uid (by simp only [Nat.reducePow] at *; omega), toInt32_small uid hc]
    simp [dsUid, unzigzag32_zigzag32 _ r.1 r.2, wrap64, this, e, uidOf_nat]

theorem ds_visible (b vis : Bool) (rest : List Nat) :
    dsVisible (if b then (if vis then 1 else 0) :: rest else []) = (if b then vis else true, if b then rest else []) := by
  cases b <;> cases vis <;> simp [dsVisible] <;> decide

theorem ds_user (b : Bool) (T : List Bytes) (pv : Int) (sid : Nat) (user : Bytes) (rest : List Nat)
    (hp1 : 0 ≤ pv) (hp2 : pv < (2:Int)^31) (hc : sid < 2 ^ 31) (hu : b = true → T[sid]? = some user) :
    dsUser T pv (if b then zigzag32 (Delta.swrap 32 (Delta.swrap 32 (sid : Int) - Delta.swrap 32 pv)) :: rest else []) =
      some (if b then user else [], if b then rest else [], if b then (sid : Int) else pv) := by
  cases b
  · simp [dsUser]
  · have r := swrap32_range (Delta.swrap 32 (sid : Int) - Delta.swrap 32 pv)
    have := Delta.step32 pv (sid : Int) (by omega) (by simp only [Int.reducePow, Nat.reducePow] at *; omega) hp1 hp2
    simp [dsUser, unzigzag32_zigzag32 _ r.1 r.2, wrap64, this, lookup_nat, hu rfl]

/-- one 0-terminated key/value group of `keys_vals` -/
theorem denseTags_group (T : List Bytes) : ∀ (tags : List Tag) (kv rest : List Nat) (fuel : Nat),
    kv.map (fun i => T[i]?) = (tags.flatMap fun tg => [tg.key, tg.value]).map some →
    (∀ i ∈ kv, 0 < i ∧ i < 2 ^ 31) → tags.length + 1 ≤ fuel →
    denseTags { strings := T } fuel ((kv ++ [0]).map (fun i => u64 (toInt32 i)) ++ rest) = some (tags, rest)
  | [], [], rest, fuel, _, _, hf => by
    obtain ⟨f, rfl⟩ : ∃ f, fuel = f + 1 := ⟨fuel - 1, by omega⟩
    have : toInt32 (u64 (toInt32 0)) = 0 := by decide
    simp [denseTags, this]
  | [], _ :: _, _, _, h, _, _ => by simp at h
  | _ :: _, [], _, _, h, _, _ => by simp at h
  | _ :: _, [_], _, _, h, _, _ => by simp at h
  | tg :: tags, k :: v :: kv, rest, fuel, h, hb, hf => by
    obtain ⟨f, rfl⟩ : ∃ f, fuel = f + 1 := ⟨fuel - 1, by omega⟩
    simp only [List.flatMap_cons, List.cons_append, List.nil_append, List.map_cons, List.cons.injEq] at h
    have bk := hb k List.mem_cons_self
    have bv := hb v (List.mem_cons_of_mem _ List.mem_cons_self)
    have ek := int32_field k bk.2
    have ev := int32_field v bv.2
    have nk : ((k : Int) == 0) = false := by simp; omega
    have ih := denseTags_group T tags kv rest f h.2.2
      (fun i hi => hb i (List.mem_cons_of_mem _ (List.mem_cons_of_mem _ hi))) (by simp at hf; omega)
    simp only [List.cons_append, List.map_cons, denseTags, ek, ev, nk, Bool.false_eq_true, ↓reduceIte, lookup_nat, h.1, h.2.1,
      bind, Option.bind, pure]
    rw [ih]

end Osmium.Pbf
