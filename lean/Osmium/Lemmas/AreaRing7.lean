/-
C10 stage B, part 4 — a ring is determined, as a cyclic sequence up to rotation and reversal, by
the set of its segments.

In a segment list without duplicates in which every node has degree 2, a closed chain of distinct
segments has no choice: the segment after `d` is THE other segment ending where `d` stops.  So two
closed chains over the same set of segments are rotations of each other, or one is a rotation of
the other one reversed.  Together with `sameRing_iff_conn` this gives the order independence of the
simple case in its strongest form: whatever order the segments were listed in, the rings are the
same cyclic sequences of directed segments up to rotation and reversal.
-/
import Osmium.Lemmas.AreaRing6

namespace Osmium.Area

/-- `g'` is `g` started somewhere else -/
def Rot {α : Type} (g g' : List α) : Prop := ∃ l1 l2, g = l1 ++ l2 ∧ g' = l2 ++ l1

/-- chain of directed segments from `a` to `b` -/
def DPath : Vec → Ring → Vec → Prop
  | a, [], b => a = b
  | a, d :: r, b => d.start = a ∧ DPath d.stop r b

theorem dpath_append (l1 l2 : Ring) : ∀ (a b : Vec),
    DPath a (l1 ++ l2) b ↔ ∃ m, DPath a l1 m ∧ DPath m l2 b := by
  induction l1 with
  | nil =>
    intro a b
    simp only [List.nil_append, DPath]
    constructor
    · intro h; exact ⟨a, rfl, h⟩
    · rintro ⟨m, rfl, h⟩; exact h
  | cons d l1 ih =>
    intro a b
    simp only [List.cons_append, DPath, ih]
    constructor
    · rintro ⟨h1, m, h2, h3⟩; exact ⟨m, ⟨h1, h2⟩, h3⟩
    · rintro ⟨m, ⟨h1, h2⟩, h3⟩; exact ⟨h1, m, h2, h3⟩

theorem dpath_rotate (l1 l2 : Ring) (a : Vec) (h : DPath a (l1 ++ l2) a) : ∃ m, DPath m (l2 ++ l1) m := by
  obtain ⟨m, h1, h2⟩ := (dpath_append l1 l2 a a).mp h
  exact ⟨m, (dpath_append l2 l1 m m).mpr ⟨a, h2, h1⟩⟩

theorem dpath_reverse (g : Ring) : ∀ (a b : Vec), DPath a g b → DPath b (Ring.reverse g) a := by
  induction g with
  | nil => intro a b h; simp only [DPath] at h; simp [Ring.reverse, DPath, h]
  | cons d g ih =>
    intro a b h
    simp only [DPath] at h
    have := ih _ _ h.2
    simp only [Ring.reverse, List.map_cons, List.reverse_cons] at this ⊢
    rw [dpath_append]
    refine ⟨d.stop, this, ?_⟩
    simp only [DPath]
    cases hr : d.rev <;> simp [DSeg.flip, DSeg.start, DSeg.stop, hr] at h ⊢ <;> exact h.1

theorem isPath_dpath (segs : List Seg) (r : List SLoc) : ∀ (a b : Vec),
    IsPath segs a r b → DPath a (ringOf segs r) b := by
  induction r with
  | nil => intro a b h; simpa [IsPath, ringOf, DPath] using h
  | cons x r ih =>
    intro a b h
    simp only [IsPath] at h
    simp only [ringOf, List.map_cons, DPath, dseg_start, dseg_stop]
    exact ⟨h.1, ih _ _ h.2⟩

/-- a closed chain of distinct segments of `segs` -/
structure GeoRing (segs : List Seg) (g : Ring) : Prop where
  nonempty : g ≠ []
  closed : ∃ a, DPath a g a
  mem : ∀ d ∈ g, d.seg ∈ segs
  nodup : (g.map DSeg.seg).Nodup

/-! ## at most two segments meet in a node -/

def hasEnd (v : Vec) (s : Seg) : Bool := s.first == v || s.second == v

theorem count_ge_filter (l : List Seg) (v : Vec) : (l.filter (hasEnd v)).length ≤ (endpoints l).count v := by
  induction l with
  | nil => simp [endpoints]
  | cons s l ih =>
    have he : endpoints (s :: l) = [s.first, s.second] ++ endpoints l := by simp [endpoints]
    rw [he, List.count_append, List.filter_cons]
    by_cases h : hasEnd v s = true
    · simp only [h, if_true, List.length_cons]
      have : 1 ≤ List.count v [s.first, s.second] := by
        unfold hasEnd at h
        simp only [Bool.or_eq_true, beq_iff_eq] at h
        rcases h with h | h <;> simp [List.count_cons, h]
      omega
    · simp only [h, Bool.false_eq_true, if_false]; omega

/-- three different segments of a duplicate-free list cannot all end in a node of degree ≤ 2 -/
theorem no_three_at (segs : List Seg) (v : Vec) (hdeg : (endpoints segs).count v ≤ 2)
    (s1 s2 s3 : Seg) (h1 : s1 ∈ segs) (h2 : s2 ∈ segs) (h3 : s3 ∈ segs)
    (e1 : hasEnd v s1 = true) (e2 : hasEnd v s2 = true) (e3 : hasEnd v s3 = true)
    (n12 : s1 ≠ s2) (n13 : s1 ≠ s3) (n23 : s2 ≠ s3) : False := by
  have hnd : [s1, s2, s3].Nodup := by simp [n12, n13, n23]
  have hsub : [s1, s2, s3] ⊆ segs.filter (hasEnd v) := by
    intro x hx
    simp only [List.mem_cons, List.not_mem_nil, or_false] at hx
    rcases hx with rfl | rfl | rfl <;> exact List.mem_filter.mpr ⟨by assumption, by assumption⟩
  have := List.Nodup.length_le_of_subset hnd hsub
  have := count_ge_filter segs v
  simp only [List.length_cons, List.length_nil] at *
  omega

theorem dseg_start_end (d : DSeg) : hasEnd d.start d.seg = true := by
  cases h : d.rev <;> simp [hasEnd, DSeg.start, h]

theorem dseg_stop_end (d : DSeg) : hasEnd d.stop d.seg = true := by
  cases h : d.rev <;> simp [hasEnd, DSeg.stop, h]

/-- the successor in a chain is determined -/
theorem succ_unique (segs : List Seg) (hw : WfSegs segs)
    (h2 : ∀ v, (endpoints segs).count v = 0 ∨ (endpoints segs).count v = 2)
    (d e e' : DSeg) (hd : d.seg ∈ segs) (he : e.seg ∈ segs) (he' : e'.seg ∈ segs)
    (hs : e.start = d.stop) (hs' : e'.start = d.stop) (hne : e.seg ≠ d.seg) (hne' : e'.seg ≠ d.seg) : e = e' := by
  have hseg : e.seg = e'.seg := by
    apply Classical.byContradiction
    intro hn
    have hdeg : (endpoints segs).count d.stop ≤ 2 := by rcases h2 d.stop with h | h <;> omega
    exact no_three_at segs d.stop hdeg d.seg e.seg e'.seg hd he he' (dseg_stop_end d)
      (hs ▸ dseg_start_end e) (hs' ▸ dseg_start_end e') (Ne.symm hne) (Ne.symm hne') hn
  have hwf := hw e.seg he
  have hfs : e.seg.first ≠ e.seg.second := by
    intro heq
    unfold Seg.wf at hwf
    rw [heq, vec_lt_irrefl] at hwf
    exact absurd hwf (by decide)
  obtain ⟨es, er⟩ := e
  obtain ⟨es', er'⟩ := e'
  simp only at hseg hfs
  subst hseg
  have hst : DSeg.start ⟨es, er⟩ = DSeg.start ⟨es, er'⟩ := hs.trans hs'.symm
  cases er <;> cases er' <;> simp [DSeg.start] at hst ⊢ <;> [exact hfs hst; exact hfs hst.symm]

/-- two chains of distinct segments that start with the same directed segment and have the same
    length are equal -/
theorem chain_det (segs : List Seg) (hw : WfSegs segs)
    (h2 : ∀ v, (endpoints segs).count v = 0 ∨ (endpoints segs).count v = 2) :
    ∀ (t t' : Ring) (d : DSeg) (a b a' b' : Vec),
    DPath a (d :: t) b → DPath a' (d :: t') b' →
    (∀ x ∈ d :: t, x.seg ∈ segs) → (∀ x ∈ d :: t', x.seg ∈ segs) →
    ((d :: t).map DSeg.seg).Nodup → ((d :: t').map DSeg.seg).Nodup → t.length = t'.length → t = t' := by
  intro t
  induction t with
  | nil =>
    intro t' d a b a' b' _ _ _ _ _ _ hl
    exact (List.eq_nil_of_length_eq_zero (by simpa using hl.symm)).symm
  | cons e t ih =>
    intro t' d a b a' b' hp hp' hm hm' hn hn' hl
    cases t' with
    | nil => simp at hl
    | cons e' t' =>
      simp only [DPath] at hp hp'
      simp only [List.map_cons, List.nodup_cons, List.mem_cons, List.mem_map, not_or] at hn hn'
      have hee : e = e' := succ_unique segs hw h2 d e e' (hm d List.mem_cons_self)
        (hm e (by simp)) (hm' e' (by simp)) hp.2.1 hp'.2.1 (fun h => hn.1.1 h.symm) (fun h => hn'.1.1 h.symm)
      subst hee
      have := ih t' e d.stop b d.stop b' ⟨hp.2.1, hp.2.2⟩ ⟨hp'.2.1, hp'.2.2⟩
        (fun x hx => hm x (List.mem_cons_of_mem _ hx)) (fun x hx => hm' x (List.mem_cons_of_mem _ hx))
        (by simp only [List.map_cons, List.nodup_cons, List.mem_map, not_exists, not_and]
            exact ⟨fun x hx => by have := hn.2.1; simp only [not_exists, not_and] at this; exact this x hx, hn.2.2⟩)
        (by simp only [List.map_cons, List.nodup_cons, List.mem_map, not_exists, not_and]
            exact ⟨fun x hx => by have := hn'.2.1; simp only [not_exists, not_and] at this; exact this x hx, hn'.2.2⟩)
        (by simpa using hl)
      rw [this]

theorem ring_reverse_append (a b : Ring) : Ring.reverse (a ++ b) = Ring.reverse b ++ Ring.reverse a := by
  simp [Ring.reverse, List.map_append, List.reverse_append]

theorem geoRing_reverse (segs : List Seg) (g : Ring) (h : GeoRing segs g) : GeoRing segs (Ring.reverse g) where
  nonempty := by
    intro e; apply h.nonempty; simpa [Ring.reverse] using e
  closed := by
    obtain ⟨a, ha⟩ := h.closed
    exact ⟨a, dpath_reverse g a a ha⟩
  mem := by
    intro d hd
    simp only [Ring.reverse, List.mem_reverse, List.mem_map] at hd
    obtain ⟨x, hx, rfl⟩ := hd
    exact h.mem x hx
  nodup := by
    have : (Ring.reverse g).map DSeg.seg = (g.map DSeg.seg).reverse := by
      simp [Ring.reverse, List.map_reverse, DSeg.flip, Function.comp_def]
    rw [this]; exact (List.reverse_perm _).nodup_iff.mpr h.nodup

/-- same start: the rest is forced -/
theorem geo_unique_same_dir (segs : List Seg) (hw : WfSegs segs)
    (h2 : ∀ v, (endpoints segs).count v = 0 ∨ (endpoints segs).count v = 2)
    (d0 : DSeg) (t : Ring) (g' : Ring) (hg : GeoRing segs (d0 :: t)) (hg' : GeoRing segs g')
    (hlen : (d0 :: t).length = g'.length) (hin : d0 ∈ g') : Rot (d0 :: t) g' := by
  obtain ⟨l1, l2, rfl⟩ := List.append_of_mem hin
  obtain ⟨a, ha⟩ := hg.closed
  obtain ⟨a', ha'⟩ := hg'.closed
  obtain ⟨m, hm⟩ := dpath_rotate l1 (d0 :: l2) a' ha'
  have hperm : (d0 :: l2 ++ l1).Perm (l1 ++ d0 :: l2) := List.perm_append_comm
  have hmem' : ∀ x ∈ d0 :: (l2 ++ l1), x.seg ∈ segs := fun x hx => hg'.mem x (hperm.mem_iff.mp hx)
  have hnd' : ((d0 :: (l2 ++ l1)).map DSeg.seg).Nodup := (List.Perm.map _ hperm).nodup_iff.mpr hg'.nodup
  have hl : t.length = (l2 ++ l1).length := by
    simp only [List.length_cons, List.length_append] at hlen ⊢; omega
  have := chain_det segs hw h2 t (l2 ++ l1) d0 a a m m ha hm hg.mem hmem' hg.nodup hnd' hl
  exact ⟨d0 :: l2, l1, by rw [this]; simp, rfl⟩

/-- A RING IS DETERMINED BY ITS SEGMENT SET up to rotation and reversal. -/
theorem geo_unique (segs : List Seg) (hw : WfSegs segs)
    (h2 : ∀ v, (endpoints segs).count v = 0 ∨ (endpoints segs).count v = 2)
    (g g' : Ring) (hg : GeoRing segs g) (hg' : GeoRing segs g')
    (hset : ∀ s, s ∈ g.map DSeg.seg ↔ s ∈ g'.map DSeg.seg) :
    Rot g g' ∨ Rot (Ring.reverse g) g' := by
  have hlen : g.length = g'.length := by
    have := ((List.perm_ext_iff_of_nodup hg.nodup hg'.nodup).mpr hset).length_eq
    simpa using this
  match g, hg, hset, hlen with
  | d0 :: t, hg, hset, hlen =>
    have : d0.seg ∈ g'.map DSeg.seg := (hset d0.seg).mp (by simp)
    obtain ⟨e, he, hes⟩ := List.mem_map.mp this
    by_cases hr : e.rev = d0.rev
    · left
      have : e = d0 := by cases e; cases d0; simp_all
      exact geo_unique_same_dir segs hw h2 d0 t g' hg hg' hlen (this ▸ he)
    · right
      have hflip : e.flip = d0 := by
        cases e; cases d0; simp only [DSeg.flip, DSeg.mk.injEq] at *
        refine ⟨hes, ?_⟩
        rename_i r1 _ r2
        cases r1 <;> cases r2 <;> simp_all
      have hin : d0 ∈ Ring.reverse g' := by
        simp only [Ring.reverse, List.mem_reverse, List.mem_map]
        exact ⟨e, he, hflip⟩
      have hl' : (d0 :: t).length = (Ring.reverse g').length := by
        simp only [Ring.reverse, List.length_reverse, List.length_map]; exact hlen
      obtain ⟨l1, l2, h1, h2'⟩ := geo_unique_same_dir segs hw h2 d0 t (Ring.reverse g') hg
        (geoRing_reverse segs g' hg') hl' hin
      refine ⟨Ring.reverse l2, Ring.reverse l1, ?_, ?_⟩
      · rw [h1, ring_reverse_append]
      · have := congrArg Ring.reverse h2'
        rw [ring_reverse_reverse, ring_reverse_append] at this
        exact this

/-! ## the rings of the simple case as geometric rings -/

theorem nodup_map_segAt (segs : List Seg) (hnd : segs.Nodup) (l : List Nat) (hl : l.Nodup)
    (hlt : ∀ i ∈ l, i < segs.length) : (l.map (segAt segs)).Nodup := by
  induction l with
  | nil => simp
  | cons i l ih =>
    rw [List.nodup_cons] at hl
    rw [List.map_cons, List.nodup_cons]
    refine ⟨?_, ih hl.2 (fun j hj => hlt j (List.mem_cons_of_mem _ hj))⟩
    intro hm
    obtain ⟨j, hj, hje⟩ := List.mem_map.mp hm
    have hi := hlt i List.mem_cons_self
    have hj' := hlt j (List.mem_cons_of_mem _ hj)
    rw [segAt_eq segs j hj', segAt_eq segs i hi] at hje
    have := (List.getElem_inj hnd).mp hje
    exact hl.1 (this ▸ hj)

theorem ringOf_map_seg (segs : List Seg) (r : List SLoc) : (ringOf segs r).map DSeg.seg = ringSegs segs r := by
  simp [ringOf, ringSegs, List.map_map, Function.comp_def]

theorem ringOk_geo (segs : List Seg) (hnd : segs.Nodup) (r : List SLoc) (h : RingOk segs r) :
    GeoRing segs (ringOf segs r) where
  nonempty := by
    intro e; apply h.nonempty; simpa [ringOf] using e
  closed := by
    obtain ⟨a, ha⟩ := h.closed
    exact ⟨a, isPath_dpath segs r a a ha⟩
  mem := by
    intro d hd
    simp only [ringOf, List.mem_map] at hd
    obtain ⟨x, hx, rfl⟩ := hd
    exact segAt_mem segs x.item (h.items.2 x.item (List.mem_map.mpr ⟨x, hx, rfl⟩))
  nodup := by
    rw [ringOf_map_seg]
    have : ringSegs segs r = (ringItems r).map (segAt segs) := by
      simp [ringSegs, ringItems, List.map_map, Function.comp_def]
    rw [this]
    exact nodup_map_segAt segs hnd _ h.items.1 h.items.2

theorem geoRing_of_mem_iff {segs segs' : List Seg} (hm : ∀ s, s ∈ segs ↔ s ∈ segs') {g : Ring}
    (h : GeoRing segs g) : GeoRing segs' g :=
  ⟨h.nonempty, h.closed, fun d hd => (hm _).mp (h.mem d hd), h.nodup⟩


/-- two runs over permuted segment lists produce the same rings as cyclic sequences of directed
    segments, up to rotation and reversal -/
theorem rings_cyclic_of_perm (segs segs' : List Seg) (hp : segs.Perm segs') (hw : WfSegs segs)
    (hnd : segs.Nodup) (h2 : Deg2 segs) (rings rings' : List PRing)
    (hok : ∀ r ∈ rings, RingOk segs r.segs) (hok' : ∀ r ∈ rings', RingOk segs' r.segs)
    (hpart' : (allItems rings').Perm (List.range segs'.length)) :
    ∀ r ∈ rings, ∃ r' ∈ rings', Rot (ringOf segs r.segs) (ringOf segs' r'.segs) ∨
      Rot (Ring.reverse (ringOf segs r.segs)) (ringOf segs' r'.segs) := by
  intro r hr
  have hnd' : segs'.Nodup := hp.nodup_iff.mp hnd
  have h2' : Deg2 segs' := deg2_perm hp h2
  have hrok := hok r hr
  -- a segment of r
  obtain ⟨x, hx⟩ : ∃ x, x ∈ r.segs := by
    cases hl : r.segs with
    | nil => exact absurd hl hrok.nonempty
    | cons x _ => exact ⟨x, by simp⟩
  have hxi : x.item < segs.length := hrok.items.2 x.item (List.mem_map.mpr ⟨x, hx, rfl⟩)
  have hs : segAt segs x.item ∈ ringSegs segs r.segs := List.mem_map.mpr ⟨x, hx, rfl⟩
  have hs' : segAt segs x.item ∈ segs' := hp.mem_iff.mp (segAt_mem segs _ hxi)
  obtain ⟨j, hj, hje⟩ := List.getElem_of_mem hs'
  have hmem : j ∈ allItems rings' := hpart'.mem_iff.mpr (List.mem_range.mpr hj)
  simp only [allItems, List.mem_flatMap] at hmem
  obtain ⟨r', hr', hjr⟩ := hmem
  have hs2 : segAt segs x.item ∈ ringSegs segs' r'.segs := by
    rw [← hje, ← segAt_eq segs' j hj]; exact mem_ringSegs_of_item segs' r'.segs j hjr
  refine ⟨r', hr', ?_⟩
  have hset : ∀ t, t ∈ (ringOf segs r.segs).map DSeg.seg ↔ t ∈ (ringOf segs' r'.segs).map DSeg.seg := by
    intro t
    rw [ringOf_map_seg, ringOf_map_seg, ring_is_component segs h2 r.segs hrok _ hs t,
      ring_is_component segs' h2' r'.segs (hok' r' hr') _ hs2 t]
    exact ⟨Conn.of_mem_iff (fun s => hp.mem_iff), Conn.of_mem_iff (fun s => hp.mem_iff.symm)⟩
  exact geo_unique segs hw ((deg2_iff segs).mp h2) _ _ (ringOk_geo segs hnd r.segs hrok)
    (geoRing_of_mem_iff (fun s => hp.mem_iff.symm) (ringOk_geo segs' hnd' r'.segs (hok' r' hr'))) hset

end Osmium.Area
