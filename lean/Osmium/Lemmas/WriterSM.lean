/-
Lemmas for C08, part 1: the OS oracle, reliable_write, the compressor wrappers and the
library contracts.  Core-only.
-/
import Osmium.Model.WriterSM

namespace Osmium.WriterSM

theorem accept_cases (os : OS) (k : Nat) :
    (∃ j, j ≤ k ∧ (j = 0 → k = 0) ∧ os.accept k = (.wrote j, { os with off := os.off + j }))
    ∨ (∃ e l, os.accept k = (.err e, { os with faults := os.faults + 1, limit := l })) := by
  unfold OS.accept
  rcases hl : os.limit with _ | l
  · exact .inl ⟨k, Nat.le_refl _, id, rfl⟩
  · simp only []
    by_cases h1 : os.off + k ≤ l.off
    · rw [if_pos h1]; exact .inl ⟨k, Nat.le_refl _, id, rfl⟩
    · rw [if_neg h1]
      by_cases h2 : l.shortFirst = true ∧ os.off < l.off
      · rw [if_pos h2]
        refine .inl ⟨l.off - os.off, by omega, by omega, ?_⟩
        have : os.off + (l.off - os.off) = l.off := by omega
        rw [this]
      · rw [if_neg h2]; exact .inr ⟨_, _, rfl⟩

/-- everything a caller can learn about one write(2) call -/
inductive WriteSpec (os : OS) (buf : Bytes) : WRes → OS → Prop
  | wrote (j : Nat) (os' : OS) (hj : j ≤ buf.length) (hfile : os'.file = os.file ++ buf.take j)
      (hfaults : os'.faults = os.faults) (hsched : os'.sched = os.sched.tail)
      (hpos : j = 0 → buf.length = 0 ∨ os.sched.head? = some (.ok 0)) : WriteSpec os buf (.wrote j) os'
  | eintr (os' : OS) (hfile : os'.file = os.file) (hfaults : os'.faults = os.faults)
      (hsched : os'.sched = os.sched.tail) (hne : os.sched ≠ []) : WriteSpec os buf .eintr os'
  | err (e : Nat) (os' : OS) (hfile : os'.file = os.file) (hfaults : os'.faults = os.faults + 1)
      (hsched : os'.sched = os.sched.tail) : WriteSpec os buf (.err e) os'

theorem write_spec (os : OS) (buf : Bytes) : WriteSpec os buf (os.write buf).1 (os.write buf).2 := by
  unfold OS.write OS.respond
  rcases hr : os.nextResp buf.length with k | _ | e
  · -- ok k
    simp only []
    rcases accept_cases { os with sched := os.sched.tail, wcalls := os.wcalls + 1 } (min k buf.length)
      with ⟨j, hj, hj0, hacc⟩ | ⟨e, l, hacc⟩
    · rw [hacc]
      refine .wrote j _ (by omega) (by simp) (by simp) (by simp) ?_
      intro h0
      have hm := hj0 h0
      by_cases hb : buf.length = 0
      · exact .inl hb
      · right
        have hk : k = 0 := by omega
        subst hk
        unfold OS.nextResp at hr
        rcases hs : os.sched with _ | ⟨r, rs⟩
        · rw [hs] at hr; simp at hr; simp [hr] at hb
        · rw [hs] at hr; simp at hr; simp [hr]
    · rw [hacc]; exact .err e _ (by simp) (by simp) (by simp)
  · -- eintr
    simp only []
    refine .eintr _ (by simp) (by simp) (by simp) ?_
    intro hs; unfold OS.nextResp at hr; rw [hs] at hr; simp at hr
  · simp only []
    exact .err e _ (by simp) (by simp) (by simp)



theorem write_spec' {os os' : OS} {buf : Bytes} {r : WRes} (h : os.write buf = (r, os')) :
    WriteSpec os buf r os' := by
  have := write_spec os buf; rw [h] at this; exact this

/-- `reliable_write` safety: whatever the kernel answers, the bytes that reached the fd are a
    prefix of the buffer, appended in order; `done` ⇒ the whole buffer and no error response;
    `error` ⇒ exactly one error response was delivered (and thrown). -/
theorem rwLoop_spec (maxw : Nat) : ∀ (fuel : Nat) (os : OS) (rest : Bytes) (r : RW) (os' : OS),
    rwLoop maxw fuel os rest = (r, os') →
    ∃ pre, pre <+: rest ∧ os'.file = os.file ++ pre ∧
      (r = .done → pre = rest ∧ os'.faults = os.faults) ∧
      (∀ e, r = .error e → os'.faults = os.faults + 1) ∧
      (r = .outOfFuel → os'.faults = os.faults) := by
  intro fuel
  induction fuel with
  | zero =>
    intro os rest r os' h
    simp [rwLoop] at h
    obtain ⟨rfl, rfl⟩ := h
    exact ⟨[], List.nil_prefix, by simp, by simp, by simp, by simp⟩
  | succ f ih =>
    intro os rest r os' h
    unfold rwLoop at h
    rcases hw : os.write (rest.take maxw) with ⟨wr, os1⟩
    have hs := write_spec' hw
    rw [hw] at h
    cases hs with
    | wrote j _ hj hfile hfaults hsched hpos =>
      simp only [] at h
      have htk : (rest.take maxw).take j = rest.take j := by
        rw [List.take_take]; congr 1
        simp at hj; omega
      rw [htk] at hfile
      split at h
      · rename_i hemp
        simp at h; obtain ⟨rfl, rfl⟩ := h
        refine ⟨rest, List.prefix_refl _, ?_, by simp [hfaults], by simp, by simp⟩
        have : rest.take j = rest := by
          apply List.take_of_length_le
          simp at hemp; exact hemp
        rw [hfile, this]
      · obtain ⟨pre, hpre, hf, hd, he, ho⟩ := ih os1 (rest.drop j) r os' h
        refine ⟨rest.take j ++ pre, ?_, ?_, ?_, ?_, ?_⟩
        · obtain ⟨t, ht⟩ := hpre
          exact ⟨t, by rw [List.append_assoc, ht, List.take_append_drop]⟩
        · rw [hf, hfile, List.append_assoc]
        · intro hr
          obtain ⟨h1, h2⟩ := hd hr
          exact ⟨by rw [h1, List.take_append_drop], by rw [h2, hfaults]⟩
        · intro e hr; rw [he e hr, hfaults]
        · intro hr; rw [ho hr, hfaults]
    | eintr _ hfile hfaults hsched hne =>
      simp only [] at h
      obtain ⟨pre, hpre, hf, hd, he, ho⟩ := ih os1 rest r os' h
      exact ⟨pre, hpre, by rw [hf, hfile], fun hr => ⟨(hd hr).1, by rw [(hd hr).2, hfaults]⟩,
        fun e hr => by rw [he e hr, hfaults], fun hr => by rw [ho hr, hfaults]⟩
    | err e _ hfile hfaults hsched =>
      simp only [] at h
      simp at h; obtain ⟨rfl, rfl⟩ := h
      exact ⟨[], List.nil_prefix, by simp [hfile], by simp, by simp [hfaults], by simp⟩

/-- `reliable_write` terminates for every schedule of short writes, EINTRs and errors —
    PROVIDED the kernel never answers a non-empty request with 0 (`Resp.wf`). -/
theorem rwLoop_terminates (maxw : Nat) (hmax : 0 < maxw) : ∀ (fuel : Nat) (os : OS) (rest : Bytes),
    (∀ r ∈ os.sched, r.wf = true) → os.sched.length + rest.length + 1 ≤ fuel →
    (rwLoop maxw fuel os rest).1 ≠ .outOfFuel := by
  intro fuel
  induction fuel with
  | zero => intro os rest _ h; omega
  | succ f ih =>
    intro os rest hwf hfuel
    unfold rwLoop
    rcases hw : os.write (rest.take maxw) with ⟨wr, os1⟩
    have hs := write_spec' hw
    have htail : ∀ r ∈ os.sched.tail, r.wf = true := fun r hr => hwf r (List.mem_of_mem_tail hr)
    cases hs with
    | wrote j _ hj hfile hfaults hsched hpos =>
      simp only []
      split
      · simp
      · rename_i hne
        apply ih
        · rw [hsched]; exact htail
        · have hrest : rest ≠ [] := by
            intro h; subst h; simp at hne
          have hj0 : j ≠ 0 := by
            intro h0
            rcases hpos h0 with h | h
            · simp at h
              rcases h with h | h
              · omega
              · exact hrest h
            · rcases hsc : os.sched with _ | ⟨r, rs⟩
              · rw [hsc] at h; simp at h
              · rw [hsc] at h; simp at h
                have := hwf r (by rw [hsc]; simp)
                rw [h] at this; simp [Resp.wf] at this
          have hl : (rest.drop j).length < rest.length := by
            rw [List.length_drop]
            have : 0 < rest.length := List.length_pos_iff.mpr hrest
            omega
          have : os1.sched.length ≤ os.sched.length := by rw [hsched]; simp
          omega
    | eintr _ hfile hfaults hsched hne =>
      simp only []
      apply ih
      · rw [hsched]; exact htail
      · have : os1.sched.length + 1 = os.sched.length := by
          rw [hsched]
          rcases hsc : os.sched with _ | ⟨r, rs⟩
          · exact absurd hsc hne
          · simp
        omega
    | err e _ hfile hfaults hsched =>
      simp



/-! ## fsync / close of the OS -/

theorem fsync_ok {os os' : OS} (h : os.fsync = (none, os')) :
    os'.file = os.file ∧ os'.faults = os.faults := by
  unfold OS.fsync at h
  split at h <;> simp at h
  subst h; simp

theorem fsync_err {os os' : OS} {e : Nat} (h : os.fsync = (some e, os')) :
    os'.file = os.file ∧ os'.faults = os.faults + 1 := by
  unfold OS.fsync at h
  split at h <;> simp at h
  obtain ⟨_, rfl⟩ := h; simp

theorem close_ok {os os' : OS} (h : os.close = (none, os')) :
    os'.file = os.file ∧ os'.faults = os.faults := by
  unfold OS.close at h
  split at h <;> simp at h
  subst h; simp

theorem close_err {os os' : OS} {e : Nat} (h : os.close = (some e, os')) :
    os'.file = os.file ∧ os'.faults = os.faults + 1 := by
  unfold OS.close at h
  split at h <;> simp at h
  obtain ⟨_, rfl⟩ := h; simp

/-! ## Contract of a compressor (what the Writer-level theorems need) -/

/-- `Inv k os ds`: the compressor is open, NO error response has been delivered so far, and
    `ds` are the blocks accepted.  `Latched k`: a fault has been swallowed by a lower layer
    and will surface at the latest in `close`. -/
structure CompSpec {κ : Type} (C : Comp κ) (enc : List Bytes → Bytes) where
  Inv : κ → OS → List Bytes → Prop
  Latched : κ → Prop
  Closed : κ → Prop
  inv_faults : ∀ {k os ds}, Inv k os ds → os.faults = 0
  write_ok : ∀ {k os ds d k' os'}, Inv k os ds → d ≠ [] → C.write k d os = (none, k', os') →
    Inv k' os' (ds ++ [d]) ∨ Latched k'
  write_latched : ∀ {k os d k' os'}, Latched k → d ≠ [] → C.write k d os = (none, k', os') → Latched k'
  close_latched : ∀ {k os r k' os'}, Latched k → C.close k os = (r, k', os') → r ≠ none
  close_ok : ∀ {k os ds k' os'}, Inv k os ds → C.close k os = (none, k', os') →
    os'.faults = 0 ∧ os'.file = enc ds ∧ C.fileSize k' = os'.file.length ∧ Closed k'
  closed_noop : ∀ {k os}, Closed k → C.close k os = (none, k, os)

/-! ### NoCompressor -/

def noSpec : CompSpec noComp List.flatten where
  Inv k os ds := k.fdOpen = true ∧ os.faults = 0 ∧ os.file = ds.flatten ∧ k.size = os.file.length
  Latched _ := False
  Closed k := k.fdOpen = false
  inv_faults h := h.2.1
  write_ok := by
    intro k os ds d k' os' ⟨ho, hf, hfile, hsz⟩ _ h
    simp only [noComp, noWrite] at h
    rcases hrw : reliableWrite os d with ⟨r, os1⟩
    rw [hrw] at h
    cases r with
    | done =>
      simp at h; obtain ⟨rfl, rfl⟩ := h
      obtain ⟨pre, _, hfile', hd, _, _⟩ := rwLoop_spec _ _ _ _ _ _ hrw
      obtain ⟨rfl, hfa⟩ := hd rfl
      left
      refine ⟨ho, by rw [hfa, hf], by rw [hfile', hfile]; simp, ?_⟩
      simp [hsz, hfile']
    | error e => simp at h
    | outOfFuel => simp at h
  write_latched h := h.elim
  close_latched h := h.elim
  close_ok := by
    intro k os ds k' os' ⟨ho, hf, hfile, hsz⟩ h
    simp only [noComp, noClose, ho, if_true] at h
    split at h
    · rcases h1 : os.fsync with ⟨r1, os1⟩
      rw [h1] at h
      cases r1 with
      | some e => simp at h
      | none =>
        simp only [] at h
        rcases h2 : os1.close with ⟨r2, os2⟩
        rw [h2] at h
        cases r2 with
        | some e => simp at h
        | none =>
          simp at h; obtain ⟨rfl, rfl⟩ := h
          obtain ⟨a1, a2⟩ := fsync_ok h1
          obtain ⟨b1, b2⟩ := close_ok h2
          simp [noComp]
          refine ⟨by omega, by rw [b1, a1, hfile], by rw [hsz, b1, a1]⟩
    · rcases h2 : os.close with ⟨r2, os2⟩
      rw [h2] at h
      cases r2 with
      | some e => simp at h
      | none =>
        simp at h; obtain ⟨rfl, rfl⟩ := h
        obtain ⟨b1, b2⟩ := close_ok h2
        simp [noComp]
        refine ⟨by omega, by rw [b1, hfile], by rw [hsz, b1]⟩
  closed_noop := by
    intro k os h
    simp [noComp, noClose, h]

/-- NoCompressor reports every OS fault at once: a `write`/`close` during which the OS
    delivered an error response throws. -/
theorem noWrite_fault_throws {k k' : NoState} {d : Bytes} {os os' : OS}
    (h : noWrite k d os = (none, k', os')) : os'.faults = os.faults ∧ os'.file = os.file ++ d := by
  simp only [noWrite] at h
  rcases hrw : reliableWrite os d with ⟨r, os1⟩
  rw [hrw] at h
  cases r with
  | done =>
    simp at h; obtain ⟨rfl, rfl⟩ := h
    obtain ⟨pre, _, hfile', hd, _, _⟩ := rwLoop_spec _ _ _ _ _ _ hrw
    obtain ⟨rfl, hfa⟩ := hd rfl
    exact ⟨hfa, hfile'⟩
  | error e => simp at h
  | outOfFuel => simp at h

/-! ### Library contracts and the wrappers over them -/

/-- Contract of the zlib gz layer as used by GzipCompressor.
    * a non-zero return of `gzwrite` means the WHOLE block was consumed;
    * an error response of the OS during any call either makes that call fail or latches,
      and a latched handle makes `gzclose_w` return an error ("an error from the underlying
      write surfaces no later than gzclose");
    * `gzclose_w` = Z_OK on a clean handle means the fd holds exactly `enc` of the blocks. -/
structure GzSpec {γ : Type} (L : GzLib γ) (enc : List Bytes → Bytes) where
  Inv : γ → OS → List Bytes → Prop
  Latched : γ → Prop
  inv_faults : ∀ {g os ds}, Inv g os ds → os.faults = 0
  gzwrite_ok : ∀ {g os ds d n g' os'}, Inv g os ds → d ≠ [] → L.gzwrite g d os = (n + 1, g', os') →
    Inv g' os' (ds ++ [d]) ∨ Latched g'
  gzwrite_latched : ∀ {g os d n g' os'}, Latched g → L.gzwrite g d os = (n + 1, g', os') → Latched g'
  gzclose_latched : ∀ {g os}, Latched g → (L.gzclose g os).1 ≠ 0
  gzclose_ok : ∀ {g os ds os'}, Inv g os ds → L.gzclose g os = (0, os') →
    os'.faults = 0 ∧ os'.file = enc ds

def gzipSpec {γ : Type} {L : GzLib γ} {enc : List Bytes → Bytes} (S : GzSpec L enc) :
    CompSpec (gzipComp L) enc where
  Inv k os ds := ∃ g, k.gz = some g ∧ S.Inv g os ds
  Latched k := ∃ g, k.gz = some g ∧ S.Latched g
  Closed k := k.gz = none
  inv_faults := fun ⟨_, _, h⟩ => S.inv_faults h
  write_ok := by
    intro k os ds d k' os' ⟨g, hg, hi⟩ hd h
    simp only [gzipComp, gzipWrite, hg] at h
    have hne : d.isEmpty = false := by cases d <;> simp_all
    simp only [hne] at h
    rcases hw : L.gzwrite g d os with ⟨n, g1, os1⟩
    rw [hw] at h
    cases n with
    | zero => simp at h
    | succ n =>
      simp at h; obtain ⟨rfl, rfl⟩ := h
      rcases S.gzwrite_ok hi hd hw with h1 | h1
      · exact .inl ⟨g1, rfl, h1⟩
      · exact .inr ⟨g1, rfl, h1⟩
  write_latched := by
    intro k os d k' os' ⟨g, hg, hl⟩ hd h
    simp only [gzipComp, gzipWrite, hg] at h
    have hne : d.isEmpty = false := by cases d <;> simp_all
    simp only [hne] at h
    rcases hw : L.gzwrite g d os with ⟨n, g1, os1⟩
    rw [hw] at h
    cases n with
    | zero => simp at h
    | succ n =>
      simp at h; obtain ⟨rfl, rfl⟩ := h
      exact ⟨g1, rfl, S.gzwrite_latched hl hw⟩
  close_latched := by
    intro k os r k' os' ⟨g, hg, hl⟩ h
    have := S.gzclose_latched (os := os) hl
    rcases hc : L.gzclose g os with ⟨res, os1⟩
    simp only [gzipComp] at h
    unfold gzipClose at h
    rw [hc] at this
    simp only [hg, hc] at h
    simp only [] at this
    simp only [ne_eq, this, not_false_eq_true, if_true] at h
    simp at h; obtain ⟨rfl, _⟩ := h; simp
  close_ok := by
    intro k os ds k' os' ⟨g, hg, hi⟩ h
    rcases hc : L.gzclose g os with ⟨res, os1⟩
    simp only [gzipComp] at h
    unfold gzipClose at h
    simp only [hg, hc] at h
    by_cases hres : res = 0
    · subst hres
      obtain ⟨hf, hfile⟩ := S.gzclose_ok hi hc
      simp only [ne_eq, not_true_eq_false, if_false] at h
      split at h
      · rcases h1 : os1.fsync with ⟨r1, os2⟩
        rw [h1] at h
        cases r1 with
        | some e => simp at h
        | none =>
          simp only [] at h
          rcases h2 : os2.close with ⟨r2, os3⟩
          rw [h2] at h
          cases r2 with
          | some e => simp at h
          | none =>
            simp at h; obtain ⟨rfl, rfl⟩ := h
            obtain ⟨a1, a2⟩ := fsync_ok h1
            obtain ⟨b1, b2⟩ := close_ok h2
            simp [gzipComp]
            refine ⟨by omega, by rw [b1, a1, hfile], by rw [b1, a1]⟩
      · rcases h2 : os1.close with ⟨r2, os3⟩
        rw [h2] at h
        cases r2 with
        | some e => simp at h
        | none =>
          simp at h; obtain ⟨rfl, rfl⟩ := h
          obtain ⟨b1, b2⟩ := close_ok h2
          simp [gzipComp]
          refine ⟨by omega, by rw [b1, hfile], by rw [b1]⟩
    · simp only [ne_eq, hres, not_false_eq_true, if_true] at h
      simp at h
  closed_noop := by
    intro k os h
    simp only [gzipComp, gzipClose, h]

/-- Contract of libbz2's BZ2_bzWrite / BZ2_bzWriteClose64 on a stdio FILE plus fclose, as used
    by Bzip2Compressor.  `bzclose_ok` speaks about the sequence the wrapper performs:
    BZ2_bzWriteClose64 (which fflush()es), optionally a successful fsync, then fclose. -/
structure BzSpec {β : Type} (L : BzLib β) (enc : List Bytes → Bytes) where
  Inv : β → OS → List Bytes → Prop
  Latched : β → Prop
  inv_faults : ∀ {b os ds}, Inv b os ds → os.faults = 0
  bzwrite_ok : ∀ {b os ds d code b' os'}, Inv b os ds → d ≠ [] → L.bzWrite b d os = (code, b', os') →
    (code = 0 ∨ code = 4) → Inv b' os' (ds ++ [d]) ∨ Latched b'
  bzwrite_latched : ∀ {b os d code b' os'}, Latched b → L.bzWrite b d os = (code, b', os') →
    (code = 0 ∨ code = 4) → Latched b'
  bzclose_latched : ∀ {b os}, Latched b → (L.bzWriteClose b os).1 ≠ 0
  bzclose_ok : ∀ {b os ds n b' os1 os2 os3}, Inv b os ds → L.bzWriteClose b os = (0, n, b', os1) →
    (os2 = os1 ∨ os1.fsync = (none, os2)) → L.fclose b' os2 = (none, os3) →
    os3.faults = 0 ∧ os3.file = enc ds ∧ n = os3.file.length

def bzip2Spec {β : Type} {L : BzLib β} {enc : List Bytes → Bytes} (S : BzSpec L enc) :
    CompSpec (bzip2Comp L) enc where
  Inv k os ds := ∃ b, k.bz = some b ∧ S.Inv b os ds
  Latched k := ∃ b, k.bz = some b ∧ S.Latched b
  Closed k := k.bz = none
  inv_faults := fun ⟨_, _, h⟩ => S.inv_faults h
  write_ok := by
    intro k os ds d k' os' ⟨b, hb, hi⟩ hd h
    rcases hw : L.bzWrite b d os with ⟨code, b1, os1⟩
    simp only [bzip2Comp] at h
    unfold bzip2Write at h
    simp only [hb, hw] at h
    split at h
    · simp at h
    · rename_i hc
      simp at h; obtain ⟨rfl, rfl⟩ := h
      have hc' : code = 0 ∨ code = 4 := by
        by_cases h0 : code = 0
        · exact .inl h0
        · by_cases h4 : code = 4
          · exact .inr h4
          · exact absurd ⟨h0, h4⟩ hc
      rcases S.bzwrite_ok hi hd hw hc' with h1 | h1
      · exact .inl ⟨b1, rfl, h1⟩
      · exact .inr ⟨b1, rfl, h1⟩
  write_latched := by
    intro k os d k' os' ⟨b, hb, hl⟩ hd h
    rcases hw : L.bzWrite b d os with ⟨code, b1, os1⟩
    simp only [bzip2Comp] at h
    unfold bzip2Write at h
    simp only [hb, hw] at h
    split at h
    · simp at h
    · rename_i hc
      simp at h; obtain ⟨rfl, rfl⟩ := h
      have hc' : code = 0 ∨ code = 4 := by
        by_cases h0 : code = 0
        · exact .inl h0
        · by_cases h4 : code = 4
          · exact .inr h4
          · exact absurd ⟨h0, h4⟩ hc
      exact ⟨b1, rfl, S.bzwrite_latched hl hw hc'⟩
  close_latched := by
    intro k os r k' os' ⟨b, hb, hl⟩ h
    have hne := S.bzclose_latched (os := os) hl
    rcases hc : L.bzWriteClose b os with ⟨code, n, b1, os1⟩
    rw [hc] at hne
    simp only [] at hne
    simp only [bzip2Comp] at h
    unfold bzip2Close at h
    simp only [hb, hc] at h
    intro hr
    subst hr
    split at h
    · rcases hf : os1.fsync with ⟨r1, os2⟩
      rw [hf] at h
      cases r1 with
      | some e => simp at h
      | none =>
        simp only [] at h
        rcases hcl : L.fclose b1 os2 with ⟨r2, os3⟩
        rw [hcl] at h
        cases r2 with
        | some e => simp at h
        | none => simp at h
    · rcases hcl : L.fclose b1 os1 with ⟨r2, os3⟩
      rw [hcl] at h
      cases r2 with
      | some e => simp at h
      | none => simp at h
  close_ok := by
    intro k os ds k' os' ⟨b, hb, hi⟩ h
    rcases hc : L.bzWriteClose b os with ⟨code, n, b1, os1⟩
    simp only [bzip2Comp] at h
    unfold bzip2Close at h
    simp only [hb, hc] at h
    split at h
    · rcases hf : os1.fsync with ⟨r1, os2⟩
      rw [hf] at h
      cases r1 with
      | some e => simp at h
      | none =>
        simp only [] at h
        rcases hcl : L.fclose b1 os2 with ⟨r2, os3⟩
        rw [hcl] at h
        cases r2 with
        | some e => simp at h
        | none =>
          simp only [] at h
          by_cases hcode : code = 0
          · subst hcode
            simp at h; obtain ⟨rfl, rfl⟩ := h
            obtain ⟨a, b', c⟩ := S.bzclose_ok hi hc (.inr hf) hcl
            exact ⟨a, b', by simp [bzip2Comp, c], rfl⟩
          · simp [hcode] at h
    · rcases hcl : L.fclose b1 os1 with ⟨r2, os3⟩
      rw [hcl] at h
      cases r2 with
      | some e => simp at h
      | none =>
        simp only [] at h
        by_cases hcode : code = 0
        · subst hcode
          simp at h; obtain ⟨rfl, rfl⟩ := h
          obtain ⟨a, b', c⟩ := S.bzclose_ok hi hc (.inl rfl) hcl
          exact ⟨a, b', by simp [bzip2Comp, c], rfl⟩
        · simp [hcode] at h
  closed_noop := by
    intro k os h
    simp only [bzip2Comp, bzip2Close, h]

/-! ### The reference libraries satisfy the contracts (the contracts are not vacuous) -/

theorem rawWrite_spec : ∀ (fuel : Nat) (os : OS) (rest : Bytes) (b : Bool) (os' : OS),
    rawWrite fuel os rest = (b, os') →
    ∃ pre, pre <+: rest ∧ os'.file = os.file ++ pre ∧ (b = true → pre = rest ∧ os'.faults = os.faults) := by
  intro fuel
  induction fuel with
  | zero =>
    intro os rest b os' h
    simp [rawWrite] at h; obtain ⟨rfl, rfl⟩ := h
    exact ⟨[], List.nil_prefix, by simp, by simp⟩
  | succ f ih =>
    intro os rest b os' h
    unfold rawWrite at h
    split at h
    · rename_i hemp
      simp at h; obtain ⟨rfl, rfl⟩ := h
      simp at hemp; subst hemp
      exact ⟨[], List.nil_prefix, by simp, by simp⟩
    · rcases hw : os.write rest with ⟨wr, os1⟩
      have hs := write_spec' hw
      rw [hw] at h
      cases hs with
      | wrote j _ hj hfile hfaults hsched hpos =>
        simp only [] at h
        obtain ⟨pre, hpre, hf, hd⟩ := ih os1 (rest.drop j) b os' h
        refine ⟨rest.take j ++ pre, ?_, by rw [hf, hfile, List.append_assoc], ?_⟩
        · obtain ⟨t, ht⟩ := hpre
          exact ⟨t, by rw [List.append_assoc, ht, List.take_append_drop]⟩
        · intro hb
          obtain ⟨h1, h2⟩ := hd hb
          exact ⟨by rw [h1, List.take_append_drop], by rw [h2, hfaults]⟩
      | eintr _ hfile hfaults hsched hne =>
        simp at h; obtain ⟨rfl, rfl⟩ := h
        exact ⟨[], List.nil_prefix, by simp [hfile], by simp⟩
      | err e _ hfile hfaults hsched =>
        simp at h; obtain ⟨rfl, rfl⟩ := h
        exact ⟨[], List.nil_prefix, by simp [hfile], by simp⟩

theorem refEmit_spec {s s' : RefLibState} {bytes : Bytes} {os os' : OS}
    (h : refEmit s bytes os = (s', os')) :
    (s.failed = true → s'.failed = true) ∧
    (s'.failed = false → os'.file = os.file ++ bytes ∧ os'.faults = os.faults ∧
      s'.out = s.out + bytes.length) := by
  unfold refEmit at h
  split at h
  · rename_i hf
    simp at h; obtain ⟨rfl, rfl⟩ := h
    exact ⟨fun _ => hf, fun h => by rw [hf] at h; cases h⟩
  · rcases hr : rawWrite (os.sched.length + bytes.length + 1) os bytes with ⟨b, os1⟩
    rw [hr] at h
    cases b with
    | true =>
      simp at h; obtain ⟨rfl, rfl⟩ := h
      obtain ⟨pre, _, hfile, hd⟩ := rawWrite_spec _ _ _ _ _ hr
      obtain ⟨rfl, hfa⟩ := hd rfl
      refine ⟨fun h => by simp_all, fun _ => ⟨hfile, hfa, by simp⟩⟩
    | false =>
      simp at h; obtain ⟨rfl, rfl⟩ := h
      exact ⟨fun _ => rfl, fun h => by simp at h⟩

/-- frames of all blocks (without the trailer) -/
def refBody (ds : List Bytes) : Bytes := (ds.map fun d => frames (d.length + 1) d).flatten

theorem refEnc_eq (ds : List Bytes) : refEnc ds = refBody ds ++ [0] := rfl

theorem refBody_snoc (ds : List Bytes) (d : Bytes) :
    refBody (ds ++ [d]) = refBody ds ++ frames (d.length + 1) d := by
  simp [refBody]

def refInv (s : RefLibState) (os : OS) (ds : List Bytes) : Prop :=
  s.failed = false ∧ os.faults = 0 ∧ os.file = refBody ds ∧ s.out = os.file.length

def refGzSpec : GzSpec refGz refEnc where
  Inv := refInv
  Latched s := s.failed = true
  inv_faults h := h.2.1
  gzwrite_ok := by
    intro g os ds d n g' os' ⟨hf, hfa, hfile, hout⟩ _ h
    simp only [refGz] at h
    rcases he : refEmit g (frames (d.length + 1) d) os with ⟨s1, os1⟩
    rw [he] at h
    simp only [] at h
    obtain ⟨_, hok⟩ := refEmit_spec he
    by_cases hs1 : s1.failed = true
    · simp [hs1] at h
    · simp only [Bool.not_eq_true] at hs1
      simp [hs1] at h
      obtain ⟨_, rfl, rfl⟩ := h
      obtain ⟨a, b, c⟩ := hok hs1
      left
      exact ⟨hs1, by rw [b, hfa], by rw [a, hfile, refBody_snoc], by rw [c, hout, a]; simp⟩
  gzwrite_latched := by
    intro g os d n g' os' hl h
    simp only [refGz] at h
    rcases he : refEmit g (frames (d.length + 1) d) os with ⟨s1, os1⟩
    rw [he] at h
    simp only [] at h
    have := (refEmit_spec he).1 hl
    simp [this] at h
  gzclose_latched := by
    intro g os hl
    simp only [refGz]
    rcases he : refEmit g [0] os with ⟨s1, os1⟩
    simp only []
    have := (refEmit_spec he).1 hl
    rcases hc : os1.close with ⟨r, os2⟩
    cases r <;> simp [this]
  gzclose_ok := by
    intro g os ds os' ⟨hf, hfa, hfile, hout⟩ h
    simp only [refGz] at h
    rcases he : refEmit g [0] os with ⟨s1, os1⟩
    rw [he] at h
    simp only [] at h
    rcases hc : os1.close with ⟨r, os2⟩
    rw [hc] at h
    cases r with
    | some e => simp at h
    | none =>
      simp only [] at h
      by_cases hs1 : s1.failed = true
      · simp [hs1] at h
      · simp only [Bool.not_eq_true] at hs1
        simp [hs1] at h
        subst h
        obtain ⟨a, b, _⟩ := (refEmit_spec he).2 hs1
        obtain ⟨c1, c2⟩ := close_ok hc
        exact ⟨by rw [c2, b, hfa], by rw [c1, a, hfile, refEnc_eq]⟩

def refBzSpec : BzSpec refBz refEnc where
  Inv := refInv
  Latched s := s.failed = true
  inv_faults h := h.2.1
  bzwrite_ok := by
    intro g os ds d code g' os' ⟨hf, hfa, hfile, hout⟩ _ h hcode
    simp only [refBz] at h
    rcases he : refEmit g (frames (d.length + 1) d) os with ⟨s1, os1⟩
    rw [he] at h
    simp only [] at h
    obtain ⟨_, hok⟩ := refEmit_spec he
    by_cases hs1 : s1.failed = true
    · simp [hs1] at h
      obtain ⟨rfl, _⟩ := h
      rcases hcode with h | h <;> simp at h
    · simp only [Bool.not_eq_true] at hs1
      simp [hs1] at h
      obtain ⟨_, rfl, rfl⟩ := h
      obtain ⟨a, b, c⟩ := hok hs1
      left
      exact ⟨hs1, by rw [b, hfa], by rw [a, hfile, refBody_snoc], by rw [c, hout, a]; simp⟩
  bzwrite_latched := by
    intro g os d code g' os' hl h hcode
    simp only [refBz] at h
    rcases he : refEmit g (frames (d.length + 1) d) os with ⟨s1, os1⟩
    rw [he] at h
    simp only [] at h
    have := (refEmit_spec he).1 hl
    simp [this] at h
    obtain ⟨_, rfl, _⟩ := h
    exact this
  bzclose_latched := by
    intro g os hl
    simp only [refBz]
    rcases he : refEmit g [0] os with ⟨s1, os1⟩
    simp only []
    have := (refEmit_spec he).1 hl
    simp [this]
  bzclose_ok := by
    intro g os ds n b' os1 os2 os3 ⟨hf, hfa, hfile, hout⟩ h hos2 hcl
    simp only [refBz] at h hcl
    rcases he : refEmit g [0] os with ⟨s1, os1'⟩
    rw [he] at h
    simp only [] at h
    by_cases hs1 : s1.failed = true
    · simp [hs1] at h
    · simp only [Bool.not_eq_true] at hs1
      simp [hs1] at h
      obtain ⟨rfl, rfl, rfl⟩ := h
      obtain ⟨a, b, c⟩ := (refEmit_spec he).2 hs1
      have h2 : os2.file = os1'.file ∧ os2.faults = os1'.faults := by
        rcases hos2 with rfl | hfs
        · exact ⟨rfl, rfl⟩
        · exact fsync_ok hfs
      rcases hc : os2.close with ⟨r, os4⟩
      rw [hc] at hcl
      cases r with
      | some e => simp at hcl
      | none =>
        simp at hcl; subst hcl
        obtain ⟨c1, c2⟩ := close_ok hc
        refine ⟨by rw [c2, h2.2, b, hfa], by rw [c1, h2.1, a, hfile, refEnc_eq], ?_⟩
        rw [c, hout, c1, h2.1, a]; simp

/-! ## The size-level loop of the driver -/

/-- forget the file content (the kernel's decisions never look at it) -/
def OS.forget (os : OS) : OS := { os with file := [] }

theorem accept_forget (os : OS) (k : Nat) :
    (os.forget.accept k).1 = (os.accept k).1 ∧ (os.forget.accept k).2 = (os.accept k).2.forget := by
  unfold OS.accept OS.forget
  simp only []
  split
  · exact ⟨rfl, rfl⟩
  · split
    · exact ⟨rfl, rfl⟩
    · split
      · exact ⟨rfl, rfl⟩
      · exact ⟨rfl, rfl⟩

theorem respond_forget (os : OS) (n : Nat) :
    (os.forget.respond n).1 = (os.respond n).1 ∧ (os.forget.respond n).2 = (os.respond n).2.forget := by
  unfold OS.respond
  have hn : os.forget.nextResp n = os.nextResp n := rfl
  rw [hn]
  cases os.nextResp n with
  | eintr => exact ⟨rfl, rfl⟩
  | err e => exact ⟨rfl, rfl⟩
  | ok k => exact accept_forget { os with sched := os.sched.tail, wcalls := os.wcalls + 1 } (min k n)

theorem write_forget (os : OS) (buf : Bytes) :
    (os.write buf).1 = (os.respond buf.length).1 ∧ (os.write buf).2.forget = (os.respond buf.length).2.forget := by
  unfold OS.write
  rcases h : os.respond buf.length with ⟨r, os'⟩
  cases r <;> simp [OS.forget]

/-- The size-level loop run by the driver makes the same calls (same requests, same answers)
    and reaches the same outcome and OS state (up to the file content) as `rwLoop`. -/
theorem rwLoopN_rwLoop (maxw : Nat) : ∀ (fuel : Nat) (os : OS) (rest : Bytes) (log : List (Nat × WRes)),
    (rwLoopN maxw fuel os.forget rest.length log).1 = (rwLoop maxw fuel os rest).1 ∧
    (rwLoopN maxw fuel os.forget rest.length log).2.1 = (rwLoop maxw fuel os rest).2.forget := by
  intro fuel
  induction fuel with
  | zero => intro os rest log; exact ⟨rfl, rfl⟩
  | succ f ih =>
    intro os rest log
    unfold rwLoopN rwLoop
    have hlen : (rest.take maxw).length = min maxw rest.length := by simp
    obtain ⟨w1, w2⟩ := write_forget os (rest.take maxw)
    obtain ⟨r1, r2⟩ := respond_forget os (min maxw rest.length)
    rw [hlen] at w1 w2
    simp only []
    rcases hresp : os.forget.respond (min maxw rest.length) with ⟨rr, os1⟩
    rcases hw : os.write (rest.take maxw) with ⟨wr, os2⟩
    rw [hresp] at r1 r2
    rw [hw] at w1 w2
    simp only [] at r1 r2 w1 w2
    have hr : rr = wr := by rw [r1, ← w1]
    have hos : os1 = os2.forget := by rw [r2, ← w2]
    subst hr
    cases rr with
    | wrote k =>
      simp only []
      have hemp : ((rest.drop k).isEmpty = true) ↔ (rest.length - k = 0) := by
        simp [List.drop_eq_nil_iff]; omega
      by_cases hk : rest.length - k = 0
      · rw [if_pos hk, if_pos (hemp.mpr hk)]
        exact ⟨rfl, hos⟩
      · rw [if_neg hk, if_neg (fun h => hk (hemp.mp h))]
        have := ih os2 (rest.drop k) (log ++ [(min maxw rest.length, .wrote k)])
        rw [List.length_drop, ← hos] at this
        exact this
    | eintr =>
      simp only []
      have := ih os2 rest (log ++ [(min maxw rest.length, .eintr)])
      rw [← hos] at this
      exact this
    | err e =>
      simp only []
      exact ⟨trivial, hos⟩

end Osmium.WriterSM
