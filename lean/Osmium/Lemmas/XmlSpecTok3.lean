/-
Lexical half of `xml_decode_spec` (C02), part 3: the values the renderer writes are XML strings, the
names it uses are read back, and the object level: `XmlSpec.objectEl` ↦ `XmlSpec.objectEvs` for
nodes, ways, relations and changesets with discussions.
-/
import Osmium.Lemmas.XmlSpecTok2

namespace Osmium.XmlFmt.XmlSpec
open Osmium.Osm Osmium.TextFmt Osmium.Conv Osmium.Utf8 Osmium.XmlFmt
open Osmium.OplFmt.OplSpec (pick pickGo)

/-- closed `GoodName "lit"` goals -/
macro "gn" : tactic => `(tactic| exact ⟨by decide +kernel, by decide +kernel, by decide +kernel⟩)

/-! ### values -/

theorem num_xchars (v : Int) : XChars (num v) := by
  apply XChars_of_plain
  unfold num
  by_cases h : int64Min < v ∧ v ≤ int64Max
  · obtain ⟨out, ho, _, hnum⟩ := OplFmt.outputInt_shape v h.1 h.2
    rw [ho]; exact allPlain_of_num hnum
  · have : outputInt v = none := by
      unfold outputInt
      rw [if_pos]
      simp only [Bool.or_eq_true, decide_eq_true_eq]
      by_cases h1 : v ≤ int64Min
      · exact Or.inl h1
      · right
        by_contra h2
        exact h ⟨by omega, by omega⟩
    rw [this]
    intro b hb; cases hb

theorem toIsoAll_xchars (t : Nat) : XChars (toIsoAll t) := XChars_of_plain (toIsoAll_plain t)

theorem toIso_xchars (t : Nat) : XChars (toIso t) := by
  unfold toIso
  split
  · exact toIsoAll_xchars t
  · exact XChars_of_plain (by intro b hb; cases hb)

theorem coord_xchars (v : Int) (h1 : int32Min ≤ v) (h2 : v ≤ int32Max) : XChars (formatCoord v) :=
  XChars_of_plain (formatCoord_plain v h1 h2)

theorem GoodAttrs.cons' {n : String} {v : Bytes} {l : List (String × Bytes)} (h1 : GoodName n) (h2 : XChars v)
    (hl : GoodAttrs l) : GoodAttrs ((n, v) :: l) :=
  GoodAttrs.cons h1 h2 hl

theorem GoodAttrs.one {n : String} {v : Bytes} (h1 : GoodName n) (h2 : XChars v) : GoodAttrs [(n, v)] :=
  GoodAttrs.cons h1 h2 GoodAttrs.nil

theorem goodAttrs_latLon (lat lon : String) (l : Location) (h1 : GoodName lat) (h2 : GoodName lon) (hl : XLocOK l) :
    GoodAttrs (latLon lat lon l) :=
  GoodAttrs.cons' h1 (coord_xchars _ hl.2.2.1 hl.2.2.2) (GoodAttrs.one h2 (coord_xchars _ hl.1 hl.2.1))

theorem goodAttrs_meta (ch : Choices) (m : Meta) (h : XMetaOK m) : GoodAttrs (metaAttrs ch m) := by
  unfold metaAttrs
  refine GoodAttrs.append (GoodAttrs.append (GoodAttrs.append (GoodAttrs.append (GoodAttrs.append (GoodAttrs.append ?_ ?_) ?_) ?_) ?_) ?_) ?_
  · exact GoodAttrs.one (by gn) (num_xchars _)
  · split
    · exact GoodAttrs.nil
    · exact GoodAttrs.one (by gn) (num_xchars _)
  · split
    · exact GoodAttrs.nil
    · exact GoodAttrs.one (by gn) (toIsoAll_xchars _)
  · split
    · exact GoodAttrs.nil
    · exact GoodAttrs.one (by gn) (num_xchars _)
  · split
    · exact GoodAttrs.nil
    · exact GoodAttrs.one (by gn) (XChars_of_xstrOK h.user)
  · split
    · exact GoodAttrs.nil
    · exact GoodAttrs.one (by gn) (num_xchars _)
  · split
    · refine GoodAttrs.one (by gn) ?_
      split
      · exact XChars_of_plain bTrue_plain
      · exact XChars_of_plain bFalse_plain
    · exact GoodAttrs.nil

/-! ### lists of children -/

theorem forall₂_map {α : Type} (l : List α) (f : α → Bytes) (g : α → List Ev) (h : ∀ x ∈ l, ElSteps (f x) (g x)) :
    List.Forall₂ ElSteps (l.map f) (l.map g) := by
  induction l with
  | nil => exact List.Forall₂.nil
  | cons a l ih =>
    exact List.Forall₂.cons (h a (by simp)) (ih fun x hx => h x (by simp [hx]))

theorem forall₂_append {a b : List Bytes} {c d : List (List Ev)} (h1 : List.Forall₂ ElSteps a c)
    (h2 : List.Forall₂ ElSteps b d) : List.Forall₂ ElSteps (a ++ b) (c ++ d) := by
  induction h1 with
  | nil => exact h2
  | cons h _ ih => exact List.Forall₂.cons h ih

theorem tags_steps (ch : Choices) (level : Nat) (ts : List Tag)
    (hts : ∀ t ∈ ts, xstrOK t.key = true ∧ xstrOK t.value = true) :
    List.Forall₂ ElSteps (tagEls ch level ts) (tagEvs ch (wsOf ch) level ts) := by
  unfold tagEls tagEvs
  refine forall₂_map ts _ _ fun t ht => ?_
  exact element_steps ch level "tag" _ [] [] (by gn)
    (GoodAttrs.cons' (by gn) (XChars_of_xstrOK (hts t ht).1) (GoodAttrs.one (by gn) (XChars_of_xstrOK (hts t ht).2)))
    List.Forall₂.nil

/-! ### the `<text>` child of a comment -/

theorem pick_nil {α : Type} (ks : List Nat) : pick ks ([] : List α) = [] := rfl

theorem text_steps (ch : Choices) (level : Nat) (t : Bytes) (ht : XChars t) :
    ElSteps (indent ch level ++ str "<text>" ++ esc ch 0 t ++ str "</text>") (textEvs (wsOf ch) level t) := by
  intro r
  have e1 : str "<text>" = 0x3c :: (str "text" ++ [0x3e]) := by decide +kernel
  have e2 : str "</text>" = 0x3c :: 0x2f :: (str "text" ++ [0x3e]) := by decide +kernel
  have hn : GoodName "text" := by gn
  have ho := steps_open ch "text" [] (esc ch 0 t ++ 0x3c :: 0x2f :: (str "text" ++ 0x3e :: r)) hn GoodAttrs.nil
  rw [attrsBytes_eq, pick_nil, attrsFrom_nil, List.nil_append] at ho
  refine ((steps_indent ch level _).trans (ho.trans ((steps_text ch t ht _).trans (steps_close "text" r hn)))).cast ?_ ?_
  · rw [e1, e2]; simp [List.append_assoc]
  · unfold textEvs; simp

/-! ### objects -/

theorem node_steps (ch : Choices) (level : Nat) (m : Meta) (l : Location) (hm : XMetaOK m) (hl : XLocOK l) :
    ElSteps (objectEl ch level (.node m l)) (objectEvs ch (wsOf ch) level (.node m l)) := by
  unfold objectEl objectEvs
  refine element_steps ch level "node" _ _ _ (by gn) (GoodAttrs.append (goodAttrs_meta ch m hm) ?_) (tags_steps ch _ _ hm.tags)
  split
  · exact goodAttrs_latLon _ _ l (by gn) (by gn) hl
  · exact GoodAttrs.nil

theorem nd_steps (ch : Choices) (level : Nat) (n : NodeRef) (hn : XRefOK n) :
    ElSteps (element ch level "nd" (("ref", num n.ref) :: (if bothDefined n.location then latLon "lat" "lon" n.location else [])) [])
      (elEvs ch (wsOf ch) level "nd" (("ref", num n.ref) :: (if bothDefined n.location then latLon "lat" "lon" n.location else [])) []) := by
  refine element_steps ch level "nd" _ [] [] (by gn) (GoodAttrs.cons' (by gn) (num_xchars _) ?_) List.Forall₂.nil
  split
  · exact goodAttrs_latLon _ _ _ (by gn) (by gn) ⟨hn.2.2.1, hn.2.2.2.1, hn.2.2.2.2.1, hn.2.2.2.2.2⟩
  · exact GoodAttrs.nil

theorem way_steps (ch : Choices) (level : Nat) (m : Meta) (ns : List NodeRef) (hm : XMetaOK m) (hns : ∀ n ∈ ns, XRefOK n) :
    ElSteps (objectEl ch level (.way m ns)) (objectEvs ch (wsOf ch) level (.way m ns)) := by
  unfold objectEl objectEvs
  have h1 := forall₂_map ns _ _ fun n hn => nd_steps ch (level + 1) n (hns n hn)
  have h2 := tags_steps ch (level + 1) m.tags hm.tags
  refine element_steps ch level "way" _ _ _ (by gn) (goodAttrs_meta ch m hm) ?_
  cases ch.tagsFirst
  · exact forall₂_append h1 h2
  · exact forall₂_append h2 h1

theorem member_steps (ch : Choices) (level : Nat) (x : Member) (hx : XMemberOK x) :
    ElSteps (element ch level "member" [("type", typeName x.type), ("ref", num x.ref), ("role", x.role)] [])
      (elEvs ch (wsOf ch) level "member" [("type", typeName x.type), ("ref", num x.ref), ("role", x.role)] []) :=
  element_steps ch level "member" _ [] [] (by gn)
    (GoodAttrs.cons' (by gn) (XChars_of_plain (typeName_spec x.type hx.1).1)
      (GoodAttrs.cons' (by gn) (num_xchars _) (GoodAttrs.one (by gn) (XChars_of_xstrOK hx.2.2.2))))
    List.Forall₂.nil

theorem relation_steps (ch : Choices) (level : Nat) (m : Meta) (ms : List Member) (hm : XMetaOK m)
    (hms : ∀ x ∈ ms, XMemberOK x) :
    ElSteps (objectEl ch level (.relation m ms)) (objectEvs ch (wsOf ch) level (.relation m ms)) := by
  unfold objectEl objectEvs
  have h1 := forall₂_map ms _ _ fun x hx => member_steps ch (level + 1) x (hms x hx)
  have h2 := tags_steps ch (level + 1) m.tags hm.tags
  refine element_steps ch level "relation" _ _ _ (by gn) (goodAttrs_meta ch m hm) ?_
  cases ch.tagsFirst
  · exact forall₂_append h1 h2
  · exact forall₂_append h2 h1

theorem comment_steps (ch : Choices) (level : Nat) (c : Comment) (hc : XCommentOK c) :
    ElSteps (element ch level "comment" [("uid", num c.uid), ("user", c.user), ("date", toIsoAll c.date)]
        [indent ch (level + 1) ++ str "<text>" ++ esc ch 0 c.text ++ str "</text>"])
      (elEvs ch (wsOf ch) level "comment" [("uid", num c.uid), ("user", c.user), ("date", toIsoAll c.date)]
        [textEvs (wsOf ch) (level + 1) c.text]) :=
  element_steps ch level "comment" _ _ _ (by gn)
    (GoodAttrs.cons' (by gn) (num_xchars _)
      (GoodAttrs.cons' (by gn) (XChars_of_xstrOK hc.2.2.1) (GoodAttrs.one (by gn) (toIsoAll_xchars _))))
    (List.Forall₂.cons (text_steps ch (level + 1) c.text (XChars_of_xstrOK hc.2.2.2)) List.Forall₂.nil)

theorem changeset_steps (ch : Choices) (level : Nat) (id ca cl nc ncm : Nat) (uid : Int) (user : Bytes) (bl tr : Location)
    (tags : List Tag) (cs : List Comment) (h : XCsOK id ca cl nc ncm uid user bl tr tags cs) :
    ElSteps (objectEl ch level (.changeset id ca cl nc ncm uid user bl tr tags cs))
      (objectEvs ch (wsOf ch) level (.changeset id ca cl nc ncm uid user bl tr tags cs)) := by
  unfold objectEl objectEvs
  refine element_steps ch level "changeset" _ _ _ (by gn) ?_ (forall₂_append (tags_steps ch (level + 1) tags h.tags) ?_)
  · refine GoodAttrs.append (GoodAttrs.append (GoodAttrs.append (GoodAttrs.append (GoodAttrs.append ?_ ?_) ?_) ?_) ?_) ?_
    · exact GoodAttrs.one (by gn) (num_xchars _)
    · split
      · exact GoodAttrs.nil
      · exact GoodAttrs.one (by gn) (toIso_xchars _)
    · split
      · exact GoodAttrs.one (by gn) (XChars_of_plain bTrue_plain)
      · exact GoodAttrs.cons' (by gn) (toIso_xchars _) (GoodAttrs.one (by gn) (XChars_of_plain bFalse_plain))
    · split
      · exact GoodAttrs.nil
      · exact GoodAttrs.cons' (by gn) (XChars_of_xstrOK h.user) (GoodAttrs.one (by gn) (num_xchars _))
    · split
      · exact GoodAttrs.nil
      · exact GoodAttrs.append (goodAttrs_latLon _ _ bl (by gn) (by gn) h.bl) (goodAttrs_latLon _ _ tr (by gn) (by gn) h.tr)
    · exact GoodAttrs.cons' (by gn) (num_xchars _) (GoodAttrs.one (by gn) (num_xchars _))
  · cases cs with
    | nil => exact List.Forall₂.nil
    | cons c cs =>
      simp only [List.isEmpty_cons, Bool.false_eq_true, if_false]
      refine List.Forall₂.cons ?_ List.Forall₂.nil
      refine element_steps ch (level + 1) "discussion" [] _ _ (by gn) GoodAttrs.nil ?_
      exact forall₂_map (c :: cs) _ _ fun x hx => comment_steps ch (level + 2) x (h.cs x hx)

/-- every object of the XML domain, at any nesting level -/
theorem object_steps (ch : Choices) (level : Nat) (obj : Object) (h : XObjOK2 obj) :
    ElSteps (objectEl ch level obj) (objectEvs ch (wsOf ch) level obj) := by
  cases obj with
  | node m l => exact node_steps ch level m l h.1 h.2
  | way m ns => exact way_steps ch level m ns h.1 h.2
  | relation m ms => exact relation_steps ch level m ms h.1 h.2
  | changeset id ca cl nc ncm uid user bl tr tags cs => exact changeset_steps ch level _ _ _ _ _ _ _ _ _ _ _ h

end Osmium.XmlFmt.XmlSpec
