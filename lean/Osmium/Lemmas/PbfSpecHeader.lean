/-
C02, PBF: `decode_header_block` on the specification encoder's HeaderBlock (any rank, unknown extras, several
bounding boxes).
-/
import Osmium.Lemmas.PbfSpecBase
import Osmium.Lemmas.PbfHeader

namespace Osmium.Pbf

open Osmium.Wire Osmium.Osm Osmium.PbfMsg
open Osmium.PbfSpec (Choices)

/-- a header box the format stores exactly: two valid corners, bottom-left ≤ top-right -/
def BoxRep (b : Location × Location) : Prop :=
  Location.isValid b.1 = true ∧ Location.isValid b.2 = true ∧ b.1.x ≤ b.2.x ∧ b.1.y ≤ b.2.y

theorem spec_hdr_unknown (s : Header) (f : Field) (h : headerKnown f = false) : headerStep s f = some s := by
  obtain ⟨tag, wt, val, payload⟩ := f
  unfold headerStep
  simp only [headerKnown] at h
  split <;> simp_all

theorem spec_hdr_commutes : CommutesOn headerStep (fun _ => True) := by
  intro s f g _ _ hk
  obtain ⟨t1, w1, v1, p1⟩ := f
  obtain ⟨t2, w2, v2, p2⟩ := g
  simp only [key, ne_eq, Prod.mk.injEq, not_and] at hk
  unfold headerStep
  split <;> split <;> (try (simp_all; done))
  all_goals (cases decodeBBox p1 <;> cases decodeBBox p2 <;> cases featureOk p1 <;> cases featureOk p2 <;> simp)
  all_goals (try (split <;> rfl))

/-- one HeaderBBox message of the specification encoder -/
theorem spec_hdr_bbox (ch : Choices) (hch : ChoicesOk ch) (b : Location × Location) (hb : BoxRep b) :
    decodeBBox (PbfSpec.msg ch PbfSpec.kHeaderBBox [PbfSpec.fSInt 1 (100 * b.1.x), PbfSpec.fSInt 2 (100 * b.2.x),
      PbfSpec.fSInt 3 (100 * b.2.y), PbfSpec.fSInt 4 (100 * b.1.y)]) = some b := by
  obtain ⟨bl, tr⟩ := b
  obtain ⟨h1, h2, hx, hy⟩ := hb
  simp only at h1 h2 hx hy ⊢
  have v1 := (isValid_iff bl).mp h1
  have v2 := (isValid_iff tr).mp h2
  have r : ∀ c : Int, -1800000000 ≤ c → c ≤ 1800000000 → zigzag64 (c * 100) < 2 ^ 64 := fun c a b =>
    zigzag64_lt _ (by simp only [Int.reducePow]; omega) (by simp only [Int.reducePow]; omega)
  have wf : ∀ f ∈ [fVarint 1 (zigzag64 (bl.x * 100)), fVarint 2 (zigzag64 (tr.x * 100)),
                    fVarint 3 (zigzag64 (tr.y * 100)), fVarint 4 (zigzag64 (bl.y * 100))], f.WF := by
    intro f hf
    simp only [List.mem_cons, List.not_mem_nil, or_false] at hf
    rcases hf with rfl | rfl | rfl | rfl <;> apply wf_varint _ _ (by decide) (by decide) <;> apply r <;> omega
  have henc := decodeBBox_enc bl tr h1 h2 hx hy
  unfold decodeBBox withFields at henc
  rw [readFields_encodeFields _ wf] at henc
  simp only [spec_fSInt, Int.mul_comm 100]
  unfold decodeBBox withFields
  rw [readFields_msg ch PbfSpec.kHeaderBBox _ wf (hch.extrasWF PbfSpec.kHeaderBBox)]
  simp only
  rw [decodeMsg_arrange' bboxStep bboxKnown bboxStep_unknown bboxStep_commutes ch PbfSpec.kHeaderBBox _ _
    (hch.extrasUnknown PbfSpec.kHeaderBBox)]
  exact henc

/-- the bounding boxes, from any header so far -/
theorem spec_hdr_boxes (ch : Choices) (hch : ChoicesOk ch) : ∀ (boxes : List (Location × Location)) (hd : Header),
    (∀ b ∈ boxes, BoxRep b) →
    decodeMsg headerStep hd (boxes.map fun b => PbfSpec.fBytes 1 (PbfSpec.msg ch PbfSpec.kHeaderBBox
      [PbfSpec.fSInt 1 (100 * b.1.x), PbfSpec.fSInt 2 (100 * b.2.x), PbfSpec.fSInt 3 (100 * b.2.y),
       PbfSpec.fSInt 4 (100 * b.1.y)])) = some { hd with boxes := hd.boxes ++ boxes }
  | [], hd, _ => by simp [decodeMsg]
  | b :: bs, hd, hb => by
    have h1 := spec_hdr_bbox ch hch b (hb b (List.mem_cons_self))
    have ih := spec_hdr_boxes ch hch bs { hd with boxes := hd.boxes ++ [b] } (fun c hc => hb c (List.mem_cons_of_mem _ hc))
    unfold decodeMsg at ih ⊢
    rw [List.map_cons, foldlM_cons']
    have hs : headerStep hd (PbfSpec.fBytes 1 (PbfSpec.msg ch PbfSpec.kHeaderBBox
        [PbfSpec.fSInt 1 (100 * b.1.x), PbfSpec.fSInt 2 (100 * b.2.x), PbfSpec.fSInt 3 (100 * b.2.y),
         PbfSpec.fSInt 4 (100 * b.1.y)])) = some { hd with boxes := hd.boxes ++ [b] } := by
      simp only [headerStep, PbfSpec.fBytes, h1, Option.map_some]
    rw [hs, Option.bind_some, ih]
    simp

/-- the canonical field list of the HeaderBlock -/
def spec_hdr_fields (ch : Choices) (h : Header) : List Field :=
  (h.boxes.map fun b => PbfSpec.fBytes 1 (PbfSpec.msg ch PbfSpec.kHeaderBBox
    [PbfSpec.fSInt 1 (100 * b.1.x), PbfSpec.fSInt 2 (100 * b.2.x), PbfSpec.fSInt 3 (100 * b.2.y),
     PbfSpec.fSInt 4 (100 * b.1.y)])) ++
  [PbfSpec.fBytes 4 "OsmSchema-V0.6".toUTF8.toList] ++
  (if ch.dense then [PbfSpec.fBytes 4 "DenseNodes".toUTF8.toList] else []) ++
  (if h.multipleVersions then [PbfSpec.fBytes 4 "HistoricalInformation".toUTF8.toList] else []) ++
  [PbfSpec.fBytes 16 h.generator]

theorem spec_hdr_msg (ch : Choices) (h : Header) :
    PbfSpec.headerMsg ch h = PbfSpec.msg ch PbfSpec.kHeaderBlock (spec_hdr_fields ch h) := rfl

theorem spec_hdr_shape (ch : Choices) (h : Header) (f : Field) (hf : f ∈ spec_hdr_fields ch h) :
    ∃ tag p, f = fBytes tag p ∧ 0 < tag ∧ tag < 17 := by
  unfold spec_hdr_fields at hf
  simp only [List.mem_append, List.mem_map, List.mem_singleton] at hf
  rcases hf with (((⟨b, _, rfl⟩ | rfl) | hf) | hf) | rfl
  · exact ⟨1, _, rfl, by decide, by decide⟩
  · exact ⟨4, _, rfl, by decide, by decide⟩
  · split at hf
    · rw [List.mem_singleton] at hf; subst hf; exact ⟨4, _, rfl, by decide, by decide⟩
    · simp at hf
  · split at hf
    · rw [List.mem_singleton] at hf; subst hf; exact ⟨4, _, rfl, by decide, by decide⟩
    · simp at hf
  · exact ⟨16, _, rfl, by decide, by decide⟩

theorem spec_hdr_wf (ch : Choices) (h : Header) (hlen : (PbfSpec.headerMsg ch h).length < 2 ^ 32) :
    ∀ f ∈ spec_hdr_fields ch h, f.WF := by
  intro f hf
  obtain ⟨tag, p, rfl, h0, h1⟩ := spec_hdr_shape ch h f hf
  have := payload_le_msg ch PbfSpec.kHeaderBlock _ _ hf rfl
  rw [← spec_hdr_msg] at this
  exact wf_bytes tag p h0 h1 (by simp only [fBytes] at this; omega)

/-- the decoder loop over the canonical field list -/
theorem spec_hdr_canon (ch : Choices) (hch : ChoicesOk ch) (h : Header) (hb : ∀ b ∈ h.boxes, BoxRep b) :
    decodeMsg headerStep {} (spec_hdr_fields ch h) = some h := by
  have f1 : featureOk "OsmSchema-V0.6".toByteArray.toList = some false := by decide +kernel
  have f2 : featureOk "DenseNodes".toByteArray.toList = some false := by decide +kernel
  have f3 : featureOk "HistoricalInformation".toByteArray.toList = some true := by decide +kernel
  unfold spec_hdr_fields
  simp only [List.append_assoc]
  rw [decodeMsg_append, spec_hdr_boxes ch hch h.boxes {} hb, Option.bind_some]
  obtain ⟨gen, boxes, mv⟩ := h
  cases hd : ch.dense <;> cases mv <;>
    simp [decodeMsg, headerStep, PbfSpec.fBytes, f1, f2, f3]

theorem spec_header (ch : Choices) (hch : ChoicesOk ch) (h : Header) (hb : ∀ b ∈ h.boxes, BoxRep b)
    (hlen : (PbfSpec.headerMsg ch h).length < 2 ^ 32) :
    withFields (PbfSpec.headerMsg ch h) (fun fs => decodeMsg headerStep {} fs) = some h := by
  unfold withFields
  rw [spec_hdr_msg, readFields_msg ch PbfSpec.kHeaderBlock _ (spec_hdr_wf ch h hlen) (hch.extrasWF PbfSpec.kHeaderBlock)]
  simp only
  rw [decodeMsg_arrange' headerStep headerKnown spec_hdr_unknown spec_hdr_commutes ch PbfSpec.kHeaderBlock _ _
    (hch.extrasUnknown PbfSpec.kHeaderBlock)]
  exact spec_hdr_canon ch hch h hb

end Osmium.Pbf
