/-
C02, PBF: `decode_header_block` on the specification encoder's HeaderBlock (any rank, unknown extras, several
bounding boxes).
-/
import Osmium.Lemmas.PbfSpecBase
import Osmium.Lemmas.PbfHeader

namespace Osmium.Pbf

open Osmium.Wire Osmium.Osm Osmium.PbfMsg
open Osmium.PbfSpec (Choices)

/-- a header box the format stores exactly: two valid corners, bottom-left ≤ top-right -/
def BoxRep (b : Location × Location) : Prop :=
  Location.isValid b.1 = true ∧ Location.isValid b.2 = true ∧ b.1.x ≤ b.2.x ∧ b.1.y ≤ b.2.y

theorem spec_header (ch : Choices) (hch : ChoicesOk ch) (h : Header) (hb : ∀ b ∈ h.boxes, BoxRep b)
    (hlen : (PbfSpec.headerMsg ch h).length < 2 ^ 32) :
    withFields (PbfSpec.headerMsg ch h) (fun fs => decodeMsg headerStep {} fs) = some h := by
  sorry

end Osmium.Pbf
