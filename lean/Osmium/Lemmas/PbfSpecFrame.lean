/-
C02, PBF: blob framing of the specification encoder (BlobHeader with optional indexdata, any rank, unknown
extras; raw Blob) through `PBFParser` (`nextBlob`) and `decode_blob`.
-/
import Osmium.Lemmas.PbfSpecBase

namespace Osmium.Pbf

open Osmium.Wire Osmium.Osm Osmium.PbfMsg
open Osmium.PbfSpec (Choices)

/-- the Blob message around `payload` -/
def specBlob (ch : Choices) (payload : Bytes) : Bytes := PbfSpec.msg ch PbfSpec.kBlob [PbfSpec.fBytes 1 payload]

/-- the BlobHeader message -/
def specHdr (ch : Choices) (type payload : Bytes) : Bytes :=
  PbfSpec.msg ch PbfSpec.kBlobHeader ([PbfSpec.fBytes 1 type] ++
    (match ch.indexdata with | some d => [PbfSpec.fBytes 2 d] | none => []) ++
    [PbfSpec.fInt 3 (specBlob ch payload).length])

theorem spec_frame_eq (ch : Choices) (type payload : Bytes) :
    PbfSpec.frame ch type payload =
      be32 (specHdr ch type payload).length ++ specHdr ch type payload ++ specBlob ch payload := rfl

/-- the format limits: BlobHeader ≤ 64 KiB, Blob and its payload ≤ 32 MiB -/
structure FrameFits (ch : Choices) (type payload : Bytes) : Prop where
  payload_le : payload.length ≤ PbfFraming.maxUncompressedBlobSize
  blob_le : (specBlob ch payload).length ≤ PbfFraming.maxUncompressedBlobSize
  hdr_le : (specHdr ch type payload).length ≤ PbfFraming.maxBlobHeaderSize

/-! ### helpers -/

/-- a "last field with key `k` wins" fold only sees the fields with key `k` -/
theorem spec_fr_foldl_key {α : Type} (k : Nat × WireType) (v : Field → α) (p : Field → Bool)
    (hp : ∀ f, p f = decide (key f = k)) : ∀ (l : List Field) (a : α),
    l.foldl (fun acc f => if p f then v f else acc) a =
      (l.filter (fun g => key g = k)).foldl (fun _ f => v f) a
  | [], _ => rfl
  | f :: l, a => by
    by_cases h : key f = k
    · have hpf : p f = true := by rw [hp]; simpa using h
      simp only [List.foldl_cons, hpf, ↓reduceIte, List.filter_cons, h, decide_true]
      exact spec_fr_foldl_key k v p hp l (v f)
    · have hpf : p f = false := by rw [hp]; simpa using h
      simp only [List.foldl_cons, hpf, Bool.false_eq_true, ↓reduceIte, List.filter_cons, h, decide_false]
      exact spec_fr_foldl_key k v p hp l a

/-- the fields of an arranged BlobHeader with a key the BlobHeader knows are the canonical ones -/
theorem spec_fr_hdr_filter (ch : Choices) (hch : ChoicesOk ch) (fs : List Field) (k : Nat × WireType)
    (hk : ∀ e : Field, key e = k → blobHeaderKnown e = true) :
    (PbfSpec.arrange ch PbfSpec.kBlobHeader fs).filter (fun g => key g = k) = fs.filter (fun g => key g = k) := by
  unfold PbfSpec.arrange
  rw [sortByRank_filter, List.filter_append]
  have : (ch.extras PbfSpec.kBlobHeader).filter (fun g => key g = k) = [] := by
    rw [List.filter_eq_nil_iff]
    intro e he hek
    have h1 : blobHeaderKnown e = false := hch.extrasUnknown PbfSpec.kBlobHeader e he
    have h2 := hk e (by simpa using hek)
    rw [h1] at h2
    exact absurd h2 (by decide)
  rw [this, List.append_nil]

theorem spec_fr_blob_pos (ch : Choices) (payload : Bytes) : 0 < (specBlob ch payload).length := by
  have h := encodeFields_length_ge (PbfSpec.arrange ch PbfSpec.kBlob [PbfSpec.fBytes 1 payload])
  rw [length_arrange] at h
  simp only [List.length_cons, List.length_nil] at h
  unfold specBlob PbfSpec.msg
  omega

theorem spec_fr_hdr_pos (ch : Choices) (type payload : Bytes) : 0 < (specHdr ch type payload).length := by
  unfold specHdr PbfSpec.msg
  have h := encodeFields_length_ge (PbfSpec.arrange ch PbfSpec.kBlobHeader ([PbfSpec.fBytes 1 type] ++
    (match ch.indexdata with | some d => [PbfSpec.fBytes 2 d] | none => []) ++
    [PbfSpec.fInt 3 (specBlob ch payload).length]))
  rw [length_arrange] at h
  simp only [List.length_append, List.length_cons, List.length_nil] at h
  omega

/-- `decode_blob_header` on the BlobHeader of the specification encoder -/
theorem spec_fr_blobSize (ch : Choices) (hch : ChoicesOk ch) (first : Bool) (type : Bytes)
    (ht : type = if first then PbfFraming.osmHeader else PbfFraming.osmData) (payload : Bytes)
    (hfit : FrameFits ch type payload) :
    PbfFraming.blobSize first (specHdr ch type payload) = some (specBlob ch payload).length := by
  have hm : PbfFraming.maxUncompressedBlobSize = 33554432 := by decide
  have hh : PbfFraming.maxBlobHeaderSize = 65536 := by decide
  have hbl := hfit.blob_le
  have hhl := hfit.hdr_le
  have hpos := spec_fr_blob_pos ch payload
  have htl : type.length < 2 ^ 32 := by
    subst ht; cases first <;> simp [osmData_len, osmHeader_len]
  have hwf : ∀ f ∈ ([PbfSpec.fBytes 1 type] ++
      (match ch.indexdata with | some d => [PbfSpec.fBytes 2 d] | none => []) ++
      [PbfSpec.fInt 3 (specBlob ch payload).length]), f.WF := by
    intro f hf
    have hle := fun hw => payload_le_msg ch PbfSpec.kBlobHeader _ f hf hw
    simp only [List.mem_append, List.mem_cons, List.not_mem_nil, or_false] at hf
    rcases hf with (rfl | hf) | rfl
    · exact wf_bytes 1 _ (by decide) (by decide) htl
    · cases hi : ch.indexdata with
      | none => simp [hi] at hf
      | some d =>
        simp only [hi, List.mem_cons, List.not_mem_nil, or_false] at hf
        subst hf
        have := hle rfl
        refine wf_bytes 2 _ (by decide) (by decide) ?_
        change d.length ≤ (specHdr ch type payload).length at this
        simp only [Nat.reducePow]; omega
    · exact wf_varint 3 _ (by decide) (by decide) (u64_lt _)
  have hds : toInt32 (u64 ((specBlob ch payload).length : Int)) = ((specBlob ch payload).length : Int) := by
    rw [u64_nat _ (by simp only [Nat.reducePow]; omega), toInt32_small _ (by simp only [Nat.reducePow]; omega)]
  unfold PbfFraming.blobSize PbfFraming.decodeBlobHeader specHdr
  rw [readFields_msg ch _ _ hwf (hch.extrasWF PbfSpec.kBlobHeader), ← ht]
  simp only []
  rw [spec_fr_foldl_key (1, WireType.lengthDelimited) (fun f => f.payload)
      (fun f => f.tag == 1 && f.wt == .lengthDelimited) (by intro f; by_cases a : f.tag = 1 <;> by_cases b : f.wt = WireType.lengthDelimited <;> simp [key, a, b]),
    spec_fr_foldl_key (3, WireType.varint) (fun f => toInt32 f.val)
      (fun f => f.tag == 3 && f.wt == .varint)
      (by intro f; by_cases a : f.tag = 3 <;> by_cases b : f.wt = WireType.varint <;> simp [key, a, b]),
    spec_fr_hdr_filter ch hch _ _ (by intro e he; simp only [key, Prod.mk.injEq] at he; simp [blobHeaderKnown, he.1, he.2]),
    spec_fr_hdr_filter ch hch _ _ (by intro e he; simp only [key, Prod.mk.injEq] at he; simp [blobHeaderKnown, he.1, he.2])]
  have hne : ((((specBlob ch payload).length : Int)) == 0) = false := by
    rw [beq_eq_false_iff_ne]; omega
  have hnn : ¬ (((specBlob ch payload).length : Int)) < 0 := by omega
  cases hi : ch.indexdata <;>
    simp [key, PbfSpec.fBytes, PbfSpec.fInt, PbfSpec.fVarint, spec_u64, hds, hne, hnn, strncmpEq_refl]

theorem spec_nextBlob (ch : Choices) (hch : ChoicesOk ch) (first : Bool) (type : Bytes)
    (ht : type = if first then PbfFraming.osmHeader else PbfFraming.osmData) (payload rest : Bytes)
    (hfit : FrameFits ch type payload) :
    nextBlob first (PbfSpec.frame ch type payload ++ rest) = some (some (specBlob ch payload, rest)) := by
  have hh : PbfFraming.maxBlobHeaderSize = 65536 := by decide
  have hhl := hfit.hdr_le
  rw [spec_frame_eq]
  exact nextBlob_framed first _ _ rest (spec_fr_hdr_pos ch type payload) (by omega)
    (spec_fr_blobSize ch hch first type ht payload hfit) hfit.blob_le

theorem spec_fr_blob_unknown (s : BlobAcc) (f : Field) (h : blobKnown f = false) : blobStep s f = some s := by
  obtain ⟨tag, wt, val, pl⟩ := f
  unfold blobStep
  split
  · rfl
  · split <;> simp_all [blobKnown]

theorem spec_decodeBlob (ch : Choices) (hch : ChoicesOk ch) (inflate : Nat → Bytes → Nat → Option Bytes) (payload : Bytes)
    (h1 : payload.length ≤ PbfFraming.maxUncompressedBlobSize) :
    decodeBlob inflate (specBlob ch payload) = some payload := by
  have hm : PbfFraming.maxUncompressedBlobSize = 33554432 := by decide
  have hwf : ∀ f ∈ [PbfSpec.fBytes 1 payload], f.WF := by
    intro f hf
    simp only [List.mem_cons, List.not_mem_nil, or_false] at hf
    subst hf
    exact wf_bytes 1 _ (by decide) (by decide) (by simp only [Nat.reducePow]; omega)
  have hn : ¬ payload.length > PbfFraming.maxUncompressedBlobSize := by omega
  unfold decodeBlob withFields specBlob
  rw [readFields_msg ch _ _ hwf (hch.extrasWF PbfSpec.kBlob)]
  simp only []
  rw [decodeMsg_arrange blobStep blobKnown (fun s f h => spec_fr_blob_unknown s f h)
    (fun f => key f = (1, WireType.lengthDelimited) ∨ blobKnown f = false)
    (commutesOn_single blobStep blobKnown (fun s f h => spec_fr_blob_unknown s f h) (1, WireType.lengthDelimited))
    ch PbfSpec.kBlob _ _
    (by intro f hf
        simp only [List.mem_cons, List.not_mem_nil, or_false] at hf
        subst hf; exact Or.inl rfl)
    (fun e he => Or.inr (hch.extrasUnknown PbfSpec.kBlob e he))
    (fun e he => hch.extrasUnknown PbfSpec.kBlob e he)]
  simp [decodeMsg, blobStep, PbfSpec.fBytes, hn]

theorem spec_frame_length (ch : Choices) (type payload : Bytes) : 4 ≤ (PbfSpec.frame ch type payload).length := by
  rw [spec_frame_eq]
  simp only [List.length_append]
  have : (be32 (specHdr ch type payload).length).length = 4 := rfl
  omega

end Osmium.Pbf
