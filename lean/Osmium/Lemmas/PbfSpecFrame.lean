/-
C02, PBF: blob framing of the specification encoder (BlobHeader with optional indexdata, any rank, unknown
extras; raw Blob) through `PBFParser` (`nextBlob`) and `decode_blob`.
-/
import Osmium.Lemmas.PbfSpecBase

namespace Osmium.Pbf

open Osmium.Wire Osmium.Osm Osmium.PbfMsg
open Osmium.PbfSpec (Choices)

/-- the Blob message around `payload` -/
def specBlob (ch : Choices) (payload : Bytes) : Bytes := PbfSpec.msg ch PbfSpec.kBlob [PbfSpec.fBytes 1 payload]

/-- the BlobHeader message -/
def specHdr (ch : Choices) (type payload : Bytes) : Bytes :=
  PbfSpec.msg ch PbfSpec.kBlobHeader ([PbfSpec.fBytes 1 type] ++
    (match ch.indexdata with | some d => [PbfSpec.fBytes 2 d] | none => []) ++
    [PbfSpec.fInt 3 (specBlob ch payload).length])

theorem spec_frame_eq (ch : Choices) (type payload : Bytes) :
    PbfSpec.frame ch type payload =
      be32 (specHdr ch type payload).length ++ specHdr ch type payload ++ specBlob ch payload := rfl

/-- the format limits: BlobHeader ≤ 64 KiB, Blob and its payload ≤ 32 MiB -/
structure FrameFits (ch : Choices) (type payload : Bytes) : Prop where
  payload_le : payload.length ≤ PbfFraming.maxUncompressedBlobSize
  blob_le : (specBlob ch payload).length ≤ PbfFraming.maxUncompressedBlobSize
  hdr_le : (specHdr ch type payload).length ≤ PbfFraming.maxBlobHeaderSize

theorem spec_nextBlob (ch : Choices) (hch : ChoicesOk ch) (first : Bool) (type : Bytes)
    (ht : type = if first then PbfFraming.osmHeader else PbfFraming.osmData) (payload rest : Bytes)
    (hfit : FrameFits ch type payload) :
    nextBlob first (PbfSpec.frame ch type payload ++ rest) = some (some (specBlob ch payload, rest)) := by
  sorry

theorem spec_decodeBlob (ch : Choices) (hch : ChoicesOk ch) (inflate : Nat → Bytes → Nat → Option Bytes) (payload : Bytes)
    (h1 : payload.length ≤ PbfFraming.maxUncompressedBlobSize) :
    decodeBlob inflate (specBlob ch payload) = some payload := by
  sorry

theorem spec_frame_length (ch : Choices) (type payload : Bytes) : 4 ≤ (PbfSpec.frame ch type payload).length := by
  sorry

end Osmium.Pbf
