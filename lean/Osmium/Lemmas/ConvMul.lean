/-
Helper lemmas for C13 (coordinates): the scaling loops of
`detail::string_to_location_coordinate` (`mulLoop`, `mulLoopNaive`, `divLoop` of
Osmium/Model/Conv.lean).
-/
import Osmium.Lemmas.ConvInt

namespace Osmium.Conv

open IntLemmas (digitsStr valFrom AllDigits digitVal_digitChar wrap64_id valFrom_ge
  allDigits_cons valFrom_nil valFrom_cons digitsStr_nil digitsStr_cons)

/-! ### wrap64 -/

theorem wrap64_zero : wrap64 0 = 0 := by unfold wrap64; omega

theorem wrap64_idem (a : Int) : wrap64 (wrap64 a) = wrap64 a := by unfold wrap64; omega

/-- `wrap64` is the identity on naturals below 2^63 -/
theorem wrap64_nat {n : Nat} (h : n ≤ 9223372036854775807) : wrap64 (n : Int) = n := by
  unfold wrap64; omega

/-- multiplication commutes with reduction modulo 2^64 -/
theorem wrap64_mul_left (a b : Int) : wrap64 (wrap64 a * b) = wrap64 (a * b) := by
  have h : wrap64 a = a - 18446744073709551616 * ((a + 9223372036854775808) / 18446744073709551616) := by
    unfold wrap64; omega
  rw [h, Int.sub_mul, Int.mul_assoc]
  generalize a * b = t
  generalize (a + 9223372036854775808) / 18446744073709551616 * b = s
  unfold wrap64; omega

/-! ### one iteration, by case -/

theorem mulLoopNaive_succ_digit (v : Variant) (hv : v.fixDigits = true) (k : Nat) (r : Int)
    (c : UInt8) (ex : List UInt8) (o : Bool) :
    mulLoopNaive v (k + 1) r (c :: ex) o =
      if (v.fixOvf && decide (r ≥ mulLimit)) = true then none
      else mulLoopNaive v k (wrap64 (r * 10 + digitVal c)) ex
        (o || wrap64 (r * 10 + digitVal c) != r * 10 + digitVal c) := by
  obtain ⟨a, b⟩ := v
  cases hv
  rfl

theorem mulLoopNaive_succ_plain (v : Variant) (k : Nat) (r : Int) (ex : List UInt8) (o : Bool)
    (h : v.fixDigits = false ∨ ex = []) :
    mulLoopNaive v (k + 1) r ex o =
      if (v.fixOvf && decide (r ≥ mulLimit)) = true then none
      else mulLoopNaive v k (wrap64 (r * 10)) ex (o || wrap64 (r * 10) != r * 10) := by
  obtain ⟨a, b⟩ := v
  rcases h with h | h
  · cases h; cases ex <;> rfl
  · subst h; cases b <;> rfl

theorem mulLoop_succ_digit (v : Variant) (hv : v.fixDigits = true) (k : Nat) (r : Int)
    (c : UInt8) (ex : List UInt8) (o : Bool) :
    mulLoop v (k + 1) r (c :: ex) o =
      if (r == 0 && (!v.fixDigits || (c :: ex).isEmpty)) = true then some (0, o)
      else if (v.fixOvf && decide (r ≥ mulLimit)) = true then none
      else mulLoop v k (wrap64 (r * 10 + digitVal c)) ex
        (o || wrap64 (r * 10 + digitVal c) != r * 10 + digitVal c) := by
  obtain ⟨a, b⟩ := v
  cases hv
  rfl

theorem mulLoop_succ_plain (v : Variant) (k : Nat) (r : Int) (ex : List UInt8) (o : Bool)
    (h : v.fixDigits = false ∨ ex = []) :
    mulLoop v (k + 1) r ex o =
      if (r == 0 && (!v.fixDigits || ex.isEmpty)) = true then some (0, o)
      else if (v.fixOvf && decide (r ≥ mulLimit)) = true then none
      else mulLoop v k (wrap64 (r * 10)) ex (o || wrap64 (r * 10) != r * 10) := by
  obtain ⟨a, b⟩ := v
  rcases h with h | h
  · cases h; cases ex <;> rfl
  · subst h; cases b <;> rfl

/-! ### A. the shortcut is sound -/

theorem mulLoopNaive_zero (v : Variant) : ∀ (k : Nat) (ex : List UInt8) (o : Bool),
    (v.fixDigits = false ∨ ex = []) → mulLoopNaive v k 0 ex o = some (0, o) := by
  intro k
  induction k with
  | zero => intro ex o _; rfl
  | succ k ih =>
    intro ex o h
    rw [mulLoopNaive_succ_plain v k 0 ex o h]
    have h0 : decide ((0 : Int) ≥ mulLimit) = false := by decide
    have hw : wrap64 (0 * 10) = 0 := by simp [wrap64_zero]
    rw [h0, hw]
    simp only [Bool.and_false, Bool.false_eq_true, if_false]
    have : (o || (0 : Int) != 0 * 10) = o := by simp
    rw [this]
    exact ih ex o h

theorem mulLoop_eq_naive (v : Variant) : ∀ (k : Nat) (r : Int) (ex : List UInt8) (o : Bool),
    mulLoop v k r ex o = mulLoopNaive v k r ex o := by
  intro k
  induction k with
  | zero => intro r ex o; rfl
  | succ k ih =>
    intro r ex o
    by_cases hs : (r == 0 && (!v.fixDigits || ex.isEmpty)) = true
    · -- the shortcut fires
      have hs' := hs
      simp only [Bool.and_eq_true, beq_iff_eq, Bool.or_eq_true, Bool.not_eq_true',
        List.isEmpty_iff] at hs
      obtain ⟨hr, hc⟩ := hs
      subst hr
      rw [mulLoop_succ_plain v k 0 ex o hc, mulLoopNaive_zero v (k + 1) ex o hc, if_pos hs']
    · by_cases hp : v.fixDigits = false ∨ ex = []
      · rw [mulLoop_succ_plain v k r ex o hp, mulLoopNaive_succ_plain v k r ex o hp, if_neg hs, ih]
      · have hv : v.fixDigits = true := by
          cases h : v.fixDigits with
          | true => rfl
          | false => exact absurd (Or.inl h) hp
        cases ex with
        | nil => exact absurd (Or.inr rfl) hp
        | cons c ex =>
          rw [mulLoop_succ_digit v hv, mulLoopNaive_succ_digit v hv, if_neg hs, ih]

/-! ### B. the division loop -/

theorem divLoop_eq : ∀ (k r : Nat), divLoop k r = r / 10 ^ k := by
  intro k
  induction k with
  | zero => intro r; simp [divLoop]
  | succ k ih =>
    intro r
    rw [divLoop]
    by_cases hr : r > 0
    · simp only [hr, if_true]
      rw [ih, Nat.div_div_eq_div_mul, Nat.pow_succ, Nat.mul_comm]
    · have : r = 0 := by omega
      subst this
      simp

/-! ### C. exact scaling -/

theorem bne_self_false (x : Int) : (x != x) = false := by simp

theorem pow_succ_split (r k : Nat) : r * 10 ^ (k + 1) = r * 10 * 10 ^ k := by
  rw [Nat.pow_succ, Nat.mul_assoc, Nat.mul_comm (10 ^ k)]

theorem le_mul_pow (a k : Nat) : a ≤ a * 10 ^ k :=
  Nat.le_mul_of_pos_right _ (Nat.pow_pos (by decide))

theorem mulLoopNaive_exact (v : Variant) : ∀ (k r : Nat) (o : Bool),
    r * 10 ^ k < 214748364900 →
    mulLoopNaive v k (r : Int) [] o = some (((r * 10 ^ k : Nat) : Int), o) := by
  intro k
  induction k with
  | zero => intro r o _; simp [mulLoopNaive]
  | succ k ih =>
    intro r o h
    rw [pow_succ_split] at h
    have hle := le_mul_pow (r * 10) k
    rw [mulLoopNaive_succ_plain v k r [] o (Or.inr rfl)]
    have hlim : decide ((r : Int) ≥ mulLimit) = false :=
      decide_eq_false (by simp only [mulLimit]; omega)
    have hw : wrap64 ((r : Int) * 10) = ((r * 10 : Nat) : Int) := by unfold wrap64; omega
    have hc : (r : Int) * 10 = ((r * 10 : Nat) : Int) := by omega
    rw [hlim, hw, hc, bne_self_false]
    simp only [Bool.and_false, Bool.false_eq_true, if_false, Bool.or_false]
    rw [ih (r * 10) o h, pow_succ_split]

/-- All variants, no extra digits: below `10 * mulLimit` the scaling is exact (the `fixOvf`
    check never fires, nothing wraps). -/
theorem mulLoop_exact (v : Variant) : ∀ (k : Nat) (r : Nat) (o : Bool),
    r * 10 ^ k < 214748364900 →
    mulLoop v k (r : Int) [] o = some (((r * 10 ^ k : Nat) : Int), o) := by
  intro k r o h
  rw [mulLoop_eq_naive]; exact mulLoopNaive_exact v k r o h

theorem mulLoopNaive_current_exact : ∀ (k r : Nat) (o : Bool) (ex : List UInt8),
    r * 10 ^ k ≤ 9223372036854775807 →
    mulLoopNaive Variant.old k (r : Int) ex o = some (((r * 10 ^ k : Nat) : Int), o) := by
  intro k
  induction k with
  | zero => intro r o ex _; simp [mulLoopNaive]
  | succ k ih =>
    intro r o ex h
    rw [pow_succ_split] at h
    have hle := le_mul_pow (r * 10) k
    rw [mulLoopNaive_succ_plain Variant.old k r ex o (Or.inl rfl)]
    have hf : Variant.old.fixOvf = false := rfl
    have hw : wrap64 ((r : Int) * 10) = ((r * 10 : Nat) : Int) := by unfold wrap64; omega
    have hc : (r : Int) * 10 = ((r * 10 : Nat) : Int) := by omega
    rw [hf, hw, hc, bne_self_false]
    simp only [Bool.false_and, Bool.false_eq_true, if_false, Bool.or_false]
    rw [ih (r * 10) o ex h, pow_succ_split]

/-- The upstream code ignores the extra digits; as long as the product fits an int64 the
    scaling is exact and no overflow is flagged. -/
theorem mulLoop_current_exact : ∀ (k r : Nat) (o : Bool) (ex : List UInt8),
    r * 10 ^ k ≤ 9223372036854775807 →
    mulLoop Variant.old k (r : Int) ex o = some (((r * 10 ^ k : Nat) : Int), o) := by
  intro k r o ex h
  rw [mulLoop_eq_naive]; exact mulLoopNaive_current_exact k r o ex h

/-! ### D. the fixed variants -/

/-- The exact value after `i` iterations of the scaling loop that picks up the extra digits
    `ds`: the first `min i |ds|` digits are appended to `r0`, afterwards zeros. -/
def stepVal (r0 : Nat) (ds : List Nat) (i : Nat) : Nat :=
  valFrom r0 (ds.take i) * 10 ^ (i - ds.length)

theorem stepVal_zero (r0 : Nat) (ds : List Nat) : stepVal r0 ds 0 = r0 := by simp [stepVal]

theorem stepVal_nil (r0 i : Nat) : stepVal r0 [] i = r0 * 10 ^ i := by simp [stepVal]

theorem stepVal_cons_succ (r0 d : Nat) (ds : List Nat) (i : Nat) :
    stepVal r0 (d :: ds) (i + 1) = stepVal (r0 * 10 + d) ds i := by
  simp [stepVal]

theorem stepVal_nil_succ (r0 i : Nat) : stepVal r0 [] (i + 1) = stepVal (r0 * 10) [] i := by
  rw [stepVal_nil, stepVal_nil, pow_succ_split]

theorem le_stepVal (r0 : Nat) (ds : List Nat) (i : Nat) : r0 ≤ stepVal r0 ds i :=
  Nat.le_trans (valFrom_ge _ _) (le_mul_pow _ _)

/-- one iteration: times ten plus the next extra digit (0 when they are used up) -/
theorem stepVal_succ (ds : List Nat) : ∀ (r0 i : Nat),
    stepVal r0 ds (i + 1) = stepVal r0 ds i * 10 + ds.getD i 0 := by
  induction ds with
  | nil => intro r0 i; simp [stepVal_nil, Nat.pow_succ, Nat.mul_assoc]
  | cons d ds ih =>
    intro r0 i
    cases i with
    | zero => simp [stepVal_cons_succ, stepVal_zero]
    | succ i => rw [stepVal_cons_succ, stepVal_cons_succ, ih]; simp

theorem stepVal_mono_succ (r0 : Nat) (ds : List Nat) (i : Nat) :
    stepVal r0 ds i ≤ stepVal r0 ds (i + 1) := by
  rw [stepVal_succ]; omega

theorem stepVal_mono (r0 : Nat) (ds : List Nat) {i j : Nat} (h : i ≤ j) :
    stepVal r0 ds i ≤ stepVal r0 ds j := by
  induction j with
  | zero => have : i = 0 := by omega
            subst this; exact Nat.le_refl _
  | succ j ih =>
    by_cases hij : i = j + 1
    · subst hij; exact Nat.le_refl _
    · exact Nat.le_trans (ih (by omega)) (stepVal_mono_succ r0 ds j)

private theorem spec_glue (k r0 r1 : Nat) (ds ds' : List Nat) (o : Bool)
    (hpeel : ∀ i, stepVal r0 ds (i + 1) = stepVal r1 ds' i) (hr : ¬ r0 ≥ 21474836490) :
    (if k = 0 then some ((r1 : Int), o)
      else if stepVal r1 ds' (k - 1) ≥ 21474836490 then none
      else some (((stepVal r1 ds' k : Nat) : Int), o)) =
    (if stepVal r0 ds k ≥ 21474836490 then none
      else some (((stepVal r0 ds (k + 1) : Nat) : Int), o)) := by
  cases k with
  | zero => simp [stepVal_zero, hr, hpeel]
  | succ k => simp [hpeel]

theorem mulLoopNaive_fixed_spec : ∀ (k r0 : Nat) (ds : List Nat) (o : Bool), AllDigits ds →
    mulLoopNaive Variant.fixed k (r0 : Int) (digitsStr ds) o =
      if k = 0 then some ((r0 : Int), o)
      else if stepVal r0 ds (k - 1) ≥ 21474836490 then none
      else some (((stepVal r0 ds k : Nat) : Int), o) := by
  intro k
  induction k with
  | zero => intro r0 ds o _; simp [mulLoopNaive]
  | succ k ih =>
    intro r0 ds o hd
    have hf : Variant.fixed.fixOvf = true := rfl
    simp only [Nat.succ_ne_zero, if_false, Nat.add_sub_cancel]
    by_cases hr : r0 ≥ 21474836490
    · have hs : stepVal r0 ds k ≥ 21474836490 := Nat.le_trans hr (le_stepVal r0 ds k)
      have hlim : decide ((r0 : Int) ≥ mulLimit) = true :=
        decide_eq_true (by simp only [mulLimit]; omega)
      rw [if_pos hs]
      cases ds with
      | nil =>
        rw [digitsStr_nil, mulLoopNaive_succ_plain _ k _ [] o (Or.inr rfl), hf, hlim]; rfl
      | cons d ds =>
        rw [digitsStr_cons, mulLoopNaive_succ_digit _ rfl, hf, hlim]; rfl
    · have hlim : decide ((r0 : Int) ≥ mulLimit) = false :=
        decide_eq_false (by simp only [mulLimit]; omega)
      cases ds with
      | nil =>
        have hw : wrap64 ((r0 : Int) * 10) = ((r0 * 10 : Nat) : Int) := by unfold wrap64; omega
        have hc : (r0 : Int) * 10 = ((r0 * 10 : Nat) : Int) := by omega
        rw [digitsStr_nil, mulLoopNaive_succ_plain _ k _ [] o (Or.inr rfl), hf, hlim, hw, hc,
          bne_self_false]
        simp only [Bool.and_false, Bool.false_eq_true, if_false, Bool.or_false]
        have := ih (r0 * 10) [] o hd
        rw [digitsStr_nil] at this
        rw [this]
        exact spec_glue k r0 (r0 * 10) [] [] o (stepVal_nil_succ r0) hr
      | cons d ds =>
        obtain ⟨hd10, hds⟩ := allDigits_cons hd
        have hw : wrap64 ((r0 : Int) * 10 + ((d : Nat) : Int)) = ((r0 * 10 + d : Nat) : Int) := by
          unfold wrap64; omega
        have hc : (r0 : Int) * 10 + ((d : Nat) : Int) = ((r0 * 10 + d : Nat) : Int) := by omega
        rw [digitsStr_cons, mulLoopNaive_succ_digit _ rfl, hf, hlim, digitVal_digitChar hd10, hw,
          hc, bne_self_false]
        simp only [Bool.and_false, Bool.false_eq_true, if_false, Bool.or_false]
        rw [ih (r0 * 10 + d) ds o hds]
        exact spec_glue k r0 (r0 * 10 + d) (d :: ds) ds o (stepVal_cons_succ r0 d ds) hr

/-- The fixed variant with extra digits `ds`: rejects iff the value checked before the last
    multiplication is at or above `mulLimit` (by `stepVal_mono` this is the largest value
    checked), otherwise returns the exact value with no overflow flagged. -/
theorem mulLoop_fixed_spec : ∀ (k r0 : Nat) (ds : List Nat) (o : Bool), AllDigits ds →
    mulLoop Variant.fixed k (r0 : Int) (digitsStr ds) o =
      if k = 0 then some ((r0 : Int), o)
      else if stepVal r0 ds (k - 1) ≥ 21474836490 then none
      else some (((stepVal r0 ds k : Nat) : Int), o) := by
  intro k r0 ds o hd
  rw [mulLoop_eq_naive]; exact mulLoopNaive_fixed_spec k r0 ds o hd

theorem mulLoopNaive_fixedOvf_spec : ∀ (k r0 : Nat) (ex : List UInt8) (o : Bool),
    mulLoopNaive Variant.fixedOvf k (r0 : Int) ex o =
      if k = 0 then some ((r0 : Int), o)
      else if stepVal r0 [] (k - 1) ≥ 21474836490 then none
      else some (((stepVal r0 [] k : Nat) : Int), o) := by
  intro k
  induction k with
  | zero => intro r0 ex o; simp [mulLoopNaive]
  | succ k ih =>
    intro r0 ex o
    have hf : Variant.fixedOvf.fixOvf = true := rfl
    simp only [Nat.succ_ne_zero, if_false, Nat.add_sub_cancel]
    rw [mulLoopNaive_succ_plain _ k _ ex o (Or.inl rfl), hf]
    by_cases hr : r0 ≥ 21474836490
    · have hs : stepVal r0 [] k ≥ 21474836490 := Nat.le_trans hr (le_stepVal r0 [] k)
      have hlim : decide ((r0 : Int) ≥ mulLimit) = true :=
        decide_eq_true (by simp only [mulLimit]; omega)
      rw [if_pos hs, hlim]; rfl
    · have hlim : decide ((r0 : Int) ≥ mulLimit) = false :=
        decide_eq_false (by simp only [mulLimit]; omega)
      have hw : wrap64 ((r0 : Int) * 10) = ((r0 * 10 : Nat) : Int) := by unfold wrap64; omega
      have hc : (r0 : Int) * 10 = ((r0 * 10 : Nat) : Int) := by omega
      rw [hlim, hw, hc, bne_self_false]
      simp only [Bool.and_false, Bool.false_eq_true, if_false, Bool.or_false]
      rw [ih (r0 * 10) ex o]
      exact spec_glue k r0 (r0 * 10) [] [] o (stepVal_nil_succ r0) hr

/-- The `fixOvf`-only variant (extra digits ignored, whatever `ex` is): `stepVal r0 [] i` is
    `r0 * 10 ^ i` (`stepVal_nil`). -/
theorem mulLoop_fixedOvf_spec : ∀ (k r0 : Nat) (ex : List UInt8) (o : Bool),
    mulLoop Variant.fixedOvf k (r0 : Int) ex o =
      if k = 0 then some ((r0 : Int), o)
      else if stepVal r0 [] (k - 1) ≥ 21474836490 then none
      else some (((stepVal r0 [] k : Nat) : Int), o) := by
  intro k r0 ex o
  rw [mulLoop_eq_naive]; exact mulLoopNaive_fixedOvf_spec k r0 ex o

/-! ### the upstream loop in general: the product modulo 2^64 -/

theorem mulLoopNaive_current_wrap : ∀ (k : Nat) (r : Int) (o : Bool) (ex : List UInt8),
    ∃ o', mulLoopNaive Variant.old k r ex o =
      some (if k = 0 then r else wrap64 (r * 10 ^ k), o') := by
  intro k
  induction k with
  | zero => intro r o ex; exact ⟨o, rfl⟩
  | succ k ih =>
    intro r o ex
    have hf : Variant.old.fixOvf = false := rfl
    rw [mulLoopNaive_succ_plain _ k r ex o (Or.inl rfl), hf]
    simp only [Bool.false_and, Bool.false_eq_true, if_false, Nat.succ_ne_zero]
    obtain ⟨o', h⟩ := ih (wrap64 (r * 10)) (o || wrap64 (r * 10) != r * 10) ex
    refine ⟨o', ?_⟩
    rw [h]
    cases k with
    | zero => simp
    | succ k =>
      simp only [Nat.succ_ne_zero, if_false]
      rw [wrap64_mul_left, Int.mul_assoc, Int.pow_succ _ (k + 1), Int.mul_comm 10]

/-- What the compiled upstream code computes for any int64 `r`: `r * 10 ^ k` modulo 2^64
    (for `k > 0` also without the range hypothesis: `mulLoopNaive_current_wrap`). -/
theorem mulLoop_current_wrap : ∀ (k : Nat) (r : Int) (o : Bool) (ex : List UInt8),
    int64Min ≤ r → r ≤ int64Max →
    ∃ o', mulLoop Variant.old k r ex o = some (wrap64 (r * 10 ^ k), o') := by
  intro k r o ex h1 h2
  obtain ⟨o', h⟩ := mulLoopNaive_current_wrap k r o ex
  refine ⟨o', ?_⟩
  rw [mulLoop_eq_naive, h]
  cases k with
  | zero => simp [wrap64_id h1 h2]
  | succ k => simp

/-- without the range hypothesis, for at least one iteration -/
theorem mulLoop_current_wrap_pos : ∀ (k : Nat) (r : Int) (o : Bool) (ex : List UInt8),
    0 < k → ∃ o', mulLoop Variant.old k r ex o = some (wrap64 (r * 10 ^ k), o') := by
  intro k r o ex hk
  obtain ⟨o', h⟩ := mulLoopNaive_current_wrap k r o ex
  refine ⟨o', ?_⟩
  rw [mulLoop_eq_naive, h, if_neg (by omega)]

end Osmium.Conv
