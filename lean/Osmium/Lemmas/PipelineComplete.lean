/-
Complete reads (C05 exactly-once corollary, C07 first-error clause): when read() has returned
the end-of-data marker it popped from the osmdata queue, everything was delivered and no stage
had failed.  Top-level module of the PipelineComplete*/PipelineShapeOut* files.

Parts (each file checks in < 90 s):
  PipelineCompleteBase   closed forms, `pc_cases`, statements of all invariants
  PipelineCompleteA/B    `Complete.invA` (buffer values), `Complete.invB` (status / back buffers)
  PipelineCompleteN1-4,N `Complete.invN` (future ids)
  PipelineShapeOutJ      `Complete.invJ` (only the consumer shuts the osmdata queue down)
  PipelineShapeOutD1,D   `Complete.invD` (consumer discipline: read() stops at exc / eod; holds the last popped)
  PipelineShapeOutF      `Complete.fifo_out`, `Complete.called_eq_popped` (FIFO of the osmdata queue)
  PipelineShapeOutZ      `Complete.invZ` (every fault is on its way as an exception value)
  PipelineShapeOutO1     `Complete.invO1` (continuations of the parser's pushes)
  PipelineShapeOutO2     transfer lemmas L1/L2/L5 for `InvO2`
  PipelineShapeOutO3,O   `Complete.invO2`, `Complete.invO` (shape of what the parser hands to push() of the
                         osmdata queue: the end marker is the LAST call, preceded by an exception or a clean end)
  PipelineShapeOutE      `Complete.at_eod`, `Complete.delivered_at_eod`, `Complete.no_fault_at_eod`
  PipelineShapeOutT      `Complete.invT1`, `Complete.invT2` (transport to all later states)

`complete_read` and `eod_means_no_fault` are proved without further hypotheses; the older `_partial`
forms are kept for dependants.
-/
import Osmium.Lemmas.PipelineShapeOutT

set_option linter.unusedSimpArgs false
set_option linter.unusedVariables false

namespace Osmium.Pipeline
open Osmium.Mon
variable {α : Type} [DecidableEq α]

namespace Complete
/-- an exception raised on the reader side is on its way to the parser (= `InExc`) -/
def EvR (s : State α) : Prop := InExc s
end Complete

/-- C05 `read_after_eof_fails`: once the status is eof (or error, or closed) and no back buffers
    are left, read() fails with io_error and delivers nothing. -/
theorem read_fails_when_not_okay (c : Cfg α) (s s' : State α) (hst : (machine c).Step s .cRead s')
    (hs : s.status ≠ .okay) (hb : s.back = []) : s'.cpc = .ret .ioError ∧ s'.delivered = s.delivered := by
  simp only [Machine.Step, machine, step?, hb] at hst
  split at hst
  · simp only [hs, ne_eq, not_false_eq_true, if_true, Option.some.injEq] at hst
    subst hst
    exact ⟨rfl, rfl⟩
  · simp at hst

/-- after the end marker was returned the status is eof and there are no back buffers, for ever
    (until the Reader is closed: then the status is closed, reads still fail) -/
theorem after_eod (c : Cfg α) (wf : c.WF) (s : State α) (h : (machine c).Reachable s) (hd : s.sawEod = true) :
    s.status ≠ .okay ∧ s.back = [] :=
  have := (Complete.invB c s h).b_saw hd
  ⟨this.1, this.2.1⟩

/-- a complete read is impossible with an empty entity mask (read() returns eof without popping) -/
theorem eod_means_something_wanted (c : Cfg α) (s : State α) (h : (machine c).Reachable s)
    (hd : s.sawEod = true) : c.nothing = false :=
  ((Complete.invB c s h).b_saw hd).2.2

/-- C05 `exactly_once_in_order`: a complete read (read() has returned the end marker it popped from the
    osmdata queue) has delivered exactly `deliver c`, in order, each object once.
    (`hb`: a blob whose decoding throws in a pool worker is needed by `parser_side`; with such a fault a
    complete read is impossible anyway, see `eod_means_no_fault`.) -/
theorem complete_read (c : Cfg α) (wf : c.WF) (hb : c.blobFault = none) (s : State α)
    (h : (machine c).Reachable s) (hd : s.sawEod = true) : s.delivered = deliver c ∧ s.back = [] :=
  ⟨Complete.invT2 c wf hb s h (.inr (.inr hd)), (after_eod c wf s h hd).2⟩

/-- C07 `first_error_reported` (order part): a complete read means no stage has raised an exception. -/
theorem eod_means_no_fault (c : Cfg α) (wf : c.WF) (s : State α) (h : (machine c).Reachable s)
    (hd : s.sawEod = true) : s.faulted = false :=
  (Complete.invT1 c wf s h (.inr (.inr hd))).1

/-- `complete_read` at the moment read() unpacks the end marker, from `Complete.InvO c s` (now proved:
    `Complete.invO`); kept for dependants. -/
theorem complete_read_at_eod_partial (c : Cfg α) (wf : c.WF) (hb : c.blobFault = none) (s : State α)
    (h : (machine c).Reachable s) (hO : Complete.InvO c s) (id : Nat) (hc : s.cpc = .readGot id)
    (hf : s.fut id = some .eod) : s.delivered = deliver c ∧ s.back = [] :=
  ⟨Complete.delivered_at_eod c wf hb s h hO id hc hf, (Complete.at_eod c wf s h hO id hc hf).2.2.2.2.2.1⟩

/-- `eod_means_no_fault` at the moment read() unpacks the end marker; kept for dependants. -/
theorem eod_means_no_fault_at_eod_partial (c : Cfg α) (wf : c.WF) (s : State α)
    (h : (machine c).Reachable s) (hO : Complete.InvO c s) (id : Nat) (hc : s.cpc = .readGot id)
    (hf : s.fut id = some .eod) : s.faulted = false :=
  Complete.no_fault_at_eod c wf s h hO id hc hf

/-- older PARTIAL form of `eod_means_no_fault` (superseded; kept for Props/C07). -/
theorem eod_means_no_fault_partial (c : Cfg α) (wf : c.WF) (s : State α) (h : (machine c).Reachable s)
    (hd : s.sawEod = true)
    (hz : s.faulted = true → Complete.EvR s ∨ Complete.EvP s)
    (hg : s.sawEod = true → ¬ Complete.EvR s ∧ ¬ Complete.EvP s) : s.faulted = false := by
  cases hf : s.faulted with
  | false => rfl
  | true =>
    rcases hz hf with h1 | h1
    · exact absurd h1 (hg hd).1
    · exact absurd h1 (hg hd).2

/-- older PARTIAL form of `complete_read` (superseded; kept for dependants). -/
theorem complete_read_partial (c : Cfg α) (wf : c.WF) (hb : c.blobFault = none) (s : State α)
    (h : (machine c).Reachable s) (hd : s.sawEod = true)
    (hq : s.outq.called = s.outq.popped.map (fun p => p.2)) (hp : pend s = []) (hu : upstream c s = []) :
    s.delivered = deliver c ∧ s.back = [] := by
  have hB := Complete.invB c s h
  obtain ⟨hst, hbk, _⟩ := hB.b_saw hd
  have hhold : holding s = [] := by
    unfold holding
    split
    · rename_i id hc
      exact absurd (hB.b_R (by rw [hc]; trivial)).2.1 hst
    · rfl
  have h1 := parser_side c hb s h
  have h2 := consumer_side c s h
  rw [hq, hp, hu, ← h2, hbk, hhold] at h1
  exact ⟨by simpa using h1, hbk⟩

end Osmium.Pipeline
