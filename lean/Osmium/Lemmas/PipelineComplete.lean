/-
Complete reads (C05 exactly-once corollary, C07 first-error clause): when read() has returned
the end-of-data marker it popped from the osmdata queue, everything was delivered and no stage
had failed.

Status of this file (no `sorry`):
* proved outright: `read_fails_when_not_okay`, `after_eod`, and the invariants `Complete.invA` (all buffer
  values are well-formed: nested levels non-empty), `Complete.invB` (consumer discipline: inside read() the
  back buffers are empty and the status is okay; after the end marker the status is never okay again),
  `Complete.invN` (future ids: even/odd id classes, freshness, `fut id = some v → v = want id`).
* `eod_means_no_fault_partial`, `complete_read_partial`: proved from explicitly stated missing invariants
  (see the comments at the theorems).
-/
import Osmium.Lemmas.PipelineOrder0

set_option linter.unusedSimpArgs false
set_option linter.unusedVariables false


namespace Osmium.Pipeline
open Osmium.Mon
variable {α : Type} [DecidableEq α]

namespace Complete

def apBack (s : State α) (lv : List (List α)) : List (List α) := if lv.length ≤ 1 then s.back else lv.tail
def apCpc (lv : List (List α)) : CPc α := if (lv.headD []).isEmpty then .readPop else .ret (.data (lv.headD []))

omit [DecidableEq α] in
theorem cx_afterPop (s : State α) (lv : List (List α)) :
    afterPop s lv = { s with back := apBack s lv, cpc := apCpc lv, delivered := s.delivered ++ lv.headD [] } := by
  unfold afterPop apBack apCpc
  split <;> (try split) <;> simp_all
  all_goals (rename_i h; cases ‹List (List α)› <;> simp_all)

def acStatus (s : State α) : CK → Status
  | .rethrow _ => .error
  | _ => s.status
def acCpc : CK → CPc α
  | .ret => .ret .ok
  | .rethrow c => .ret (.exc c)
  | .dtor => .dtorJoinP

omit [DecidableEq α] in
theorem cx_afterClose (s : State α) (k : CK) :
    afterClose s k = { s with readsAtClose := s.readsAtClose.or (some s.reads), status := acStatus s k, cpc := acCpc k } := by
  cases k <;> rfl

syntax "pc_cases " ident " with " ident : tactic
macro_rules
  | `(tactic| pc_cases $e:ident with $h:ident) => `(tactic|
      ((try simp only [Machine.Step, machine] at $h:ident)
       cases $e:ident <;> (try (rename_i qe; cases qe)) <;>
         simp only [step?] at $h:ident <;> (repeat' split at $h:ident) <;>
         simp only [Option.map_eq_some_iff, Option.some.injEq, reduceCtorEq, false_and, exists_false] at $h:ident <;>
         first
           | (obtain ⟨q, hq, $h:ident⟩ := $h:ident
              simp only [QueueSM.step?] at hq
              (repeat' split at hq) <;> simp only [Option.some.injEq, reduceCtorEq] at hq <;> subst hq <;>
              (repeat' split at $h:ident) <;> subst $h:ident)
           | (subst $h:ident; try simp only [cx_afterPop, cx_afterClose])))

omit [DecidableEq α] in
theorem wf_snoc (l : List (List α)) (x : List α) (h : ∀ y ∈ l, y ≠ []) : wfLevels (l ++ [x]) = true := by
  induction l with
  | nil => rfl
  | cons a l ih =>
    have := ih (fun y hy => h y (List.mem_cons_of_mem _ hy))
    cases l with
    | nil => simp_all [wfLevels]
    | cons b l => simp_all [wfLevels]

/-- values of a thread pc -/
def rVal : RPc α → Option (Val α)
  | .push v _ | .pushing _ v _ | .pushed _ v _ => some v
  | _ => none
def pVal : PPc α → Option (Val α)
  | .push v _ | .pushing _ (some v) _ | .pushed _ v _ => some v
  | _ => none

def okVal : Val α → Prop
  | .buf lv => wfLevels lv = true
  | _ => True

structure InvA (s : State α) : Prop where
  nested_ne : ∀ l ∈ s.nested, l ≠ []
  cur_ne : s.nested ≠ [] → s.cur ≠ []
  want_ok : ∀ id, okVal (s.want id)
  fut_ok : ∀ id v, s.fut id = some v → okVal v
  p_ok : ∀ v, pVal s.ppc = some v → okVal v
  r_ok : ∀ v, rVal s.rpc = some v → okVal v

set_option maxHeartbeats 1600000 in
theorem invA (c : Cfg α) : ∀ s, (machine c).Reachable s → InvA s := by
  apply Machine.invariant
  · constructor <;> simp [machine, init, okVal, pVal, rVal]
  · intro s e s' _ ih hst
    obtain ⟨h1, h2, h3, h4, h5, h6⟩ := ih
    pc_cases e with hst
    all_goals (refine ⟨?_, ?_, ?_, ?_, ?_, ?_⟩ <;> first
      | assumption
      | (simp_all [pVal, rVal, okVal, setPc_apply, pCont, rCont]; done)
      | (intro id; simp only [setPc_apply]; split <;> simp_all [okVal]; done)
      | (intro id v; simp only [setPc_apply]; split <;> simp_all [okVal, pVal, rVal]; done)
      | (simp_all [pVal, rVal, okVal, setPc_apply, pCont, rCont] <;> grind [wf_snoc, okVal])
      | (simp_all [pVal, okVal, wfLevels]; done))


omit [DecidableEq α] in
theorem wf_head (lv : List (List α)) (h : wfLevels lv = true) (he : (lv.headD []).isEmpty = true) : lv.length ≤ 1 := by
  match lv with
  | [] => simp
  | [_] => simp
  | a :: b :: r => simp_all [wfLevels]

def inR : CPc α → Prop
  | .readPop | .readWaitPop | .readGot _ | .eodSd | .eodSdRun => True
  | _ => False

def inClose : CPc α → Prop
  | .closeSd _ | .closeSdRun _ | .closeJoin _ | .dtorJoinP | .dtorSd | .dtorSdRun | .dead | .eofJoin => True
  | _ => False

structure InvB (c : Cfg α) (s : State α) : Prop where
  b_R : inR s.cpc → s.back = [] ∧ s.status = .okay ∧ c.nothing = false
  b_saw : s.sawEod = true → s.status ≠ .okay ∧ s.back = [] ∧ c.nothing = false
  b_close : inClose s.cpc → s.status ≠ .okay

set_option maxHeartbeats 1600000 in
theorem invB (c : Cfg α) : ∀ s, (machine c).Reachable s → InvB c s := by
  apply Machine.invariant
  · constructor <;> simp [machine, init, inR, inClose]
  · intro s e s' hr ih hst
    have hA := (invA c s hr).fut_ok
    obtain ⟨h1, h2, h3⟩ := ih
    pc_cases e with hst
    all_goals (refine ⟨?_, ?_, ?_⟩ <;> first
      | assumption
      | (simp_all [inR, inClose, apCpc, apBack, acStatus, acCpc]; done)
      | (simp_all [inR, inClose, apCpc, apBack, acStatus, acCpc] <;> grind [wf_head, okVal])
      | skip)

structure InvN (s : State α) : Prop where
  n_rpc : ∀ id v k, s.rpc = .pushing id v k ∨ s.rpc = .pushed id v k → id % 2 = 0 ∧ id < 2 * s.nIn ∧ s.want id = v
  n_ppc : ∀ id v k, s.ppc = .pushing id (some v) k ∨ s.ppc = .pushed id v k → id % 2 = 1 ∧ id < 2 * s.nOut ∧ s.want id = v
  n_ppcf : ∀ id k, s.ppc = .pushFut id k ∨ s.ppc = .pushing id none k → id % 2 = 1 ∧ id < 2 * s.nOut
  n_fut : ∀ id v, s.fut id = some v → v = s.want id ∧ (id % 2 = 0 → id < 2 * s.nIn) ∧ (id % 2 = 1 → id < 2 * s.nOut)
  n_work : ∀ id, id ∈ s.work → id % 2 = 1 ∧ id < 2 * s.nOut
  n_wpc : ∀ w id, s.wpc w = some id → id % 2 = 1 ∧ id < 2 * s.nOut
  n_oc : ∀ y ∈ s.outq.called, y.2 % 2 = 1 ∧ y.2 < 2 * s.nOut
  n_ic : ∀ y ∈ s.inq.called, y.2 % 2 = 0 ∧ y.2 < 2 * s.nIn
  n_pin : ∀ id ov k, s.ppc = .pushing id ov k → ∃ y ∈ s.outq.called, y.2 = id
  n_pin2 : ∀ id v k, s.ppc = .pushed id v k → ∃ y ∈ s.outq.called, y.2 = id

set_option maxHeartbeats 3200000 in
theorem invN (c : Cfg α) : ∀ s, (machine c).Reachable s → InvN s := by
  apply Machine.invariant
  · constructor <;> simp [machine, init, QueueSM.init]
  · intro s e s' hr ih hst
    obtain ⟨h1, h2, h3, h4, h5, h6, h7, h8, h9, h10⟩ := ih
    pc_cases e with hst
    all_goals (refine ⟨?_, ?_, ?_, ?_, ?_, ?_, ?_, ?_, ?_, ?_⟩ <;> first
      | assumption
      | (simp only [QueueSM.take_called]; assumption)
      | (simp_all [setPc_apply, pCont, rCont]; done)
      | (simp only [setPc_apply, QueueSM.take_called, pCont, rCont]; grind)
      | skip)


def isExc : Val α → Prop
  | .exc _ => True
  | _ => False

/-- an exception raised on the reader side is on its way to the parser -/
def EvR (s : State α) : Prop :=
  (∃ v, rVal s.rpc = some v ∧ isExc v) ∨ ∃ y ∈ s.inq.called, isExc (s.want y.2)

/-- an exception is on its way from the parser to the consumer -/
def EvP (s : State α) : Prop :=
  (∃ code, s.ppc = .caught code) ∨ (∃ v, pVal s.ppc = some v ∧ isExc v) ∨
  (∃ id k, s.ppc = .pushFut id k ∧ isExc (s.want id)) ∨ ∃ y ∈ s.outq.called, isExc (s.want y.2)

structure InvZ (s : State α) : Prop where
  z_rin : ∀ id v k, s.rpc = .pushing id v k ∨ s.rpc = .pushed id v k → ∃ y ∈ s.inq.called, y.2 = id
  z : s.faulted = true → EvR s ∨ EvP s


end Complete

/-- C05 `read_after_eof_fails`: once the status is eof (or error, or closed) and no back buffers
    are left, read() fails with io_error and delivers nothing. -/
theorem read_fails_when_not_okay (c : Cfg α) (s s' : State α) (hst : (machine c).Step s .cRead s')
    (hs : s.status ≠ .okay) (hb : s.back = []) : s'.cpc = .ret .ioError ∧ s'.delivered = s.delivered := by
  simp only [Machine.Step, machine, step?, hb] at hst
  split at hst
  · simp only [hs, ne_eq, not_false_eq_true, if_true, Option.some.injEq] at hst
    subst hst
    exact ⟨rfl, rfl⟩
  · simp at hst

/-- after the end marker was returned the status is eof and there are no back buffers, for ever
    (until the Reader is closed: then the status is closed, reads still fail) -/
theorem after_eod (c : Cfg α) (wf : c.WF) (s : State α) (h : (machine c).Reachable s) (hd : s.sawEod = true) :
    s.status ≠ .okay ∧ s.back = [] :=
  have := (Complete.invB c s h).b_saw hd
  ⟨this.1, this.2.1⟩

/-- a complete read is impossible with an empty entity mask (read() returns eof without popping) -/
theorem eod_means_something_wanted (c : Cfg α) (s : State α) (h : (machine c).Reachable s)
    (hd : s.sawEod = true) : c.nothing = false :=
  ((Complete.invB c s h).b_saw hd).2.2

/-- C07 `first_error_reported` (order part), PARTIAL.
    MISSING INVARIANT (hypothesis `hg`): "when the consumer has the end marker no exception is on its way":
      `s.sawEod = true → ¬ Complete.EvR s ∧ ¬ Complete.EvP s`
    where `EvR` = the read thread is pushing an exception or a future with an exception was handed to
    push() of the input queue, `EvP` = the parser is in its catch block / is pushing an exception / a
    future with an exception was handed to push() of the osmdata queue.  Proof route (not finished):
    FIFO of both queues while in use (`called = popped ++ items ++ inflight`), the shape of what each
    producer pushes (data*, then [exc, eod] or [eod]; the end marker is the LAST call), consumer
    discipline (status okay ⇒ every popped future was a buffer), parser discipline (running ⇒ every
    popped input future was a chunk or the clean end marker). Also missing (hypothesis `hz`): fault tracking `s.faulted = true → EvR s ∨ EvP s`. -/
theorem eod_means_no_fault_partial (c : Cfg α) (wf : c.WF) (s : State α) (h : (machine c).Reachable s)
    (hd : s.sawEod = true)
    (hz : s.faulted = true → Complete.EvR s ∨ Complete.EvP s)
    (hg : s.sawEod = true → ¬ Complete.EvR s ∧ ¬ Complete.EvP s) : s.faulted = false := by
  cases hf : s.faulted with
  | false => rfl
  | true =>
    rcases hz hf with h1 | h1
    · exact absurd h1 (hg hd).1
    · exact absurd h1 (hg hd).2

/-- C05 `exactly_once_in_order`, PARTIAL (added hypothesis `hb : c.blobFault = none`, needed by `parser_side`).
    MISSING INVARIANT (hypotheses `hq hp hu`): when the consumer has the end marker
    (i) every future handed to push() of the osmdata queue was popped (`called = popped`: FIFO + the end
    marker is the last call), (ii) the parser is past its last push (`pend s = []`), (iii) the parser had
    used all its input: `upstream c s = []` (clean end ⇒ `cur = []`, hence `nested = []` by
    `Complete.invA`, and `next = avail = c.file.length` because the read thread delivered all chunks:
    `stop = false` while the status is okay, `wf.chunk_last`). -/
theorem complete_read_partial (c : Cfg α) (wf : c.WF) (hb : c.blobFault = none) (s : State α)
    (h : (machine c).Reachable s) (hd : s.sawEod = true)
    (hq : s.outq.called = s.outq.popped.map (fun p => p.2)) (hp : pend s = []) (hu : upstream c s = []) :
    s.delivered = deliver c ∧ s.back = [] := by
  have hB := Complete.invB c s h
  obtain ⟨hst, hbk, _⟩ := hB.b_saw hd
  have hhold : holding s = [] := by
    unfold holding
    split
    · rename_i id hc
      exact absurd (hB.b_R (by rw [hc]; trivial)).2.1 hst
    · rfl
  have h1 := parser_side c hb s h
  have h2 := consumer_side c s h
  rw [hq, hp, hu, ← h2, hbk, hhold] at h1
  exact ⟨by simpa using h1, hbk⟩

end Osmium.Pipeline
