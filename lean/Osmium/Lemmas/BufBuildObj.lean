/-
C04 built_content, part 5: a whole sub-builder block, all blocks of an object, the object.
-/
import Osmium.Lemmas.BufBuildRun

namespace Osmium.Buf

open Osmium.Layout
open Osmium.HostileLayout (tagBytes tagsBody nodeRefBytes nodesBody memberBytes membersBody commentBytes
  commentsBodyRaw finishLast commentsBody subBytes subsBytes padTo SubS CommentS ObjS OKind subScript)

/-- every `add_comment` except the last one of a discussion block is followed by `add_comment_text`
    (otherwise the next `add_comment` hits `assert(is_aligned())` / starts a comment at an unaligned
    address) -/
def lastPendingOnly : List CommentS → Bool
  | [] => true
  | [_] => true
  | c :: d :: r => c.text.isSome && lastPendingOnly (d :: r)

/-- what a block must satisfy so that `subScript` drives the builders the way `subBytes` describes -/
def SubOK : SubS → Prop
  | .nodes t _ => t = tyWayNodeList ∨ t = tyOuterRing ∨ t = tyInnerRing
  | .discussion cs => lastPendingOnly cs = true
  | _ => True

theorem ps_open_list (fill : UInt8) (aux : Bytes) (av : Bool) (ty osz : Nat) (A : Bytes) (lk k : Kind)
    (hlk : lk.isObj = false) (hal : A.length % 8 = 0) :
    pStep fill aux av (P1 ty osz A, [(0, k, none)]) (.open lk) =
      some (P2 ty (osz + 8) A lk.ty 8 [], st2 A lk none k) := by
  have hp : (8 + A.length) % 8 = 0 := by omega
  simp only [pStep, aSig, List.map_cons, List.map_nil, plan, hlk, Bool.false_eq_true, false_and, ↓reduceIte, P1_len, hp,
    ne_eq, not_true_eq_false, pm_listCtor fill ty osz A lk k hlk, aAfter, Option.map_some, st2]

theorem commentBytes_some_len (fill : UInt8) (c : CommentS) (t : Bytes) (ht : c.text = some t) :
    (commentBytes fill c).length % 8 = 0 := by
  simp only [commentBytes, ht, List.length_append, List.length_cons, List.length_nil, leBytes_len,
    Osmium.HostileLayout.zeros, List.length_replicate]
  have := padTo_mod (16 + (c.user.length + 1) + (t.length + 1))
  omega

theorem comment_eta (c : CommentS) (t : Bytes) (ht : c.text = some t) : ({ c with text := some t } : CommentS) = c := by
  cases c; simp only at ht; subst ht; rfl

theorem commentsBodyRaw_cons (fill : UInt8) (c : CommentS) (r : List CommentS) :
    commentsBodyRaw fill (c :: r) = commentBytes fill c ++ commentsBodyRaw fill r := by simp [commentsBodyRaw]

/-- the builder calls of the comments of one discussion block -/
def commentOps (cs : List CommentS) : List Op :=
  (cs.map fun c => [Op.comment c.date c.uid c.user] ++
    (match c.text with | some t => [Op.commentText t] | none => [])).flatten

theorem commentOps_cons (c : CommentS) (r : List CommentS) :
    commentOps (c :: r) = ([Op.comment c.date c.uid c.user] ++
      (match c.text with | some t => [Op.commentText t] | none => [])) ++ commentOps r := by
  simp [commentOps]

/-- comments + destructor of the discussion builder -/
theorem pr_comments (fill : UInt8) (aux : Bytes) (av : Bool) (ty : Nat) (A : Bytes) (lty : Nat) (k : Kind) :
    ∀ (cs : List CommentS), lastPendingOnly cs = true → ∀ (osz lsz : Nat) (B : Bytes),
    (A.length + B.length) % 8 = 0 → lsz % 8 = 0 →
    pRun fill aux av (P2 ty osz A lty lsz B, st2 A .disc none k) (commentOps cs ++ [.close]) =
      some (P1 ty (osz + (commentsBody fill cs).length + padOf (lsz + (commentsBody fill cs).length))
              (A ++ (itemHeader (lsz + (commentsBody fill cs).length) lty ++ (B ++ commentsBody fill cs) ++
                zeros (padOf (lsz + (commentsBody fill cs).length)))),
            [(0, k, none)])
  | [], _, osz, lsz, B, _, _ => by
    simp only [commentOps, List.map_nil, List.flatten_nil, List.nil_append, pRun,
      ps_close_list fill aux av ty osz A lty lsz B .disc k rfl]
    simp [commentsBody, finishLast, commentsBodyRaw]
  | [c], _, osz, lsz, B, hal, hl8 => by
    cases ht : c.text with
    | none =>
      simp only [commentOps, List.map_cons, List.map_nil, ht, List.append_nil, List.flatten_cons, List.flatten_nil,
        List.cons_append, List.nil_append, pRun, ps_comment fill aux av ty osz A lty lsz B k hal c,
        ps_close_disc_pending fill aux av ty osz A lty lsz B k hl8 c]
      refine congrArg some (Prod.ext (P1_congr ?_ ?_) rfl) <;>
        simp [commentsBody, finishLast, commentsBodyRaw, ht, Nat.add_assoc]
    | some t =>
      have hc := comment_eta c t ht
      simp only [commentOps, List.map_cons, List.map_nil, ht, List.flatten_cons, List.flatten_nil,
        List.cons_append, List.nil_append, List.append_nil, pRun, ps_comment fill aux av ty osz A lty lsz B k hal c,
        ps_commentText fill aux av ty osz A lty lsz B k hl8 c t, hc,
        ps_close_list fill aux av ty _ A lty _ _ .disc k rfl]
      refine congrArg some (Prod.ext (P1_congr ?_ ?_) rfl) <;>
        simp [commentsBody, finishLast, commentsBodyRaw, ht, Nat.add_assoc]
  | c :: d :: r, hok, osz, lsz, B, hal, hl8 => by
    simp only [lastPendingOnly, Bool.and_eq_true] at hok
    obtain ⟨hs, hrest⟩ := hok
    obtain ⟨t, ht⟩ := Option.isSome_iff_exists.1 hs
    have hc := comment_eta c t ht
    have hlen := commentBytes_some_len fill c t ht
    rw [commentOps_cons, List.append_assoc, pRun_append]
    simp only [ht, List.cons_append, List.nil_append, pRun, ps_comment fill aux av ty osz A lty lsz B k hal c,
      ps_commentText fill aux av ty osz A lty lsz B k hl8 c t, hc, Option.bind_some]
    rw [pr_comments fill aux av ty A lty k (d :: r) hrest _ _ _ (by rw [List.length_append]; omega) (by omega)]
    have hb : commentsBody fill (c :: d :: r) = commentBytes fill c ++ commentsBody fill (d :: r) := by
      simp [commentsBody, finishLast, commentsBodyRaw_cons]
    refine congrArg some (Prod.ext (P1_congr ?_ ?_) rfl) <;>
      simp only [hb, List.length_append, List.append_assoc, Nat.add_assoc]

/-! ### one sub-builder block -/

theorem subBytes_len (fill : UInt8) (s : SubS) :
    (subBytes fill s).length = 8 + (s.body fill).length + padTo (8 + (s.body fill).length) := by
  simp only [subBytes, Osmium.HostileLayout.header, List.length_append, leBytes_len, Osmium.HostileLayout.zeros,
    List.length_replicate]

theorem subBytes_mod (fill : UInt8) (s : SubS) : (subBytes fill s).length % 8 = 0 := by
  rw [subBytes_len]; exact padTo_mod _

theorem header_eq (size ty : Nat) : Osmium.HostileLayout.header size ty = itemHeader size ty := rfl

theorem zeros_eq (n : Nat) : Osmium.HostileLayout.zeros n = zeros n := rfl

/-- open the list builder, its calls, its destructor: exactly `subBytes` is appended to the object and
    added to the object's size -/
theorem pr_sub (fill : UInt8) (aux : Bytes) (av : Bool) (ty osz : Nat) (A : Bytes) (k : Kind) (s : SubS) (hs : SubOK s)
    (hal : A.length % 8 = 0) :
    pRun fill aux av (P1 ty osz A, [(0, k, none)]) (subScript s) =
      some (P1 ty (osz + (subBytes fill s).length) (A ++ subBytes fill s), [(0, k, none)]) := by
  cases s with
  | tags kvs =>
    simp only [subScript, List.append_assoc, List.cons_append, List.nil_append, pRun,
      ps_open_list fill aux av ty osz A .taglist k rfl hal]
    rw [pRun_append, pr_tags]
    simp only [Option.bind_some, pRun, ps_close_list fill aux av ty _ A _ _ _ .taglist k rfl]
    refine congrArg some (Prod.ext (P1_congr ?_ ?_) rfl)
    · rw [subBytes_len, padOf_padTo]; simp only [SubS.body]; omega
    · simp only [subBytes, SubS.body, SubS.ty, header_eq, zeros_eq, padOf_padTo, List.nil_append, Kind.ty]
  | nodes t ns =>
    have hk : ∃ lk, (if t == tyOuterRing then Kind.outer else if t == tyInnerRing then Kind.inner else Kind.wnl) = lk ∧
        nrKind lk ∧ lk.isObj = false ∧ lk.ty = t := by
      rcases hs with rfl | rfl | rfl
      · exact ⟨.wnl, by decide, Or.inl rfl, rfl, rfl⟩
      · exact ⟨.outer, by decide, Or.inr (Or.inl rfl), rfl, rfl⟩
      · exact ⟨.inner, by decide, Or.inr (Or.inr rfl), rfl, rfl⟩
    obtain ⟨lk, hlk, hnr, hno, hty⟩ := hk
    simp only [subScript, hlk, List.append_assoc, List.cons_append, List.nil_append, pRun,
      ps_open_list fill aux av ty osz A lk k hno hal]
    rw [pRun_append, pr_nodes fill aux av ty A _ lk k hnr ns _ _ _ (by simpa using hal)]
    simp only [Option.bind_some, pRun, ps_close_list fill aux av ty _ A _ _ _ lk k hno]
    refine congrArg some (Prod.ext (P1_congr ?_ ?_) rfl)
    · rw [subBytes_len, padOf_padTo]; simp only [SubS.body]; omega
    · simp only [subBytes, SubS.body, SubS.ty, header_eq, zeros_eq, padOf_padTo, List.nil_append, hty]
  | members ms =>
    simp only [subScript, List.append_assoc, List.cons_append, List.nil_append, pRun,
      ps_open_list fill aux av ty osz A .rml k rfl hal]
    rw [pRun_append, pr_members fill aux av ty A _ k ms _ _ _ (by simpa using hal) rfl]
    simp only [Option.bind_some, pRun, ps_close_list fill aux av ty _ A _ _ _ .rml k rfl]
    refine congrArg some (Prod.ext (P1_congr ?_ ?_) rfl)
    · rw [subBytes_len, padOf_padTo]; simp only [SubS.body]; omega
    · simp only [subBytes, SubS.body, SubS.ty, header_eq, zeros_eq, padOf_padTo, List.nil_append, Kind.ty]
  | discussion cs =>
    have hops : subScript (.discussion cs) = Op.open .disc :: (commentOps cs ++ [.close]) := by
      rfl
    rw [hops]
    simp only [pRun, ps_open_list fill aux av ty osz A .disc k rfl hal]
    rw [pr_comments fill aux av ty A _ k cs hs _ _ _ (by simpa using hal) rfl]
    refine congrArg some (Prod.ext (P1_congr ?_ ?_) rfl)
    · rw [subBytes_len, padOf_padTo]; simp only [SubS.body]; omega
    · simp only [subBytes, SubS.body, SubS.ty, header_eq, zeros_eq, padOf_padTo, List.nil_append, Kind.ty]

theorem subsBytes_cons' (fill : UInt8) (s : SubS) (r : List SubS) :
    subsBytes fill (s :: r) = subBytes fill s ++ subsBytes fill r := by simp [subsBytes]

/-- all blocks of the object -/
theorem pr_subs (fill : UInt8) (aux : Bytes) (av : Bool) (ty : Nat) (k : Kind) (ss : List SubS) (hs : ∀ s ∈ ss, SubOK s) :
    ∀ (osz : Nat) (A : Bytes), A.length % 8 = 0 →
    pRun fill aux av (P1 ty osz A, [(0, k, none)]) (ss.map subScript).flatten =
      some (P1 ty (osz + (subsBytes fill ss).length) (A ++ subsBytes fill ss), [(0, k, none)]) := by
  induction ss with
  | nil => intro osz A _; simp [pRun, subsBytes]
  | cons s r ih =>
    intro osz A hal
    simp only [List.map_cons, List.flatten_cons]
    rw [pRun_append, pr_sub fill aux av ty osz A k s (hs s List.mem_cons_self) hal]
    simp only [Option.bind_some]
    have hm := subBytes_mod fill s
    rw [ih (fun s' h' => hs s' (List.mem_cons_of_mem _ h')) _ _ (by rw [List.length_append]; omega)]
    refine congrArg some (Prod.ext (P1_congr ?_ ?_) rfl) <;>
      simp only [subsBytes_cons', List.length_append, List.append_assoc, Nat.add_assoc]

end Osmium.Buf
