/-
Lemmas for C06: the linear-time twins of Model/ChunksFast.lean are equal to the specified
carry-over readers of Model/Chunks.lean, for all arguments (no hypothesis on the chunks).
-/
import Osmium.Model.ChunksFast

namespace Osmium.Chunks

open Osmium.Wire

/-! ## OPL -/

theorem findBreakFrom_eq : ∀ (bs : Bytes) (i : Nat), findBreakFrom bs i = (findBreak bs).map (· + i)
  | [], _ => rfl
  | b :: bs, i => by
    by_cases hb : isBreak b
    · simp [findBreakFrom, findBreak, hb]
    · simp only [findBreakFrom, findBreak, hb, Bool.false_eq_true, ↓reduceIte, findBreakFrom_eq bs (i + 1),
        Option.map_map]
      congr 1
      funext x
      simp only [Function.comp_apply]
      omega

theorem findBreakFrom_zero (bs : Bytes) : findBreakFrom bs 0 = findBreak bs := by
  rw [findBreakFrom_eq]
  cases findBreak bs <;> simp

theorem cstrF_eq : ∀ (bs : Bytes), cstrF bs = cstr bs
  | [] => rfl
  | b :: bs => by
    have ih := cstrF_eq bs
    unfold cstrF at ih ⊢
    by_cases hb : b = 0
    · simp [cstr, hb]
    · simp [cstr, hb, ih]

theorem oplScanF_eq : ∀ (fuel : Nat) (bs : Bytes) (acc : List Bytes),
    oplScanF fuel bs acc = ((oplScan fuel bs).1.reverse ++ acc, (oplScan fuel bs).2)
  | 0, bs, acc => by simp [oplScanF, oplScan]
  | fuel + 1, bs, acc => by
    unfold oplScanF oplScan
    rw [findBreakFrom_zero]
    cases hf : findBreak bs with
    | none => simp
    | some pos =>
      simp only [cstrF_eq]
      by_cases he : (bs.drop (pos + 1)).isEmpty = true
      · simp only [he, ↓reduceIte]
        split <;> simp
      · simp only [he, Bool.false_eq_true, ↓reduceIte, oplScanF_eq fuel]
        split <;> simp

theorem oplChunkF_eq (rest input : Bytes) (acc : List Bytes) :
    oplChunkF rest.reverse input acc = ((oplChunk rest input).1.reverse ++ acc, (oplChunk rest input).2.reverse) := by
  unfold oplChunkF oplChunk
  simp only [List.isEmpty_reverse, findBreakFrom_zero, cstrF_eq, oplScanF_eq, List.reverseAux_eq, List.reverse_reverse]
  by_cases hr : rest.isEmpty = true
  · simp [hr]
  · simp only [hr, Bool.not_false, ↓reduceIte]
    cases hf : findBreak input with
    | none => simp
    | some ppos =>
      simp only
      split <;> simp

theorem oplRunF_eq : ∀ (fuel : Nat) (s : Src) (rest : Bytes) (acc : List Bytes),
    oplRunF fuel s rest.reverse acc.reverse = oplRun fuel s rest acc
  | 0, s, rest, acc => by
    simp only [oplRunF, oplRun, List.isEmpty_reverse, List.reverse_reverse, cstrF_eq]
    split <;> simp
  | fuel + 1, s, rest, acc => by
    unfold oplRunF oplRun
    by_cases hd : s.done = true
    · simp only [hd, ↓reduceIte, List.isEmpty_reverse, List.reverse_reverse, cstrF_eq]
      split <;> simp
    · simp only [hd, Bool.false_eq_true, ↓reduceIte, oplChunkF_eq]
      rw [← List.reverse_append, oplRunF_eq fuel]

theorem lineByLineF_eq_lineByLine (cs : List Bytes) : lineByLineF cs = lineByLine cs := by
  simpa [lineByLineF, lineByLine] using oplRunF_eq (cs.length + 2) { chunks := cs } [] []

/-! ## PBF -/

theorem ensureGo_eq : ∀ (fuel : Nat) (buf : Bytes) (ps : List Bytes) (len : Nat) (s : Src) (size : Nat),
    len = (buf ++ ps.reverse.flatten).length →
    PbfIn.ensureGo fuel buf ps len s size =
      PbfIn.ensure fuel { buf := buf ++ ps.reverse.flatten, src := s } size
  | 0, buf, ps, len, s, size, hlen => by
    unfold PbfIn.ensureGo PbfIn.ensure
    simp only [← hlen]
  | fuel + 1, buf, ps, len, s, size, hlen => by
    unfold PbfIn.ensureGo PbfIn.ensure
    simp only [← hlen]
    by_cases hlt : len < size
    · simp only [hlt, ↓reduceIte]
      by_cases hd : (s.getInput).2.done = true
      · simp only [hd, ↓reduceIte]
      · have h := ensureGo_eq fuel buf ((s.getInput).1 :: ps) (len + (s.getInput).1.length) (s.getInput).2 size
          (by simp only [hlen, List.reverse_cons, List.flatten_append, List.flatten_cons, List.flatten_nil,
                List.append_nil, List.length_append]; omega)
        simp only [hd, Bool.false_eq_true, ↓reduceIte]
        rw [h]
        simp only [List.reverse_cons, List.flatten_append, List.flatten_cons, List.flatten_nil, List.append_nil,
          List.append_assoc]
    · simp only [hlt, ↓reduceIte]

theorem ensureF_pbf_eq (fuel : Nat) (p : PbfIn) (size : Nat) : PbfIn.ensureF fuel p size = PbfIn.ensure fuel p size := by
  have := ensureGo_eq fuel p.buf [] p.buf.length p.src size (by simp)
  simpa [PbfIn.ensureF] using this

theorem readExactF_eq (p : PbfIn) (size : Nat) : p.readExactF size = p.readExact size := by
  unfold PbfIn.readExactF PbfIn.readExact
  rw [ensureF_pbf_eq]
  rfl

theorem readHeaderSizeF_eq (maxHeader : Nat) (p : PbfIn) : p.readHeaderSizeF maxHeader = p.readHeaderSize maxHeader := by
  unfold PbfIn.readHeaderSizeF PbfIn.readHeaderSize
  rw [readExactF_eq]
  rfl

theorem readFrameF_eq (maxHeader maxBlob : Nat) (blobSize : Bool → Bytes → Option Nat) (first : Bool) (p : PbfIn) :
    p.readFrameF maxHeader maxBlob blobSize first = p.readFrame maxHeader maxBlob blobSize first := by
  unfold PbfIn.readFrameF PbfIn.readFrame
  simp only [readExactF_eq, readHeaderSizeF_eq]
  rfl

theorem readFramesF_eq (maxHeader maxBlob : Nat) (blobSize : Bool → Bytes → Option Nat) :
    ∀ (fuel : Nat) (p : PbfIn) (acc : List (Bytes × Bytes)),
      PbfIn.readFramesF maxHeader maxBlob blobSize fuel p acc = PbfIn.readFrames maxHeader maxBlob blobSize fuel p acc
  | 0, _, _ => rfl
  | fuel + 1, p, acc => by
    unfold PbfIn.readFramesF PbfIn.readFrames
    rw [readFrameF_eq]
    split <;> simp_all [readFramesF_eq maxHeader maxBlob blobSize fuel]

theorem pbfFramesF_eq_pbfFrames (maxHeader maxBlob : Nat) (blobSize : Bool → Bytes → Option Nat) (cs : List Bytes) :
    pbfFramesF maxHeader maxBlob blobSize cs = pbfFrames maxHeader maxBlob blobSize cs := by
  simp [pbfFramesF, pbfFrames, readFramesF_eq]

/-! ## o5m -/

theorem o5mFillGo_eq : ∀ (fuel : Nat) (inp : Bytes) (ps : List Bytes) (len : Nat) (s : Src) (need : Nat),
    len = (inp ++ ps.reverse.flatten).length →
    o5mFillGo fuel inp ps len s need = o5mFill fuel (inp ++ ps.reverse.flatten) s need
  | 0, inp, ps, len, s, need, hlen => by
    unfold o5mFillGo o5mFill
    simp only [← hlen]
  | fuel + 1, inp, ps, len, s, need, hlen => by
    unfold o5mFillGo o5mFill
    simp only [← hlen]
    by_cases hlt : len < need
    · simp only [hlt, ↓reduceIte]
      by_cases hd : (s.getInput).2.done = true
      · simp only [hd, ↓reduceIte]
      · have h := o5mFillGo_eq fuel inp ((s.getInput).1 :: ps) (len + (s.getInput).1.length) (s.getInput).2 need
          (by simp only [hlen, List.reverse_cons, List.flatten_append, List.flatten_cons, List.flatten_nil,
                List.append_nil, List.length_append]; omega)
        simp only [hd, Bool.false_eq_true, ↓reduceIte]
        rw [h]
        simp only [List.reverse_cons, List.flatten_append, List.flatten_cons, List.flatten_nil, List.append_nil,
          List.append_assoc]
    · simp only [hlt, ↓reduceIte]

theorem o5mFillF_eq (fuel : Nat) (inp : Bytes) (s : Src) (need : Nat) : o5mFillF fuel inp s need = o5mFill fuel inp s need := by
  have := o5mFillGo_eq fuel inp [] inp.length s need (by simp)
  simpa [o5mFillF] using this

theorem ensureF_o5m_eq (o : O5mIn) (need : Nat) : o.ensureF need = o.ensure need := by
  simp [O5mIn.ensureF, O5mIn.ensure, o5mFillF_eq]

end Osmium.Chunks
