/-
C03 — lemmas (object level): lengths of `build`, where its parts sit, and the decode of the object
item itself.  Helper file of Osmium/Lemmas/HostileLayout.lean.
-/
import Osmium.Lemmas.HostileLayoutItem

namespace Osmium.HostileLayout

open Osmium.Layout

theorem padded_of_mod (n : Nat) (h : n % 8 = 0) : padded n = n := by unfold padded; omega

theorem at_self (b : Bytes) : At b 0 b := by unfold At; simp

theorem zeros_succ (m : Nat) : zeros (m + 1) = [0] ++ zeros m := by simp [zeros, List.replicate_succ]

theorem subsBytes_length_mod (fill : UInt8) (ss : List SubS) : (subsBytes fill ss).length % 8 = 0 := by
  induction ss with
  | nil => rfl
  | cons s r ih =>
    rw [subsBytes_cons, List.length_append, subBytes_length]
    have := Buf.padded_mod (8 + (s.body fill).length)
    omega

theorem headLen_mod (k : OKind) (ul : Nat) : k.headLen ul % 8 = 0 := by
  cases k <;> exact Buf.padded_mod _

theorem objSize_mod (fill : UInt8) (o : ObjS) : objSize fill o % 8 = 0 := by
  unfold objSize
  have := headLen_mod o.kind o.user.length
  have := subsBytes_length_mod fill o.subs
  omega

theorem header_length (size ty : Nat) : (header size ty).length = 8 := by
  simp [header, leBytes_length]

theorem headBody_length (o : ObjS) (h : o.fixed.length = o.kind.sizeT - 8) :
    8 + (headBody o).length = o.kind.headLen o.user.length := by
  obtain ⟨kind, fixed, user, subs⟩ := o
  cases kind <;>
  · simp only [OKind.sizeT, sizeofNode, sizeofObject, sizeofChangeset] at h
    simp only [headBody, OKind.headLen, OKind.sizeT, sizeofNode, sizeofObject, sizeofChangeset, List.length_append,
      List.length_take, List.length_drop, leBytes_length, zeros_length, h]
    have := Buf.padded_ge (40 + 2 + user.length + 1)
    have := Buf.padded_ge (32 + 2 + user.length + 1)
    have := Buf.padded_ge (56 + user.length + 1)
    omega

theorem build_length (fill : UInt8) (o : ObjS) (h : o.fixed.length = o.kind.sizeT - 8) :
    (build fill o).length = objSize fill o := by
  unfold build objSize
  rw [List.length_append, List.length_append, header_length, headBody_length o h]

theorem decodeItem_obj {b : Bytes} (ty szT : Nat)
    (hty : (ty = 1 ∧ szT = 40) ∨ (ty = 2 ∧ szT = 32) ∨ (ty = 3 ∧ szT = 32) ∨ (ty = 4 ∧ szT = 32))
    (user : Bytes) (f : Nat) (trees : List Tree)
    (e1 : u32At b 0 = b.length) (e2 : u16At b 4 = ty) (e3 : u16At b 6 = 0)
    (hmod : b.length % 8 = 0)
    (e4 : u16At b szT = user.length + 1)
    (hu : At b (szT + 2) (user ++ [0])) (hun : noNul user = true) (hlt : szT + 2 + user.length < b.length)
    (hsub : decodeItems b f (padded (szT + 2 + (user.length + 1))) b.length = .ok trees) :
    ∃ fields, decodeItem b (f + 1) 0 b.length = .ok (.mk ty false fields [user] trees, b.length) := by
  have c := cstr_at (lim := b.length) hu hun hlt (Nat.le_refl _)
  rw [decodeItem]
  simp only [Nat.zero_add, e1, e2, e3, padded_of_mod _ hmod]
  rw [if_neg (by omega), if_neg (by omega)]
  rcases hty with ⟨rfl, rfl⟩ | ⟨rfl, rfl⟩ | ⟨rfl, rfl⟩ | ⟨rfl, rfl⟩
  all_goals
    rw [if_pos (by decide)]
    simp only [show (1 == tyNode) = true from rfl, show (2 == tyNode) = false from rfl,
      show (3 == tyNode) = false from rfl, show (4 == tyNode) = false from rfl, if_true, if_false,
      Bool.false_eq_true, sizeofNode, sizeofObject] at *
    rw [if_neg (by omega), c]
    simp only [e4, hsub]
    exact ⟨_, rfl⟩

theorem decodeItem_cs {b : Bytes} (user : Bytes) (f : Nat) (trees : List Tree)
    (e1 : u32At b 0 = b.length) (e2 : u16At b 4 = 5) (e3 : u16At b 6 = 0)
    (hmod : b.length % 8 = 0)
    (e4 : u16At b 48 = user.length + 1)
    (hu : At b sizeofChangeset (user ++ [0])) (hun : noNul user = true) (hlt : sizeofChangeset + user.length < b.length)
    (hsub : decodeItems b f (padded (sizeofChangeset + (user.length + 1))) b.length = .ok trees) :
    ∃ fields, decodeItem b (f + 1) 0 b.length = .ok (.mk 5 false fields [user] trees, b.length) := by
  have c := cstr_at (lim := b.length) hu hun hlt (Nat.le_refl _)
  have h56 : sizeofChangeset = 56 := rfl
  refine ⟨[(u32At b 32 : Nat), (u32At b 44 : Nat), (u32At b 24 : Nat),
         (u32At b 28 : Nat), (u32At b 36 : Nat), (u32At b 40 : Nat),
         toSigned (u32At b 8) 32, toSigned (u32At b 12) 32,
         toSigned (u32At b 16) 32, toSigned (u32At b 20) 32], ?_⟩
  rw [decodeItem]
  simp only [Nat.zero_add, e1, e2, e3, padded_of_mod _ hmod]
  rw [if_neg (by omega), if_neg (by omega), if_neg (by decide), if_pos (by decide)]
  rw [if_neg (by omega), c]
  simp only [e4, hsub]
  rfl

theorem at_zeros_head {b : Bytes} {p n : Nat} (h : At b p (zeros n)) (hn : 0 < n) : At b p [0] := by
  obtain ⟨m, rfl⟩ : ∃ m, n = m + 1 := ⟨n - 1, by omega⟩
  rw [zeros_succ, at_append] at h
  exact h.1

theorem build_at_obj {b : Bytes} (fill : UInt8) (o : ObjS) (hat : At b 0 (build fill o))
    (hk : o.kind ≠ .changeset) (hfl : o.fixed.length = o.kind.sizeT - 8) :
    At b 0 (header (objSize fill o) o.kind.ty) ∧ At b o.kind.sizeT (leBytes (o.user.length + 1) 2) ∧
    At b (o.kind.sizeT + 2) (o.user ++ [0]) ∧ At b (o.kind.headLen o.user.length) (subsBytes fill o.subs) := by
  obtain ⟨kind, fixed, user, subs⟩ := o
  cases kind
  case changeset => exact absurd rfl hk
  all_goals
    simp only [OKind.sizeT, sizeofNode, sizeofObject] at hfl ⊢
    simp only [build, headBody, OKind.sizeT, sizeofNode, sizeofObject] at hat
    simp only [at_append, List.length_append, header_length, List.length_take, leBytes_length, hfl, Nat.zero_add,
      zeros_length] at hat
    obtain ⟨⟨h0, ⟨⟨_, hus⟩, huser⟩, hz⟩, hsubs⟩ := hat
    have h1 := Buf.padded_ge (40 + 2 + user.length + 1)
    have h2 := Buf.padded_ge (32 + 2 + user.length + 1)
    refine ⟨h0, at_cast hus (by omega), at_append.mpr ⟨at_cast huser (by omega),
      at_cast (at_zeros_head hz (by omega)) (by omega)⟩, at_cast hsubs ?_⟩
    simp only [OKind.headLen, OKind.sizeT, sizeofNode, sizeofObject]
    omega

theorem build_at_cs {b : Bytes} (fill : UInt8) (o : ObjS) (hat : At b 0 (build fill o))
    (hk : o.kind = .changeset) (hfl : o.fixed.length = o.kind.sizeT - 8) :
    At b 0 (header (objSize fill o) o.kind.ty) ∧ At b 48 (leBytes (o.user.length + 1) 2) ∧
    At b sizeofChangeset (o.user ++ [0]) ∧ At b (o.kind.headLen o.user.length) (subsBytes fill o.subs) := by
  obtain ⟨kind, fixed, user, subs⟩ := o
  subst hk
  simp only [OKind.sizeT, sizeofChangeset] at hfl ⊢
  simp only [build, headBody, sizeofChangeset] at hat
  simp only [at_append, List.length_append, header_length, List.length_take, List.length_drop, leBytes_length,
    hfl, Nat.zero_add, zeros_length] at hat
  obtain ⟨⟨h0, ⟨⟨⟨_, hus⟩, _⟩, huser⟩, hz⟩, hsubs⟩ := hat
  have h1 := Buf.padded_ge (56 + user.length + 1)
  refine ⟨h0, at_cast hus (by omega), at_append.mpr ⟨at_cast huser (by omega),
    at_cast (at_zeros_head hz (by omega)) (by omega)⟩, at_cast hsubs ?_⟩
  simp only [OKind.headLen, sizeofChangeset]
  omega

theorem guards_subs {fill : UInt8} {o : ObjS} (g : Guards fill o) :
    ∀ s ∈ o.subs, s.lengthsOk = true ∧ s.extraOk = true :=
  fun s hs => ⟨g.lengths s hs, g.extra s hs⟩

/-- the object item decodes (fuel = any `f + 1` with `f` ≥ size of the sub-item area + 2) -/
theorem decodeItem_build (fill : UInt8) (o : ObjS) (g : Guards fill o) (f : Nat)
    (hf : (subsBytes fill o.subs).length + 2 ≤ f) :
    ∃ fields, decodeItem (build fill o) (f + 1) 0 (build fill o).length =
      .ok (.mk o.kind.ty false fields [o.user] (o.subs.map subTree), (build fill o).length) := by
  have hlen := build_length fill o g.fixedLen
  have hmod := objSize_mod fill o
  have htot := g.total
  have hul := g.userLen
  have hsz : objSize fill o = o.kind.headLen o.user.length + (subsBytes fill o.subs).length := rfl
  by_cases hk : o.kind = .changeset
  · obtain ⟨h0, h1, h2, h3⟩ := build_at_cs fill o (at_self _) hk g.fixedLen
    simp only [header, at_append, leBytes_length, Nat.zero_add] at h0
    obtain ⟨⟨a1, a2⟩, a3⟩ := h0
    have hhl : o.kind.headLen o.user.length = padded (sizeofChangeset + (o.user.length + 1)) := by
      rw [hk]; rfl
    have hp := Buf.padded_ge (sizeofChangeset + (o.user.length + 1))
    have hty : o.kind.ty = 5 := by rw [hk]; rfl
    rw [hty] at a2 ⊢
    have hsub := decodeItems_subs fill o.subs (o.kind.headLen o.user.length) (build fill o).length f h3
      (by omega) (Nat.le_refl _) (guards_subs g) (by omega) hf
    rw [hhl] at hsub
    exact decodeItem_cs o.user f _ (by rw [hlen]; exact u32At_at a1 htot) (leAt_at_leBytes a2)
      (leAt_at_leBytes a3) (by omega) (u16At_at h1 hul) h2 g.userNoNul (by omega) hsub
  · obtain ⟨h0, h1, h2, h3⟩ := build_at_obj fill o (at_self _) hk g.fixedLen
    simp only [header, at_append, leBytes_length, Nat.zero_add] at h0
    obtain ⟨⟨a1, a2⟩, a3⟩ := h0
    have hhl : o.kind.headLen o.user.length = padded (o.kind.sizeT + 2 + (o.user.length + 1)) := by
      cases hk' : o.kind <;> first | exact absurd hk' hk | rfl
    have hp := Buf.padded_ge (o.kind.sizeT + 2 + (o.user.length + 1))
    have hsub := decodeItems_subs fill o.subs (o.kind.headLen o.user.length) (build fill o).length f h3
      (by omega) (Nat.le_refl _) (guards_subs g) (by omega) hf
    rw [hhl] at hsub
    refine decodeItem_obj o.kind.ty o.kind.sizeT ?_ o.user f _ (by rw [hlen]; exact u32At_at a1 htot) ?_
      (leAt_at_leBytes a3) (by omega) (u16At_at h1 hul) h2 g.userNoNul (by omega) hsub
    · cases hk' : o.kind <;> first | exact absurd hk' hk | decide
    · rw [u16At, leAt_at_leBytes a2]
      cases hk' : o.kind <;> first | exact absurd hk' hk | rfl

end Osmium.HostileLayout
