/-
PoolSM2Rank2 — the destructor phase of osmium::thread::Pool cannot get stuck (C19): while
`~Pool()` has started and not returned, some FAIR step (PoolSM2Rank.Fair) is enabled.  With the
ranking function of PoolSM2Rank: every maximal run of fair steps after `dtorStart` is finite
and ends with the destructor returned, i.e. all workers joined.
-/
import Osmium.Lemmas.PoolSM2Rank

namespace Osmium.QueueSM

open Osmium.Mon

variable {α : Type} [DecidableEq α]

/-- only a bounded queue polls its size -/
theorem inv_bounded (c : Cfg) : ∀ s, (machine α c).Reachable s →
    ∀ t x, s.pc t = .pushPolling x ∨ s.pc t = .pushMustWait x → 0 < c.max := by
  apply Machine.invariant
  · simp [machine, init]
  · intro s e s' _ ih hst
    qsm_cases e with hst tid t <;> intro u y <;> simp only [setPc_apply, take_pc] <;>
      (try split) <;> first | exact ih u y | (simp; done) | (simp; omega) | (intro _; exact ih t _ (.inl ‹_›)) | (intro _; exact ih t _ (.inr ‹_›))

end Osmium.QueueSM

namespace Osmium.PoolSM

open Osmium.Mon

/-! ## who does what -/

/-- the destructor thread is not a worker; nobody calls shutdown() on the work queue; workers
    only consume -/
theorem inv_roles (c : Cfg) : ∀ s, (machine c).Reachable s →
    (s.dtor ≠ .notStarted → s.dtorTid ∉ c.workers) ∧
    (∀ t, s.q.pc t ≠ .sdEntered ∧ s.q.pc t ≠ .sdFlagged) ∧
    (∀ w ∈ c.workers, s.q.pc w = .idle ∨ s.q.pc w = .popWaiting) := by
  apply Machine.invariant
  · simp [machine, init, QueueSM.init]
  · intro s e s' _ ih hst
    psm_cases e with hst <;> psm_frame ih
    all_goals (obtain ⟨ih1, ih2, ih3⟩ := ih)
    all_goals refine ⟨?_, fun u => ?_, fun u hu => ?_⟩
    all_goals simp only [setPc_apply, QueueSM.take_pc]
    all_goals (try split)
    all_goals first
      | exact ih1 | exact ih2 u | exact ih3 u hu | (simp; done) | (simp_all; done)
      | (have := ih3 u hu; simp_all)

/-- a thread inside `wait()` is a worker in its loop -/
theorem inv_waiting_worker (c : Cfg) : ∀ s, (machine c).Reachable s →
    ∀ t, s.q.pc t = .popWaiting → t ∈ c.workers ∧ s.wpc t = .loop := by
  apply Machine.invariant
  · simp [machine, init, QueueSM.init]
  · intro s e s' _ ih hst
    psm_cases e with hst <;> psm_frame ih
    all_goals intro u
    all_goals simp only [setPc_apply, QueueSM.take_pc]
    all_goals (have ihu := ih u)
    all_goals first
      | (split <;> simp_all; done)
      | (intro hw; have := ihu hw; split <;> simp_all)

theorem afterGot_ne_exited (r : Option Task) : afterGot r ≠ .exited := by
  rcases r with _ | (_ | _) <;> simp [afterGot]

theorem inv_exited_mem (c : Cfg) : ∀ s, (machine c).Reachable s → ∀ w, s.wpc w = .exited → w ∈ s.exitedL := by
  apply Machine.invariant
  · simp [machine, init]
  · intro s e s' _ ih hst
    psm_cases e with hst <;> psm_frame ih
    all_goals intro u
    all_goals simp only [setPc_apply]
    all_goals (have ihu := ih u)
    all_goals (split <;> simp_all [afterGot_ne_exited])

/-! ## every worker that has left its loop for good took one stop task -/

/-- the worker has received a stop task -/
def stopped : WPc → Bool
  | .got (some .stop) | .stopping | .exited => true
  | _ => false

def nStopped (wl : List Tid) (wpc : Tid → WPc) : Nat :=
  (wl.map fun w => if stopped (wpc w) = true then 1 else 0).sum

theorem sum_map_update (l : List Tid) (hnd : l.Nodup) (t : Tid) (ht : t ∈ l) (f g : Tid → Nat)
    (h : ∀ u ∈ l, u ≠ t → g u = f u) : (l.map g).sum + f t = (l.map f).sum + g t := by
  induction l with
  | nil => simp at ht
  | cons a l ih =>
    rw [List.nodup_cons] at hnd
    simp only [List.map_cons, List.sum_cons]
    by_cases hat : a = t
    · subst hat
      have : l.map g = l.map f :=
        List.map_congr_left fun u hu => h u (List.mem_cons_of_mem _ hu) (fun e => hnd.1 (e ▸ hu))
      rw [this]; omega
    · have hmem : t ∈ l := by
        rcases List.mem_cons.mp ht with e | e
        · exact absurd e.symm hat
        · exact e
      have := ih hnd.2 hmem (fun u hu => h u (List.mem_cons_of_mem _ hu))
      have ha := h a (List.mem_cons_self ..) hat
      omega

theorem nStopped_congr (wl : List Tid) (wpc : Tid → WPc) (t : Tid) (a : WPc)
    (h : stopped a = stopped (wpc t)) : nStopped wl (setPc wpc t a) = nStopped wl wpc := by
  unfold nStopped
  congr 1
  apply List.map_congr_left
  intro u _
  rw [setPc_apply]
  split
  · next e => subst e; rw [h]
  · rfl

theorem nStopped_update (wl : List Tid) (hnd : wl.Nodup) (t : Tid) (ht : t ∈ wl) (wpc : Tid → WPc) (a : WPc)
    (h : stopped (wpc t) = false) :
    nStopped wl (setPc wpc t a) = nStopped wl wpc + (if stopped a = true then 1 else 0) := by
  have := sum_map_update wl hnd t ht (fun w => if stopped (wpc w) = true then 1 else 0)
    (fun w => if stopped (setPc wpc t a w) = true then 1 else 0)
    (fun u _ hne => by rw [setPc_other _ _ _ _ hne])
  simp only [setPc_same, h] at this
  unfold nStopped
  simpa using this

theorem stopped_got (x : QueueSM.Item Task) : stopped (.got (some x.2)) = isStop x := by
  obtain ⟨t, tk⟩ := x
  cases tk <;> rfl

theorem stopped_afterGot (r : Option Task) : stopped (afterGot r) = stopped (.got r) := by
  rcases r with _ | (_ | _) <;> rfl

/-- the workers that have received a stop task are as many as the stop tasks handed out -/
theorem inv_stopped (c : Cfg) (hnd : c.workers.Nodup) : ∀ s, (machine c).Reachable s →
    nStopped c.workers s.wpc = (s.q.popped.map (·.2)).countP isStop := by
  apply Machine.invariant
  · simp [machine, init, QueueSM.init, nStopped, stopped]
  · intro s e s' _ ih hst
    psm_cases e with hst <;> psm_frame ih
    all_goals simp only [QueueSM.take_popped, List.map_append, QueueSM.map_snd_map_pair, List.countP_append]
    -- popNow, popWake: the worker was in its loop
    iterate 2
      · rename_i t n r hw hg
        have hr : r = s.q.items.head? := by first | exact hg.2.2.2 | exact hg.2.2.2.2
        rw [nStopped_update c.workers hnd t hw.1 s.wpc _ (by rw [hw.2]; rfl), ih, hr]
        cases s.q.items with
        | nil => simp [stopped]
        | cons x rest =>
          simp only [List.head?_cons, Option.map_some, stopped_got, Option.toList_some, List.countP_cons,
            List.countP_nil]
          omega
    -- workerGot, taskRun, workerExit
    · rename_i w b _ r hpc _
      rw [nStopped_congr _ _ _ _ (by rw [hpc, stopped_afterGot]), ih]
    · rename_i w id _ id' out hpc _
      rw [nStopped_congr _ _ _ _ (by rw [hpc]; rfl), ih]
    · rename_i w hpc
      rw [nStopped_congr _ _ _ _ (by rw [hpc]; rfl), ih]

/-! ## where the stop tasks are -/

theorem count_eq_countP_isStop (l : List (QueueSM.Item Task)) (X : QueueSM.Item Task) (hX : isStop X = true)
    (h : ∀ y ∈ l, isStop y = true → y = X) : l.count X = l.countP isStop := by
  rw [List.count_eq_countP]
  apply List.countP_congr
  intro y hy
  simp only [beq_iff_eq]
  constructor
  · rintro rfl; exact hX
  · exact h y hy

/-- the stop tasks handed to push() so far are handed out, queued, or inside push() -/
theorem stop_count (c : Cfg) (s : State) (h : (machine c).Reachable s) :
    dtorK c s.dtor = (s.q.popped.map (·.2)).countP isStop + s.q.items.count (s.dtorTid, .stop)
      + (QueueSM.inflight s.q s.dtorTid).count (s.dtorTid, .stop) := by
  have hq := reachable_q c s h
  have hu := inv_inUse c s h
  obtain ⟨h1, _, h3⟩ := inv_stops_called c s h
  have hc := QueueSM.count_called' c.qc s.q hq hu (s.dtorTid, .stop)
  rw [count_eq_countP_isStop _ _ rfl h3, List.countP_eq_length_filter, h1] at hc
  rw [count_eq_countP_isStop (s.q.popped.map (·.2)) _ rfl (fun y hy => h3 y (by
    obtain ⟨p, hp, rfl⟩ := List.mem_map.mp hy
    exact QueueSM.pushed_mem_called c.qc s.q hq hu (QueueSM.popped_mem_pushed c.qc s.q hq hu (w := p.1) hp)))] at hc
  exact hc

/-! ## enabled fair steps -/

theorem step_exists {c : Cfg} {s : State} (e : Ev) (h : (step? c s e).isSome = true) :
    ∃ s', (machine c).Step s e s' :=
  Option.isSome_iff_exists.mp h

/-- A worker whose thread function has not returned can take a fair step — or, if it is inside
    `wait()`, some notified worker can — unless it waits un-notified on an empty queue. -/
theorem worker_can_move (c : Cfg) (s : State) (h : (machine c).Reachable s) (w : Tid) (hw : w ∈ c.workers)
    (hne : s.wpc w ≠ .exited)
    (hb : s.wpc w = .loop → s.q.pc w = .popWaiting → s.q.items = [] → s.q.waiters.notified w = true) :
    ∃ e s', (machine c).Step s e s' ∧ Fair c s e := by
  have hu := inv_inUse c s h
  have hq := reachable_q c s h
  obtain ⟨_, _, hr3⟩ := inv_roles c s h
  have hwt := QueueSM.inv_waiters c.qc s.q hq
  have hww := inv_waiting_worker c s h
  have hwake : ∀ w', (w', true) ∈ s.q.waiters → s.q.items ≠ [] →
      ∃ e s', (machine c).Step s e s' ∧ Fair c s e := by
    intro w' hm hni
    have hk : w' ∈ s.q.waiters.keys := List.mem_map.mpr ⟨_, hm, rfl⟩
    have hpc := (hwt.1 w').mp hk
    obtain ⟨hw1, hw2⟩ := hww w' hpc
    obtain ⟨s', hs'⟩ := step_exists (c := c) (s := s) (.q (.popWake w' s.q.items.length s.q.items.head?)) (by
      simp [step?, QueueSM.step?, hw1, hw2, hpc, CondVar.canWake, (CondVar.waiting_iff _ _).mpr hk,
        (CondVar.notified_iff _ _).mpr hm, QueueSM.pred, hu, hni])
    exact ⟨_, s', hs', trivial⟩
  cases hpc : s.wpc w with
  | loop =>
    rcases hr3 w hw with hi | hi
    · by_cases hp : QueueSM.pred s.q = true
      · obtain ⟨s', hs'⟩ := step_exists (c := c) (s := s) (.q (.popNow w s.q.items.length s.q.items.head?)) (by
          simp [step?, QueueSM.step?, hw, hpc, hi, hp])
        exact ⟨_, s', hs', trivial⟩
      · obtain ⟨s', hs'⟩ := step_exists (c := c) (s := s) (.q (.popBlock w)) (by
          simp [step?, QueueSM.step?, hw, hpc, hi, hp])
        exact ⟨_, s', hs', trivial⟩
    · by_cases hni : s.q.items = []
      · have hn := hb hpc hi hni
        have hk : w ∈ s.q.waiters.keys := (hwt.1 w).mpr hi
        obtain ⟨s', hs'⟩ := step_exists (c := c) (s := s) (.q (.popRewait w)) (by
          simp [step?, QueueSM.step?, hw, hpc, hi, CondVar.canWake, (CondVar.waiting_iff _ _).mpr hk, hn,
            QueueSM.pred, hu, hni])
        exact ⟨_, s', hs', hn⟩
      · rcases QueueSM.inv_wakeup c.qc s.q hq with h1 | h0
        · have : 0 < s.q.waiters.numNotified := by
            have := List.length_pos_iff.mpr hni
            omega
          obtain ⟨w', hm⟩ := CondVar.exists_notified_of_pos _ this
          exact hwake w' hm hni
        · obtain ⟨a, ha, hat⟩ := List.mem_map.mp ((hwt.1 w).mpr hi)
          have := (CondVar.numUnnotified_eq_zero_iff _).mp h0 a ha
          refine hwake w ?_ hni
          rw [← hat, ← this]; exact ha
  | got r =>
    obtain ⟨s', hs'⟩ := step_exists (c := c) (s := s) (.workerGot w r.isSome) (by simp [step?, hpc])
    exact ⟨_, s', hs', trivial⟩
  | running id out =>
    obtain ⟨s', hs'⟩ := step_exists (c := c) (s := s) (.taskRun w id) (by simp [step?, hpc])
    exact ⟨_, s', hs', trivial⟩
  | stopping =>
    obtain ⟨s', hs'⟩ := step_exists (c := c) (s := s) (.workerExit w) (by simp [step?, hpc])
    exact ⟨_, s', hs', trivial⟩
  | exited => exact absurd hpc hne

theorem nStopped_le (wl : List Tid) (wpc : Tid → WPc) : nStopped wl wpc ≤ wl.length := by
  induction wl with
  | nil => simp [nStopped]
  | cons a wl ih =>
    unfold nStopped at *
    simp only [List.map_cons, List.sum_cons, List.length_cons]
    split <;> omega

theorem all_stopped_of_eq (wl : List Tid) (wpc : Tid → WPc) (h : nStopped wl wpc = wl.length) :
    ∀ w ∈ wl, stopped (wpc w) = true := by
  induction wl with
  | nil => simp
  | cons a wl ih =>
    have hle := nStopped_le wl wpc
    unfold nStopped at *
    simp only [List.map_cons, List.sum_cons, List.length_cons] at h
    intro w hw
    split at h
    · next ha =>
      rcases List.mem_cons.mp hw with e | e
      · exact e ▸ ha
      · exact ih (by omega) w e
    · omega

theorem exists_unstopped (wl : List Tid) (wpc : Tid → WPc) (h : nStopped wl wpc < wl.length) :
    ∃ w ∈ wl, stopped (wpc w) = false := by
  induction wl with
  | nil => simp at h
  | cons a wl ih =>
    have hle := nStopped_le wl wpc
    unfold nStopped at *
    simp only [List.map_cons, List.sum_cons, List.length_cons] at h
    by_cases ha : stopped (wpc a) = true
    · simp only [ha, if_true] at h
      obtain ⟨w, hw, hs⟩ := ih (by omega)
      exact ⟨w, List.mem_cons_of_mem _ hw, hs⟩
    · exact ⟨a, List.mem_cons_self .., by simpa using ha⟩

/-- if no thread is inside push() the guard of `dtorStart`/`dtorPushed` holds -/
theorem noPush_of_no_inflight (c : Cfg) (s : State) (h : (machine c).Reachable s)
    (hall : ∀ t, QueueSM.inflight s.q t = []) : noPushInProgress s = true := by
  have hq := reachable_q c s h
  have hu := inv_inUse c s h
  have hd := (QueueSM.inv_called c.qc s.q hq hu).1
  have hp : s.q.called.Perm s.q.pushed := by
    rw [List.perm_iff_count]
    intro x
    rw [QueueSM.count_called c.qc s.q hq hu x, hall]
    simp
  simp [noPushInProgress, hd, hp.length_eq]

theorem dtor_phase_fair_enabled (c : Cfg) (hnd : c.workers.Nodup) (s : State)
    (h : (machine c).Reachable s) (hd : s.dtor ≠ .notStarted) (hdone : s.dtor ≠ .done) :
    ∃ e s', (machine c).Step s e s' ∧ Fair c s e := by
  have hu := inv_inUse c s h
  have hq := reachable_q c s h
  obtain ⟨hr1, hr2, hr3⟩ := inv_roles c s h
  have hsc := stop_count c s h
  have hstp := inv_stopped c hnd s h
  have hK := (inv_stops_called c s h).2.1
  cases hdt : s.dtor with
  | notStarted => exact absurd hdt hd
  | done => exact absurd hdt hdone
  | pushing k =>
    rw [hdt] at hsc hK
    simp only [dtorK] at hsc hK
    cases hpc : s.q.pc s.dtorTid with
    | idle =>
      by_cases hk : k < c.workers.length
      · obtain ⟨s', hs'⟩ := step_exists (c := c) (s := s) (.q (.pushEnter s.dtorTid .stop)) (by
          simp [step?, QueueSM.step?, hdt, hk, hpc])
        exact ⟨_, s', hs', trivial⟩
      · have hkN : k = c.workers.length := by omega
        have hall : ∀ t, QueueSM.inflight s.q t = [] := by
          intro t
          by_cases ht : t = s.dtorTid
          · subst ht; simp [QueueSM.inflight, hpc]
          · exact inv_onlyDtorPushes c s h hd t ht
        have hno := noPush_of_no_inflight c s h hall
        obtain ⟨s', hs'⟩ := step_exists (c := c) (s := s) (.dtorPushed s.dtorTid) (by
          simp [step?, hdt, hkN, hno])
        exact ⟨_, s', hs', trivial⟩
    | pushEntered x =>
      obtain ⟨s', hs'⟩ := step_exists (c := c) (s := s) (.q (.pushTest s.dtorTid true)) (by
        by_cases hm : c.qc.max = 0 <;> simp [step?, QueueSM.step?, hpc, hu, hm])
      exact ⟨_, s', hs', trivial⟩
    | pushPolling x =>
      obtain ⟨s', hs'⟩ := step_exists (c := c) (s := s) (.q (.pushSize s.dtorTid s.q.items.length)) (by
        by_cases hm : s.q.items.length ≥ c.qc.max <;> simp [step?, QueueSM.step?, hpc, hm])
      exact ⟨_, s', hs', trivial⟩
    | pushMustWait x =>
      by_cases hfull : s.q.items.length < c.qc.max
      · obtain ⟨s', hs'⟩ := step_exists (c := c) (s := s) (.q (.pushFullWaited s.dtorTid s.q.items.length)) (by
          simp [step?, QueueSM.step?, hpc])
        exact ⟨_, s', hs', hfull⟩
      · -- the queue is full: a worker can move, because fewer than N stop tasks were handed out
        have hmax := QueueSM.inv_bounded c.qc s.q hq s.dtorTid x (.inr hpc)
        have hni : s.q.items ≠ [] := by
          intro e; rw [e] at hfull; simp at hfull; omega
        have hx : x = .stop := by
          have := inv_noJobInflight c s h hd s.dtorTid (s.dtorTid, x) (by simp [QueueSM.inflight, hpc])
          simpa [isStop] using this
        have hin : (QueueSM.inflight s.q s.dtorTid).count (s.dtorTid, .stop) = 1 := by
          simp [QueueSM.inflight, hpc, hx]
        obtain ⟨w, hw, hws⟩ := exists_unstopped c.workers s.wpc (by omega)
        refine worker_can_move c s h w hw (fun e => ?_) (fun _ _ e => absurd e hni)
        rw [e] at hws; simp [stopped] at hws
    | pushReady x =>
      rcases CondVar.all_or_unnotified s.q.waiters with hall | ⟨w, hw⟩
      · obtain ⟨s', hs'⟩ := step_exists (c := c) (s := s)
          (.q (.pushLocked s.dtorTid (s.q.items.length + 1) none)) (by
            simp only [step?, QueueSM.step?, hpc, CondVar.notifyOneOk, hall]; simp)
        exact ⟨_, s', hs', trivial⟩
      · obtain ⟨s', hs'⟩ := step_exists (c := c) (s := s)
          (.q (.pushLocked s.dtorTid (s.q.items.length + 1) (some w))) (by
            simp only [step?, QueueSM.step?, hpc, CondVar.notifyOneOk, List.contains_iff_mem]; simp [hw])
        exact ⟨_, s', hs', trivial⟩
    | popWaiting => exact absurd (inv_waiting_worker c s h _ hpc).1 (hr1 hd)
    | sdEntered => exact absurd hpc (hr2 _).1
    | sdFlagged => exact absurd hpc (hr2 _).2
  | joining =>
    rw [hdt] at hsc
    simp only [dtorK] at hsc
    have hall := inv_noInflight_joining c s h (.inl hdt)
    by_cases hex : ∀ w ∈ c.workers, s.wpc w = .exited
    · obtain ⟨hj1, hj2⟩ := inv_joined_sub c s h
      by_cases hj : s.joined.length = c.workers.length
      · obtain ⟨s', hs'⟩ := step_exists (c := c) (s := s) (.dtorDone s.dtorTid) (by simp [step?, hdt, hj])
        exact ⟨_, s', hs', trivial⟩
      · have : ∃ w ∈ c.workers, w ∉ s.joined := by
          by_contra hcon
          have hsub : ∀ w ∈ c.workers, w ∈ s.joined := by
            intro w hw; by_contra hn; exact hcon ⟨w, hw, hn⟩
          have h1 := List.Nodup.length_le_of_subset hnd hsub
          have h2 := List.Nodup.length_le_of_subset hj1 hj2
          omega
        obtain ⟨w, hw, hwj⟩ := this
        have hwe := inv_exited_mem c s h w (hex w hw)
        obtain ⟨s', hs'⟩ := step_exists (c := c) (s := s) (.dtorJoin s.dtorTid w) (by
          simp [step?, hdt, hw, hwe, hwj])
        exact ⟨_, s', hs', trivial⟩
    · have : ∃ w ∈ c.workers, s.wpc w ≠ .exited := by
        by_contra hcon
        exact hex fun w hw => by by_contra hn; exact hcon ⟨w, hw, hn⟩
      obtain ⟨w, hw, hwe⟩ := this
      refine worker_can_move c s h w hw hwe (fun hl _ hni => ?_)
      -- empty queue: all N stop tasks were handed out, so every worker has one
      rw [hni, hall] at hsc
      simp only [List.count_nil, Nat.add_zero] at hsc
      have := all_stopped_of_eq c.workers s.wpc (by omega) w hw
      rw [hl] at this; simp [stopped] at this

/-! ## consequence: `~Pool()` returns -/

/-- Termination of the destructor under fair scheduling, over all interleavings: a run of fair
    steps that starts in a reachable state after `dtorStart` has at most `rank c s` steps, and
    when it cannot be extended by a fair step the destructor has returned (`dtorDone`, whose
    guard is that all `c.workers.length` worker threads were joined). -/
theorem dtor_phase_terminates (c : Cfg) (hnd : c.workers.Nodup) (s s' : State) (es : List Ev)
    (h : (machine c).Reachable s) (hd : s.dtor ≠ .notStarted) (hr : FairRun c s es s')
    (hmax : ¬ ∃ e s'', (machine c).Step s' e s'' ∧ Fair c s' e) :
    s'.dtor = .done ∧ es.length ≤ rank c s := by
  refine ⟨?_, fair_run_length_le c hnd s s' es h hd hr⟩
  by_contra hne
  exact hmax (dtor_phase_fair_enabled c hnd s' (hr.reachable h) (hr.dtor_started hd) hne)

end Osmium.PoolSM
