/-
File level of the XML round trip: the header (`<osm>` / `<osmChange>`, generator, `<bounds>`), the
blocks with their change sections, the end tag (helper lemmas for Props/C01Text.lean).
-/
import Osmium.Lemmas.XmlFmtRt

namespace Osmium.XmlFmt
open Osmium.Osm Osmium.TextFmt Osmium.Conv Osmium.Utf8

def rootCtx (o : Opts) : Ctx := if o.changeOps then .osmChange else .osm
def rootName (o : Opts) : String := if o.changeOps then "osmChange" else "osm"

theorem bVersion_plain : AllPlain bVersion := by intro b hb; revert b; decide

/-- the state after `<osm version="0.6" generator="…">` -/
def stRoot (o : Opts) (g : Bytes) : RSt :=
  { stack := [rootCtx o], header := { generator := g, boxes := [], multipleVersions := o.changeOps }, version := bVersion }

theorem root_start (o : Opts) (g : Bytes) :
    startElement {} {} (rootName o) [("version", bVersion), ("generator", g)] = .ok (stRoot o g) := by
  have hv : bVersion.isEmpty = false := by decide
  cases hc : o.changeOps <;>
    simp (config := { decide := true }) [startElement, rootName, rootCtx, stRoot, hc, push, topAttrs, hv]

/-- corners of header boxes: int32 coordinates -/
def XBoxOK (b : Location × Location) : Prop := XLocOK b.1 ∧ XLocOK b.2

def normBox (b : Location × Location) : Location × Location :=
  extendBox (extendBox (Location.undefined, Location.undefined) b.1) b.2

theorem boundsAttrs_latLon (bl tr : Location) (h1 : XLocOK bl) (h2 : XLocOK tr) :
    boundsAttrs (latLon "minlat" "minlon" bl ++ latLon "maxlat" "maxlon" tr) Location.undefined Location.undefined
      = .ok (bl, tr) := by
  obtain ⟨a1, a2, a3, a4⟩ := h1
  obtain ⟨c1, c2, c3, c4⟩ := h2
  simp (config := { decide := true }) [latLon, boundsAttrs, rCoord_formatCoord _ a1 a2, rCoord_formatCoord _ a3 a4,
    rCoord_formatCoord _ c1 c2, rCoord_formatCoord _ c3 c4, Location.undefined]

theorem bounds_step (st : RSt) (root : Ctx) (hr : root = .osm ∨ root = .osmChange) (hs : st.stack = [root])
    (attrs : List (String × Bytes)) (bl tr : Location)
    (h : boundsAttrs attrs Location.undefined Location.undefined = .ok (bl, tr)) :
    bindE (startElement {} st "bounds" attrs) (endElement {}) =
      .ok { st with header := { st.header with boxes := st.header.boxes ++ [normBox (bl, tr)] } } := by
  rcases st with ⟨stack, header, version, headerOut, cur, out, ct⟩
  simp only at hs
  subst hs
  rcases hr with rfl | rfl <;>
    simp (config := { decide := true }) [startElement, dataLevel, h, push, endElement, normBox]

theorem bounds_run (boxes : List (Location × Location)) (hb : ∀ b ∈ boxes, XBoxOK b) (root : Ctx)
    (hr : root = .osm ∨ root = .osmChange) (ps : List Piece) :
    ∀ st : RSt, st.stack = [root] →
      runPieces ((boxes.flatMap fun x =>
          [sp 2, Piece.elem "bounds" (latLon "minlat" "minlon" x.1 ++ latLon "maxlat" "maxlon" x.2) true, Piece.ws [10]]) ++ ps) st =
        runPieces ps { st with header := { st.header with boxes := st.header.boxes ++ boxes.map normBox } } := by
  induction boxes with
  | nil =>
    intro st _
    have : ({ st with header := { st.header with boxes := st.header.boxes ++ [] } } : RSt) = st := by
      cases st; simp
    simp [this]
  | cons b boxes ih =>
    intro st hs
    obtain ⟨bl, tr⟩ := b
    obtain ⟨h1, h2⟩ := hb (bl, tr) (by simp)
    have hnt : ∀ st' : RSt, st'.stack = [root] → NoText st' := by
      intro st' h; unfold NoText; rw [h]; rcases hr with rfl | rfl <;> simp
    have hdec : decodeAttrs (latLon "minlat" "minlon" bl ++ latLon "maxlat" "maxlon" tr)
        = some (latLon "minlat" "minlon" bl ++ latLon "maxlat" "maxlon" tr) := by
      simp [decodeAttrs, latLon, unescape_plain _ (formatCoord_plain _ h1.1 h1.2.1), unescape_plain _ (formatCoord_plain _ h1.2.2.1 h1.2.2.2),
        unescape_plain _ (formatCoord_plain _ h2.1 h2.2.1), unescape_plain _ (formatCoord_plain _ h2.2.2.1 h2.2.2.2)]
    have hstep := bounds_step st root hr hs _ bl tr (boundsAttrs_latLon bl tr h1 h2)
    simp only [List.flatMap_cons, List.cons_append, List.nil_append, List.append_assoc, sp, nl]
    rw [runPieces_ws _ _ _ (hnt st hs), runPieces_elem _ _ _ _ _ _ hdec]
    simp only [if_true]
    cases hst : startElement {} st "bounds" (latLon "minlat" "minlon" bl ++ latLon "maxlat" "maxlon" tr) with
    | error x => rw [hst] at hstep; simp at hstep
    | ok st1 =>
      rw [hst] at hstep
      simp only [bindE_ok] at hstep ⊢
      rw [hstep]
      simp only [bindE_ok]
      rw [runPieces_ws _ _ _ (hnt { st with header := { st.header with boxes := st.header.boxes ++ [normBox (bl, tr)] } } hs)]
      have := ih (fun b hb' => hb b (by simp [hb']))
        { st with header := { st.header with boxes := st.header.boxes ++ [normBox (bl, tr)] } } hs
      simp only [sp] at this
      rw [this]
      simp

/-- the header of the domain: generator an XML string, boxes with int32 corners -/
def XHeaderOK (h : Header) : Prop := xstrOK h.generator = true ∧ ∀ b ∈ h.boxes, XBoxOK b

/-- the state after the whole header -/
def stHeader (o : Opts) (h : Header) : RSt :=
  { stRoot o h.generator with header := { generator := h.generator, boxes := h.boxes.map normBox, multipleVersions := o.changeOps } }

theorem header_run (o : Opts) (h : Header) (hh : XHeaderOK h) (ps : List Piece) :
    runPieces (headerPieces o h ++ ps) {} = runPieces ps (stHeader o h) := by
  have hroot : rootCtx o = .osm ∨ rootCtx o = .osmChange := by unfold rootCtx; cases o.changeOps <;> simp
  have hdec : decodeAttrs [("version", bVersion), ("generator", Xml.escape h.generator)]
      = some [("version", bVersion), ("generator", h.generator)] := by
    simp [decodeAttrs, unescape_plain _ bVersion_plain, unescape_escape _ hh.1]
  have hnt : NoText (stRoot o h.generator) := by
    unfold NoText stRoot rootCtx; cases o.changeOps <;> simp
  have e : headerPieces o h ++ ps = Piece.elem (rootName o) [("version", bVersion), ("generator", Xml.escape h.generator)] false ::
      nl :: ((h.boxes.flatMap fun (bl, tr) =>
        [sp 2, Piece.elem "bounds" (latLon "minlat" "minlon" bl ++ latLon "maxlat" "maxlon" tr) true, nl]) ++ ps) := by
    unfold headerPieces rootName
    cases o.changeOps <;> simp
  rw [e, runPieces_elem _ _ _ _ _ _ hdec, root_start]
  simp only [bindE_ok, Bool.false_eq_true, if_false, nl]
  rw [runPieces_ws _ _ _ hnt, bounds_run h.boxes hh.2 (rootCtx o) hroot ps (stRoot o h.generator) rfl]
  simp [stHeader, stRoot]

/-! ### blocks and change sections -/

/-- the context stack between two objects: inside the section of the last operation, or directly
    under the root -/
def stackOf (o : Opts) (last : Nat) : List Ctx :=
  if o.changeOps && last != 0 then [sectionCtx last, .osmChange] else [rootCtx o]

def objMeta : Object → Meta
  | .node m _ => m
  | .way m _ => m
  | .relation m _ => m
  | .changeset .. => { id := 0 }

/-- objects of the XML domain (nodes, ways, relations) -/
def XObjOK : Object → Prop
  | .node m l => XMetaOK m ∧ XLocOK l
  | .way m ns => XMetaOK m ∧ ∀ n ∈ ns, XRefOK n
  | .relation m ms => XMetaOK m ∧ ∀ x ∈ ms, XMemberOK x
  | .changeset .. => False

theorem object_rt (o : Opts) (obj : Object) (h : XObjOK obj) (st : RSt) (rest : List Ctx)
    (hs : st.stack = parentCtx o (objMeta obj) :: rest) (hc : st.cur = none) :
    ∃ ps, objectPieces o obj = .ok ps ∧ runPieces ps st = .ok { markDone st with out := project o obj :: st.out } := by
  cases obj with
  | node m l => exact node_rt o m l h.1 h.2 st rest hs hc
  | way m ns => exact way_rt o m ns h.1 h.2 st rest hs hc
  | relation m ms => exact relation_rt o m ms h.1 h.2 st rest hs hc
  | changeset => exact absurd h (by simp [XObjOK])

theorem objOp_of (obj : Object) (h : XObjOK obj) : objOp obj = some (opOf (objMeta obj)) := by
  cases obj <;> first | rfl | exact absurd h (by simp [XObjOK])

theorem opOf_range (m : Meta) : opOf m = 1 ∨ opOf m = 2 ∨ opOf m = 3 := by
  unfold opOf; split <;> (try split) <;> simp

/-- the state differs from `st` only by its stack and by the header having been published -/
def Along (st st' : RSt) : Prop :=
  st'.header = st.header ∧ st'.version = st.version ∧ st'.cur = st.cur ∧ st'.out = st.out ∧
  st'.commentText = st.commentText ∧ st'.commentPending = st.commentPending ∧ (st'.headerOut = st.headerOut ∨ st'.headerOut = (markDone st).headerOut)

/-- `open_close_op_tag`: from the section of `last` into the section of `op` -/
theorem opTags_run (last op : Nat) (hop : op = 1 ∨ op = 2 ∨ op = 3) (hl : last ≤ 3) (st : RSt)
    (hs : st.stack = stackOf { changeOps := true } last) :
    ∃ st', Along st st' ∧ st'.stack = [sectionCtx op, .osmChange] ∧
      ∀ tail : List Piece, runPieces (opTagPieces last op ++ tail) st = runPieces tail st' := by
  have hsec : ∀ k, k = 1 ∨ k = 2 ∨ k = 3 → NoText ({ st with stack := [sectionCtx k, .osmChange] } : RSt) := by
    intro k hk; unfold NoText sectionCtx; rcases hk with rfl | rfl | rfl <;> simp
  by_cases he : op = last
  · subst he
    refine ⟨st, ⟨rfl, rfl, rfl, rfl, rfl, rfl, Or.inl rfl⟩, ?_, fun tail => by simp [opTagPieces]⟩
    rw [hs]; unfold stackOf
    rcases hop with rfl | rfl | rfl <;> simp
  · -- close the old section (if any), open the new one
    have hopen : ∀ s0 : RSt, s0.stack = [Ctx.osmChange] →
        startElement {} s0 (opName op) [] = .ok (markDone (push s0 (sectionCtx op))) := by
      intro s0 h0
      rcases hop with rfl | rfl | rfl <;>
        simp (config := { decide := true }) [startElement, h0, dataLevel, opName, sectionCtx]
    have hdec : decodeAttrs ([] : List (String × Bytes)) = some [] := rfl
    by_cases hl0 : last = 0
    · subst hl0
      have hs0 : st.stack = [Ctx.osmChange] := by rw [hs]; simp [stackOf, rootCtx]
      have hnt : NoText st := by unfold NoText; rw [hs0]; simp
      refine ⟨markDone (push st (sectionCtx op)), ?_, ?_, ?_⟩
      · cases hh : st.headerOut <;> simp [Along, markDone, push, hh]
      · cases hh : st.headerOut <;> simp [markDone, push, hh, hs0]
      · intro tail
        have hnt2 : NoText (markDone (push st (sectionCtx op))) := by
          unfold NoText sectionCtx
          cases hh : st.headerOut <;> rcases hop with rfl | rfl | rfl <;> simp [markDone, push, hh]
        simp only [opTagPieces, he, if_false, if_true, List.nil_append, List.cons_append, sp, nl]
        rw [runPieces_ws _ _ _ hnt, runPieces_elem _ _ _ _ _ _ hdec, hopen st hs0]
        simp only [bindE_ok, Bool.false_eq_true, if_false]
        rw [runPieces_ws _ _ _ hnt2]
    · have hlr : last = 1 ∨ last = 2 ∨ last = 3 := by omega
      have hs0 : st.stack = [sectionCtx last, Ctx.osmChange] := by
        rw [hs]; unfold stackOf; rcases hlr with rfl | rfl | rfl <;> simp
      have hnt : NoText st := by
        unfold NoText; rw [hs0]; unfold sectionCtx; rcases hlr with rfl | rfl | rfl <;> simp
      have hclose : endElement {} st = .ok { st with stack := [Ctx.osmChange] } := by
        rcases st with ⟨stack, header, version, headerOut, cur, out, ct⟩
        simp only at hs0
        subst hs0
        unfold sectionCtx
        rcases hlr with rfl | rfl | rfl <;> simp [endElement]
      let s0 : RSt := { st with stack := [Ctx.osmChange] }
      have hnt0 : NoText s0 := by unfold NoText; simp [s0]
      refine ⟨markDone (push s0 (sectionCtx op)), ?_, ?_, ?_⟩
      · cases hh : st.headerOut <;> simp [Along, markDone, push, hh, s0]
      · cases hh : st.headerOut <;> simp [markDone, push, hh, s0]
      · intro tail
        have hnt2 : NoText (markDone (push s0 (sectionCtx op))) := by
          unfold NoText sectionCtx
          cases hh : st.headerOut <;> rcases hop with rfl | rfl | rfl <;> simp [markDone, push, hh, s0]
        have hl0' : ¬ (last = 0) := hl0
        have hop0 : ¬ (op = 0) := by omega
        simp only [opTagPieces, he, hl0', hop0, if_false, List.nil_append, List.cons_append, List.append_assoc, sp, nl]
        rw [runPieces_ws _ _ _ hnt, runPieces_close, hclose]
        simp only [bindE_ok]
        rw [runPieces_ws _ _ _ hnt0, runPieces_ws _ _ _ hnt0, runPieces_elem _ _ _ _ _ _ hdec, hopen s0 rfl]
        simp only [bindE_ok, Bool.false_eq_true, if_false]
        rw [runPieces_ws _ _ _ hnt2]

/-- the state after a block: all objects appended, section closed -/
def blockResult (o : Opts) (objs : List Object) (st : RSt) : RSt :=
  { (if objs = [] then st else markDone st) with
    stack := [rootCtx o], out := (objs.map (project o)).reverse ++ st.out }

theorem blockResult_step (o : Opts) (st st' : RSt) (hal : Along st st') (obj : Object) (objs : List Object) :
    blockResult o objs { markDone st' with out := project o obj :: st'.out } = blockResult o (obj :: objs) st := by
  rcases st with ⟨stack, header, version, headerOut, cur, out, ct, cp⟩
  rcases st' with ⟨stack', header', version', headerOut', cur', out', ct', cp'⟩
  obtain ⟨h1, h2, h3, h4, h5, h5', h6⟩ := hal
  simp only at h1 h2 h3 h4 h5 h5' h6
  by_cases hn : objs = []
  · cases headerOut <;> cases headerOut' <;> simp_all [blockResult, markDone]
  · cases headerOut <;> cases headerOut' <;> simp_all [blockResult, markDone]

theorem block_run (o : Opts) : ∀ (objs : List Object) (_ : ∀ obj ∈ objs, XObjOK obj) (last : Nat) (_ : last ≤ 3)
    (_ : o.changeOps = false → last = 0) (st : RSt) (_ : st.stack = stackOf o last) (_ : st.cur = none) (tail : List Piece),
    ∃ ps, blockPieces o last objs = .ok ps ∧ runPieces (ps ++ tail) st = runPieces tail (blockResult o objs st) := by
  intro objs
  induction objs with
  | nil =>
    intro _ last hl hl0 st hs hc tail
    cases hco : o.changeOps
    · have := hl0 hco; subst this
      refine ⟨[], by simp [blockPieces, hco], ?_⟩
      have : blockResult o [] st = st := by
        rcases st with ⟨stack, header, version, headerOut, cur, out, ct⟩
        simp only [stackOf, hco] at hs
        simp at hs; subst hs
        simp [blockResult, stackOf]
      rw [this]; rfl
    · by_cases h0 : last = 0
      · subst h0
        refine ⟨[], by simp [blockPieces, hco, opTagPieces], ?_⟩
        have : blockResult o [] st = st := by
          rcases st with ⟨stack, header, version, headerOut, cur, out, ct⟩
          simp only [stackOf, hco] at hs
          simp at hs; subst hs
          simp [blockResult, rootCtx, hco]
        rw [this]; rfl
      · have hlr : last = 1 ∨ last = 2 ∨ last = 3 := by omega
        have hs0 : st.stack = [sectionCtx last, Ctx.osmChange] := by
          rw [hs]; unfold stackOf; rw [hco]; rcases hlr with rfl | rfl | rfl <;> simp
        have hnt : NoText st := by
          unfold NoText; rw [hs0]; unfold sectionCtx; rcases hlr with rfl | rfl | rfl <;> simp
        have hclose : endElement {} st = .ok { st with stack := [Ctx.osmChange] } := by
          rcases st with ⟨stack, header, version, headerOut, cur, out, ct⟩
          simp only at hs0
          subst hs0
          unfold sectionCtx
          rcases hlr with rfl | rfl | rfl <;> simp [endElement]
        have hnt0 : NoText ({ st with stack := [Ctx.osmChange] } : RSt) := by unfold NoText; simp
        have h0' : ¬ (0 = last) := fun h => h0 h.symm
        refine ⟨[sp 2, .close (opName last), nl], by simp [blockPieces, hco, opTagPieces, h0, h0'], ?_⟩
        simp only [List.cons_append, List.nil_append, sp, nl]
        rw [runPieces_ws _ _ _ hnt, runPieces_close, hclose]
        simp only [bindE_ok]
        rw [runPieces_ws _ _ _ hnt0]
        simp [blockResult, rootCtx, hco]
  | cons obj objs ih =>
    intro hall last hl hl0 st hs hc tail
    have hobj := hall obj (by simp)
    have hop := objOp_of obj hobj
    have hrange := opOf_range (objMeta obj)
    cases hco : o.changeOps
    · -- plain file: no sections
      have := hl0 hco; subst this
      have hs0 : st.stack = parentCtx o (objMeta obj) :: [] := by
        rw [hs]; simp [stackOf, hco, parentCtx, rootCtx]
      obtain ⟨ps, hps, hrun⟩ := object_rt o obj hobj st [] hs0 hc
      have hs2 : ({ markDone st with out := project o obj :: st.out } : RSt).stack = stackOf o 0 := by
        rw [← hs]; cases hh : st.headerOut <;> simp [markDone, hh]
      have hc2 : ({ markDone st with out := project o obj :: st.out } : RSt).cur = none := by
        rw [← hc]; cases hh : st.headerOut <;> simp [markDone, hh]
      obtain ⟨qs, hqs, hrun2⟩ := ih (fun x hx => hall x (by simp [hx])) 0 (by omega) (fun _ => rfl)
        { markDone st with out := project o obj :: st.out } hs2 hc2 tail
      refine ⟨ps ++ qs, by simp [blockPieces, hco, hps, hqs], ?_⟩
      rw [List.append_assoc, runPieces_append, hrun]
      simp only [bindE_ok]
      rw [hrun2, blockResult_step o st st ⟨rfl, rfl, rfl, rfl, rfl, rfl, Or.inl rfl⟩]
    · -- change file
      have hs' : st.stack = stackOf { changeOps := true } last := by rw [hs]; simp [stackOf, hco, rootCtx]
      obtain ⟨st', hal, hst', hrunT⟩ := opTags_run last (opOf (objMeta obj)) hrange hl st hs'
      have hpc : parentCtx o (objMeta obj) = sectionCtx (opOf (objMeta obj)) := by simp [parentCtx, hco]
      have hc' : st'.cur = none := by rw [hal.2.2.1, hc]
      obtain ⟨ps, hps, hrun⟩ := object_rt o obj hobj st' [Ctx.osmChange] (by rw [hst', hpc]) hc'
      have hs2 : ({ markDone st' with out := project o obj :: st'.out } : RSt).stack = stackOf o (opOf (objMeta obj)) := by
        have : stackOf o (opOf (objMeta obj)) = [sectionCtx (opOf (objMeta obj)), Ctx.osmChange] := by
          unfold stackOf; rw [hco]; rcases hrange with h | h | h <;> simp [h]
        rw [this, ← hst']; cases hh : st'.headerOut <;> simp [markDone, hh]
      have hc2 : ({ markDone st' with out := project o obj :: st'.out } : RSt).cur = none := by
        rw [← hc']; cases hh : st'.headerOut <;> simp [markDone, hh]
      obtain ⟨qs, hqs, hrun2⟩ := ih (fun x hx => hall x (by simp [hx])) (opOf (objMeta obj))
        (by rcases hrange with h | h | h <;> omega) (fun h => by rw [hco] at h; cases h)
        { markDone st' with out := project o obj :: st'.out } hs2 hc2 tail
      refine ⟨opTagPieces last (opOf (objMeta obj)) ++ ps ++ qs, by simp [blockPieces, hco, hop, hps, hqs], ?_⟩
      rw [List.append_assoc, List.append_assoc, hrunT, runPieces_append, hrun]
      simp only [bindE_ok]
      rw [hrun2, blockResult_step o st st' hal]

/-! ### the whole file (one buffer) -/

theorem projectHeader_eq (o : Opts) (h : Header) :
    projectHeader o h = { generator := h.generator, boxes := h.boxes.map normBox, multipleVersions := o.changeOps } := by
  unfold projectHeader
  congr 1

theorem file_run (o : Opts) (h : Header) (objs : List Object) (hh : XHeaderOK h) (hall : ∀ obj ∈ objs, XObjOK obj) :
    ∃ ps, filePieces o h [objs] = .ok ps ∧
      ∃ r : RSt, runPieces ps {} = .ok r ∧ (markDone r).headerOut.getD (markDone r).header = projectHeader o h ∧
        (markDone r).out.reverse = objs.map (project o) := by
  have hs0 : (stHeader o h).stack = stackOf o 0 := by simp [stHeader, stRoot, stackOf]
  obtain ⟨bs, hbs, hrun⟩ := block_run o objs hall 0 (by omega) (fun _ => rfl) (stHeader o h) hs0 rfl (endPieces o)
  let r0 := blockResult o objs (stHeader o h)
  have hroot : rootCtx o = .osm ∨ rootCtx o = .osmChange := by unfold rootCtx; cases o.changeOps <;> simp
  have hend : endElement {} r0 = .ok { markDone r0 with stack := [] } := by
    have hst : r0.stack = [rootCtx o] := rfl
    generalize r0 = r at hst
    rcases r with ⟨stack, header, version, headerOut, cur, out, ct⟩
    simp only at hst; subst hst
    rcases hroot with h' | h' <;> rw [h'] <;> cases headerOut <;> simp [endElement, markDone]
  refine ⟨headerPieces o h ++ bs ++ endPieces o, by simp [filePieces, mapE, hbs], { markDone r0 with stack := [] }, ?_, ?_, ?_⟩
  · rw [List.append_assoc, header_run o h hh, hrun]
    have hnt : NoText ({ markDone r0 with stack := [] } : RSt) := by unfold NoText; simp
    have e : endPieces o = [Piece.close (rootName o), nl] := by unfold endPieces rootName; cases o.changeOps <;> rfl
    rw [e, runPieces_close, hend]
    simp only [bindE_ok, nl]
    rw [runPieces_ws _ _ _ hnt, runPieces]
  · rw [projectHeader_eq]
    by_cases hn : objs = [] <;> simp [r0, blockResult, hn, markDone, stHeader, stRoot]
  · by_cases hn : objs = [] <;> simp [r0, blockResult, hn, markDone, stHeader, stRoot]

end Osmium.XmlFmt
