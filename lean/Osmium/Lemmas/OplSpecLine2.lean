/-
Line level of `opl_decode_spec` (C02), part 2: the sections of the specification renderer — tags
(`OplSpec.tagsBody`), way nodes (`OplSpec.refBody`), relation members — in every escape style and
with padded coordinates, in front of a space, a TAB or the end of the line.
-/
import Osmium.Lemmas.OplSpecLine

namespace Osmium.OplFmt
open Osmium.Osm Osmium.TextFmt Osmium.Conv Osmium.Utf8
open Osmium.Conv.IntLemmas (NoDigitHead)

/-! ### joined lists -/

theorem joinSep_clean (xs : List Bytes) (h : ∀ x ∈ xs, ∀ b ∈ x, CleanB b) : ∀ b ∈ joinSep 0x2c xs, CleanB b := by
  induction xs with
  | nil => intro b hb; cases hb
  | cons x xs ih =>
    cases xs with
    | nil => simpa [joinSep] using h x (by simp)
    | cons y ys =>
      intro b hb
      rw [joinSep_cons2] at hb
      rcases List.mem_append.1 hb with hb | hb
      · exact h x (by simp) b hb
      · rcases List.mem_cons.1 hb with rfl | hb
        · decide
        · exact ih (fun z hz => h z (by simp [hz])) b hb

theorem mapE_ok {α : Type} (g : α → Bytes) (l : List α) :
    mapE (fun a => (Except.ok (g a) : Except WErr Bytes)) l = .ok (l.map g) := by
  induction l with
  | nil => rfl
  | cons a l ih => simp [mapE, ih]

/-- `sepList_spec` for a total rendering function -/
theorem sepList_spec' {α β : Type} (g : α → Bytes) (item : Bytes → Except PErr (β × Bytes))
    (expect : α → β) (l : List α)
    (h : ∀ a ∈ l, g a ≠ [] ∧ AllNE (g a) ∧ ∀ tail, CommaOrEnd tail → item (g a ++ tail) = .ok (expect a, tail)) :
    AllNE (joinSep 0x2c (l.map g)) ∧ l.length ≤ (joinSep 0x2c (l.map g)).length ∧
      ∀ fuel, l.length < fuel → pSepList item fuel (joinSep 0x2c (l.map g)) = .ok (l.map expect) := by
  obtain ⟨xs, hxs, h1, h2, h3⟩ := sepList_spec (fun a => (Except.ok (g a) : Except WErr Bytes)) item expect l
    (fun a ha => ⟨g a, rfl, (h a ha).1, (h a ha).2.1, (h a ha).2.2⟩)
  rw [mapE_ok] at hxs
  cases hxs
  exact ⟨h1, h2, h3⟩

/-! ### tags -/

theorem tagsBody_single (ch : OplSpec.Choices) (t : Tag) :
    OplSpec.tagsBody ch [t] = OplSpec.str ch t.key ++ 0x3d :: OplSpec.str ch t.value := rfl

theorem tagsBody_cons2 (ch : OplSpec.Choices) (t t2 : Tag) (ts : List Tag) :
    OplSpec.tagsBody ch (t :: t2 :: ts)
      = (OplSpec.str ch t.key ++ 0x3d :: OplSpec.str ch t.value) ++ 0x2c :: OplSpec.tagsBody ch (t2 :: ts) := rfl

theorem tagsBody_spec (ch : OplSpec.Choices) (ts : List Tag) (h : ∀ t ∈ ts, TagOK t) :
    AllNE (OplSpec.tagsBody ch ts) ∧ (∀ b ∈ OplSpec.tagsBody ch ts, CleanB b) ∧
      (ts ≠ [] → OplSpec.tagsBody ch ts ≠ []) ∧ ts.length ≤ (OplSpec.tagsBody ch ts).length ∧
      ∀ rest, Sep' rest → ∀ fuel, ts.length ≤ fuel → ts ≠ [] →
        pTags fuel (OplSpec.tagsBody ch ts ++ rest) = .ok ts := by
  induction ts with
  | nil =>
    exact ⟨AllNE.nil, fun b hb => by simp [OplSpec.tagsBody, joinSep] at hb, fun h => absurd rfl h, Nat.zero_le _,
      fun _ _ _ _ h => absurd rfl h⟩
  | cons t ts ih =>
    obtain ⟨hne, hcl, hnn, hlen, hp⟩ := ih (fun t' ht' => h t' (by simp [ht']))
    obtain ⟨hkn, hkp⟩ := specStr_pStr ch t.key (h t (by simp)).1
    obtain ⟨hvn, hvp⟩ := specStr_pStr ch t.value (h t (by simp)).2
    have hkl := strOK_len (h t (by simp)).1
    have hvl := strOK_len (h t (by simp)).2
    have hlenchk : (t.key.length > maxString || t.value.length > maxString) = false := by
      simp [maxString]; omega
    have hxa : AllNE (OplSpec.str ch t.key ++ 0x3d :: OplSpec.str ch t.value) :=
      (AllNE_of_noStructural hkn).append (AllNE.cons (by decide) (AllNE_of_noStructural hvn))
    have hxc : ∀ b ∈ OplSpec.str ch t.key ++ 0x3d :: OplSpec.str ch t.value, CleanB b := by
      intro b hb
      rcases List.mem_append.1 hb with hb | hb
      · exact clean_of_noStructural hkn b hb
      · rcases List.mem_cons.1 hb with rfl | hb
        · decide
        · exact clean_of_noStructural hvn b hb
    have s3d : ∀ t : Bytes, Opl.AtStop (0x3d :: t) := fun t => Or.inr ⟨0x3d, t, rfl, by decide⟩
    have s2c : ∀ t : Bytes, Opl.AtStop (0x2c :: t) := fun t => Or.inr ⟨0x2c, t, rfl, by decide⟩
    cases ts with
    | nil =>
      rw [tagsBody_single]
      refine ⟨hxa, hxc, fun _ => by simp, by simp only [List.length_append, List.length_cons, List.length_nil]; omega, ?_⟩
      intro rest hr fuel hf _
      cases fuel with
      | zero => simp at hf
      | succ f =>
        have e1 : (OplSpec.str ch t.key ++ 0x3d :: OplSpec.str ch t.value) ++ rest
            = OplSpec.str ch t.key ++ (0x3d :: (OplSpec.str ch t.value ++ rest)) := by simp
        rw [e1]
        simp only [pTags, hkp _ (s3d _), bindE_ok, pChar, if_true, hvp rest hr.atStop]
        simp [hlenchk, hr.spOrEnd]
    | cons t2 ts2 =>
      have hnn' := hnn (by simp)
      rw [tagsBody_cons2]
      refine ⟨hxa.append (AllNE.cons (by decide) hne), ?_, fun _ => by simp, ?_, ?_⟩
      · intro b hb
        rcases List.mem_append.1 hb with hb | hb
        · exact hxc b hb
        · rcases List.mem_cons.1 hb with rfl | hb
          · decide
          · exact hcl b hb
      · simp only [List.length_append, List.length_cons] at hlen ⊢; omega
      · intro rest hr fuel hf _
        cases fuel with
        | zero => simp at hf
        | succ f =>
          have hrec := hp rest hr f (by simp at hf ⊢; omega) (by simp)
          have e1 : ((OplSpec.str ch t.key ++ 0x3d :: OplSpec.str ch t.value) ++ 0x2c :: OplSpec.tagsBody ch (t2 :: ts2)) ++ rest
              = OplSpec.str ch t.key ++ (0x3d :: (OplSpec.str ch t.value ++ (0x2c :: (OplSpec.tagsBody ch (t2 :: ts2) ++ rest)))) := by
            simp
          rw [e1]
          simp only [pTags, hkp _ (s3d _), bindE_ok, pChar, if_true, hvp _ (s2c _)]
          simp [hlenchk, peek, isSpTab, hrec]

/-! ### way nodes -/

theorem refBody_spec (ch : OplSpec.Choices) (n : NodeRef) (h : RefOK n) :
    OplSpec.refBody ch n ≠ [] ∧ AllNE (OplSpec.refBody ch n) ∧ (∀ b ∈ OplSpec.refBody ch n, CleanB b) ∧
      ∀ tail, CommaOrEnd tail → pWayNode (OplSpec.refBody ch n ++ tail) = .ok (n, tail) := by
  obtain ⟨hrne, hrn, hrp⟩ := int_pId n.ref h.1 h.2.1
  have he := fun tail => (head_num_peek (t := tail) hrne hrn).2
  rcases h.2.2 with hu | hv
  · -- undefined: "n<ref>"
    have hb : bothDefined n.location = false := by rw [hu]; decide
    have e : OplSpec.refBody ch n = 0x6e :: OplSpec.int n.ref := by simp [OplSpec.refBody, hb]
    rw [e]
    refine ⟨by simp, AllNE.cons (by decide) (AllNE_of_num hrn), ?_, ?_⟩
    · intro b hb
      rcases List.mem_cons.1 hb with rfl | hb
      · decide
      · exact (hrn b hb).clean
    · intro tail ht
      have hn : n = ⟨n.ref, Location.undefined⟩ := by cases n; simp_all
      simp only [List.cons_append, pWayNode, pChar, if_true, bindE_ok, he, Bool.false_eq_true, if_false,
        hrp tail ht.noDigit]
      rcases ht with rfl | ⟨m, rfl⟩
      · simp; exact hn.symm
      · simp [pRefLocation, peek]; exact hn.symm
  · -- valid: "n<ref>x<lon>y<lat>"
    obtain ⟨hx1, hx2, hy1, hy2, hb, _⟩ := valid_range hv
    obtain ⟨⟨cxne, cxn⟩, cxp⟩ := specCoord_pCoord ch n.location.x hx1 hx2
    obtain ⟨⟨cyne, cyn⟩, cyp⟩ := specCoord_pCoord ch n.location.y hy1 hy2
    have e : OplSpec.refBody ch n
        = 0x6e :: OplSpec.int n.ref ++ 0x78 :: (OplSpec.coord ch n.location.x ++ 0x79 :: OplSpec.coord ch n.location.y) := by
      simp [OplSpec.refBody, hb]
    rw [e]
    refine ⟨by simp, ?_, ?_, ?_⟩
    · exact (AllNE.cons (by decide) (AllNE_of_num hrn)).append (AllNE.cons (by decide)
        ((AllNE_of_num cxn).append (AllNE.cons (by decide) (AllNE_of_num cyn))))
    · intro b hb
      simp only [List.cons_append, List.mem_cons, List.mem_append] at hb
      rcases hb with rfl | hb | rfl | hb | rfl | hb
      · decide
      · exact (hrn b hb).clean
      · decide
      · exact (cxn b hb).clean
      · decide
      · exact (cyn b hb).clean
    · intro tail ht
      have e1 : (0x6e :: OplSpec.int n.ref ++ 0x78 :: (OplSpec.coord ch n.location.x ++ 0x79 :: OplSpec.coord ch n.location.y)) ++ tail
          = 0x6e :: (OplSpec.int n.ref ++ (0x78 :: (OplSpec.coord ch n.location.x ++ (0x79 :: (OplSpec.coord ch n.location.y ++ tail))))) := by
        simp
      have hnd : NoDigitHead (0x78 :: (OplSpec.coord ch n.location.x ++ (0x79 :: (OplSpec.coord ch n.location.y ++ tail)))) := by
        simp [NoDigitHead, peek, isDigit]
      have hty : C13.Terminates (0x79 :: (OplSpec.coord ch n.location.y ++ tail)) :=
        ⟨by simp [NoDigitHead, peek, isDigit], by simp [peek, cDot], by simp [peek, ce], by simp [peek, cE]⟩
      obtain ⟨px, pxe⟩ := head_num_peek (t := 0x79 :: (OplSpec.coord ch n.location.y ++ tail)) cxne cxn
      obtain ⟨py, pye⟩ := head_num_peek (t := tail) cyne cyn
      have px1 := px.facts.2.2.2.2.1
      have px2 := px.facts.2.1
      have py2 := py.facts.2.1
      have c1 : (!(OplSpec.coord ch n.location.x ++ 0x79 :: (OplSpec.coord ch n.location.y ++ tail)).isEmpty &&
          peek (OplSpec.coord ch n.location.x ++ 0x79 :: (OplSpec.coord ch n.location.y ++ tail)) != 0x79 &&
          peek (OplSpec.coord ch n.location.x ++ 0x79 :: (OplSpec.coord ch n.location.y ++ tail)) != 0x2c) = true := by
        simp [pxe, px1, px2]
      have c2 : (!(OplSpec.coord ch n.location.y ++ tail).isEmpty && peek (OplSpec.coord ch n.location.y ++ tail) != 0x2c) = true := by
        simp [pye, py2]
      have hloc : pRefLocation (0x78 :: (OplSpec.coord ch n.location.x ++ (0x79 :: (OplSpec.coord ch n.location.y ++ tail))))
          = .ok (n.location, tail) := by
        unfold pRefLocation
        have p0 : peek (0x78 :: (OplSpec.coord ch n.location.x ++ (0x79 :: (OplSpec.coord ch n.location.y ++ tail)))) = 0x78 := rfl
        have p1 : peek (0x79 :: (OplSpec.coord ch n.location.y ++ tail)) = 0x79 := rfl
        simp only [p0, beq_self_eq_true, if_true, List.tail_cons, c1, cxp _ hty, bindE_ok, p1,
          c2, cyp _ ht.terminates]
      rw [e1]
      simp only [pWayNode, pChar, if_true, bindE_ok, he, Bool.false_eq_true, if_false, hrp _ hnd, List.isEmpty_cons, hloc]

theorem nodesBody_spec (ch : OplSpec.Choices) (ns : List NodeRef) (h : ∀ n ∈ ns, RefOK n) :
    AllNE (joinSep 0x2c (ns.map (OplSpec.refBody ch))) ∧ (∀ b ∈ joinSep 0x2c (ns.map (OplSpec.refBody ch)), CleanB b) ∧
      pWayNodes ((joinSep 0x2c (ns.map (OplSpec.refBody ch))).length + 1) (joinSep 0x2c (ns.map (OplSpec.refBody ch))) = .ok ns := by
  obtain ⟨h1, h2, h3⟩ := sepList_spec' (OplSpec.refBody ch) pWayNode id ns
    (fun n hn => ⟨(refBody_spec ch n (h n hn)).1, (refBody_spec ch n (h n hn)).2.1, (refBody_spec ch n (h n hn)).2.2.2⟩)
  refine ⟨h1, joinSep_clean _ ?_, ?_⟩
  · intro x hx
    obtain ⟨n, hn, rfl⟩ := List.mem_map.1 hx
    exact (refBody_spec ch n (h n hn)).2.2.1
  · have := h3 ((joinSep 0x2c (ns.map (OplSpec.refBody ch))).length + 1) (by omega)
    simpa [pWayNodes] using this

/-! ### relation members -/

def memberBody (ch : OplSpec.Choices) (x : Member) : Bytes :=
  typeChar x.type :: OplSpec.int x.ref ++ 0x40 :: OplSpec.str ch x.role

theorem memberBody_spec (ch : OplSpec.Choices) (m : Member) (h : MemberOK m) :
    memberBody ch m ≠ [] ∧ AllNE (memberBody ch m) ∧ (∀ b ∈ memberBody ch m, CleanB b) ∧
      ∀ tail, CommaOrEnd tail → pMember (memberBody ch m ++ tail) = .ok (m, tail) := by
  obtain ⟨ht, h0, h1, hs⟩ := h
  obtain ⟨hrne, hrn, hrp⟩ := int_pId m.ref h0 h1
  obtain ⟨hen, hep⟩ := specStr_pStr ch m.role hs
  have hlen := strOK_len hs
  have htc : charType (typeChar m.type) = m.type ∧ nonEmptyB (typeChar m.type) = true ∧ CleanB (typeChar m.type) := by
    rcases ht with h | h | h <;> rw [h] <;> decide
  unfold memberBody
  refine ⟨by simp, ?_, ?_, ?_⟩
  · exact (AllNE.cons htc.2.1 (AllNE_of_num hrn)).append (AllNE.cons (by decide) (AllNE_of_noStructural hen))
  · intro b hb
    simp only [List.cons_append, List.mem_cons, List.mem_append] at hb
    rcases hb with rfl | hb | rfl | hb
    · exact htc.2.2
    · exact (hrn b hb).clean
    · decide
    · exact clean_of_noStructural hen b hb
  · intro tail htl
    have e1 : (typeChar m.type :: OplSpec.int m.ref ++ 0x40 :: OplSpec.str ch m.role) ++ tail
        = typeChar m.type :: (OplSpec.int m.ref ++ (0x40 :: (OplSpec.str ch m.role ++ tail))) := by simp
    have hnd : NoDigitHead (0x40 :: (OplSpec.str ch m.role ++ tail)) := by simp [NoDigitHead, peek, isDigit]
    have hre := (head_num_peek (t := 0x40 :: (OplSpec.str ch m.role ++ tail)) hrne hrn).2
    have hc0 : ¬ (charType (typeChar m.type) = 0) := by rw [htc.1]; rcases ht with h | h | h <;> omega
    rw [e1]
    simp only [pMember, hre, Bool.false_eq_true, hrp _ hnd, bindE_ok, pChar, if_true, htc.1, if_false]
    have hp := hep tail htl.atStop
    by_cases hemp : (OplSpec.str ch m.role ++ tail).isEmpty = true
    · have : OplSpec.str ch m.role = [] ∧ tail = [] := by simpa using hemp
      obtain ⟨he', rfl⟩ := this
      rw [he'] at hp ⊢
      rw [List.append_nil, pStr_nil] at hp
      have hrole : m.role = [] := by
        have := Except.ok.inj hp
        exact (congrArg Prod.fst this).symm
      have hc0' : ¬ (m.type = 0) := by rw [← htc.1]; exact hc0
      simp only [List.append_nil, List.isEmpty_nil, if_true, hc0', if_false]
      cases m; simp_all
    · have hlc : ¬ (m.role.length > maxString) := by simp [maxString]; omega
      have hc0' : ¬ (m.type = 0) := by rw [← htc.1]; exact hc0
      simp only [hemp, Bool.false_eq_true, if_false, hp, bindE_ok, hlc, hc0']

theorem membersBody_spec (ch : OplSpec.Choices) (ms : List Member) (h : ∀ x ∈ ms, MemberOK x) :
    AllNE (joinSep 0x2c (ms.map (memberBody ch))) ∧ (∀ b ∈ joinSep 0x2c (ms.map (memberBody ch)), CleanB b) ∧
      pMembers ((joinSep 0x2c (ms.map (memberBody ch))).length + 1) (joinSep 0x2c (ms.map (memberBody ch))) = .ok ms := by
  obtain ⟨h1, h2, h3⟩ := sepList_spec' (memberBody ch) pMember id ms
    (fun x hx => ⟨(memberBody_spec ch x (h x hx)).1, (memberBody_spec ch x (h x hx)).2.1, (memberBody_spec ch x (h x hx)).2.2.2⟩)
  refine ⟨h1, joinSep_clean _ ?_, ?_⟩
  · intro x hx
    obtain ⟨n, hn, rfl⟩ := List.mem_map.1 hx
    exact (memberBody_spec ch n (h n hn)).2.2.1
  · have := h3 ((joinSep 0x2c (ms.map (memberBody ch))).length + 1) (by omega)
    simpa [pMembers] using this

end Osmium.OplFmt
