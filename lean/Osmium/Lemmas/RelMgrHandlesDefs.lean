/-
C11: the member-handle part of the run-long invariant of the relation manager model —
definitions and elementary lemmas.  Core-only.

`HInv`    every element of a range whose object has arrived and that still has a non-removed
          element carries a valid handle to the live stash copy of that object; elements of
          objects that have not arrived have the invalid handle; with the repaired `remove()`
          (`fixed = true`) the elements of a range without non-removed element have the invalid
          handle again.
`NumInv`  an element is non-removed iff its relation has not been completed (elements tracking
          member id 0 are never removed: `remove_members` skips `ref == 0`).
`RemInv`  the same in the middle of `remove_members` of relation `q`: the non-removed elements
          of `q` are the members not yet processed (with multiplicity).
`XInv`    all elements of a range carry the same handle; no object item of the stash is live
          without a non-removed element referring to it.
-/
import Osmium.Lemmas.RelMgrInv

namespace Osmium.RelMgr

open Osmium.Order (Kind CheckState checkStep)

def okey (o : Obj) : Kind × Int := (o.kind, o.id)

/-- number of non-removed elements tracking member id `id` -/
def liveRefs (es : List Elem) (id : Int) : Nat := es.countP (fun e => e.mid == id && e.num.isSome)

structure HInv (fixed : Bool) (SO : List Obj) (s : State) : Prop where
  live : ∀ k, ∀ e ∈ s.getDb k, 0 < liveRefs (s.getDb k) e.mid → ∀ o ∈ SO, o.kind = k → o.id = e.mid →
    e.h ≠ 0 ∧ stashGet s.stash e.h = some (.obj o)
  fresh : ∀ k, ∀ e ∈ s.getDb k, (k, e.mid) ∉ SO.map okey → e.h = 0
  gone : fixed = true → ∀ k, ∀ e ∈ s.getDb k, liveRefs (s.getDb k) e.mid = 0 → e.h = 0

/-- all elements of a range carry the same handle; an object item of the stash is live only
    while a non-removed element refers to it (nothing leaks) -/
structure XInv (s : State) : Prop where
  uniform : ∀ k, ∀ e ∈ s.getDb k, ∀ e' ∈ s.getDb k, e.mid = e'.mid → e.h = e'.h
  noleak : ∀ h o, stashGet s.stash h = some (.obj o) →
    ∃ k, ∃ e ∈ s.getDb k, e.h = h ∧ e.num.isSome = true

def NumInv (s : State) : Prop :=
  ∀ k, ∀ e ∈ s.getDb k, e.num.isSome = (e.mid == 0 || !deadB s e.rpos)

structure RemInv (q : Nat) (ms : List Member) (s : State) : Prop where
  other : ∀ k, ∀ e ∈ s.getDb k, e.rpos ≠ q → e.num.isSome = (e.mid == 0 || !deadB s e.rpos)
  zero : ∀ k, ∀ e ∈ s.getDb k, e.mid = 0 → e.num.isSome = true
  mine : ∀ k id, id ≠ 0 →
    (s.getDb k).countP (fun e => e.mid == id && e.rpos == q && e.num.isSome) =
      ms.countP (fun m => m.kind == k && m.ref == id)

/-- what never changes during the second pass -/
structure Ctx (Rm : Nat → Rel) (n : Nat) (base : Base) : Prop where
  uniq : ∀ p q, p < n → q < n → (Rm p).id = (Rm q).id → p = q
  members : ∀ q, q < n → ∀ k id, id ≠ 0 →
    (Rm q).members.countP (fun m => m.kind == k && m.ref == id) = refCount base k id q
  sorted0 : ∀ k, (base k).Pairwise (fun a b => a.1 ≤ b.1)
  rposlt : ∀ k, ∀ x ∈ base k, x.2 < n

/-- the lookups of every logged completion: one per member with `ref ≠ 0` of the stored
    relation, in member order, each returning the arrived object of that type and id; with the
    repaired `remove()` no logged query returned a pointer computed from a released entry -/
def LooksOK (Rm : Nat → Rel) (fixed : Bool) (SO : List Obj) (l : List Event) : Prop :=
  ∀ e ∈ l, match e with
    | .complete p _ _ looks =>
      looks.map (·.1) = (Rm p).members.filter (fun m => m.ref ≠ 0) ∧
      ∀ ml ∈ looks, ∃ o ∈ SO, o.kind = ml.1.kind ∧ o.id = ml.1.ref ∧ ml.2 = .found o
    | .query _ _ res => fixed = true → res ≠ .wild
    | _ => True

/-- the invariant between two iterations of the loop in `MembersDatabase::add` -/
structure LInv (Rm : Nat → Rel) (n : Nat) (base : Base) (fixed : Bool) (SO : List Obj) (s : State) : Prop where
  inv2 : Inv2 Rm n s
  skelEq : ∀ k, skel (s.getDb k) = base k
  hinv : HInv fixed SO s
  xinv : XInv s
  num : NumInv s
  looks : LooksOK Rm fixed SO s.log

/-- all wanted members of relation `q` have arrived -/
def Arrived (base : Base) (SO : List Obj) (q : Nat) : Prop :=
  ∀ k, ∀ x ∈ base k, x.2 = q → (k, x.1) ∈ SO.map okey

/-! ### ItemStash -/

theorem stashGet_stashRemove (st : Stash) (h h' : Nat) :
    stashGet (stashRemove st h) h' = if h' = h then none else stashGet st h' := by
  unfold stashRemove
  by_cases h0 : h = 0
  · subst h0
    by_cases h1 : h' = 0
    · subst h1; simp [stashGet]
    · simp [h1]
  · rw [if_neg h0]
    by_cases h1 : h' = 0
    · subst h1
      have : ¬ (0 = h) := fun x => h0 x.symm
      simp [stashGet, this]
    · by_cases hh : h' = h
      · subst hh
        simp only [stashGet, if_neg h1, if_true, Array.getElem?_setIfInBounds]
        split <;> simp_all
      · have : ¬ (h - 1 = h' - 1) := by omega
        simp [stashGet, h1, hh, this]

theorem stashGet_push (st : Stash) (x : Option Item) (h : Nat) (it : Item) (hg : stashGet st h = some it) :
    stashGet (st.push x) h = some it := by
  unfold stashGet at hg ⊢
  split at hg
  · cases hg
  · rename_i h0
    rw [if_neg h0]
    have hlt : h - 1 < st.size := by
      rcases Nat.lt_or_ge (h - 1) st.size with hl | hl
      · exact hl
      · rw [Array.getElem?_eq_none hl] at hg; simp at hg
    rw [Array.getElem?_push, if_neg (by omega)]
    exact hg

theorem stashGet_push_old (st : Stash) (x : Option Item) (h : Nat) (hne : h ≠ st.size + 1) :
    stashGet (st.push x) h = stashGet st h := by
  unfold stashGet
  split
  · rfl
  · rw [Array.getElem?_push, if_neg (by omega)]

theorem stashGet_push_new (st : Stash) (it : Item) : stashGet (st.push (some it)) (st.size + 1) = some it := by
  simp [stashGet]

/-! ### `markFirst` -/

theorem markFirst_of_exists (f : Nat → Option Int) (relid : Int) :
    ∀ l : List Elem, (∃ e ∈ l, e.num.isSome = true ∧ f e.rpos = some relid) →
      ∃ l1 e l2, l = l1 ++ e :: l2 ∧ e.num.isSome = true ∧ f e.rpos = some relid ∧
        markFirst f relid l = l1 ++ { e with num := none } :: l2 := by
  intro l
  induction l with
  | nil => rintro ⟨e, he, _⟩; cases he
  | cons a l ih =>
    intro hex
    by_cases ha : a.num.isSome = true ∧ f a.rpos = some relid
    · refine ⟨[], a, l, rfl, ha.1, ha.2, ?_⟩
      simp [markFirst, ha.1, ha.2]
    · have hex' : ∃ e ∈ l, e.num.isSome = true ∧ f e.rpos = some relid := by
        obtain ⟨e, he, h1, h2⟩ := hex
        rcases List.mem_cons.mp he with rfl | he
        · exact absurd ⟨h1, h2⟩ ha
        · exact ⟨e, he, h1, h2⟩
      obtain ⟨l1, e, l2, hl, h1, h2, hm⟩ := ih hex'
      refine ⟨a :: l1, e, l2, by rw [hl]; rfl, h1, h2, ?_⟩
      have : ¬ ((a.num.isSome && f a.rpos == some relid) = true) := by
        simpa [Bool.and_eq_true] using ha
      simp only [markFirst, if_neg this, hm, List.cons_append]

theorem markFirst_map (f : Nat → Option Int) (relid : Int) (g : Elem → Elem)
    (hnum : ∀ e, (g e).num = e.num) (hrpos : ∀ e, (g e).rpos = e.rpos)
    (hcomm : ∀ e : Elem, g { e with num := none } = { g e with num := none }) :
    ∀ l : List Elem, markFirst f relid (l.map g) = (markFirst f relid l).map g := by
  intro l
  induction l with
  | nil => rfl
  | cons a l ih =>
    simp only [List.map_cons, markFirst, hnum, hrpos]
    split
    · simp [hcomm, hrpos]
    · simp [ih]

/-- `markFirst` only looks at the elements it is given -/
theorem markFirst_congr (f g : Nat → Option Int) (relid : Int) :
    ∀ l : List Elem, (∀ e ∈ l, f e.rpos = g e.rpos) → markFirst f relid l = markFirst g relid l := by
  intro l
  induction l with
  | nil => intro _; rfl
  | cons a l ih =>
    intro h
    simp only [markFirst]
    rw [h a (List.mem_cons_self ..), ih (fun e he => h e (List.mem_cons_of_mem _ he))]

/-! ### the range of an id in a sorted database -/

/-- `remove()` invalidating the handles of the range of `id` (repaired code, last reference) -/
def zap (b : Bool) (id : Int) (e : Elem) : Elem := if b && e.mid == id then { e with h := 0 } else e

theorem zap_fields (b : Bool) (id : Int) (e : Elem) :
    (zap b id e).mid = e.mid ∧ (zap b id e).num = e.num ∧ (zap b id e).rpos = e.rpos ∧
    (zap b id e).h = if b && e.mid == id then 0 else e.h := by
  unfold zap; split <;> simp_all

theorem countNotRemoved_filter (es : List Elem) (id : Int) :
    countNotRemoved (es.filter (fun e => e.mid == id)) = liveRefs es id := by
  simp [countNotRemoved, liveRefs, List.countP_eq_length_filter, List.filter_filter, Bool.and_comm]

/-- `get_object(id)` on a database sorted by member id -/
theorem dbLookup_sorted (st : Stash) (es : List Elem) (id : Int) (hs : SortedById es) :
    dbLookup st es id =
      match es.filter (fun e => e.mid == id) with
      | [] => .absent
      | e :: _ => if e.h = 0 then .absent else
        match stashGet st e.h with
        | some (.obj o) => .found o
        | _ => .wild := by
  unfold dbLookup
  rw [splitRange_sorted es id hs]
  rfl

theorem hinv_congr {fixed : Bool} {SO : List Obj} {s t : State} (h : HInv fixed SO s)
    (h1 : t.stash = s.stash) (h3 : ∀ k, t.getDb k = s.getDb k) : HInv fixed SO t := by
  refine ⟨?_, ?_, ?_⟩
  · intro k e he; rw [h3] at he ⊢; rw [h1]; exact h.live k e he
  · intro k e he; rw [h3] at he; exact h.fresh k e he
  · intro hf k e he; rw [h3] at he ⊢; exact h.gone hf k e he

theorem xinv_congr {s t : State} (h : XInv s) (h1 : t.stash = s.stash) (h3 : ∀ k, t.getDb k = s.getDb k) :
    XInv t := by
  refine ⟨?_, ?_⟩
  · intro k e he e' he'; rw [h3] at he he'; exact h.uniform k e he e' he'
  · intro hh o hg
    rw [h1] at hg
    obtain ⟨k, e, he, h2⟩ := h.noleak hh o hg
    exact ⟨k, e, by rw [h3]; exact he, h2⟩

theorem numInv_congr {s t : State} (h : NumInv s) (h2 : t.rdb = s.rdb) (h3 : ∀ k, t.getDb k = s.getDb k) :
    NumInv t := by
  intro k e he
  rw [h3] at he
  have : deadB t e.rpos = deadB s e.rpos := by simp [deadB, h2]
  rw [this]; exact h k e he

theorem looksOK_mono {Rm : Nat → Rel} {fixed : Bool} {SO SO' : List Obj} {l : List Event}
    (h : LooksOK Rm fixed SO l) (hsub : ∀ o ∈ SO, o ∈ SO') : LooksOK Rm fixed SO' l := by
  intro e he
  have := h e he
  cases e with
  | complete p rid cont looks =>
    obtain ⟨h1, h2⟩ := this
    refine ⟨h1, ?_⟩
    intro ml hml
    obtain ⟨o, ho, h3⟩ := h2 ml hml
    exact ⟨o, hsub o ho, h3⟩
  | completeWild q => trivial
  | notIn k id => trivial
  | query k id r => exact this
  | thrown => trivial

end Osmium.RelMgr
