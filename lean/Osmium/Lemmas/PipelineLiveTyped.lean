/-
Progress (C07), part: typing of the two queues (`Live.typed`) and the wait-for fact about futures
of submitted blobs (`Live.out_fut_ready`), as invariants over all reachable states.
-/
import Osmium.Lemmas.PipelineLiveIds

set_option linter.unusedSimpArgs false
set_option linter.unusedVariables false

namespace Osmium.Pipeline
open Osmium.Mon
variable {α : Type} [DecidableEq α]

namespace Live

def notBuf : Val α → Prop
  | .buf _ => False
  | _ => True

def notChunk : Val α → Prop
  | .chunk _ => False
  | _ => True

/-- the value a thread is handing to push() -/
def rVal : RPc α → Option (Val α)
  | .push v _ | .pushing _ v _ | .pushed _ v _ => some v
  | _ => none
def pVal : PPc α → Option (Val α)
  | .push v _ | .pushing _ (some v) _ | .pushed _ v _ => some v
  | _ => none

syntax "ty_close " ident : tactic
macro_rules
  | `(tactic| ty_close $ih:ident) => `(tactic|
      first
        | exact $ih
        | (ap_norm; exact $ih)
        | (simp_all [setPc_apply, pCont, rCont, rVal, pVal, notBuf, notChunk]; done)
        | (cases ‹RK› <;> simp_all [setPc_apply, pCont, rCont, rVal, pVal, notBuf, notChunk]; done)
        | (cases ‹PK› <;> simp_all [setPc_apply, pCont, rCont, rVal, pVal, notBuf, notChunk]; done)
        | (simp only [setPc_apply, pCont, rCont, rVal, pVal, notBuf, notChunk] at *; grind))

set_option maxHeartbeats 1600000 in
/-- the read thread never pushes a buffer -/
theorem r_noBuf (c : Cfg α) : ∀ s, (machine c).Reachable s → ∀ v, rVal s.rpc = some v → notBuf v := by
  apply Machine.invariant
  · simp [machine, init, rVal]
  · intro s e s' _ ih hst
    plv_cases e with hst q hq
    all_goals ty_close ih

set_option maxHeartbeats 1600000 in
/-- the parser thread never pushes an input chunk -/
theorem p_noChunk (c : Cfg α) : ∀ s, (machine c).Reachable s → ∀ v, pVal s.ppc = some v → notChunk v := by
  apply Machine.invariant
  · simp [machine, init, pVal]
  · intro s e s' _ ih hst
    plv_cases e with hst q hq
    all_goals ty_close ih

set_option maxHeartbeats 1600000 in
/-- even ids are promised input values, odd ids osmdata values -/
theorem want_ty (c : Cfg α) : ∀ s, (machine c).Reachable s →
    ∀ id, (id % 2 = 0 → notBuf (s.want id)) ∧ (id % 2 = 1 → notChunk (s.want id)) := by
  apply Machine.invariant
  · simp [machine, init, notBuf, notChunk]
  · intro s e s' hr ih hst
    have h1 := r_noBuf c s hr
    have h2 := p_noChunk c s hr
    plv_cases e with hst q hq
    all_goals first
      | exact ih
      | (ap_norm; exact ih)
      | (intro id; have := ih id; simp only [setPc_apply]; split <;> simp_all [rVal, pVal, notBuf, notChunk])

theorem fut_ty (c : Cfg α) (s : State α) (h : (machine c).Reachable s) (id : Nat) (v : Val α)
    (hf : s.fut id = some v) : (id % 2 = 0 → notBuf v) ∧ (id % 2 = 1 → notChunk v) := by
  have := (n_fut c s h id v hf).1
  rw [this]
  exact want_ty c s h id

/-! ## ids travelling through the queues -/

omit [DecidableEq α] in
theorem mem_of_head_eq {β : Type} {l : List β} {x : β} (h : some x = l.head?) : x ∈ l := by
  cases l <;> simp_all

syntax "qpc_close " ident : tactic
macro_rules
  | `(tactic| qpc_close $ih:ident) => `(tactic|
      first
        | exact $ih
        | (ap_norm; exact $ih)
        | (intro u x hx; have := $ih u x; simp only [setPc_apply, QueueSM.take_pc, inPush] at *; grind))

syntax "qit_close " ident ident : tactic
macro_rules
  | `(tactic| qit_close $ih:ident $hA:ident) => `(tactic|
      first
        | exact $ih
        | (ap_norm; exact $ih)
        | (simp; done)
        | (intro y hy; simp only [QueueSM.take_items] at hy; exact $ih y (List.mem_of_mem_tail hy))
        | (intro y hy; simp only [List.mem_append, List.mem_singleton] at hy
           rcases hy with hy | hy
           · exact $ih y hy
           · subst hy; exact $hA _ _ (Or.inr (Or.inr (Or.inr (by assumption))))))

set_option maxHeartbeats 1600000 in
theorem inq_pc_even (c : Cfg α) : ∀ s, (machine c).Reachable s → ∀ t x, inPush (s.inq.pc t) x → x % 2 = 0 := by
  apply Machine.invariant
  · simp [machine, init, QueueSM.init, inPush]
  · intro s e s' hr ih hst
    plv_cases e with hst q hq
    all_goals (try q_unfold hq)
    all_goals qpc_close ih

set_option maxHeartbeats 1600000 in
theorem inq_items_even (c : Cfg α) : ∀ s, (machine c).Reachable s → ∀ y ∈ s.inq.items, y.2 % 2 = 0 := by
  apply Machine.invariant
  · simp [machine, init, QueueSM.init]
  · intro s e s' hr ih hst
    have hA := inq_pc_even c s hr
    plv_cases e with hst q hq
    all_goals (try q_unfold hq)
    all_goals qit_close ih hA

set_option maxHeartbeats 1600000 in
theorem got_even (c : Cfg α) : ∀ s, (machine c).Reachable s → ∀ a, s.ppc = .got a → a % 2 = 0 := by
  apply Machine.invariant
  · simp [machine, init]
  · intro s e s' hr ih hst
    have hB := inq_items_even c s hr
    plv_cases e with hst q hq
    all_goals (try q_unfold hq)
    all_goals first
      | exact ih
      | (ap_norm; exact ih)
      | (simp_all [pCont]; done)
      | (cases ‹PK› <;> simp_all [pCont]; done)
      | (intro a ha; simp only [PPc.got.injEq] at ha; subst ha; exact hB _ (mem_of_head_eq (by simp_all)))

set_option maxHeartbeats 1600000 in
theorem outq_pc_odd (c : Cfg α) : ∀ s, (machine c).Reachable s →
    ∀ t x, inPush (s.outq.pc t) x → x % 2 = 1 ∧ x < 2 * s.nOut := by
  apply Machine.invariant
  · simp [machine, init, QueueSM.init, inPush]
  · intro s e s' hr ih hst
    have h2 := (n_ppc c s hr).2.2.2
    plv_cases e with hst q hq
    all_goals (try q_unfold hq)
    all_goals qpc_close ih

set_option maxHeartbeats 1600000 in
theorem outq_items_odd (c : Cfg α) : ∀ s, (machine c).Reachable s →
    ∀ y ∈ s.outq.items, y.2 % 2 = 1 ∧ y.2 < 2 * s.nOut := by
  apply Machine.invariant
  · simp [machine, init, QueueSM.init]
  · intro s e s' hr ih hst
    have hA := outq_pc_odd c s hr
    plv_cases e with hst q hq
    all_goals (try q_unfold hq)
    all_goals first
      | qit_close ih hA
      | (intro y hy; have := ih y hy; simp only at *; omega)

set_option maxHeartbeats 1600000 in
theorem readGot_odd (c : Cfg α) : ∀ s, (machine c).Reachable s →
    ∀ a, s.cpc = .readGot a → a % 2 = 1 ∧ a < 2 * s.nOut := by
  apply Machine.invariant
  · simp [machine, init]
  · intro s e s' hr ih hst
    have hB := outq_items_odd c s hr
    plv_cases e with hst q hq
    all_goals (try q_unfold hq)
    all_goals first
      | exact ih
      | (ap_norm; exact ih)
      | (simp_all; done)
      | (rcases afterPop_cpc s ‹List (List _)› with h | ⟨r, h⟩ <;> simp_all; done)
      | (rcases afterClose_cpc s ‹CK› with h | ⟨r, h⟩ <;> simp_all; done)
      | (intro a ha; simp only [CPc.readGot.injEq] at ha; subst ha; exact hB _ (mem_of_head_eq (by simp_all)))
      | (intro a ha; have := ih a ha; simp only at *; omega)

/-- `Live.typed`: futures of the input queue never hold a buffer, futures of the osmdata queue never
    hold an input chunk. -/
theorem typed (c : Cfg α) (s : State α) (h : (machine c).Reachable s) : Typed s := by
  refine ⟨fun id l hp hf => ?_, fun id i hc hf => ?_⟩
  · have := (fut_ty c s h id _ hf).1 (got_even c s h id hp)
    simp [notBuf] at this
  · have := (fut_ty c s h id _ hf).2 (readGot_odd c s h id hc).1
    simp [notChunk] at this

/-! ## futures of submitted blobs -/

set_option maxHeartbeats 1600000 in
theorem pool_off (c : Cfg α) : ∀ s, (machine c).Reachable s → s.work ≠ [] → c.usePool = true := by
  apply Machine.invariant
  · simp [machine, init]
  · intro s e s' hr ih hst
    plv_cases e with hst q hq
    all_goals first
      | exact ih
      | (ap_norm; exact ih)
      | (simp_all; done)

set_option maxHeartbeats 1600000 in
/-- every created future of the osmdata queue that is not ready is about to be set by the parser
    thread itself, or its job is queued, or a worker is running it -/
theorem pending (c : Cfg α) : ∀ s, (machine c).Reachable s → ∀ id, id % 2 = 1 → id < 2 * s.nOut → s.fut id = none →
    (∃ v k, s.ppc = .pushing id (some v) k ∨ s.ppc = .pushed id v k) ∨ id ∈ s.work ∨ ∃ w, s.wpc w = some id := by
  apply Machine.invariant
  · simp [machine, init]
  · intro s e s' hr ih hst
    plv_cases e with hst q hq
    all_goals first
      | exact ih
      | (ap_norm; exact ih)
      | (simp_all [setPc_apply, pCont]; done)
      | (intro id; have := ih id; simp only [setPc_apply, pCont] at *; grind)
      | (intro id h1 h2 h3; by_cases hid : id = 2 * s.nOut + 1
         · simp_all [setPc_apply, pCont]
         · have h2' : id < 2 * s.nOut := by simp only at h2; omega
           have := ih id h1 h2'
           simp_all [setPc_apply, pCont])

/-- `Live.out_fut_ready` -/
theorem out_fut_ready (c : Cfg α) (s : State α) (h : (machine c).Reachable s) : OutFutReady c s := by
  intro hp id hc hf
  have hid := readGot_odd c s h id hc
  rcases pending c s h id hid.1 hid.2 hf with ⟨v, k, h1 | h1⟩ | h1 | ⟨w, h1⟩
  · rw [hp] at h1; cases h1
  · rw [hp] at h1; cases h1
  · have : s.work ≠ [] := by intro h0; rw [h0] at h1; cases h1
    exact .inl ⟨this, pool_off c s h this⟩
  · exact .inr ⟨w, id, h1⟩

end Live
end Osmium.Pipeline
