/-
Helper lemmas for C11 (relation managers).  Core-only.
-/
import Osmium.Model.RelMgr

namespace Osmium.RelMgr

open Osmium.Order (Kind CheckState checkStep)

/-! ### The output buffer does not influence anything else -/

/-- two states that agree on everything except the output-buffer bookkeeping -/
def Sim (s t : State) : Prop :=
  s.stash = t.stash ∧ s.rdb = t.rdb ∧ s.ndb = t.ndb ∧ s.wdb = t.wdb ∧ s.rmdb = t.rmdb ∧
  s.chk = t.chk ∧ s.ub = t.ub ∧ s.log = t.log

/-- two configurations that differ at most in callback / threshold / output volume -/
def SameLogic (c d : Cfg) : Prop :=
  c.tn = d.tn ∧ c.tw = d.tw ∧ c.tr = d.tr ∧ c.newRel = d.newRel ∧ c.newMem = d.newMem ∧ c.fixed = d.fixed

theorem Sim.refl (s : State) : Sim s s := ⟨rfl, rfl, rfl, rfl, rfl, rfl, rfl, rfl⟩

theorem Sim.getDb {s t : State} (h : Sim s t) (k : Kind) : s.getDb k = t.getDb k := by
  obtain ⟨_, _, h3, h4, h5, _⟩ := h
  cases k <;> simp [State.getDb, *]

theorem Sim.relAt {s t : State} (h : Sim s t) (p : Nat) : s.relAt p = t.relAt p := by
  obtain ⟨h1, h2, _⟩ := h
  simp [State.relAt, h1, h2]

theorem Sim.lookup {s t : State} (h : Sim s t) (k : Kind) (id : Int) : s.lookup k id = t.lookup k id := by
  have := h.getDb k
  obtain ⟨h1, _⟩ := h
  simp [State.lookup, h1, this]

theorem Sim.setDb {s t : State} (h : Sim s t) (k : Kind) (es : List Elem) : Sim (s.setDb k es) (t.setDb k es) := by
  obtain ⟨h1, h2, h3, h4, h5, h6, h7, h8⟩ := h
  cases k <;> simp [State.setDb, Sim, *]

theorem sim_possiblyFlush (c d : Cfg) {s t : State} (h : Sim s t) : Sim (s.possiblyFlush c) (t.possiblyFlush d) := by
  obtain ⟨h1, h2, h3, h4, h5, h6, h7, h8⟩ := h
  unfold State.possiblyFlush
  split <;> split <;> (try split) <;> (try split) <;> simp [Sim, *]

theorem sim_flushOutput (c d : Cfg) {s t : State} (h : Sim s t) : Sim (s.flushOutput c) (t.flushOutput d) := by
  obtain ⟨h1, h2, h3, h4, h5, h6, h7, h8⟩ := h
  unfold State.flushOutput
  split <;> split <;> simp [Sim, *]

theorem sim_dbRemove {c d : Cfg} (hc : SameLogic c d) {s t : State} (h : Sim s t) (k : Kind) (id relid : Int) :
    Sim (dbRemove c s k id relid) (dbRemove d t k id relid) := by
  have hg := h.getDb k
  have hr : (fun p => (s.relAt p).map (·.id)) = (fun p => (t.relAt p).map (·.id)) := by
    funext p; rw [h.relAt p]
  obtain ⟨_, _, _, _, _, hf⟩ := hc
  unfold dbRemove
  rw [hg, hr, hf]
  obtain ⟨h1, h2, h3, h4, h5, h6, h7, h8⟩ := h
  split
  split
  · exact ⟨h1, h2, h3, h4, h5, h6, h7, h8⟩
  · apply Sim.setDb
    simp [Sim, *]

theorem sim_removeMembers {c d : Cfg} (hc : SameLogic c d) (relid : Int) (ms : List Member) :
    ∀ {s t : State}, Sim s t → Sim (removeMembers c relid s ms) (removeMembers d relid t ms) := by
  induction ms with
  | nil => intro s t h; simpa [removeMembers] using h
  | cons m ms ih =>
    intro s t h
    simp only [removeMembers]
    apply ih
    split
    · exact sim_dbRemove hc h _ _ _
    · exact h

theorem sim_announce (c d : Cfg) {s t : State} (h : Sim s t) (pos : Nat) (r : Rel) : Sim (announce c s pos r) (announce d t pos r) := by
  have hl : (fun m : Member => (m, s.lookup m.kind m.ref)) = (fun m : Member => (m, t.lookup m.kind m.ref)) := by
    funext m; rw [h.lookup]
  obtain ⟨h1, h2, h3, h4, h5, h6, h7, h8⟩ := h
  simp [announce, Sim, *]

theorem sim_relRemove {s t : State} (h : Sim s t) (pos : Nat) : Sim (relRemove s pos) (relRemove t pos) := by
  obtain ⟨h1, h2, h3, h4, h5, h6, h7, h8⟩ := h
  unfold relRemove
  rw [h2]
  split <;> simp [Sim, *]

theorem sim_handleComplete {c d : Cfg} (hc : SameLogic c d) {s t : State} (h : Sim s t) (pos : Nat) :
    Sim (handleComplete c s pos) (handleComplete d t pos) := by
  unfold handleComplete
  rw [h.relAt pos]
  split
  · obtain ⟨h1, h2, h3, h4, h5, h6, h7, h8⟩ := h
    simp [Sim, *]
  · exact sim_relRemove (sim_removeMembers hc _ _ (sim_possiblyFlush c d (sim_announce c d h _ _))) pos

theorem sim_completeStep {c d : Cfg} (hc : SameLogic c d) {s t : State} (h : Sim s t) (pos : Nat) :
    Sim (completeStep c s pos) (completeStep d t pos) := by
  unfold completeStep
  have h2 := h.2.1
  rw [h2]
  split
  · obtain ⟨h1, h2, h3, h4, h5, h6, h7, h8⟩ := h
    simp [Sim, *]
  · have hs : ∀ e : RelEntry, Sim { s with rdb := t.rdb.setIfInBounds pos e } { t with rdb := t.rdb.setIfInBounds pos e } := by
      intro e
      obtain ⟨h1, h2, h3, h4, h5, h6, h7, h8⟩ := h
      simp [Sim, *]
    split
    · obtain ⟨h1, h2, h3, h4, h5, h6, h7, h8⟩ := h
      simp [Sim, *]
    · split
      · exact sim_handleComplete hc (hs _) pos
      · exact hs _

theorem sim_completeLoop {c d : Cfg} (hc : SameLogic c d) (ps : List Nat) :
    ∀ {s t : State}, Sim s t → Sim (completeLoop c s ps) (completeLoop d t ps) := by
  induction ps with
  | nil => intro s t h; simpa [completeLoop] using h
  | cons p ps ih => intro s t h; simp only [completeLoop]; exact ih (sim_completeStep hc h p)

theorem SameLogic.enabled {c d : Cfg} (hc : SameLogic c d) (k : Kind) : c.enabled k = d.enabled k := by
  obtain ⟨h1, h2, h3, _⟩ := hc
  cases k <;> simp [Cfg.enabled, *]

theorem sim_memberAdd {c d : Cfg} (hc : SameLogic c d) {s t : State} (h : Sim s t) (o : Obj) :
    Sim (memberAdd c s o) (memberAdd d t o) := by
  unfold memberAdd
  rw [h.getDb o.kind]
  split
  split
  · apply sim_possiblyFlush
    obtain ⟨h1, h2, h3, h4, h5, h6, h7, h8⟩ := h
    simp [Sim, *]
  · apply sim_possiblyFlush
    apply sim_completeLoop hc
    have h1 := h.1
    simp only [h1]
    apply Sim.setDb
    obtain ⟨h1, h2, h3, h4, h5, h6, h7, h8⟩ := h
    simp [Sim, *]

/-- `handleObj` on similar states: both throw, or both continue in similar states -/
theorem sim_handleObj {c d : Cfg} (hc : SameLogic c d) {s t : State} (h : Sim s t) (o : Obj) :
    (handleObj c s o = none ∧ handleObj d t o = none) ∨
    (∃ s' t', handleObj c s o = some s' ∧ handleObj d t o = some t' ∧ Sim s' t') := by
  unfold handleObj
  rw [hc.enabled o.kind, h.2.2.2.2.2.1]
  split
  · exact Or.inr ⟨s, t, rfl, rfl, h⟩
  · split
    · exact Or.inl ⟨rfl, rfl⟩
    · rename_i chk _
      refine Or.inr ⟨_, _, rfl, rfl, sim_memberAdd hc ?_ o⟩
      obtain ⟨h1, h2, h3, h4, h5, h6, h7, h8⟩ := h
      simp [Sim, *]

theorem sim_runOps {c d : Cfg} (hc : SameLogic c d) (ops : List Op) :
    ∀ {s t : State}, Sim s t → Sim (runOps c s ops) (runOps d t ops) := by
  induction ops with
  | nil => intro s t h; simpa [runOps] using h
  | cons op ops ih =>
    intro s t h
    cases op with
    | query k id =>
      simp only [runOps]
      apply ih
      rw [h.lookup]
      obtain ⟨h1, h2, h3, h4, h5, h6, h7, h8⟩ := h
      simp [Sim, *]
    | flush => simp only [runOps]; exact ih (sim_flushOutput c d h)
    | obj o =>
      simp only [runOps]
      rcases sim_handleObj hc h o with ⟨e1, e2⟩ | ⟨s', t', e1, e2, hs⟩
      · rw [e1, e2]
        obtain ⟨h1, h2, h3, h4, h5, h6, h7, h8⟩ := h
        simp [Sim, *]
      · rw [e1, e2]; exact ih hs

theorem addRelation_sameLogic {c d : Cfg} (hc : SameLogic c d) (s : State) (r : Rel) :
    addRelation c s r = addRelation d s r := by
  obtain ⟨h1, h2, h3, h4, h5, h6⟩ := hc
  have he : c.enabled = d.enabled := by funext k; cases k <;> simp [Cfg.enabled, *]
  have hw : wantedAt c = wantedAt d := by funext r n m; simp [wantedAt, he, h5]
  simp [addRelation, markMembers, trackElems, wantedCount, hw, h4]

theorem firstPass_sameLogic {c d : Cfg} (hc : SameLogic c d) (rels : List Rel) :
    firstPass c rels = firstPass d rels := by
  have : addRelation c = addRelation d := by funext s r; exact addRelation_sameLogic hc s r
  simp [firstPass, this]

theorem sim_run {c d : Cfg} (hc : SameLogic c d) (rels : List Rel) (ops : List Op) :
    Sim (run c rels ops) (run d rels ops) := by
  unfold run
  rw [firstPass_sameLogic hc]
  exact sim_flushOutput c d (sim_runOps hc ops (Sim.refl _))

/-! ### `prepare_for_lookup` sorts by member id; `find` = all references to the id -/

/-- sorted by member_id (what `compare_member_id` looks at) -/
def SortedById (es : List Elem) : Prop := es.Pairwise (fun a b => a.mid ≤ b.mid)

/-- key of `element::operator<` : (member_id, removed?, member_num, relation_pos) -/
theorem numLe_iff (a b : Option Nat) :
    numLe a b = true ↔ (match a, b with
      | some x, some y => x ≤ y
      | _, none => True
      | none, some _ => False) := by
  cases a <;> cases b <;> simp [numLe]

theorem elemLe_mid {a b : Elem} (h : elemLe a b = true) : a.mid ≤ b.mid := by
  simp only [elemLe, Bool.or_eq_true, Bool.and_eq_true, decide_eq_true_eq, beq_iff_eq] at h
  omega

theorem elemLe_total (a b : Elem) : (elemLe a b || elemLe b a) = true := by
  obtain ⟨am, an, ar, ah⟩ := a
  obtain ⟨bm, bn, br, bh⟩ := b
  simp only [elemLe, numLt, Bool.or_eq_true, Bool.and_eq_true, decide_eq_true_eq, beq_iff_eq,
    Bool.not_eq_true']
  cases an <;> cases bn <;> simp [numLe] <;> omega

theorem elemLe_trans (a b c : Elem) (h1 : elemLe a b = true) (h2 : elemLe b c = true) : elemLe a c = true := by
  obtain ⟨am, an, ar, ah⟩ := a
  obtain ⟨bm, bn, br, bh⟩ := b
  obtain ⟨cm, cn, cr, ch⟩ := c
  simp only [elemLe, numLt, Bool.or_eq_true, Bool.and_eq_true, decide_eq_true_eq, beq_iff_eq,
    Bool.not_eq_true'] at *
  cases an <;> cases bn <;> cases cn <;> simp [numLe] at * <;> omega

theorem insertElem_perm (e : Elem) : ∀ l : List Elem, (insertElem e l).Perm (e :: l) := by
  intro l
  induction l with
  | nil => exact List.Perm.refl _
  | cons a l ih =>
    simp only [insertElem]
    split
    · exact List.Perm.refl _
    · exact (List.Perm.cons a ih).trans (List.Perm.swap e a l)

theorem insertElem_sorted (e : Elem) : ∀ l : List Elem, l.Pairwise (fun a b => elemLe a b = true) →
    (insertElem e l).Pairwise (fun a b => elemLe a b = true) := by
  intro l
  induction l with
  | nil => intro _; simp [insertElem]
  | cons a l ih =>
    intro h
    rw [List.pairwise_cons] at h
    simp only [insertElem]
    split
    · rename_i hea
      rw [List.pairwise_cons]
      refine ⟨?_, List.pairwise_cons.mpr h⟩
      intro b hb
      rcases List.mem_cons.mp hb with rfl | hb
      · exact hea
      · exact elemLe_trans _ _ _ hea (h.1 b hb)
    · rename_i hea
      have hae : elemLe a e = true := by
        have := elemLe_total e a
        simp only [Bool.or_eq_true] at this
        rcases this with h | h
        · exact absurd h hea
        · exact h
      rw [List.pairwise_cons]
      refine ⟨?_, ih h.2⟩
      intro b hb
      have := (insertElem_perm e l).mem_iff.mp hb
      rcases List.mem_cons.mp this with rfl | hb
      · exact hae
      · exact h.1 b hb

theorem sortElems_perm (es : List Elem) : (sortElems es).Perm es := by
  induction es with
  | nil => exact List.Perm.refl _
  | cons a l ih =>
    simp only [sortElems, List.foldr_cons]
    exact (insertElem_perm a _).trans (List.Perm.cons a ih)

theorem sortElems_sorted (es : List Elem) : SortedById (sortElems es) := by
  have : (sortElems es).Pairwise (fun a b => elemLe a b = true) := by
    induction es with
    | nil => simp [sortElems]
    | cons a l ih =>
      simp only [sortElems, List.foldr_cons]
      exact insertElem_sorted a _ ih
  exact this.imp (fun h => elemLe_mid h)

theorem takeWhile_eq_filter {α : Type} (p : α → Bool) :
    ∀ (l : List α), l.Pairwise (fun a b => p b = true → p a = true) →
      l.takeWhile p = l.filter p ∧ l.dropWhile p = l.filter (fun a => !p a) := by
  intro l
  induction l with
  | nil => intro _; simp
  | cons a l ih =>
    intro h
    rw [List.pairwise_cons] at h
    obtain ⟨ha, hl⟩ := h
    by_cases hp : p a = true
    · simp [hp, ih hl]
    · have hall : ∀ b ∈ l, ¬ p b = true := fun b hb hpb => hp (ha b hb hpb)
      have h1 : l.filter p = [] := List.filter_eq_nil_iff.mpr hall
      have h2 : l.filter (fun a => !p a) = l := by
        apply List.filter_eq_self.mpr
        intro b hb; simp [hall b hb]
      simp [hp, h1, h2]

/-- `find(id)` on a database sorted by member id returns exactly the elements with that id
    (one per tracked reference), with everything smaller before and everything larger after. -/
theorem splitRange_sorted (es : List Elem) (id : Int) (h : SortedById es) :
    splitRange es id =
      (es.filter (fun e => decide (e.mid < id)), es.filter (fun e => e.mid == id),
       es.filter (fun e => decide (id < e.mid))) := by
  have h1 := takeWhile_eq_filter (fun e : Elem => decide (e.mid < id)) es
    (h.imp (by intro a b hab; simp only [decide_eq_true_eq]; omega))
  have hrest : SortedById (es.filter (fun e => !decide (e.mid < id))) := List.Pairwise.filter _ h
  have h2 := takeWhile_eq_filter (fun e : Elem => !decide (id < e.mid)) _
    (hrest.imp (by intro a b hab; simp only [Bool.not_eq_true', decide_eq_false_iff_not]; omega))
  simp only [splitRange, h1.1, h1.2, h2.1, h2.2, List.filter_filter]
  refine Prod.ext rfl (Prod.ext ?_ ?_)
  · apply List.filter_congr; intro e _
    rw [Bool.eq_iff_iff]
    simp only [Bool.and_eq_true, Bool.not_eq_true', decide_eq_false_iff_not, beq_iff_eq]
    omega
  · apply List.filter_congr; intro e _
    rw [Bool.eq_iff_iff]
    simp only [Bool.and_eq_true, Bool.not_eq_true', Bool.not_not, decide_eq_false_iff_not, decide_eq_true_eq]
    omega

/-- rebuilding a database around a modified range keeps the range findable -/
theorem splitRange_rebuild (pre mid2 post : List Elem) (id : Int)
    (hpre : ∀ e ∈ pre, e.mid < id) (hmid : ∀ e ∈ mid2, e.mid = id) (hpost : ∀ e ∈ post, id < e.mid) :
    (splitRange (pre ++ mid2 ++ post) id).2.1 = mid2 := by
  simp only [splitRange]
  have hpre' : ∀ e ∈ pre, decide (e.mid < id) = true := fun e he => by simpa using hpre e he
  have hdrop : (pre ++ mid2 ++ post).dropWhile (fun e => decide (e.mid < id)) = mid2 ++ post := by
    rw [List.append_assoc, List.dropWhile_append_of_pos hpre']
    cases hmp : mid2 ++ post with
    | nil => rfl
    | cons a l =>
      have ha : ¬ a.mid < id := by
        have : a ∈ mid2 ++ post := by rw [hmp]; exact List.mem_cons_self ..
        rcases List.mem_append.mp this with h | h
        · have := hmid a h; omega
        · have := hpost a h; omega
      simp [List.dropWhile_cons, ha]
  rw [hdrop]
  have hm2 : ∀ e ∈ mid2, (!decide (id < e.mid)) = true := by
    intro e he; have := hmid e he; simp; omega
  rw [List.takeWhile_append_of_pos hm2]
  cases post with
  | nil => simp
  | cons a l =>
    have := hpost a (List.mem_cons_self ..)
    simp [List.takeWhile_cons, this]

theorem markFirst_keeps (f : Nat → Option Int) (relid : Int) (P : Int → Nat → Prop) :
    ∀ l : List Elem, (∀ e ∈ l, P e.mid e.h) → ∀ e ∈ markFirst f relid l, P e.mid e.h := by
  intro l
  induction l with
  | nil => intro _ e he; simp [markFirst] at he
  | cons a l ih =>
    intro hsrc
    simp only [markFirst]
    split
    · intro e he
      rcases List.mem_cons.mp he with rfl | he
      · exact hsrc a (List.mem_cons_self ..)
      · exact hsrc e (List.mem_cons_of_mem _ he)
    · intro e he
      rcases List.mem_cons.mp he with rfl | he
      · exact hsrc _ (List.mem_cons_self ..)
      · exact ih (fun e he => hsrc e (List.mem_cons_of_mem _ he)) e he

/-! ### The completion loop: a relation is handed to the callback when its counter hits zero -/

/-- number of times `handle_complete_relation` ran for the relation at position `p` -/
def firedCount (p : Nat) (l : List Event) : Nat :=
  (l.filter (fun e => match e with
    | .complete q _ _ _ => q == p
    | .completeWild q => q == p
    | _ => false)).length

/-- `missing` counter of the relation at position `p` -/
def missingAt (s : State) (p : Nat) : Option Nat := (s.rdb[p]?).map (·.missing)

theorem dbRemove_frame (c : Cfg) (s : State) (k : Kind) (id relid : Int) :
    (dbRemove c s k id relid).rdb = s.rdb ∧ (dbRemove c s k id relid).log = s.log := by
  unfold dbRemove
  split
  split
  · exact ⟨rfl, rfl⟩
  · cases k <;> simp [State.setDb]

theorem removeMembers_frame (c : Cfg) (relid : Int) (ms : List Member) :
    ∀ s : State, (removeMembers c relid s ms).rdb = s.rdb ∧ (removeMembers c relid s ms).log = s.log := by
  induction ms with
  | nil => intro s; exact ⟨rfl, rfl⟩
  | cons m ms ih =>
    intro s
    simp only [removeMembers]
    split
    · rw [(ih _).1, (ih _).2]; exact dbRemove_frame c s _ _ _
    · exact ih s

theorem possiblyFlush_frame (c : Cfg) (s : State) :
    (s.possiblyFlush c).rdb = s.rdb ∧ (s.possiblyFlush c).log = s.log := by
  unfold State.possiblyFlush
  split <;> (try split) <;> exact ⟨rfl, rfl⟩

/-- `handle_complete_relation(pos)` logs exactly one completion for `pos`, leaves the
    counters of all other relations alone and leaves a zero counter at `pos` zero. -/
theorem handleComplete_frame (c : Cfg) (s : State) (pos : Nat) :
    (∀ p, firedCount p (handleComplete c s pos).log = firedCount p s.log + (if p = pos then 1 else 0)) ∧
    (∀ p, p ≠ pos → missingAt (handleComplete c s pos) p = missingAt s p) ∧
    (missingAt s pos = some 0 → missingAt (handleComplete c s pos) pos = some 0) := by
  unfold handleComplete
  split
  · refine ⟨?_, fun p _ => rfl, fun h => h⟩
    intro p
    by_cases hp : p = pos
    · simp [firedCount, hp]
    · have : (pos == p) = false := by simp; omega
      simp [firedCount, hp, this]
  · rename_i r _
    have h1 := removeMembers_frame c r.id r.members ((announce c s pos r).possiblyFlush c)
    have h2 := possiblyFlush_frame c (announce c s pos r)
    have hrdb : (removeMembers c r.id ((announce c s pos r).possiblyFlush c) r.members).rdb = s.rdb := by
      rw [h1.1, h2.1]; rfl
    have hlog : (removeMembers c r.id ((announce c s pos r).possiblyFlush c) r.members).log =
        Event.complete pos r.id r.content ((r.members.filter fun m => m.ref ≠ 0).map fun m => (m, s.lookup m.kind m.ref)) :: s.log := by
      rw [h1.2, h2.2]; rfl
    refine ⟨?_, ?_, ?_⟩
    · intro p
      have : (relRemove (removeMembers c r.id ((announce c s pos r).possiblyFlush c) r.members) pos).log =
          (removeMembers c r.id ((announce c s pos r).possiblyFlush c) r.members).log := by
        unfold relRemove; split <;> rfl
      rw [this, hlog]
      by_cases hp : p = pos
      · simp [firedCount, hp]
      · have : (pos == p) = false := by simp; omega
        simp [firedCount, hp, this]
    · intro p hp
      unfold relRemove missingAt
      rw [hrdb]
      split
      · simp only [Array.getElem?_setIfInBounds]
        rw [if_neg (by omega)]
      · rw [hrdb]
    · intro h0
      unfold relRemove missingAt
      rw [hrdb]
      split
      · rename_i e he
        simp only [Array.getElem?_setIfInBounds]
        have : pos < s.rdb.size := by
          rcases Nat.lt_or_ge pos s.rdb.size with h | h
          · exact h
          · rw [Array.getElem?_eq_none h] at he; cases he
        simp [this]
      · rw [hrdb]; exact h0

/-- one iteration of the loop in `MembersDatabase::add` for relation `q` -/
theorem completeStep_frame (c : Cfg) (s : State) (q : Nat) :
    (∀ p, p ≠ q → missingAt (completeStep c s q) p = missingAt s p ∧
      firedCount p (completeStep c s q).log = firedCount p s.log) ∧
    (∀ m, missingAt s q = some (m + 2) →
      missingAt (completeStep c s q) q = some (m + 1) ∧ firedCount q (completeStep c s q).log = firedCount q s.log) ∧
    (missingAt s q = some 1 →
      missingAt (completeStep c s q) q = some 0 ∧ firedCount q (completeStep c s q).log = firedCount q s.log + 1) := by
  unfold completeStep
  split
  · rename_i hn
    refine ⟨fun p _ => ⟨rfl, rfl⟩, ?_, ?_⟩ <;> (intros; simp_all [missingAt])
  · rename_i e he
    have hlt : q < s.rdb.size := by
      rcases Nat.lt_or_ge q s.rdb.size with h | h
      · exact h
      · rw [Array.getElem?_eq_none h] at he; cases he
    have hset : ∀ (e' : RelEntry) (p : Nat), p ≠ q →
        missingAt { s with rdb := s.rdb.setIfInBounds q e' } p = missingAt s p := by
      intro e' p hp
      simp only [missingAt, Array.getElem?_setIfInBounds]
      rw [if_neg (by omega)]
    have hsetq : ∀ (e' : RelEntry), missingAt { s with rdb := s.rdb.setIfInBounds q e' } q = some e'.missing := by
      intro e'
      simp [missingAt, Array.getElem?_setIfInBounds, hlt]
    split
    · rename_i h0
      refine ⟨fun p hp => ⟨?_, rfl⟩, ?_, ?_⟩
      · simp only [missingAt, Array.getElem?_setIfInBounds]
        rw [if_neg (by omega)]
      · intro m hm; simp [missingAt, he, h0] at hm
      · intro hm; simp [missingAt, he, h0] at hm
    · split
      · rename_i h1
        have hf := handleComplete_frame c { s with rdb := s.rdb.setIfInBounds q { e with missing := e.missing - 1 } } q
        refine ⟨fun p hp => ⟨?_, ?_⟩, ?_, ?_⟩
        · rw [hf.2.1 p hp]; exact hset _ p hp
        · rw [hf.1 p]; simp [hp]
        · intro m hm; simp [missingAt, he] at hm; omega
        · intro hm
          refine ⟨?_, ?_⟩
          · apply hf.2.2
            rw [hsetq]; simp [h1]
          · rw [hf.1 q]; simp
      · rename_i h1
        refine ⟨fun p hp => ⟨hset _ p hp, rfl⟩, ?_, ?_⟩
        · intro m hm
          simp [missingAt, he] at hm
          refine ⟨?_, rfl⟩
          rw [hsetq]; simp; omega
        · intro hm; simp [missingAt, he] at hm; omega

/-- The whole loop over the range of an arriving object (`ps` = relation positions of the
    elements in the range).  For a relation `p` whose counter `m ≥ 1` is at least the number
    of its references in the range: it is handed to the completion callback exactly once if
    the range contains all `m` outstanding references, and not at all otherwise; its counter
    ends at `m - (references in the range)`. -/
theorem completeLoop_fires (c : Cfg) (p : Nat) (ps : List Nat) :
    ∀ (s : State) (m : Nat), missingAt s p = some m → ps.count p ≤ m →
      missingAt (completeLoop c s ps) p = some (m - ps.count p) ∧
      firedCount p (completeLoop c s ps).log =
        firedCount p s.log + (if ps.count p = m ∧ 1 ≤ m then 1 else 0) := by
  induction ps with
  | nil =>
    intro s m hm _
    simp only [completeLoop, List.count_nil, Nat.sub_zero]
    refine ⟨hm, ?_⟩
    have : ¬(0 = m ∧ 1 ≤ m) := by omega
    simp [this]
  | cons q ps ih =>
    intro s m hm hc
    simp only [completeLoop]
    have hf := completeStep_frame c s q
    by_cases hq : q = p
    · subst hq
      have hcnt : (q :: ps).count q = ps.count q + 1 := by simp
      rw [hcnt] at hc ⊢
      rcases Nat.lt_or_ge m 2 with hm2 | hm2
      · have hm1 : m = 1 := by omega
        subst hm1
        obtain ⟨h1, h2⟩ := hf.2.2 hm
        have h0 : ps.count q = 0 := by omega
        obtain ⟨i1, i2⟩ := ih _ 0 h1 (by omega)
        rw [i1, i2, h2, h0]
        simp
      · obtain ⟨m', rfl⟩ : ∃ m', m = m' + 2 := ⟨m - 2, by omega⟩
        obtain ⟨h1, h2⟩ := hf.2.1 m' hm
        obtain ⟨i1, i2⟩ := ih _ (m' + 1) h1 (by omega)
        rw [i1, i2, h2]
        refine ⟨by congr 1; omega, ?_⟩
        by_cases hx : ps.count q = m' + 1 <;> simp [hx] <;> omega
    · have hcnt : (q :: ps).count p = ps.count p := by
        simp [List.count_cons]; omega
      rw [hcnt] at hc ⊢
      obtain ⟨h1, h2⟩ := hf.1 p (by omega)
      obtain ⟨i1, i2⟩ := ih _ m (h1.trans hm) hc
      exact ⟨i1, by rw [i2, h2]⟩

end Osmium.RelMgr
