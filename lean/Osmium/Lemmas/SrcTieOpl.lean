/-
`src_tie_*` lemmas for the integer parser of the OPL reader, `osmium::io::detail::opl_parse_int<T>(const char**)`
(io/detail/opl_parser_functions.hpp; instantiations `T = int64_t` — ids — and `T = uint32_t` — versions, changesets,
uids), TRANSLATED by tools/cxx2lean.py (`Src.OplParserFunctions.opl_parse_int_ppc_ri64 / _ru32` with loop and join
points), against the model `Conv.oplParseInt tmin tmax` / `oplDigits` (Osmium/Model/Conv.lean) of the C13 / C03
theorems.  Array and cursor as in Lemmas/Cursor.lean; proof style as in Lemmas/SrcTieCoord.lean.
This file is GENERATED ONCE from a template for the two instantiations (.build/x2l_dev/gen_opl.py) and then kept.
-/
import Osmium.Lemmas.SrcTieCoord

set_option Elab.async false
set_option linter.unusedSimpArgs false

namespace Osmium.SrcTie.Opl

open Osmium.Generated Osmium.CxxSem Osmium.Conv Osmium.Cursor Osmium.SrcTie.Coord
open Src.OplParserFunctions

/-- a model result as the outcome of the translated function: value and end position (`*s` afterwards); an error is
    `osmium::opl_error` thrown with `*s` somewhere in the string (the position is used for the error column only) -/
def OplOut (s : List UInt8) (i : Nat) (m : Except Err (Int × List UInt8)) (o : Outcome Int Int) : Prop :=
  match m with
  | .ok (v, rest) => ∃ j, i ≤ j ∧ j ≤ s.length ∧ rest = s.drop j ∧ o = .normal (j : Int) v
  | .error _ => ∃ j, i ≤ j ∧ j ≤ s.length ∧ o = .thrown "osmium::opl_error" (j : Int)

/-- the digit loop against `oplDigits` -/
def OplRun (s : List UInt8) (i : Nat) (m : Except Err (Int × List UInt8)) (fl : Flow Int (Int × Int) Int) : Prop :=
  match m with
  | .ok (v, rest) => ∃ j, i ≤ j ∧ j ≤ s.length ∧ rest = s.drop j ∧ int64Min ≤ v ∧ v ≤ 0 ∧ fl = .next ((j : Int), v)
  | .error _ => ∃ j, i ≤ j ∧ j ≤ s.length ∧ fl = .exit (.thrown "osmium::opl_error" (j : Int))

/-- the three range checks of `opl_parse_int<T>` after the digit loop, as an outcome -/
def k2spec (tmin tmax : Int) (j : Nat) (negative : Bool) (value : Int) : Outcome Int Int :=
  if negative = true then (if value < tmin then .thrown "osmium::opl_error" (j : Int) else .normal (j : Int) value)
  else if value = int64Min then .thrown "osmium::opl_error" (j : Int)
  else if -value > tmax then .thrown "osmium::opl_error" (j : Int)
  else .normal (j : Int) (-value)

/-- `split` on the next generated `if`; the new hypothesis is kept in arithmetic form (so that a contradiction may use
    several nested conditions), impossible branches are closed -/
macro "split_n" : tactic =>
  `(tactic| (split <;> (rename_i hc; (try cond_norm at hc); try (exfalso; omega))))

/-- side conditions of conditional rewrites: index equations, and `negative = (the model's sign test)` -/
macro "bool_disch" : tactic =>
  `(tactic| first | omega | (rw [Bool.eq_iff_iff]; simp only [eq_iff, ne_iff, decide_eq_true_eq]; omega))

/-- the model's range checks (the tail of `oplParseInt`) against `k2spec` -/
theorem OplOut_of_k2spec (s : List UInt8) (i j : Nat) (neg : Bool) (v tmin tmax : Int) (hij : i ≤ j) (hj : j ≤ s.length) :
    OplOut s i
      (if neg = true then (if v < tmin then .error .oplError else .ok (v, s.drop j))
       else (if (v == int64Min) = true then .error .oplError else if -v > tmax then .error .oplError else .ok (-v, s.drop j)))
      (k2spec tmin tmax j neg v) := by
  unfold k2spec
  cases neg with
  | true =>
    simp only [if_true]
    by_cases h : v < tmin
    · simp only [h, if_true]; exact ⟨j, hij, hj, rfl⟩
    · simp only [h, if_false]; exact ⟨j, hij, hj, rfl, rfl⟩
  | false =>
    simp only [Bool.false_eq_true, if_false]
    by_cases h0 : v = int64Min
    · have hb : (v == int64Min) = true := by simp [h0]
      simp only [hb, h0, if_true]; exact ⟨j, hij, hj, rfl⟩
    · have hb : (v == int64Min) = false := by simp [h0]
      simp only [hb, h0, Bool.false_eq_true, if_false]
      by_cases h1 : -v > tmax
      · simp only [h1, if_true]; exact ⟨j, hij, hj, rfl⟩
      · simp only [h1, if_false]; exact ⟨j, hij, hj, rfl, rfl⟩

theorem wrapU32_id {x : Int} (h0 : 0 ≤ x) (h1 : x ≤ 4294967295) : wrapU 32 x = x := by
  have e : (2 : Int) ^ 32 = 4294967296 := by decide
  unfold wrapU; rw [e]; omega

theorem OplRun_mono (s : List UInt8) (i i' : Nat) (m : Except Err (Int × List UInt8)) (fl : Flow Int (Int × Int) Int)
    (h : i ≤ i') (hr : OplRun s i' m fl) : OplRun s i m fl := by
  cases m with
  | error e => obtain ⟨j, h1, h2, h3⟩ := hr; exact ⟨j, by omega, h2, h3⟩
  | ok p => obtain ⟨v, rest⟩ := p; obtain ⟨j, h1, h2, h3, h4, h5, h6⟩ := hr; exact ⟨j, by omega, h2, h3, h4, h5, h6⟩

theorem oplDigits_cons_digit (value : Int) (c : UInt8) (u : List UInt8) (hc : isDigit c = true) :
    oplDigits value (c :: u) =
      if value ≤ -922337203685477580 ∧ (value < -922337203685477580 ∨ c.toNat > 56) then .error .oplError
      else oplDigits (value * 10 - digitVal c) u := by
  simp only [oplDigits, hc, if_true, Bool.and_eq_true, Bool.or_eq_true, decide_eq_true_eq]

theorem oplDigits_cons_other (value : Int) (c : UInt8) (u : List UInt8) (hc : ¬ isDigit c = true) :
    oplDigits value (c :: u) = .ok (value, c :: u) := by
  simp only [oplDigits, hc, if_false, Bool.false_eq_true]

set_option hygiene false in
/-- one proof for the digit loops of the instantiations -/
macro "opl_loop_tie" s:ident t:ident lp:ident ld:ident : tactic => `(tactic| (
  intro k
  induction k with
  | zero =>
    intro i value fuel iI vI hiI hvI hik hf hlo hhi
    subst hiI; subst vI
    obtain ⟨f, rfl⟩ : ∃ f, fuel = f + 1 := ⟨fuel - 1, by omega⟩
    have hi : i ≤ List.length $s := by omega
    have hrd := rdS_cbuf $s $t i hi
    have hnil : List.drop i $s = [] := List.drop_eq_nil_of_le (by omega)
    rw [hnil, peek_nil] at hrd
    have hsc := sc_cases (0 : UInt8)
    simp only [zero_toNat] at hsc
    rw [hnil]
    constructor
    · unfold $lp
      simp only [hrd]
      split_ok
      exact ⟨i, Nat.le_refl _, hi, hnil.symm, hlo, hhi, rfl⟩
    · unfold $ld
      simp only [hrd, inB_cbuf $s $t i hi]
      split_ok
      all_goals simp only [Bool.true_and, Bool.and_true, Bool.or_true, Bool.true_or, Bool.and_self, Bool.not_true, Bool.not_false]
  | succ k ih =>
    intro i value fuel iI vI hiI hvI hik hf hlo hhi
    subst hiI; subst vI
    obtain ⟨f, rfl⟩ : ∃ f, fuel = f + 1 := ⟨fuel - 1, by omega⟩
    have hi : i ≤ List.length $s := by omega
    have hrd := rdS_cbuf $s $t i hi
    have hin := inB_cbuf $s $t i hi
    have hp1 := ptrOk_cbuf $s $t (i + 1) (by omega)
    obtain ⟨c, u, hd⟩ : ∃ c u, List.drop i $s = c :: u := by
      cases h : List.drop i $s with
      | nil => have := List.drop_eq_nil_iff.mp h; omega
      | cons c u => exact ⟨c, u, rfl⟩
    obtain ⟨hlt, hu⟩ := drop_cons $s i c u hd
    rw [hd, peek_cons] at hrd
    have hsc := sc_cases c
    rw [hd]
    simp only [int64Min] at hlo
    by_cases hdig : isDigit c = true
    · have hdv := digitVal_eq c hdig
      have hdg := (isDigit_iff c).mp hdig
      rw [oplDigits_cons_digit value c u hdig]
      by_cases hg : value ≤ -922337203685477580 ∧ (value < -922337203685477580 ∨ c.toNat > 56)
      · -- "integer too long"
        rw [if_pos hg]
        constructor
        · unfold $lp
          simp only [hrd]
          split_ok
          repeat' split_n
          all_goals (try simp only [Flow.bind_exit])
          all_goals exact ⟨i, Nat.le_refl _, hi, rfl⟩
        · unfold $ld
          simp only [hrd, hin]
          split_ok
          all_goals (try simp only [Bool.true_and, Bool.and_true, Bool.or_true, Bool.true_or, Bool.and_self, Bool.not_true, Bool.not_false])
          all_goals repeat' split_n
          all_goals (try simp only [Flow.andThen_exit, Bool.true_and, Bool.and_true, Bool.or_true, Bool.true_or, Bool.and_self, Bool.not_true, Bool.not_false])
      · rw [if_neg hg]
        have hv1 : int64Min ≤ value * 10 - (digitVal c : Int) ∧ value * 10 - (digitVal c : Int) ≤ 0 := by
          simp only [int64Min]; omega
        have ih' := fun iI vI h1 h2 => ih (i + 1) (value * 10 - (digitVal c : Int)) f iI vI h1 h2 (by omega) (by omega) hv1.1 hv1.2
        rw [← hu]
        constructor
        · unfold $lp
          simp only [hrd]
          split_ok
          repeat' split_n
          all_goals (try simp only [Flow.bind_next])
          all_goals (refine OplRun_mono $s i (i + 1) _ _ (by omega) (ih' _ _ ?_ ?_).1 <;> first | omega | (push_cast; omega))
        · unfold $ld
          simp only [hrd, hin]
          split_ok
          all_goals (try simp only [Bool.true_and, Bool.and_true, Bool.or_true, Bool.true_or, Bool.and_self, Bool.not_true, Bool.not_false])
          all_goals repeat' split_n
          all_goals (try simp only [Flow.andThen_next, Bool.true_and])
          all_goals defined_split
          all_goals first
            | (refine (ih' _ _ ?_ ?_).2 <;> first | omega | (push_cast; omega))
            | (rw [idx_succ]; exact hp1)
            | omega
    · have hdg := (isDigit_false_iff c).mp (by simpa using hdig)
      rw [oplDigits_cons_other value c u hdig]
      constructor
      · unfold $lp
        simp only [hrd]
        split_ok
        exact ⟨i, Nat.le_refl _, hi, hd.symm, by simp only [int64Min]; omega, hhi, rfl⟩
      · unfold $ld
        simp only [hrd, hin]
        split_ok
        all_goals simp only [Bool.true_and, Bool.and_true, Bool.or_true, Bool.true_or, Bool.and_self, Bool.not_true, Bool.not_false]))

/-! ### `opl_parse_int<int64_t>` -/

/-- the digit loop: `k` = number of characters left -/
theorem src_tie_opl_parse_int_ppc_ri64_loop (s t : List UInt8) : ∀ (k i : Nat) (value : Int) (fuel : Nat) (iI vI : Int),
    iI = (i : Int) → vI = value → i + k = s.length → k < fuel → int64Min ≤ value → value ≤ 0 →
    OplRun s i (oplDigits value (s.drop i)) (opl_parse_int_ppc_ri64.loop_1 fuel (s ++ 0 :: t) iI vI) ∧
    opl_parse_int_ppc_ri64.loop_1_defined fuel (s ++ 0 :: t) iI vI = true := by
  opl_loop_tie s t opl_parse_int_ppc_ri64.loop_1 opl_parse_int_ppc_ri64.loop_1_defined

/-- the range checks after the digits -/
theorem src_tie_opl_parse_int_ppc_ri64_k2 (s t : List UInt8) (j : Nat) (negative : Bool) (value : Int)
    (hlo : int64Min ≤ value) (hhi : value ≤ 0) :
    opl_parse_int_ppc_ri64.k_2 (s ++ 0 :: t) j negative value = k2spec (-9223372036854775808) 9223372036854775807 j negative value ∧
    opl_parse_int_ppc_ri64.k_2_defined (s ++ 0 :: t) j negative value = true := by
  simp only [int64Min] at hlo
  constructor
  · unfold opl_parse_int_ppc_ri64.k_2 k2spec
    dsimp only [int64Min]
    repeat' split_n
    all_goals simp only [Flow.seq_exit, Flow.seq_next]
    all_goals first | rfl | (congr 1; omega) | (simp [*]; done) | (simp [*] <;> omega) | (have hx : ¬ (-value > 9223372036854775807) := (by omega); simp [*] <;> omega)
  · unfold opl_parse_int_ppc_ri64.k_2_defined
    repeat' split_n
    all_goals first | rfl | (defined_split <;> omega)

/-- `opl_parse_int<int64_t>`: for EVERY byte string `s` (NUL-terminated in `s ++ 0 :: t`), every start position `i` and any
    fuel > the number of characters left + 1, the translated function returns what `oplParseInt -9223372036854775808 9223372036854775807` returns on
    the suffix (same value, same end position; `osmium::opl_error` where the model fails), without undefined behaviour
    (no read past the NUL, no overflow of the negatively accumulated `int64_t value`) -/
theorem src_tie_opl_parse_int_ppc_ri64_main (s t : List UInt8) (i fuel : Nat) (hi : i ≤ s.length) (hf : s.length - i + 2 ≤ fuel) :
    OplOut s i (oplParseInt (-9223372036854775808) 9223372036854775807 (s.drop i)) (opl_parse_int_ppc_ri64 fuel (s ++ 0 :: t) i) ∧
    opl_parse_int_ppc_ri64_defined fuel (s ++ 0 :: t) i = true := by
  have hrd0 := rdS_cbuf s t i hi
  have hin0 := inB_cbuf s t i hi
  have hsc0 := sc_cases (peek (s.drop i))
  -- the sign
  obtain ⟨i1, hi1, hi1a, hsign⟩ : ∃ i1 : Nat, i1 ≤ s.length ∧
      ((peek (s.drop i)).toNat = 45 ∧ i1 = i + 1 ∨ (peek (s.drop i)).toNat ≠ 45 ∧ i1 = i) ∧
      (if peek (s.drop i) == cMinus then (s.drop i).tail else s.drop i) = s.drop i1 := by
    by_cases hm : (peek (s.drop i)).toNat = 45
    · have : i < s.length := lt_of_peek_ne_zero s i (by intro h; rw [h] at hm; simp at hm)
      refine ⟨i + 1, by omega, Or.inl ⟨hm, rfl⟩, ?_⟩
      simp [beq_char, hm, tail_drop]
    · exact ⟨i, hi, Or.inr ⟨hm, rfl⟩, by simp [beq_char, hm]⟩
  have hneg : (peek (s.drop i) == cMinus) = decide ((peek (s.drop i)).toNat = 45) := by rw [beq_char]; rfl
  have hrd1 := rdS_cbuf s t i1 hi1
  have hin1 := inB_cbuf s t i1 hi1
  have hsc1 := sc_cases (peek (s.drop i1))
  have hp1 := ptrOk_cbuf s t (i + 1)
  unfold oplParseInt
  simp only [hsign]
  by_cases hdig : isDigit (peek (s.drop i1)) = true
  · have hdg := (isDigit_iff _).mp hdig
    simp only [hdig, Bool.not_true, Bool.false_eq_true, if_false]
    obtain ⟨hl, hld⟩ := src_tie_opl_parse_int_ppc_ri64_loop s t (s.length - i1) i1 0 fuel i1 0 rfl rfl (by omega) (by omega) (by simp [int64Min]) (Int.le_refl 0)
    cases hmod : oplDigits 0 (s.drop i1) with
    | error e =>
      rw [hmod] at hl
      obtain ⟨j, hj1, hj2, hfl⟩ := hl
      simp only []
      constructor
      · refine ⟨j, by omega, hj2, ?_⟩
        rcases hi1a with ⟨h45, rfl⟩ | ⟨h45, rfl⟩ <;>
        · unfold opl_parse_int_ppc_ri64
          simp only [hrd0]
          repeat' split_n
          all_goals idx_norm
          all_goals unfold opl_parse_int_ppc_ri64.k_1
          all_goals simp only [hrd1]
          all_goals repeat' split_n
          all_goals simp only [hfl, Flow.seq_exit]
      · rcases hi1a with ⟨h45, rfl⟩ | ⟨h45, rfl⟩ <;>
        · unfold opl_parse_int_ppc_ri64_defined
          simp only [hrd0, hin0]
          repeat' split_n
          all_goals (idx_norm; try simp only [hp1 (by omega), Bool.true_and, Bool.and_true])
          all_goals unfold opl_parse_int_ppc_ri64.k_1_defined
          all_goals simp only [hrd1, hin1]
          all_goals repeat' split_n
          all_goals simp only [hfl, hld, Flow.andThen_exit, Bool.true_and, Bool.and_true, Bool.or_true, Bool.true_or, Bool.and_self, Bool.not_true, Bool.not_false]
    | ok p =>
      obtain ⟨v, rest⟩ := p
      rw [hmod] at hl
      obtain ⟨j, hj1, hj2, hrest, hv1, hv2, hfl⟩ := hl
      subst hrest
      obtain ⟨h2, h2d⟩ := src_tie_opl_parse_int_ppc_ri64_k2 s t j (decide ((peek (s.drop i)).toNat = 45)) v hv1 hv2
      simp only [hneg]
      have h2' : ∀ (jI : Int) (b : Bool), jI = (j : Int) → b = decide ((peek (s.drop i)).toNat = 45) →
          opl_parse_int_ppc_ri64.k_2 (s ++ 0 :: t) jI b v = k2spec (-9223372036854775808) 9223372036854775807 j (decide ((peek (s.drop i)).toNat = 45)) v := by
        intro jI b e1 e2; subst e1 e2; exact h2
      have h2d' : ∀ (jI : Int) (b : Bool), jI = (j : Int) → b = decide ((peek (s.drop i)).toNat = 45) →
          opl_parse_int_ppc_ri64.k_2_defined (s ++ 0 :: t) jI b v = true := by
        intro jI b e1 e2; subst e1 e2; exact h2d
      constructor
      · have hgen : opl_parse_int_ppc_ri64 fuel (s ++ 0 :: t) i = k2spec (-9223372036854775808) 9223372036854775807 j (decide ((peek (s.drop i)).toNat = 45)) v := by
          rcases hi1a with ⟨h45, rfl⟩ | ⟨h45, rfl⟩ <;>
          · unfold opl_parse_int_ppc_ri64
            simp only [hrd0]
            repeat' split_n
            all_goals idx_norm
            all_goals unfold opl_parse_int_ppc_ri64.k_1
            all_goals simp only [hrd1]
            all_goals repeat' split_n
            all_goals simp only [hfl, Flow.seq_next]
            all_goals simp (disch := bool_disch) only [h2']
        rw [hgen]
        exact OplOut_of_k2spec s i j _ v _ _ (by omega) hj2
      · rcases hi1a with ⟨h45, rfl⟩ | ⟨h45, rfl⟩ <;>
        · unfold opl_parse_int_ppc_ri64_defined
          simp only [hrd0, hin0]
          repeat' split_n
          all_goals (idx_norm; try simp only [hp1 (by omega), Bool.true_and, Bool.and_true])
          all_goals unfold opl_parse_int_ppc_ri64.k_1_defined
          all_goals simp only [hrd1, hin1]
          all_goals repeat' split_n
          all_goals simp only [hfl, hld, Flow.andThen_next, Bool.true_and, Bool.and_true, Bool.or_true, Bool.true_or, Bool.and_self, Bool.not_true, Bool.not_false]
          all_goals simp (disch := bool_disch) only [h2d']
  · have hdg := (isDigit_false_iff _).mp (by simpa using hdig)
    simp only [hdig, Bool.not_false, if_true]
    constructor
    · refine ⟨i1, by omega, hi1, ?_⟩
      rcases hi1a with ⟨h45, rfl⟩ | ⟨h45, rfl⟩ <;>
      · unfold opl_parse_int_ppc_ri64
        simp only [hrd0]
        repeat' split_n
        all_goals idx_norm
        all_goals unfold opl_parse_int_ppc_ri64.k_1
        all_goals simp only [hrd1]
        all_goals repeat' split_n
        all_goals rfl
    · rcases hi1a with ⟨h45, rfl⟩ | ⟨h45, rfl⟩ <;>
      · unfold opl_parse_int_ppc_ri64_defined
        simp only [hrd0, hin0]
        repeat' split_n
        all_goals (idx_norm; try simp only [hp1 (by omega), Bool.true_and, Bool.and_true])
        all_goals unfold opl_parse_int_ppc_ri64.k_1_defined
        all_goals simp only [hrd1, hin1]
        all_goals repeat' split_n
        all_goals simp only [Bool.true_and, Bool.and_true, Bool.or_true, Bool.true_or, Bool.and_self, Bool.not_true, Bool.not_false]

/-! ### `opl_parse_int<uint32_t>` -/

/-- the digit loop: `k` = number of characters left -/
theorem src_tie_opl_parse_int_ppc_ru32_loop (s t : List UInt8) : ∀ (k i : Nat) (value : Int) (fuel : Nat) (iI vI : Int),
    iI = (i : Int) → vI = value → i + k = s.length → k < fuel → int64Min ≤ value → value ≤ 0 →
    OplRun s i (oplDigits value (s.drop i)) (opl_parse_int_ppc_ru32.loop_1 fuel (s ++ 0 :: t) iI vI) ∧
    opl_parse_int_ppc_ru32.loop_1_defined fuel (s ++ 0 :: t) iI vI = true := by
  opl_loop_tie s t opl_parse_int_ppc_ru32.loop_1 opl_parse_int_ppc_ru32.loop_1_defined

/-- the range checks after the digits -/
theorem src_tie_opl_parse_int_ppc_ru32_k2 (s t : List UInt8) (j : Nat) (negative : Bool) (value : Int)
    (hlo : int64Min ≤ value) (hhi : value ≤ 0) :
    opl_parse_int_ppc_ru32.k_2 (s ++ 0 :: t) j negative value = k2spec (0) 4294967295 j negative value ∧
    opl_parse_int_ppc_ru32.k_2_defined (s ++ 0 :: t) j negative value = true := by
  simp only [int64Min] at hlo
  constructor
  · unfold opl_parse_int_ppc_ru32.k_2 k2spec
    dsimp only [int64Min]
    repeat' split_n
    all_goals simp only [Flow.seq_exit, Flow.seq_next]
    all_goals first | rfl | (congr 1; (apply wrapU32_id <;> omega)) | (simp [*]; done) | (simp [*] <;> (apply wrapU32_id <;> omega)) | (have hx : ¬ (-value > 4294967295) := (by omega); simp [*] <;> (apply wrapU32_id <;> omega))
  · unfold opl_parse_int_ppc_ru32.k_2_defined
    repeat' split_n
    all_goals first | rfl | (defined_split <;> omega)

/-- `opl_parse_int<uint32_t>`: for EVERY byte string `s` (NUL-terminated in `s ++ 0 :: t`), every start position `i` and any
    fuel > the number of characters left + 1, the translated function returns what `oplParseInt 0 4294967295` returns on
    the suffix (same value, same end position; `osmium::opl_error` where the model fails), without undefined behaviour
    (no read past the NUL, no overflow of the negatively accumulated `int64_t value`) -/
theorem src_tie_opl_parse_int_ppc_ru32_main (s t : List UInt8) (i fuel : Nat) (hi : i ≤ s.length) (hf : s.length - i + 2 ≤ fuel) :
    OplOut s i (oplParseInt (0) 4294967295 (s.drop i)) (opl_parse_int_ppc_ru32 fuel (s ++ 0 :: t) i) ∧
    opl_parse_int_ppc_ru32_defined fuel (s ++ 0 :: t) i = true := by
  have hrd0 := rdS_cbuf s t i hi
  have hin0 := inB_cbuf s t i hi
  have hsc0 := sc_cases (peek (s.drop i))
  -- the sign
  obtain ⟨i1, hi1, hi1a, hsign⟩ : ∃ i1 : Nat, i1 ≤ s.length ∧
      ((peek (s.drop i)).toNat = 45 ∧ i1 = i + 1 ∨ (peek (s.drop i)).toNat ≠ 45 ∧ i1 = i) ∧
      (if peek (s.drop i) == cMinus then (s.drop i).tail else s.drop i) = s.drop i1 := by
    by_cases hm : (peek (s.drop i)).toNat = 45
    · have : i < s.length := lt_of_peek_ne_zero s i (by intro h; rw [h] at hm; simp at hm)
      refine ⟨i + 1, by omega, Or.inl ⟨hm, rfl⟩, ?_⟩
      simp [beq_char, hm, tail_drop]
    · exact ⟨i, hi, Or.inr ⟨hm, rfl⟩, by simp [beq_char, hm]⟩
  have hneg : (peek (s.drop i) == cMinus) = decide ((peek (s.drop i)).toNat = 45) := by rw [beq_char]; rfl
  have hrd1 := rdS_cbuf s t i1 hi1
  have hin1 := inB_cbuf s t i1 hi1
  have hsc1 := sc_cases (peek (s.drop i1))
  have hp1 := ptrOk_cbuf s t (i + 1)
  unfold oplParseInt
  simp only [hsign]
  by_cases hdig : isDigit (peek (s.drop i1)) = true
  · have hdg := (isDigit_iff _).mp hdig
    simp only [hdig, Bool.not_true, Bool.false_eq_true, if_false]
    obtain ⟨hl, hld⟩ := src_tie_opl_parse_int_ppc_ru32_loop s t (s.length - i1) i1 0 fuel i1 0 rfl rfl (by omega) (by omega) (by simp [int64Min]) (Int.le_refl 0)
    cases hmod : oplDigits 0 (s.drop i1) with
    | error e =>
      rw [hmod] at hl
      obtain ⟨j, hj1, hj2, hfl⟩ := hl
      simp only []
      constructor
      · refine ⟨j, by omega, hj2, ?_⟩
        rcases hi1a with ⟨h45, rfl⟩ | ⟨h45, rfl⟩ <;>
        · unfold opl_parse_int_ppc_ru32
          simp only [hrd0]
          repeat' split_n
          all_goals idx_norm
          all_goals unfold opl_parse_int_ppc_ru32.k_1
          all_goals simp only [hrd1]
          all_goals repeat' split_n
          all_goals simp only [hfl, Flow.seq_exit]
      · rcases hi1a with ⟨h45, rfl⟩ | ⟨h45, rfl⟩ <;>
        · unfold opl_parse_int_ppc_ru32_defined
          simp only [hrd0, hin0]
          repeat' split_n
          all_goals (idx_norm; try simp only [hp1 (by omega), Bool.true_and, Bool.and_true])
          all_goals unfold opl_parse_int_ppc_ru32.k_1_defined
          all_goals simp only [hrd1, hin1]
          all_goals repeat' split_n
          all_goals simp only [hfl, hld, Flow.andThen_exit, Bool.true_and, Bool.and_true, Bool.or_true, Bool.true_or, Bool.and_self, Bool.not_true, Bool.not_false]
    | ok p =>
      obtain ⟨v, rest⟩ := p
      rw [hmod] at hl
      obtain ⟨j, hj1, hj2, hrest, hv1, hv2, hfl⟩ := hl
      subst hrest
      obtain ⟨h2, h2d⟩ := src_tie_opl_parse_int_ppc_ru32_k2 s t j (decide ((peek (s.drop i)).toNat = 45)) v hv1 hv2
      simp only [hneg]
      have h2' : ∀ (jI : Int) (b : Bool), jI = (j : Int) → b = decide ((peek (s.drop i)).toNat = 45) →
          opl_parse_int_ppc_ru32.k_2 (s ++ 0 :: t) jI b v = k2spec (0) 4294967295 j (decide ((peek (s.drop i)).toNat = 45)) v := by
        intro jI b e1 e2; subst e1 e2; exact h2
      have h2d' : ∀ (jI : Int) (b : Bool), jI = (j : Int) → b = decide ((peek (s.drop i)).toNat = 45) →
          opl_parse_int_ppc_ru32.k_2_defined (s ++ 0 :: t) jI b v = true := by
        intro jI b e1 e2; subst e1 e2; exact h2d
      constructor
      · have hgen : opl_parse_int_ppc_ru32 fuel (s ++ 0 :: t) i = k2spec (0) 4294967295 j (decide ((peek (s.drop i)).toNat = 45)) v := by
          rcases hi1a with ⟨h45, rfl⟩ | ⟨h45, rfl⟩ <;>
          · unfold opl_parse_int_ppc_ru32
            simp only [hrd0]
            repeat' split_n
            all_goals idx_norm
            all_goals unfold opl_parse_int_ppc_ru32.k_1
            all_goals simp only [hrd1]
            all_goals repeat' split_n
            all_goals simp only [hfl, Flow.seq_next]
            all_goals simp (disch := bool_disch) only [h2']
        rw [hgen]
        exact OplOut_of_k2spec s i j _ v _ _ (by omega) hj2
      · rcases hi1a with ⟨h45, rfl⟩ | ⟨h45, rfl⟩ <;>
        · unfold opl_parse_int_ppc_ru32_defined
          simp only [hrd0, hin0]
          repeat' split_n
          all_goals (idx_norm; try simp only [hp1 (by omega), Bool.true_and, Bool.and_true])
          all_goals unfold opl_parse_int_ppc_ru32.k_1_defined
          all_goals simp only [hrd1, hin1]
          all_goals repeat' split_n
          all_goals simp only [hfl, hld, Flow.andThen_next, Bool.true_and, Bool.and_true, Bool.or_true, Bool.true_or, Bool.and_self, Bool.not_true, Bool.not_false]
          all_goals simp (disch := bool_disch) only [h2d']
  · have hdg := (isDigit_false_iff _).mp (by simpa using hdig)
    simp only [hdig, Bool.not_false, if_true]
    constructor
    · refine ⟨i1, by omega, hi1, ?_⟩
      rcases hi1a with ⟨h45, rfl⟩ | ⟨h45, rfl⟩ <;>
      · unfold opl_parse_int_ppc_ru32
        simp only [hrd0]
        repeat' split_n
        all_goals idx_norm
        all_goals unfold opl_parse_int_ppc_ru32.k_1
        all_goals simp only [hrd1]
        all_goals repeat' split_n
        all_goals rfl
    · rcases hi1a with ⟨h45, rfl⟩ | ⟨h45, rfl⟩ <;>
      · unfold opl_parse_int_ppc_ru32_defined
        simp only [hrd0, hin0]
        repeat' split_n
        all_goals (idx_norm; try simp only [hp1 (by omega), Bool.true_and, Bool.and_true])
        all_goals unfold opl_parse_int_ppc_ru32.k_1_defined
        all_goals simp only [hrd1, hin1]
        all_goals repeat' split_n
        all_goals simp only [Bool.true_and, Bool.and_true, Bool.or_true, Bool.true_or, Bool.and_self, Bool.not_true, Bool.not_false]

end Osmium.SrcTie.Opl
