/-
C04 built_content, part 2: list algebra of the builders' writes — appending to the uncommitted
part, bumping the size fields of the open items (`P1` = an object being built, `P2` = an object
with an open list builder), writes through a saved offset.
-/
import Osmium.Lemmas.BufPure

namespace Osmium.Buf

open Osmium.Layout

/-! ### writeAt on concatenations -/

theorem writeAt_append_right (X : Bytes) (d : Bytes) : ∀ (Y : Bytes) (c : Nat),
    writeAt (X ++ Y) (X.length + c) d = X ++ writeAt Y c d := by
  induction d with
  | nil => intro Y c; rfl
  | cons x xs ih =>
    intro Y c
    simp only [writeAt]
    rw [List.set_append_right _ _ (by omega)]
    have e : X.length + c - X.length = c := by omega
    rw [e, Nat.add_assoc, ih]

theorem writeAt_append_left (d : Bytes) : ∀ (Y Z : Bytes) (c : Nat), c + d.length ≤ Y.length →
    writeAt (Y ++ Z) c d = writeAt Y c d ++ Z := by
  induction d with
  | nil => intro Y Z c _; rfl
  | cons x xs ih =>
    intro Y Z c h
    simp only [List.length_cons] at h
    simp only [writeAt]
    rw [List.set_append_left _ _ (by omega)]
    exact ih _ _ _ (by simp; omega)

theorem writeAt_zero_prefix (d Y : Bytes) (h : d.length ≤ Y.length) : writeAt Y 0 d = d ++ Y.drop d.length := by
  have := writeAt_eq d Y 0 (by omega)
  simpa using this

/-- overwrite the first `|d|` of `k` reserved bytes at the end -/
theorem writeAt_reserved (P d : Bytes) (k : Nat) (x : UInt8) (h : d.length ≤ k) :
    writeAt (P ++ List.replicate k x) P.length d = P ++ d ++ List.replicate (k - d.length) x := by
  have := writeAt_append_right P d (List.replicate k x) 0
  rw [Nat.add_zero] at this
  rw [this, writeAt_zero_prefix d _ (by simpa using h)]
  simp [List.append_assoc]

theorem writeAt_reserved_full (P d : Bytes) (x : UInt8) :
    writeAt (P ++ List.replicate d.length x) P.length d = P ++ d := by
  rw [writeAt_reserved P d d.length x (Nat.le_refl _)]; simp

/-! ### leBytes / leAt -/

theorem leBytes_mod (v n : Nat) : leBytes (v % 256 ^ n) n = leBytes v n := by
  induction n generalizing v with
  | zero => rfl
  | succ n ih =>
    simp only [leBytes]
    have e : 256 ^ (n + 1) = 256 * 256 ^ n := by rw [Nat.pow_succ, Nat.mul_comm]
    congr 1
    · rw [e, Nat.mod_mul_right_mod]
    · rw [← ih (v / 256), ← ih (v % 256 ^ (n + 1) / 256)]
      congr 1
      rw [e, Nat.mod_mul_right_div_self, Nat.mod_mod]

theorem leBytes4_add_mod (v k : Nat) : leBytes (v % 4294967296 + k) 4 = leBytes (v + k) 4 := by
  rw [← leBytes_mod (v % 4294967296 + k) 4, ← leBytes_mod (v + k) 4]
  congr 1
  show (v % 4294967296 + k) % 4294967296 = (v + k) % 4294967296
  omega

theorem leAt_append_right (X Y : Bytes) (i n : Nat) : leAt (X ++ Y) (X.length + i) n = leAt Y i n := by
  apply leAt_congr
  intro j _
  rw [Nat.add_assoc, List.getElem?_append_right (by omega)]
  congr 1; omega

theorem u32At_mid (X : Bytes) (v : Nat) (T : Bytes) : u32At (X ++ (leBytes v 4 ++ T)) X.length = v % 4294967296 := by
  unfold u32At
  have := leAt_append_right X (leBytes v 4 ++ T) 0 4
  rw [Nat.add_zero] at this
  rw [this, leAt_append_left _ _ 0 4 (by rw [leBytes_len]; omega), leAt_leBytes0]

/-- `Item::add_size` on an item whose size field sits behind `X` -/
theorem addSizeAt_mid (X : Bytes) (v k : Nat) (T : Bytes) :
    addSizeAt X.length k (X ++ (leBytes v 4 ++ T)) = X ++ (leBytes (v + k) 4 ++ T) := by
  unfold addSizeAt setLE
  rw [u32At_mid]
  have := writeAt_append_right X (leBytes (v % 4294967296 + k) 4) (leBytes v 4 ++ T) 0
  rw [Nat.add_zero] at this
  rw [this, writeAt_append_left _ _ _ 0 (by simp [leBytes_len])]
  have h2 := writeAt_zero_prefix (leBytes (v % 4294967296 + k) 4) (leBytes v 4) (by simp [leBytes_len])
  rw [h2, leBytes4_add_mod]
  simp [leBytes_len]

/-! ### the two shapes of the uncommitted part while one object is built at offset 0 -/

/-- an object item under construction: header with size `osz`, then `A` -/
def P1 (ty osz : Nat) (A : Bytes) : Bytes := itemHeader osz ty ++ A

/-- … with an open list builder whose item starts behind `A`: header with size `lsz`, then `B` -/
def P2 (ty osz : Nat) (A : Bytes) (lty lsz : Nat) (B : Bytes) : Bytes :=
  itemHeader osz ty ++ A ++ (itemHeader lsz lty ++ B)

theorem itemHeader_len (sz ty : Nat) : (itemHeader sz ty).length = 8 := by simp [itemHeader, leBytes_len]

theorem P1_len (ty osz : Nat) (A : Bytes) : (P1 ty osz A).length = 8 + A.length := by
  simp [P1, itemHeader_len]

theorem P2_len (ty osz : Nat) (A : Bytes) (lty lsz : Nat) (B : Bytes) :
    (P2 ty osz A lty lsz B).length = 8 + A.length + (8 + B.length) := by
  simp [P2, itemHeader_len]; omega

theorem addSizeAt_P1 (ty osz k : Nat) (A : Bytes) : addSizeAt 0 k (P1 ty osz A) = P1 ty (osz + k) A := by
  have := addSizeAt_mid [] osz k (leBytes ty 2 ++ leBytes 0 2 ++ A)
  simpa [P1, itemHeader, List.append_assoc] using this

theorem addSizeChain_P2 (ty osz : Nat) (A : Bytes) (lty lsz : Nat) (B : Bytes) (k : Nat) :
    addSizeChain [8 + A.length, 0] k (P2 ty osz A lty lsz B) = P2 ty (osz + k) A lty (lsz + k) B := by
  simp only [addSizeChain, List.foldl]
  have h1 := addSizeAt_mid (itemHeader osz ty ++ A) lsz k (leBytes lty 2 ++ leBytes 0 2 ++ B)
  have e1 : (itemHeader osz ty ++ A).length = 8 + A.length := by simp [itemHeader_len]
  rw [e1] at h1
  have h2 : P2 ty osz A lty lsz B = itemHeader osz ty ++ A ++ (leBytes lsz 4 ++ (leBytes lty 2 ++ leBytes 0 2 ++ B)) := by
    simp [P2, itemHeader, List.append_assoc]
  rw [h2, h1]
  have h3 := addSizeAt_mid [] osz k (leBytes ty 2 ++ leBytes 0 2 ++ A ++ (leBytes (lsz + k) 4 ++ (leBytes lty 2 ++ leBytes 0 2 ++ B)))
  simp only [List.length_nil, List.nil_append] at h3
  have h4 : itemHeader osz ty ++ A ++ (leBytes (lsz + k) 4 ++ (leBytes lty 2 ++ leBytes 0 2 ++ B)) =
      leBytes osz 4 ++ (leBytes ty 2 ++ leBytes 0 2 ++ A ++ (leBytes (lsz + k) 4 ++ (leBytes lty 2 ++ leBytes 0 2 ++ B))) := by
    simp [itemHeader, List.append_assoc]
  rw [h4, h3]
  simp [P2, itemHeader, List.append_assoc]

theorem u32At_P2_list (ty osz : Nat) (A : Bytes) (lty lsz : Nat) (B : Bytes) :
    u32At (P2 ty osz A lty lsz B) (8 + A.length) = lsz % 4294967296 := by
  have h := u32At_mid (itemHeader osz ty ++ A) lsz (leBytes lty 2 ++ leBytes 0 2 ++ B)
  have e1 : (itemHeader osz ty ++ A).length = 8 + A.length := by simp [itemHeader_len]
  rw [e1] at h
  rw [← h]
  simp [P2, itemHeader, List.append_assoc]

/-- a write through a saved offset into the body of the open list -/
theorem setLE_P2 (ty osz : Nat) (A : Bytes) (lty lsz : Nat) (B0 S T : Bytes) (c v n : Nat) (h : c + n ≤ S.length) :
    setLE (P2 ty osz A lty lsz (B0 ++ S ++ T)) (8 + A.length + (8 + B0.length) + c) v n =
      P2 ty osz A lty lsz (B0 ++ writeAt S c (leBytes v n) ++ T) := by
  unfold setLE P2
  have e : itemHeader osz ty ++ A ++ (itemHeader lsz lty ++ (B0 ++ S ++ T)) =
      (itemHeader osz ty ++ A ++ (itemHeader lsz lty ++ B0)) ++ (S ++ T) := by simp [List.append_assoc]
  have el : (itemHeader osz ty ++ A ++ (itemHeader lsz lty ++ B0)).length = 8 + A.length + (8 + B0.length) := by
    simp [itemHeader_len]; omega
  rw [e, ← el, writeAt_append_right, writeAt_append_left _ _ _ _ (by rw [leBytes_len]; exact h)]
  simp [List.append_assoc]

theorem padOf_mod (v : Nat) : padOf (v % 4294967296) = padOf v := by
  unfold padOf
  have : v % 4294967296 % 8 = v % 8 := by omega
  rw [this]

theorem padOf_eq (v : Nat) : padOf v = padded v - v := by
  unfold padOf padded; split <;> omega

end Osmium.Buf
