/-
Pipeline base lemmas, part C: each Reader queue has a single producer.
-/
import Osmium.Lemmas.PipelineBaseB

namespace Osmium.Pipeline

open Osmium.Mon

set_option linter.unusedSimpArgs false

variable {α : Type}
variable [DecidableEq α]

/-! ## single producer / single consumer / single shutdown caller per Reader queue -/

theorem inq_single_producer (c : Cfg α) (s : State α) (h : (machine c).Reachable s) :
    (∀ t ∈ s.inq.producers, t = tR) ∧ (∀ x ∈ s.inq.called, x.1 = tR) := by
  revert s
  apply Machine.invariant
  · simp [machine, init, QueueSM.init]
  · intro s e s' _ ih hst
    obtain ⟨ih1, ih2⟩ := ih
    pl_cases e with hst q hq
    all_goals first
      | exact ⟨ih1, ih2⟩
      | (simp only [afterPop_inq, afterPop_outq, afterClose_inq, afterClose_outq]; exact ⟨ih1, ih2⟩)
      | (have h1 := q_producers _ _ _ _ hq
         have h2 := q_called _ _ _ _ hq
         refine ⟨fun t ht => ?_, fun x hx => ?_⟩
         · rcases h1 t ht with h | ⟨y, h⟩
           · exact ih1 t h
           · cases h <;> first | assumption | exact (‹_ ∧ _›).1
         · rcases h2 x hx with h | h
           · exact ih2 x h
           · cases h <;> first | assumption | exact (‹_ ∧ _›).1)

theorem outq_single_producer (c : Cfg α) (s : State α) (h : (machine c).Reachable s) :
    (∀ t ∈ s.outq.producers, t = tP) ∧ (∀ x ∈ s.outq.called, x.1 = tP) := by
  revert s
  apply Machine.invariant
  · simp [machine, init, QueueSM.init]
  · intro s e s' _ ih hst
    obtain ⟨ih1, ih2⟩ := ih
    pl_cases e with hst q hq
    all_goals first
      | exact ⟨ih1, ih2⟩
      | (simp only [afterPop_inq, afterPop_outq, afterClose_inq, afterClose_outq]; exact ⟨ih1, ih2⟩)
      | (have h1 := q_producers _ _ _ _ hq
         have h2 := q_called _ _ _ _ hq
         refine ⟨fun t ht => ?_, fun x hx => ?_⟩
         · rcases h1 t ht with h | ⟨y, h⟩
           · exact ih1 t h
           · cases h <;> first | assumption | exact (‹_ ∧ _›).1
         · rcases h2 x hx with h | h
           · exact ih2 x h
           · cases h <;> first | assumption | exact (‹_ ∧ _›).1)

theorem length_le_one_of_nodup_const {l : List Tid} {a : Tid} (hn : l.Nodup) (h : ∀ t ∈ l, t = a) :
    l.length ≤ 1 := by
  match l, hn, h with
  | [], _, _ => simp
  | [_], _, _ => simp
  | x :: y :: _, hn, h =>
    have hx := h x (by simp)
    have hy := h y (by simp)
    simp_all

/-- The C19 finding "push() spins after shutdown() with ≥ 2 producers on a bounded queue" needs two
    producers: not reachable from a Reader. -/
theorem inq_producers_le_one (c : Cfg α) (s : State α) (h : (machine c).Reachable s) :
    s.inq.producers.length ≤ 1 :=
  length_le_one_of_nodup_const (QueueSM.inv_producers _ _ (reachable_inq c s h)).1 (inq_single_producer c s h).1

theorem outq_producers_le_one (c : Cfg α) (s : State α) (h : (machine c).Reachable s) :
    s.outq.producers.length ≤ 1 :=
  length_le_one_of_nodup_const (QueueSM.inv_producers _ _ (reachable_outq c s h)).1 (outq_single_producer c s h).1

end Osmium.Pipeline
