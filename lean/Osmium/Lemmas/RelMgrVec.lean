/-
The vector machine of the relation managers (Model/RelMgrVec.lean: sorted `Array Elem`, binary
search, index-range loops, iterators that stay in use while the completion callback modifies the
vector) refines the abstract list model (Model/RelMgr.lean) for ALL configurations, relation sets
and histories: `vrun_abs`.  Core-only.
-/
import Osmium.Model.RelMgrVec
import Osmium.Lemmas.RelMgrInv

namespace Osmium.RelMgr

open Osmium.Order (Kind CheckState checkStep)

/-- all three member databases of an abstract state are sorted by member id -/
def Sorted3 (s : State) : Prop := ∀ k, SortedById (s.getDb k)

/-- nothing moved: every members database has the same (member_id, relation_pos) skeleton — same
    length, same ids and relation positions at every index -/
def Stable (v v' : VState) : Prop := ∀ k, skel (v'.getDb k).toList = skel (v.getDb k).toList

/-! ### `abs` bookkeeping -/

@[simp] theorem abs_getDb (v : VState) (k : Kind) : v.abs.getDb k = (v.getDb k).toList := by
  cases k <;> rfl

@[simp] theorem abs_setDb (v : VState) (k : Kind) (es : Array Elem) :
    (v.setDb k es).abs = v.abs.setDb k es.toList := by
  cases k <;> rfl

theorem vsetDb_setDb (v : VState) (k : Kind) (a b : Array Elem) : (v.setDb k a).setDb k b = v.setDb k b := by
  cases k <;> rfl

theorem vsetDb_getDb_self (v : VState) (k : Kind) : v.setDb k (v.getDb k) = v := by
  cases k <;> rfl

theorem vgetDb_setDb_self (v : VState) (k : Kind) (a : Array Elem) : (v.setDb k a).getDb k = a := by
  cases k <;> rfl

@[simp] theorem vsetDb_relAt (v : VState) (k : Kind) (es : Array Elem) : (v.setDb k es).relAt = v.relAt := by
  funext p; cases k <;> rfl

@[simp] theorem abs_relAt (v : VState) (p : Nat) : v.abs.relAt p = v.relAt p := rfl

@[simp] theorem vsetDb_stash (v : VState) (k : Kind) (es : Array Elem) : (v.setDb k es).stash = v.stash := by
  cases k <;> rfl
@[simp] theorem vsetDb_rdb (v : VState) (k : Kind) (es : Array Elem) : (v.setDb k es).rdb = v.rdb := by
  cases k <;> rfl
@[simp] theorem vsetDb_ub (v : VState) (k : Kind) (es : Array Elem) : (v.setDb k es).ub = v.ub := by
  cases k <;> rfl
@[simp] theorem vsetDb_log (v : VState) (k : Kind) (es : Array Elem) : (v.setDb k es).log = v.log := by
  cases k <;> rfl
@[simp] theorem vsetDb_chk (v : VState) (k : Kind) (es : Array Elem) : (v.setDb k es).chk = v.chk := by
  cases k <;> rfl

@[simp] theorem abs_stash (v : VState) : v.abs.stash = v.stash := rfl
@[simp] theorem abs_rdb (v : VState) : v.abs.rdb = v.rdb := rfl
@[simp] theorem abs_ub (v : VState) : v.abs.ub = v.ub := rfl
@[simp] theorem abs_log (v : VState) : v.abs.log = v.log := rfl
@[simp] theorem abs_chk (v : VState) : v.abs.chk = v.chk := rfl
@[simp] theorem abs_outBytes (v : VState) : v.abs.outBytes = v.outBytes := rfl

theorem abs_possiblyFlush (c : Cfg) (v : VState) : (v.possiblyFlush c).abs = v.abs.possiblyFlush c := by
  unfold VState.possiblyFlush State.possiblyFlush
  by_cases h1 : v.outBytes > c.maxBuf
  · have h1' : v.abs.outBytes > c.maxBuf := h1
    rw [if_pos h1, if_pos h1']
    by_cases h2 : (c.hasCallback && decide (v.outBytes > 0)) = true
    · have h2' : (c.hasCallback && decide (v.abs.outBytes > 0)) = true := h2
      rw [if_pos h2, if_pos h2']; rfl
    · have h2' : ¬ (c.hasCallback && decide (v.abs.outBytes > 0)) = true := h2
      rw [if_neg h2, if_neg h2']
  · have h1' : ¬ v.abs.outBytes > c.maxBuf := h1
    rw [if_neg h1, if_neg h1']

theorem abs_flushOutput (c : Cfg) (v : VState) : (v.flushOutput c).abs = v.abs.flushOutput c := by
  unfold VState.flushOutput State.flushOutput
  by_cases h2 : (c.hasCallback && decide (v.outBytes > 0)) = true
  · have h2' : (c.hasCallback && decide (v.abs.outBytes > 0)) = true := h2
    rw [if_pos h2, if_pos h2']; rfl
  · have h2' : ¬ (c.hasCallback && decide (v.abs.outBytes > 0)) = true := h2
    rw [if_neg h2, if_neg h2']

theorem abs_vRelRemove (v : VState) (pos : Nat) : (vRelRemove v pos).abs = relRemove v.abs pos := by
  unfold vRelRemove relRemove
  simp only [abs_rdb]
  generalize v.rdb[pos]? = x
  cases x <;> rfl

/-! ### Binary search = partition point -/

theorem takeWhile_len_of_pos {α : Type} (p : α → Bool) : ∀ (l : List α) (h : Nat) (hh : h < l.length),
    p l[h] = true → l.Pairwise (fun a b => p b = true → p a = true) →
    (l.takeWhile p).length = h + 1 + ((l.drop (h + 1)).takeWhile p).length := by
  intro l
  induction l with
  | nil => intro h hh; simp at hh
  | cons a l ih =>
    intro h hh hp hpw
    rw [List.pairwise_cons] at hpw
    cases h with
    | zero =>
      simp only [List.getElem_cons_zero] at hp
      simp [hp]; omega
    | succ h =>
      simp only [List.getElem_cons_succ] at hp
      have hh' : h < l.length := by simpa using hh
      have hpa : p a = true := hpw.1 _ (List.getElem_mem hh') hp
      have := ih h hh' hp hpw.2
      simp [hpa, this]; omega

theorem takeWhile_of_neg {α : Type} (p : α → Bool) : ∀ (l : List α) (h : Nat) (hh : h < l.length),
    p l[h] = false → l.takeWhile p = (l.take h).takeWhile p := by
  intro l
  induction l with
  | nil => intro h hh; simp at hh
  | cons a l ih =>
    intro h hh hp
    cases h with
    | zero =>
      simp only [List.getElem_cons_zero] at hp
      simp [hp]
    | succ h =>
      simp only [List.getElem_cons_succ] at hp
      have hh' : h < l.length := by simpa using hh
      have := ih h hh' hp
      simp only [List.take_succ_cons, List.takeWhile_cons, this]

theorem partPoint_spec (p : Elem → Bool) (es : Array Elem) (first len : Nat)
    (hb : first + len ≤ es.size)
    (hpart : (es.toList.drop first |>.take len).Pairwise (fun a b => p b = true → p a = true)) :
    partPoint p es first len = first + ((es.toList.drop first |>.take len).takeWhile p).length := by
  induction len using Nat.strongRecOn generalizing first with
  | _ len ih =>
    rw [partPoint]
    split
    · rename_i h0; subst h0; simp
    · rename_i h0
      have hlt : first + len / 2 < es.size := by omega
      have hl : ((es.toList.drop first).take len).length = len := by
        simp; omega
      have hidx : len / 2 < ((es.toList.drop first).take len).length := by omega
      have hget : es[first + len / 2]? = some ((es.toList.drop first).take len)[len / 2] := by
        rw [List.getElem_take, List.getElem_drop]
        simp [hlt]
      rw [hget]
      simp only []
      split
      · rename_i hp
        have hd : ((es.toList.drop first).take len).drop (len / 2 + 1) =
            (es.toList.drop (first + len / 2 + 1)).take (len - len / 2 - 1) := by
          rw [List.drop_take, List.drop_drop]
          congr 1 <;> omega
        rw [ih (len - len / 2 - 1) (by omega) (first + len / 2 + 1) (by omega)
          (by rw [← hd]; exact hpart.sublist (List.drop_sublist _ _))]
        rw [takeWhile_len_of_pos p _ (len / 2) hidx hp hpart, hd]
        omega
      · rename_i hp
        have hp' : p ((es.toList.drop first).take len)[len / 2] = false := by simpa using hp
        have hd : ((es.toList.drop first).take len).take (len / 2) = (es.toList.drop first).take (len / 2) := by
          rw [List.take_take]; congr 1; omega
        rw [ih (len / 2) (by omega) first (by omega)
          (by rw [← hd]; exact hpart.sublist (List.take_sublist _ _))]
        rw [takeWhile_of_neg p _ (len / 2) hidx hp', hd]

theorem cmpLower_eq (id : Int) : cmpLower id = fun e => decide (e.mid < id) := rfl
theorem cmpUpper_eq (id : Int) : cmpUpper id = fun e => !decide (id < e.mid) := rfl

theorem vFind_spec (es : Array Elem) (id : Int) (h : SortedById es.toList) :
    (vFind es id).1 = (splitRange es.toList id).1.length ∧
    (vFind es id).2 = (splitRange es.toList id).1.length + (splitRange es.toList id).2.1.length := by
  have htake : es.toList.take es.size = es.toList := by rw [← Array.length_toList, List.take_length]
  have h1 : partPoint (cmpLower id) es 0 es.size = (es.toList.takeWhile (fun e => decide (e.mid < id))).length := by
    rw [partPoint_spec (cmpLower id) es 0 es.size (by omega)]
    · simp only [List.drop_zero, htake]; simp [cmpLower_eq]
    · simp only [List.drop_zero, htake]
      exact h.imp (by intro a b hab; simp only [cmpLower, decide_eq_true_eq]; omega)
  have hdrop : es.toList.drop (es.toList.takeWhile (fun e => decide (e.mid < id))).length =
      es.toList.dropWhile (fun e => decide (e.mid < id)) := by
    conv => lhs; arg 2; rw [← List.takeWhile_append_dropWhile (p := fun e : Elem => decide (e.mid < id)) (l := es.toList)]
    exact List.drop_left
  have hlen : (es.toList.dropWhile (fun e => decide (e.mid < id))).length =
      es.size - (es.toList.takeWhile (fun e => decide (e.mid < id))).length := by
    rw [← hdrop]; simp
  have hle : (es.toList.takeWhile (fun e => decide (e.mid < id))).length ≤ es.size := by
    rw [← Array.length_toList]; exact (List.takeWhile_sublist _).length_le
  have htk : (es.toList.drop (es.toList.takeWhile (fun e => decide (e.mid < id))).length).take
      (es.size - (es.toList.takeWhile (fun e => decide (e.mid < id))).length) =
      es.toList.dropWhile (fun e => decide (e.mid < id)) := by
    rw [hdrop, ← hlen, List.take_length]
  have h2 : partPoint (cmpUpper id) es (es.toList.takeWhile (fun e => decide (e.mid < id))).length
      (es.size - (es.toList.takeWhile (fun e => decide (e.mid < id))).length) =
      (es.toList.takeWhile (fun e => decide (e.mid < id))).length +
      ((es.toList.dropWhile (fun e => decide (e.mid < id))).takeWhile (fun e => !decide (id < e.mid))).length := by
    rw [partPoint_spec (cmpUpper id) es _ _ (by omega)]
    · rw [htk]; rfl
    · rw [htk]
      have hs : SortedById (es.toList.dropWhile (fun e => decide (e.mid < id))) :=
        h.sublist (List.dropWhile_sublist _)
      exact hs.imp (by
        intro a b hab
        simp only [cmpUpper, Bool.not_eq_true', decide_eq_false_iff_not]; omega)
  simp only [vFind, splitRange, h1, h2, and_self]

/-! ### The loops over an index range -/

theorem getElem?_mid (pre rest : List Elem) (a : Elem) (es : Array Elem) (h : es.toList = pre ++ a :: rest) :
    es[pre.length]? = some a := by
  rw [← Array.getElem?_toList, h]
  simp

theorem modify_mid {α : Type} (g : α → α) (a : α) (r : List α) : ∀ pre : List α,
    (pre ++ a :: r).modify pre.length g = pre ++ g a :: r := by
  intro pre
  induction pre with
  | nil => simp
  | cons b pre ih => simp [ih]

theorem mapSeg_toList' (g : Elem → Elem) (mid : List Elem) : ∀ (pre post : List Elem) (es : Array Elem),
    es.toList = pre ++ mid ++ post → (mapSeg g es pre.length mid.length).toList = pre ++ mid.map g ++ post := by
  induction mid with
  | nil => intro pre post es h; simpa [mapSeg] using h
  | cons a rest ih =>
    intro pre post es h
    simp only [List.length_cons, mapSeg]
    have h2 : (es.modify pre.length g).toList = (pre ++ [g a]) ++ rest ++ post := by
      rw [Array.toList_modify, h]
      simpa using modify_mid g a (rest ++ post) pre
    have := ih (pre ++ [g a]) post _ h2
    simp only [List.length_append, List.length_cons, List.length_nil] at this
    rw [this]
    simp

theorem mapSeg_toList (g : Elem → Elem) (pre mid post : List Elem) (es : Array Elem) (h : es.toList = pre ++ mid ++ post) :
    (mapSeg g es pre.length mid.length).toList = pre ++ mid.map g ++ post :=
  mapSeg_toList' g mid pre post es h

theorem countSeg_eq' (mid : List Elem) : ∀ (pre post : List Elem) (es : Array Elem),
    es.toList = pre ++ mid ++ post → countSeg es pre.length mid.length = countNotRemoved mid := by
  induction mid with
  | nil => intro pre post es h; simp [countSeg, countNotRemoved]
  | cons a rest ih =>
    intro pre post es h
    simp only [List.length_cons, countSeg]
    rw [getElem?_mid pre (rest ++ post) a es (by simpa using h)]
    have h2 : es.toList = (pre ++ [a]) ++ rest ++ post := by simpa using h
    have := ih (pre ++ [a]) post es h2
    simp only [List.length_append, List.length_cons, List.length_nil] at this
    rw [this]
    simp only [countNotRemoved, List.filter_cons]
    split <;> simp <;> omega

theorem countSeg_eq (pre mid post : List Elem) (es : Array Elem) (h : es.toList = pre ++ mid ++ post) :
    countSeg es pre.length mid.length = countNotRemoved mid :=
  countSeg_eq' mid pre post es h

theorem markSeg_toList' (f : Nat → Option Int) (relid : Int) (mid : List Elem) : ∀ (pre post : List Elem) (es : Array Elem),
    es.toList = pre ++ mid ++ post →
    (markSeg f relid es pre.length mid.length).toList = pre ++ markFirst f relid mid ++ post := by
  induction mid with
  | nil => intro pre post es h; simpa [markSeg, markFirst] using h
  | cons a rest ih =>
    intro pre post es h
    simp only [List.length_cons, markSeg]
    rw [getElem?_mid pre (rest ++ post) a es (by simpa using h)]
    simp only [markFirst]
    split
    · rw [Array.toList_setIfInBounds, h]
      simp [List.set_append_right]
    · have h2 : es.toList = (pre ++ [a]) ++ rest ++ post := by simpa using h
      have := ih (pre ++ [a]) post es h2
      simp only [List.length_append, List.length_cons, List.length_nil] at this
      rw [this]
      simp

theorem markSeg_toList (f : Nat → Option Int) (relid : Int) (pre mid post : List Elem) (es : Array Elem)
    (h : es.toList = pre ++ mid ++ post) :
    (markSeg f relid es pre.length mid.length).toList = pre ++ markFirst f relid mid ++ post :=
  markSeg_toList' f relid mid pre post es h

/-! ### `std::sort` -/

theorem sortElems_pairwise (es : List Elem) : (sortElems es).Pairwise (fun a b => elemLe a b = true) := by
  induction es with
  | nil => simp [sortElems]
  | cons a l ih =>
    simp only [sortElems, List.foldr_cons]
    exact insertElem_sorted a _ ih

theorem elemLe_antisymm (a b : Elem) (h1 : elemLe a b = true) (h2 : elemLe b a = true) (hh : a.h = b.h) : a = b := by
  obtain ⟨am, an, ar, ah⟩ := a
  obtain ⟨bm, bn, br, bh⟩ := b
  simp only [elemLe, numLt, Bool.or_eq_true, Bool.and_eq_true, decide_eq_true_eq, beq_iff_eq,
    Bool.not_eq_true'] at h1 h2
  simp only at hh
  subst hh
  cases an <;> cases bn <;> simp [numLe] at h1 h2 ⊢ <;> omega

theorem vSort_toList (es : Array Elem) (h0 : ∀ e ∈ es.toList, e.h = 0) : (vSort es).toList = sortElems es.toList := by
  unfold vSort
  simp only []
  have hp : (es.toList.mergeSort elemLe).Perm (sortElems es.toList) :=
    (List.mergeSort_perm _ _).trans (sortElems_perm _).symm
  have hs1 : (es.toList.mergeSort elemLe).Pairwise (fun a b => elemLe a b = true) :=
    List.pairwise_mergeSort (fun a b c h1 h2 => elemLe_trans a b c h1 h2) (fun a b => elemLe_total a b) _
  refine List.Perm.eq_of_pairwise ?_ hs1 (sortElems_pairwise _) hp
  intro a b ha hb h1 h2
  have ha' : a ∈ es.toList := (List.mergeSort_perm _ _).mem_iff.mp ha
  have hb' : b ∈ es.toList := (sortElems_perm _).mem_iff.mp hb
  exact elemLe_antisymm a b h1 h2 (by rw [h0 a ha', h0 b hb'])

/-! ### Abstract model: the skeleton of the members databases never changes (unconditionally) -/

theorem sortedById_iff_skel (es : List Elem) : SortedById es ↔ (skel es).Pairwise (fun a b => a.1 ≤ b.1) := by
  unfold SortedById skel
  rw [List.pairwise_map]

theorem sortedById_of_skel {es es' : List Elem} (h : skel es' = skel es) (hs : SortedById es) : SortedById es' := by
  rw [sortedById_iff_skel] at hs ⊢
  rw [h]; exact hs

theorem sorted3_of_skel {s s' : State} (h : ∀ k, skel (s'.getDb k) = skel (s.getDb k)) (hs : Sorted3 s) : Sorted3 s' :=
  fun k => sortedById_of_skel (h k) (hs k)

theorem dbRemove_skel (c : Cfg) (s : State) (k : Kind) (id relid : Int) :
    ∀ k', skel ((dbRemove c s k id relid).getDb k') = skel (s.getDb k') := by
  rcases dbRemove_cases c s k id relid with h | ⟨pre, mid, post, mid2, e0, st, ub, happ, he0, hsk, hm2, hst, heq⟩
  · rw [h]; exact fun _ => rfl
  · rw [heq]
    intro k'
    rw [getDb_setDb]
    split
    · rename_i hk; subst hk
      rw [← happ]
      unfold skel at hsk ⊢
      rw [List.map_append, List.map_append, List.map_append, List.map_append, hsk]
    · cases k' <;> rfl

theorem removeMembers_skel (c : Cfg) (relid : Int) (ms : List Member) :
    ∀ (s : State) k', skel ((removeMembers c relid s ms).getDb k') = skel (s.getDb k') := by
  induction ms with
  | nil => intro s k'; rfl
  | cons m ms ih =>
    intro s k'
    simp only [removeMembers]
    rw [ih]
    split
    · exact dbRemove_skel c s _ _ _ k'
    · rfl

theorem possiblyFlush_getDb (c : Cfg) (s : State) (k : Kind) : (s.possiblyFlush c).getDb k = s.getDb k := by
  unfold State.possiblyFlush
  split
  · split
    · cases k <;> rfl
    · rfl
  · rfl

theorem flushOutput_getDb (c : Cfg) (s : State) (k : Kind) : (s.flushOutput c).getDb k = s.getDb k := by
  unfold State.flushOutput
  split
  · cases k <;> rfl
  · rfl

theorem announce_getDb (c : Cfg) (s : State) (pos : Nat) (r : Rel) (k : Kind) : (announce c s pos r).getDb k = s.getDb k := by
  cases k <;> rfl

theorem relRemove_getDb (s : State) (pos : Nat) (k : Kind) : (relRemove s pos).getDb k = s.getDb k := by
  unfold relRemove
  split
  · cases k <;> rfl
  · rfl

theorem handleComplete_skel (c : Cfg) (s : State) (pos : Nat) :
    ∀ k, skel ((handleComplete c s pos).getDb k) = skel (s.getDb k) := by
  intro k
  unfold handleComplete
  split
  · cases k <;> rfl
  · rw [relRemove_getDb, removeMembers_skel, possiblyFlush_getDb, announce_getDb]

theorem completeStep_skel (c : Cfg) (s : State) (q : Nat) :
    ∀ k, skel ((completeStep c s q).getDb k) = skel (s.getDb k) := by
  intro k
  unfold completeStep
  split
  · cases k <;> rfl
  · split
    · cases k <;> rfl
    · split
      · rw [handleComplete_skel]; cases k <;> rfl
      · cases k <;> rfl

theorem completeLoop_skel (c : Cfg) (ps : List Nat) :
    ∀ (s : State) k, skel ((completeLoop c s ps).getDb k) = skel (s.getDb k) := by
  induction ps with
  | nil => intro s k; rfl
  | cons p ps ih => intro s k; simp only [completeLoop]; rw [ih, completeStep_skel]

theorem skel_map_h (h : Nat) (l : List Elem) : skel (l.map (fun e : Elem => { e with h := h })) = skel l := by
  simp [skel, List.map_map, Function.comp_def]

theorem skel_append (a b : List Elem) : skel (a ++ b) = skel a ++ skel b := by
  simp [skel]

theorem memberAdd_skel (c : Cfg) (s : State) (o : Obj) :
    ∀ k, skel ((memberAdd c s o).getDb k) = skel (s.getDb k) := by
  intro k
  unfold memberAdd
  have happ := splitRange_append (s.getDb o.kind) o.id
  generalize splitRange (s.getDb o.kind) o.id = sr at happ
  obtain ⟨pre, mid, post⟩ := sr
  simp only [] at happ ⊢
  split
  · rw [possiblyFlush_getDb]; cases k <;> rfl
  · rw [possiblyFlush_getDb, completeLoop_skel, getDb_setDb]
    split
    · rename_i hk; subst hk
      rw [← happ]
      simp only [skel_append, skel_map_h]
    · cases k <;> rfl

theorem handleObj_skel (c : Cfg) (s s' : State) (o : Obj) (h : handleObj c s o = some s') :
    ∀ k, skel (s'.getDb k) = skel (s.getDb k) := by
  intro k
  unfold handleObj at h
  by_cases he : (!c.enabled o.kind) = true
  · rw [if_pos he] at h
    simp only [Option.some.injEq] at h
    subst h; rfl
  · rw [if_neg he] at h
    cases hc : checkStep s.chk o.kind o.id with
    | none => rw [hc] at h; simp at h
    | some chk =>
      rw [hc] at h
      simp only [Option.some.injEq] at h
      subst h
      rw [memberAdd_skel]; cases k <;> rfl

theorem runOps_skel (c : Cfg) (ops : List Op) :
    ∀ (s : State) k, skel ((runOps c s ops).getDb k) = skel (s.getDb k) := by
  induction ops with
  | nil => intro s k; rfl
  | cons op ops ih =>
    intro s k
    cases op with
    | query k' id => simp only [runOps]; rw [ih]; cases k <;> rfl
    | flush => simp only [runOps]; rw [ih, flushOutput_getDb]
    | obj o =>
      simp only [runOps]
      cases h : handleObj c s o with
      | none => cases k <;> rfl
      | some s' =>
        simp only []
        rw [ih]; exact handleObj_skel c s s' o h k

/-! ### Refinement of the operations -/

theorem find_facts (es : Array Elem) (id : Int) (h : SortedById es.toList) :
    ∃ pre mid post, splitRange es.toList id = (pre, mid, post) ∧ es.toList = pre ++ mid ++ post ∧
      vFind es id = (pre.length, pre.length + mid.length) := by
  have h1 := vFind_spec es id h
  have h2 := splitRange_append es.toList id
  generalize splitRange es.toList id = sr at h1 h2
  obtain ⟨pre, mid, post⟩ := sr
  exact ⟨pre, mid, post, rfl, h2.symm, Prod.ext h1.1 h1.2⟩

theorem abs_setDb_with (v : VState) (k : Kind) (a b : Array Elem) (st : Stash) (u : Bool) :
    (({ (v.setDb k a) with stash := st, ub := u } : VState).setDb k b).abs =
      ({ v.abs with stash := st, ub := u } : State).setDb k b.toList := by
  cases k <;> rfl

theorem vRemove_abs_aux (c : Cfg) (v : VState) (k : Kind) (id relid : Int) (pre mid post : List Elem)
    (hsplit : splitRange (v.getDb k).toList id = (pre, mid, post))
    (happ : (v.getDb k).toList = pre ++ mid ++ post)
    (hfind : vFind (v.getDb k) id = (pre.length, pre.length + mid.length)) :
    (vRemove c v k id relid).abs = dbRemove c v.abs k id relid := by
  unfold vRemove dbRemove
  dsimp only []
  rw [abs_getDb, hsplit, hfind]
  dsimp only []
  cases mid with
  | nil => simp
  | cons e0 rest =>
    rw [if_neg (by simp)]
    rw [getElem?_mid pre (rest ++ post) e0 _ (by simpa using happ)]
    simp only [Nat.add_sub_cancel_left]
    rw [countSeg_eq pre (e0 :: rest) post _ happ]
    by_cases hl : (countNotRemoved (e0 :: rest) == 1 && c.fixed) = true
    · simp only [if_pos hl]
      have h1 := mapSeg_toList (fun e : Elem => { e with h := 0 }) pre (e0 :: rest) post _ happ
      have h2 := markSeg_toList (fun p => Option.map (fun x : Rel => x.id) ((v.setDb k #[]).relAt p)) relid pre _ post _ h1
      simp only [List.length_map] at h2
      refine (abs_setDb_with v k #[] _ _ _).trans ?_
      rw [h2]
      simp only [vsetDb_stash, vsetDb_relAt, abs_stash, abs_relAt, abs_ub]
    · simp only [if_neg hl]
      have h2 := markSeg_toList (fun p => Option.map (fun x : Rel => x.id) ((v.setDb k #[]).relAt p)) relid pre _ post _ happ
      refine (abs_setDb_with v k #[] _ _ _).trans ?_
      rw [h2]
      simp only [vsetDb_stash, vsetDb_relAt, abs_stash, abs_relAt, abs_ub]

theorem vRemove_abs (c : Cfg) (v : VState) (k : Kind) (id relid : Int) (hs : Sorted3 v.abs) :
    (vRemove c v k id relid).abs = dbRemove c v.abs k id relid := by
  have hk : SortedById (v.getDb k).toList := by rw [← abs_getDb]; exact hs k
  obtain ⟨pre, mid, post, h1, h2, h3⟩ := find_facts (v.getDb k) id hk
  exact vRemove_abs_aux c v k id relid pre mid post h1 h2 h3

theorem vDbLookup_abs (st : Stash) (es : Array Elem) (id : Int) (h : SortedById es.toList) :
    vDbLookup st es id = dbLookup st es.toList id := by
  obtain ⟨pre, mid, post, h1, h2, h3⟩ := find_facts es id h
  unfold vDbLookup dbLookup
  dsimp only []
  rw [h1, h3]
  dsimp only []
  cases mid with
  | nil => simp
  | cons e0 rest =>
    rw [if_neg (by simp)]
    rw [getElem?_mid pre (rest ++ post) e0 _ (by simpa using h2)]
    rfl

theorem vLookup_abs (v : VState) (k : Kind) (id : Int) (hs : Sorted3 v.abs) : v.lookup k id = v.abs.lookup k id := by
  have hk : SortedById (v.getDb k).toList := by rw [← abs_getDb]; exact hs k
  unfold VState.lookup State.lookup
  rw [vDbLookup_abs _ _ _ hk, abs_getDb, abs_stash]

theorem dbRemove_sorted3 (c : Cfg) (s : State) (k : Kind) (id relid : Int) (hs : Sorted3 s) :
    Sorted3 (dbRemove c s k id relid) :=
  sorted3_of_skel (dbRemove_skel c s k id relid) hs

theorem vRemoveMembers_abs (c : Cfg) (relid : Int) (ms : List Member) : ∀ (v : VState), Sorted3 v.abs →
    (vRemoveMembers c relid v ms).abs = removeMembers c relid v.abs ms := by
  induction ms with
  | nil => intro v _; rfl
  | cons m ms ih =>
    intro v hs
    simp only [vRemoveMembers, removeMembers]
    by_cases hm : m.ref ≠ 0
    · rw [if_pos hm, if_pos hm]
      have h1 := vRemove_abs c v m.kind m.ref relid hs
      rw [ih _ (by rw [h1]; exact dbRemove_sorted3 c _ _ _ _ hs), h1]
    · rw [if_neg hm, if_neg hm]
      exact ih v hs

theorem vAnnounce_abs (c : Cfg) (v : VState) (pos : Nat) (r : Rel) (hs : Sorted3 v.abs) :
    (vAnnounce c v pos r).abs = announce c v.abs pos r := by
  have hl : (fun m : Member => (m, v.lookup m.kind m.ref)) = (fun m : Member => (m, v.abs.lookup m.kind m.ref)) := by
    funext m; rw [vLookup_abs v _ _ hs]
  unfold vAnnounce announce
  dsimp only []
  rw [hl]
  rfl

theorem vHandleComplete_abs (c : Cfg) (v : VState) (pos : Nat) (hs : Sorted3 v.abs) :
    (vHandleComplete c v pos).abs = handleComplete c v.abs pos := by
  unfold vHandleComplete handleComplete
  rw [abs_relAt]
  cases hr : v.relAt pos with
  | none => rfl
  | some r =>
    dsimp only []
    rw [abs_vRelRemove]
    have h1 := vAnnounce_abs c v pos r hs
    have h2 := abs_possiblyFlush c (vAnnounce c v pos r)
    have hs2 : Sorted3 ((vAnnounce c v pos r).possiblyFlush c).abs := by
      rw [h2, h1]
      exact sorted3_of_skel (fun k => by rw [possiblyFlush_getDb, announce_getDb]) hs
    rw [vRemoveMembers_abs c r.id r.members _ hs2, h2, h1]

theorem vCompleteStep_abs (c : Cfg) (v : VState) (pos : Nat) (hs : Sorted3 v.abs) :
    (vCompleteStep c v pos).abs = completeStep c v.abs pos := by
  unfold vCompleteStep completeStep
  rw [abs_rdb]
  cases hr : v.rdb[pos]? with
  | none => rfl
  | some e =>
    dsimp only []
    by_cases h0 : e.missing = 0
    · rw [if_pos h0, if_pos h0]; rfl
    · rw [if_neg h0, if_neg h0]
      by_cases h1 : e.missing - 1 = 0
      · rw [if_pos h1, if_pos h1]
        exact vHandleComplete_abs c _ pos (sorted3_of_skel (s := v.abs) (fun k => by cases k <;> rfl) hs)
      · rw [if_neg h1, if_neg h1]; rfl

theorem completeStep_sorted3 (c : Cfg) (s : State) (q : Nat) (hs : Sorted3 s) : Sorted3 (completeStep c s q) :=
  sorted3_of_skel (completeStep_skel c s q) hs

/-- THE invariant: whatever the completion callback does (remove() of every member of the completed
    relation, stash removals, handle invalidation, relation removal), no element of any members
    database moves -/
theorem vCompleteStep_stable (c : Cfg) (v : VState) (pos : Nat) (hs : Sorted3 v.abs) :
    Stable v (vCompleteStep c v pos) := by
  intro k
  rw [← abs_getDb, ← abs_getDb, vCompleteStep_abs c v pos hs]
  exact completeStep_skel c v.abs pos k

theorem skel_length {a b : List Elem} (h : skel a = skel b) : a.length = b.length := by
  have := congrArg List.length h
  simpa [skel] using this

theorem skel_rpos_seg {a b : List Elem} (h : skel a = skel b) (i n : Nat) :
    ((a.drop i).take n).map (·.rpos) = ((b.drop i).take n).map (·.rpos) := by
  have := congrArg (fun l : List (Int × Nat) => ((l.drop i).take n).map Prod.snd) h
  simpa [skel, List.map_take, List.map_drop, List.map_map, Function.comp_def] using this

/-- the loop of add() that reads `elem.relation_pos` from the CURRENT vector through the iterator =
    the abstract loop over the relation positions read up front; in particular the iterator never
    leaves the vector (no `ub` from the `none` branch) -/
theorem vCompleteLoop_abs (c : Cfg) (k : Kind) (n : Nat) : ∀ (v : VState) (i : Nat), Sorted3 v.abs →
    i + n ≤ (v.getDb k).size →
    (vCompleteLoop c k v i n).abs = completeLoop c v.abs ((((v.getDb k).toList.drop i).take n).map (·.rpos)) := by
  induction n with
  | zero => intro v i _ _; simp [vCompleteLoop, completeLoop]
  | succ n ih =>
    intro v i hs hb
    have hi : i < (v.getDb k).toList.length := by simp; omega
    have hget : (v.getDb k)[i]? = some ((v.getDb k).toList[i]) := by
      rw [← Array.getElem?_toList]; exact List.getElem?_eq_getElem hi
    have hseg : ((v.getDb k).toList.drop i).take (n + 1) =
        (v.getDb k).toList[i] :: ((v.getDb k).toList.drop (i + 1)).take n := by
      rw [List.drop_eq_getElem_cons hi, List.take_succ_cons]
    simp only [vCompleteLoop]
    rw [hget]
    dsimp only []
    rw [hseg]
    simp only [List.map_cons, completeLoop]
    have hst := vCompleteStep_stable c v ((v.getDb k).toList[i]).rpos hs k
    have habs := vCompleteStep_abs c v ((v.getDb k).toList[i]).rpos hs
    have hs' : Sorted3 (vCompleteStep c v ((v.getDb k).toList[i]).rpos).abs := by
      rw [habs]; exact completeStep_sorted3 c _ _ hs
    have hsz : ((vCompleteStep c v ((v.getDb k).toList[i]).rpos).getDb k).size = (v.getDb k).size := by
      have := skel_length hst
      simpa using this
    rw [ih (vCompleteStep c v ((v.getDb k).toList[i]).rpos) (i + 1) hs' (by rw [hsz]; omega), habs,
      skel_rpos_seg hst (i + 1) n]

theorem abs_setDb_with_stash (v : VState) (k : Kind) (a b : Array Elem) (st : Stash) :
    (({ (v.setDb k a) with stash := st } : VState).setDb k b).abs =
      ({ v.abs with stash := st } : State).setDb k b.toList := by
  cases k <;> rfl

theorem getDb_setDb_with_stash (v : VState) (k : Kind) (a b : Array Elem) (st : Stash) :
    (({ (v.setDb k a) with stash := st } : VState).setDb k b).getDb k = b := by
  cases k <;> rfl

theorem sorted3_setH (s : State) (k : Kind) (st : Stash) (h : Nat) (pre mid post : List Elem)
    (happ : s.getDb k = pre ++ mid ++ post) (hs : Sorted3 s) :
    Sorted3 (({ s with stash := st } : State).setDb k (pre ++ mid.map (fun e : Elem => { e with h := h }) ++ post)) := by
  refine sorted3_of_skel (s := s) ?_ hs
  intro k'
  rw [getDb_setDb]
  split
  · rename_i hk; subst hk
    rw [happ]
    simp only [skel_append, skel_map_h]
  · cases k' <;> rfl

theorem vMemberAdd_abs (c : Cfg) (v : VState) (o : Obj) (hs : Sorted3 v.abs) :
    (vMemberAdd c v o).abs = memberAdd c v.abs o := by
  have hk : SortedById (v.getDb o.kind).toList := by rw [← abs_getDb]; exact hs o.kind
  obtain ⟨pre, mid, post, h1, h2, h3⟩ := find_facts (v.getDb o.kind) o.id hk
  unfold vMemberAdd memberAdd
  dsimp only []
  rw [abs_getDb, h1, h3]
  dsimp only []
  cases mid with
  | nil =>
    rw [if_pos (by simp), if_pos (by simp), abs_possiblyFlush]
    rfl
  | cons e0 rest =>
    rw [if_neg (by simp), if_neg (by simp), abs_possiblyFlush]
    simp only [Nat.add_sub_cancel_left, stashAdd]
    have hm := mapSeg_toList (fun e : Elem => { e with h := v.stash.size + 1 }) pre (e0 :: rest) post _ h2
    have habs := abs_setDb_with_stash v o.kind #[]
      (mapSeg (fun e : Elem => { e with h := v.stash.size + 1 }) (v.getDb o.kind) pre.length (e0 :: rest).length)
      (v.stash.push (some (Item.obj o)))
    have hget := getDb_setDb_with_stash v o.kind #[]
      (mapSeg (fun e : Elem => { e with h := v.stash.size + 1 }) (v.getDb o.kind) pre.length (e0 :: rest).length)
      (v.stash.push (some (Item.obj o)))
    rw [hm] at habs
    have hs2 := sorted3_setH v.abs o.kind (v.stash.push (some (Item.obj o))) (v.stash.size + 1) pre (e0 :: rest) post
      (by rw [abs_getDb]; exact h2) hs
    rw [← habs] at hs2
    have hsz : pre.length + (e0 :: rest).length ≤ (mapSeg (fun e : Elem => { e with h := v.stash.size + 1 })
        (v.getDb o.kind) pre.length (e0 :: rest).length).size := by
      rw [← Array.length_toList, hm]; simp
    have hl := vCompleteLoop_abs c o.kind (e0 :: rest).length _ pre.length hs2 (by rw [hget]; exact hsz)
    simp only [vsetDb_stash] at hl ⊢
    rw [hl, habs, hget, hm]
    congr 2
    simp [List.map_map, Function.comp_def]

theorem memberAdd_sorted3 (c : Cfg) (s : State) (o : Obj) (hs : Sorted3 s) : Sorted3 (memberAdd c s o) :=
  sorted3_of_skel (memberAdd_skel c s o) hs

theorem vRunOps_abs (c : Cfg) (ops : List Op) : ∀ v : VState, Sorted3 v.abs →
    (vRunOps c v ops).abs = runOps c v.abs ops := by
  induction ops with
  | nil => intro v _; rfl
  | cons op ops ih =>
    intro v hs
    cases op with
    | query k id =>
      simp only [vRunOps, runOps]
      rw [ih _ (sorted3_of_skel (s := v.abs) (fun k' => by cases k' <;> rfl) hs), ← vLookup_abs v k id hs]
      rfl
    | flush =>
      simp only [vRunOps, runOps]
      have h1 := abs_flushOutput c v
      rw [ih _ (by rw [h1]; exact sorted3_of_skel (fun k' => by rw [flushOutput_getDb]) hs), h1]
    | obj o =>
      simp only [vRunOps, runOps, handleObj]
      by_cases he : (!c.enabled o.kind) = true
      · rw [if_pos he, if_pos he]
        exact ih v hs
      · rw [if_neg he, if_neg he, abs_chk]
        cases hc : checkStep v.chk o.kind o.id with
        | none => rfl
        | some chk =>
          dsimp only []
          have hs1 : Sorted3 ({ v with chk := chk } : VState).abs :=
            sorted3_of_skel (s := v.abs) (fun k' => by cases k' <;> rfl) hs
          have h1 := vMemberAdd_abs c { v with chk := chk } o hs1
          rw [ih _ (by rw [h1]; exact memberAdd_sorted3 c _ o hs1), h1]
          rfl

/-! ### First pass -/

/-- all object handles are invalid (as before `prepare_for_lookup`) -/
def H0 (v : VState) : Prop := ∀ k, ∀ e ∈ (v.getDb k).toList, e.h = 0

theorem trackElems_h0 (c : Cfg) (r : Rel) (pos : Nat) (k : Kind) : ∀ e ∈ trackElems c r pos k, e.h = 0 := by
  intro e he
  unfold trackElems at he
  rw [List.mem_map] at he
  obtain ⟨p, _, rfl⟩ := he
  rfl

theorem vAddRelation_abs (c : Cfg) (v : VState) (r : Rel) : (vAddRelation c v r).abs = addRelation c v.abs r := by
  unfold vAddRelation addRelation
  by_cases h : c.newRel r = true
  · rw [if_pos h, if_pos h]
    simp [VState.abs, stashAdd]
  · rw [if_neg h, if_neg h]

theorem vAddRelation_h0 (c : Cfg) (v : VState) (r : Rel) (h0 : H0 v) : H0 (vAddRelation c v r) := by
  unfold vAddRelation
  by_cases h : c.newRel r = true
  · rw [if_pos h]
    intro k e he
    have : e ∈ (v.getDb k).toList ∨ e ∈ trackElems c r v.rdb.size k := by
      cases k <;> simpa [VState.getDb] using he
    rcases this with h1 | h1
    · exact h0 k e h1
    · exact trackElems_h0 c r _ k e h1
  · rw [if_neg h]; exact h0

theorem vFold_abs (c : Cfg) (rels : List Rel) : ∀ v : VState, H0 v →
    (rels.foldl (vAddRelation c) v).abs = rels.foldl (addRelation c) v.abs ∧ H0 (rels.foldl (vAddRelation c) v) := by
  induction rels with
  | nil => intro v h; exact ⟨rfl, h⟩
  | cons r rels ih =>
    intro v h
    simp only [List.foldl_cons]
    rw [← vAddRelation_abs]
    exact ih _ (vAddRelation_h0 c v r h)

theorem vPrepare_abs (v : VState) (h0 : H0 v) : (vPrepare v).abs = prepare v.abs := by
  unfold vPrepare prepare
  simp only [VState.abs]
  rw [vSort_toList v.ndb (h0 .node), vSort_toList v.wdb (h0 .way), vSort_toList v.rmdb (h0 .relation)]

theorem vFirstPass_abs (c : Cfg) (rels : List Rel) : (vFirstPass c rels).abs = firstPass c rels := by
  unfold vFirstPass firstPass
  have h := vFold_abs c rels {} (by intro k e he; cases k <;> simp [VState.getDb] at he)
  rw [vPrepare_abs _ h.2, h.1]
  rfl

theorem firstPass_sorted3 (c : Cfg) (rels : List Rel) : Sorted3 (firstPass c rels) := by
  intro k
  unfold firstPass prepare
  cases k <;> exact sortElems_sorted _

/-- MAIN: the vector machine (binary search, in-place marking, live iterators) computes exactly the
    abstract run, for ALL configurations, relation sets and histories (no domain hypothesis) -/
theorem vrun_abs (c : Cfg) (rels : List Rel) (ops : List Op) : (vRun c rels ops).abs = run c rels ops := by
  unfold vRun run
  rw [abs_flushOutput, vRunOps_abs c ops _ (by rw [vFirstPass_abs]; exact firstPass_sorted3 c rels), vFirstPass_abs]

/-! ### Ids other than the one removed (the ID ALPHABET clause: only id EQUALITY matters) -/

/-- `dbRemove_cases` with the range named: the database is rebuilt around the range `find(id)` returned -/
theorem dbRemove_cases_split (c : Cfg) (s : State) (k : Kind) (id relid : Int) :
    dbRemove c s k id relid = s ∨
    ∃ (pre mid post mid2 : List Elem) (st : Stash) (ub : Bool),
      splitRange (s.getDb k) id = (pre, mid, post) ∧ skel mid2 = skel mid ∧
      dbRemove c s k id relid = ({ s with stash := st, ub := ub } : State).setDb k (pre ++ mid2 ++ post) := by
  unfold dbRemove
  generalize hsr : splitRange (s.getDb k) id = sr
  obtain ⟨pre, mid, post⟩ := sr
  simp only []
  cases mid with
  | nil => exact Or.inl rfl
  | cons e0 rest =>
    refine Or.inr ⟨pre, e0 :: rest, post, _, _, _, rfl, ?_, rfl⟩
    rw [markFirst_skel]
    split
    · simp [skel]
    · rfl

theorem mids_of_skel {l l' : List Elem} (h : skel l' = skel l) : l'.map (·.mid) = l.map (·.mid) := by
  have := congrArg (List.map Prod.fst) h
  simpa [skel, List.map_map, Function.comp_def] using this

/-- a count that only looks at member ids sees the same number in two databases with the same skeleton -/
theorem filter_mid_length_of_skel {l l' : List Elem} (h : skel l' = skel l) (p : Int → Bool) :
    (l'.filter (fun e => p e.mid)).length = (l.filter (fun e => p e.mid)).length := by
  have e1 : ∀ l : List Elem, (l.filter (fun e => p e.mid)).length = ((l.map (·.mid)).filter p).length := by
    intro l; rw [List.filter_map]; simp [Function.comp_def]
  rw [e1, e1, mids_of_skel h]

/-- `remove(a, …)` leaves every entry with another member id `b` exactly as it was (same entries, same order, same
    handles and marks) — however close or far apart, congruent or not, `a` and `b` are -/
theorem dbRemove_filter_ne (c : Cfg) (s : State) (k k' : Kind) (a b relid : Int) (hs : SortedById (s.getDb k))
    (hab : a ≠ b) :
    ((dbRemove c s k a relid).getDb k').filter (fun e => e.mid == b) = (s.getDb k').filter (fun e => e.mid == b) := by
  rcases dbRemove_cases_split c s k a relid with h | ⟨pre, mid, post, mid2, st, ub, hsr, hsk, heq⟩
  · rw [h]
  · rw [heq, getDb_setDb]
    split
    · rename_i hk; subst hk
      have happ := splitRange_append (s.getDb k') a
      have hf := hsr.symm.trans (splitRange_sorted _ a hs)
      rw [hsr] at happ
      simp only [Prod.mk.injEq] at hf happ
      obtain ⟨_, hmid, _⟩ := hf
      have hm : ∀ e ∈ mid, e.mid = a := by
        intro e he; rw [hmid] at he; simpa using (List.mem_filter.mp he).2
      have hm2 : ∀ e ∈ mid2, e.mid = a := by
        intro e he
        have : e.mid ∈ mid2.map (·.mid) := List.mem_map.mpr ⟨e, he, rfl⟩
        rw [mids_of_skel hsk] at this
        obtain ⟨e', he', hee⟩ := List.mem_map.mp this
        rw [← hee]; exact hm e' he'
      have z1 : mid.filter (fun e => e.mid == b) = [] :=
        List.filter_eq_nil_iff.mpr (fun e he => by simp [hm e he, hab])
      have z2 : mid2.filter (fun e => e.mid == b) = [] :=
        List.filter_eq_nil_iff.mpr (fun e he => by simp [hm2 e he, hab])
      rw [← happ]
      simp only [List.filter_append, z1, z2]
    · cases k' <;> rfl

/-- abstract model: what `find(b)` returns is the same before and after `remove(a, …)`, for every `b ≠ a` -/
theorem dbRemove_other_range (c : Cfg) (s : State) (k k' : Kind) (a b relid : Int) (hs : Sorted3 s) (hab : a ≠ b) :
    (splitRange ((dbRemove c s k a relid).getDb k') b).2.1 = (splitRange (s.getDb k') b).2.1 := by
  rw [splitRange_sorted _ b (dbRemove_sorted3 c s k a relid hs k'), splitRange_sorted _ b (hs k')]
  exact dbRemove_filter_ne c s k k' a b relid (hs k) hab

/-- vector machine: the index range `find(b)` returns is the same before and after `remove(a, …)` -/
theorem vRemove_other_find (c : Cfg) (v : VState) (k k' : Kind) (a b relid : Int) (hs : Sorted3 v.abs) (hab : a ≠ b) :
    vFind ((vRemove c v k a relid).getDb k') b = vFind (v.getDb k') b := by
  have hl : ((vRemove c v k a relid).getDb k').toList = (dbRemove c v.abs k a relid).getDb k' := by
    rw [← abs_getDb, vRemove_abs c v k a relid hs]
  have hs' : SortedById ((vRemove c v k a relid).getDb k').toList := by
    rw [hl]; exact dbRemove_sorted3 c v.abs k a relid hs k'
  have hs0 : SortedById (v.getDb k').toList := by rw [← abs_getDb]; exact hs k'
  have hsk : skel ((vRemove c v k a relid).getDb k').toList = skel (v.getDb k').toList := by
    rw [hl, ← abs_getDb]; exact dbRemove_skel c v.abs k a relid k'
  obtain ⟨h1, h2⟩ := vFind_spec _ b hs'
  obtain ⟨g1, g2⟩ := vFind_spec _ b hs0
  have hr := dbRemove_other_range c v.abs k k' a b relid hs hab
  rw [← hl, abs_getDb] at hr
  have hp : (splitRange ((vRemove c v k a relid).getDb k').toList b).1.length = (splitRange (v.getDb k').toList b).1.length := by
    rw [splitRange_sorted _ b hs', splitRange_sorted _ b hs0]
    exact filter_mid_length_of_skel hsk (fun m => decide (m < b))
  exact Prod.ext (by rw [h1, g1, hp]) (by rw [h2, g2, hp, hr])

end Osmium.RelMgr
