/-
C04 built_content, part 7 — the bridge: running the builder-call script of an object
(`HostileLayout.script`) in the buffer model leaves exactly `HostileLayout.build` in the committed
part, for every initial capacity and both auto-grow modes.
-/
import Osmium.Lemmas.BufBuildHead

namespace Osmium.Buf

open Osmium.Layout
open Osmium.HostileLayout (subBytes subsBytes SubS ObjS OKind subScript headBody build objSize ctorFixed script)

/-- the builder calls of `script o` (everything but the final `commit`) -/
def builderOps (o : ObjS) : List Op :=
  [.open o.kind.bufKind, .user o.user] ++ ((o.subs.map subScript).flatten ++ [.close])

theorem script_eq (o : ObjS) : script o = builderOps o ++ [.commit] := by
  simp [script, builderOps, List.append_assoc]

theorem bufKind_isObj (k : OKind) : k.bufKind.isObj = true := by cases k <;> rfl

theorem ps_close_obj (fill : UInt8) (aux : Bytes) (av : Bool) (p : Pend) (k : Kind) (hk : k.isObj = true) :
    pStep fill aux av (p, [(0, k, none)]) .close = some (p, []) := by
  simp [pStep, aSig, plan, mDtor, hk, pMicros, pList, aAfter]

theorem headBody_len (o : ObjS) (hf : o.fixed = ctorFixed o.kind) : (headBody o).length % 8 = 0 := by
  have h := congrArg List.length (head_eq o hf)
  simp only [P1_len] at h
  have hm : o.kind.headLen o.user.length % 8 = 0 := by
    cases o.kind <;> simp only [OKind.headLen] <;> exact padded_mod _
  -- |headBody| = headLen - 8: from the left-hand side of `head_eq`
  have hl : (headBody o).length + 8 = o.kind.headLen o.user.length := by
    obtain ⟨hsplit, hhdr, hlen, hpre, hge, hoff, htl, hsz, hs8⟩ := ctor_split o.kind.bufKind (bufKind_isObj _)
    have hfit : o.user.length ≤ tlOf o.kind.bufKind + needOf o.kind.bufKind o.user.length := by
      unfold needOf; rw [htl]; split
      · have := padded_ge (o.user.length - o.kind.bufKind.userAvail); omega
      · omega
    simp only [List.length_append, leBytes_len, zeros_len] at h
    have hsz' : o.kind.bufKind.sizeT + 8 + needOf o.kind.bufKind o.user.length = o.kind.headLen o.user.length := by
      have := head_eq o hf
      -- compare the size fields: both sides are `itemHeader size ty ++ …`
      have h4 := congrArg (fun l => u32At l 0) this
      cases hk : o.kind <;> rw [hk] at hf <;>
        simp only [OKind.bufKind, OKind.headLen, Kind.sizeT, sizeofNode, sizeofObject, sizeofChangeset, needOf_cs,
          needOf_node, needOf_way, needOf_relation, needOf_area]
      · exact (need_obj o.user.length 40 rfl).1
      · exact (need_obj o.user.length 32 rfl).1
      · exact (need_obj o.user.length 32 rfl).1
      · exact (need_obj o.user.length 32 rfl).1
      · exact (need_cs o.user.length).1
    omega
  omega

/-- the pure run of all builder calls of one object, from an empty uncommitted part -/
theorem pr_object (fill : UInt8) (aux : Bytes) (av : Bool) (o : ObjS) (hf : o.fixed = ctorFixed o.kind)
    (hs : ∀ s ∈ o.subs, SubOK s) :
    pRun fill aux av ([], []) (builderOps o) = some (build fill o, []) := by
  unfold builderOps
  rw [pRun_append, pr_head fill aux av o.kind.bufKind (bufKind_isObj _) o.user, head_eq o hf]
  simp only [Option.bind_some]
  rw [pRun_append, pr_subs fill aux av _ _ o.subs hs _ _ (headBody_len o hf)]
  simp only [Option.bind_some, pRun, ps_close_obj fill aux av _ _ (bufKind_isObj _)]
  simp [build, objSize, P1, header_eq, List.append_assoc]

theorem run_append (s : St) (a b : List Op) : run s (a ++ b) = run (run s a) b := by
  induction a generalizing s with
  | nil => rfl
  | cons op ops ih => simp only [List.cons_append, run]; exact ih _

theorem step_commit (s : St) (hd : s.dead = none) (hv : s.b0.valid = true) (hst : s.stack = []) :
    (step s .commit).1 = { s with b0 := { s.b0 with committed := s.b0.written } } := by
  simp only [step, hd, hv, hst, frameSig, plan, execBufOp, List.map_nil, List.isEmpty_nil, Bool.not_true,
    Bool.false_eq_true, ↓reduceIte]

/-- State-level: from any state of the current code with auto-grow, no builder open and nothing
    uncommitted, the script of `o` runs without dying and commits exactly `build fill o`. -/
theorem run_script (s0 : St) (hr : Ref s0) (hd : s0.dead = none) (hv : s0.b0.valid = true) (hst : s0.stack = [])
    (hp : s0.b0.pend = []) (o : ObjS) (hf : o.fixed = ctorFixed o.kind) (hs : ∀ s ∈ o.subs, SubOK s) :
    Ref (run s0 (script o)) ∧ (run s0 (script o)).dead = none ∧ (run s0 (script o)).b0.valid = true ∧
    (run s0 (script o)).stack = [] ∧ (run s0 (script o)).b0.pend = [] ∧
    (run s0 (script o)).b0.fill = s0.b0.fill ∧ (run s0 (script o)).b1 = s0.b1 ∧
    (run s0 (script o)).b0.done = s0.b0.done ++ build s0.b0.fill o := by
  have hpure := pr_object s0.b0.fill s0.b1.comm s0.b1.valid o hf hs
  have hreach := run_pure (builderOps o) s0 hr hd hv (build s0.b0.fill o, [])
    (by rw [hp, hst]; exact hpure)
  -- the state after the builder calls
  generalize hs1 : run s0 (builderOps o) = s1 at hreach
  have hrun : run s0 (script o) = run s1 [.commit] := by rw [script_eq, run_append, hs1]
  have hst1 : s1.stack = [] := by
    have := hreach.stack
    cases h : s1.stack with
    | nil => rfl
    | cons f r => rw [h] at this; simp [absStack] at this
  have hd1 : s1.dead = none := by rw [hreach.keep.dead]; exact hd
  have hv1 : s1.b0.valid = true := by rw [hreach.keep.valid]; exact hv
  have hc := commit_done s1.b0 hreach.ref.bounds.1.1
  rw [hrun]
  simp only [run]
  rw [step_commit s1 hd1 hv1 hst1]
  refine ⟨⟨hreach.ref.mode, hreach.ref.fix, ⟨⟨Nat.le_refl _, hreach.ref.bounds.1.2⟩, hreach.ref.bounds.2⟩⟩, hd1, hv1, hst1,
    hc.2, hreach.keep.fill, hreach.keep.b1, ?_⟩
  simp only []
  rw [hc.1, hreach.keep.done, hreach.pend]

/-- … and so for a sequence of objects: the committed bytes are the `build`s one after the other -/
theorem run_scripts (os : List ObjS) (hf : ∀ o ∈ os, o.fixed = ctorFixed o.kind) (hs : ∀ o ∈ os, ∀ s ∈ o.subs, SubOK s) :
    ∀ (s0 : St), Ref s0 → s0.dead = none → s0.b0.valid = true → s0.stack = [] → s0.b0.pend = [] →
    (run s0 (os.map script).flatten).dead = none ∧
    (run s0 (os.map script).flatten).b0.pend = [] ∧
    (run s0 (os.map script).flatten).b0.done = s0.b0.done ++ (os.map (build s0.b0.fill)).flatten := by
  induction os with
  | nil => intro s0 _ hd _ _ hp; simp [run, hd, hp]
  | cons o r ih =>
    intro s0 hr hd hv hst hp
    have h1 := run_script s0 hr hd hv hst hp o (hf o List.mem_cons_self) (hs o List.mem_cons_self)
    have hrun : run s0 ((o :: r).map script).flatten = run (run s0 (script o)) (r.map script).flatten := by
      simp only [List.map_cons, List.flatten_cons, run_append]
    obtain ⟨a1, a2, a3, a4, a5, a6, _, a8⟩ := h1
    have h2 := ih (fun o' h' => hf o' (List.mem_cons_of_mem _ h')) (fun o' h' => hs o' (List.mem_cons_of_mem _ h'))
      (run s0 (script o)) a1 a2 a3 a4 a5
    rw [hrun]
    refine ⟨h2.1, h2.2.1, ?_⟩
    rw [h2.2.2, a8, a6]
    simp [List.append_assoc]

end Osmium.Buf
