/-
C02, o5m part — the o5m reader decodes every spec-conformant file, whichever legal encoding
choices its producer made.

  * `o5m_table_ring`: for EVERY history of ReferenceTable::add / clear calls, `get(i)` returns the
    slot that starts with the i-th most recent eligible string (≤ 252 bytes, added since the
    last clear) for all 1 ≤ i ≤ min(#eligible, number_of_entries) — across wrap-around.
  * `o5m_decode_spec`: for EVERY choice vector (inline string vs back-reference to any occurrence
    for every eligible pair incl. the anonymous user pair, resets / unknown / sync / jump datasets
    anywhere between datasets, reset after the header or not, o5c, bbox and timestamp datasets,
    anonymous user left out at the end of a dataset, trailing 0xfe or not) and EVERY file
    description in the domain, the decoder model (= the code as repaired by 9d3a6e9 etc.)
    returns exactly the described header and objects.  The table may be at any fill level: the
    proof goes through the ring invariant, so wrap-around after 15000 strings is covered.
  * corollaries: the producer's choices are irrelevant (`o5m_choices_irrelevant`: resets,
    unknown datasets, inline vs reference …).

The model decoder is tied to the real Reader by tools/props/c02_o5m.py on files produced by the
compiled `O5mSpec.encode`.
-/
import Osmium.Lemmas.O5mTable
import Osmium.Lemmas.O5mSpecFile
import Osmium.Generated.Consts

namespace Osmium.O5m.C02

open Osmium.O5m Osmium.Wire Osmium.Osm

/-- For every history `h` of table operations on a table of `n > 0` entries: reference `i`
    (1 = most recent) yields the slot memory that begins with the i-th most recent eligible
    string; what follows it inside the slot (`junk`) are remains of older strings. -/
theorem o5m_table_ring (n : Nat) (hn : 0 < n) (h : List TOp) (i : Nat) (s : Bytes)
    (hi : 1 ≤ i) (hin : i ≤ n) (hs : (eligible h)[i - 1]? = some s) :
    ∃ junk, (Table.run { n := n } h).get i = .ok (padSlot (s ++ junk)) ∧ (s ++ junk).length ≤ maxLength := by
  have inv := TableInv.run n hn h
  have hne : eligible h ≠ [] := by intro h0; rw [h0] at hs; simp at hs
  have hsz := inv.nonempty hne
  have hnn : (Table.run { n := n } h).n = n := by
    have : ∀ (h : List TOp) (t : Table), (Table.run t h).n = t.n := by
      intro h
      induction h with
      | nil => intro t; rfl
      | cons op h ih =>
        intro t
        have e : Table.run t (op :: h) = Table.run (t.apply op) h := rfl
        rw [e, ih]
        cases op with
        | clear => rfl
        | add s => simp only [Table.apply, Table.add]; split <;> rfl
    exact this h _
  rw [hnn] at hsz
  have hpre := inv.pre (i - 1) s (by rw [hnn]; omega) hs
  rw [hnn] at hpre
  have e1 : i - 1 + 1 = i := by omega
  rw [e1] at hpre
  obtain ⟨junk, hj⟩ := hpre
  refine ⟨junk, ?_, ?_⟩
  · unfold Table.get
    have c1 : ((Table.run { n := n } h).slots.size == 0) = false := by
      rw [hsz]; simpa using (Nat.ne_of_gt hn)
    have c2 : (i == 0) = false := by simpa using (Nat.ne_of_gt hi)
    have c3 : decide (i > n) = false := by simpa using hin
    simp only [c1, c2, hnn, c3, Bool.or_self, Bool.false_eq_true, ↓reduceIte, hj]
  · rw [hj]; exact inv.len _

/-- the instance the code uses: number_of_entries = 15000 -/
theorem o5m_table_ring_15000 (h : List TOp) (i : Nat) (s : Bytes)
    (hi : 1 ≤ i) (hin : i ≤ 15000) (hs : (eligible h)[i - 1]? = some s) :
    ∃ junk, (Table.run {} h).get i = .ok (padSlot (s ++ junk)) ∧ (s ++ junk).length ≤ maxLength :=
  o5m_table_ring 15000 (by decide) h i s hi hin hs

/-- index 0 and indexes above the table size are rejected, whatever the history -/
theorem o5m_table_index_range (t : Table) (i : Nat) (h : i = 0 ∨ i > t.n) : t.get i = .err .noSuchString := by
  unfold Table.get
  rcases h with h | h
  · simp [h]
  · simp [h]

/-- non-vacuity of `o5m_table_ring` incl. wrap-around: 4 entries, 6 adds (one too long), then get 1..4 -/
example :
    let h := [TOp.add [1], .add [2], .add (List.replicate 253 7), .add [3], .add [4], .add [5, 5], .add [6]]
    eligible h = [[6], [5, 5], [4], [3], [2], [1]] ∧
    (Table.run { n := 4 } h).get 1 = .ok (padSlot [6]) ∧
    (Table.run { n := 4 } h).get 2 = .ok (padSlot [5, 5]) ∧
    (Table.run { n := 4 } h).get 4 = .ok (padSlot [3]) := by decide +kernel

/-! ### decode ∘ encode -/

/-- C02 for o5m: every file the specification encoder can produce from a file description in
    the domain — whatever the choices — is decoded to exactly that description. -/
theorem o5m_decode_spec (ch : O5mSpec.Choices) (f : O5mSpec.File)
    (hdom : O5mSpec.domainOk f = true) (hsize : O5mSpec.sizeOk ch f = true) :
    decode {} (O5mSpec.encode ch f) = .ok (O5mSpec.expectedHeader f, f.objects) :=
  decode_encode ch f hdom hsize

/-- Corollary: the producer's choices do not matter — two encodings of the same description
    (different reset placement, unknown / sync / jump datasets, inline strings vs table references,
    trailer, …) decode to the same result. -/
theorem o5m_choices_irrelevant (ch₁ ch₂ : O5mSpec.Choices) (f : O5mSpec.File)
    (hdom : O5mSpec.domainOk f = true) (h₁ : O5mSpec.sizeOk ch₁ f = true) (h₂ : O5mSpec.sizeOk ch₂ f = true) :
    decode {} (O5mSpec.encode ch₁ f) = decode {} (O5mSpec.encode ch₂ f) := by
  rw [o5m_decode_spec ch₁ f hdom h₁, o5m_decode_spec ch₂ f hdom h₂]

/-- resets anywhere between datasets are irrelevant -/
theorem o5m_reset_irrelevant (ch : O5mSpec.Choices) (before : List Nat) (f : O5mSpec.File)
    (hdom : O5mSpec.domainOk f = true) (h₁ : O5mSpec.sizeOk ch f = true)
    (h₂ : O5mSpec.sizeOk { ch with before := before } f = true) :
    decode {} (O5mSpec.encode { ch with before := before } f) = decode {} (O5mSpec.encode ch f) :=
  o5m_choices_irrelevant _ _ f hdom h₂ h₁

/-- datasets of unknown type (incl. sync 0xee, jump 0xef, a repeated header 0xe0) are skipped -/
theorem o5m_unknown_dataset_skipped (cfg : Cfg) (a : Acc) (t : UInt8) (p : Bytes)
    (ht : t ≠ 0x10 ∧ t ≠ 0x11 ∧ t ≠ 0x12 ∧ t ≠ 0xdb ∧ t ≠ 0xdc) (hs : ¬ (cfg.readTypes % 8 = 0 ∧ a.headerDone = true)) :
    stepDataset cfg a (.data t p) = .ok a := by
  obtain ⟨h1, h2, h3, h4, h5⟩ := ht
  simp only [stepDataset, beq_iff_eq, h1, h2, h3, h4, h5, ↓reduceIte]
  show (if (cfg.readTypes % 8 == 0 && a.headerDone) = true then _ else _) = _
  have : (cfg.readTypes % 8 == 0 && a.headerDone) = false := by
    cases hh : a.headerDone <;> simp_all
  simp [this]
  rfl

/-! ### non-vacuity -/

/-- node with user (12,"long"); reset; node with the anonymous user written inline (slot 0 :=
    "\0\0" over "\x0c\0long\0"); node with the anonymous user as table reference 1 — the input
    that the code decoded with the stale user name "long" before repair 9d3a6e9 -/
def witnessFile : O5mSpec.File :=
  { objects := [
      .node { id := 1, version := 1, timestamp := 1, changeset := 1, uid := 12, user := [108, 111, 110, 103] } ⟨1, 1⟩,
      .node { id := 2, version := 1, timestamp := 2, changeset := 2 } ⟨2, 2⟩,
      .node { id := 3, version := 1, timestamp := 3, changeset := 3 } ⟨3, 3⟩ ] }

def witnessChoices : O5mSpec.Choices := { useRef := [1], before := [0, 1, 0, 0] }

example : O5mSpec.domainOk witnessFile = true ∧ O5mSpec.sizeOk witnessChoices witnessFile = true := by decide +kernel

example : O5mSpec.encode witnessChoices witnessFile =
    [255, 224, 4, 111, 53, 109, 50, 16, 14, 2, 1, 2, 2, 0, 12, 0, 108, 111, 110, 103, 0, 2, 2, 255, 16, 9, 4, 1, 4, 4, 0, 0,
     0, 4, 4, 16, 7, 2, 1, 2, 2, 1, 2, 2, 254] := by decide +kernel

example : decode {} (O5mSpec.encode witnessChoices witnessFile) = .ok ({}, witnessFile.objects) := by decide +kernel

/-- a way + relation file with tags, members, references and a bbox/timestamp header -/
def sampleFile : O5mSpec.File :=
  { o5c := true, timestamp := 1600000000, boxes := [(⟨-5, -6⟩, ⟨7, 8⟩)],
    objects := [
      .node { id := 5, tags := [⟨[97], [98]⟩] } ⟨10, 20⟩,
      .way { id := 7, version := 2, timestamp := 9, changeset := 4, uid := 3, user := [117], tags := [⟨[97], [98]⟩] }
        [{ ref := 5 }, { ref := -3 }],
      .relation { id := -9, visible := false, version := 1 } [],
      .relation { id := 11 } [⟨1, 5, [114]⟩, ⟨2, 7, []⟩, ⟨1, 5, [114]⟩] ] }

example : O5mSpec.domainOk sampleFile = true ∧
    O5mSpec.sizeOk { useRef := [1, 1, 0, 2], before := [2, 0, 1, 3, 5] } sampleFile = true := by decide +kernel

example : decode {} (O5mSpec.encode { useRef := [1, 1, 0, 2], before := [2, 0, 1, 3, 5] } sampleFile)
    = .ok (O5mSpec.expectedHeader sampleFile, sampleFile.objects) := by decide +kernel

/-- Tie of the o5m reference-table geometry and string limit to the CURRENT source
    (regenerated `Generated/Consts.lean`). -/
theorem consts_tie_o5m :
    maxLength = Osmium.Generated.Consts.o5mMaxLength ∧ entrySize = Osmium.Generated.Consts.o5mEntrySize ∧
    ({} : Table).n = Osmium.Generated.Consts.o5mNumberOfEntries ∧ maxOsmStringLength = Osmium.Generated.Consts.maxOsmStringLength ∧
    Osmium.O5mSpec.tableSize = Osmium.Generated.Consts.o5mNumberOfEntries ∧ Osmium.O5mSpec.maxPair = Osmium.Generated.Consts.o5mMaxLength := by decide

end Osmium.O5m.C02
