/-
C05 — Reader delivers each selected object exactly once and in file order.

Every theorem quantifies over ALL reachable states of the pipeline machine of
Model/Pipeline.lean: every interleaving of the lock-granular steps of the read thread, the
parser thread, any number of pool workers and the consumer; runs of any length; any pool size
(`c.workers`), work-queue bound, queue bounds of both Reader queues (`c.inqC.max`,
`c.outqC.max`, 0 = unbounded), with or without spurious wake-ups; any chunking of the input
(`c.chunkEnd`), any block structure (`c.blobEnd`), pool parsing on/off, buffers_type any/single,
any buffer capacity (internal growth is a free choice before every object / the level split of
a decoded blob is a parameter), any entity mask `c.sel` and metadata projection `c.strip`, any
client (any sequence of header()/read()/close() calls, then the destructor).

Spec: `deliver c = (c.file.filter c.sel).map c.strip` where `c.file` is the result of the
single-threaded decode.  The tie to the C++ code is the trace validation and the monitors of
tools/props/c05.py.
-/
import Osmium.Lemmas.PipelineOrder
import Osmium.Lemmas.PipelineComplete
import Osmium.Lemmas.PipelineDirect4

namespace Osmium.C05

open Osmium.Mon Osmium Osmium.Pipeline

variable {α : Type} [DecidableEq α]

/-- the pipeline machine -/
abbrev P (c : Cfg α) := machine c

/-! ## the validator is sound, the queues are the queues of C19 -/

/-- A trace accepted by the linear validator (lean/Driver/C07.lean; the scheduling validator of
    lean/Driver/C05.lean only ever extends a state by `step?` successes, too) is a run of the
    model: its final state is reachable. -/
theorem validator_sound (c : Cfg α) (s' : State α) (tr : List (Ev α))
    (h : (P c).run? (P c).init tr = .ok s') : (P c).Reachable s' :=
  (P c).run?_reachable (P c).init s' tr 0 .init h

/-- Both Reader queues of ANY pipeline run are runs of the queue machine of C19: FIFO
    conservation, no loss / no duplication, the size bound and no-lost-wake-up hold for them. -/
theorem reader_queues_are_c19_queues (c : Cfg α) (s : State α) (h : (P c).Reachable s) :
    (QueueSM.machine Nat c.inqC).Reachable s.inq ∧ (QueueSM.machine Nat c.outqC).Reachable s.outq :=
  ⟨Q.reachable_inq c s h, Q.reachable_outq c s h⟩

/-! ## the central invariant -/

/-- `queue_of_futures_order`.  While the osmdata queue is in use:
    delivered ++ back buffers (oldest nested first) ++ future held by read() ++ queue (front first;
    a pending future counts with the objects of its block) ++ future being pushed ++ value about
    to be pushed ++ parser buffer (nested oldest first, then current) ++ projected rest of the
    file = deliver file.  (`hb`: see Lemmas/PipelineOrder.lean — a blob whose decoding throws in a
    pool worker takes its objects out of the equation.) -/
theorem queue_of_futures_order (c : Cfg α) (hb : c.blobFault = none) (s : State α) (h : (P c).Reachable s)
    (hu : s.outq.inUse = true) :
    s.delivered ++ inTransit s ++ upstream c s = deliver c :=
  Pipeline.queue_of_futures_order c hb s h hu

/-- Parser side of the invariant, in EVERY reachable state (also after faults, close(),
    shutdown): what the parser thread ever handed to push(), what it is about to push, its buffer
    and the rest of the file are the projected file — nothing is parsed twice or skipped. -/
theorem parser_side (c : Cfg α) (hb : c.blobFault = none) (s : State α) (h : (P c).Reachable s) :
    vals s s.outq.called ++ pend s ++ upstream c s = deliver c :=
  Pipeline.parser_side c hb s h

/-- Consumer side, in EVERY reachable state: what the caller got, the back buffers and the
    future read() holds are exactly what the futures popped from the queue carry. -/
theorem consumer_side (c : Cfg α) (s : State α) (h : (P c).Reachable s) :
    s.delivered ++ s.back.flatten ++ holding s = vals s (s.outq.popped.map (fun p => p.2)) :=
  Pipeline.consumer_side c s h

/-! ## corollaries -/

/-- `exactly_once_in_order`: a complete read (read() returned the end-of-data marker it popped
    from the queue) delivered exactly `deliver c`, in order, and nothing is left over — for every
    well-formed configuration, every interleaving, every pool size / queue bound / buffer
    capacity / chunking.  (Proof: Lemmas/PipelineComplete.lean — the end marker is the last future
    each producer pushes, pushed by the parser only after all chunks were received and the buffer
    was flushed; FIFO of both queues; the equations `parser_side` / `consumer_side`.) -/
theorem exactly_once_in_order (c : Cfg α) (wf : c.WF) (hb : c.blobFault = none) (s : State α)
    (h : (P c).Reachable s) (hd : completed s) : s.delivered = deliver c ∧ s.back = [] :=
  Pipeline.complete_read c wf hb s h hd

/-- any two complete reads of one configuration delivered the same sequence -/
theorem complete_reads_agree (c : Cfg α) (wf : c.WF) (hb : c.blobFault = none) (s₁ s₂ : State α)
    (h₁ : (P c).Reachable s₁) (h₂ : (P c).Reachable s₂) (d₁ : completed s₁) (d₂ : completed s₂) :
    s₁.delivered = s₂.delivered := by
  rw [(exactly_once_in_order c wf hb s₁ h₁ d₁).1, (exactly_once_in_order c wf hb s₂ h₂ d₂).1]

/-- … also across configurations that differ in pool size, pool parsing on/off, queue bounds,
    chunking, block structure, buffers_type, spurious wake-ups (same file, mask, projection) -/
theorem complete_reads_agree_across_configs (c₁ c₂ : Cfg α) (wf₁ : c₁.WF) (wf₂ : c₂.WF)
    (hb₁ : c₁.blobFault = none) (hb₂ : c₂.blobFault = none)
    (hf : c₁.file = c₂.file) (hs : c₁.sel = c₂.sel) (ht : c₁.strip = c₂.strip) (s₁ s₂ : State α)
    (h₁ : (P c₁).Reachable s₁) (h₂ : (P c₂).Reachable s₂) (d₁ : completed s₁) (d₂ : completed s₂) :
    s₁.delivered = s₂.delivered := by
  rw [(exactly_once_in_order c₁ wf₁ hb₁ s₁ h₁ d₁).1, (exactly_once_in_order c₂ wf₂ hb₂ s₂ h₂ d₂).1]
  simp [deliver, proj, hf, hs, ht]

/-- `schedule_independent`: whatever the interleaving, what a run has delivered so far (plus its
    back buffers) is a prefix of ONE sequence that depends on the file, the mask and the metadata
    projection only; hence of any two runs one delivery is a prefix of the other, and two runs
    that delivered equally many objects delivered the same objects. -/
theorem schedule_independent (c : Cfg α) (hb : c.blobFault = none) (s₁ s₂ : State α)
    (h₁ : (P c).Reachable s₁) (h₂ : (P c).Reachable s₂) :
    s₁.delivered <+: deliver c ∧ s₂.delivered <+: deliver c ∧
    (s₁.delivered.length = s₂.delivered.length → s₁.delivered = s₂.delivered) := by
  have p1 : s₁.delivered <+: deliver c := (List.prefix_append _ _).trans (Pipeline.delivered_prefix c hb s₁ h₁)
  have p2 : s₂.delivered <+: deliver c := (List.prefix_append _ _).trans (Pipeline.delivered_prefix c hb s₂ h₂)
  refine ⟨p1, p2, fun hl => ?_⟩
  rw [List.prefix_iff_eq_take] at p1 p2
  rw [p1, p2, hl]

/-- `pool_size_irrelevant`: two configurations that agree on the file, the mask and the metadata
    projection — but may differ in pool size, pool parsing on/off, work-queue and queue bounds,
    chunking, block structure, buffers_type, spurious wake-ups, faults other than a pool-side
    decode fault — deliver prefixes of the same sequence; equally long deliveries are equal. -/
theorem pool_size_irrelevant (c₁ c₂ : Cfg α) (hb₁ : c₁.blobFault = none) (hb₂ : c₂.blobFault = none)
    (hf : c₁.file = c₂.file) (hs : c₁.sel = c₂.sel) (ht : c₁.strip = c₂.strip)
    (s₁ s₂ : State α) (h₁ : (P c₁).Reachable s₁) (h₂ : (P c₂).Reachable s₂) :
    deliver c₁ = deliver c₂ ∧
    (s₁.delivered.length = s₂.delivered.length → s₁.delivered = s₂.delivered) := by
  have hd : deliver c₁ = deliver c₂ := by simp [deliver, proj, hf, hs, ht]
  have p1 : s₁.delivered <+: deliver c₁ := (List.prefix_append _ _).trans (Pipeline.delivered_prefix c₁ hb₁ s₁ h₁)
  have p2 : s₂.delivered <+: deliver c₂ := (List.prefix_append _ _).trans (Pipeline.delivered_prefix c₂ hb₂ s₂ h₂)
  refine ⟨hd, fun hl => ?_⟩
  rw [List.prefix_iff_eq_take] at p1 p2
  rw [p1, p2, hl, hd]

/-- In EVERY reachable state — also after close(), after an error, when the consumer stopped
    early — what was delivered plus the back buffers is a PREFIX of the specification: nothing
    is duplicated, reordered or invented. -/
theorem delivered_is_prefix (c : Cfg α) (hb : c.blobFault = none) (s : State α) (h : (P c).Reachable s) :
    (s.delivered ++ s.back.flatten) <+: deliver c :=
  Pipeline.delivered_prefix c hb s h

/-- `nested_unwinding_order`: a popped buffer with nested buffers is unwound oldest first
    (`get_last_nested` returns the most deeply nested = oldest buffer): the oldest level is
    returned now, the others become the back buffers in their order, and delivered ++ back
    buffers grows by exactly the levels in order. -/
theorem nested_unwinding_order (s : State α) (levels : List (List α)) (hb : s.back = [])
    (hw : wfLevels levels = true) :
    (afterPop s levels).delivered ++ (afterPop s levels).back.flatten = s.delivered ++ levels.flatten ∧
    (∀ l rest, levels = l :: rest → rest ≠ [] →
        (afterPop s levels).cpc = .ret (.data l) ∧ (afterPop s levels).back = rest) := by
  match levels, hw with
  | [top], _ =>
    refine ⟨?_, fun l rest h hr => ?_⟩
    · by_cases ht : top = [] <;> simp [afterPop, ht, hb]
    · simp at h; exact absurd h.2 hr
  | l :: l2 :: rest, hw =>
    simp only [wfLevels, Bool.and_eq_true, Bool.not_eq_true', List.isEmpty_eq_false_iff] at hw
    have hl : l.isEmpty = false := by simpa using hw.1
    refine ⟨?_, fun l' rest' h hr => ?_⟩
    · simp [afterPop, hl, hb]
    · simp only [List.cons.injEq] at h
      obtain ⟨rfl, rfl⟩ := h
      simp [afterPop, hl]

/-- … and read() with back buffers hands out the OLDEST one. -/
theorem back_buffers_oldest_first (c : Cfg α) (s s' : State α) (b : List α) (rest : List (List α))
    (hb : s.back = b :: rest) (hst : (P c).Step s .cRead s') :
    s'.cpc = .ret (.data b) ∧ s'.back = rest ∧ s'.delivered = s.delivered ++ b := by
  simp only [Machine.Step, machine, step?] at hst
  split at hst
  · simp only [hb] at hst
    simp only [Option.some.injEq] at hst
    subst hst
    simp
  · simp at hst

omit [DecidableEq α] in
/-- `mask_is_subsequence`: the specification for a mask is the masked subsequence of the file
    (metadata-projected), and restricting the mask further yields exactly the corresponding
    subsequence of what the wider mask delivers. -/
theorem mask_is_subsequence (c : Cfg α) :
    deliver c = (c.file.filter c.sel).map c.strip ∧ (c.file.filter c.sel).Sublist c.file ∧
    ∀ sel' : α → Bool, (∀ o, sel' o = true → c.sel o = true) →
      deliver { c with sel := sel' } = ((c.file.filter c.sel).filter sel').map c.strip ∧
      (deliver { c with sel := sel' }).Sublist (deliver c) := by
  refine ⟨rfl, List.filter_sublist, fun sel' h => ?_⟩
  have : c.file.filter sel' = (c.file.filter c.sel).filter sel' := by
    rw [List.filter_filter]
    apply List.filter_congr
    intro o _
    cases h1 : sel' o <;> simp
    exact h o h1
  refine ⟨by simp [deliver, proj, this], ?_⟩
  simp only [deliver, proj]
  apply List.Sublist.map
  rw [this]
  exact List.filter_sublist

omit [DecidableEq α] in
/-- `meta_only_changes_meta`: skipping metadata changes nothing but the metadata: the delivery
    with `strip` is the delivery without it, mapped object by object. -/
theorem meta_only_changes_meta (c : Cfg α) :
    deliver c = (deliver { c with strip := id }).map c.strip ∧
    (deliver c).length = (deliver { c with strip := id }).length := by
  simp [deliver, proj]

/-- `read_after_eof_fails`: after the end-of-data marker the status is not okay and no back
    buffers are left, in every later state; then read() fails with io_error and delivers
    nothing. -/
theorem read_after_eof_fails (c : Cfg α) (wf : c.WF) (s : State α) (h : (P c).Reachable s)
    (hd : completed s) :
    s.status ≠ .okay ∧ s.back = [] ∧
    ∀ s', (P c).Step s .cRead s' → s'.cpc = .ret .ioError ∧ s'.delivered = s.delivered := by
  obtain ⟨h1, h2⟩ := Pipeline.after_eod c wf s h hd
  exact ⟨h1, h2, fun s' hst => Pipeline.read_fails_when_not_okay c s s' hst h1 h2⟩

/-! ## non-vacuity: a complete read, evaluated by the kernel -/

/-- one-object file, one chunk, unbounded queues, no spurious wake-ups -/
def tiny : Cfg Nat :=
  { file := [7], sel := fun _ => true, strip := id, chunkEnd := [1], pbf := false, blobEnd := [],
    usePool := false, workers := [], wqMax := 0, inqC := ⟨0, false⟩, outqC := ⟨0, false⟩, single := false,
    nothing := false, readFault := none, closeFault := false, parseFault := none, blobFault := none }

/-- the sequential schedule: read thread, then parser thread, then the consumer reads to the end
    and destroys the Reader -/
def tinyRun : List (Ev Nat) :=
  [.rTestDone false, .rRead (.chunk 0), .qi (.pushEnter 1 0), .qi (.pushTest 1 true), .qi (.pushLocked 1 1 none), .rSet,
   .rTestDone false, .rRead .eod, .rCloseDec true, .qi (.pushEnter 1 2), .qi (.pushTest 1 true), .qi (.pushLocked 1 2 none), .rSet,
   .pInUse true, .qi (.popNow 2 2 (some (1, 0))), .pGet (.chunk 0), .pHeader, .pObj false,
   .pInUse true, .qi (.popNow 2 1 (some (1, 2))), .pGet .eod, .qi (.sdEnter 2), .qi (.sdFlag 2), .qi (.sdLocked 2),
   .pFlushFinal, .qo (.pushEnter 2 1), .qo (.pushTest 2 true), .qo (.pushLocked 2 1 none), .pSet,
   .pRunEnd, .qo (.pushEnter 2 3), .qo (.pushTest 2 true), .qo (.pushLocked 2 2 none), .pSet,
   .qi (.sdEnter 2), .qi (.sdFlag 2), .qi (.sdLocked 2),
   .cHeader, .cHeaderGet, .cRet .ok,
   .cRead, .cInUse true, .qo (.popNow 0 2 (some (2, 1))), .cGet (.buf [[7]]), .cRet (.data [7]),
   .cRead, .cInUse true, .qo (.popNow 0 1 (some (2, 3))), .cGet .eod, .qo (.sdEnter 0), .qo (.sdFlag 0), .qo (.sdLocked 0),
   .cJoinR, .cRet .eof, .cRead, .cRet .ioError,
   .cDtor, .qo (.sdEnter 0), .qo (.sdFlag 0), .qo (.sdLocked 0), .cJoinR, .cJoinP,
   .qo (.sdEnter 0), .qo (.sdFlag 0), .qo (.sdLocked 0)]

theorem foldlM_reachable (c : Cfg Nat) (tr : List (Ev Nat)) (s0 s : State Nat) (h0 : (P c).Reachable s0)
    (h : tr.foldlM (step? c) s0 = some s) : (P c).Reachable s := by
  induction tr generalizing s0 with
  | nil => simp at h; exact h ▸ h0
  | cons e rest ih =>
    simp only [List.foldlM_cons, Option.bind_eq_bind, Option.bind_eq_some_iff] at h
    obtain ⟨s1, h1, h2⟩ := h
    exact ih s1 (.step h0 h1) h2

theorem trace_witness (c : Cfg Nat) (tr : List (Ev Nat)) (Pr : State Nat → Bool)
    (h : (tr.foldlM (step? c) (init Nat)).map Pr = some true) : ∃ s, (P c).Reachable s ∧ Pr s = true := by
  simp only [Option.map_eq_some_iff] at h
  obtain ⟨s, hs, hp⟩ := h
  exact ⟨s, foldlM_reachable c tr _ s .init hs, hp⟩

/-- the hypotheses of `exactly_once_in_order` / `read_after_eof_fails` are satisfiable: a complete
    read of `tiny` is reachable, it delivered [7] = deliver tiny, the Reader is destructed -/
example : ∃ s, (P tiny).Reachable s ∧
    (s.sawEod && s.destroyed && decide (s.delivered = [7]) && decide (s.results = [.ok, .data [7], .eof, .ioError])
      && decide (s.outq.called = s.outq.popped.map (fun p => p.2)) && decide (s.nested = []) && decide (s.cur = [])
      && decide (s.next = 1)) = true :=
  trace_witness tiny tinyRun _ (by decide)

example : tiny.blobFault = none := rfl

example : tiny.WF :=
  { nothing_sel := by simp [tiny], chunk_mono := by simp [tiny], chunk_le := by simp [tiny], chunk_last := by simp [tiny],
    blob_mono := by simp [tiny], blob_le := by simp [tiny], blob_last := by simp [tiny], chunk_blob := by simp [tiny],
    workers_ne := by simp [tiny], workers_fresh := by simp [tiny] }

/-! ## the direct-fd configuration (a PBF FILE read by the parser thread through the file descriptor)

`Direct.machineD c` (Lemmas/PipelineDirect.lean; see Props/C07.lean): the same step function, started
with the whole file available to the parser; by the simulation `Direct.sim` its reachable states agree
with reachable states of the queue-fed machine `P (Direct.fed c)` on everything the theorems above talk
about. -/

/-- `delivered_is_prefix` for the direct-fd configuration -/
theorem direct_delivered_is_prefix (c : Cfg α) (hd : Direct.IsDirect c) (hb : c.blobFault = none)
    (sd : State α) (h : (Direct.machineD c).Reachable sd) :
    (sd.delivered ++ sd.back.flatten) <+: deliver c := by
  obtain ⟨_, s, hr, hs⟩ := Direct.sim c hd sd h
  have := delivered_is_prefix (Direct.fed c) hb s hr
  rw [hs.delivered, hs.back, Direct.deliver_fed] at this
  exact this

/-- `exactly_once_in_order` for the direct-fd configuration: a complete read of a PBF file that the
    parser thread reads through the fd delivered exactly `deliver c`, in order, nothing left over -/
theorem direct_exactly_once_in_order (c : Cfg α) (hd : Direct.IsDirect c) (wf : (Direct.fed c).WF)
    (hb : c.blobFault = none) (sd : State α) (h : (Direct.machineD c).Reachable sd) (hc : completed sd) :
    sd.delivered = deliver c ∧ sd.back = [] := by
  obtain ⟨_, s, hr, hs⟩ := Direct.sim c hd sd h
  have := exactly_once_in_order (Direct.fed c) wf hb s hr (by unfold completed; rw [hs.sawEod]; exact hc)
  rw [hs.delivered, hs.back, Direct.deliver_fed] at this
  exact this

end Osmium.C05
