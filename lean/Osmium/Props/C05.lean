/-
C05 — Reader delivers each selected object exactly once and in file order.

Every theorem quantifies over ALL reachable states of the pipeline machine of
Model/Pipeline.lean: every interleaving of the lock-granular steps of the read thread, the
parser thread, any number of pool workers and the consumer; runs of any length; any pool size
(`c.workers`), work-queue bound, queue bounds of both Reader queues (`c.inqC.max`,
`c.outqC.max`, 0 = unbounded), with or without spurious wake-ups; any chunking of the input
(`c.chunkEnd`), any block structure (`c.blobEnd`), pool parsing on/off, buffers_type any/single,
any buffer capacity (internal growth is a free choice before every object / the level split of
a decoded blob is a parameter), any entity mask `c.sel` and metadata projection `c.strip`, any
client (any sequence of header()/read()/close() calls, then the destructor), and ANY FAULT:
decompressor read/close, parser exception, and a PBF blob whose decoding throws — in a pool
worker or inline (`c.blobFault`; no theorem of this file assumes `blobFault = none` any more).

Spec: `deliver c = (c.file.filter c.sel).map c.strip` where `c.file` is the result of the
single-threaded decode.  With a faulty blob `b` (Lemmas/PipelineFaultDefs.lean):
`deliverBefore c` = `deliver c` truncated where blob `b` starts; `deliverSkipping c` = `deliver c`
minus the objects of blob `b` if that blob is decoded in a pool worker (`lostBlob c = some b`: the
worker's future gets the exception, the parser thread goes on with the following blobs, so the
objects of blob `b` are in nobody's hands any more; decoded inline the parser thread itself stops
at the blob and nothing drops out, `lostBlob c = none`).

What is proved:
  * `queue_of_futures_order` (osmdata queue in use) and `order_in_every_state` (also after
    shutdown(): "in transit" is replaced by `unpopped` = handed to push() and not popped: queued, in
    flight or discarded) — delivered ++ in transit ++ parser buffer ++ projected rest of the file =
    `specAt c s.blob` = `deliver c` until the lost blob has been submitted, `deliverSkipping c`
    afterwards; `queue_of_futures_order_intact` is the special case `lostBlob c = none` (no blob
    fault, or inline decoding, or not PBF) with right-hand side `deliver c`;
    `queue_of_futures_order_skipping`: the same conservation law with ONE state-independent
    right-hand side `deliverSkipping c` (the lost blob is removed from "rest of the file" while it is
    still ahead);
  * `delivered_is_prefix_any_fault`: in every reachable state delivered ++ back buffers is a prefix
    of `deliver c`; `delivered_before_fault`: … of `deliverBefore c`; `nothing_popped_after_exception`;
    `faulty_blob_delivers_prefix_then_error`: with a faulty blob the caller gets a prefix of the
    objects before that blob, never a clean end of data, and after the exception was rethrown every
    read() fails;
  * `exactly_once_in_order`, `complete_reads_agree…`, `schedule_independent`, `pool_size_irrelevant`
    for every configuration.
Hypotheses that remain: `c.WF` (the chunk/blob boundaries are those of the file; a configuration
that uses the pool has a worker) on the complete-read theorems; `c.blobEnd.Pairwise (· ≤ ·)` (blob
boundaries ascend — part of `c.WF`) where a statement mentions the START of the faulty blob;
`s.outq.inUse = true` on `queue_of_futures_order` only (after shutdown() the drained futures are in
nobody's hands: the equation with `inTransit` is false there, `order_in_every_state` says what
holds instead).  The tie to the C++ code is the trace validation and the monitors of
tools/props/c05.py.

Section "the entity mask inside the PBF block decoder" (Lemmas/PbfMask.lean, model Pbf.decodeBlock =
`PBFPrimitiveBlockDecoder::decode_primitive_block_data` with `m_read_types` / `m_read_metadata` as
parameters): the pipeline theorems above take the decoder's projection as `c.file.filter c.sel`; the
theorems of that section prove that the PBF decoder model IS that filter, for ALL byte strings — any
number of PrimitiveGroups per PrimitiveBlock, any order of group types, dense and plain node groups
mixed (`pbf_block_mask_is_filter`, `pbf_file_mask_is_filter`, `pbf_reader_spec_is_masked_decode`), and
say precisely what the code does with a group it skips (`pbf_skipped_group_not_validated`).

Section "any number of buffers without data inside one read() call" (Lemmas/PipelineSkip.lean; seed
C05-6): read() skips valid buffers without data — one per PBF block without selected objects — in a
loop.  `read_skips_empty_buffer`, `read_skips_any_number_of_empty_buffers`,
`read_returns_first_buffer_with_data`, `read_after_empty_buffers_sees_end_of_data`: for EVERY number
k of such buffers and every interleaving, the call is still the same single call at a control point
of `pop()`, the consumer's part of the state is exactly what it was, and the call returns the first
buffer with data (or the end marker).  The model's consumer is a flat record with a program counter:
there is NO machine stack in it, so "the stack of the reading thread does not grow with k" is not a
statement of the model — it is checked on the real code by the small-stack monitor of
tools/props/c05.py (`scale_pass`: 64-256 KiB painted stacks, runs of 2 000 - 200 000 empty buffers).
-/
import Osmium.Lemmas.PipelineOrder
import Osmium.Lemmas.PipelineComplete
import Osmium.Lemmas.PipelineDirect4
import Osmium.Lemmas.PipelineFaultE
import Osmium.Lemmas.PipelineSkip
import Osmium.Lemmas.PbfMask
import Osmium.Model.PbfMixed

namespace Osmium.C05

open Osmium.Mon Osmium Osmium.Pipeline

variable {α : Type} [DecidableEq α]

/-- the pipeline machine -/
abbrev P (c : Cfg α) := machine c

/-! ## the validator is sound, the queues are the queues of C19 -/

/-- A trace accepted by the linear validator (lean/Driver/C07.lean; the scheduling validator of
    lean/Driver/C05.lean only ever extends a state by `step?` successes, too) is a run of the
    model: its final state is reachable. -/
theorem validator_sound (c : Cfg α) (s' : State α) (tr : List (Ev α))
    (h : (P c).run? (P c).init tr = .ok s') : (P c).Reachable s' :=
  (P c).run?_reachable (P c).init s' tr 0 .init h

/-- Both Reader queues of ANY pipeline run are runs of the queue machine of C19: FIFO
    conservation, no loss / no duplication, the size bound and no-lost-wake-up hold for them. -/
theorem reader_queues_are_c19_queues (c : Cfg α) (s : State α) (h : (P c).Reachable s) :
    (QueueSM.machine Nat c.inqC).Reachable s.inq ∧ (QueueSM.machine Nat c.outqC).Reachable s.outq :=
  ⟨Q.reachable_inq c s h, Q.reachable_outq c s h⟩

/-! ## the central invariant -/

/-- `queue_of_futures_order`, for EVERY configuration.  While the osmdata queue is in use:
    delivered ++ back buffers (oldest nested first) ++ future held by read() ++ queue (front first;
    a pending future counts with what it is going to hold) ++ future being pushed ++ value about
    to be pushed ++ parser buffer (nested oldest first, then current) ++ projected rest of the
    file = `specAt c s.blob`: the projected file `deliver c`, and from the moment the parser thread
    has submitted a blob whose decoding throws in a pool worker the projected file minus the objects
    of that blob (`deliverSkipping c`). -/
theorem queue_of_futures_order (c : Cfg α) (s : State α) (h : (P c).Reachable s) (hu : s.outq.inUse = true) :
    s.delivered ++ inTransit s ++ upstream c s = specAt c s.blob :=
  Fault.order_any c s h hu

/-- … the special case that no blob is lost in a pool worker (no blob fault configured, or blobs
    decoded inline, or not a PBF file): the right-hand side is `deliver c` in every state. -/
theorem queue_of_futures_order_intact (c : Cfg α) (hl : lostBlob c = none) (s : State α) (h : (P c).Reachable s)
    (hu : s.outq.inUse = true) :
    s.delivered ++ inTransit s ++ upstream c s = deliver c := by
  rw [← Fault.specAt_of_none hl s.blob]; exact Fault.order_any c s h hu

omit [DecidableEq α] in
/-- the special case covers: no blob fault configured; inline decoding; a non-PBF input -/
example (c : Cfg α) (h : c.blobFault = none ∨ c.usePool = false ∨ c.pbf = false) : lostBlob c = none :=
  Fault.lostBlob_none_of c h

/-- `queue_of_futures_order` against ONE state-independent right-hand side: with the objects of the
    lost blob taken out of "rest of the file" while that blob is still ahead (`upstreamSkipping`),
    delivered ++ in transit ++ parser buffer ++ rest = `deliverSkipping c` in EVERY reachable state
    (first clause: with `unpopped`, also after shutdown(); second clause: queue in use). -/
theorem queue_of_futures_order_skipping (c : Cfg α) (hm : c.blobEnd.Pairwise (· ≤ ·)) (s : State α)
    (h : (P c).Reachable s) :
    s.delivered ++ (s.back.flatten ++ holding s ++ vals s (unpopped s) ++ pend s) ++ upstreamSkipping c s
      = deliverSkipping c ∧
    (s.outq.inUse = true → s.delivered ++ inTransit s ++ upstreamSkipping c s = deliverSkipping c) :=
  Fault.order_skipping c hm s h

/-- The order equation in EVERY reachable state, also after shutdown() of the osmdata queue (close(),
    destructor, error, end of data): with `unpopped s` = the futures the parser thread handed to
    push() that the consumer has not popped — still queued, in flight inside push(), or DISCARDED
    (drained by shutdown() / refused by a push() that found the queue shut down) — in place of
    "queue ++ in flight".  While the queue is in use `unpopped` IS queue ++ in flight; after
    shutdown() the equation with `inTransit` fails (drained futures are in nobody's hands), and this
    is what holds instead: everything that was dropped sits between what was delivered and what
    is upstream, so it was never delivered and nothing after it was. -/
theorem order_in_every_state (c : Cfg α) (s : State α) (h : (P c).Reachable s) :
    s.delivered ++ (s.back.flatten ++ holding s ++ vals s (unpopped s) ++ pend s) ++ upstream c s = specAt c s.blob ∧
    (s.outq.inUse = true → unpopped s = s.outq.items ++ QueueSM.inflight s.outq tP) :=
  Fault.order_all_states c s h

/-- Parser side of the invariant, in EVERY reachable state (also after faults, close(),
    shutdown) and for every configuration: what the parser thread ever handed to push(), what it is
    about to push, its buffer and the rest of the file are the projected file (minus the lost blob
    once it has been submitted) — nothing is parsed twice or skipped. -/
theorem parser_side (c : Cfg α) (s : State α) (h : (P c).Reachable s) :
    vals s s.outq.called ++ pend s ++ upstream c s = specAt c s.blob :=
  Fault.parser_side_any c s h

/-- Consumer side, in EVERY reachable state: what the caller got, the back buffers and the
    future read() holds are exactly what the futures popped from the queue carry. -/
theorem consumer_side (c : Cfg α) (s : State α) (h : (P c).Reachable s) :
    s.delivered ++ s.back.flatten ++ holding s = vals s (s.outq.popped.map (fun p => p.2)) :=
  Pipeline.consumer_side c s h

/-- read() never pops another future after one that holds an exception (it closes the Reader and
    rethrows): in the list of popped futures an exception future is the last one. -/
theorem nothing_popped_after_exception (c : Cfg α) (s : State α) (h : (P c).Reachable s)
    (l r : List (QueueSM.Item Nat)) (x : QueueSM.Item Nat)
    (hp : s.outq.popped.map (fun p => p.2) = l ++ x :: r) (hx : isExc (s.want x.2)) : r = [] :=
  Fault.exc_last c s h l x r hp hx

/-! ## corollaries -/

/-- `exactly_once_in_order`: a complete read (read() returned the end-of-data marker it popped
    from the queue) delivered exactly `deliver c`, in order, and nothing is left over — for every
    well-formed configuration (any fault configured: a complete read means none has happened), every
    interleaving, every pool size / queue bound / buffer capacity / chunking.  (Proof:
    Lemmas/PipelineComplete.lean, PipelineFaultE.lean — the end marker is the last future each
    producer pushes, pushed by the parser only after all chunks were received and the buffer was
    flushed; no exception future precedes it, so no blob was lost; FIFO of both queues; the
    equations `parser_side` / `consumer_side`.) -/
theorem exactly_once_in_order (c : Cfg α) (wf : c.WF) (s : State α)
    (h : (P c).Reachable s) (hd : completed s) : s.delivered = deliver c ∧ s.back = [] :=
  Fault.complete_read_any c wf s h hd

/-- any two complete reads of one configuration delivered the same sequence -/
theorem complete_reads_agree (c : Cfg α) (wf : c.WF) (s₁ s₂ : State α)
    (h₁ : (P c).Reachable s₁) (h₂ : (P c).Reachable s₂) (d₁ : completed s₁) (d₂ : completed s₂) :
    s₁.delivered = s₂.delivered := by
  rw [(exactly_once_in_order c wf s₁ h₁ d₁).1, (exactly_once_in_order c wf s₂ h₂ d₂).1]

/-- … also across configurations that differ in pool size, pool parsing on/off, queue bounds,
    chunking, block structure, buffers_type, spurious wake-ups, configured faults (same file, mask,
    projection) -/
theorem complete_reads_agree_across_configs (c₁ c₂ : Cfg α) (wf₁ : c₁.WF) (wf₂ : c₂.WF)
    (hf : c₁.file = c₂.file) (hs : c₁.sel = c₂.sel) (ht : c₁.strip = c₂.strip) (s₁ s₂ : State α)
    (h₁ : (P c₁).Reachable s₁) (h₂ : (P c₂).Reachable s₂) (d₁ : completed s₁) (d₂ : completed s₂) :
    s₁.delivered = s₂.delivered := by
  rw [(exactly_once_in_order c₁ wf₁ s₁ h₁ d₁).1, (exactly_once_in_order c₂ wf₂ s₂ h₂ d₂).1]
  simp [deliver, proj, hf, hs, ht]

/-- `delivered_is_prefix_any_fault`.  In EVERY reachable state of EVERY configuration — also after
    close(), after an error, when the consumer stopped early, when a blob decode threw in a pool
    worker or inline — what was delivered plus the back buffers is a PREFIX of the specification:
    nothing is duplicated, reordered or invented. -/
theorem delivered_is_prefix_any_fault (c : Cfg α) (s : State α) (h : (P c).Reachable s) :
    (s.delivered ++ s.back.flatten) <+: deliver c :=
  Fault.delivered_prefix_any c s h

/-- `delivered_before_fault` (sharper).  With a blob whose decoding throws (`faultyBlob c = some b`:
    in a pool worker or inline) what was delivered plus the back buffers is a prefix of
    `deliverBefore c` — the projected objects of the blobs BEFORE the faulty one, i.e. `deliver c`
    truncated where that blob starts: although the parser thread has queued the objects of the LATER
    blobs behind the exception, none of them reaches the caller.  (Without a faulty blob
    `deliverBefore c = deliver c`.)  `hm`: the blob boundaries ascend. -/
theorem delivered_before_fault (c : Cfg α) (hm : c.blobEnd.Pairwise (· ≤ ·)) (s : State α) (h : (P c).Reachable s) :
    (s.delivered ++ s.back.flatten) <+: deliverBefore c ∧ deliverBefore c <+: deliver c :=
  ⟨Fault.delivered_before c hm s h, Fault.deliverBefore_prefix c⟩

/-- `schedule_independent`, for every configuration: whatever the interleaving, what a run has
    delivered so far is a prefix of ONE sequence that depends on the file, the mask and the metadata
    projection only (by `delivered_before_fault`: and on the position of the faulty blob); hence of
    any two runs one delivery is a prefix of the other, and two runs that delivered equally many
    objects delivered the same objects. -/
theorem schedule_independent (c : Cfg α) (s₁ s₂ : State α)
    (h₁ : (P c).Reachable s₁) (h₂ : (P c).Reachable s₂) :
    s₁.delivered <+: deliver c ∧ s₂.delivered <+: deliver c ∧
    (s₁.delivered.length = s₂.delivered.length → s₁.delivered = s₂.delivered) := by
  have p1 : s₁.delivered <+: deliver c := (List.prefix_append _ _).trans (delivered_is_prefix_any_fault c s₁ h₁)
  have p2 : s₂.delivered <+: deliver c := (List.prefix_append _ _).trans (delivered_is_prefix_any_fault c s₂ h₂)
  refine ⟨p1, p2, fun hl => ?_⟩
  rw [List.prefix_iff_eq_take] at p1 p2
  rw [p1, p2, hl]

/-- `pool_size_irrelevant`: two configurations that agree on the file, the mask and the metadata
    projection — but may differ in pool size, pool parsing on/off, work-queue and queue bounds,
    chunking, block structure, buffers_type, spurious wake-ups, ANY configured fault — deliver
    prefixes of the same sequence; equally long deliveries are equal. -/
theorem pool_size_irrelevant (c₁ c₂ : Cfg α)
    (hf : c₁.file = c₂.file) (hs : c₁.sel = c₂.sel) (ht : c₁.strip = c₂.strip)
    (s₁ s₂ : State α) (h₁ : (P c₁).Reachable s₁) (h₂ : (P c₂).Reachable s₂) :
    deliver c₁ = deliver c₂ ∧
    (s₁.delivered.length = s₂.delivered.length → s₁.delivered = s₂.delivered) := by
  have hd : deliver c₁ = deliver c₂ := by simp [deliver, proj, hf, hs, ht]
  have p1 : s₁.delivered <+: deliver c₁ := (List.prefix_append _ _).trans (delivered_is_prefix_any_fault c₁ s₁ h₁)
  have p2 : s₂.delivered <+: deliver c₂ := (List.prefix_append _ _).trans (delivered_is_prefix_any_fault c₂ s₂ h₂)
  refine ⟨hd, fun hl => ?_⟩
  rw [List.prefix_iff_eq_take] at p1 p2
  rw [p1, p2, hl, hd]

/-- `faulty_blob_delivers_prefix_then_error`.  A PBF file whose blob `b` cannot be decoded (in a
    pool worker or inline), any schedule, any client: (1) everything the caller ever gets is a
    prefix of the projected objects BEFORE blob `b` — in order, each once, nothing of blob `b` or of
    a later blob; (2) once the decode has thrown, read() never reports a clean end of data (C07
    `first_error_reported`: the exception future precedes the end marker, read() stops at it, closes
    the Reader and rethrows); (3) after the exception was rethrown (status error) no back buffers
    are left and every further read() fails with io_error and delivers nothing.  (That the call
    which meets the exception RETURNS is C07 `api_call_returns_thread_fair`.) -/
theorem faulty_blob_delivers_prefix_then_error (c : Cfg α) (wf : c.WF) (b : Nat) (hf : faultyBlob c = some b)
    (s : State α) (h : (P c).Reachable s) :
    (s.delivered ++ s.back.flatten) <+: proj c (c.file.take (blobStart c b)) ∧
    (s.faulted = true → s.sawEod = false) ∧
    (s.status = .error → s.back = [] ∧
      ∀ s', (P c).Step s .cRead s' → s'.cpc = .ret .ioError ∧ s'.delivered = s.delivered) := by
  refine ⟨?_, fun hfl => ?_, fun he => ?_⟩
  · have := Fault.delivered_before c wf.blob_mono s h
    simpa only [deliverBefore, hf] using this
  · cases hd : s.sawEod with
    | false => rfl
    | true => rw [Pipeline.eod_means_no_fault c wf s h hd] at hfl; cases hfl
  · have hb := error_back_nil c s h he
    exact ⟨hb, fun s' hst => Pipeline.read_fails_when_not_okay c s s' hst (by rw [he]; decide) hb⟩

omit [DecidableEq α] in
/-- `nested_unwinding_order`: a popped buffer with nested buffers is unwound oldest first
    (`get_last_nested` returns the most deeply nested = oldest buffer): the oldest level is
    returned now, the others become the back buffers in their order, and delivered ++ back
    buffers grows by exactly the levels in order. -/
theorem nested_unwinding_order (s : State α) (levels : List (List α)) (hb : s.back = [])
    (hw : wfLevels levels = true) :
    (afterPop s levels).delivered ++ (afterPop s levels).back.flatten = s.delivered ++ levels.flatten ∧
    (∀ l rest, levels = l :: rest → rest ≠ [] →
        (afterPop s levels).cpc = .ret (.data l) ∧ (afterPop s levels).back = rest) := by
  match levels, hw with
  | [top], _ =>
    refine ⟨?_, fun l rest h hr => ?_⟩
    · by_cases ht : top = [] <;> simp [afterPop, ht, hb]
    · simp at h; exact absurd h.2 hr
  | l :: l2 :: rest, hw =>
    simp only [wfLevels, Bool.and_eq_true, Bool.not_eq_true', List.isEmpty_eq_false_iff] at hw
    have hl : l.isEmpty = false := by simpa using hw.1
    refine ⟨?_, fun l' rest' h hr => ?_⟩
    · simp [afterPop, hl]
    · simp only [List.cons.injEq] at h
      obtain ⟨rfl, rfl⟩ := h
      simp [afterPop, hl]

/-- … and read() with back buffers hands out the OLDEST one. -/
theorem back_buffers_oldest_first (c : Cfg α) (s s' : State α) (b : List α) (rest : List (List α))
    (hb : s.back = b :: rest) (hst : (P c).Step s .cRead s') :
    s'.cpc = .ret (.data b) ∧ s'.back = rest ∧ s'.delivered = s.delivered ++ b := by
  simp only [Machine.Step, machine, step?] at hst
  split at hst
  · simp only [hb] at hst
    simp only [Option.some.injEq] at hst
    subst hst
    simp
  · simp at hst

/-- `nested_unwinding_order` in a reachable state, WITHOUT hypotheses about the buffer: whenever read()
    unpacks a ready future holding a buffer (any reachable state, any schedule) there are no back
    buffers and every nested level holds data, so delivered ++ back buffers grows by exactly the
    levels of the buffer, oldest first. -/
theorem nested_unwinding_order_reachable (c : Cfg α) (s s' : State α) (levels : List (List α))
    (h : (P c).Reachable s) (hst : (P c).Step s (.cGet (.buf levels)) s') :
    s'.delivered ++ s'.back.flatten = s.delivered ++ levels.flatten ∧
    (∀ l rest, levels = l :: rest → rest ≠ [] → s'.cpc = .ret (.data l) ∧ s'.back = rest) := by
  obtain ⟨rfl, hb, hw⟩ := Fault.cGet_buf_step c s s' levels h hst
  exact nested_unwinding_order s levels hb hw

omit [DecidableEq α] in
/-- `mask_is_subsequence`: the specification for a mask is the masked subsequence of the file
    (metadata-projected), and restricting the mask further yields exactly the corresponding
    subsequence of what the wider mask delivers. -/
theorem mask_is_subsequence (c : Cfg α) :
    deliver c = (c.file.filter c.sel).map c.strip ∧ (c.file.filter c.sel).Sublist c.file ∧
    ∀ sel' : α → Bool, (∀ o, sel' o = true → c.sel o = true) →
      deliver { c with sel := sel' } = ((c.file.filter c.sel).filter sel').map c.strip ∧
      (deliver { c with sel := sel' }).Sublist (deliver c) := by
  refine ⟨rfl, List.filter_sublist, fun sel' h => ?_⟩
  have : c.file.filter sel' = (c.file.filter c.sel).filter sel' := by
    rw [List.filter_filter]
    apply List.filter_congr
    intro o _
    cases h1 : sel' o <;> simp
    exact h o h1
  refine ⟨by simp [deliver, proj, this], ?_⟩
  simp only [deliver, proj]
  apply List.Sublist.map
  rw [this]
  exact List.filter_sublist

omit [DecidableEq α] in
/-- `meta_only_changes_meta`: skipping metadata changes nothing but the metadata: the delivery
    with `strip` is the delivery without it, mapped object by object. -/
theorem meta_only_changes_meta (c : Cfg α) :
    deliver c = (deliver { c with strip := id }).map c.strip ∧
    (deliver c).length = (deliver { c with strip := id }).length := by
  simp [deliver, proj]

/-- `read_after_eof_fails`: after the end-of-data marker the status is not okay and no back
    buffers are left, in every later state; then read() fails with io_error and delivers
    nothing. -/
theorem read_after_eof_fails (c : Cfg α) (wf : c.WF) (s : State α) (h : (P c).Reachable s)
    (hd : completed s) :
    s.status ≠ .okay ∧ s.back = [] ∧
    ∀ s', (P c).Step s .cRead s' → s'.cpc = .ret .ioError ∧ s'.delivered = s.delivered := by
  obtain ⟨h1, h2⟩ := Pipeline.after_eod c wf s h hd
  exact ⟨h1, h2, fun s' hst => Pipeline.read_fails_when_not_okay c s s' hst h1 h2⟩

/-! ## the entity mask inside the PBF block decoder

`decode_primitive_block_data()` decides per FIELD of a PrimitiveGroup (`if (m_read_types & type)
{ decode; commit } else skip`) and then goes on with the next field / group / block.  A
PrimitiveBlock may hold groups of different types (osmformat.proto: `repeated PrimitiveGroup`, only
the group is type-homogeneous), so "skip" must mean "skip THIS field", not "leave the block". -/

section PbfMask

open Osmium.Pbf Osmium.Osm Osmium.Wire

/-- `pbf_block_mask_is_filter`.  For EVERY field list of a PrimitiveBlock (no well-formedness
    assumption: any number of groups, any type order, unknown fields, dense/plain mixed) and every pair
    of reader options where `r'` selects a subset of the entity types of `r` with the same read_meta:
    if the block decodes under `r` to `os`, it decodes under `r'` to exactly `os.filter (selected r')`
    — the corresponding subsequence, in block order, nothing lost behind a skipped group. -/
theorem pbf_block_mask_is_filter (r' r : ROpts) (hR : Restricts r' r) (fs : List Field) (os : List Object)
    (h : decodeBlock r fs = some os) : decodeBlock r' fs = some (os.filter (selected r')) :=
  decodeBlock_mask hR fs os h

/-- … against the unrestricted read (`osm_entity_bits::nwr`): every mask yields the filtered
    subsequence of what the read of all types yields -/
theorem pbf_block_mask_of_all (r : ROpts) (fs : List Field) (os : List Object)
    (h : decodeBlock (allTypes r.readMeta) fs = some os) : decodeBlock r fs = some (os.filter (selected r)) :=
  decodeBlock_mask (restricts_allTypes r) fs os h

/-- everything a restricted block read returns is of a selected type -/
theorem pbf_block_delivers_selected_only (r : ROpts) (fs : List Field) (os : List Object)
    (h : decodeBlock r fs = some os) : ∀ o ∈ os, selected r o = true :=
  decodeBlock_selected r fs os h

/-- `pbf_file_mask_is_filter`.  The same for a whole FILE (any byte string; `PBFParser::run` + blob
    framing + block decoder, any decompressor): same header, exactly the selected objects in file
    order; includes the empty mask (then the data blobs are not read at all). -/
theorem pbf_file_mask_is_filter (inflate : Nat → Pbf.Bytes → Nat → Option Pbf.Bytes) (r' r : ROpts) (hR : Restricts r' r)
    (bs : Pbf.Bytes) (hdr : Header) (os : List Object) (h : decodeFile inflate r bs = some (hdr, os)) :
    decodeFile inflate r' bs = some (hdr, os.filter (selected r')) :=
  decodeFile_mask inflate hR bs hdr os h

/-- errors are monotone in the mask: a restricted read fails only if the wider read fails -/
theorem pbf_restricted_read_fails_only_if_wider_fails (inflate : Nat → Pbf.Bytes → Nat → Option Pbf.Bytes) (r' r : ROpts)
    (hR : Restricts r' r) (bs : Pbf.Bytes) (h : decodeFile inflate r' bs = none) : decodeFile inflate r bs = none := by
  cases hd : decodeFile inflate r bs with
  | none => rfl
  | some x => rw [decodeFile_mask inflate hR bs x.1 x.2 hd] at h; cases h

/-- `pbf_skipped_group_not_validated` — what the code does with a field whose type is not selected:
    `pbf_primitive_group.skip()`.  Whatever its payload, it contributes nothing and raises nothing
    (so the converse of `pbf_restricted_read_fails_only_if_wider_fails` is false: see the example
    `brokenWayBlock` below). -/
theorem pbf_skipped_group_not_validated (p : Params) (r : ROpts) (f : Field) (acc : List Object)
    (h : (f.tag = 1 ∨ f.tag = 2) ∧ r.nodes = false ∨ f.tag = 3 ∧ r.ways = false ∨ f.tag = 4 ∧ r.relations = false) :
    groupStep p r acc f = some acc := by
  rw [groupStep_eq, groupField_skipped p r f h]; simp

/-- `pbf_reader_spec_is_masked_decode`: the link to the pipeline theorems.  For a pipeline
    configuration whose `file` is the decode of the bytes under the wider mask `r` and whose
    projection is `selected r'` (metadata untouched), the specification `deliver c` of
    `exactly_once_in_order` IS the object list of the PBF decoder run with mask `r'` on the same bytes. -/
theorem pbf_reader_spec_is_masked_decode (inflate : Nat → Pbf.Bytes → Nat → Option Pbf.Bytes) (r' r : ROpts)
    (hR : Restricts r' r) (bs : Pbf.Bytes) (hdr : Header) (c : Cfg Object)
    (hf : decodeFile inflate r bs = some (hdr, c.file)) (hs : c.sel = selected r') (ht : c.strip = id) :
    decodeFile inflate r' bs = some (hdr, deliver c) := by
  rw [decodeFile_mask inflate hR bs hdr c.file hf]
  simp [deliver, proj, hs, ht]

/-! ### non-vacuity: a block with five groups of three types, dense and plain nodes mixed -/

def nodeA : Object :=
  .node { id := 1, version := 1, timestamp := 5, changeset := 2, uid := 3, user := [0x75], tags := [⟨[0x6b], [0x76]⟩] } ⟨10, 20⟩
def wayB : Object := .way { id := 2, version := 1, user := [0x75] } [{ ref := 1 }, { ref := 4 }]
def relC : Object := .relation { id := 3, user := [0x75] } [⟨1, 1, [0x6b]⟩, ⟨2, 2, [0x76]⟩]
def nodeD : Object := .node { id := 4, user := [] } ⟨-7, 8⟩
def nodeE : Object := .node { id := 9, version := 2, user := [0x75] } ⟨30, 40⟩

/-- a file (specification encoder, Model/PbfMixed.lean) with ONE PrimitiveBlock of five
    PrimitiveGroups: DenseNodes(nodeA), Way, Relation, plain Node(nodeD) BEHIND the way/relation
    groups, DenseNodes(nodeE) -/
def mixedFile : Pbf.Bytes :=
  PbfSpec.encodeMixed { groupSize := 1 } 0b10001 { generator := [0x78] } [nodeA, wayB, relC, nodeD, nodeE]

/-- the field list of its PrimitiveBlock -/
def mixedBlock : List Field :=
  match nextBlob true mixedFile with
  | some (some (_, rest)) =>
    match nextBlob false rest with
    | some (some (blob, _)) =>
      match decodeBlob noInflate blob with
      | some d => match readFields d with | .ok fs => fs | _ => []
      | none => []
    | _ => []
  | _ => []

/-- five groups; the hypothesis of `pbf_block_mask_of_all` holds for it; the restricted reads are the
    filtered sequences — in particular mask `w` finds the way behind the skipped dense group, mask `n`
    finds the nodes behind the skipped way and relation groups, mask `r` the relation in the middle -/
example : (mixedBlock.filter fun f => f.tag == 2).length = 5 ∧
    decodeBlock (allTypes true) mixedBlock = some [nodeA, wayB, relC, nodeD, nodeE] ∧
    decodeBlock { nodes := false, ways := true, relations := false } mixedBlock = some [wayB] ∧
    decodeBlock { nodes := true, ways := false, relations := false } mixedBlock = some [nodeA, nodeD, nodeE] ∧
    decodeBlock { nodes := true, ways := false, relations := true } mixedBlock = some [nodeA, relC, nodeD, nodeE] ∧
    (decodeFile noInflate { nodes := false, ways := false, relations := true } mixedFile).map (·.2) = some [relC] ∧
    (decodeFile noInflate { nodes := false, ways := false, relations := false } mixedFile).map (·.2) = some [] := by
  decide +kernel

/-- the same block with one more group holding a Way message that cannot be parsed -/
def brokenWayBlock : List Field :=
  mixedBlock ++ [Pbf.fBytes 2 (encodeFields [Pbf.fBytes 3 [0xff, 0xff]])]

/-- a skipped group is NOT validated: the unrestricted read (and every read that selects ways) fails,
    the reads that do not select ways succeed and deliver exactly the selected objects -/
example : decodeBlock (allTypes true) brokenWayBlock = none ∧
    decodeBlock { nodes := false, ways := true, relations := false } brokenWayBlock = none ∧
    decodeBlock { nodes := true, ways := false, relations := true } brokenWayBlock = some [nodeA, relC, nodeD, nodeE] := by
  decide +kernel

/-- hypotheses `Restricts` of the theorems above: satisfiable for every mask against `allTypes` -/
example : Restricts { nodes := false, ways := true, relations := false, readMeta := false } (allTypes false) :=
  restricts_allTypes _

end PbfMask

/-! ## any number of buffers without data inside one read() call (seed C05-6)

`Reader::read()` (reader.hpp) pops futures from the osmdata queue in a `while (true)` loop until one
holds data or the end marker; the PBF decoder sends one valid buffer WITHOUT data for every block
that holds none of the selected types, so the loop runs once per such block — tens of thousands of
times in a row when only ways/relations of a large sorted file are read.  In the model the loop is
the cycle `readPop → readWaitPop → readGot id → readPop` of the consumer's program counter inside
one API call.  The theorems below quantify over every trace `tr` — any number k of buffers without
data (`Skip.emptyGets tr`), any steps of the other threads in between.

HONEST SCOPE: the consumer of the model is a flat record (`cpc`, `status`, `back`, …); it has no call
stack, so these theorems say that NO STATE accumulates per skipped buffer, not how many bytes of
machine stack the C++ function uses.  A version of read() that calls itself once per skipped
buffer has the same transitions (and the same sequences) and differs only in stack depth: that is
outside the model and is covered by the small-stack monitor of tools/props/c05.py (`scale_pass`:
the thread calling read() runs on a painted 64-256 KiB stack while the input has thousands of
consecutive blocks / buffers without data; its high-water mark must not depend on their number). -/

/-- Unpacking one buffer without data, in any reachable state: read() is back at the control point
    at which the pop started and NOTHING else in the whole pipeline state has changed — the pass
    through the loop leaves no trace. -/
theorem read_skips_empty_buffer (c : Cfg α) (s s' : State α) (lv : List (List α)) (h : (P c).Reachable s)
    (hst : (P c).Step s (.cGet (.buf lv)) s') (he : lv.flatten = []) :
    s' = { s with cpc := .readPop } :=
  Skip.cGet_noData c s s' lv h hst he

/-- For ALL k: while one read() call pops buffers without data — any number of them, interleaved
    with any steps of the read thread, the parser thread and the pool workers — it is still that
    same call at one of the three control points of `pop()`, and what it has delivered, the back
    buffers, the results of the API calls so far and the status are exactly what they were when the
    call entered `pop()`.  (`Skip.skipEv` excludes only the four ways OUT of the loop: a future with
    data, the end marker, an exception, the queue found shut down.) -/
theorem read_skips_any_number_of_empty_buffers (c : Cfg α) (s s' : State α) (tr : List (Ev α))
    (h : (P c).Reachable s) (hp : Skip.inPop s = true) (hrun : (P c).run? s tr = .ok s')
    (hev : ∀ e ∈ tr, Skip.skipEv e = true) :
    Skip.inPop s' = true ∧ s'.delivered = s.delivered ∧ s'.back = s.back ∧ s'.results = s.results ∧
      s'.status = s.status := by
  obtain ⟨hp', hs⟩ := Skip.skip_run c tr s s' 0 h hp hrun hev
  exact ⟨hp', hs.delivered, hs.back, hs.results, hs.status⟩

/-- … and the first buffer WITH data ends the loop: the call returns its oldest level `l` (non-empty),
    the other levels become the back buffers, and the caller has received exactly `l` more than
    before the k empty buffers. -/
theorem read_returns_first_buffer_with_data (c : Cfg α) (s s' s'' : State α) (tr : List (Ev α)) (lv : List (List α))
    (h : (P c).Reachable s) (hp : Skip.inPop s = true) (hrun : (P c).run? s tr = .ok s')
    (hev : ∀ e ∈ tr, Skip.skipEv e = true) (hst : (P c).Step s' (.cGet (.buf lv)) s'') (hd : lv.flatten ≠ []) :
    ∃ l rest, lv = l :: rest ∧ l ≠ [] ∧ s''.cpc = .ret (.data l) ∧ s''.delivered = s.delivered ++ l ∧
      s''.back = rest ∧ s''.results = s.results := by
  obtain ⟨_, hs⟩ := Skip.skip_run c tr s s' 0 h hp hrun hev
  have hr' : (P c).Reachable s' := (P c).run?_reachable s s' tr 0 h hrun
  obtain ⟨rfl, hb, hw⟩ := Fault.cGet_buf_step c s' _ lv hr' hst
  match lv, hw with
  | [top], _ =>
    have ht : top ≠ [] := by simpa using hd
    refine ⟨top, [], rfl, ht, ?_, ?_, ?_, ?_⟩ <;> simp [afterPop, ht, hs.delivered, hs.results, hb]
  | l :: l2 :: rest, hw =>
    simp only [wfLevels, Bool.and_eq_true, Bool.not_eq_true', List.isEmpty_eq_false_iff] at hw
    have hl : l.isEmpty = false := by simpa using hw.1
    refine ⟨l, l2 :: rest, rfl, hw.1, ?_, ?_, ?_, ?_⟩ <;> simp [afterPop, hl, hs.delivered, hs.results]

/-- … or the end marker does: read() goes on to shut the queue down and to return the invalid buffer
    (`eodSd`; the status becomes eof in the `sdLocked` step), having delivered nothing in this call. -/
theorem read_after_empty_buffers_sees_end_of_data (c : Cfg α) (s s' s'' : State α) (tr : List (Ev α))
    (h : (P c).Reachable s) (hp : Skip.inPop s = true) (hrun : (P c).run? s tr = .ok s')
    (hev : ∀ e ∈ tr, Skip.skipEv e = true) (hst : (P c).Step s' (.cGet .eod) s'') :
    s''.cpc = .eodSd ∧ s''.delivered = s.delivered ∧ s''.back = s.back ∧ s''.results = s.results := by
  obtain ⟨_, hs⟩ := Skip.skip_run c tr s s' 0 h hp hrun hev
  simp only [Machine.Step, machine, step?] at hst
  split at hst
  · split at hst
    · simp only [Option.some.injEq] at hst
      subst hst
      exact ⟨rfl, hs.delivered, hs.back, hs.results⟩
    · cases hst
  · cases hst

/-! ## non-vacuity: a complete read, evaluated by the kernel -/

/-- one-object file, one chunk, unbounded queues, no spurious wake-ups -/
def tiny : Cfg Nat :=
  { file := [7], sel := fun _ => true, strip := id, chunkEnd := [1], pbf := false, blobEnd := [],
    usePool := false, workers := [], wqMax := 0, inqC := ⟨0, false⟩, outqC := ⟨0, false⟩, single := false,
    nothing := false, readFault := none, closeFault := false, parseFault := none, blobFault := none }

/-- the sequential schedule: read thread, then parser thread, then the consumer reads to the end
    and destroys the Reader -/
def tinyRun : List (Ev Nat) :=
  [.rTestDone false, .rRead (.chunk 0), .qi (.pushEnter 1 0), .qi (.pushTest 1 true), .qi (.pushLocked 1 1 none), .rSet,
   .rTestDone false, .rRead .eod, .rCloseDec true, .qi (.pushEnter 1 2), .qi (.pushTest 1 true), .qi (.pushLocked 1 2 none), .rSet,
   .pInUse true, .qi (.popNow 2 2 (some (1, 0))), .pGet (.chunk 0), .pHeader, .pObj false,
   .pInUse true, .qi (.popNow 2 1 (some (1, 2))), .pGet .eod, .qi (.sdEnter 2), .qi (.sdFlag 2), .qi (.sdLocked 2),
   .pFlushFinal, .qo (.pushEnter 2 1), .qo (.pushTest 2 true), .qo (.pushLocked 2 1 none), .pSet,
   .pRunEnd, .qo (.pushEnter 2 3), .qo (.pushTest 2 true), .qo (.pushLocked 2 2 none), .pSet,
   .qi (.sdEnter 2), .qi (.sdFlag 2), .qi (.sdLocked 2),
   .cHeader, .cHeaderGet, .cRet .ok,
   .cRead, .cInUse true, .qo (.popNow 0 2 (some (2, 1))), .cGet (.buf [[7]]), .cRet (.data [7]),
   .cRead, .cInUse true, .qo (.popNow 0 1 (some (2, 3))), .cGet .eod, .qo (.sdEnter 0), .qo (.sdFlag 0), .qo (.sdLocked 0),
   .cJoinR, .cRet .eof, .cRead, .cRet .ioError,
   .cDtor, .qo (.sdEnter 0), .qo (.sdFlag 0), .qo (.sdLocked 0), .cJoinR, .cJoinP,
   .qo (.sdEnter 0), .qo (.sdFlag 0), .qo (.sdLocked 0)]

theorem foldlM_reachable (c : Cfg Nat) (tr : List (Ev Nat)) (s0 s : State Nat) (h0 : (P c).Reachable s0)
    (h : tr.foldlM (step? c) s0 = some s) : (P c).Reachable s := by
  induction tr generalizing s0 with
  | nil => simp at h; exact h ▸ h0
  | cons e rest ih =>
    simp only [List.foldlM_cons, Option.bind_eq_bind, Option.bind_eq_some_iff] at h
    obtain ⟨s1, h1, h2⟩ := h
    exact ih s1 (.step h0 h1) h2

theorem trace_witness (c : Cfg Nat) (tr : List (Ev Nat)) (Pr : State Nat → Bool)
    (h : (tr.foldlM (step? c) (init Nat)).map Pr = some true) : ∃ s, (P c).Reachable s ∧ Pr s = true := by
  simp only [Option.map_eq_some_iff] at h
  obtain ⟨s, hs, hp⟩ := h
  exact ⟨s, foldlM_reachable c tr _ s .init hs, hp⟩

/-- the hypotheses of `exactly_once_in_order` / `read_after_eof_fails` are satisfiable: a complete
    read of `tiny` is reachable, it delivered [7] = deliver tiny, the Reader is destructed -/
example : ∃ s, (P tiny).Reachable s ∧
    (s.sawEod && s.destroyed && decide (s.delivered = [7]) && decide (s.results = [.ok, .data [7], .eof, .ioError])
      && decide (s.outq.called = s.outq.popped.map (fun p => p.2)) && decide (s.nested = []) && decide (s.cur = [])
      && decide (s.next = 1)) = true :=
  trace_witness tiny tinyRun _ (by decide)

example : lostBlob tiny = none := rfl

/-- the hypothesis of `nested_unwinding_order_reachable` is satisfiable: in the run above read() unpacks
    a buffer in a reachable state -/
example : ∃ s, (P tiny).Reachable s ∧ (step? tiny s (.cGet (.buf [[7]]))).isSome = true :=
  trace_witness tiny (tinyRun.take 43) _ (by decide)

example : tiny.WF :=
  { nothing_sel := by simp [tiny], chunk_mono := by simp [tiny], chunk_le := by simp [tiny], chunk_last := by simp [tiny],
    blob_mono := by simp [tiny], blob_le := by simp [tiny], blob_last := by simp [tiny], chunk_blob := by simp [tiny],
    workers_ne := by simp [tiny], workers_fresh := by simp [tiny] }

/-! ## non-vacuity: a blob whose decoding throws in a pool worker, evaluated by the kernel -/

/-- a PBF file with three blobs of one object each, one input piece, one pool worker, unbounded
    queues; decoding the SECOND blob throws (in the worker) -/
def lossy : Cfg Nat :=
  { file := [7, 8, 9], sel := fun _ => true, strip := id, chunkEnd := [3], pbf := true, blobEnd := [1, 2, 3],
    usePool := true, workers := [3], wqMax := 0, inqC := ⟨0, false⟩, outqC := ⟨0, false⟩, single := false,
    nothing := false, readFault := none, closeFault := false, parseFault := none, blobFault := some 1 }

/-- the parser thread submits all three blobs (futures 1, 3, 5 queued in file order), the worker runs
    the three jobs (future 3 gets the exception, future 5 the buffer [9]); the client reads [7], the
    next read() rethrows the exception (close() inside: the queue is shut down, the buffer [9] behind
    the exception is discarded), a further read() fails with io_error; then the parser thread finds the
    queue shut down and returns, and the Reader is destroyed -/
def lossyRun : List (Ev Nat) :=
  [.rTestDone false, .rRead (.chunk 0), .qi (.pushEnter 1 0), .qi (.pushTest 1 true), .qi (.pushLocked 1 1 none), .rSet,
   .rTestDone false, .rRead .eod, .rCloseDec true, .qi (.pushEnter 1 2), .qi (.pushTest 1 true), .qi (.pushLocked 1 2 none), .rSet,
   .pInUse true, .qi (.popNow 2 2 (some (1, 0))), .pGet (.chunk 0), .pHeader,
   .pBlob [[7]], .qo (.pushEnter 2 1), .qo (.pushTest 2 true), .qo (.pushLocked 2 1 none),
   .pBlob [[8]], .qo (.pushEnter 2 3), .qo (.pushTest 2 true), .qo (.pushLocked 2 2 none),
   .pBlob [[9]], .qo (.pushEnter 2 5), .qo (.pushTest 2 true), .qo (.pushLocked 2 3 none),
   .wStart 3, .wDone 3, .wStart 3, .wDone 3, .wStart 3, .wDone 3,
   .cRead, .cInUse true, .qo (.popNow 0 3 (some (2, 1))), .cGet (.buf [[7]]), .cRet (.data [7]),
   .cRead, .cInUse true, .qo (.popNow 0 2 (some (2, 3))), .cGet (.exc 4),
   .qo (.sdEnter 0), .qo (.sdFlag 0), .qo (.sdLocked 0), .cJoinR, .cRet (.exc 4),
   .cRead, .cRet .ioError,
   .pRunEnd, .qo (.pushEnter 2 7), .qo (.pushTest 2 false), .pSet, .qi (.sdEnter 2), .qi (.sdFlag 2), .qi (.sdLocked 2),
   .cDtor, .qo (.sdEnter 0), .qo (.sdFlag 0), .qo (.sdLocked 0), .cJoinR, .cJoinP,
   .qo (.sdEnter 0), .qo (.sdFlag 0), .qo (.sdLocked 0)]

/-- the three specifications of `lossy`: everything / before the faulty blob / without the lost blob -/
example : deliver lossy = [7, 8, 9] ∧ deliverBefore lossy = [7] ∧ deliverSkipping lossy = [7, 9] ∧
    faultyBlob lossy = some 1 ∧ lostBlob lossy = some 1 := by decide

/-- hypotheses of `delivered_before_fault`, `queue_of_futures_order_skipping`,
    `faulty_blob_delivers_prefix_then_error` -/
example : lossy.blobEnd.Pairwise (· ≤ ·) := by decide

example : lossy.WF :=
  { nothing_sel := by simp [lossy], chunk_mono := by simp [lossy], chunk_le := by simp [lossy], chunk_last := by simp [lossy],
    blob_mono := by decide, blob_le := by simp [lossy], blob_last := by simp [lossy], chunk_blob := by simp [lossy],
    workers_ne := by simp [lossy], workers_fresh := by simp [lossy, tC, tR, tP] }

/-- the state after the third read(): one object was delivered, the second read() returned the
    exception of the worker (code 4), the third failed with io_error; the status is error; there was
    no clean end of data; the parser thread had gone past the faulty blob (`blob = 3`: the lost-blob
    case of `queue_of_futures_order`), the buffer [9] of the third blob was decoded (future 5 is
    ready) and never delivered -/
example : ∃ s, (P lossy).Reachable s ∧
    (s.faulted && !s.sawEod && decide (s.delivered = [7]) && decide (s.results = [.data [7], .exc 4, .ioError])
      && decide (s.status = .error) && decide (s.blob = 3) && decide (s.fut 5 = some (.buf [[9]]))
      && decide (s.back = []) && decide (s.outq.items = []) && lostPassed lossy s.blob) = true :=
  trace_witness lossy (lossyRun.take 51) _ (by decide)

/-- … while the queue was still in use with the lost blob already submitted (hypothesis `hu` of
    `queue_of_futures_order` in the lost-blob case): after the first read(), the exception future and
    the buffer [9] queued behind it -/
example : ∃ s, (P lossy).Reachable s ∧
    (s.outq.inUse && lostPassed lossy s.blob && decide (s.delivered = [7]) && decide (s.outq.items = [(2, 3), (2, 5)])
      && decide (inTransit s = [9]) && decide (upstream lossy s = [])) = true :=
  trace_witness lossy (lossyRun.take 40) _ (by decide)

/-- the hypothesis `hu` of `queue_of_futures_order` is NECESSARY: after the shutdown() inside the failing
    read() the buffer [9] that was queued behind the exception is in nobody's hands — the equation with
    `inTransit` is false in that reachable state, the one of `order_in_every_state` (with `unpopped`) holds -/
example : ∃ s, (P lossy).Reachable s ∧
    (!s.outq.inUse && !decide (s.delivered ++ inTransit s ++ upstream lossy s = specAt lossy s.blob)
      && decide (vals s (unpopped s) = [9]) && decide (specAt lossy s.blob = [7, 9])) = true :=
  trace_witness lossy (lossyRun.take 49) _ (by decide)

/-- … and the whole run: all threads joined, the Reader destructed, still only [7] delivered -/
example : ∃ s, (P lossy).Reachable s ∧
    (s.destroyed && s.faulted && !s.sawEod && decide (s.delivered = [7])
      && decide (s.results = [.data [7], .exc 4, .ioError]) && decide (s.rpc = .done) && decide (s.ppc = .done)) = true :=
  trace_witness lossy lossyRun _ (by decide)

/-! ## non-vacuity: a masked read that skips two blocks inside one read() call, evaluated by the kernel -/

/-- a PBF file with three blobs of one object each, read with a mask that selects only the last
    object; blobs decoded inline (`usePool := false`): the first two blobs give buffers without data -/
def masked : Cfg Nat :=
  { file := [7, 8, 9], sel := fun x => x == 9, strip := id, chunkEnd := [3], pbf := true, blobEnd := [1, 2, 3],
    usePool := false, workers := [], wqMax := 0, inqC := ⟨0, false⟩, outqC := ⟨0, false⟩, single := false,
    nothing := false, readFault := none, closeFault := false, parseFault := none, blobFault := none }

/-- read thread, parser thread (three futures: two buffers without data, then [9]), then ONE read()
    call: events 33 … 38 are its two passes through the skipping loop -/
def maskedRun : List (Ev Nat) :=
  [.rTestDone false, .rRead (.chunk 0), .qi (.pushEnter 1 0), .qi (.pushTest 1 true), .qi (.pushLocked 1 1 none), .rSet,
   .rTestDone false, .rRead .eod, .rCloseDec true, .qi (.pushEnter 1 2), .qi (.pushTest 1 true), .qi (.pushLocked 1 2 none), .rSet,
   .pInUse true, .qi (.popNow 2 2 (some (1, 0))), .pGet (.chunk 0), .pHeader,
   .pBlob [[]], .qo (.pushEnter 2 1), .qo (.pushTest 2 true), .qo (.pushLocked 2 1 none), .pSet,
   .pBlob [[]], .qo (.pushEnter 2 3), .qo (.pushTest 2 true), .qo (.pushLocked 2 2 none), .pSet,
   .pBlob [[9]], .qo (.pushEnter 2 5), .qo (.pushTest 2 true), .qo (.pushLocked 2 3 none), .pSet,
   .cRead,
   .cInUse true, .qo (.popNow 0 3 (some (2, 1))), .cGet (.buf [[]]),
   .cInUse true, .qo (.popNow 0 2 (some (2, 3))), .cGet (.buf [[]]),
   .cInUse true, .qo (.popNow 0 1 (some (2, 5))), .cGet (.buf [[9]]), .cRet (.data [9])]

/-- the skipping part of that read() call -/
def skipSeg : List (Ev Nat) := (maskedRun.drop 33).take 6

example : deliver masked = [9] := by decide

/-- the hypotheses of `read_skips_any_number_of_empty_buffers` are satisfiable with k = 2: the state
    after `cRead` is reachable and inside `pop()`, the six events are a run from it, all of them
    stay in the loop, two of them unpack a buffer without data -/
example : ∃ s s', (P masked).Reachable s ∧ Skip.inPop s = true ∧ (P masked).run? s skipSeg = .ok s' := by
  obtain ⟨s, hr, hp⟩ := trace_witness masked (maskedRun.take 33)
    (fun s => Skip.inPop s && (match (P masked).run? s skipSeg with | .ok _ => true | .error _ => false)) (by decide)
  simp only [Bool.and_eq_true] at hp
  match hrun : (P masked).run? s skipSeg, hp.2 with
  | .ok s', _ => exact ⟨s, s', hr, hp.1, hrun⟩

example : (∀ e ∈ skipSeg, Skip.skipEv e = true) ∧ Skip.emptyGets skipSeg = 2 := by decide

/-- … and of `read_returns_first_buffer_with_data`: after the two passes the call unpacks [[9]] and
    returns it; the whole run delivered exactly `deliver masked` with ONE successful read() -/
example : ∃ s, (P masked).Reachable s ∧
    (decide (s.delivered = [9]) && decide (s.results = [.data [9]]) && decide (s.back = []) && decide (s.outq.items = [])) = true :=
  trace_witness masked maskedRun _ (by decide)

/-! ## the direct-fd configuration (a PBF FILE read by the parser thread through the file descriptor)

`Direct.machineD c` (Lemmas/PipelineDirect.lean; see Props/C07.lean): the same step function, started
with the whole file available to the parser; by the simulation `Direct.sim` its reachable states agree
with reachable states of the queue-fed machine `P (Direct.fed c)` on everything the theorems above talk
about. -/

/-- `delivered_is_prefix_any_fault` for the direct-fd configuration (any blob fault) -/
theorem direct_delivered_is_prefix (c : Cfg α) (hd : Direct.IsDirect c)
    (sd : State α) (h : (Direct.machineD c).Reachable sd) :
    (sd.delivered ++ sd.back.flatten) <+: deliver c := by
  obtain ⟨_, s, hr, hs⟩ := Direct.sim c hd sd h
  have := delivered_is_prefix_any_fault (Direct.fed c) s hr
  rw [hs.delivered, hs.back, Direct.deliver_fed] at this
  exact this

/-- `exactly_once_in_order` for the direct-fd configuration: a complete read of a PBF file that the
    parser thread reads through the fd delivered exactly `deliver c`, in order, nothing left over -/
theorem direct_exactly_once_in_order (c : Cfg α) (hd : Direct.IsDirect c) (wf : (Direct.fed c).WF)
    (sd : State α) (h : (Direct.machineD c).Reachable sd) (hc : completed sd) :
    sd.delivered = deliver c ∧ sd.back = [] := by
  obtain ⟨_, s, hr, hs⟩ := Direct.sim c hd sd h
  have := exactly_once_in_order (Direct.fed c) wf s hr (by unfold completed; rw [hs.sawEod]; exact hc)
  rw [hs.delivered, hs.back, Direct.deliver_fed] at this
  exact this

end Osmium.C05
