/-
C06 — Parse result is independent of how the input byte stream is chunked.

For each of the four parsers the carry-over program that pulls chunks from the input queue
(`Osmium.Chunks`, transcribed from the code) is proved equal to a specification that is a
function of the CONCATENATION of the chunks only — for every list of non-empty chunks
(the contract of the read thread, C09), of any length, down to one byte per chunk.
Hence any two chunkings of the same bytes give the same lines / frames / datasets / expat
input, and therefore the same header, objects or error.

Not covered by a theorem: expat itself (`XML_Parse` is assumed chunk-invariant; the theorem
shows the bytes fed and the position of the final call do not depend on the chunking), and
the decoders behind the carry-over (they receive identical arguments).
-/
import Osmium.Lemmas.ChunksOpl
import Osmium.Lemmas.ChunksPbf
import Osmium.Lemmas.ChunksO5m
import Osmium.Lemmas.ChunksFast
import Osmium.Lemmas.ChunksLong
import Osmium.Generated.C06Exits

namespace Osmium.Chunks.C06

open Osmium.Chunks Osmium.Wire

/-- the chunking contract: every chunk is non-empty -/
def NonEmptyChunks (cs : List Bytes) : Prop := ∀ c ∈ cs, c ≠ []

/-! ### OPL -/

/-- `line_by_line` hands `parse_line` exactly the non-empty lines of the concatenated input
    (lines split at `\n` or `\r`), whatever the chunking.  (NUL-free input: valid and truncated
    OPL files contain no NUL bytes.) -/
theorem opl_chunking (cs : List Bytes) (hne : NonEmptyChunks cs) (hn : NoNul cs.flatten) :
    lineByLine cs = specLines cs.flatten := by
  have := oplRun_spec cs (cs.length + 2) [] [] hne hn (by intro b hb; simp at hb) (Nat.le_refl _)
  have e : (ne : Bytes → Bool) = fun l => !l.isEmpty := rfl
  rw [e] at this
  simpa [lineByLine, specLines] using this

theorem opl_chunking_irrelevant (cs₁ cs₂ : List Bytes) (h₁ : NonEmptyChunks cs₁) (h₂ : NonEmptyChunks cs₂)
    (hn : NoNul cs₁.flatten) (heq : cs₁.flatten = cs₂.flatten) : lineByLine cs₁ = lineByLine cs₂ := by
  rw [opl_chunking cs₁ h₁ hn, opl_chunking cs₂ h₂ (heq ▸ hn), heq]

/-! ### PBF -/

/-- The blob framing (sizes, BlobHeaders, blobs, EOF, every error incl. truncation at any
    byte) read through the input buffer equals the framing of the concatenated stream, for
    every `decode_blob_header` function and every limit. -/
theorem pbf_chunking (maxHeader maxBlob : Nat) (blobSize : Bool → Bytes → Option Nat) (cs : List Bytes)
    (hne : NonEmptyChunks cs) :
    pbfFrames maxHeader maxBlob blobSize cs =
      specFrames maxHeader maxBlob blobSize (cs.flatten.length / 4 + 2) cs.flatten [] := by
  have := readFrames_spec maxHeader maxBlob blobSize (cs.flatten.length / 4 + 2)
    { buf := [], src := { chunks := cs } } [] ⟨rfl, hne⟩
  simpa [pbfFrames, PbfIn.stream] using this

theorem pbf_chunking_irrelevant (maxHeader maxBlob : Nat) (blobSize : Bool → Bytes → Option Nat)
    (cs₁ cs₂ : List Bytes) (h₁ : NonEmptyChunks cs₁) (h₂ : NonEmptyChunks cs₂)
    (heq : cs₁.flatten = cs₂.flatten) :
    pbfFrames maxHeader maxBlob blobSize cs₁ = pbfFrames maxHeader maxBlob blobSize cs₂ := by
  rw [pbf_chunking _ _ _ cs₁ h₁, pbf_chunking _ _ _ cs₂ h₂, heq]

/-! ### o5m -/

/-- header check + dataset loop on a plain byte stream -/
def specO5mRun (r : Bytes) : List Dataset × Option O5mErr :=
  if r.length < 7 then ([], some .headerTooShort)
  else if r.take 5 != o5mMagic then ([], some .wrongMagic)
  else if (r.drop 5).head? != some 0x6d && (r.drop 5).head? != some 0x63 then ([], some .wrongMagic)
  else if (r.drop 6).head? != some 0x32 then ([], some .wrongMagic)
  else specO5mLoop (r.length + 1) (r.drop 7) []

/-- The o5m parser (after the repair of finding F6) sees exactly the datasets of the
    concatenated stream: same dataset types, same payload bytes, same reset markers, same
    error (incl. truncation inside a length or payload), whatever the chunking. -/
theorem o5m_chunking (cs : List Bytes) (hne : NonEmptyChunks cs) : o5mRun cs = specO5mRun cs.flatten := by
  let o : O5mIn := { consumed := 0, window := [], src := { chunks := cs } }
  have ho : o.remaining = cs.flatten := by simp [o, O5mIn.remaining, Src.pending]
  have e := ensure_o5m_spec o 7 hne
  generalize hr : o.ensure 7 = r at e
  obtain ⟨ok, o1⟩ := r
  simp only at e
  obtain ⟨hrem, hne1, hok, hwin, _⟩ := e
  rw [ho] at hrem hok
  have hrun : o5mRun cs = (if !ok then ([], some O5mErr.headerTooShort)
      else if o1.window.take 5 != o5mMagic then ([], some .wrongMagic)
      else if (o1.window.drop 5).head? != some 0x6d && (o1.window.drop 5).head? != some 0x63 then ([], some .wrongMagic)
      else if (o1.window.drop 6).head? != some 0x32 then ([], some .wrongMagic)
      else o5mLoop (cs.flatten.length + 1) (o1.advance 7) []) := by
    simp only [o5mRun]
    rw [show ({ consumed := 0, window := [], src := { chunks := cs } } : O5mIn) = o from rfl, hr]
  rw [hrun]
  cases hk : ok with
  | false =>
    rw [hk] at hok
    have := of_decide_eq_false hok.symm
    have hlt : cs.flatten.length < 7 := by omega
    simp only [specO5mRun, hlt, ↓reduceIte, Bool.not_false]
  | true =>
    rw [hk] at hok hwin
    have hge := of_decide_eq_true hok.symm
    have hw := hwin rfl
    have hnl : ¬ cs.flatten.length < 7 := by omega
    have hsplit : cs.flatten = o1.window ++ o1.src.pending := by rw [← hrem]; rfl
    have t5 : cs.flatten.take 5 = o1.window.take 5 := by
      rw [hsplit, List.take_append_of_le_length (by omega)]
    have d5 : (cs.flatten.drop 5).head? = (o1.window.drop 5).head? := by
      rw [hsplit, List.drop_append_of_le_length (by omega)]
      cases h : o1.window.drop 5 with
      | nil => have := congrArg List.length h; simp at this; omega
      | cons a as => simp
    have d6 : (cs.flatten.drop 6).head? = (o1.window.drop 6).head? := by
      rw [hsplit, List.drop_append_of_le_length (by omega)]
      cases h : o1.window.drop 6 with
      | nil => have := congrArg List.length h; simp at this; omega
      | cons a as => simp
    have a7 := advance_remaining o1 7 hw
    have hloop := o5mLoop_spec (cs.flatten.length + 1) (o1.advance 7) [] (by rw [a7.2]; exact hne1)
    rw [a7.1, hrem] at hloop
    simp only [specO5mRun, hnl, ↓reduceIte, t5, d5, d6, Bool.not_true, Bool.false_eq_true, hloop]

theorem o5m_chunking_irrelevant (cs₁ cs₂ : List Bytes) (h₁ : NonEmptyChunks cs₁) (h₂ : NonEmptyChunks cs₂)
    (heq : cs₁.flatten = cs₂.flatten) : o5mRun cs₁ = o5mRun cs₂ := by
  rw [o5m_chunking cs₁ h₁, o5m_chunking cs₂ h₂, heq]

/-! ### XML -/

theorem xmlFeedGo_spec : ∀ (cs : List Bytes) (fuel : Nat) (acc : List (Bytes × Bool)), NonEmptyChunks cs →
    cs.length + 2 ≤ fuel →
    xmlFeedGo fuel { chunks := cs, done := false } acc = acc.reverse ++ cs.map (fun c => (c, false)) ++ [([], true)]
  | [], fuel, acc, _, hf => by
    obtain ⟨f, rfl⟩ : ∃ f, fuel = f + 2 := ⟨fuel - 2, by simp at hf; omega⟩
    simp [xmlFeedGo, Src.getInput]
  | c :: cs, fuel, acc, hne, hf => by
    obtain ⟨f, rfl⟩ : ∃ f, fuel = f + 1 := ⟨fuel - 1, by simp at hf; omega⟩
    have hc : c ≠ [] := hne c (List.mem_cons_self)
    have hce : c.isEmpty = false := by cases c <;> simp_all
    have ih := xmlFeedGo_spec cs f ((c, false) :: acc) (fun x hx => hne x (List.mem_cons_of_mem _ hx))
      (by simp at hf; omega)
    simp [xmlFeedGo, Src.getInput, hce, ih]

/-- expat is fed every chunk with `last = false`, in order, followed by exactly one final call
    with no data: the bytes given to expat are the concatenation, and the final call comes
    after all of them — for every chunking. -/
theorem xml_feed (cs : List Bytes) (hne : NonEmptyChunks cs) :
    xmlFeed cs = cs.map (fun c => (c, false)) ++ [([], true)] := by
  simpa [xmlFeed] using xmlFeedGo_spec cs (cs.length + 2) [] hne (Nat.le_refl _)

theorem xml_feed_bytes (cs : List Bytes) (hne : NonEmptyChunks cs) :
    ((xmlFeed cs).map Prod.fst).flatten = cs.flatten := by
  rw [xml_feed cs hne]; simp [List.map_map, Function.comp_def]

/-! ### long records: no size-dependent behaviour in the carry-over

The theorems above have no bound on the length of a line / blob / dataset or on the number of
pieces it is spread over; the statements below make that explicit and are what the long-record
streams of tools/props/c06.py (lines of 64 KiB … 4 MiB in pieces of 7 bytes … 1 MiB) exercise. -/

/-- Every segmentation gives the result of the one-piece run (what the monitor of the check
    tests on the implementation, proved for the model). -/
theorem opl_equals_one_piece (cs : List Bytes) (hne : NonEmptyChunks cs) (hn : NoNul cs.flatten)
    (h0 : cs.flatten ≠ []) : lineByLine cs = lineByLine [cs.flatten] := by
  refine opl_chunking_irrelevant cs [cs.flatten] hne ?_ hn (by simp)
  intro c hc
  simp only [List.mem_singleton] at hc
  subst hc
  exact h0

/-- A line `l` of ANY length (no bound), anywhere in the input (after `pre` + line end, before
    line end + `post`), is handed to `parse_line` intact and exactly once, between the lines of
    `pre` and the lines of `post`, whatever the chunking — there is no length-dependent outcome
    ("line too long") on any carry-over path. -/
theorem opl_line_of_any_length (cs : List Bytes) (hne : NonEmptyChunks cs) (hn : NoNul cs.flatten)
    (pre l post : Bytes) (x y : UInt8) (hx : isBreak x = true) (hy : isBreak y = true)
    (hflat : cs.flatten = pre ++ x :: (l ++ y :: post)) (hl : l ≠ []) (hnb : ∀ b ∈ l, isBreak b = false) :
    lineByLine cs = specLines pre ++ l :: specLines post := by
  rw [opl_chunking cs hne hn, hflat, specLines_break pre _ x hx, specLines_break l post y hy,
    specLines_single l hl hnb]
  simp

/-- …and the hypotheses are satisfiable for every line length and every piece size: a line of
    `n + 1` bytes cut into pieces of `k + 1` bytes (so spanning `⌈(n + 2) / (k + 1)⌉` pieces: one
    byte per piece for `k = 0`) comes out as that one line. -/
theorem opl_long_line_fixed_pieces (l : Bytes) (k : Nat) (hl : l ≠ []) (hnb : ∀ b ∈ l, isBreak b = false)
    (hn : NoNul l) :
    lineByLine (piecesOf k (l.length + 1) (l ++ [10])) = [l] ∧
    (piecesOf k (l.length + 1) (l ++ [10])).length = (l.length + 1 + k) / (k + 1) := by
  have hfl := piecesOf_flatten k (l.length + 1) (l ++ [10]) (by simp)
  constructor
  · rw [opl_chunking _ (piecesOf_nonEmpty k _ _) (by
      rw [hfl]
      exact noNul_append hn (by intro b hb; simp at hb; subst hb; decide))]
    rw [hfl, specLines_break l [] 10 (by decide), specLines_single l hl hnb]
    simp [specLines, segs]
  · have := piecesOf_length k (l.length + 1) (l ++ [10]) (by simp)
    simpa using this

/-- Static tie for what no stream of ordinary inputs can see: the CURRENT source of the carry-over
    functions (`line_by_line`, the PBFParser input-buffer functions, `O5mParser::ensure_bytes_available`,
    `XMLParser::run`; table regenerated on every run) has exactly the ways out the models have — no
    `throw` in `line_by_line` / the o5m window / the XML feed, the four PBF errors, no named limit
    besides the two PBF size limits (parameters of the model) and no numeric constant other than
    0 and 1, i.e. no size threshold. -/
theorem carry_over_exits_modelled :
    Osmium.Generated.C06Exits.throwSites = modelledThrows ∧
    Osmium.Generated.C06Exits.limits = modelledLimits ∧
    Osmium.Generated.C06Exits.constants = [] := by decide

/-! ### the linear-time twins run by the model driver are the specified functions -/

theorem lineByLineF_eq (cs : List Bytes) : lineByLineF cs = lineByLine cs := lineByLineF_eq_lineByLine cs

theorem pbfFramesF_eq (maxHeader maxBlob : Nat) (blobSize : Bool → Bytes → Option Nat) (cs : List Bytes) :
    pbfFramesF maxHeader maxBlob blobSize cs = pbfFrames maxHeader maxBlob blobSize cs :=
  pbfFramesF_eq_pbfFrames maxHeader maxBlob blobSize cs

theorem o5m_ensureF_eq (o : O5mIn) (need : Nat) : o.ensureF need = o.ensure need := ensureF_o5m_eq o need

/-! ### non-vacuity -/

example : NonEmptyChunks [[110, 49], [10, 110], [50, 10]] ∧ NoNul ([[110, 49], [10, 110], [50, 10]] : List Bytes).flatten := by
  constructor
  · intro c hc; simp at hc; rcases hc with rfl | rfl | rfl <;> simp
  · intro b hb; simp at hb; rcases hb with rfl | rfl | rfl | rfl | rfl | rfl <;> decide

example : lineByLine [[110, 49], [10, 110], [50, 10]] = [[110, 49], [110, 50]] := by decide
example : lineByLine [[110, 49, 10, 110, 50, 10]] = [[110, 49], [110, 50]] := by decide
-- one line spread over 5 pieces (3 of them lie completely inside the line), 3 pieces, 1 piece
example : lineByLine [[110], [49, 32], [118], [50, 32, 100], [86, 10, 110, 50, 10]] = [[110, 49, 32, 118, 50, 32, 100, 86], [110, 50]] := by decide
example : lineByLineF [[110], [49, 32], [118], [50, 32, 100], [86, 10, 110, 50, 10]] = [[110, 49, 32, 118, 50, 32, 100, 86], [110, 50]] := by decide
example : lineByLine (piecesOf 2 9 [110, 49, 32, 118, 50, 32, 100, 86, 10]) = [[110, 49, 32, 118, 50, 32, 100, 86]] := by decide
example : piecesOf 2 9 [110, 49, 32, 118, 50, 32, 100, 86, 10] = [[110, 49, 32], [118, 50, 32], [100, 86, 10]] := by decide
-- hypotheses of opl_line_of_any_length on a chunking that cuts inside `pre`, `l` (twice) and `post`
example : ([[110, 49, 10, 119], [50], [32, 78], [110, 49, 13, 110], [51]] : List Bytes).flatten
    = [110, 49] ++ 10 :: ([119, 50, 32, 78, 110, 49] ++ 13 :: [110, 51]) := by decide
-- the one-node o5m file of finding F6, whole and cut in two
example : o5mRun [[0xff, 0xe0, 0x04, 0x6f, 0x35, 0x6d, 0x32, 0x10, 0x07, 0x02, 0x00, 0x80, 0x80, 0x02, 0x80, 0x02, 0xfe]]
    = ([.data 0x10 [0x02, 0x00, 0x80, 0x80, 0x02, 0x80, 0x02], .other 0xfe], none) := by decide
example : o5mRun [[0xff, 0xe0, 0x04, 0x6f, 0x35, 0x6d, 0x32, 0x10, 0x07], [0x02, 0x00, 0x80, 0x80, 0x02, 0x80, 0x02, 0xfe]]
    = ([.data 0x10 [0x02, 0x00, 0x80, 0x80, 0x02, 0x80, 0x02], .other 0xfe], none) := by decide

end Osmium.Chunks.C06
