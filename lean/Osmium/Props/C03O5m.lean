/-
C03, o5m part — hostile o5m input never makes the decoder read outside the dataset / the
reference table, and the decoder terminates.

The model (`Osmium.O5m`, transcribed from o5m_input_format.hpp) makes every read of every
decoder explicit: a read through a pointer that stands at the dataset's `end`, or that has left
its 256-byte table slot, is the outcome `Res.oob`.  `o5m_reads_in_bounds` shows that outcome is
unreachable for EVERY byte string, every chunking, every entity filter and both build modes.

Termination (`o5m_terminates`) is implicit: `decode` and all decoders are total Lean
functions (structural recursion on the byte list or on explicit fuel = number of bytes, each
iteration consuming at least one byte; the fuel error `Err.fuel` never shows up in the
correspondence runs).

What does NOT hold for every input (full statement `O5mHostileSafe` kept, refuted on witnesses
that are replayed on the real Reader by tools/props/c03_o5m.py):
  * `Ub.userTooLong`  user name of ≥ 65535 bytes: set_user() asserts / (NDEBUG) writes a wrapped
                      16-bit size and the object layout is corrupt (SEGV on traversal)
  * `Ub.ptrOverflow`  way/relation reference section length ≥ 2^63: `data + length` overflows
  * `Ub.boxAssert`    bbox dataset with an undefined and unordered corner: assert in Box()
  * `Ub.tableVarint`  a table string starting with ≥ 10 bytes ≥ 0x80 referenced as (uid,user):
                      protozero::decode_varint gets a slot pointer with the dataset's `end`
-/
import Osmium.Lemmas.O5mSafe

namespace Osmium.O5m.C03

open Osmium.O5m Osmium.Wire Osmium.Osm

/-- the table invariant the decoders rely on and maintain: no slot holds more than `max_length` bytes -/
abbrev TableOk (t : Table) : Prop := SlotsOk t

/-- Whole file, any chunking (non-empty chunks or not), any configuration: no out-of-bounds read. -/
theorem o5m_reads_in_bounds_chunks (cfg : Cfg) (cs : List Bytes) : decodeChunks cfg cs ≠ .oob :=
  decodeChunks_ne_oob cfg cs

/-- ∀ byte strings b: decoding b yields objects, an exception or a named undefined behaviour —
    never a read outside the dataset or outside a table slot. -/
theorem o5m_reads_in_bounds (cfg : Cfg) (b : Bytes) : decode cfg b ≠ .oob :=
  decodeChunks_ne_oob cfg _

/-- … and for every single decoder, from every reachable parser state (tables built by any
    history of add/clear satisfy `TableOk`, see `o5m_table_ok`), on every payload. -/
theorem o5m_decoders_in_bounds (cfg : Cfg) (st : St) (h : TableOk st.tab) (d : Bytes) :
    decodeNode cfg st d ≠ .oob ∧ decodeWay cfg st d ≠ .oob ∧ decodeRelation cfg st d ≠ .oob ∧
    decodeBbox cfg d ≠ .oob ∧ decodeTimestamp d ≠ .oob ∧ decodeInfo st d ≠ .oob ∧
    decodeTags st.tab d ≠ .oob ∧
    (d ≠ [] → decodeUser st.tab d ≠ .oob ∧ decodeRole st.tab d ≠ .oob ∧ decodeString st.tab d ≠ .oob) :=
  ⟨(decodeNode_safe cfg st h d).ne_oob, (decodeWay_safe cfg st h d).ne_oob, (decodeRelation_safe cfg st h d).ne_oob,
   (decodeBbox_safe cfg d).ne_oob, (decodeTimestamp_safe d).ne_oob, (decodeInfo_safe st h d).ne_oob,
   (decodeTags_safe st.tab h d).ne_oob,
   fun hd => ⟨(decodeUser_safe st.tab h d hd).ne_oob, (decodeRole_safe st.tab h d hd).ne_oob,
              (decodeString_safe st.tab h d hd).ne_oob⟩⟩

/-- the decoders keep the table invariant (so it holds in every reachable state) -/
theorem o5m_table_ok (cfg : Cfg) (st : St) (h : TableOk st.tab) (d : Bytes) :
    (∀ o st', decodeNode cfg st d = .ok (o, st') → TableOk st'.tab) ∧
    (∀ o st', decodeWay cfg st d = .ok (o, st') → TableOk st'.tab) ∧
    (∀ o st', decodeRelation cfg st d = .ok (o, st') → TableOk st'.tab) ∧
    TableOk st.reset.tab := by
  refine ⟨?_, ?_, ?_, h⟩
  · intro o st' e; have := decodeNode_safe cfg st h d; rw [e] at this; exact this
  · intro o st' e; have := decodeWay_safe cfg st h d; rw [e] at this; exact this
  · intro o st' e; have := decodeRelation_safe cfg st h d; rw [e] at this; exact this

/-- the precondition of the `assert(*dataptr != end)` in decode_string / decode_user /
    decode_role is what the callers establish; without it the first read IS out of bounds -/
example (t : Table) : decodeString t [] = .oob := rfl

/-! ### the full safety statement and its refutation -/

/-- C03 for o5m as the property states it: objects or an exception, nothing else. -/
def O5mHostileSafe : Prop :=
  ∀ (cfg : Cfg) (b : Bytes), (∃ r, decode cfg b = .ok r) ∨ (∃ e, decode cfg b = .err e)

def hdr : Bytes := [0xff, 0xe0, 0x04, 0x6f, 0x35, 0x6d, 0x32]

/-- way 1, no info, reference section length 2^64-1 -/
def witnessPtrOverflow : Bytes :=
  hdr ++ [0x11, 0x0c, 0x02, 0x00, 0xff, 0xff, 0xff, 0xff, 0xff, 0xff, 0xff, 0xff, 0xff, 0x01, 0xfe]

theorem witness_ptr_overflow : decode {} witnessPtrOverflow = .ub .ptrOverflow := by decide +kernel

/-- bbox dataset (2147483647,0)-(0,0): bottom-left undefined, not ordered -/
def witnessBoxAssert : Bytes :=
  hdr ++ [0xdb, 0x08, 0xfe, 0xff, 0xff, 0xff, 0x0f, 0x00, 0x00, 0x00, 0xfe]

theorem witness_box_assert : decode { assertions := true } witnessBoxAssert = .ub .boxAssert := by decide +kernel
/-- without assertions the same file is decoded (the Box is stored as is) -/
example : decode { assertions := false } witnessBoxAssert
    = .ok ({ boxes := [(⟨2147483647, 0⟩, ⟨0, 0⟩)] }, []) := by decide +kernel

/-- the user name length at which set_user() breaks, at the decoder level -/
theorem witness_user_too_long (cfg : Cfg) : setUser cfg (List.replicate 65535 97) = .ub .userTooLong := by
  unfold setUser
  simp only [List.length_replicate]
  split <;> decide

theorem hostile_safe_refuted : ¬ O5mHostileSafe := by
  intro h
  rcases h {} witnessPtrOverflow with ⟨r, hr⟩ | ⟨e, he⟩
  · rw [witness_ptr_overflow] at hr; cases hr
  · rw [witness_ptr_overflow] at he; cases he

/-- what remains true of C03 for every input: `o5m_reads_in_bounds` (no `oob`); the only other
    non-exception outcomes are the four `Ub` kinds listed above (by the type of `Res`). -/
theorem o5m_hostile_safe_partial (cfg : Cfg) (b : Bytes) :
    (∃ r, decode cfg b = .ok r) ∨ (∃ e, decode cfg b = .err e) ∨ (∃ u, decode cfg b = .ub u) := by
  cases h : decode cfg b with
  | ok r => exact Or.inl ⟨r, rfl⟩
  | err e => exact Or.inr (Or.inl ⟨e, rfl⟩)
  | oob => exact (o5m_reads_in_bounds cfg b h).elim
  | ub u => exact Or.inr (Or.inr ⟨u, rfl⟩)

/-- non-vacuity: a valid one-node file decodes to an object -/
example : decode {} (hdr ++ [0x10, 0x04, 0x02, 0x00, 0x04, 0x06, 0xfe])
    = .ok ({}, [.node { id := 1 } ⟨2, 3⟩]) := by decide +kernel

end Osmium.O5m.C03
