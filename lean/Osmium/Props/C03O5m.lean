/-
C03, o5m part — hostile o5m input never makes the decoder read outside the dataset / the
reference table, never violates a callee's precondition, and the decoder terminates.

The model (`Osmium.O5m`, transcribed from o5m_input_format.hpp as repaired by 0243f9d, 638f5ce,
d878353, 973cf14, 9d3a6e9 and f1844ef: datasets skipped by the entity filter are still decoded, their
errors are thrown and their effect on the delta counters / reference table is kept) makes every read of every decoder explicit: a read through a pointer
that stands at the dataset's `end`, or that has left its 256-byte table slot, is the outcome
`Res.oob`; a call of `set_user(const char*)` with a name of ≥ 65535 bytes is `Res.ub`.
`o5m_hostile_safe` shows: for EVERY byte string, every chunking, every entity filter and both
build modes the outcome is a list of objects or an exception — never `oob`, never `ub`.

Termination (`o5m_terminates`) is implicit: `decode` and all decoders are total Lean functions
(structural recursion on the byte list or on explicit fuel = number of bytes, each iteration
consuming at least one byte; the fuel error `Err.fuel` is one of the exceptions of the model and
never shows up in the correspondence runs).

History: before the five repairs the statement was refuted by four witnesses (user name of 65535
bytes, reference section length ≥ 2^63, bbox with an undefined unordered corner, table string
starting with ≥ 10 bytes ≥ 0x80 referenced as user); they are kept below as regression examples
(now: exceptions) and in corpus/C03/o5m_seeds.ops.
-/
import Osmium.Lemmas.O5mSafe

namespace Osmium.O5m.C03

open Osmium.O5m Osmium.Wire Osmium.Osm

/-- the table invariant the decoders rely on and maintain: no slot holds more than `max_length` bytes -/
abbrev TableOk (t : Table) : Prop := SlotsOk t

/-- C03 for o5m as the property states it — ∀ byte strings b (any length), both build modes, every
    entity filter: decoding b yields objects or an exception derived from std::exception. -/
theorem o5m_hostile_safe (cfg : Cfg) (b : Bytes) :
    (∃ r, decode cfg b = .ok r) ∨ (∃ e, decode cfg b = .err e) :=
  decodeChunks_safe cfg _

/-- the same for every chunking of the input (with C06: the chunking does not matter at all) -/
theorem o5m_hostile_safe_chunks (cfg : Cfg) (cs : List Bytes) :
    (∃ r, decodeChunks cfg cs = .ok r) ∨ (∃ e, decodeChunks cfg cs = .err e) :=
  decodeChunks_safe cfg cs

/-- ∀ byte strings b: no read outside the dataset or outside a table slot. -/
theorem o5m_reads_in_bounds (cfg : Cfg) (b : Bytes) : decode cfg b ≠ .oob :=
  decodeChunks_ne_oob cfg _

/-- ∀ byte strings b: no callee precondition is violated (set_user's `strlen(user) < 65535`). -/
theorem o5m_no_ub (cfg : Cfg) (b : Bytes) (u : Ub) : decode cfg b ≠ .ub u := by
  rcases o5m_hostile_safe cfg b with ⟨r, h⟩ | ⟨e, h⟩ <;> rw [h] <;> simp

/-- … and for every single decoder, from every reachable parser state (tables built by any
    history of add/clear satisfy `TableOk`, see `o5m_table_ok`), on every payload: a value or an
    exception. -/
theorem o5m_decoders_in_bounds (cfg : Cfg) (st : St) (h : TableOk st.tab) (d : Bytes) :
    decodeNode cfg st d ≠ .oob ∧ decodeWay cfg st d ≠ .oob ∧ decodeRelation cfg st d ≠ .oob ∧
    decodeBbox d ≠ .oob ∧ decodeTimestamp d ≠ .oob ∧ decodeInfo st d ≠ .oob ∧
    decodeTags st.tab d ≠ .oob ∧
    (d ≠ [] → decodeUser st.tab d ≠ .oob ∧ decodeRole st.tab d ≠ .oob ∧ decodeString st.tab d ≠ .oob) :=
  ⟨(decodeNode_safe cfg st h d).ne_oob, (decodeWay_safe cfg st h d).ne_oob, (decodeRelation_safe cfg st h d).ne_oob,
   (decodeBbox_safe d).ne_oob, (decodeTimestamp_safe d).ne_oob, (decodeInfo_safe st h d).ne_oob,
   (decodeTags_safe st.tab h d).ne_oob,
   fun hd => ⟨(decodeUser_safe st.tab h d hd).ne_oob, (decodeRole_safe st.tab h d hd).ne_oob,
              (decodeString_safe st.tab h d hd).ne_oob⟩⟩

theorem o5m_decoders_no_ub (cfg : Cfg) (st : St) (h : TableOk st.tab) (d : Bytes) (u : Ub) :
    decodeNode cfg st d ≠ .ub u ∧ decodeWay cfg st d ≠ .ub u ∧ decodeRelation cfg st d ≠ .ub u :=
  ⟨(decodeNode_safe cfg st h d).ne_ub u, (decodeWay_safe cfg st h d).ne_ub u, (decodeRelation_safe cfg st h d).ne_ub u⟩

/-- the decoders keep the table invariant (so it holds in every reachable state) -/
theorem o5m_table_ok (cfg : Cfg) (st : St) (h : TableOk st.tab) (d : Bytes) :
    (∀ o st', decodeNode cfg st d = .ok (o, st') → TableOk st'.tab) ∧
    (∀ o st', decodeWay cfg st d = .ok (o, st') → TableOk st'.tab) ∧
    (∀ o st', decodeRelation cfg st d = .ok (o, st') → TableOk st'.tab) ∧
    TableOk st.reset.tab := by
  refine ⟨?_, ?_, ?_, h⟩
  · intro o st' e; have := decodeNode_safe cfg st h d; rw [e] at this; exact this
  · intro o st' e; have := decodeWay_safe cfg st h d; rw [e] at this; exact this
  · intro o st' e; have := decodeRelation_safe cfg st h d; rw [e] at this; exact this

/-- the precondition of the `assert(*dataptr != end)` in decode_string / decode_user /
    decode_role is what the callers establish; without it the first read IS out of bounds
    (non-vacuity of the `oob` outcome) -/
example (t : Table) : decodeString t [] = .oob := rfl
/-- non-vacuity of the `ub` outcome: the length at which set_user() breaks -/
example (cfg : Cfg) : setUser cfg (List.replicate 65535 97) = .ub .userTooLong := by
  unfold setUser
  simp only [List.length_replicate]
  split <;> decide

/-! ### the former witnesses, now exceptions (regression examples) -/

def hdr : Bytes := [0xff, 0xe0, 0x04, 0x6f, 0x35, 0x6d, 0x32]

/-- way 1, no info, reference section length 2^64-1 -/
example : decode {} (hdr ++ [0x11, 0x0c, 0x02, 0x00, 0xff, 0xff, 0xff, 0xff, 0xff, 0xff, 0xff, 0xff, 0xff, 0x01, 0xfe])
    = .err .wayRefsTooLong := by decide +kernel

/-- bbox dataset (2147483647,0)-(0,0): bottom-left undefined, not ordered — both build modes -/
example : decode { assertions := true } (hdr ++ [0xdb, 0x08, 0xfe, 0xff, 0xff, 0xff, 0x0f, 0x00, 0x00, 0x00, 0xfe])
    = .err .invalidBbox := by decide +kernel
example : decode { assertions := false } (hdr ++ [0xdb, 0x08, 0xfe, 0xff, 0xff, 0xff, 0x0f, 0x00, 0x00, 0x00, 0xfe])
    = .err .invalidBbox := by decide +kernel

/-- non-vacuity: a valid one-node file decodes to an object -/
example : decode {} (hdr ++ [0x10, 0x04, 0x02, 0x00, 0x04, 0x06, 0xfe])
    = .ok ({}, [.node { id := 1 } ⟨2, 3⟩]) := by decide +kernel

end Osmium.O5m.C03
