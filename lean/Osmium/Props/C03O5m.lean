/-
C03, o5m part — hostile o5m input never makes the decoder read outside the dataset / the
reference table, never violates a callee's precondition, and the decoder terminates.

The model (`Osmium.O5m`, transcribed from o5m_input_format.hpp as repaired by 0243f9d, 638f5ce,
d878353, 973cf14, 9d3a6e9 and f1844ef: datasets skipped by the entity filter are still decoded, their
errors are thrown and their effect on the delta counters / reference table is kept) makes every read of every decoder explicit: a read through a pointer
that stands at the dataset's `end`, or that has left its 256-byte table slot, is the outcome
`Res.oob`; a call of `set_user(const char*)` with a name of ≥ 65535 bytes is `Res.ub`.
`o5m_hostile_safe` shows: for EVERY byte string, every chunking, every entity filter and both
build modes the outcome is a list of objects or an exception — never `oob`, never `ub`.

Termination (`o5m_terminates`) is implicit: `decode` and all decoders are total Lean functions
(structural recursion on the byte list or on explicit fuel = number of bytes, each iteration
consuming at least one byte; the fuel error `Err.fuel` is one of the exceptions of the model and
never shows up in the correspondence runs).

History: before the five repairs the statement was refuted by four witnesses (user name of 65535
bytes, reference section length ≥ 2^63, bbox with an undefined unordered corner, table string
starting with ≥ 10 bytes ≥ 0x80 referenced as user); they are kept below as regression examples
(now: exceptions) and in corpus/C03/o5m_seeds.ops.
-/
import Osmium.Lemmas.O5mSafe
import Osmium.Lemmas.HostileO5m
import Osmium.Lemmas.HostileGuards

namespace Osmium.O5m.C03

open Osmium.O5m Osmium.Wire Osmium.Osm

/-- o5m file header -/
def hdr' : Bytes := [0xff, 0xe0, 0x04, 0x6f, 0x35, 0x6d, 0x32]

/-- the table invariant the decoders rely on and maintain: no slot holds more than `max_length` bytes -/
abbrev TableOk (t : Table) : Prop := SlotsOk t

/-- C03 for o5m as the property states it — ∀ byte strings b (any length), both build modes, every
    entity filter: decoding b yields objects or an exception derived from std::exception. -/
theorem o5m_hostile_safe (cfg : Cfg) (b : Bytes) :
    (∃ r, decode cfg b = .ok r) ∨ (∃ e, decode cfg b = .err e) :=
  decodeChunks_safe cfg _

/-- the same for every chunking of the input (with C06: the chunking does not matter at all) -/
theorem o5m_hostile_safe_chunks (cfg : Cfg) (cs : List Bytes) :
    (∃ r, decodeChunks cfg cs = .ok r) ∨ (∃ e, decodeChunks cfg cs = .err e) :=
  decodeChunks_safe cfg cs

/-- ∀ byte strings b: no read outside the dataset or outside a table slot. -/
theorem o5m_reads_in_bounds (cfg : Cfg) (b : Bytes) : decode cfg b ≠ .oob :=
  decodeChunks_ne_oob cfg _

/-- ∀ byte strings b: no callee precondition is violated (set_user's `strlen(user) < 65535`). -/
theorem o5m_no_ub (cfg : Cfg) (b : Bytes) (u : Ub) : decode cfg b ≠ .ub u := by
  rcases o5m_hostile_safe cfg b with ⟨r, h⟩ | ⟨e, h⟩ <;> rw [h] <;> simp

/-- … and for every single decoder, from every reachable parser state (tables built by any
    history of add/clear satisfy `TableOk`, see `o5m_table_ok`), on every payload: a value or an
    exception. -/
theorem o5m_decoders_in_bounds (cfg : Cfg) (st : St) (h : TableOk st.tab) (d : Bytes) :
    decodeNode cfg st d ≠ .oob ∧ decodeWay cfg st d ≠ .oob ∧ decodeRelation cfg st d ≠ .oob ∧
    decodeBbox d ≠ .oob ∧ decodeTimestamp d ≠ .oob ∧ decodeInfo st d ≠ .oob ∧
    decodeTags st.tab d ≠ .oob ∧
    (d ≠ [] → decodeUser st.tab d ≠ .oob ∧ decodeRole st.tab d ≠ .oob ∧ decodeString st.tab d ≠ .oob) :=
  ⟨(decodeNode_safe cfg st h d).ne_oob, (decodeWay_safe cfg st h d).ne_oob, (decodeRelation_safe cfg st h d).ne_oob,
   (decodeBbox_safe d).ne_oob, (decodeTimestamp_safe d).ne_oob, (decodeInfo_safe st h d).ne_oob,
   (decodeTags_safe st.tab h d).ne_oob,
   fun hd => ⟨(decodeUser_safe st.tab h d hd).ne_oob, (decodeRole_safe st.tab h d hd).ne_oob,
              (decodeString_safe st.tab h d hd).ne_oob⟩⟩

theorem o5m_decoders_no_ub (cfg : Cfg) (st : St) (h : TableOk st.tab) (d : Bytes) (u : Ub) :
    decodeNode cfg st d ≠ .ub u ∧ decodeWay cfg st d ≠ .ub u ∧ decodeRelation cfg st d ≠ .ub u :=
  ⟨(decodeNode_safe cfg st h d).ne_ub u, (decodeWay_safe cfg st h d).ne_ub u, (decodeRelation_safe cfg st h d).ne_ub u⟩

/-- the decoders keep the table invariant (so it holds in every reachable state) -/
theorem o5m_table_ok (cfg : Cfg) (st : St) (h : TableOk st.tab) (d : Bytes) :
    (∀ o st', decodeNode cfg st d = .ok (o, st') → TableOk st'.tab) ∧
    (∀ o st', decodeWay cfg st d = .ok (o, st') → TableOk st'.tab) ∧
    (∀ o st', decodeRelation cfg st d = .ok (o, st') → TableOk st'.tab) ∧
    TableOk st.reset.tab := by
  refine ⟨?_, ?_, ?_, h⟩
  · intro o st' e; have := decodeNode_safe cfg st h d; rw [e] at this; exact this
  · intro o st' e; have := decodeWay_safe cfg st h d; rw [e] at this; exact this
  · intro o st' e; have := decodeRelation_safe cfg st h d; rw [e] at this; exact this

/-! ### every delivered object can be traversed in bounds -/

open Osmium.HostileLayout Osmium.HostilePbf in
/-- `o5m_decoded_objects_wf` — END TO END for the o5m reader: for EVERY byte string (any chunking,
    both build modes, every entity filter), every object the decoder model delivers satisfies all
    builder `Guards`: user name, tag keys / values and roles are at most `max_osm_string_length`
    bytes (`decode_user`, `add_tag`, `add_role` throw otherwise) and contain no NUL byte BY
    CONSTRUCTION — the decoder walks each string up to its first NUL (`walkPost` / `walkPre`) and
    hands exactly that C string to the builder.  Hence the item the builders write for it
    (`HostilePbf.toObjS`: set_user, node refs / members, tags) is well-formed and its complete
    traversal stays in bounds and returns what was put in.  Premise: the item is smaller than 4 GiB
    (the builders throw std::length_error before the 32-bit size wraps: repair 2935e9f; the decoder
    model carries no size bound). -/
theorem o5m_decoded_objects_wf (cfg : Cfg) (cs : List Bytes) (h : FileHeader) (objs : List Object)
    (fill : UInt8) (fixed : Bytes) (hd : decodeChunks cfg cs = .ok (h, objs)) (o : Object) (ho : o ∈ objs)
    (hf : fixed.length = (toObjS fixed o).kind.sizeT - 8)
    (hs : objSize fill (toObjS fixed o) < 2 ^ 32) :
    Guards fill (toObjS fixed o) ∧ Layout.WF (build fill (toObjS fixed o)) = true ∧
    ∃ fields, Layout.decodeAll (build fill (toObjS fixed o)) =
      .ok [.mk (toObjS fixed o).kind.ty false fields [(toObjS fixed o).user] ((toObjS fixed o).subs.map subTree)] := by
  obtain ⟨hstr, hnc⟩ := HostileO5m.decodeChunks_objects_strings cfg cs h objs hd o ho
  have g : Guards fill (toObjS fixed o) := toObjS_guards fill fixed o hstr hnc hf hs
  exact ⟨g, (guards_wf fill _ g).1, (guards_wf fill _ g).2⟩

/-- the same for the whole file in one buffer -/
theorem o5m_decoded_objects_guards (cfg : Cfg) (b : Bytes) (h : FileHeader) (objs : List Object)
    (fill : UInt8) (fixed : Bytes) (hd : decode cfg b = .ok (h, objs)) (o : Object) (ho : o ∈ objs)
    (hf : fixed.length = (HostilePbf.toObjS fixed o).kind.sizeT - 8)
    (hs : HostileLayout.objSize fill (HostilePbf.toObjS fixed o) < 2 ^ 32) :
    HostileLayout.Guards fill (HostilePbf.toObjS fixed o) :=
  (o5m_decoded_objects_wf cfg _ h objs fill fixed hd o ho hf hs).1

/-- non-vacuity: a relation with user "u", tag k=v and a member with role "r" is delivered, and the
    premises on `fixed` and the size are satisfiable for it -/
example : ∃ o, decode {} (hdr' ++ [0x12, 0x14, 0x02, 0x01, 0x02, 0x02, 0x00, 0x02, 0x00, 0x75, 0x00, 0x05, 0x02, 0x00, 0x30, 0x72, 0x00,
        0x00, 0x6b, 0x00, 0x76, 0x00, 0xfe]) = .ok ({}, [o]) ∧
    (HostileLayout.ctorFixed .relation).length = (HostilePbf.toObjS (HostileLayout.ctorFixed .relation) o).kind.sizeT - 8 ∧
    HostileLayout.objSize 0 (HostilePbf.toObjS (HostileLayout.ctorFixed .relation) o) < 2 ^ 32 := by
  refine ⟨.relation { id := 1, version := 1, timestamp := 1, changeset := 1, uid := 2, user := [0x75], tags := [⟨[0x6b], [0x76]⟩] }
    [⟨1, 1, [0x72]⟩], ?_, ?_, ?_⟩ <;> decide +kernel

/-- the precondition of the `assert(*dataptr != end)` in decode_string / decode_user /
    decode_role is what the callers establish; without it the first read IS out of bounds
    (non-vacuity of the `oob` outcome) -/
example (t : Table) : decodeString t [] = .oob := rfl
/-- non-vacuity of the `ub` outcome: the length at which set_user() breaks -/
example (cfg : Cfg) : setUser cfg (List.replicate 65535 97) = .ub .userTooLong := by
  unfold setUser
  simp only [List.length_replicate]
  split <;> decide

/-! ### the former witnesses, now exceptions (regression examples) -/

def hdr : Bytes := [0xff, 0xe0, 0x04, 0x6f, 0x35, 0x6d, 0x32]

/-- way 1, no info, reference section length 2^64-1 -/
example : decode {} (hdr ++ [0x11, 0x0c, 0x02, 0x00, 0xff, 0xff, 0xff, 0xff, 0xff, 0xff, 0xff, 0xff, 0xff, 0x01, 0xfe])
    = .err .wayRefsTooLong := by decide +kernel

/-- bbox dataset (2147483647,0)-(0,0): bottom-left undefined, not ordered — both build modes -/
example : decode { assertions := true } (hdr ++ [0xdb, 0x08, 0xfe, 0xff, 0xff, 0xff, 0x0f, 0x00, 0x00, 0x00, 0xfe])
    = .err .invalidBbox := by decide +kernel
example : decode { assertions := false } (hdr ++ [0xdb, 0x08, 0xfe, 0xff, 0xff, 0xff, 0x0f, 0x00, 0x00, 0x00, 0xfe])
    = .err .invalidBbox := by decide +kernel

/-- non-vacuity: a valid one-node file decodes to an object -/
example : decode {} (hdr ++ [0x10, 0x04, 0x02, 0x00, 0x04, 0x06, 0xfe])
    = .ok ({}, [.node { id := 1 } ⟨2, 3⟩]) := by decide +kernel

end Osmium.O5m.C03
