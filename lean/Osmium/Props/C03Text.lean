/-
C03 (text part: OPL, XML, timestamps, coordinates, UTF-8) — the hand-written text parsers never read
past the NUL that terminates their input, and the XML reader is total over expat's events.

Memory model (Model/HostileText.lean): the C string is `s` (no NUL inside), the memory is
`s ++ 0 :: junk` with ARBITRARY `junk` behind the terminator.  `StopsAtNul f`: run on the memory, `f`
returns what it returns on `s`, with the cursor still in front of the NUL — the result does not
depend on `junk` (nothing behind the terminator is looked at) and the cursor never passes it.
The parsers are the suffix-cursor models of C13 / C14 / C01 (Model/Conv.lean, Escape.lean,
OplFmt.lean), transcribed from osm/timestamp.hpp, osm/location.hpp, io/detail/opl_parser_functions.hpp;
their correspondence to the compiled code is checked by the C13/C14/C01 harnesses and, on hostile
input, by this property's hostile tier (ASan: a read past the NUL of a heap string is reported).

Termination: every model function is total (structural recursion, or fuel = input length with the
fuel-exhausted outcome proved/observed unreachable), so the parsers terminate on every input; the
OPL reader's outer loop is driven by the input queue (environment: C06/C19).
`opl_reads_in_bounds_partial`: proved for all field parsers (integers, strings with escapes,
timestamps, coordinates) and for the line as the reader sees it (cut at its first NUL); NOT proved:
the attribute loop of `opl_parse_node/way/relation/changeset` as a cursor program (the model passes
NUL-free sections to the field parsers by `takeWhile`, which is the property rather than a proof of it).
expat is outside: `xml_reader_total` is about the reader's callbacks over ANY event sequence.
-/
import Osmium.Lemmas.HostileText
import Osmium.Lemmas.Escape
import Osmium.Model.HostileXml

namespace Osmium.HostileText.C03

open Osmium.HostileText Osmium.Conv

/-! ### timestamps -/

/-- `detail::parse_timestamp`, `Timestamp(const char*)` and `opl_parse_timestamp` never read past the
    terminator (current code: leap-year and range checks on) -/
theorem timestamp_reads_in_bounds :
    StopsAtNul parseTimestampNow ∧ IgnoresBehindNul timestampNow ∧ StopsAtNul (oplParseTimestampV true true) :=
  ⟨parseTimestampV_stops true, timestampOfStringV_ignores true true, oplParseTimestampV_stops true true⟩

/-- non-vacuity / illustration: a string that ends inside the 19-character pattern is rejected at its
    NUL whatever follows in memory (here: bytes that would complete a valid timestamp) -/
example :
    parseTimestampNow ([50, 48, 50, 48, 45, 48, 49] ++ behind [45, 48, 49, 84, 48, 48, 58, 48, 48, 58, 48, 48, 90]) =
      .error .invalidArgument := by decide

/-! ### coordinates -/

/-- `detail::string_to_location_coordinate` (value, overflow flag, cursor) never reads past the
    terminator; `Location::set_lon/set_lat(const char*)` do not depend on what follows it -/
theorem coord_reads_in_bounds (s junk : Bytes) (h : NoNul s) :
    stringToLocationCoordinate (s ++ behind junk) =
      (match stringToLocationCoordinate s with
       | .ok o => .ok { o with rest := o.rest ++ behind junk }
       | .error e => .error e) :=
  parseCoord_stops Variant.now s junk h

example : (stringToLocationCoordinate ([49, 46, 53] ++ behind [57, 57])).toOption.map (·.value) = some 15000000 := by
  decide +kernel

/-! ### UTF-8 -/

/-- `next_utf8_codepoint(&begin, end)` with `end = begin + strlen(begin)`: no read beyond the
    terminating NUL for ANY byte string (C14: `no_read_past_nul_next`; the model `Utf8.rd` makes a read
    at an offset > strlen the explicit outcome `oob`), and the OPL escaping loop built on it -/
theorem utf8_reads_in_bounds (bs : List UInt8) :
    Utf8.next bs ≠ .error .oob ∧ Opl.escape bs ≠ .error .oob :=
  ⟨Opl.next_ne_oob bs, Opl.escapeLoop_ne_oob _ bs (by omega)⟩

/-! ### OPL -/

/-- all OPL field parsers stop at the terminator: `opl_parse_int<T>` (ids, versions, uids, changesets),
    `opl_parse_string` with `opl_parse_escaped` (user names, tag keys/values, roles),
    `opl_parse_timestamp`, and the coordinate parser behind `x`/`y` fields -/
theorem opl_fields_read_in_bounds :
    (∀ tmin tmax, StopsAtNul (OplFmt.pInt tmin tmax)) ∧ StopsAtNul OplFmt.pStr ∧
    StopsAtNul OplFmt.pTs ∧ StopsAtNul OplFmt.pCoord :=
  ⟨pInt_stops, pStr_stops, pTs_stops, pCoord_stops⟩

theorem cstr_noNul (l : Bytes) : NoNul (Chunks.cstr l) := by
  induction l with
  | nil => intro b hb; cases hb
  | cons x xs ih =>
    unfold Chunks.cstr
    by_cases hx : (x == 0) = true
    · rw [if_pos hx]; intro b hb; cases hb
    · rw [if_neg hx]
      intro b hb
      rcases List.mem_cons.mp hb with rfl | hb
      · intro h0; exact hx (by simp [h0])
      · exact ih b hb

theorem cstr_behind (s junk : Bytes) (h : NoNul s) : Chunks.cstr (s ++ behind junk) = s := by
  induction s with
  | nil => simp [behind, Chunks.cstr]
  | cons x xs ih =>
    have hx : x ≠ 0 := h x (List.mem_cons_self ..)
    have hx' : (x == 0) = false := by simpa using hx
    simp only [List.cons_append, Chunks.cstr, hx']
    simp only [Bool.false_eq_true, if_false, List.cons.injEq, true_and]
    exact ih (fun b hb => h b (List.mem_cons_of_mem _ hb))

/-- `opl_reads_in_bounds` as far as it is proved: (1) every field parser stops at the terminator;
    (2) the line parser is a function of the line up to its first NUL: whatever lies behind the NUL
    in the input buffer (the rest of the 1 MiB block, the next lines) cannot influence the parse of
    this line, and the string it works on is NUL-free, which is the hypothesis of (1). -/
theorem opl_reads_in_bounds_partial :
    ((∀ tmin tmax, StopsAtNul (OplFmt.pInt tmin tmax)) ∧ StopsAtNul OplFmt.pStr ∧
      StopsAtNul OplFmt.pTs ∧ StopsAtNul OplFmt.pCoord) ∧
    (∀ (types : OplFmt.Types) (s junk : Bytes), NoNul s →
      OplFmt.parseLines types [s ++ behind junk |> Chunks.cstr] = OplFmt.parseLines types [s]) ∧
    (∀ l : Bytes, NoNul (Chunks.cstr l)) := by
  refine ⟨opl_fields_read_in_bounds, ?_, cstr_noNul⟩
  intro types s junk h
  rw [cstr_behind s junk h]

/-! ### XML -/

open Osmium.XmlFmt in
/-- For EVERY event sequence expat may deliver (any element names, attributes, nesting, character
    data) the reader model returns a header with objects, or one of its six exception classes
    (xml_error, format_version_error, range_error, invalid_argument, invalid_location, length_error —
    all derived from std::exception).  It is total: no event sequence makes it diverge or get stuck. -/
theorem xml_reader_total (types : OplFmt.Types) (evs : List Ev) :
    (∃ h objs, read types evs = .ok (h, objs)) ∨ (∃ e, read types evs = .error e) := by
  cases hr : read types evs with
  | ok p => exact Or.inl ⟨p.1, p.2, rfl⟩
  | error e => exact Or.inr ⟨e, rfl⟩

open Osmium.XmlFmt Osmium.HostileXml in
/-- F13b in the model of the reader's builder calls: `<comment …/>` without `<text>` inside a
    committed changeset is a violation of the ChangesetDiscussionBuilder protocol (NDEBUG: unpadded
    comment, `f13b_comment_without_text_traverse_oob` in C03Layout; otherwise a failed assertion) … -/
theorem f13b_xml_comment_without_text :
    monitor {} [.start "osm" [("version", [48, 46, 54])], .start "changeset" [("id", [49])], .start "discussion" [],
                .start "comment" [("uid", [49]), ("user", [117])], .stop "comment", .stop "discussion",
                .stop "changeset", .stop "osm"] = some .commentWithoutText := by
  decide +kernel

open Osmium.XmlFmt Osmium.HostileXml in
/-- … while the reader model itself (what is built, not how) accepts the document -/
theorem f13b_xml_reader_accepts :
    (read {} [.start "osm" [("version", [48, 46, 54])], .start "changeset" [("id", [49])], .start "discussion" [],
              .start "comment" [("uid", [49]), ("user", [117])], .stop "comment", .stop "discussion",
              .stop "changeset", .stop "osm"]).toOption.isSome = true := by
  decide +kernel

open Osmium.XmlFmt Osmium.HostileXml in
/-- a second `<text>` in one `<comment>`: `add_comment_text` without a pending comment -/
theorem xml_two_texts_misuse :
    monitor {} [.start "osm" [("version", [48, 46, 54])], .start "changeset" [("id", [49])], .start "discussion" [],
                .start "comment" [("uid", [49])], .start "text" [], .stop "text", .start "text" [], .stop "text",
                .stop "comment", .stop "discussion", .stop "changeset", .stop "osm"] = some .textWithoutComment := by
  decide +kernel

open Osmium.XmlFmt Osmium.HostileXml in
/-- F13c: a `user` attribute of 65535 bytes on a node: user_size wraps to 0 in every build -/
theorem f13c_xml_user_too_long :
    monitor {} [.start "osm" [("version", [48, 46, 54])],
                .start "node" [("id", [49]), ("user", List.replicate 65535 117)], .stop "node", .stop "osm"] =
      some (.userTooLong true) := by
  decide +kernel

open Osmium.XmlFmt Osmium.HostileXml in
/-- the well-formed discussion raises nothing (non-vacuity of the monitor) -/
example :
    monitor {} [.start "osm" [("version", [48, 46, 54])], .start "changeset" [("id", [49])], .start "discussion" [],
                .start "comment" [("uid", [49]), ("user", [117])], .start "text" [], .chars [116], .stop "text",
                .stop "comment", .stop "discussion", .stop "changeset", .stop "osm"] = none := by
  decide +kernel

end Osmium.HostileText.C03
