/-
C03 (text part: OPL, XML, timestamps, coordinates, UTF-8) — the hand-written text parsers never read
past the NUL that terminates their input, and the XML reader is total over expat's events.

Memory model (Model/HostileText.lean): the C string is `s` (no NUL inside), the memory is
`s ++ 0 :: junk` with ARBITRARY `junk` behind the terminator.  `StopsAtNul f`: run on the memory, `f`
returns what it returns on `s`, with the cursor still in front of the NUL — the result does not
depend on `junk` (nothing behind the terminator is looked at) and the cursor never passes it.
The parsers are the suffix-cursor models of C13 / C14 / C01 (Model/Conv.lean, Escape.lean,
OplFmt.lean), transcribed from osm/timestamp.hpp, osm/location.hpp, io/detail/opl_parser_functions.hpp;
their correspondence to the compiled code is checked by the C13/C14/C01 harnesses and, on hostile
input, by this property's hostile tier (ASan: a read past the NUL of a heap string is reported).

Termination: every model function is total (structural recursion, or fuel = input length with the
fuel-exhausted outcome proved/observed unreachable), so the parsers terminate on every input; the
OPL reader's outer loop is driven by the input queue (environment: C06/C19).
`opl_reads_in_bounds` (FULL): the attribute loops of `opl_parse_node/way/relation/changeset`, the tag /
way-node / member loops with their end pointers and `opl_parse_line` are a cursor program over the
memory (Model/HostileOpl.lean); run on `s ++ 0 :: junk` it computes what it computes on `s`.
`opl_decoded_objects_wf`, `xml_decoded_objects_wf`: every object the OPL / XML reader model delivers
satisfies the builders' `Guards` and is traversed completely in bounds.
expat is outside: `xml_reader_total` is about the reader's callbacks over ANY event sequence.
-/
import Osmium.Lemmas.HostileText
import Osmium.Lemmas.Escape
import Osmium.Lemmas.HostileXmlUser
import Osmium.Lemmas.HostileReadersOpl
import Osmium.Lemmas.HostileReadersXml
import Osmium.Lemmas.HostileOpl
import Osmium.Generated.Src
import Osmium.Lemmas.SrcTieOplSmall

namespace Osmium.HostileText.C03

open Osmium.HostileText Osmium.Conv

/-! ### timestamps -/

/-- `detail::parse_timestamp`, `Timestamp(const char*)` and `opl_parse_timestamp` never read past the
    terminator (current code: leap-year and range checks on) -/
theorem timestamp_reads_in_bounds :
    StopsAtNul parseTimestampNow ∧ IgnoresBehindNul timestampNow ∧ StopsAtNul (oplParseTimestampV true true) :=
  ⟨parseTimestampV_stops true, timestampOfStringV_ignores true true, oplParseTimestampV_stops true true⟩

/-- non-vacuity / illustration: a string that ends inside the 19-character pattern is rejected at its
    NUL whatever follows in memory (here: bytes that would complete a valid timestamp) -/
example :
    parseTimestampNow ([50, 48, 50, 48, 45, 48, 49] ++ behind [45, 48, 49, 84, 48, 48, 58, 48, 48, 58, 48, 48, 90]) =
      .error .invalidArgument := by decide

/-! ### coordinates -/

/-- `detail::string_to_location_coordinate` (value, overflow flag, cursor) never reads past the
    terminator; `Location::set_lon/set_lat(const char*)` do not depend on what follows it -/
theorem coord_reads_in_bounds (s junk : Bytes) (h : NoNul s) :
    stringToLocationCoordinate (s ++ behind junk) =
      (match stringToLocationCoordinate s with
       | .ok o => .ok { o with rest := o.rest ++ behind junk }
       | .error e => .error e) :=
  parseCoord_stops Variant.now s junk h

example : (stringToLocationCoordinate ([49, 46, 53] ++ behind [57, 57])).toOption.map (·.value) = some 15000000 := by
  decide +kernel

/-! ### UTF-8 -/

/-- `next_utf8_codepoint(&begin, end)` with `end = begin + strlen(begin)`: no read beyond the
    terminating NUL for ANY byte string (C14: `no_read_past_nul_next`; the model `Utf8.rd` makes a read
    at an offset > strlen the explicit outcome `oob`), and the OPL escaping loop built on it -/
theorem utf8_reads_in_bounds (bs : List UInt8) :
    Utf8.next bs ≠ .error .oob ∧ Opl.escape bs ≠ .error .oob :=
  ⟨Opl.next_ne_oob bs, Opl.escapeLoop_ne_oob _ bs (by omega)⟩

/-! ### OPL -/

/-- all OPL field parsers stop at the terminator: `opl_parse_int<T>` (ids, versions, uids, changesets),
    `opl_parse_string` with `opl_parse_escaped` (user names, tag keys/values, roles),
    `opl_parse_timestamp`, and the coordinate parser behind `x`/`y` fields -/
theorem opl_fields_read_in_bounds :
    (∀ tmin tmax, StopsAtNul (OplFmt.pInt tmin tmax)) ∧ StopsAtNul OplFmt.pStr ∧
    StopsAtNul OplFmt.pTs ∧ StopsAtNul OplFmt.pCoord :=
  ⟨pInt_stops, pStr_stops, pTs_stops, pCoord_stops⟩

/-- the line as the reader hands it to `opl_parse_line` is a C string: whatever lies behind the first
    NUL of a line in the input buffer (the rest of the 1 MiB block, the next lines) is not part of
    it, and the string the abstract line parser `OplFmt.parseLine` works on is NUL-free — the
    hypothesis of `opl_reads_in_bounds` -/
theorem opl_line_is_c_string :
    (∀ (types : OplFmt.Types) (s junk : Bytes), NoNul s →
      OplFmt.parseLines types [s ++ behind junk |> Chunks.cstr] = OplFmt.parseLines types [s]) ∧
    (∀ l : Bytes, NoNul (Chunks.cstr l)) := by
  refine ⟨?_, cstr_noNul⟩
  intro types s junk h
  rw [cstr_behind s junk h]

/-- `opl_reads_in_bounds` (FULL).  `HostileOpl.parseLineF` is `opl_parse_line` with `opl_parse_node` /
    `opl_parse_way` / `opl_parse_relation` / `opl_parse_changeset` transcribed as a CURSOR PROGRAM over
    the memory that holds the line (Model/HostileOpl.lean): the `while (**data)` loop with
    `opl_parse_space`, the dispatch on the attribute character, the duplicate-attribute errors, the
    sections T / N / M remembered as begin / end POINTERS and parsed after the loop
    (`opl_parse_tags`, `opl_parse_way_nodes`, `opl_parse_relation_members` with their `s == e` /
    `s < e` pointer comparisons), every read a `peek` at the cursor.  For EVERY NUL-free line `s`,
    EVERY content `junk` of the memory behind its terminating NUL, every entity filter and every
    fuel: run on the memory `s ++ 0 :: junk` the program computes exactly what it computes on `s`
    alone — nothing behind the terminator is looked at, no cursor passes it (all field parsers stop
    in front of it: `opl_fields_read_in_bounds`; all stored pointers lie in front of it:
    `opl_attribute_loop_pointers_before_nul`).  Also for the self-fuelled `parseLineCur`, and: two
    memories holding the same line give the same result.  (That the cursor program delivers the same
    objects as the abstract `OplFmt.parseLine` is checked on every run — model_c03 `oplcur` on every
    line of the hostile tier — not proved: it needs "leaf parsers stop at space / tab".) -/
theorem opl_reads_in_bounds (types : OplFmt.Types) (s junk : Bytes) (h : NoNul s) :
    (∀ F, HostileOpl.parseLineF F types (s ++ behind junk) = HostileOpl.parseLineF F types s) ∧
    HostileOpl.parseLineCur types (s ++ behind junk) =
      HostileOpl.parseLineF ((s ++ behind junk).length + 16) types s ∧
    (∀ junk' : Bytes, junk.length = junk'.length →
      HostileOpl.parseLineCur types (s ++ behind junk) = HostileOpl.parseLineCur types (s ++ behind junk')) :=
  ⟨fun F => HostileOpl.parseLineF_mem F types s junk h, HostileOpl.parseLineCur_mem types s junk h,
   fun junk' hl => HostileOpl.parseLineCur_junk_irrelevant types s junk junk' h hl⟩

/-- non-vacuity / illustration: the line "w1 Nn1" with ",n2 Ta=b" behind its NUL — bytes that would
    continue the node list and add a tag if the terminator were passed — is the way with the single
    node 1 -/
example :
    HostileOpl.parseLineCur {} ([0x77, 0x31, 0x20, 0x4e, 0x6e, 0x31] ++ behind [0x2c, 0x6e, 0x32, 0x20, 0x54, 0x61, 0x3d, 0x62]) =
      .ok (some (.way { id := 1 } [⟨1, Osm.Location.undefined⟩])) := by rfl

/-- the simulation behind it, for the attribute loops: started in corresponding states (`liftObjSt` /
    `liftCsSt` append `0 :: junk` to every stored pointer) on the line and on the memory, the loop
    ends in corresponding states — every pointer it stores on the memory (`tags_begin`,
    `nodes_begin` / `nodes_end`, `members_begin` / `members_end`) is the pointer it stores on the
    line, i.e. lies in front of the NUL -/
theorem opl_attribute_loop_pointers_before_nul (junk : Bytes) (F : Nat) (s : Bytes) (hn : NoNul s) :
    (∀ (k : OplFmt.Kind) (st : HostileOpl.ObjStC), HostileOpl.ObjInv st →
      HostileOpl.attrLoopC (HostileOpl.objFieldC k) F (HostileOpl.liftObjSt junk st) (s ++ behind junk) =
        HostileOpl.mapOk (HostileOpl.liftObjSt junk) (HostileOpl.attrLoopC (HostileOpl.objFieldC k) F st s)) ∧
    (∀ (st : HostileOpl.CsStC), HostileOpl.CsInv st →
      HostileOpl.attrLoopC HostileOpl.csFieldC F (HostileOpl.liftCsSt junk st) (s ++ behind junk) =
        HostileOpl.mapOk (HostileOpl.liftCsSt junk) (HostileOpl.attrLoopC HostileOpl.csFieldC F st s)) :=
  ⟨fun k st hinv => (HostileOpl.attrLoopC_mem (fun junk st c s hn hinv => HostileOpl.objFieldC_ok k junk st c s hn hinv)
      junk F st s hn hinv).1,
   fun st hinv => (HostileOpl.attrLoopC_mem (fun junk st c s hn hinv => HostileOpl.csFieldC_ok junk st c s hn hinv)
      junk F st s hn hinv).1⟩

/-- the model driver's `rd opl` (Driver/Text.lean) splits lines with linear-time functions; they are
    the specification's: what the driver computes IS `OplFmt.parseFile` -/
theorem opl_driver_lines_eq (types : OplFmt.Types) (bs : Bytes) :
    OplFmt.parseLines types ((specLinesFast bs).map fun l => cstrFast l []) = OplFmt.parseFile types bs := by
  unfold OplFmt.parseFile
  rw [specLinesFast_eq]
  congr 1
  apply List.map_congr_left
  intro l _
  rw [cstrFast_eq]; rfl

/-- F13c at full strength for OPL (repair bc6b907): the user name of EVERY object the OPL line
    parser delivers — for any line, any entity filter — is at most `max_osm_string_length` bytes, so
    `set_user` never sees a name that its 16-bit size field cannot hold. -/
theorem opl_user_length_checked (types : OplFmt.Types) (line : Bytes) (o : Osm.Object)
    (h : OplFmt.parseLine types line = .ok (some o)) : (HostileXml.objUser o).length ≤ 1024 := by
  have hobj : ∀ k s o, OplFmt.pObject k s = .ok o → (HostileXml.objUser o).length ≤ 1024 := by
    intro k s o h
    unfold OplFmt.pObject at h
    rw [bindE_ok_iff] at h; obtain ⟨⟨id, s1⟩, _, h⟩ := h
    rw [bindE_ok_iff] at h; obtain ⟨st, _, h⟩ := h
    rw [bindE_ok_iff] at h; obtain ⟨u, hu, h⟩ := h
    rw [bindE_ok_iff] at h; obtain ⟨tags, _, h⟩ := h
    have hl := setUserCheck_ok _ hu
    cases k with
    | node => simp only at h; injection h with h; subst h; exact hl
    | way =>
      simp only at h
      rw [bindE_ok_iff] at h; obtain ⟨ns, _, h⟩ := h
      injection h with h; subst h; exact hl
    | relation =>
      simp only at h
      rw [bindE_ok_iff] at h; obtain ⟨ms, _, h⟩ := h
      injection h with h; subst h; exact hl
  have hcs : ∀ s o, OplFmt.pChangeset s = .ok o → (HostileXml.objUser o).length ≤ 1024 := by
    intro s o h
    unfold OplFmt.pChangeset at h
    rw [bindE_ok_iff] at h; obtain ⟨⟨id, s1⟩, _, h⟩ := h
    rw [bindE_ok_iff] at h; obtain ⟨st, _, h⟩ := h
    rw [bindE_ok_iff] at h; obtain ⟨u, hu, h⟩ := h
    rw [bindE_ok_iff] at h; obtain ⟨tags, _, h⟩ := h
    injection h with h; subst h
    exact setUserCheck_ok _ hu
  have hsome : ∀ (x : Except OplFmt.PErr Osm.Object), (TextFmt.bindE x fun o => .ok (some o)) = .ok (some o) → x = .ok o := by
    intro x hx
    rw [bindE_ok_iff] at hx
    obtain ⟨a, ha, hx⟩ := hx
    injection hx with hx; injection hx with hx; subst hx; exact ha
  unfold OplFmt.parseLine at h
  split at h
  · cases h
  · split at h
    · cases h
    · split at h
      · split at h
        · exact hobj _ _ _ (hsome _ h)
        · cases h
      · split at h
        · split at h
          · exact hobj _ _ _ (hsome _ h)
          · cases h
        · split at h
          · split at h
            · exact hobj _ _ _ (hsome _ h)
            · cases h
          · split at h
            · split at h
              · exact hcs _ _ (hsome _ h)
              · cases h
            · cases h

/-! ### OPL: every delivered object can be traversed in bounds -/

section
open Osmium.HostileLayout Osmium.HostileReaders

/-- `opl_decoded_objects_wf` — END TO END for the OPL reader: for EVERY line (any bytes) and entity
    filter, the object `opl_parse_line` delivers satisfies all builder `Guards`: user name
    (`set_user`, repair bc6b907), tag keys / values (`add_tag`) and roles (`add_member`) are at most
    `max_osm_string_length` bytes, and no string contains a NUL byte BY CONSTRUCTION —
    `opl_parse_string` appends only bytes in front of the next NUL / separator and the UTF-8
    encodings of `%hex%` escapes, and the escape value 0 yields '%' (`parseLine_ok`).  Hence the item
    the builders write for it (`oplObjS`: set_user, tags, then node refs / members) is well-formed
    and its complete traversal stays in bounds and returns what was put in.  Premise: item < 4 GiB
    (the builders throw std::length_error before the 32-bit size wraps: repair 2935e9f). -/
theorem opl_decoded_objects_wf (types : OplFmt.Types) (line : Bytes) (o : Osm.Object) (fill : UInt8) (fixed : Bytes)
    (h : OplFmt.parseLine types line = .ok (some o))
    (hf : fixed.length = (oplObjS fixed o).kind.sizeT - 8)
    (hs : objSize fill (oplObjS fixed o) < 2 ^ 32) :
    Guards fill (oplObjS fixed o) ∧ Layout.WF (build fill (oplObjS fixed o)) = true ∧
    ∃ fields, Layout.decodeAll (build fill (oplObjS fixed o)) =
      .ok [.mk (oplObjS fixed o).kind.ty false fields [(oplObjS fixed o).user] ((oplObjS fixed o).subs.map subTree)] := by
  have g : Guards fill (oplObjS fixed o) := oplObjS_guards fill fixed o (parseLine_ok types line o h).1 hf hs
  exact ⟨g, (guards_wf fill _ g).1, (guards_wf fill _ g).2⟩

/-- "r5 ubob Ta=b Mn1@x%0%y": a relation with user "bob", tag a=b and a member whose role is written
    with the escape `%0%` — the reader delivers the role "x%y" (no NUL byte) -/
def oplExampleLine : Bytes :=
  [0x72, 0x35, 0x20, 0x75, 0x62, 0x6f, 0x62, 0x20, 0x54, 0x61, 0x3d, 0x62, 0x20, 0x4d, 0x6e, 0x31, 0x40, 0x78, 0x25, 0x30, 0x25, 0x79]

/-- non-vacuity -/
example : ∃ o, OplFmt.parseLine {} oplExampleLine = .ok (some o) ∧
    (ctorFixed .relation).length = (oplObjS (ctorFixed .relation) o).kind.sizeT - 8 ∧
    objSize 0 (oplObjS (ctorFixed .relation) o) < 2 ^ 32 := by
  refine ⟨.relation { id := 5, user := [0x62, 0x6f, 0x62], tags := [⟨[0x61], [0x62]⟩] } [⟨1, 1, [0x78, 0x25, 0x79]⟩], ?_, ?_, ?_⟩ <;>
    decide +kernel

end

/-! ### XML -/

open Osmium.XmlFmt in
/-- For EVERY event sequence expat may deliver (any element names, attributes, nesting, character
    data) the reader model returns a header with objects, or one of its six exception classes
    (xml_error, format_version_error, range_error, invalid_argument, invalid_location, length_error —
    all derived from std::exception).  It is total: no event sequence makes it diverge or get stuck. -/
theorem xml_reader_total (types : OplFmt.Types) (evs : List Ev) :
    (∃ h objs, read types evs = .ok (h, objs)) ∨ (∃ e, read types evs = .error e) := by
  cases hr : read types evs with
  | ok p => exact Or.inl ⟨p.1, p.2, rfl⟩
  | error e => exact Or.inr ⟨e, rfl⟩

/-! ### XML: discussion builder protocol and user-name length (repairs 5690f83, bc6b907) -/

section
open Osmium.XmlFmt Osmium.HostileXml

def evOsm : Ev := .start "osm" [("version", [48, 46, 54])]
def evCs : Ev := .start "changeset" [("id", [49])]

/-- `<comment …/>` without `<text>` -/
def docCommentWithoutText : List Ev :=
  [evOsm, evCs, .start "discussion" [], .start "comment" [("uid", [49]), ("user", [117])], .stop "comment",
   .stop "discussion", .stop "changeset", .stop "osm"]

/-- two `<text>` in one `<comment>` -/
def docTwoTexts : List Ev :=
  [evOsm, evCs, .start "discussion" [], .start "comment" [("uid", [49])], .start "text" [], .stop "text",
   .start "text" [], .stop "text", .stop "comment", .stop "discussion", .stop "changeset", .stop "osm"]

/-- an unknown element inside an open `<comment>` (error while a comment is pending) -/
def docErrorInComment : List Ev :=
  [evOsm, evCs, .start "discussion" [], .start "comment" [("uid", [49])], .start "foo" []]

/-- THE FULL STATEMENT for the discussion builder (since repair 5690f83): for EVERY event sequence
    expat may deliver and EVERY entity filter, the reader's calls of the ChangesetDiscussionBuilder
    keep its (only asserted) protocol — `add_comment` never while a comment is pending,
    `add_comment_text` only for a pending comment, no call through the null builder pointer; an
    exception or the end of the input while a comment is pending is handled by the destructors.
    (Before the repair: refuted by the three witnesses of `f13b_prefix_witnesses`.) -/
theorem xml_reader_keeps_builder_protocol (types : OplFmt.Types) (evs : List Ev) :
    monitor types evs = none :=
  monitor_none types evs

/-- the invariant behind it, for any prefix of the run: the builder's pending flag IS the reader's
    `m_comment_pending`, a comment is pending only inside `<comment>` / `<text>`, and inside
    `<discussion>` the builder exists -/
theorem xml_reader_builder_invariant (types : OplFmt.Types) (st : RSt) (p : Proto) (e : Ev) (st' : RSt)
    (hi : Inv types st p) (hs : stepEv types st e = .ok st') :
    ∃ p', protoStep types st p e = .ok p' ∧ Inv types st' p' :=
  step_inv types st p e st' hi hs

/-- F13c at full strength for XML (repair bc6b907): the user name of EVERY object the XML reader
    delivers — for any event sequence, any entity filter — is at most `max_osm_string_length`
    bytes (`set_user` throws std::length_error otherwise: `initObject`, `initChangesetAttrs`), so the
    16-bit user_size field cannot wrap.  (Before the repair: `f13c_user_size_zero_traverse_oob`.) -/
theorem xml_user_length_checked (types : OplFmt.Types) (evs : List Ev) (h : Osm.Header) (objs : List Osm.Object)
    (hr : XmlFmt.read types evs = .ok (h, objs)) : ∀ o ∈ objs, (HostileXml.objUser o).length ≤ 1024 :=
  read_user_ok types evs h objs hr

/-! ### XML: every delivered object can be traversed in bounds -/

section
open Osmium.HostileLayout Osmium.HostileReaders

/-- the recorded builder states (`HostileReaders.delivered`: `runEvents` with the `Cur` of every
    object noted at its `commit()`) are exactly the objects the reader model returns, each seen
    through the accessors (`assemble`), and both throw for the same event sequences -/
theorem xml_delivered_are_read_objects (types : OplFmt.Types) (evs : List Ev) :
    (∀ e, XmlFmt.read types evs = .error e → delivered types evs = .error e) ∧
    (∀ h objs, XmlFmt.read types evs = .ok (h, objs) → ∃ cs, delivered types evs = .ok cs ∧ objs = cs.map assemble) :=
  delivered_assemble types evs

/-- `xml_decoded_objects_wf` — END TO END for the XML reader: for EVERY event sequence expat may
    deliver (any element names, nesting, attributes, character data) and every entity filter, every
    object the reader commits satisfies all builder `Guards`.  The callbacks receive attribute values
    as `const XML_Char*` C strings: what reaches `set_user` / `add_tag` / `add_member` / `add_comment`
    is the value UP TO ITS FIRST NUL (`cEv`), hence NUL-free BY CONSTRUCTION; lengths: `set_user`
    (repair bc6b907), `add_tag`, `add_member`, `add_comment` throw std::length_error beyond
    `max_osm_string_length`; the discussion protocol is kept (`xml_reader_keeps_builder_protocol`),
    every comment has its text.  Blocks are created in DOCUMENT order, possibly several of one type
    (`xmlObjS` follows `Cur.subs`).  Hence the item the builders write is well-formed and its complete
    traversal stays in bounds and returns what was put in.
    Premises: character data without NUL (`CharsNoNul`: XML 1.0 has no NUL character, a conforming
    parser never reports one — the only premise about expat; it is needed for the exact read-back of
    comment texts, which are delimited by their size field); item < 4 GiB (repair 2935e9f). -/
theorem xml_decoded_objects_wf (types : OplFmt.Types) (evs : List Ev) (cs : List Cur) (fill : UInt8) (fixed : Bytes)
    (hch : CharsNoNul evs) (h : delivered types (evs.map cEv) = .ok cs) (c : Cur) (hc : c ∈ cs)
    (hf : fixed.length = (xmlObjS fixed c).kind.sizeT - 8)
    (hs : objSize fill (xmlObjS fixed c) < 2 ^ 32) :
    Guards fill (xmlObjS fixed c) ∧ Layout.WF (build fill (xmlObjS fixed c)) = true ∧
    ∃ fields, Layout.decodeAll (build fill (xmlObjS fixed c)) =
      .ok [.mk (xmlObjS fixed c).kind.ty false fields [(xmlObjS fixed c).user] ((xmlObjS fixed c).subs.map subTree)] := by
  have hok := delivered_ok types _ cs h (cEv_NN evs hch) c hc
  have g : Guards fill (xmlObjS fixed c) := xmlObjS_guards fill fixed c hok hf hs
  exact ⟨g, (guards_wf fill _ g).1, (guards_wf fill _ g).2⟩

/-- a way whose `user` attribute holds a NUL byte in expat's memory (impossible for a conforming
    parser, harmless for the reader: it sees the C string "u"), with <nd>, <tag>, <nd> in this order:
    THREE blocks (node refs, tags, node refs) -/
def xmlExampleDoc : List Ev :=
  [evOsm, .start "way" [("id", [49]), ("user", [117, 0, 120])], .start "nd" [("ref", [49])], .stop "nd",
   .start "tag" [("k", [107]), ("v", [118])], .stop "tag", .start "nd" [("ref", [50])], .stop "nd", .stop "way", .stop "osm"]

/-- non-vacuity: the document is delivered as one way with user "u" and three blocks; the premises
    are satisfiable for it -/
example : CharsNoNul xmlExampleDoc ∧
    ∃ c, delivered {} (xmlExampleDoc.map cEv) = .ok [c] ∧ curUser c = [117] ∧ c.subs.length = 3 ∧
      (ctorFixed .way).length = (xmlObjS (ctorFixed .way) c).kind.sizeT - 8 ∧
      objSize 0 (xmlObjS (ctorFixed .way) c) < 2 ^ 32 := by
  refine ⟨fun t ht => by simp [xmlExampleDoc, evOsm] at ht, ?_⟩
  refine ⟨{ obj := .way { id := 1, user := [117] } [],
            subs := [.nodes [⟨1, Osm.Location.undefined⟩], .tags [⟨[107], [118]⟩], .nodes [⟨2, Osm.Location.undefined⟩]],
            lastOpen := true }, ?_, ?_, ?_, ?_, ?_⟩ <;> decide +kernel

end

/-- non-vacuity of the monitor: a protocol state that is NOT reachable (comment pending at
    <discussion> level) makes the next <comment> a misuse -/
example : protoStep {} { stack := [.discussion, .changeset, .osm] } { present := true, pending := true }
    (.start "comment" []) = .error .commentWhilePending := by decide

/-- F13b NOW: the comment gets an empty text (`add_comment_text("")` at `</comment>`), the builder
    protocol is kept, the changeset is delivered with that comment … -/
theorem f13b_xml_comment_without_text_now :
    monitor {} docCommentWithoutText = none ∧
    read {} docCommentWithoutText =
      .ok ({}, [.changeset 1 0 0 0 0 0 [] Osm.Location.undefined Osm.Location.undefined [] [⟨0, 1, [117], []⟩]]) := by
  decide +kernel

/-- … a second `<text>` is an xml_error, and an error inside an open comment is just that error
    (the builder's destructor finishes the pending comment) -/
theorem xml_two_texts_now : monitor {} docTwoTexts = none ∧ read {} docTwoTexts = .error .xml := by
  decide +kernel

theorem xml_error_in_open_comment_now :
    monitor {} docErrorInComment = none ∧ read {} docErrorInComment = .error .xml := by
  decide +kernel

/-- BEFORE repair 5690f83 (regression documentation; the three inputs are replayed on the real
    Reader by the hostile tier, corpus/C03/xml_findings.ops): each of them drove the builder out
    of its protocol -/
theorem f13b_prefix_witnesses :
    Pre.monitor {} docCommentWithoutText = some .commentWithoutText ∧
    Pre.monitor {} docTwoTexts = some .textWithoutComment ∧
    Pre.monitor {} docErrorInComment = some .pendingAtDestruction := by
  decide +kernel

/-- F13c NOW (repair bc6b907): a `user` attribute longer than `max_osm_string_length` is a
    std::length_error — on a node, on a changeset and on a discussion comment; 1024 bytes pass
    (the 65535-byte inputs of the finding are replayed on the real Reader by the hostile tier).
    (Before: assertion, or with NDEBUG truncation to 16 bits — 65535 bytes wrapped user_size to 0,
    `f13c_user_size_zero_traverse_oob` in Props/C03Layout.lean.) -/
theorem f13c_xml_user_too_long_now :
    read {} [evOsm, .start "node" [("id", [49]), ("user", List.replicate 1025 117)], .stop "node", .stop "osm"]
      = .error .length ∧
    read {} [evOsm, .start "changeset" [("id", [49]), ("user", List.replicate 1025 117)], .stop "changeset", .stop "osm"]
      = .error .length ∧
    read {} [evOsm, evCs, .start "discussion" [], .start "comment" [("user", List.replicate 1025 117)]]
      = .error .length ∧
    (read {} [evOsm, .start "node" [("id", [49]), ("user", List.replicate 1024 117)], .stop "node", .stop "osm"]).toOption.isSome
      = true := by
  decide +kernel

/-- the same guard in the OPL reader: `builder.set_user(user)` after the attribute loop -/
theorem f13c_opl_user_too_long_now :
    OplFmt.parseLine {} ([0x6e, 0x31, 0x20, 0x75] ++ List.replicate 1025 117) = .error .length ∧
    OplFmt.parseLine {} ([0x63, 0x31, 0x20, 0x75] ++ List.replicate 1025 117) = .error .length ∧
    (OplFmt.parseLine {} ([0x6e, 0x31, 0x20, 0x75] ++ List.replicate 1024 117)).toOption.isSome = true := by
  decide +kernel

/-- the well-formed discussion raises nothing (non-vacuity of the monitors) -/
example :
    monitor {} [evOsm, evCs, .start "discussion" [],
                .start "comment" [("uid", [49]), ("user", [117])], .start "text" [], .chars [116], .stop "text",
                .stop "comment", .stop "discussion", .stop "changeset", .stop "osm"] = none ∧
    Pre.monitor {} [evOsm, evCs, .start "discussion" [],
                .start "comment" [("uid", [49]), ("user", [117])], .start "text" [], .chars [116], .stop "text",
                .stop "comment", .stop "discussion", .stop "changeset", .stop "osm"] = none := by
  decide +kernel

end

/-! ## Source ties: translated C++ = model

`tools/cxx2lean.py` regenerates `Osmium/Generated/Src.lean` from /repo's source on every run; the theorems below state
that the TRANSLATED small cursor functions of the OPL reader (io/detail/opl_parser_functions.hpp) are the model functions
the theorems above are about — for EVERY NUL-terminated byte string (the array is `s ++ 0 :: t`, the cursor the index
`i ≤ s.length`, the model's input `s.drop i`) — and that they have no undefined behaviour (`_defined`: every read at or
before the NUL, every pointer inside the array).  Lemmas: Lemmas/SrcTieOplSmall.lean.  (`opl_parse_int`,
`opl_parse_escaped`, `opl_parse_string`: Props/C13.lean, C14.lean.) -/
section SrcTies
open Osmium.Generated Osmium.CxxSem Osmium.Cursor

/-- `opl_non_empty(s)` = `nonEmptyB` of the byte under the cursor (the NUL at the end counts as empty) -/
theorem src_tie_opl_non_empty (s t : List UInt8) (i : Nat) (hi : i ≤ s.length) :
    Src.OplParserFunctions.opl_non_empty (s ++ 0 :: t) (i : Int) = OplFmt.nonEmptyB (peek (s.drop i)) ∧
    Src.OplParserFunctions.opl_non_empty_defined (s ++ 0 :: t) (i : Int) = true :=
  SrcTie.OplSmall.src_tie_opl_non_empty s t i hi

/-- `opl_parse_visible(&s)` = `pVisible`: 'V' / 'D' consumed, anything else (the NUL included) is `opl_error` with the
    cursor left alone -/
theorem src_tie_opl_parse_visible (s t : List UInt8) (i : Nat) (hi : i ≤ s.length) :
    Src.OplParserFunctions.opl_parse_visible (s ++ 0 :: t) (i : Int) =
      (match OplFmt.pVisible (s.drop i) with
       | .ok (b, _) => .normal ((i + 1 : Nat) : Int) b
       | .error _ => .thrown "osmium::opl_error" (i : Int)) ∧
    (∀ b rest, OplFmt.pVisible (s.drop i) = .ok (b, rest) → i < s.length ∧ rest = s.drop (i + 1)) ∧
    Src.OplParserFunctions.opl_parse_visible_defined (s ++ 0 :: t) (i : Int) = true := by
  obtain ⟨h1, h2, h3⟩ := SrcTie.OplSmall.src_tie_opl_parse_visible s t i hi
  refine ⟨?_, h2, h3⟩
  rw [h1]
  cases OplFmt.pVisible (s.drop i) with
  | ok p => rfl
  | error e => rfl

/-- `opl_parse_char(&s, c)` = `pChar c` for every expected character other than NUL (the callers pass '=', ',', '@', …;
    with `c = '\0'` the C++ function would step over the terminating NUL) -/
theorem src_tie_opl_parse_char (s t : List UInt8) (i : Nat) (hi : i ≤ s.length) (c : UInt8) (hc : c ≠ 0) :
    Src.OplParserFunctions.opl_parse_char (s ++ 0 :: t) (i : Int) (sc c) =
      (match OplFmt.pChar c (s.drop i) with
       | .ok _ => .normal ((i + 1 : Nat) : Int) ()
       | .error _ => .thrown "osmium::opl_error" (i : Int)) ∧
    (∀ rest, OplFmt.pChar c (s.drop i) = .ok rest → i < s.length ∧ rest = s.drop (i + 1)) ∧
    Src.OplParserFunctions.opl_parse_char_defined (s ++ 0 :: t) (i : Int) (sc c) = true := by
  obtain ⟨h1, h2, h3⟩ := SrcTie.OplSmall.src_tie_opl_parse_char s t i hi c hc
  refine ⟨?_, h2, h3⟩
  rw [h1]
  cases OplFmt.pChar c (s.drop i) with
  | ok p => rfl
  | error e => rfl

/-- `opl_parse_space(&s)` = `pSpaceC`: one space / tab and all that follow are consumed, anything else is `opl_error`;
    any fuel ≥ the number of characters left + 2 -/
theorem src_tie_opl_parse_space (s t : List UInt8) (i fuel : Nat) (hi : i ≤ s.length) (hf : s.length - i + 2 ≤ fuel) :
    (match HostileOpl.pSpaceC (s.drop i) with
     | .ok rest => ∃ j, i < j ∧ j ≤ s.length ∧ rest = s.drop j ∧
         Src.OplParserFunctions.opl_parse_space fuel (s ++ 0 :: t) (i : Int) = .normal (j : Int) ()
     | .error _ => Src.OplParserFunctions.opl_parse_space fuel (s ++ 0 :: t) (i : Int) = .thrown "osmium::opl_error" (i : Int)) ∧
    Src.OplParserFunctions.opl_parse_space_defined fuel (s ++ 0 :: t) (i : Int) = true :=
  SrcTie.OplSmall.src_tie_opl_parse_space s t i fuel hi hf

/-- `opl_parse_id(&s)` = `pId` (= `opl_parse_int<int64_t>`, Props/C13.lean `src_tie_opl_parse_int_i64`) -/
theorem src_tie_opl_parse_id (s t : List UInt8) (i fuel : Nat) (hi : i ≤ s.length) (hf : s.length - i + 2 ≤ fuel) :
    (match OplFmt.pId (s.drop i) with
     | .ok (v, rest) => ∃ j, i ≤ j ∧ j ≤ s.length ∧ rest = s.drop j ∧
         Src.OplParserFunctions.opl_parse_id fuel (s ++ 0 :: t) (i : Int) = .normal (j : Int) v
     | .error _ => ∃ j, i ≤ j ∧ j ≤ s.length ∧
         Src.OplParserFunctions.opl_parse_id fuel (s ++ 0 :: t) (i : Int) = .thrown "osmium::opl_error" (j : Int)) ∧
    Src.OplParserFunctions.opl_parse_id_defined fuel (s ++ 0 :: t) (i : Int) = true :=
  SrcTie.OplSmall.src_tie_opl_parse_id s t i fuel hi hf

/-- the test that ends the loop of `opl_parse_tags` (the function drives a `TagListBuilder`, outside the translated subset;
    its condition is extracted) = the test of the model's `pTags` -/
theorem src_tie_opl_parse_tags_cond_end (s t : List UInt8) (i : Nat) (hi : i ≤ s.length) :
    Src.OplParserFunctions.opl_parse_tags_cond_end (s ++ 0 :: t) (i : Int) =
      (OplFmt.isSpTab (peek (s.drop i)) || peek (s.drop i) == 0) ∧
    Src.OplParserFunctions.opl_parse_tags_cond_end_defined (s ++ 0 :: t) (i : Int) = true :=
  SrcTie.OplSmall.src_tie_opl_parse_tags_cond_end s t i hi

/-- the "no timestamp" test of `opl_parse_timestamp` (the function has a `try` block, outside the subset; the
    `Timestamp(const char*)` constructor behind it is tied in Props/C13.lean) = the test of the model's `oplParseTimestamp` -/
theorem src_tie_opl_parse_timestamp_cond_empty (s t : List UInt8) (i : Nat) (hi : i ≤ s.length) :
    Src.OplParserFunctions.opl_parse_timestamp_cond_empty (s ++ 0 :: t) (i : Int) =
      (peek (s.drop i) == 0 || peek (s.drop i) == 32 || peek (s.drop i) == 9) ∧
    Src.OplParserFunctions.opl_parse_timestamp_cond_empty_defined (s ++ 0 :: t) (i : Int) = true :=
  SrcTie.OplSmall.src_tie_opl_parse_timestamp_cond_empty s t i hi

-- the translated functions run: "V" is visible; " \t x" skips three blanks; '=' expected but ',' found
example : Src.OplParserFunctions.opl_parse_visible ([0x56] ++ 0 :: []) 0 = .normal 1 true := by decide +kernel
example : Src.OplParserFunctions.opl_parse_space 10 ([0x20, 0x09, 0x20, 0x78] ++ 0 :: []) 0 = .normal 3 () := by decide +kernel
example : Src.OplParserFunctions.opl_parse_char ([0x2c] ++ 0 :: []) 0 0x3d = .thrown "osmium::opl_error" 0 := by decide +kernel

end SrcTies

end Osmium.HostileText.C03
