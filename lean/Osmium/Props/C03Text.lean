/-
C03 (text part: OPL, XML, timestamps, coordinates, UTF-8) — the hand-written text parsers never read
past the NUL that terminates their input, and the XML reader is total over expat's events.

Memory model (Model/HostileText.lean): the C string is `s` (no NUL inside), the memory is
`s ++ 0 :: junk` with ARBITRARY `junk` behind the terminator.  `StopsAtNul f`: run on the memory, `f`
returns what it returns on `s`, with the cursor still in front of the NUL — the result does not
depend on `junk` (nothing behind the terminator is looked at) and the cursor never passes it.
The parsers are the suffix-cursor models of C13 / C14 / C01 (Model/Conv.lean, Escape.lean,
OplFmt.lean), transcribed from osm/timestamp.hpp, osm/location.hpp, io/detail/opl_parser_functions.hpp;
their correspondence to the compiled code is checked by the C13/C14/C01 harnesses and, on hostile
input, by this property's hostile tier (ASan: a read past the NUL of a heap string is reported).

Termination: every model function is total (structural recursion, or fuel = input length with the
fuel-exhausted outcome proved/observed unreachable), so the parsers terminate on every input; the
OPL reader's outer loop is driven by the input queue (environment: C06/C19).
`opl_reads_in_bounds_partial`: proved for all field parsers (integers, strings with escapes,
timestamps, coordinates) and for the line as the reader sees it (cut at its first NUL); NOT proved:
the attribute loop of `opl_parse_node/way/relation/changeset` as a cursor program (the model passes
NUL-free sections to the field parsers by `takeWhile`, which is the property rather than a proof of it).
expat is outside: `xml_reader_total` is about the reader's callbacks over ANY event sequence.
-/
import Osmium.Lemmas.HostileText
import Osmium.Lemmas.Escape
import Osmium.Lemmas.HostileXmlUser

namespace Osmium.HostileText.C03

open Osmium.HostileText Osmium.Conv

/-! ### timestamps -/

/-- `detail::parse_timestamp`, `Timestamp(const char*)` and `opl_parse_timestamp` never read past the
    terminator (current code: leap-year and range checks on) -/
theorem timestamp_reads_in_bounds :
    StopsAtNul parseTimestampNow ∧ IgnoresBehindNul timestampNow ∧ StopsAtNul (oplParseTimestampV true true) :=
  ⟨parseTimestampV_stops true, timestampOfStringV_ignores true true, oplParseTimestampV_stops true true⟩

/-- non-vacuity / illustration: a string that ends inside the 19-character pattern is rejected at its
    NUL whatever follows in memory (here: bytes that would complete a valid timestamp) -/
example :
    parseTimestampNow ([50, 48, 50, 48, 45, 48, 49] ++ behind [45, 48, 49, 84, 48, 48, 58, 48, 48, 58, 48, 48, 90]) =
      .error .invalidArgument := by decide

/-! ### coordinates -/

/-- `detail::string_to_location_coordinate` (value, overflow flag, cursor) never reads past the
    terminator; `Location::set_lon/set_lat(const char*)` do not depend on what follows it -/
theorem coord_reads_in_bounds (s junk : Bytes) (h : NoNul s) :
    stringToLocationCoordinate (s ++ behind junk) =
      (match stringToLocationCoordinate s with
       | .ok o => .ok { o with rest := o.rest ++ behind junk }
       | .error e => .error e) :=
  parseCoord_stops Variant.now s junk h

example : (stringToLocationCoordinate ([49, 46, 53] ++ behind [57, 57])).toOption.map (·.value) = some 15000000 := by
  decide +kernel

/-! ### UTF-8 -/

/-- `next_utf8_codepoint(&begin, end)` with `end = begin + strlen(begin)`: no read beyond the
    terminating NUL for ANY byte string (C14: `no_read_past_nul_next`; the model `Utf8.rd` makes a read
    at an offset > strlen the explicit outcome `oob`), and the OPL escaping loop built on it -/
theorem utf8_reads_in_bounds (bs : List UInt8) :
    Utf8.next bs ≠ .error .oob ∧ Opl.escape bs ≠ .error .oob :=
  ⟨Opl.next_ne_oob bs, Opl.escapeLoop_ne_oob _ bs (by omega)⟩

/-! ### OPL -/

/-- all OPL field parsers stop at the terminator: `opl_parse_int<T>` (ids, versions, uids, changesets),
    `opl_parse_string` with `opl_parse_escaped` (user names, tag keys/values, roles),
    `opl_parse_timestamp`, and the coordinate parser behind `x`/`y` fields -/
theorem opl_fields_read_in_bounds :
    (∀ tmin tmax, StopsAtNul (OplFmt.pInt tmin tmax)) ∧ StopsAtNul OplFmt.pStr ∧
    StopsAtNul OplFmt.pTs ∧ StopsAtNul OplFmt.pCoord :=
  ⟨pInt_stops, pStr_stops, pTs_stops, pCoord_stops⟩

theorem cstr_noNul (l : Bytes) : NoNul (Chunks.cstr l) := by
  induction l with
  | nil => intro b hb; cases hb
  | cons x xs ih =>
    unfold Chunks.cstr
    by_cases hx : (x == 0) = true
    · rw [if_pos hx]; intro b hb; cases hb
    · rw [if_neg hx]
      intro b hb
      rcases List.mem_cons.mp hb with rfl | hb
      · intro h0; exact hx (by simp [h0])
      · exact ih b hb

theorem cstr_behind (s junk : Bytes) (h : NoNul s) : Chunks.cstr (s ++ behind junk) = s := by
  induction s with
  | nil => simp [behind, Chunks.cstr]
  | cons x xs ih =>
    have hx : x ≠ 0 := h x (List.mem_cons_self ..)
    have hx' : (x == 0) = false := by simpa using hx
    simp only [List.cons_append, Chunks.cstr, hx']
    simp only [Bool.false_eq_true, if_false, List.cons.injEq, true_and]
    exact ih (fun b hb => h b (List.mem_cons_of_mem _ hb))

/-- `opl_reads_in_bounds` as far as it is proved: (1) every field parser stops at the terminator;
    (2) the line parser is a function of the line up to its first NUL: whatever lies behind the NUL
    in the input buffer (the rest of the 1 MiB block, the next lines) cannot influence the parse of
    this line, and the string it works on is NUL-free, which is the hypothesis of (1). -/
theorem opl_reads_in_bounds_partial :
    ((∀ tmin tmax, StopsAtNul (OplFmt.pInt tmin tmax)) ∧ StopsAtNul OplFmt.pStr ∧
      StopsAtNul OplFmt.pTs ∧ StopsAtNul OplFmt.pCoord) ∧
    (∀ (types : OplFmt.Types) (s junk : Bytes), NoNul s →
      OplFmt.parseLines types [s ++ behind junk |> Chunks.cstr] = OplFmt.parseLines types [s]) ∧
    (∀ l : Bytes, NoNul (Chunks.cstr l)) := by
  refine ⟨opl_fields_read_in_bounds, ?_, cstr_noNul⟩
  intro types s junk h
  rw [cstr_behind s junk h]

/-- the model driver's `rd opl` (Driver/Text.lean) splits lines with linear-time functions; they are
    the specification's: what the driver computes IS `OplFmt.parseFile` -/
theorem opl_driver_lines_eq (types : OplFmt.Types) (bs : Bytes) :
    OplFmt.parseLines types ((specLinesFast bs).map fun l => cstrFast l []) = OplFmt.parseFile types bs := by
  unfold OplFmt.parseFile
  rw [specLinesFast_eq]
  congr 1
  apply List.map_congr_left
  intro l _
  rw [cstrFast_eq]; rfl

theorem bindE_ok_iff {ε α β : Type} (x : Except ε α) (f : α → Except ε β) (b : β) :
    TextFmt.bindE x f = .ok b ↔ ∃ a, x = .ok a ∧ f a = .ok b := by
  cases x with
  | ok a => simp [TextFmt.bindE]
  | error e => simp [TextFmt.bindE]

theorem setUserCheck_ok (u : Bytes) (h : OplFmt.setUserCheck u = .ok ()) : u.length ≤ 1024 := by
  unfold OplFmt.setUserCheck at h
  split at h
  · cases h
  · rename_i hn; simpa [OplFmt.maxString] using hn

/-- F13c at full strength for OPL (repair bc6b907): the user name of EVERY object the OPL line
    parser delivers — for any line, any entity filter — is at most `max_osm_string_length` bytes, so
    `set_user` never sees a name that its 16-bit size field cannot hold. -/
theorem opl_user_length_checked (types : OplFmt.Types) (line : Bytes) (o : Osm.Object)
    (h : OplFmt.parseLine types line = .ok (some o)) : (HostileXml.objUser o).length ≤ 1024 := by
  have hobj : ∀ k s o, OplFmt.pObject k s = .ok o → (HostileXml.objUser o).length ≤ 1024 := by
    intro k s o h
    unfold OplFmt.pObject at h
    rw [bindE_ok_iff] at h; obtain ⟨⟨id, s1⟩, _, h⟩ := h
    rw [bindE_ok_iff] at h; obtain ⟨st, _, h⟩ := h
    rw [bindE_ok_iff] at h; obtain ⟨u, hu, h⟩ := h
    rw [bindE_ok_iff] at h; obtain ⟨tags, _, h⟩ := h
    have hl := setUserCheck_ok _ hu
    cases k with
    | node => simp only at h; injection h with h; subst h; exact hl
    | way =>
      simp only at h
      rw [bindE_ok_iff] at h; obtain ⟨ns, _, h⟩ := h
      injection h with h; subst h; exact hl
    | relation =>
      simp only at h
      rw [bindE_ok_iff] at h; obtain ⟨ms, _, h⟩ := h
      injection h with h; subst h; exact hl
  have hcs : ∀ s o, OplFmt.pChangeset s = .ok o → (HostileXml.objUser o).length ≤ 1024 := by
    intro s o h
    unfold OplFmt.pChangeset at h
    rw [bindE_ok_iff] at h; obtain ⟨⟨id, s1⟩, _, h⟩ := h
    rw [bindE_ok_iff] at h; obtain ⟨st, _, h⟩ := h
    rw [bindE_ok_iff] at h; obtain ⟨u, hu, h⟩ := h
    rw [bindE_ok_iff] at h; obtain ⟨tags, _, h⟩ := h
    injection h with h; subst h
    exact setUserCheck_ok _ hu
  have hsome : ∀ (x : Except OplFmt.PErr Osm.Object), (TextFmt.bindE x fun o => .ok (some o)) = .ok (some o) → x = .ok o := by
    intro x hx
    rw [bindE_ok_iff] at hx
    obtain ⟨a, ha, hx⟩ := hx
    injection hx with hx; injection hx with hx; subst hx; exact ha
  unfold OplFmt.parseLine at h
  split at h
  · cases h
  · split at h
    · cases h
    · split at h
      · split at h
        · exact hobj _ _ _ (hsome _ h)
        · cases h
      · split at h
        · split at h
          · exact hobj _ _ _ (hsome _ h)
          · cases h
        · split at h
          · split at h
            · exact hobj _ _ _ (hsome _ h)
            · cases h
          · split at h
            · split at h
              · exact hcs _ _ (hsome _ h)
              · cases h
            · cases h

/-! ### XML -/

open Osmium.XmlFmt in
/-- For EVERY event sequence expat may deliver (any element names, attributes, nesting, character
    data) the reader model returns a header with objects, or one of its six exception classes
    (xml_error, format_version_error, range_error, invalid_argument, invalid_location, length_error —
    all derived from std::exception).  It is total: no event sequence makes it diverge or get stuck. -/
theorem xml_reader_total (types : OplFmt.Types) (evs : List Ev) :
    (∃ h objs, read types evs = .ok (h, objs)) ∨ (∃ e, read types evs = .error e) := by
  cases hr : read types evs with
  | ok p => exact Or.inl ⟨p.1, p.2, rfl⟩
  | error e => exact Or.inr ⟨e, rfl⟩

/-! ### XML: discussion builder protocol and user-name length (repairs 5690f83, bc6b907) -/

section
open Osmium.XmlFmt Osmium.HostileXml

def evOsm : Ev := .start "osm" [("version", [48, 46, 54])]
def evCs : Ev := .start "changeset" [("id", [49])]

/-- `<comment …/>` without `<text>` -/
def docCommentWithoutText : List Ev :=
  [evOsm, evCs, .start "discussion" [], .start "comment" [("uid", [49]), ("user", [117])], .stop "comment",
   .stop "discussion", .stop "changeset", .stop "osm"]

/-- two `<text>` in one `<comment>` -/
def docTwoTexts : List Ev :=
  [evOsm, evCs, .start "discussion" [], .start "comment" [("uid", [49])], .start "text" [], .stop "text",
   .start "text" [], .stop "text", .stop "comment", .stop "discussion", .stop "changeset", .stop "osm"]

/-- an unknown element inside an open `<comment>` (error while a comment is pending) -/
def docErrorInComment : List Ev :=
  [evOsm, evCs, .start "discussion" [], .start "comment" [("uid", [49])], .start "foo" []]

/-- THE FULL STATEMENT for the discussion builder (since repair 5690f83): for EVERY event sequence
    expat may deliver and EVERY entity filter, the reader's calls of the ChangesetDiscussionBuilder
    keep its (only asserted) protocol — `add_comment` never while a comment is pending,
    `add_comment_text` only for a pending comment, no call through the null builder pointer; an
    exception or the end of the input while a comment is pending is handled by the destructors.
    (Before the repair: refuted by the three witnesses of `f13b_prefix_witnesses`.) -/
theorem xml_reader_keeps_builder_protocol (types : OplFmt.Types) (evs : List Ev) :
    monitor types evs = none :=
  monitor_none types evs

/-- the invariant behind it, for any prefix of the run: the builder's pending flag IS the reader's
    `m_comment_pending`, a comment is pending only inside `<comment>` / `<text>`, and inside
    `<discussion>` the builder exists -/
theorem xml_reader_builder_invariant (types : OplFmt.Types) (st : RSt) (p : Proto) (e : Ev) (st' : RSt)
    (hi : Inv types st p) (hs : stepEv types st e = .ok st') :
    ∃ p', protoStep types st p e = .ok p' ∧ Inv types st' p' :=
  step_inv types st p e st' hi hs

/-- F13c at full strength for XML (repair bc6b907): the user name of EVERY object the XML reader
    delivers — for any event sequence, any entity filter — is at most `max_osm_string_length`
    bytes (`set_user` throws std::length_error otherwise: `initObject`, `initChangesetAttrs`), so the
    16-bit user_size field cannot wrap.  (Before the repair: `f13c_user_size_zero_traverse_oob`.) -/
theorem xml_user_length_checked (types : OplFmt.Types) (evs : List Ev) (h : Osm.Header) (objs : List Osm.Object)
    (hr : XmlFmt.read types evs = .ok (h, objs)) : ∀ o ∈ objs, (HostileXml.objUser o).length ≤ 1024 :=
  read_user_ok types evs h objs hr

/-- non-vacuity of the monitor: a protocol state that is NOT reachable (comment pending at
    <discussion> level) makes the next <comment> a misuse -/
example : protoStep {} { stack := [.discussion, .changeset, .osm] } { present := true, pending := true }
    (.start "comment" []) = .error .commentWhilePending := by decide

/-- F13b NOW: the comment gets an empty text (`add_comment_text("")` at `</comment>`), the builder
    protocol is kept, the changeset is delivered with that comment … -/
theorem f13b_xml_comment_without_text_now :
    monitor {} docCommentWithoutText = none ∧
    read {} docCommentWithoutText =
      .ok ({}, [.changeset 1 0 0 0 0 0 [] Osm.Location.undefined Osm.Location.undefined [] [⟨0, 1, [117], []⟩]]) := by
  decide +kernel

/-- … a second `<text>` is an xml_error, and an error inside an open comment is just that error
    (the builder's destructor finishes the pending comment) -/
theorem xml_two_texts_now : monitor {} docTwoTexts = none ∧ read {} docTwoTexts = .error .xml := by
  decide +kernel

theorem xml_error_in_open_comment_now :
    monitor {} docErrorInComment = none ∧ read {} docErrorInComment = .error .xml := by
  decide +kernel

/-- BEFORE repair 5690f83 (regression documentation; the three inputs are replayed on the real
    Reader by the hostile tier, corpus/C03/xml_findings.ops): each of them drove the builder out
    of its protocol -/
theorem f13b_prefix_witnesses :
    Pre.monitor {} docCommentWithoutText = some .commentWithoutText ∧
    Pre.monitor {} docTwoTexts = some .textWithoutComment ∧
    Pre.monitor {} docErrorInComment = some .pendingAtDestruction := by
  decide +kernel

/-- F13c NOW (repair bc6b907): a `user` attribute longer than `max_osm_string_length` is a
    std::length_error — on a node, on a changeset and on a discussion comment; 1024 bytes pass
    (the 65535-byte inputs of the finding are replayed on the real Reader by the hostile tier).
    (Before: assertion, or with NDEBUG truncation to 16 bits — 65535 bytes wrapped user_size to 0,
    `f13c_user_size_zero_traverse_oob` in Props/C03Layout.lean.) -/
theorem f13c_xml_user_too_long_now :
    read {} [evOsm, .start "node" [("id", [49]), ("user", List.replicate 1025 117)], .stop "node", .stop "osm"]
      = .error .length ∧
    read {} [evOsm, .start "changeset" [("id", [49]), ("user", List.replicate 1025 117)], .stop "changeset", .stop "osm"]
      = .error .length ∧
    read {} [evOsm, evCs, .start "discussion" [], .start "comment" [("user", List.replicate 1025 117)]]
      = .error .length ∧
    (read {} [evOsm, .start "node" [("id", [49]), ("user", List.replicate 1024 117)], .stop "node", .stop "osm"]).toOption.isSome
      = true := by
  decide +kernel

/-- the same guard in the OPL reader: `builder.set_user(user)` after the attribute loop -/
theorem f13c_opl_user_too_long_now :
    OplFmt.parseLine {} ([0x6e, 0x31, 0x20, 0x75] ++ List.replicate 1025 117) = .error .length ∧
    OplFmt.parseLine {} ([0x63, 0x31, 0x20, 0x75] ++ List.replicate 1025 117) = .error .length ∧
    (OplFmt.parseLine {} ([0x6e, 0x31, 0x20, 0x75] ++ List.replicate 1024 117)).toOption.isSome = true := by
  decide +kernel

/-- the well-formed discussion raises nothing (non-vacuity of the monitors) -/
example :
    monitor {} [evOsm, evCs, .start "discussion" [],
                .start "comment" [("uid", [49]), ("user", [117])], .start "text" [], .chars [116], .stop "text",
                .stop "comment", .stop "discussion", .stop "changeset", .stop "osm"] = none ∧
    Pre.monitor {} [evOsm, evCs, .start "discussion" [],
                .start "comment" [("uid", [49]), ("user", [117])], .start "text" [], .chars [116], .stop "text",
                .stop "comment", .stop "discussion", .stop "changeset", .stop "osm"] = none := by
  decide +kernel

end

end Osmium.HostileText.C03
