/-
C17 — Geometry exports encode exactly the object's coordinates in every output format.

Property theorems only (helper lemmas live in Osmium/Lemmas/Geom*.lean).  Coordinates are
symbolic: every theorem holds for ALL projections `proj : Location → Except Err P` (identity,
Mercator, …), ALL point encodings `bits : P → Dbl × Dbl` and number formatters
`fmt : P → String × String`, ALL objects (nodes, ways of any length, areas with any number of
outer/inner rings), both `use_nodes`, both directions, WKB/EWKB × binary/hex.

`Variant.fixed` = the code as it is now (fix commits 5a3ae5e, e768562, d672e4f): the FULL
statements `factory_spec`, `degenerate_rejected`, `double2string_fits`, `double2string_trim_exact`
hold for it.  `Variant.beforeFix` = the code before those commits; its refutations are kept as
documentation (`*_refuted_before_fix`) together with the `_partial` statements that held then:
  * F10  leading undefined location silently skipped in unique mode   (FactorySpec, DegenerateRejected)
  * area rings with < 4 distinct points were not rejected             (same two statements)
  * F9   double2string read beyond its 20-byte buffer                 (D2SFits)
  * double2string at precision 0 stripped integer zeros / read before the buffer (D2STrimExact)
`_partial` (stated, not proved): that the DIGITS `snprintf("%.*f")` prints are the correctly
rounded decimal expansion is libc's contract; the check verifies it by execution against exact
rational arithmetic.
-/
import Osmium.Lemmas.GeomWkbParse
import Osmium.Lemmas.GeomSpec
import Osmium.Lemmas.GeomText
import Osmium.Lemmas.GeomD2S
import Osmium.Generated.Consts
import Osmium.Generated.Src
import Osmium.Lemmas.CxxSem

namespace Osmium.Geom.C17

open Osmium.Geom

/-! ## 1. decoders invert encoders (counts match elements, nested headers, EWKB, hex) -/

/-- WKB / EWKB, binary / hex: the independent decoder recovers every geometry (any number of
points, rings, polygons — counts < 2^32 as the format requires) and the SRID iff EWKB. -/
theorem wkb_parse_emit (c : Wkb.Cfg) (hs : c.srid < 4294967296) (g : Geom WPoint)
    (hg : Wkb.CountsOk g) :
    Wkb.parse c.hex (Wkb.emit c g) = some (if c.ewkb then some c.srid else none, g) :=
  Wkb.parse_emit c hs g hg

example : Wkb.CountsOk (.multipolygon [⟨[], [[]]⟩]) := by simp [Wkb.CountsOk, Wkb.PolyOk]

/-- WKT / EWKT: the decoder recovers every geometry without empty lists. -/
theorem wkt_parse_emit (c : Wkt.Cfg) (hc : ∀ s, c.sridPrefix = some s → s.startsWith "SRID=" = true)
    (g : Geom TPoint) (hg : Text.NonEmpty g) :
    Wkt.parse (Wkt.emit c g) = some (c.sridPrefix, g) :=
  Wkt.parse_emit c hc g hg

/-- GeoJSON likewise. -/
theorem geojson_parse_emit (g : Geom TPoint) (hg : Text.NonEmpty g) :
    GeoJson.parse (GeoJson.emit g) = some g :=
  GeoJson.parse_emit g hg

example : Text.NonEmpty (.multipolygon [⟨[("1", "2")], [[("3", "4")]]⟩]) := by
  simp [Text.NonEmpty, Text.PolyNonEmpty]

/-- under an injective formatter the decoded text determines the geometry itself -/
theorem text_determines_geometry {P : Type} (fmt : P → TPoint) (hf : Function.Injective fmt)
    (g g' : Geom P) (h : g.map fmt = g'.map fmt) : g = g' :=
  Geom.map_injective fmt hf g g' h

/-! ## 2. the factory emits the encoding of `geomOf` -/

/-- the three implementations make the factory's calls into the declarative encodings -/
def EmitsSpec (v : Variant) {P : Type} (proj : Location → Except Err P) (bits : P → WPoint)
    (fmt : P → TPoint) (c : Wkb.Cfg) (wc : Wkt.Cfg) (obj : Obj) (o : Opts) : Prop :=
  Factory.create (Wkb.impl bits c) v proj obj o
      = (geomOf proj obj o).map (fun g => Wkb.emit c (g.map bits)) ∧
  Factory.create (Wkt.impl fmt wc) v proj obj o
      = (geomOf proj obj o).map (fun g => Wkt.emit wc (g.map fmt)) ∧
  Factory.create (GeoJson.impl fmt) v proj obj o
      = (geomOf proj obj o).map (fun g => GeoJson.emit (g.map fmt))

/-- full statement: for every object of the domain, every option, every format -/
def FactorySpec (v : Variant) : Prop :=
  ∀ {P : Type} (proj : Location → Except Err P) (bits : P → WPoint) (fmt : P → TPoint)
    (c : Wkb.Cfg) (wc : Wkt.Cfg) (obj : Obj) (o : Opts), obj.wf → EmitsSpec v proj bits fmt c wc obj o

/-- the full statement holds for the code as it is -/
theorem factory_spec : FactorySpec .fixed := by
  intro P proj bits fmt c wc obj o hwf
  refine ⟨?_, ?_, ?_⟩
  · rw [create_repaired _ _ _ _ hwf]
    exact Except.map_congr_ok _ _ _ fun g hg =>
      Wkb.run_eq_emit bits c g (geomOf_polygon_simple proj obj o g hg)
  · rw [create_repaired _ _ _ _ hwf]
    exact Except.map_congr_ok _ _ _ fun g hg =>
      Text.run_eq_emit (Wkt.tfmt wc) fmt g (geomOf_polygon_simple proj obj o g hg)
        (geomOf_nonEmpty proj obj o g hg hwf)
  · rw [create_repaired _ _ _ _ hwf]
    exact Except.map_congr_ok _ _ _ fun g hg =>
      Text.run_eq_emit GeoJson.tfmt fmt g (geomOf_polygon_simple proj obj o g hg)
        (geomOf_nonEmpty proj obj o g hg hwf)

/-- (documentation) before the fixes the statement held only for objects in which no way / ring starts (in
iteration order, unique mode) with the undefined location and every area ring has ≥ 4 distinct
points -/
theorem factory_spec_before_fix_partial {P : Type} (proj : Location → Except Err P) (bits : P → WPoint)
    (fmt : P → TPoint) (c : Wkb.Cfg) (wc : Wkt.Cfg) (obj : Obj) (o : Opts) (hwf : obj.wf)
    (h1 : NoLeadUndef obj o) (h2 : RingsOk obj) : EmitsSpec .beforeFix proj bits fmt c wc obj o := by
  have := factory_spec proj bits fmt c wc obj o hwf
  unfold EmitsSpec at this ⊢
  rw [create_current _ _ _ _ h1 h2, create_current _ _ _ _ h1 h2, create_current _ _ _ _ h1 h2]
  exact this

def locA : Location := ⟨10000000, 10000000⟩
def locB : Location := ⟨20000000, 20000000⟩
def locC : Location := ⟨30000000, 10000000⟩
def validProj (l : Location) : Except Err Location := if l.valid then .ok l else .error .location
def fmtLoc (_ : Location) : TPoint := ("x", "y")
def zeroDbl : Dbl := ⟨0, 0, 0, 0, 0, 0, 0, 0⟩

/-- non-vacuity of the `_partial` hypotheses -/
example : (Obj.way [locA, locA, locB]).wf ∧ NoLeadUndef (.way [locA, locA, locB]) ⟨true, true⟩ ∧
    RingsOk (.way [locA, locA, locB]) := by
  refine ⟨trivial, ?_, trivial⟩
  intro _; decide

/-- F10 witness: way [undefined, A, B], unique, forward: the factory before e768562 answered
`LINESTRING(A,B)`, the specification says location error -/
theorem factory_spec_refuted_before_fix : ¬ FactorySpec .beforeFix := by
  intro h
  have := (h validProj (fun _ => (zeroDbl, zeroDbl)) fmtLoc ⟨4326, false, false⟩ ⟨none⟩
    (.way [Location.undefined, locA, locB]) ⟨true, false⟩ trivial).2.1
  have e1 : ∃ out, Factory.create (Wkt.impl fmtLoc ⟨none⟩) .beforeFix validProj
      (.way [Location.undefined, locA, locB]) ⟨true, false⟩ = .ok out := ⟨_, rfl⟩
  have e2 : geomOf validProj (.way [Location.undefined, locA, locB]) ⟨true, false⟩
      = .error .location := rfl
  obtain ⟨out, e1⟩ := e1
  rw [e1, e2] at this
  cases this

/-! ## 3. all encodings agree -/

/-- For every object and option: either all three factories fail with the same error, or they
succeed and the three independent decoders recover the images of one and the same geometry
`geomOf obj opts`. -/
theorem encodings_agree {P : Type} (proj : Location → Except Err P) (bits : P → WPoint)
    (fmt : P → TPoint) (c : Wkb.Cfg) (hs : c.srid < 4294967296) (wc : Wkt.Cfg)
    (hc : ∀ s, wc.sridPrefix = some s → s.startsWith "SRID=" = true)
    (obj : Obj) (o : Opts) (hwf : obj.wf)
    (hcnt : ∀ g, geomOf proj obj o = .ok g → Wkb.CountsOk (g.map bits)) :
    (∃ e, Factory.create (Wkb.impl bits c) .fixed proj obj o = .error e ∧
          Factory.create (Wkt.impl fmt wc) .fixed proj obj o = .error e ∧
          Factory.create (GeoJson.impl fmt) .fixed proj obj o = .error e ∧
          geomOf proj obj o = .error e) ∨
    (∃ g w t j, geomOf proj obj o = .ok g ∧
          Factory.create (Wkb.impl bits c) .fixed proj obj o = .ok w ∧
          Factory.create (Wkt.impl fmt wc) .fixed proj obj o = .ok t ∧
          Factory.create (GeoJson.impl fmt) .fixed proj obj o = .ok j ∧
          Wkb.parse c.hex w = some (if c.ewkb then some c.srid else none, g.map bits) ∧
          Wkt.parse t = some (wc.sridPrefix, g.map fmt) ∧
          GeoJson.parse j = some (g.map fmt)) := by
  obtain ⟨hw, ht, hj⟩ := factory_spec proj bits fmt c wc obj o hwf
  cases hg : geomOf proj obj o with
  | error e =>
    left
    exact ⟨e, by simp [hw, hg, Except.map], by simp [ht, hg, Except.map], by simp [hj, hg, Except.map], rfl⟩
  | ok g =>
    right
    have hne := Text.nonEmpty_map fmt g (geomOf_nonEmpty proj obj o g hg hwf)
    exact ⟨g, _, _, _, rfl, by simp [hw, hg, Except.map], by simp [ht, hg, Except.map],
      by simp [hj, hg, Except.map], wkb_parse_emit c hs _ (hcnt g hg),
      wkt_parse_emit wc hc _ hne, geojson_parse_emit _ hne⟩

/-! ## 4. degenerate inputs are rejected -/

/-- full statement, for ANY implementation class: a degenerate object (undefined/invalid
location at any position, fewer than 2 / 4 distinct points, area without rings) is an error -/
def DegenerateRejected (v : Variant) : Prop :=
  ∀ {P σ O : Type} (impl : Impl P σ O) (proj : Location → Except Err P) (obj : Obj) (o : Opts),
    RejectsInvalid proj → obj.wf → Degenerate obj o → ∃ e, Factory.create impl v proj obj o = .error e

theorem degenerate_rejected : DegenerateRejected .fixed := by
  intro P σ O impl proj obj o hp hwf hd
  obtain ⟨e, he⟩ := geomOf_degenerate proj obj o hp hd
  exact ⟨e, by rw [create_repaired _ _ _ _ hwf, he]; rfl⟩

/-- (documentation) before the fixes: held when no way / ring starts with the undefined location (unique mode)
and no area ring is short -/
theorem degenerate_rejected_before_fix_partial {P σ O : Type} (impl : Impl P σ O)
    (proj : Location → Except Err P) (obj : Obj) (o : Opts) (hp : RejectsInvalid proj)
    (hwf : obj.wf) (h1 : NoLeadUndef obj o) (h2 : RingsOk obj) (hd : Degenerate obj o) :
    ∃ e, Factory.create impl .beforeFix proj obj o = .error e := by
  rw [create_current _ _ _ _ h1 h2]
  exact degenerate_rejected impl proj obj o hp hwf hd

/-- non-vacuity: an invalid location in the middle, all mode -/
example : Degenerate (.way [locA, ⟨1800000001, 0⟩, locB]) ⟨false, false⟩ ∧
    NoLeadUndef (.way [locA, ⟨1800000001, 0⟩, locB]) ⟨false, false⟩ := by
  refine ⟨.inl ⟨⟨1800000001, 0⟩, by simp, by decide⟩, ?_⟩
  intro h; cases h

theorem validProj_rejects : RejectsInvalid validProj := by
  intro l h
  exact ⟨.location, by simp [validProj, h]⟩

/-- F10 witness: [undefined, A, B] in unique mode was accepted -/
theorem degenerate_rejected_refuted_before_fix : ¬ DegenerateRejected .beforeFix := by
  intro h
  obtain ⟨e, he⟩ := h (Wkt.impl fmtLoc ⟨none⟩) validProj (.way [Location.undefined, locA, locB])
    ⟨true, false⟩ validProj_rejects trivial (.inl ⟨Location.undefined, by simp, by decide⟩)
  have e1 : ∃ out, Factory.create (Wkt.impl fmtLoc ⟨none⟩) .beforeFix validProj
      (.way [Location.undefined, locA, locB]) ⟨true, false⟩ = .ok out := ⟨_, rfl⟩
  obtain ⟨out, e1⟩ := e1
  rw [e1] at he
  cases he

/-- second witness (independent of F10): an area whose only ring has 2 points is accepted -/
theorem short_ring_accepted_before_fix :
    (∃ out, Factory.create (Wkt.impl fmtLoc ⟨none⟩) .beforeFix validProj (.area [(true, [locA, locB])])
      ⟨true, false⟩ = .ok out) ∧ Degenerate (.area [(true, [locA, locB])]) ⟨true, false⟩ := by
  refine ⟨⟨_, rfl⟩, .inr ⟨(true, [locA, locB]), by simp, .inr (by decide)⟩⟩

/-! ## 5. double2string: the buffer, trailing-zero trimming -/

theorem shape_len (s : Shape) : s.full.length = s.len := by
  unfold Shape.full Shape.len
  cases s.neg <;> by_cases h : s.frac = [] <;> simp [h] <;> omega

/-- full statement of the buffer clause: for every `%.*f` output `double2string` stays inside
its buffer -/
def D2SFits (v : Variant) : Prop := ∀ s : Shape, s.wf → double2string v s.full ≠ .error .overread

/-- FULL: the code as it is never reads outside its buffer, whatever the magnitude and
precision (no hypothesis on the length: over-long output is truncated, not over-read), and
never fails -/
theorem double2string_fits : D2SFits .fixed ∧ ∀ full, ∃ r, double2string .fixed full = .ok r := by
  refine ⟨fun s _ => ?_, fun full => ?_⟩
  · obtain ⟨r, hr⟩ := double2string_fixed_ok s.full
    rw [hr]; simp
  · exact double2string_fixed_ok full

/-- full statement of the trimming clause: only zeros behind the decimal point (and a then
bare point) are removed — `restore` gives the `%.*f` output back, i.e. the printed text is the
same decimal number — for every output that fits `bound` -/
def D2STrimExact (v : Variant) (bound : Nat) : Prop :=
  ∀ s : Shape, s.wf → s.len < bound →
    ∃ r, double2string v s.full = .ok r ∧ restore s.precision r = s.full

/-- FULL: trailing-zero trimming preserves the decimal value (every finite double at precision
≤ 17 prints fewer than 336 characters: sign + ≤ 309 digits + '.' + 17) -/
theorem double2string_trim_exact : D2STrimExact .fixed maxDoubleLengthFixed :=
  fun s hwf hlen => double2string_fixed_restore s hwf (by rw [shape_len]; exact hlen)

example : (⟨true, ['1', '7', '9'], ['1', '2', '0']⟩ : Shape).wf ∧
    (⟨true, ['1', '7', '9'], ['1', '2', '0']⟩ : Shape).len < maxDoubleLengthFixed := by
  refine ⟨⟨by decide, by decide, by decide, by decide⟩, by decide⟩

/-- (documentation) before 5a3ae5e: sign + integer digits + 1 + precision < 20 (what `snprintf`
returns) was needed for staying inside the 20-byte buffer -/
theorem double2string_fits_before_fix_partial (s : Shape)
    (h : (if s.neg then 1 else 0) + s.intDigits.length + 1 + s.precision < 20) :
    double2string .beforeFix s.full ≠ .error .overread := by
  have hl := shape_len s
  have : s.len < 20 := by
    unfold Shape.len Shape.precision at *
    by_cases hf : s.frac = [] <;> simp [hf] at * <;> omega
  simp only [double2string, double2stringBeforeFix, hl, maxDoubleLength]
  have h1 : ¬ s.len > 20 := by omega
  have h2 : ¬ s.len = 20 := by omega
  simp only [h1, h2, if_false]
  cases dropZerosRev s.full.reverse <;> simp

/-- −179.1234567 printed with precision 17 -/
def f9Shape : Shape :=
  ⟨true, ['1', '7', '9'], ['1', '2', '3', '4', '5', '6', '7', '0', '0', '0', '0', '0', '0', '0', '8', '2', '5']⟩

/-- (documentation) F9: (v = −179.1234567, p = 17): len = 1 + 3 + 1 + 17 = 22 ≥ 20 → `buffer[21]`
was read -/
theorem double2string_fits_refuted_before_fix : ¬ D2SFits .beforeFix := by
  intro h
  exact h f9Shape (by refine ⟨by decide, by decide, by decide, by decide⟩) rfl

/-- (documentation) at precision 0 the integer's own trailing zeros were stripped ("10" → "1") -/
theorem double2string_trim_refuted_before_fix : ¬ D2STrimExact .beforeFix maxDoubleLength := by
  intro h
  obtain ⟨r, hr, hx⟩ := h ⟨false, ['1', '0'], []⟩ (by refine ⟨by decide, by decide, by decide, by decide⟩)
    (by decide)
  have e : double2string .beforeFix (Shape.full ⟨false, ['1', '0'], []⟩) = .ok ['1'] := rfl
  rw [e] at hr
  cases hr
  revert hx
  decide

/-- (documentation) … and "0" ran off the front of the buffer -/
theorem precision0_zero_underread_before_fix : double2string .beforeFix ['0'] = .error .underread := rfl

/-- Tie of the geometry models' constants to the CURRENT source (regenerated `Generated/Consts.lean`). -/
theorem consts_tie_geom :
    Wkb.wkbSRID = Osmium.Generated.Consts.wkbSRIDFlag ∧ maxDoubleLengthFixed = Osmium.Generated.Consts.maxDoubleLength ∧
    undefinedCoordinate = (Osmium.Generated.Consts.undefinedCoordinate : Int) ∧
    Osmium.Generated.Consts.wkbPoint = 1 ∧ Osmium.Generated.Consts.wkbLineString = 2 ∧ Osmium.Generated.Consts.wkbPolygon = 3 ∧ Osmium.Generated.Consts.wkbMultiPolygon = 6 := by decide

/-! ### source ties (tools/cxx2lean.py): the functions REGENERATED from /repo's C++ source on every run
    (Osmium/Generated/Src.lean) equal the hand-written model functions the theorems above are about. -/

section SrcTies
open Osmium.Generated Osmium.CxxSem

/-- `Location::valid()` (osm/location.hpp; the comparison is done in `double`: `m_x >= -180 * precision()`,
    exact because every operand is an integer of magnitude < 2^53) = `Location.valid`, for ALL coordinates -/
theorem src_tie_location_valid (x y : Int) :
    Src.Location.Location.valid ⟨x, y⟩ = Location.valid ⟨x, y⟩ := by
  dsimp only [Location.valid]
  rw [Bool.eq_iff_iff]
  simp [Src.Location.Location.valid, Src.Location.Location.precision, Src.Location.coordinate_precision] <;> omega

/-- on every int32 pair the `double` arithmetic of `valid()` is exact and nothing is undefined -/
theorem src_defined_location_valid (l : Src.Location.Location) (h : Src.Location.Location.typed l = true) :
    Src.Location.Location.valid_defined l = true := by
  simp only [Src.Location.Location.typed, Bool.and_eq_true, inS_iff] at h
  simp [Src.Location.Location.valid_defined, Src.Location.Location.precision_defined, Src.Location.Location.precision,
    Src.Location.coordinate_precision, exactD]
  omega

example : Src.Location.Location.typed ⟨-1800000000, 900000000⟩ = true := by decide

/-- `Location()` is the undefined location, `undefined_coordinate` the model's constant -/
theorem src_tie_location_undefined :
    Src.Location.Location.ctor = ⟨undefinedCoordinate, undefinedCoordinate⟩ ∧
    Src.Location.Location.undefined_coordinate = undefinedCoordinate := by
  constructor <;> decide

/-- `is_undefined()`, `is_defined()` and `operator bool()` against the model's undefined location:
    undefined = both coordinates, `operator bool` = neither coordinate, `is_defined` = not both -/
theorem src_tie_location_is_undefined (x y : Int) :
    (Src.Location.Location.is_undefined ⟨x, y⟩ = true ↔ (⟨x, y⟩ : Location) = Location.undefined) ∧
    (Src.Location.Location.is_defined ⟨x, y⟩ = true ↔ (⟨x, y⟩ : Location) ≠ Location.undefined) ∧
    (Src.Location.Location.op_to_bool ⟨x, y⟩ = true ↔ x ≠ undefinedCoordinate ∧ y ≠ undefinedCoordinate) := by
  have e : wrapS 32 Src.Location.Location.undefined_coordinate = 2147483647 := by decide
  refine ⟨?_, ?_, ?_⟩ <;>
    simp [Src.Location.Location.is_undefined, Src.Location.Location.is_defined, Src.Location.Location.op_to_bool, e,
      Location.undefined, undefinedCoordinate] <;> omega

end SrcTies

end Osmium.Geom.C17
