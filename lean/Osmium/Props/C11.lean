/-
C11 — Relation managers complete each relation exactly once with all its members.

Model: Osmium/Model/RelMgr.lean (statement-by-statement transcription of RelationsManager,
MembersDatabase, RelationsDatabase; ItemStash abstractly).  Helper lemmas: Osmium/Lemmas/RelMgr.lean.

What is proved here for ALL configurations, relation sets, predicates and histories:
  * `flush_threshold_irrelevant`       (global, full strength)
  * `prepare_sorts_by_member_id`, `find_returns_all_references`   (the lookup structure)
  * `tracked_one_element_per_wanted_reference`                    (first pass / set_ref(0) marking)
  * `completed_exactly_once_partial`   (the completion loop of one arriving object: callback
                                        exactly once, exactly when the counter reaches zero)
  * `shared_member_kept_until_last_partial`  (remove(): stash item released only with the last
                                        non-removed reference, multiplicities counted)
  * `released_lookup_absent_false`     (F7: the clause is FALSE for the current code) and
    `released_lookup_absent_partial`   (repaired remove(): lookup after release gives nullptr)
The full global statements are kept as `def … : Prop` (`completed_exactly_once`,
`members_available_in_callback`, `incomplete_listed`, `not_in_any_relation_reported`,
`released_lookup_absent`).  MISSING for their proofs: the run-long invariant
"counter of a live relation = number of its tracked references whose object has not arrived,
handles of a range = handle of the arrived object, stash item live ⇔ some non-removed element
in the range" and its preservation by `memberAdd`; the `_partial` theorems are the induction
steps that invariant needs.  Until then the global statements are checked on every run by the
correspondence streams and by the set-based oracle in tools/props/c11.py (which is exactly these
definitions), and on the witnesses below by kernel evaluation.
-/
import Osmium.Lemmas.RelMgr

namespace Osmium.RelMgr.C11

open Osmium.RelMgr Osmium.Order

/-! ### Specification with sets -/

/-- relations of interest: `new_relation` said yes -/
def interesting (c : Cfg) (rels : List Rel) : List Rel := rels.filter c.newRel

/-- wanted members of `r` (with multiplicity, in member order) -/
def wanted (c : Cfg) (r : Rel) : List (Kind × Int) :=
  (r.members.zipIdx.filter (fun p => wantedAt c r p.2 p.1)).map (fun p => (p.1.kind, p.1.ref))

/-- objects of enabled types among the ops -/
def seen (c : Cfg) (ops : List Op) : List Obj :=
  ops.filterMap (fun op => match op with
    | .obj o => if c.enabled o.kind then some o else none
    | _ => none)

def seenIds (c : Cfg) (ops : List Op) : List (Kind × Int) := (seen c ops).map (fun o => (o.kind, o.id))

/-- `complete r ↔ wanted r ⊆ seen` -/
def complete (c : Cfg) (ops : List Op) (r : Rel) : Prop := ∀ w ∈ wanted c r, w ∈ seenIds c ops

/-- the property's domain: unique relation ids, a stream the CheckOrder accepts (strictly
    ascending by type and id ⇒ unique ids per type), no wanted reference to id 0 (the managers
    use ref 0 as the "not interested" mark) -/
def Domain (c : Cfg) (rels : List Rel) (ops : List Op) : Prop :=
  ((interesting c rels).map (·.id)).Nodup ∧
  accepts ((seen c ops).map (fun o => (o.kind, o.id))) = true ∧
  ∀ r ∈ interesting c rels, ∀ w ∈ wanted c r, w.2 ≠ 0

/-- ids handed to `complete_relation`, in order -/
def callbacks (evs : List Event) : List Int :=
  evs.filterMap (fun e => match e with | .complete _ rid _ _ => some rid | _ => none)

/-- FULL STATEMENT (kept as a Prop, see the header): every interesting relation with at least
    one wanted member is handed to the callback exactly once if it is complete and never
    otherwise, and the callback happens while the object that completes it is processed. -/
def completed_exactly_once (c : Cfg) : Prop :=
  ∀ rels ops, Domain c rels ops → ∀ r ∈ interesting c rels, wanted c r ≠ [] →
    (∀ [Decidable (complete c ops r)],
      (callbacks (run c rels ops).events).count r.id = if complete c ops r then 1 else 0) ∧
    (∀ n, (callbacks (run c rels (ops.take (n + 1))).events).count r.id = 1 →
          (callbacks (run c rels (ops.take n)).events).count r.id = 0 →
          complete c (ops.take (n + 1)) r ∧ ¬ complete c (ops.take n) r)

/-- FULL STATEMENT: inside the callback every wanted member is found and is the input object -/
def members_available_in_callback (c : Cfg) : Prop :=
  ∀ rels ops, Domain c rels ops → ∀ pos rid cont looks,
    Event.complete pos rid cont looks ∈ (run c rels ops).events →
    ∀ ml ∈ looks, ∃ o ∈ seen c ops, o.kind = ml.1.kind ∧ o.id = ml.1.ref ∧ ml.2 = .found o

/-- FULL STATEMENT: `for_each_incomplete_relation` = interesting ∖ completed -/
def incomplete_listed (c : Cfg) : Prop :=
  ∀ rels ops, Domain c rels ops →
    (run c rels ops).incomplete =
      ((interesting c rels).filter (fun r => r.id ∉ callbacks (run c rels ops).events)).map (·.id)

/-- FULL STATEMENT: `*_not_in_any_relation` exactly for the objects no interesting relation wants -/
def not_in_any_relation_reported (c : Cfg) : Prop :=
  ∀ rels ops, Domain c rels ops → ∀ o ∈ seen c ops,
    (Event.notIn o.kind o.id ∈ (run c rels ops).events ↔
      ∀ r ∈ interesting c rels, (o.kind, o.id) ∉ wanted c r)

/-- FULL STATEMENT: a lookup never yields a pointer into a released stash entry; after the
    last relation needing an object was completed the lookup reports it as absent. -/
def released_lookup_absent (c : Cfg) : Prop :=
  ∀ rels ops, Domain c rels ops → ∀ k id, Event.query k id .wild ∉ (run c rels ops).events

/-! ### Global theorem: output volume, flush threshold and flush callback are irrelevant -/

/-- Whatever the completion callback writes into the output buffer, whatever the flush
    threshold is and whether or not a flush callback is installed: callbacks, lookups,
    not-in-any-relation reports, the incomplete list, all databases and the stash are the same. -/
theorem flush_threshold_irrelevant (c : Cfg) (cb : Bool) (maxBuf wr : Nat) (rels : List Rel) (ops : List Op) :
    let d := { c with hasCallback := cb, maxBuf := maxBuf, wr := wr }
    (run d rels ops).events = (run c rels ops).events ∧
    (run d rels ops).incomplete = (run c rels ops).incomplete ∧
    (run d rels ops).stash = (run c rels ops).stash ∧
    (run d rels ops).rdb = (run c rels ops).rdb ∧
    (∀ k, (run d rels ops).getDb k = (run c rels ops).getDb k) := by
  intro d
  have hs : Sim (run d rels ops) (run c rels ops) :=
    sim_run (c := d) (d := c) ⟨rfl, rfl, rfl, rfl, rfl, rfl⟩ rels ops
  have hg := hs.getDb
  obtain ⟨h1, h2, _, _, _, _, _, h8⟩ := hs
  exact ⟨by simp [State.events, h8], by simp [State.incomplete, h1, h2], h1, h2, hg⟩

/-! ### The lookup structure -/

/-- `prepare_for_lookup` leaves every members database sorted by member id and with the same
    elements. -/
theorem prepare_sorts_by_member_id (s : State) (k : Kind) :
    SortedById ((prepare s).getDb k) ∧ ((prepare s).getDb k).Perm (s.getDb k) := by
  cases k <;> exact ⟨sortElems_sorted _, sortElems_perm _⟩

/-- `find(id)` (std::equal_range with `compare_member_id`) on a sorted database is exactly the
    list of elements tracking that id — one per wanted reference —, nothing is lost around it. -/
theorem find_returns_all_references (es : List Elem) (id : Int) (h : SortedById es) :
    (splitRange es id).2.1 = es.filter (fun e => e.mid == id) ∧
    (splitRange es id).1 ++ (splitRange es id).2.1 ++ (splitRange es id).2.2 = es := by
  constructor
  · rw [splitRange_sorted es id h]
  · simp [splitRange, List.takeWhile_append_dropWhile]

/-- First pass: a relation contributes one element per wanted reference (same position in the
    relations database, the member's own index), its counter is the number of those elements,
    and exactly the unwanted members are marked with ref 0. -/
theorem tracked_one_element_per_wanted_reference (c : Cfg) (r : Rel) (pos : Nat) :
    wantedCount c r =
      (trackElems c r pos .node).length + (trackElems c r pos .way).length + (trackElems c r pos .relation).length ∧
    (∀ k, (trackElems c r pos k).map (fun e => (k, e.mid)) = (wanted c r).filter (fun w => w.1 == k)) ∧
    (markMembers c r).length = r.members.length := by
  refine ⟨?_, ?_, by simp [markMembers]⟩
  · simp only [wantedCount, trackElems, List.length_map]
    generalize r.members.zipIdx = l
    induction l with
    | nil => simp
    | cons a l ih =>
      simp only [List.filter_cons]
      cases hk : a.1.kind <;> by_cases hw : wantedAt c r a.2 a.1 = true <;> simp [hw, ih] <;> omega
  · intro k
    simp only [trackElems, wanted, List.map_map, List.filter_map, List.filter_filter]
    generalize r.members.zipIdx = l
    induction l with
    | nil => simp
    | cons a l ih =>
      simp only [List.filter_cons]
      by_cases hw : wantedAt c r a.2 a.1 = true <;> by_cases hk : a.1.kind = k <;>
        simp_all [Function.comp_def]

/-! ### Completion: exactly once, exactly when the counter reaches zero -/

/-- `_partial` of `completed_exactly_once` — the induction step for one arriving object.
    `ps` are the relation positions of the elements in the object's range (one per reference).
    For every relation `p` whose counter `m ≥ 1` is at least the number of its references in the
    range (the invariant: counter = outstanding references): `handle_complete_relation` runs for
    `p` exactly once if this object supplies all `m` outstanding references (also when `p`
    references the object several times), and not at all otherwise; the counter ends at
    `m -` (references in the range).  MISSING for the global statement: preservation of
    "counter = outstanding references" over the whole run (see the header). -/
theorem completed_exactly_once_partial (c : Cfg) (p : Nat) (ps : List Nat) (s : State) (m : Nat)
    (hm : missingAt s p = some m) (hcount : ps.count p ≤ m) :
    missingAt (completeLoop c s ps) p = some (m - ps.count p) ∧
    firedCount p (completeLoop c s ps).log =
      firedCount p s.log + (if ps.count p = m ∧ 1 ≤ m then 1 else 0) :=
  completeLoop_fires c p ps s m hm hcount

/-- The relation is taken out of the relations database by its completion and no other
    relation's counter is touched by it: a completed relation cannot be listed as incomplete
    through its counter, and cannot complete twice. -/
theorem completion_is_local (c : Cfg) (s : State) (pos : Nat) :
    (∀ p, firedCount p (handleComplete c s pos).log = firedCount p s.log + (if p = pos then 1 else 0)) ∧
    (∀ p, p ≠ pos → missingAt (handleComplete c s pos) p = missingAt s p) :=
  ⟨(handleComplete_frame c s pos).1, (handleComplete_frame c s pos).2.1⟩

/-! ### Shared members -/

/-- `_partial` of `shared_member_kept_until_last` — one `remove(member_id, relation_id)`:
    the stash item is released exactly when the range has ONE non-removed element left
    (references counted with multiplicity, over all relations and duplicates inside one
    relation); otherwise the stash is untouched, so the object stays retrievable.
    MISSING for the global statement: as in the header. -/
theorem shared_member_kept_until_last_partial (c : Cfg) (s : State) (k : Kind) (id relid : Int) :
    (countNotRemoved (splitRange (s.getDb k) id).2.1 ≠ 1 → (dbRemove c s k id relid).stash = s.stash) ∧
    (∀ e0 rest, (splitRange (s.getDb k) id).2.1 = e0 :: rest → countNotRemoved (e0 :: rest) = 1 →
      (dbRemove c s k id relid).stash = stashRemove s.stash e0.h) := by
  unfold dbRemove
  generalize splitRange (s.getDb k) id = sr
  obtain ⟨pre, mid, post⟩ := sr
  simp only []
  constructor
  · intro h
    cases mid with
    | nil => rfl
    | cons e0 rest =>
      have : (countNotRemoved (e0 :: rest) == 1) = false := by simpa using h
      cases k <;> simp [State.setDb, this]
  · intro e0 rest hr h1
    subst hr
    have : (countNotRemoved (e0 :: rest) == 1) = true := by simpa using h1
    cases k <;> simp [State.setDb, this]

/-! ### F7: lookups after release -/

def cfgAll (fixed : Bool) : Cfg :=
  { tn := true, tw := true, tr := true, newRel := fun _ => true, newMem := fun _ _ _ => true,
    hasCallback := false, maxBuf := 819200, wr := 0, fixed := fixed }

/-- relation 1 ∋ way 10; way 10 arrives (relation 1 completes, way 10 is released);
    then `get_member_way(10)` -/
def f7Rels : List Rel := [⟨1, 0, [⟨.way, 10⟩]⟩]
def f7Ops : List Op := [.obj ⟨.way, 10, 7⟩, .query .way 10]

theorem f7_domain (fixed : Bool) : Domain (cfgAll fixed) f7Rels f7Ops := by
  cases fixed <;> (unfold Domain; decide +kernel)

/-- The clause "a later lookup reports released objects as absent" is FALSE for the current
    `MembersDatabaseCommon::remove` (finding F7, key `members-db-lookup-after-release`): the
    handle stays in the element and `get_object` computes a pointer from the removed stash entry. -/
theorem released_lookup_absent_false : ¬ released_lookup_absent (cfgAll false) := by
  intro h
  exact h f7Rels f7Ops (f7_domain false) .way 10 (by decide +kernel)

/-- `_partial` of `released_lookup_absent`, for the REPAIRED `remove()` (`fixed = true`:
    the handles of the range are invalidated together with the stash item), on databases
    sorted by member id: right after the `remove` call that releases the object, a lookup of
    its id gives `absent` (nullptr).  MISSING for the global statement: as in the header
    (in particular "lookups inside callbacks always find a live item"). -/
theorem released_lookup_absent_partial (c : Cfg) (hfix : c.fixed = true) (s : State) (k : Kind) (id relid : Int)
    (hs : SortedById (s.getDb k))
    (hlast : countNotRemoved (splitRange (s.getDb k) id).2.1 = 1) :
    (dbRemove c s k id relid).lookup k id = .absent := by
  have hsplit := splitRange_sorted (s.getDb k) id hs
  have hget : ∀ (st : Stash) (ub : Bool) (es : List Elem),
      ((({ s with stash := st, ub := ub } : State).setDb k es).getDb k = es) := by
    intro st ub es; cases k <;> rfl
  unfold dbRemove
  rw [hsplit] at hlast ⊢
  simp only [] at hlast ⊢
  cases hm : (s.getDb k).filter (fun e => e.mid == id) with
  | nil => rw [hm] at hlast; simp [countNotRemoved] at hlast
  | cons e0 rest =>
    rw [hm] at hlast
    have h1 : (countNotRemoved (e0 :: rest) == 1) = true := by simpa using hlast
    simp only [h1, hfix, Bool.and_self, if_true]
    unfold State.lookup
    split
    · rfl
    · rw [hget]
      unfold dbLookup
      have hmid2 : ∀ e ∈ markFirst (fun p => Option.map (fun x => x.id) (s.relAt p)) relid
          (List.map (fun e : Elem => { e with h := 0 }) (e0 :: rest)), e.mid = id ∧ e.h = 0 := by
        apply markFirst_keeps _ _ (fun m h => m = id ∧ h = 0)
        intro e he
        rw [List.mem_map] at he
        obtain ⟨e', he', rfl⟩ := he
        have : e' ∈ (s.getDb k).filter (fun e => e.mid == id) := by rw [hm]; exact he'
        have := (List.mem_filter.mp this).2
        exact ⟨by simpa using this, rfl⟩
      rw [splitRange_rebuild _ _ _ id
        (fun e he => by simpa using (List.mem_filter.mp he).2)
        (fun e he => (hmid2 e he).1)
        (fun e he => by simpa using (List.mem_filter.mp he).2)]
      split
      · rfl
      · rename_i e es hme
        have := (hmid2 e (by rw [hme]; exact List.mem_cons_self ..)).2
        simp [this]

/-! ### Non-vacuity and witnesses (kernel evaluation of the model on concrete histories) -/

/-- a history with a shared member (way 10 in relations 1 and 2), a duplicate reference
    (relation 3 has node 5 twice), a missing member (relation 4 wants way 99) and an unrelated
    object (node 6); lookups of way 10 between the two completions and afterwards -/
def demoRels : List Rel :=
  [⟨1, 0, [⟨.way, 10⟩, ⟨.way, 11⟩]⟩, ⟨2, 0, [⟨.way, 10⟩]⟩, ⟨3, 0, [⟨.node, 5⟩, ⟨.node, 5⟩]⟩, ⟨4, 0, [⟨.way, 10⟩, ⟨.way, 99⟩]⟩]
def demoOps : List Op :=
  [.obj ⟨.node, 5, 50⟩, .obj ⟨.node, 6, 60⟩, .obj ⟨.way, 10, 100⟩, .query .way 10, .obj ⟨.way, 11, 110⟩, .query .way 10]

example : Domain (cfgAll false) demoRels demoOps := by unfold Domain; decide +kernel

/-- every clause of the property on the demo history (current code): relation 3 completes once
    although node 5 is referenced twice; relation 2 completes when way 10 arrives, relation 1
    when way 11 arrives; way 10 stays available (relation 4 still needs it); relation 4 is
    never completed and is the incomplete list; node 6 is reported as not in any relation. -/
example : (run (cfgAll false) demoRels demoOps).events =
    [.complete 2 3 0 [(⟨.node, 5⟩, .found ⟨.node, 5, 50⟩), (⟨.node, 5⟩, .found ⟨.node, 5, 50⟩)],
     .notIn .node 6,
     .complete 1 2 0 [(⟨.way, 10⟩, .found ⟨.way, 10, 100⟩)],
     .query .way 10 (.found ⟨.way, 10, 100⟩),
     .complete 0 1 0 [(⟨.way, 10⟩, .found ⟨.way, 10, 100⟩), (⟨.way, 11⟩, .found ⟨.way, 11, 110⟩)],
     .query .way 10 (.found ⟨.way, 10, 100⟩)] ∧
    (run (cfgAll false) demoRels demoOps).incomplete = [4] := by decide +kernel

/-- the hypotheses of `completed_exactly_once_partial` are satisfiable with a firing loop:
    counter 2, two references in the range -/
example : ∃ s : State, missingAt s 0 = some 2 ∧ [0, 0].count 0 ≤ 2 :=
  ⟨{ rdb := #[⟨1, 2⟩] }, by decide, by decide⟩

/-- the hypotheses of `released_lookup_absent_partial` are satisfiable: the state of the F7
    witness before the release (repaired code) -/
example : ∃ s : State, SortedById (s.getDb .way) ∧ countNotRemoved (splitRange (s.getDb .way) 10).2.1 = 1 :=
  ⟨{ wdb := [⟨10, some 0, 0, 2⟩] }, by simp [SortedById, State.getDb], by decide⟩

/-- F7 witness: current code gives a wild pointer, repaired code gives nullptr -/
example : (run (cfgAll false) f7Rels f7Ops).events =
    [.complete 0 1 0 [(⟨.way, 10⟩, .found ⟨.way, 10, 7⟩)], .query .way 10 .wild] := by decide +kernel

example : (run (cfgAll true) f7Rels f7Ops).events =
    [.complete 0 1 0 [(⟨.way, 10⟩, .found ⟨.way, 10, 7⟩)], .query .way 10 .absent] := by decide +kernel

end Osmium.RelMgr.C11
