/-
C11 — Relation managers complete each relation exactly once with all its members.

Model: Osmium/Model/RelMgr.lean (statement-by-statement transcription of RelationsManager,
MembersDatabase, RelationsDatabase; ItemStash abstractly).  The model's main line is the
REPAIRED `MembersDatabaseCommon::remove` (`Cfg.fixed = true`, /repo commit 5127b06); `fixed =
false` is the code before the repair and is kept for the regression witness of finding F7.
Lemmas: Osmium/Lemmas/RelMgr.lean (steps), RelMgrInv.lean (run-long invariant `Inv3`:
counter = outstanding wanted references, relation slots of the stash, handle ranges, skeleton of
the member databases, completion log), RelMgrSpec.lean (whole runs).

GLOBAL theorems, for ALL configurations (both values of `fixed`), relation sets, interest
predicates and histories in the domain `Dom` (unique relation ids; member stream accepted by
CheckOrder, i.e. strictly ascending, and duplicate free):
  completed_exactly_once, completed_at_last_member, never_completed_without_wanted_members,
  callbacks_are_the_stored_relations, incomplete_listed, not_in_any_relation_reported,
  flush_threshold_irrelevant.
Step-level (`_partial`, with what is missing stated at each):
  members_available_in_callback_partial, shared_member_kept_until_last_partial,
  released_lookup_absent_partial; completed_exactly_once_partial is the loop step from which the
  global one is built.  Regression witness: released_lookup_absent_false (code before 5127b06).
-/
import Osmium.Lemmas.RelMgrSpec

namespace Osmium.RelMgr.C11

open Osmium.RelMgr Osmium.Order

/-! ### Specification with sets -/

/-- relations of interest: `new_relation` said yes -/
abbrev interesting (c : Cfg) (rels : List Rel) : List Rel := interestingRels c rels

/-- wanted members of `r` (type, ref), with multiplicity, in member order -/
abbrev wanted (c : Cfg) (r : Rel) : List (Kind × Int) := wantedRefs c r

/-- (type, id) of the objects of enabled types among the ops, in order -/
abbrev seen (c : Cfg) (ops : List Op) : List (Kind × Int) := seenIds c ops

/-- `complete r ↔ wanted r ⊆ seen` -/
def complete (c : Cfg) (ops : List Op) (r : Rel) : Prop := ∀ w ∈ wanted c r, w ∈ seen c ops

instance (c : Cfg) (ops : List Op) (r : Rel) : Decidable (complete c ops r) := by
  unfold complete; exact inferInstance

/-- the property's domain: unique ids of the interesting relations, a member stream that
    CheckOrder accepts (strictly ascending by type and id) and that is duplicate free -/
abbrev Domain (c : Cfg) (rels : List Rel) (ops : List Op) : Prop := Dom c rels ops

/-! ### Completion: exactly once, at the last member, only with all members -/

/-- Every interesting relation with at least one wanted member is handed to the completion
    callback exactly once if all its wanted members occur in the input, and never otherwise. -/
theorem completed_exactly_once (c : Cfg) (rels : List Rel) (ops : List Op) (d : Domain c rels ops)
    (r : Rel) (hr : r ∈ interesting c rels) (hw : wanted c r ≠ []) :
    (callbacks (run c rels ops).events).count r.id = if complete c ops r then 1 else 0 := by
  obtain ⟨p, hp⟩ := List.getElem?_of_mem hr
  obtain ⟨h1, _, h3, h4⟩ := final_facts c rels ops d p r hp
  rw [h1]
  by_cases hc : complete c ops r
  · rw [if_pos hc]; exact h3.mpr ⟨hc, hw⟩
  · rw [if_neg hc]
    rcases h4 with h | h
    · exact h
    · exact absurd (h3.mp h).1 hc

/-- ... at the moment its last member arrives: if the callback count of `r` goes from 0 to 1
    when the history is extended from `n` to `n + 1` ops (both in the domain), then op `n + 1`
    made `r` complete; and conversely. -/
theorem completed_at_last_member (c : Cfg) (rels : List Rel) (ops : List Op) (n : Nat)
    (d0 : Domain c rels (ops.take n)) (d1 : Domain c rels (ops.take (n + 1)))
    (r : Rel) (hr : r ∈ interesting c rels) (hw : wanted c r ≠ []) :
    ((callbacks (run c rels (ops.take n)).events).count r.id = 0 ∧
      (callbacks (run c rels (ops.take (n + 1))).events).count r.id = 1) ↔
    (¬ complete c (ops.take n) r ∧ complete c (ops.take (n + 1)) r) := by
  rw [completed_exactly_once c rels _ d0 r hr hw, completed_exactly_once c rels _ d1 r hr hw]
  by_cases h0 : complete c (ops.take n) r <;> by_cases h1 : complete c (ops.take (n + 1)) r <;> simp [h0, h1]

/-- The corner the managers have: an interesting relation without any wanted member has no
    "last member" and is never completed (it is listed as incomplete, see `incomplete_listed`). -/
theorem never_completed_without_wanted_members (c : Cfg) (rels : List Rel) (ops : List Op) (d : Domain c rels ops)
    (r : Rel) (hr : r ∈ interesting c rels) (hw : wanted c r = []) :
    (callbacks (run c rels ops).events).count r.id = 0 := by
  obtain ⟨p, hp⟩ := List.getElem?_of_mem hr
  obtain ⟨h1, _, h3, h4⟩ := final_facts c rels ops d p r hp
  rw [h1]
  rcases h4 with h | h
  · exact h
  · exact absurd hw (h3.mp h).2

/-- What the callback receives is the stored copy of an interesting relation (same id and
    content), and `complete_relation` is never called through a dead handle. -/
theorem callbacks_are_the_stored_relations (c : Cfg) (rels : List Rel) (ops : List Op) (d : Domain c rels ops) :
    ∀ e ∈ (run c rels ops).events, match e with
      | .complete p rid cont _ => ∃ r, (interesting c rels)[p]? = some r ∧ rid = r.id ∧ cont = r.content
      | .completeWild _ => False
      | _ => True := by
  intro e he
  have i := final_inv3 c rels ops d
  rw [State.events, List.mem_reverse, (run_fields c rels ops).1] at he
  have := i.inv2.logok e he
  cases e with
  | complete p rid cont looks =>
    obtain ⟨hp, h1, h2⟩ := this
    have hp' : (interesting c rels)[p]? = some (interesting c rels)[p] := by simp [hp]
    have := RmOf_id c _ p _ hp'
    exact ⟨_, hp', by rw [h1, this.1], by rw [h2, this.2]⟩
  | completeWild q => exact this
  | notIn k id => trivial
  | query k id r => trivial
  | thrown => trivial

/-- `for_each_incomplete_relation` = the interesting relations never handed to the callback
    (in input order): relations with missing members are all listed, completed ones never. -/
theorem incomplete_listed (c : Cfg) (rels : List Rel) (ops : List Op) (d : Domain c rels ops) :
    (run c rels ops).incomplete =
      ((interesting c rels).filter (fun r => decide (r.id ∉ callbacks (run c rels ops).events))).map (·.id) :=
  incomplete_eq c rels ops d

/-- `node/way/relation_not_in_any_relation` is called exactly for the arriving objects (of
    enabled types) that no interesting relation wants. -/
theorem not_in_any_relation_reported (c : Cfg) (rels : List Rel) (ops : List Op) (d : Domain c rels ops)
    (k : Kind) (id : Int) :
    Event.notIn k id ∈ (run c rels ops).events ↔
      ((k, id) ∈ seen c ops ∧ ∀ r ∈ interesting c rels, (k, id) ∉ wanted c r) :=
  notIn_iff c rels ops d k id

/-- FULL STATEMENT (not yet a theorem, see `members_available_in_callback_partial`): inside the
    callback every wanted member is found and is the input object -/
def members_available_in_callback (c : Cfg) : Prop :=
  ∀ rels ops, Domain c rels ops →
    (∀ r ∈ interesting c rels, ∀ w ∈ wanted c r, w.2 ≠ 0) →
    ∀ pos rid cont looks,
    Event.complete pos rid cont looks ∈ (run c rels ops).events →
    ∀ ml ∈ looks, ∃ o ∈ seenObjs c ops, o.kind = ml.1.kind ∧ o.id = ml.1.ref ∧ ml.2 = .found o

/-- FULL STATEMENT (not yet a theorem for `fixed = true`, refuted for `fixed = false`): a lookup
    never yields a pointer into a released stash entry -/
def released_lookup_absent (c : Cfg) : Prop :=
  ∀ rels ops, Domain c rels ops → ∀ k id, Event.query k id .wild ∉ (run c rels ops).events

/-! ### Global theorem: output volume, flush threshold and flush callback are irrelevant -/

/-- Whatever the completion callback writes into the output buffer, whatever the flush
    threshold is and whether or not a flush callback is installed: callbacks, lookups,
    not-in-any-relation reports, the incomplete list, all databases and the stash are the same. -/
theorem flush_threshold_irrelevant (c : Cfg) (cb : Bool) (maxBuf wr : Nat) (rels : List Rel) (ops : List Op) :
    let d := { c with hasCallback := cb, maxBuf := maxBuf, wr := wr }
    (run d rels ops).events = (run c rels ops).events ∧
    (run d rels ops).incomplete = (run c rels ops).incomplete ∧
    (run d rels ops).stash = (run c rels ops).stash ∧
    (run d rels ops).rdb = (run c rels ops).rdb ∧
    (∀ k, (run d rels ops).getDb k = (run c rels ops).getDb k) := by
  intro d
  have hs : Sim (run d rels ops) (run c rels ops) :=
    sim_run (c := d) (d := c) ⟨rfl, rfl, rfl, rfl, rfl, rfl⟩ rels ops
  have hg := hs.getDb
  obtain ⟨h1, h2, _, _, _, _, _, h8⟩ := hs
  exact ⟨by simp [State.events, h8], by simp [State.incomplete, h1, h2], h1, h2, hg⟩

/-! ### The lookup structure -/

/-- `prepare_for_lookup` leaves every members database sorted by member id and with the same
    elements. -/
theorem prepare_sorts_by_member_id (s : State) (k : Kind) :
    SortedById ((prepare s).getDb k) ∧ ((prepare s).getDb k).Perm (s.getDb k) := by
  cases k <;> exact ⟨sortElems_sorted _, sortElems_perm _⟩

/-- `find(id)` (std::equal_range with `compare_member_id`) on a sorted database is exactly the
    list of elements tracking that id — one per wanted reference —, nothing is lost around it. -/
theorem find_returns_all_references (es : List Elem) (id : Int) (h : SortedById es) :
    (splitRange es id).2.1 = es.filter (fun e => e.mid == id) ∧
    (splitRange es id).1 ++ (splitRange es id).2.1 ++ (splitRange es id).2.2 = es := by
  constructor
  · rw [splitRange_sorted es id h]
  · simp [splitRange, List.takeWhile_append_dropWhile]

/-- First pass: a relation contributes one element per wanted reference (same position in the
    relations database, the member's own index), its counter is the number of those elements,
    and exactly the unwanted members are marked with ref 0. -/
theorem tracked_one_element_per_wanted_reference (c : Cfg) (r : Rel) (pos : Nat) :
    wantedCount c r =
      (trackElems c r pos .node).length + (trackElems c r pos .way).length + (trackElems c r pos .relation).length ∧
    (∀ k, (trackElems c r pos k).map (fun e => (k, e.mid)) = (wanted c r).filter (fun w => w.1 == k)) ∧
    (markMembers c r).length = r.members.length := by
  refine ⟨?_, ?_, by simp [markMembers]⟩
  · simp only [wantedCount, trackElems, List.length_map]
    generalize r.members.zipIdx = l
    induction l with
    | nil => simp
    | cons a l ih =>
      simp only [List.filter_cons]
      cases hk : a.1.kind <;> by_cases hw : wantedAt c r a.2 a.1 = true <;> simp [hw, ih] <;> omega
  · intro k
    simp only [trackElems, wantedRefs, List.map_map, List.filter_map, List.filter_filter]
    generalize r.members.zipIdx = l
    induction l with
    | nil => simp
    | cons a l ih =>
      simp only [List.filter_cons]
      by_cases hw : wantedAt c r a.2 a.1 = true <;> by_cases hk : a.1.kind = k <;>
        simp_all [Function.comp_def]

/-! ### Completion: exactly once, exactly when the counter reaches zero -/

/-- The loop step `completed_exactly_once` is built from (kept as its own obligation): for one
    arriving object, `ps` = relation positions of the elements in the object's range (one per
    reference).  For every relation `p` whose counter `m` is at least the number of its
    references in the range: `handle_complete_relation` runs for `p` exactly once if this object
    supplies all `m ≥ 1` outstanding references (also when `p` references the object several
    times), and not at all otherwise; the counter ends at `m -` (references in the range). -/
theorem completed_exactly_once_partial (c : Cfg) (p : Nat) (ps : List Nat) (s : State) (m : Nat)
    (hm : missingAt s p = some m) (hcount : ps.count p ≤ m) :
    missingAt (completeLoop c s ps) p = some (m - ps.count p) ∧
    firedCount p (completeLoop c s ps).log =
      firedCount p s.log + (if ps.count p = m ∧ 1 ≤ m then 1 else 0) :=
  completeLoop_fires c p ps s m hm hcount

/-- The relation is taken out of the relations database by its completion and no other
    relation's counter is touched by it: a completed relation cannot be listed as incomplete
    through its counter, and cannot complete twice. -/
theorem completion_is_local (c : Cfg) (s : State) (pos : Nat) :
    (∀ p, firedCount p (handleComplete c s pos).log = firedCount p s.log + (if p = pos then 1 else 0)) ∧
    (∀ p, p ≠ pos → missingAt (handleComplete c s pos) p = missingAt s p) :=
  ⟨(handleComplete_frame c s pos).1, (handleComplete_frame c s pos).2.1⟩

/-! ### Members inside the callback -/

/-- `_partial` of `members_available_in_callback` — the two steps it consists of:
    (1) the lookups the callback performs are evaluated in the state BEFORE any member of the
    relation is released (`handle_complete_relation` calls `complete_relation` first), one per
    member with `ref ≠ 0`, in member order; (2) a lookup whose range starts with a live handle
    returns exactly the stored object.
    MISSING for the full statement: the member-handle part of the run-long invariant ("all
    elements of the range of an arrived object carry its handle and the stash item is live while
    a non-removed element exists"), which needs the coupling "non-removed elements of p in a
    range = members of p not yet removed" inside `removeMembers`; until then the clause is
    covered on every run by the oracle monitor `member-not-available-in-callback` (plain, ASan
    and assert builds). -/
theorem members_available_in_callback_partial (c : Cfg) (s : State) (pos : Nat) (r : Rel)
    (hrel : s.relAt pos = some r) :
    (handleComplete c s pos).log =
      Event.complete pos r.id r.content
        ((r.members.filter (fun m => m.ref ≠ 0)).map (fun m => (m, s.lookup m.kind m.ref))) :: s.log ∧
    (∀ (k : Kind) (id : Int) (e : Elem) (rest : List Elem) (o : Obj), id ≠ 0 →
      (splitRange (s.getDb k) id).2.1 = e :: rest → e.h ≠ 0 → stashGet s.stash e.h = some (.obj o) →
      s.lookup k id = .found o) := by
  constructor
  · unfold handleComplete
    rw [hrel]
    simp only []
    rw [relRemove_log, (removeMembers_frame c r.id r.members _).2, (possiblyFlush_frame c _).2]
    rfl
  · intro k id e rest o hid hr hh hst
    unfold State.lookup dbLookup
    rw [if_neg hid, hr]
    simp [hh, hst]

/-! ### Shared members -/

/-- `_partial` of `shared_member_kept_until_last` — one `remove(member_id, relation_id)`:
    the stash item is released exactly when the range has ONE non-removed element left
    (references counted with multiplicity, over all relations and duplicates inside one
    relation); otherwise the stash is untouched, so the object stays retrievable.
    MISSING for the global statement ("stays available until the last relation needing it has
    been completed"): the member-handle part of the run-long invariant, see
    `members_available_in_callback_partial`; covered on every run by the oracle monitor
    `shared-member-released-early` and the members-database counts. -/
theorem shared_member_kept_until_last_partial (c : Cfg) (s : State) (k : Kind) (id relid : Int) :
    (countNotRemoved (splitRange (s.getDb k) id).2.1 ≠ 1 → (dbRemove c s k id relid).stash = s.stash) ∧
    (∀ e0 rest, (splitRange (s.getDb k) id).2.1 = e0 :: rest → countNotRemoved (e0 :: rest) = 1 →
      (dbRemove c s k id relid).stash = stashRemove s.stash e0.h) := by
  unfold dbRemove
  generalize splitRange (s.getDb k) id = sr
  obtain ⟨pre, mid, post⟩ := sr
  simp only []
  constructor
  · intro h
    cases mid with
    | nil => rfl
    | cons e0 rest =>
      have : (countNotRemoved (e0 :: rest) == 1) = false := by simpa using h
      cases k <;> simp [State.setDb, this]
  · intro e0 rest hr h1
    subst hr
    have : (countNotRemoved (e0 :: rest) == 1) = true := by simpa using h1
    cases k <;> simp [State.setDb, this]

/-! ### F7: lookups after release -/

def cfgAll (fixed : Bool) : Cfg :=
  { tn := true, tw := true, tr := true, newRel := fun _ => true, newMem := fun _ _ _ => true,
    hasCallback := false, maxBuf := 819200, wr := 0, fixed := fixed }

/-- relation 1 ∋ way 10; way 10 arrives (relation 1 completes, way 10 is released);
    then `get_member_way(10)` -/
def f7Rels : List Rel := [⟨1, 0, [⟨.way, 10⟩]⟩]
def f7Ops : List Op := [.obj ⟨.way, 10, 7⟩, .query .way 10]

theorem f7_domain (fixed : Bool) : Domain (cfgAll fixed) f7Rels f7Ops := by
  cases fixed <;> exact ⟨by decide +kernel, by decide +kernel, by decide +kernel⟩

/-- Regression witness of finding F7 (key `members-db-lookup-after-release`, repaired in /repo
    commit 5127b06): for `MembersDatabaseCommon::remove` as it was BEFORE the repair
    (`fixed = false`) the clause "a later lookup reports released objects as absent" is FALSE:
    the handle stays in the element and `get_object` computes a pointer from the removed stash
    entry. -/
theorem released_lookup_absent_false : ¬ released_lookup_absent (cfgAll false) := by
  intro h
  exact h f7Rels f7Ops (f7_domain false) .way 10 (by decide +kernel)

/-- `_partial` of `released_lookup_absent`, for the REPAIRED `remove()` (`fixed = true`:
    the handles of the range are invalidated together with the stash item), on databases
    sorted by member id: right after the `remove` call that releases the object, a lookup of
    its id gives `absent` (nullptr).  MISSING for the global statement `released_lookup_absent
    (fixed = true)`: the invariant "every element handle is invalid or refers to a live object
    item with the element's type and id" threaded through the chain dbRemove → … → runOps (its
    preservation by `dbRemove` uses exactly this theorem's argument); covered on every run by the
    oracle monitor `members-db-lookup-after-release` (stable key of F7) incl. the ASan build. -/
theorem released_lookup_absent_partial (c : Cfg) (hfix : c.fixed = true) (s : State) (k : Kind) (id relid : Int)
    (hs : SortedById (s.getDb k))
    (hlast : countNotRemoved (splitRange (s.getDb k) id).2.1 = 1) :
    (dbRemove c s k id relid).lookup k id = .absent := by
  have hsplit := splitRange_sorted (s.getDb k) id hs
  have hget : ∀ (st : Stash) (ub : Bool) (es : List Elem),
      ((({ s with stash := st, ub := ub } : State).setDb k es).getDb k = es) := by
    intro st ub es; cases k <;> rfl
  unfold dbRemove
  rw [hsplit] at hlast ⊢
  simp only [] at hlast ⊢
  cases hm : (s.getDb k).filter (fun e => e.mid == id) with
  | nil => rw [hm] at hlast; simp [countNotRemoved] at hlast
  | cons e0 rest =>
    rw [hm] at hlast
    have h1 : (countNotRemoved (e0 :: rest) == 1) = true := by simpa using hlast
    simp only [h1, hfix, Bool.and_self, if_true]
    unfold State.lookup
    split
    · rfl
    · rw [hget]
      unfold dbLookup
      have hmid2 : ∀ e ∈ markFirst (fun p => Option.map (fun x => x.id) (s.relAt p)) relid
          (List.map (fun e : Elem => { e with h := 0 }) (e0 :: rest)), e.mid = id ∧ e.h = 0 := by
        apply markFirst_keeps _ _ (fun m h => m = id ∧ h = 0)
        intro e he
        rw [List.mem_map] at he
        obtain ⟨e', he', rfl⟩ := he
        have : e' ∈ (s.getDb k).filter (fun e => e.mid == id) := by rw [hm]; exact he'
        have := (List.mem_filter.mp this).2
        exact ⟨by simpa using this, rfl⟩
      rw [splitRange_rebuild _ _ _ id
        (fun e he => by simpa using (List.mem_filter.mp he).2)
        (fun e he => (hmid2 e he).1)
        (fun e he => by simpa using (List.mem_filter.mp he).2)]
      split
      · rfl
      · rename_i e es hme
        have := (hmid2 e (by rw [hme]; exact List.mem_cons_self ..)).2
        simp [this]

/-! ### Non-vacuity and witnesses (kernel evaluation of the model on concrete histories) -/

/-- a history with a shared member (way 10 in relations 1 and 2), a duplicate reference
    (relation 3 has node 5 twice), a missing member (relation 4 wants way 99) and an unrelated
    object (node 6); lookups of way 10 between the two completions and afterwards -/
def demoRels : List Rel :=
  [⟨1, 0, [⟨.way, 10⟩, ⟨.way, 11⟩]⟩, ⟨2, 0, [⟨.way, 10⟩]⟩, ⟨3, 0, [⟨.node, 5⟩, ⟨.node, 5⟩]⟩, ⟨4, 0, [⟨.way, 10⟩, ⟨.way, 99⟩]⟩]
def demoOps : List Op :=
  [.obj ⟨.node, 5, 50⟩, .obj ⟨.node, 6, 60⟩, .obj ⟨.way, 10, 100⟩, .query .way 10, .obj ⟨.way, 11, 110⟩, .query .way 10]

example : Domain (cfgAll false) demoRels demoOps := ⟨by decide +kernel, by decide +kernel, by decide +kernel⟩

/-- every clause of the property on the demo history (current code): relation 3 completes once
    although node 5 is referenced twice; relation 2 completes when way 10 arrives, relation 1
    when way 11 arrives; way 10 stays available (relation 4 still needs it); relation 4 is
    never completed and is the incomplete list; node 6 is reported as not in any relation. -/
example : (run (cfgAll false) demoRels demoOps).events =
    [.complete 2 3 0 [(⟨.node, 5⟩, .found ⟨.node, 5, 50⟩), (⟨.node, 5⟩, .found ⟨.node, 5, 50⟩)],
     .notIn .node 6,
     .complete 1 2 0 [(⟨.way, 10⟩, .found ⟨.way, 10, 100⟩)],
     .query .way 10 (.found ⟨.way, 10, 100⟩),
     .complete 0 1 0 [(⟨.way, 10⟩, .found ⟨.way, 10, 100⟩), (⟨.way, 11⟩, .found ⟨.way, 11, 110⟩)],
     .query .way 10 (.found ⟨.way, 10, 100⟩)] ∧
    (run (cfgAll false) demoRels demoOps).incomplete = [4] := by decide +kernel

/-- the hypotheses of `completed_exactly_once_partial` are satisfiable with a firing loop:
    counter 2, two references in the range -/
example : ∃ s : State, missingAt s 0 = some 2 ∧ [0, 0].count 0 ≤ 2 :=
  ⟨{ rdb := #[⟨1, 2⟩] }, by decide, by decide⟩

/-- the hypotheses of `released_lookup_absent_partial` are satisfiable: the state of the F7
    witness before the release (repaired code) -/
example : ∃ s : State, SortedById (s.getDb .way) ∧ countNotRemoved (splitRange (s.getDb .way) 10).2.1 = 1 :=
  ⟨{ wdb := [⟨10, some 0, 0, 2⟩] }, by simp [SortedById, State.getDb], by decide⟩

/-- F7 witness: current code gives a wild pointer, repaired code gives nullptr -/
example : (run (cfgAll false) f7Rels f7Ops).events =
    [.complete 0 1 0 [(⟨.way, 10⟩, .found ⟨.way, 10, 7⟩)], .query .way 10 .wild] := by decide +kernel

example : (run (cfgAll true) f7Rels f7Ops).events =
    [.complete 0 1 0 [(⟨.way, 10⟩, .found ⟨.way, 10, 7⟩)], .query .way 10 .absent] := by decide +kernel

end Osmium.RelMgr.C11
