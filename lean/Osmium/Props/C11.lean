/-
C11 — Relation managers complete each relation exactly once with all its members.

Model: Osmium/Model/RelMgr.lean (statement-by-statement transcription of RelationsManager,
MembersDatabase, RelationsDatabase; ItemStash abstractly).  The model's main line is the
REPAIRED `MembersDatabaseCommon::remove` (`Cfg.fixed = true`, /repo commit 5127b06); `fixed =
false` is the code before the repair and is kept for the regression witness of finding F7.
Lemmas: Osmium/Lemmas/RelMgr.lean (steps), RelMgrInv.lean (run-long invariant `Inv3`:
counter = outstanding wanted references, relation slots of the stash, handle ranges, skeleton of
the member databases, completion log), RelMgrSpec.lean (whole runs).

GLOBAL theorems, for ALL configurations, relation sets, interest predicates and histories in the
domain `Dom` (unique relation ids; member stream accepted by CheckOrder, i.e. strictly ascending,
and duplicate free):
  completed_exactly_once, completed_at_last_member, never_completed_without_wanted_members,
  callbacks_are_the_stored_relations, incomplete_listed, not_in_any_relation_reported,
  flush_threshold_irrelevant — both values of `fixed`;
  members_available_in_callback, shared_member_kept_until_last, stored_members_are_needed,
  not_arrived_lookup_absent, query_events_are_lookups — both values of `fixed` (the run-long member-handle invariant of
  Lemmas/RelMgrHandles*.lean: an element's handle is invalid or points to the live stash copy of
  the arrived object of its type and id; an element is non-removed iff its relation has not been
  completed; inside `remove_members` the non-removed elements of the relation are its members not
  yet processed, with multiplicity; all elements of a range carry the same handle; an object item
  of the stash is live only while a non-removed element refers to it);
  released_lookup_absent — `fixed = true` (the repaired `remove()`), with the regression witness
  released_lookup_absent_false for the code before 5127b06.
completed_exactly_once_partial is the loop step from which the global theorem is built; the
step-level lemmas about lookups are in Lemmas/RelMgrHandlesSteps.lean.

VECTOR LEVEL (Model/RelMgrVec.lean, Lemmas/RelMgrVec.lean): the members databases as members_database.hpp
has them — one sorted vector per type, binary-search `find`, entries marked in place, and `add()` walking
an iterator range of that vector WHILE the completion callback calls `remove()` on it.
  vector_machine_refines          (vRun c rels ops).abs = run c rels ops for ALL arguments: every theorem above
                                  holds for the vector machine (vector_machine_completes_exactly_once, …);
  elements_stable_during_add      nothing the callback does moves, adds or drops an element of any members
                                  database: same size, same (member_id, relation_pos) at every index;
  add_loop_follows_live_vector    hence the loop that reads `elem.relation_pos` through the live iterator sees
                                  exactly the relation positions of the range found before the loop, and the
                                  iterator never leaves the vector;
  find_is_equal_range_all_ids, sorted_vector_finds_every_reference
                                  binary search with `compare_member_id` on the vector sorted with
                                  `element::operator<` returns exactly the entries of the id — for ALL ids,
                                  negative ones included (sort order = lookup order);
  sort_order_is_lookup_order      the same agreement stated on the TRANSLATED source comparators;
  layout_changes_only_in_first_pass  census of the uses of `m_elements` in the source: only track() and
                                  prepare_for_lookup() resize or reorder the vector.
The compiled model (Driver/C11.lean) runs the vector machine (O(log n + range) per operation), so that
histories with 10^4 … 10^6 members per type are part of the correspondence.
-/
import Osmium.Lemmas.RelMgrHandlesSpec
import Osmium.Lemmas.RelMgrHandlesSteps
import Osmium.Lemmas.RelMgrVec
import Osmium.Lemmas.SrcTie
import Osmium.Generated.C11Layout

namespace Osmium.RelMgr.C11

open Osmium.RelMgr Osmium.Order

/-! ### Specification with sets -/

/-- relations of interest: `new_relation` said yes -/
abbrev interesting (c : Cfg) (rels : List Rel) : List Rel := interestingRels c rels

/-- wanted members of `r` (type, ref), with multiplicity, in member order -/
abbrev wanted (c : Cfg) (r : Rel) : List (Kind × Int) := wantedRefs c r

/-- (type, id) of the objects of enabled types among the ops, in order -/
abbrev seen (c : Cfg) (ops : List Op) : List (Kind × Int) := seenIds c ops

/-- `complete r ↔ wanted r ⊆ seen` -/
def complete (c : Cfg) (ops : List Op) (r : Rel) : Prop := ∀ w ∈ wanted c r, w ∈ seen c ops

instance (c : Cfg) (ops : List Op) (r : Rel) : Decidable (complete c ops r) := by
  unfold complete; exact inferInstance

/-- the property's domain: unique ids of the interesting relations, a member stream that
    CheckOrder accepts (strictly ascending by type and id) and that is duplicate free -/
abbrev Domain (c : Cfg) (rels : List Rel) (ops : List Op) : Prop := Dom c rels ops

/-! ### Completion: exactly once, at the last member, only with all members -/

/-- Every interesting relation with at least one wanted member is handed to the completion
    callback exactly once if all its wanted members occur in the input, and never otherwise. -/
theorem completed_exactly_once (c : Cfg) (rels : List Rel) (ops : List Op) (d : Domain c rels ops)
    (r : Rel) (hr : r ∈ interesting c rels) (hw : wanted c r ≠ []) :
    (callbacks (run c rels ops).events).count r.id = if complete c ops r then 1 else 0 := by
  obtain ⟨p, hp⟩ := List.getElem?_of_mem hr
  obtain ⟨h1, _, h3, h4⟩ := final_facts c rels ops d p r hp
  rw [h1]
  by_cases hc : complete c ops r
  · rw [if_pos hc]; exact h3.mpr ⟨hc, hw⟩
  · rw [if_neg hc]
    rcases h4 with h | h
    · exact h
    · exact absurd (h3.mp h).1 hc

/-- ... at the moment its last member arrives: if the callback count of `r` goes from 0 to 1
    when the history is extended from `n` to `n + 1` ops (both in the domain), then op `n + 1`
    made `r` complete; and conversely. -/
theorem completed_at_last_member (c : Cfg) (rels : List Rel) (ops : List Op) (n : Nat)
    (d0 : Domain c rels (ops.take n)) (d1 : Domain c rels (ops.take (n + 1)))
    (r : Rel) (hr : r ∈ interesting c rels) (hw : wanted c r ≠ []) :
    ((callbacks (run c rels (ops.take n)).events).count r.id = 0 ∧
      (callbacks (run c rels (ops.take (n + 1))).events).count r.id = 1) ↔
    (¬ complete c (ops.take n) r ∧ complete c (ops.take (n + 1)) r) := by
  rw [completed_exactly_once c rels _ d0 r hr hw, completed_exactly_once c rels _ d1 r hr hw]
  by_cases h0 : complete c (ops.take n) r <;> by_cases h1 : complete c (ops.take (n + 1)) r <;> simp [h0, h1]

/-- The corner the managers have: an interesting relation without any wanted member has no
    "last member" and is never completed (it is listed as incomplete, see `incomplete_listed`). -/
theorem never_completed_without_wanted_members (c : Cfg) (rels : List Rel) (ops : List Op) (d : Domain c rels ops)
    (r : Rel) (hr : r ∈ interesting c rels) (hw : wanted c r = []) :
    (callbacks (run c rels ops).events).count r.id = 0 := by
  obtain ⟨p, hp⟩ := List.getElem?_of_mem hr
  obtain ⟨h1, _, h3, h4⟩ := final_facts c rels ops d p r hp
  rw [h1]
  rcases h4 with h | h
  · exact h
  · exact absurd hw (h3.mp h).2

/-- What the callback receives is the stored copy of an interesting relation (same id and
    content), and `complete_relation` is never called through a dead handle. -/
theorem callbacks_are_the_stored_relations (c : Cfg) (rels : List Rel) (ops : List Op) (d : Domain c rels ops) :
    ∀ e ∈ (run c rels ops).events, match e with
      | .complete p rid cont _ => ∃ r, (interesting c rels)[p]? = some r ∧ rid = r.id ∧ cont = r.content
      | .completeWild _ => False
      | _ => True := by
  intro e he
  have i := final_inv3 c rels ops d
  rw [State.events, List.mem_reverse, (run_fields c rels ops).1] at he
  have := i.inv2.logok e he
  cases e with
  | complete p rid cont looks =>
    obtain ⟨hp, h1, h2⟩ := this
    have hp' : (interesting c rels)[p]? = some (interesting c rels)[p] := by simp [hp]
    have := RmOf_id c _ p _ hp'
    exact ⟨_, hp', by rw [h1, this.1], by rw [h2, this.2]⟩
  | completeWild q => exact this
  | notIn k id => trivial
  | query k id r => trivial
  | thrown => trivial

/-- `for_each_incomplete_relation` = the interesting relations never handed to the callback
    (in input order): relations with missing members are all listed, completed ones never. -/
theorem incomplete_listed (c : Cfg) (rels : List Rel) (ops : List Op) (d : Domain c rels ops) :
    (run c rels ops).incomplete =
      ((interesting c rels).filter (fun r => decide (r.id ∉ callbacks (run c rels ops).events))).map (·.id) :=
  incomplete_eq c rels ops d

/-- `node/way/relation_not_in_any_relation` is called exactly for the arriving objects (of
    enabled types) that no interesting relation wants. -/
theorem not_in_any_relation_reported (c : Cfg) (rels : List Rel) (ops : List Op) (d : Domain c rels ops)
    (k : Kind) (id : Int) :
    Event.notIn k id ∈ (run c rels ops).events ↔
      ((k, id) ∈ seen c ops ∧ ∀ r ∈ interesting c rels, (k, id) ∉ wanted c r) :=
  notIn_iff c rels ops d k id

/-! ### Global theorem: output volume, flush threshold and flush callback are irrelevant -/

/-- Whatever the completion callback writes into the output buffer, whatever the flush
    threshold is and whether or not a flush callback is installed: callbacks, lookups,
    not-in-any-relation reports, the incomplete list, all databases and the stash are the same. -/
theorem flush_threshold_irrelevant (c : Cfg) (cb : Bool) (maxBuf wr : Nat) (rels : List Rel) (ops : List Op) :
    let d := { c with hasCallback := cb, maxBuf := maxBuf, wr := wr }
    (run d rels ops).events = (run c rels ops).events ∧
    (run d rels ops).incomplete = (run c rels ops).incomplete ∧
    (run d rels ops).stash = (run c rels ops).stash ∧
    (run d rels ops).rdb = (run c rels ops).rdb ∧
    (∀ k, (run d rels ops).getDb k = (run c rels ops).getDb k) := by
  intro d
  have hs : Sim (run d rels ops) (run c rels ops) :=
    sim_run (c := d) (d := c) ⟨rfl, rfl, rfl, rfl, rfl, rfl⟩ rels ops
  have hg := hs.getDb
  obtain ⟨h1, h2, _, _, _, _, _, h8⟩ := hs
  exact ⟨by simp [State.events, h8], by simp [State.incomplete, h1, h2], h1, h2, hg⟩

/-! ### The lookup structure -/

/-- `prepare_for_lookup` leaves every members database sorted by member id and with the same
    elements. -/
theorem prepare_sorts_by_member_id (s : State) (k : Kind) :
    SortedById ((prepare s).getDb k) ∧ ((prepare s).getDb k).Perm (s.getDb k) := by
  cases k <;> exact ⟨sortElems_sorted _, sortElems_perm _⟩

/-- `find(id)` (std::equal_range with `compare_member_id`) on a sorted database is exactly the
    list of elements tracking that id — one per wanted reference —, nothing is lost around it. -/
theorem find_returns_all_references (es : List Elem) (id : Int) (h : SortedById es) :
    (splitRange es id).2.1 = es.filter (fun e => e.mid == id) ∧
    (splitRange es id).1 ++ (splitRange es id).2.1 ++ (splitRange es id).2.2 = es := by
  constructor
  · rw [splitRange_sorted es id h]
  · simp [splitRange, List.takeWhile_append_dropWhile]

/-- First pass: a relation contributes one element per wanted reference (same position in the
    relations database, the member's own index), its counter is the number of those elements,
    and exactly the unwanted members are marked with ref 0. -/
theorem tracked_one_element_per_wanted_reference (c : Cfg) (r : Rel) (pos : Nat) :
    wantedCount c r =
      (trackElems c r pos .node).length + (trackElems c r pos .way).length + (trackElems c r pos .relation).length ∧
    (∀ k, (trackElems c r pos k).map (fun e => (k, e.mid)) = (wanted c r).filter (fun w => w.1 == k)) ∧
    (markMembers c r).length = r.members.length := by
  refine ⟨?_, ?_, by simp [markMembers]⟩
  · simp only [wantedCount, trackElems, List.length_map]
    generalize r.members.zipIdx = l
    induction l with
    | nil => simp
    | cons a l ih =>
      simp only [List.filter_cons]
      cases hk : a.1.kind <;> by_cases hw : wantedAt c r a.2 a.1 = true <;> simp [hw, ih] <;> omega
  · intro k
    simp only [trackElems, wantedRefs, List.map_map, List.filter_map, List.filter_filter]
    generalize r.members.zipIdx = l
    induction l with
    | nil => simp
    | cons a l ih =>
      simp only [List.filter_cons]
      by_cases hw : wantedAt c r a.2 a.1 = true <;> by_cases hk : a.1.kind = k <;>
        simp_all [Function.comp_def]

/-! ### Completion: exactly once, exactly when the counter reaches zero -/

/-- The loop step `completed_exactly_once` is built from (kept as its own obligation): for one
    arriving object, `ps` = relation positions of the elements in the object's range (one per
    reference).  For every relation `p` whose counter `m` is at least the number of its
    references in the range: `handle_complete_relation` runs for `p` exactly once if this object
    supplies all `m ≥ 1` outstanding references (also when `p` references the object several
    times), and not at all otherwise; the counter ends at `m -` (references in the range). -/
theorem completed_exactly_once_partial (c : Cfg) (p : Nat) (ps : List Nat) (s : State) (m : Nat)
    (hm : missingAt s p = some m) (hcount : ps.count p ≤ m) :
    missingAt (completeLoop c s ps) p = some (m - ps.count p) ∧
    firedCount p (completeLoop c s ps).log =
      firedCount p s.log + (if ps.count p = m ∧ 1 ≤ m then 1 else 0) :=
  completeLoop_fires c p ps s m hm hcount

/-- The relation is taken out of the relations database by its completion and no other
    relation's counter is touched by it: a completed relation cannot be listed as incomplete
    through its counter, and cannot complete twice. -/
theorem completion_is_local (c : Cfg) (s : State) (pos : Nat) :
    (∀ p, firedCount p (handleComplete c s pos).log = firedCount p s.log + (if p = pos then 1 else 0)) ∧
    (∀ p, p ≠ pos → missingAt (handleComplete c s pos) p = missingAt s p) :=
  ⟨(handleComplete_frame c s pos).1, (handleComplete_frame c s pos).2.1⟩

/-! ### Members inside the callback -/

/-- Inside the completion callback every wanted member is available and is the input object:
    for every `complete_relation(r)` of a run, the lookups performed at callback time (state
    before any member of `r` is released) are one per wanted member of `r` with `ref ≠ 0`, in
    member order (`get_member_*(0)` is nullptr by definition), and each returns the object of that
    type and id that arrived in the input.  All configurations (both variants of `remove()`). -/
theorem members_available_in_callback (c : Cfg) (rels : List Rel) (ops : List Op) (d : Domain c rels ops)
    (pos : Nat) (rid : Int) (cont : Nat) (looks : List (Member × Lookup))
    (h : Event.complete pos rid cont looks ∈ (run c rels ops).events) :
    ∃ r, (interesting c rels)[pos]? = some r ∧ rid = r.id ∧
      looks.map (fun ml => (ml.1.kind, ml.1.ref)) = (wanted c r).filter (fun w => w.2 ≠ 0) ∧
      ∀ ml ∈ looks, ∃ o ∈ seenObjs c ops, o.kind = ml.1.kind ∧ o.id = ml.1.ref ∧ ml.2 = .found o := by
  obtain ⟨r, hr, h1, h2⟩ := callback_lookups c rels ops d pos rid cont looks h
  obtain ⟨r', hr', hid, _⟩ := callbacks_are_the_stored_relations c rels ops d _ h
  rw [hr] at hr'
  cases hr'
  exact ⟨r, hr, hid, h1, h2⟩

/-! ### Shared members -/

/-- An object stays retrievable until the last relation needing it has been completed: at every
    point `n` of a history in the domain, an object `o` that has arrived and that is wanted by
    some interesting relation `r` which is not yet complete (some wanted member of `r` has not
    arrived) is found by `get_member_*` and is the input object — however many other relations
    referencing `o` have been completed and released their reference before, and however often
    `r` or the others reference it (`wanted` is with multiplicity).  All configurations. -/
theorem shared_member_kept_until_last (c : Cfg) (rels : List Rel) (ops : List Op) (d : Domain c rels ops) (n : Nat)
    (o : Obj) (ho : o ∈ seenObjs c (ops.take n)) (hid : o.id ≠ 0)
    (r : Rel) (hr : r ∈ interesting c rels) (hw : (o.kind, o.id) ∈ wanted c r)
    (hnc : ¬ complete c (ops.take n) r) :
    (run c rels (ops.take n)).lookup o.kind o.id = .found o := by
  have dn := d.take n
  apply lookup_kept c rels _ dn o ho hid r hr hw
  intro hmem
  have hcnt := completed_exactly_once c rels _ dn r hr (List.ne_nil_of_mem hw)
  rw [if_neg hnc] at hcnt
  exact absurd (List.count_pos_iff.mpr hmem) (by omega)

/-- ... and not longer: at every point `n` of a history in the domain, every object item that is
    live in the stash of the members databases is the copy of an arrived object that some
    interesting relation wants and that is not yet complete (objects with id 0 are never released:
    `remove_members` skips `ref == 0`).  All configurations. -/
theorem stored_members_are_needed (c : Cfg) (rels : List Rel) (ops : List Op) (d : Domain c rels ops) (n : Nat)
    (h : Nat) (o : Obj) (hg : stashGet (run c rels (ops.take n)).stash h = some (.obj o)) :
    o ∈ seenObjs c (ops.take n) ∧ ∃ r ∈ interesting c rels, (o.kind, o.id) ∈ wanted c r ∧
      (o.id = 0 ∨ ¬ complete c (ops.take n) r) := by
  have dn := d.take n
  obtain ⟨h1, r, hr, hw, h2⟩ := object_items_needed c rels _ dn h o hg
  refine ⟨h1, r, hr, hw, ?_⟩
  rcases h2 with h2 | h2
  · exact Or.inl h2
  · right
    intro hc
    have hcnt := completed_exactly_once c rels _ dn r hr (List.ne_nil_of_mem hw)
    rw [if_pos hc] at hcnt
    exact h2 (List.count_pos_iff.mp (by omega))

/-- Before an object has arrived its lookup is nullptr, whatever wants it.  All configurations. -/
theorem not_arrived_lookup_absent (c : Cfg) (rels : List Rel) (ops : List Op) (d : Domain c rels ops) (n : Nat)
    (k : Kind) (id : Int) (hns : (k, id) ∉ seen c (ops.take n)) :
    (run c rels (ops.take n)).lookup k id = .absent :=
  lookup_not_arrived c rels _ (d.take n) k id hns

/-- The `get_member_*` calls made between two objects (the `query` ops of a history) return the
    lookup in the state the run has reached at that op — so the three lookup theorems, stated for
    every point `n` of a history, describe every logged query. -/
theorem query_events_are_lookups (c : Cfg) (rels : List Rel) (ops : List Op) (k : Kind) (id : Int) (res : Lookup)
    (h : Event.query k id res ∈ (run c rels ops).events) :
    ∃ n, ops[n]? = some (.query k id) ∧ res = (run c rels (ops.take n)).lookup k id :=
  Osmium.RelMgr.query_events_are_lookups c rels ops k id res h

/-! ### Vector level: the sorted element vector, binary search, `remove()` inside the loop of `add()` -/

/-- The vector machine (one sorted `std::vector<element>` per member type, `std::equal_range` by binary
    search, marks in place, `add()` iterating over an index range of the live vector while the completion
    callback runs `remove()`) implements the abstract model, for ALL configurations, relation sets and
    histories — no domain hypothesis. -/
theorem vector_machine_refines (c : Cfg) (rels : List Rel) (ops : List Op) :
    (vRun c rels ops).abs = run c rels ops :=
  vrun_abs c rels ops

/-- `remove()` during `add()`'s iteration does not move elements: one iteration of the loop in
    `MembersDatabase::add` — decrement, and if the counter reaches zero the whole
    `handle_complete_relation` (callback, flush, `remove()` of every member, stash removals, handle
    invalidation, relation removal) — leaves every members database with the same number of elements and the
    same (member_id, relation_pos) at every index.  (The iterators `add()` holds stay valid and keep
    pointing at the same entries.) -/
theorem elements_stable_during_add (c : Cfg) (v : VState) (pos : Nat) (hs : Sorted3 v.abs) (k : Kind) :
    ((vCompleteStep c v pos).getDb k).size = (v.getDb k).size ∧
    ∀ i : Nat, (((vCompleteStep c v pos).getDb k)[i]?).map (fun e : Elem => (e.mid, e.rpos)) =
      ((v.getDb k)[i]?).map (fun e : Elem => (e.mid, e.rpos)) := by
  have h := vCompleteStep_stable c v pos hs k
  refine ⟨by simpa using skel_length h, fun i => ?_⟩
  have := congrArg (fun l => l[i]?) h
  simpa [skel, List.getElem?_map] using this

/-- The loop of `add()` reads `elem.relation_pos` through its iterator from the vector AS IT IS at that
    iteration; because of `elements_stable_during_add` this is the loop over the relation positions of the
    range found before the loop (what the abstract model and all theorems above use), and the iterator
    never leaves the vector. -/
theorem add_loop_follows_live_vector (c : Cfg) (k : Kind) (n : Nat) (v : VState) (i : Nat)
    (hs : Sorted3 v.abs) (hb : i + n ≤ (v.getDb k).size) :
    (vCompleteLoop c k v i n).abs = completeLoop c v.abs ((((v.getDb k).toList.drop i).take n).map (·.rpos)) :=
  vCompleteLoop_abs c k n v i hs hb

/-- `find(id)` — two binary searches that only evaluate `compare_member_id` — on a vector sorted by member
    id returns the index range of exactly the entries with that id; everything before is smaller, everything
    after larger.  For ALL ids (negative, zero, positive). -/
theorem find_is_equal_range_all_ids (es : Array Elem) (id : Int) (h : SortedById es.toList) :
    ((es.toList.drop (vFind es id).1).take ((vFind es id).2 - (vFind es id).1)) = es.toList.filter (fun e => e.mid == id) ∧
    (∀ e ∈ es.toList.take (vFind es id).1, e.mid < id) ∧
    (∀ e ∈ es.toList.drop (vFind es id).2, id < e.mid) := by
  obtain ⟨h1, h2⟩ := vFind_spec es id h
  have hsr := splitRange_sorted es.toList id h
  have happ := splitRange_append es.toList id
  generalize splitRange es.toList id = sr at h1 h2 hsr happ
  obtain ⟨pre, mid, post⟩ := sr
  simp only [Prod.mk.injEq] at hsr
  obtain ⟨hpre, hmid, hpost⟩ := hsr
  simp only [] at h1 h2 happ
  rw [h1, h2, ← hmid]
  have e1 : es.toList.drop pre.length = mid ++ post := by
    rw [← happ, List.append_assoc, List.drop_left]
  have e2 : es.toList.take pre.length = pre := by
    rw [← happ, List.append_assoc, List.take_left]
  have e3 : es.toList.drop (pre.length + mid.length) = post := by
    rw [← happ, ← List.length_append, List.drop_left]
  refine ⟨?_, ?_, ?_⟩
  · rw [e1, Nat.add_sub_cancel_left, List.take_left]
  · rw [e2, hpre]; intro e he; simpa using (List.mem_filter.mp he).2
  · rw [e3, hpost]; intro e he; simpa using (List.mem_filter.mp he).2

/-- Sort order = lookup order: after `prepare_for_lookup` (`std::sort` with `element::operator<` on the
    tracked entries, all handles still invalid) the binary search with `compare_member_id` finds every
    tracked reference to an id — whatever the ids are, several different negative ids included. -/
theorem sorted_vector_finds_every_reference (es : Array Elem) (id : Int) (h0 : ∀ e ∈ es.toList, e.h = 0) :
    (((vSort es).toList.drop (vFind (vSort es) id).1).take ((vFind (vSort es) id).2 - (vFind (vSort es) id).1)).Perm
      (es.toList.filter (fun e => e.mid == id)) := by
  have hs : SortedById (vSort es).toList := by rw [vSort_toList es h0]; exact sortElems_sorted _
  rw [(find_is_equal_range_all_ids (vSort es) id hs).1, vSort_toList es h0]
  exact (sortElems_perm _).filter _

/-- every theorem of this file about `run` is a theorem about the vector machine; the two central ones
    spelled out: exactly-once completion … -/
theorem vector_machine_completes_exactly_once (c : Cfg) (rels : List Rel) (ops : List Op) (d : Domain c rels ops)
    (r : Rel) (hr : r ∈ interesting c rels) (hw : wanted c r ≠ []) :
    (callbacks (vRun c rels ops).abs.events).count r.id = if complete c ops r then 1 else 0 := by
  rw [vrun_abs]; exact completed_exactly_once c rels ops d r hr hw

/-- … and every wanted member retrievable and identical to the input object inside the callback -/
theorem vector_machine_members_available (c : Cfg) (rels : List Rel) (ops : List Op) (d : Domain c rels ops)
    (pos : Nat) (rid : Int) (cont : Nat) (looks : List (Member × Lookup))
    (h : Event.complete pos rid cont looks ∈ (vRun c rels ops).abs.events) :
    ∃ r, (interesting c rels)[pos]? = some r ∧ rid = r.id ∧
      looks.map (fun ml => (ml.1.kind, ml.1.ref)) = (wanted c r).filter (fun w => w.2 ≠ 0) ∧
      ∀ ml ∈ looks, ∃ o ∈ seenObjs c ops, o.kind = ml.1.kind ∧ o.id = ml.1.ref ∧ ml.2 = .found o := by
  rw [vrun_abs] at h; exact members_available_in_callback c rels ops d pos rid cont looks h

/-- the hypothesis `Sorted3` of the vector-level theorems holds from `prepare_for_lookup` on: after the
    first pass … -/
example (c : Cfg) (rels : List Rel) : Sorted3 (vFirstPass c rels).abs := by
  rw [vFirstPass_abs]; exact firstPass_sorted3 c rels

/-- … and it is kept by every iteration of the loop in `add()` -/
example (c : Cfg) (v : VState) (pos : Nat) (hs : Sorted3 v.abs) : Sorted3 (vCompleteStep c v pos).abs := by
  rw [vCompleteStep_abs c v pos hs]; exact completeStep_sorted3 c _ pos hs

/-- a vector with two different negative ids (and handles still invalid): hypotheses of
    `sorted_vector_finds_every_reference` -/
example : ∀ e ∈ (#[⟨-1, some 0, 0, 0⟩, ⟨-2, some 0, 1, 0⟩, ⟨5, some 1, 0, 0⟩] : Array Elem).toList, e.h = 0 := by decide

/-- Source census (Generated/C11Layout.lean, regenerated from members_database.hpp on every run): the only
    member functions that change the LAYOUT of `m_elements` (its size or the position of an entry) are
    `track()` and `prepare_for_lookup()` — both first-pass only (`assert(m_init_phase)`).  In particular
    nothing reachable from the completion callback (`remove()`, `get_object()`, `count()`, `find()`) resizes or
    reorders the vector `add()` is iterating over: the source-side premise of `elements_stable_during_add`
    (a syntactic census of the direct uses of the member; the behaviour itself is the correspondence's job). -/
theorem layout_changes_only_in_first_pass :
    ∀ u ∈ Generated.C11Layout.uses, u.changesLayout = true → u.fn = "track" ∨ u.fn = "prepare_for_lookup" := by
  decide

/-- the census found the vector: declaration, `find`, `size`, `count`, `track`, `prepare_for_lookup`, … -/
example : 6 ≤ Generated.C11Layout.uses.length ∧ (Generated.C11Layout.uses.filter (·.changesLayout)).length = 2 := by decide

/-! ### F7: lookups after release -/

/-- FULL STATEMENT of the clause "released objects are reported as absent": no `get_member_*`
    call of a run ever returns a pointer computed from a released stash entry, and at every point
    `n` of the history the lookup of an id all of whose interested relations are complete (in
    particular of an id no relation wants) is nullptr — like any unknown id. -/
def ReleasedLookupAbsent (c : Cfg) : Prop :=
  ∀ rels ops, Domain c rels ops →
    (∀ k id, Event.query k id .wild ∉ (run c rels ops).events) ∧
    (∀ n k id, (∀ r ∈ interesting c rels, (k, id) ∈ wanted c r → complete c (ops.take n) r) →
      (run c rels (ops.take n)).lookup k id = .absent)

/-- The clause holds for the repaired `MembersDatabaseCommon::remove` (`fixed = true`, /repo
    commit 5127b06: the handles of the range are invalidated together with the stash item), for
    all member-type switches, interest predicates, relation sets and histories in the domain. -/
theorem released_lookup_absent (c : Cfg) (hfix : c.fixed = true) : ReleasedLookupAbsent c := by
  intro rels ops d
  refine ⟨fun k id => no_wild_queries c hfix rels ops d k id, ?_⟩
  intro n k id hall
  have dn := d.take n
  apply lookup_released c hfix rels _ dn k id
  intro r hr hw
  have hcnt := completed_exactly_once c rels _ dn r hr (List.ne_nil_of_mem hw)
  rw [if_pos (hall r hr hw)] at hcnt
  exact List.count_pos_iff.mp (by omega)

def cfgAll (fixed : Bool) : Cfg :=
  { tn := true, tw := true, tr := true, newRel := fun _ => true, newMem := fun _ _ _ => true,
    hasCallback := false, maxBuf := 819200, wr := 0, fixed := fixed }

/-- relation 1 ∋ way 10; way 10 arrives (relation 1 completes, way 10 is released);
    then `get_member_way(10)` -/
def f7Rels : List Rel := [⟨1, 0, [⟨.way, 10⟩]⟩]
def f7Ops : List Op := [.obj ⟨.way, 10, 7⟩, .query .way 10]

theorem f7_domain (fixed : Bool) : Domain (cfgAll fixed) f7Rels f7Ops := by
  cases fixed <;> exact ⟨by decide +kernel, by decide +kernel, by decide +kernel⟩

/-- Regression witness of finding F7 (key `members-db-lookup-after-release`, repaired in /repo
    commit 5127b06): for `MembersDatabaseCommon::remove` as it was BEFORE the repair
    (`fixed = false`) the clause "a later lookup reports released objects as absent" is FALSE:
    the handle stays in the element and `get_object` computes a pointer from the removed stash
    entry. -/
theorem released_lookup_absent_false : ¬ ReleasedLookupAbsent (cfgAll false) := by
  intro h
  exact (h f7Rels f7Ops (f7_domain false)).1 .way 10 (by decide +kernel)

/-! ### Non-vacuity and witnesses (kernel evaluation of the model on concrete histories) -/

/-- a history with a shared member (way 10 in relations 1 and 2), a duplicate reference
    (relation 3 has node 5 twice), a missing member (relation 4 wants way 99) and an unrelated
    object (node 6); lookups of way 10 between the two completions and afterwards -/
def demoRels : List Rel :=
  [⟨1, 0, [⟨.way, 10⟩, ⟨.way, 11⟩]⟩, ⟨2, 0, [⟨.way, 10⟩]⟩, ⟨3, 0, [⟨.node, 5⟩, ⟨.node, 5⟩]⟩, ⟨4, 0, [⟨.way, 10⟩, ⟨.way, 99⟩]⟩]
def demoOps : List Op :=
  [.obj ⟨.node, 5, 50⟩, .obj ⟨.node, 6, 60⟩, .obj ⟨.way, 10, 100⟩, .query .way 10, .obj ⟨.way, 11, 110⟩, .query .way 10]

example : Domain (cfgAll false) demoRels demoOps := ⟨by decide +kernel, by decide +kernel, by decide +kernel⟩

/-- every clause of the property on the demo history (current code): relation 3 completes once
    although node 5 is referenced twice; relation 2 completes when way 10 arrives, relation 1
    when way 11 arrives; way 10 stays available (relation 4 still needs it); relation 4 is
    never completed and is the incomplete list; node 6 is reported as not in any relation. -/
example : (run (cfgAll false) demoRels demoOps).events =
    [.complete 2 3 0 [(⟨.node, 5⟩, .found ⟨.node, 5, 50⟩), (⟨.node, 5⟩, .found ⟨.node, 5, 50⟩)],
     .notIn .node 6,
     .complete 1 2 0 [(⟨.way, 10⟩, .found ⟨.way, 10, 100⟩)],
     .query .way 10 (.found ⟨.way, 10, 100⟩),
     .complete 0 1 0 [(⟨.way, 10⟩, .found ⟨.way, 10, 100⟩), (⟨.way, 11⟩, .found ⟨.way, 11, 110⟩)],
     .query .way 10 (.found ⟨.way, 10, 100⟩)] ∧
    (run (cfgAll false) demoRels demoOps).incomplete = [4] := by decide +kernel

/-- the hypotheses of `completed_exactly_once_partial` are satisfiable with a firing loop:
    counter 2, two references in the range -/
example : ∃ s : State, missingAt s 0 = some 2 ∧ [0, 0].count 0 ≤ 2 :=
  ⟨{ rdb := #[⟨1, 2⟩] }, by decide, by decide⟩

example : Domain (cfgAll true) demoRels demoOps := ⟨by decide +kernel, by decide +kernel, by decide +kernel⟩

/-- the hypotheses of `shared_member_kept_until_last` are satisfiable: at the end of the demo
    history way 10 has arrived, relations 1 and 2 (which reference it) are completed, relation 4
    references it too and is not complete (way 99 never arrives) -/
example : ∃ (n : Nat) (o : Obj) (r : Rel), o ∈ seenObjs (cfgAll true) (demoOps.take n) ∧ o.id ≠ 0 ∧
    r ∈ interesting (cfgAll true) demoRels ∧ (o.kind, o.id) ∈ wanted (cfgAll true) r ∧
    ¬ complete (cfgAll true) (demoOps.take n) r :=
  ⟨6, ⟨.way, 10, 100⟩, ⟨4, 0, [⟨.way, 10⟩, ⟨.way, 99⟩]⟩, by decide +kernel⟩

/-- the hypothesis of the second part of `ReleasedLookupAbsent` is satisfiable non-trivially:
    in the F7 history relation 1 wants way 10 and is complete after the first op -/
example : (∀ r ∈ interesting (cfgAll true) f7Rels, (Kind.way, (10 : Int)) ∈ wanted (cfgAll true) r →
      complete (cfgAll true) (f7Ops.take 2) r) ∧
    ∃ r ∈ interesting (cfgAll true) f7Rels, (Kind.way, (10 : Int)) ∈ wanted (cfgAll true) r := by
  decide +kernel

/-- `stored_members_are_needed` is not vacuous: at the end of the demo history the stash still
    holds way 10 (relation 4 needs it) -/
example : stashGet (run (cfgAll true) demoRels (demoOps.take 6)).stash 6 = some (.obj ⟨.way, 10, 100⟩) := by
  decide +kernel

/-- `not_arrived_lookup_absent`: way 10 has not arrived after the first two ops of the demo -/
example : (Kind.way, (10 : Int)) ∉ seen (cfgAll true) (demoOps.take 2) := by decide +kernel

/-- the demo history with the repaired `remove()`: same events -/
example : (run (cfgAll true) demoRels demoOps).events = (run (cfgAll false) demoRels demoOps).events := by
  decide +kernel

/-- F7 witness: current code gives a wild pointer, repaired code gives nullptr -/
example : (run (cfgAll false) f7Rels f7Ops).events =
    [.complete 0 1 0 [(⟨.way, 10⟩, .found ⟨.way, 10, 7⟩)], .query .way 10 .wild] := by decide +kernel

example : (run (cfgAll true) f7Rels f7Ops).events =
    [.complete 0 1 0 [(⟨.way, 10⟩, .found ⟨.way, 10, 7⟩)], .query .way 10 .absent] := by decide +kernel

/-! ### Ids: only EQUALITY matters (the id alphabet) -/

/-- `find` / `add` depend on id EQUALITY only — abstract model.  For ids `a ≠ b` (however far apart, congruent modulo any
    power of two, equal in magnitude, …): `remove(a, …)` — the release of `a` when a relation needing it is completed —
    never changes what `find(b)` returns: the same entries in the same order with the same handles and marks, in every
    members database (`k'` may be the database `a` lives in or another one). -/
theorem removal_of_other_id_irrelevant_abs (c : Cfg) (s : State) (k k' : Kind) (a b relid : Int) (hs : Sorted3 s)
    (hab : a ≠ b) :
    (splitRange ((dbRemove c s k a relid).getDb k') b).2.1 = (splitRange (s.getDb k') b).2.1 :=
  dbRemove_other_range c s k k' a b relid hs hab

/-- … and on the vector machine (what the refinement layer — any index, filter or cache in front of the sorted vector —
    has to preserve): after `remove(a, …)` the binary search for any other id `b` returns the SAME index range, and the
    entries in that range are untouched.  In particular an object `b` that has not arrived yet is still found by
    `add()` — it can neither be reported as "not in any relation" nor can its relations stay incomplete — after any
    number of other ids were released. -/
theorem removal_of_other_id_irrelevant (c : Cfg) (v : VState) (k k' : Kind) (a b relid : Int) (hs : Sorted3 v.abs)
    (hab : a ≠ b) :
    vFind ((vRemove c v k a relid).getDb k') b = vFind (v.getDb k') b ∧
    ((((vRemove c v k a relid).getDb k').toList.drop (vFind (v.getDb k') b).1).take
        ((vFind (v.getDb k') b).2 - (vFind (v.getDb k') b).1)) =
      (((v.getDb k').toList.drop (vFind (v.getDb k') b).1).take ((vFind (v.getDb k') b).2 - (vFind (v.getDb k') b).1)) := by
  have hf := vRemove_other_find c v k k' a b relid hs hab
  refine ⟨hf, ?_⟩
  have hl : ((vRemove c v k a relid).getDb k').toList = (dbRemove c v.abs k a relid).getDb k' := by
    rw [← abs_getDb, vRemove_abs c v k a relid hs]
  have hs' : SortedById ((vRemove c v k a relid).getDb k').toList := by
    rw [hl]; exact dbRemove_sorted3 c v.abs k a relid hs k'
  have hs0 : SortedById (v.getDb k').toList := by rw [← abs_getDb]; exact hs k'
  have e1 := (find_is_equal_range_all_ids _ b hs').1
  rw [hf] at e1
  rw [e1, (find_is_equal_range_all_ids _ b hs0).1, hl, ← abs_getDb]
  exact dbRemove_filter_ne c v.abs k k' a b relid (hs k) hab

/-- the whole second pass keeps every id findable: no operation of a run (objects arriving, completions, releases,
    lookups, flushes) changes the (member id, relation position) skeleton of a members database — so for every id the
    index range of `find` after any history is the one `prepare_for_lookup()` established -/
theorem find_range_fixed_by_first_pass (c : Cfg) (rels : List Rel) (ops : List Op) (k : Kind) (b : Int) :
    vFind ((vRunOps c (vFirstPass c rels) ops).getDb k) b = vFind ((vFirstPass c rels).getDb k) b := by
  have h0 : Sorted3 (vFirstPass c rels).abs := by rw [vFirstPass_abs]; exact firstPass_sorted3 c rels
  have habs := vRunOps_abs c ops _ h0
  have hsk := runOps_skel c ops (vFirstPass c rels).abs k
  rw [← habs, abs_getDb, abs_getDb] at hsk
  have hs0 : SortedById ((vFirstPass c rels).getDb k).toList := by rw [← abs_getDb]; exact h0 k
  have hs' : SortedById ((vRunOps c (vFirstPass c rels) ops).getDb k).toList := sortedById_of_skel hsk hs0
  obtain ⟨h1, h2⟩ := vFind_spec _ b hs'
  obtain ⟨g1, g2⟩ := vFind_spec _ b hs0
  have hp := filter_mid_length_of_skel hsk (fun m => decide (m < b))
  have hm := filter_mid_length_of_skel hsk (fun m => m == b)
  rw [splitRange_sorted _ b hs'] at h1 h2
  rw [splitRange_sorted _ b hs0] at g1 g2
  exact Prod.ext (by rw [h1, g1]; exact hp) (by rw [h2, g2]; simp only []; rw [hp, hm])

/-- non-vacuity with ids 5 and 5 + 2^32 (equal in their low 32 bits): two relations, one way each -/
def aliasRels : List Rel := [⟨1, 0, [⟨.way, 5⟩]⟩, ⟨2, 0, [⟨.way, 5 + 2 ^ 32⟩]⟩]
def aliasOps : List Op := [.obj ⟨.way, 5, 7⟩, .obj ⟨.way, 5 + 2 ^ 32, 9⟩]

/-- the hypothesis of the two theorems holds after the first pass … -/
example : Sorted3 (firstPass (cfgAll true) aliasRels) := firstPass_sorted3 _ _
example : Sorted3 (vFirstPass (cfgAll true) aliasRels).abs := by rw [vFirstPass_abs]; exact firstPass_sorted3 _ _

/-- … way 5 is released when it arrives (relation 1 is complete), way 5 + 2^32 is still tracked: `find` returns its one
    entry, untouched … -/
example : (splitRange ((dbRemove (cfgAll true) (firstPass (cfgAll true) aliasRels) .way 5 1).getDb .way) (5 + 2 ^ 32)).2.1 =
    [⟨5 + 2 ^ 32, some 0, 1, 0⟩] := by decide +kernel

/-- … and the run completes BOTH relations, each when its way arrives, each with its member retrievable -/
example : (run (cfgAll true) aliasRels aliasOps).events =
    [.complete 0 1 0 [(⟨.way, 5⟩, .found ⟨.way, 5, 7⟩)],
     .complete 1 2 0 [(⟨.way, 5 + 2 ^ 32⟩, .found ⟨.way, 5 + 2 ^ 32, 9⟩)]] ∧
    (run (cfgAll true) aliasRels aliasOps).incomplete = [] := by decide +kernel

/-! ### The state of the C++ classes is the state of the model (census of ALL data members) -/

/-- every data member of the relation manager classes with its C++ type and the component of the model it is
    (`VState` / `Elem` / `RelEntry`, Model/RelMgrVec.lean); `—` = no state of its own -/
def modelledState : List (String × String × String × String) := [
  ("SecondPassHandler", "m_manager", "TManager &", "— (forwarding only: vRunOps dispatches on the op)"),
  ("RelationsDatabase", "m_stash", "osmium::ItemStash &", "VState.stash"),
  ("RelationsDatabase", "m_elements", "std::vector<element>", "VState.rdb"),
  ("RelationsDatabase::element", "handle", "osmium::ItemStash::handle_type", "RelEntry.h"),
  ("RelationsDatabase::element", "members", "std::size_t", "RelEntry.missing"),
  ("RelationHandle", "m_relation_database", "osmium::relations::RelationsDatabase *", "— (the one VState.rdb)"),
  ("RelationHandle", "m_pos", "std::size_t", "pos : Nat"),
  ("MembersDatabaseCommon", "m_elements", "std::vector<element>", "VState.ndb / wdb / rmdb"),
  ("MembersDatabaseCommon", "m_stash", "osmium::ItemStash &", "VState.stash"),
  ("MembersDatabaseCommon", "m_relations_db", "osmium::relations::RelationsDatabase &", "VState.rdb"),
  ("MembersDatabaseCommon", "m_init_phase", "bool", "— (assert only; vRun = vFirstPass then vRunOps)"),
  ("MembersDatabaseCommon::element", "member_id", "osmium::object_id_type", "Elem.mid"),
  ("MembersDatabaseCommon::element", "member_num", "std::size_t", "Elem.num"),
  ("MembersDatabaseCommon::element", "relation_pos", "std::size_t", "Elem.rpos"),
  ("MembersDatabaseCommon::element", "object_handle", "osmium::ItemStash::handle_type", "Elem.h"),
  ("MembersDatabaseCommon::counts", "tracked", "std::size_t", "dbCounts.1"),
  ("MembersDatabaseCommon::counts", "available", "std::size_t", "dbCounts.2.1"),
  ("MembersDatabaseCommon::counts", "removed", "std::size_t", "dbCounts.2.2"),
  ("RelationsManagerBase", "m_stash", "osmium::ItemStash", "VState.stash"),
  ("RelationsManagerBase", "m_relations_db", "relations::RelationsDatabase", "VState.rdb"),
  ("RelationsManagerBase", "m_member_nodes_db", "relations::MembersDatabase<osmium::Node>", "VState.ndb"),
  ("RelationsManagerBase", "m_member_ways_db", "relations::MembersDatabase<osmium::Way>", "VState.wdb"),
  ("RelationsManagerBase", "m_member_relations_db", "relations::MembersDatabase<osmium::Relation>", "VState.rmdb"),
  ("RelationsManagerBase", "m_output", "osmium::memory::CallbackBuffer", "VState.outBytes / flushes / flushedBytes"),
  ("RelationsManager", "m_check_order_handler", "osmium::relations::RelationsManager::check_order_handler", "VState.chk"),
  ("RelationsManager", "m_handler_pass2", "SecondPassHandler<RelationsManager<TManager, TNodes, TWays, TRelations, TCheckOrder>>", "— (forwarding only)")
]

/-- every member function that touches a data member, with the members it reads or writes -/
def modelledUses : List (String × String × List String) := [
  ("SecondPassHandler", "SecondPassHandler", ["m_manager"]),
  ("SecondPassHandler", "node", ["m_manager"]),
  ("SecondPassHandler", "way", ["m_manager"]),
  ("SecondPassHandler", "relation", ["m_manager"]),
  ("SecondPassHandler", "flush", ["m_manager"]),
  ("RelationsDatabase", "get_relation", ["handle", "m_elements", "m_stash"]),
  ("RelationsDatabase", "members", ["m_elements", "members"]),
  ("RelationsDatabase", "remove", ["handle", "m_elements", "m_stash"]),
  ("RelationsDatabase", "RelationsDatabase", ["m_elements", "m_stash"]),
  ("RelationsDatabase", "used_memory", ["m_elements"]),
  ("RelationsDatabase", "size", ["m_elements"]),
  ("RelationsDatabase", "add", ["m_elements", "m_stash"]),
  ("RelationsDatabase", "operator[]", ["m_elements"]),
  ("RelationsDatabase", "count_relations", ["handle", "m_elements"]),
  ("RelationsDatabase", "for_each_relation", ["handle", "m_elements"]),
  ("RelationHandle", "RelationHandle", ["m_pos", "m_relation_database"]),
  ("RelationHandle", "relation_database", ["m_relation_database"]),
  ("RelationHandle", "pos", ["m_pos"]),
  ("RelationHandle", "operator*", ["m_pos", "m_relation_database"]),
  ("RelationHandle", "operator->", ["m_pos", "m_relation_database"]),
  ("RelationHandle", "remove", ["m_relation_database"]),
  ("RelationHandle", "set_members", ["m_pos", "m_relation_database"]),
  ("RelationHandle", "increment_members", ["m_pos", "m_relation_database"]),
  ("RelationHandle", "decrement_members", ["m_pos", "m_relation_database"]),
  ("RelationHandle", "has_all_members", ["m_pos", "m_relation_database"]),
  ("MembersDatabaseCommon", "find", ["m_elements"]),
  ("MembersDatabaseCommon", "add_object", ["m_stash", "object_handle"]),
  ("MembersDatabaseCommon", "MembersDatabaseCommon", ["m_elements", "m_init_phase", "m_relations_db", "m_stash"]),
  ("MembersDatabaseCommon", "used_memory", ["m_elements"]),
  ("MembersDatabaseCommon", "size", ["m_elements"]),
  ("MembersDatabaseCommon", "count", ["available", "m_elements", "object_handle", "removed", "tracked"]),
  ("MembersDatabaseCommon", "track", ["m_elements", "m_init_phase", "m_relations_db"]),
  ("MembersDatabaseCommon", "prepare_for_lookup", ["m_elements", "m_init_phase"]),
  ("MembersDatabaseCommon", "remove", ["m_init_phase", "m_relations_db", "m_stash", "object_handle", "relation_pos"]),
  ("MembersDatabaseCommon", "get_object", ["m_init_phase", "m_stash", "object_handle"]),
  ("MembersDatabaseCommon::element", "element", ["member_id", "member_num", "object_handle", "relation_pos"]),
  ("MembersDatabaseCommon::element", "is_removed", ["member_num"]),
  ("MembersDatabaseCommon::element", "remove", ["member_num"]),
  ("MembersDatabaseCommon::element", "operator<", ["member_id", "member_num", "relation_pos"]),
  ("MembersDatabaseCommon::compare_member_id", "operator()", ["member_id"]),
  ("MembersDatabase", "add", ["m_init_phase", "m_relations_db", "member_id", "member_num", "members", "relation_pos"]),
  ("MembersDatabase", "get", ["m_init_phase"]),
  ("RelationsManagerBase", "RelationsManagerBase", ["m_member_nodes_db", "m_member_relations_db", "m_member_ways_db", "m_output", "m_relations_db", "m_stash"]),
  ("RelationsManagerBase", "relations_database", ["m_relations_db"]),
  ("RelationsManagerBase", "member_nodes_database", ["m_member_nodes_db"]),
  ("RelationsManagerBase", "member_ways_database", ["m_member_ways_db"]),
  ("RelationsManagerBase", "member_relations_database", ["m_member_relations_db"]),
  ("RelationsManagerBase", "member_database", ["m_member_nodes_db", "m_member_relations_db", "m_member_ways_db"]),
  ("RelationsManagerBase", "prepare_for_lookup", ["m_member_nodes_db", "m_member_relations_db", "m_member_ways_db"]),
  ("RelationsManagerBase", "used_memory", ["m_member_nodes_db", "m_member_relations_db", "m_member_ways_db", "m_relations_db", "m_stash"]),
  ("RelationsManagerBase", "buffer", ["m_output"]),
  ("RelationsManagerBase", "set_callback", ["m_output"]),
  ("RelationsManagerBase", "flush_output", ["m_output"]),
  ("RelationsManagerBase", "possibly_flush", ["m_output"]),
  ("RelationsManagerBase", "read", ["m_output"]),
  ("RelationsManager", "RelationsManager", ["m_check_order_handler", "m_handler_pass2"]),
  ("RelationsManager", "handler", ["m_handler_pass2"]),
  ("RelationsManager", "relation", ["members"]),
  ("RelationsManager", "handle_node", ["m_check_order_handler"]),
  ("RelationsManager", "handle_way", ["m_check_order_handler"]),
  ("RelationsManager", "handle_relation", ["m_check_order_handler"])
]

/-- Source census, part 2 (Generated/C11Layout.lean `fields` / `fieldUses`, read off clang's typed AST of the CURRENT
    headers on every run): the data members of `MembersDatabaseCommon` (+ `element`, `counts`), `MembersDatabase`,
    `RelationsDatabase` (+ `element`), `RelationHandle`, `RelationsManagerBase`, `RelationsManager` and `SecondPassHandler`
    are EXACTLY the ones the model has a component for (`modelledState`), with the same types, and every member function
    touches exactly the members the transcription knows of (`modelledUses`).  A new data member (a cache, a filter, a
    counter, a flag), a member of another type, or a new read / write of an existing member in any function breaks
    this theorem by name: the model, `removal_of_other_id_irrelevant` and the table must then be revisited together. -/
theorem members_database_state_is_modelled :
    Generated.C11Layout.fields.map (fun f => (f.cls, f.name, f.type)) = modelledState.map (fun m => (m.1, m.2.1, m.2.2.1)) ∧
    Generated.C11Layout.fieldUses.map (fun u => (u.cls, u.fn, u.touches)) = modelledUses := by
  decide +kernel

/-- the census is not empty: the element vector, the stash reference and the four fields of an element are there -/
example : 26 ≤ Generated.C11Layout.fields.length ∧
    (Generated.C11Layout.fields.filter (fun f => f.cls == "MembersDatabaseCommon::element")).length = 4 := by decide +kernel

/-! ### source ties (tools/cxx2lean.py): `relations/members_database.hpp` `element` translated from the source -/
section SrcTies
open Osmium.Generated Osmium.CxxSem

/-- `MembersDatabaseCommon::element::operator<` (`std::tie(member_id, member_num, relation_pos) < …`, with
    `removed_value = SIZE_MAX` as `member_num` of a removed element) is the strict order whose `!(b < a)` the
    model sorts with (`elemLe`), under the abstraction `SrcTie.elemOfSrc` -/
theorem src_tie_element_lt (a b : Src.MembersDatabase.MembersDatabaseCommon.element)
    (ha : Src.MembersDatabase.MembersDatabaseCommon.element.typed a = true)
    (hb : Src.MembersDatabase.MembersDatabaseCommon.element.typed b = true) :
    Src.MembersDatabase.MembersDatabaseCommon.element.op_lt_element a b
      = !(elemLe (SrcTie.elemOfSrc b) (SrcTie.elemOfSrc a)) := by
  simp only [Src.MembersDatabase.MembersDatabaseCommon.element.typed, Src.ItemStash.ItemStash.handle_type.typed,
    Bool.and_eq_true, inU_iff, inS_iff] at ha hb
  rw [Bool.eq_iff_iff]
  by_cases r1 : a.member_num = 18446744073709551615 <;> by_cases r2 : b.member_num = 18446744073709551615 <;>
  by_cases h1 : a.member_id < b.member_id <;> by_cases h2 : b.member_id < a.member_id <;>
  by_cases h3 : a.member_num < b.member_num <;> by_cases h4 : b.member_num < a.member_num <;>
  by_cases h5 : a.relation_pos < b.relation_pos <;>
    simp [Src.MembersDatabase.MembersDatabaseCommon.element.op_lt_element, elemLe, numLt, numLe, SrcTie.elemOfSrc,
      Src.MembersDatabase.MembersDatabaseCommon.element.removed_value, *] <;> omega

/-- `is_removed()` / `remove()`: the marker value is the model's `num = none`; `remove()` changes nothing else -/
theorem src_tie_element_removed (a : Src.MembersDatabase.MembersDatabaseCommon.element) :
    Src.MembersDatabase.MembersDatabaseCommon.element.is_removed a = (SrcTie.elemOfSrc a).num.isNone ∧
    ∃ a', Src.MembersDatabase.MembersDatabaseCommon.element.remove a = .normal a' () ∧
      SrcTie.elemOfSrc a' = { SrcTie.elemOfSrc a with num := none } := by
  constructor
  · by_cases r : a.member_num = 18446744073709551615
    · simp [Src.MembersDatabase.MembersDatabaseCommon.element.is_removed, SrcTie.elemOfSrc,
        Src.MembersDatabase.MembersDatabaseCommon.element.removed_value, r]
    · have r' : ¬ (18446744073709551615 : Int) = a.member_num := fun h => r h.symm
      simp [Src.MembersDatabase.MembersDatabaseCommon.element.is_removed, SrcTie.elemOfSrc,
        Src.MembersDatabase.MembersDatabaseCommon.element.removed_value, r, r']
  · exact ⟨_, rfl, by simp [SrcTie.elemOfSrc, Src.MembersDatabase.MembersDatabaseCommon.element.removed_value]⟩

/-- `compare_member_id` (the comparison of `find(id)` = `std::equal_range`) looks at `member_id` only, as `splitRange` does -/
theorem src_tie_compare_member_id (a b : Src.MembersDatabase.MembersDatabaseCommon.element) :
    Src.MembersDatabase.MembersDatabaseCommon.compare_member_id.op_call_element_element a b
      = decide ((SrcTie.elemOfSrc a).mid < (SrcTie.elemOfSrc b).mid) := by
  rw [Bool.eq_iff_iff]
  refine Iff.trans ?_ decide_eq_true_iff.symm
  simp [Src.MembersDatabase.MembersDatabaseCommon.compare_member_id.op_call_element_element, SrcTie.elemOfSrc]

example : Src.MembersDatabase.MembersDatabaseCommon.element.typed ⟨-5, 18446744073709551615, 3, ⟨0⟩⟩ = true := by decide

/-- Sort order = lookup order, on the translated source: whenever the comparison `find()` searches with
    (`compare_member_id`) puts `a` before `b`, so does the comparison `prepare_for_lookup()` sorts with
    (`element::operator<`); and two elements that `operator<` orders are never ordered the other way round by
    `compare_member_id`.  This is what makes the sorted vector partitioned for `std::equal_range` — for all
    member ids, negative ones included. -/
theorem sort_order_is_lookup_order (a b : Src.MembersDatabase.MembersDatabaseCommon.element) :
    (Src.MembersDatabase.MembersDatabaseCommon.compare_member_id.op_call_element_element a b = true →
      Src.MembersDatabase.MembersDatabaseCommon.element.op_lt_element a b = true) ∧
    (Src.MembersDatabase.MembersDatabaseCommon.element.op_lt_element a b = true →
      Src.MembersDatabase.MembersDatabaseCommon.compare_member_id.op_call_element_element b a = false) := by
  -- directly on the translated text (not through `src_tie_element_lt`), so that it is its own obligation
  by_cases h1 : a.member_id < b.member_id <;> by_cases h2 : b.member_id < a.member_id <;>
  by_cases h3 : a.member_num < b.member_num <;> by_cases h4 : b.member_num < a.member_num <;>
  by_cases h5 : a.relation_pos < b.relation_pos <;>
    simp [Src.MembersDatabase.MembersDatabaseCommon.element.op_lt_element,
      Src.MembersDatabase.MembersDatabaseCommon.compare_member_id.op_call_element_element, *] <;> omega

/-- both directions are used: ids -2 and -1 (two different negative ids) are ordered by both comparisons the same way -/
example :
    Src.MembersDatabase.MembersDatabaseCommon.compare_member_id.op_call_element_element ⟨-2, 0, 1, ⟨0⟩⟩ ⟨-1, 0, 0, ⟨0⟩⟩ = true ∧
    Src.MembersDatabase.MembersDatabaseCommon.element.op_lt_element ⟨-2, 0, 1, ⟨0⟩⟩ ⟨-1, 0, 0, ⟨0⟩⟩ = true := by decide

example : Src.MembersDatabase.MembersDatabaseCommon.element.typed ⟨-2, 0, 1, ⟨0⟩⟩ = true := by decide


end SrcTies

end Osmium.RelMgr.C11
