/-
C15 — Id sets, relation maps and the item stash match their set/map models.

Property theorems only (helper lemmas, the specification machines and the invariants live in
Osmium/Lemmas/{IdSet,RelMap,Stash}.lean).  Every theorem quantifies over ALL histories of the
models: all operation lists, all ids of the id type, all chunk sizes, all payloads.

Two clauses of the property were refuted by the code before the fixes for findings F2, F3 of
DESIGN.md §5.  This file is the version for the code AFTER the two fixes (`FIXED_F2`, `FIXED_F3`
= true in the models): the full statements (`def … : Prop`) are now proved (`idset_iteration` for
every id type narrower than 64 bits, `relmap_lookup` without restriction); the `_partial`
theorems are kept (for the id sets they also cover T = uint64).
-/
import Osmium.Lemmas.IdSet
import Osmium.Lemmas.RelMap
import Osmium.Lemmas.Stash
import Osmium.Generated.Consts
import Osmium.Lemmas.SrcTie
import Osmium.Generated.C15Shape

namespace Osmium.C15

/-! ## IdSetDense<T, chunk_bits>  (w = bits of T, cb = chunk_bits) -/

open Osmium.IdSet in
/-- get / size / empty / check_and_set / set / unset / clear / copy: for every chunk size, every id
    width and every history whose ids are values of `T`, the outputs of all calls are those of the
    mathematical set (`size` in the arithmetic of `T`), across all chunk boundaries; the final
    membership function is that of the set. -/
theorem idset_refines (w cb : Nat) (ops : List Op) (h : ∀ op ∈ ops, op.inRange w) :
    (run w cb {} ops).2 = (specRun w [] ops).2 ∧
    (∀ id, id < 2 ^ w → get cb (run w cb {} ops).1 id = decide (id ∈ (specRun w [] ops).1)) ∧
    (specRun w [] ops).1.Nodup ∧ (∀ id ∈ (specRun w [] ops).1, id < 2 ^ w) :=
  refines w cb ops h

open Osmium.IdSet in
/-- `size()` is exact (not only modulo 2^w) unless the set contains every value of `T`
    (`m_size` has type `T`: a set holding all 2^w values reports size 0). -/
theorem idset_size_exact (w cb : Nat) (ops : List Op) (h : ∀ op ∈ ops, op.inRange w)
    (hc : (specRun w [] ops).1.length < 2 ^ w) :
    (run w cb {} ops).1.size = (specRun w [] ops).1.length := by
  rw [size_eq w cb ops h, Nat.mod_eq_of_lt hc]

open Osmium.IdSet in
/-- FULL STATEMENT of the iteration clause: after any history the iterator delivers exactly the
    elements, ascending, each once. -/
def IdsetIteration (w cb : Nat) : Prop :=
  ∀ ops : List Op, (∀ op ∈ ops, op.inRange w) → IterExact w cb (run w cb {} ops).1

open Osmium.IdSet in
/-- After the F2 fix (iterator positions kept in 64 bits) the full statement holds for every id
    type narrower than 64 bits, in particular T = uint32 with every chunk size: `last()` can no
    longer wrap, and the chunk vector of a reachable state never extends beyond the id space. -/
theorem idset_iteration (w cb : Nat) (hcb : cb + 3 ≤ w) (hw : w < 64) : IdsetIteration w cb :=
  fun ops h => iter_exact_full w cb hcb hw ops h

open Osmium.IdSet in
/-- Iteration is exact for every history that never touches the top chunk of the id space
    (all ids given to set/unset/check_and_set are below 2^w − 2^(chunk_bits+3)). -/
theorem idset_iteration_partial (w cb : Nat) (hcb : cb + 3 ≤ w) (ops : List Op)
    (h : ∀ op ∈ ops, op.inRange w)
    (htop : ∀ op ∈ ops, match op with
      | .set id | .unset id | .checkAndSet id => id < 2 ^ w - 2 ^ (cb + 3)
      | _ => True) :
    IterExact w cb (run w cb {} ops).1 :=
  iter_exact_of_no_wrap w cb hcb ops h (no_wrap_of_ids_below_top w cb hcb ops htop)

open Osmium.IdSet in
/-- The sharp domain: iteration is exact after every history at whose end `last()` does not wrap,
    i.e. the chunk vector does not reach the top of the id space (this includes histories that
    touched the top chunk and called `clear()` afterwards). -/
theorem idset_iteration_partial_no_wrap (w cb : Nat) (hcb : cb + 3 ≤ w) (ops : List Op)
    (h : ∀ op ∈ ops, op.inRange w)
    (hn : (run w cb {} ops).1.nchunks * 2 ^ (cb + 3) < 2 ^ w) :
    IterExact w cb (run w cb {} ops).1 :=
  iter_exact_of_no_wrap w cb hcb ops h hn

/-! ## IdSetSmall -/

open Osmium.IdSet in
theorem idsetsmall_refines :
    (∀ (s : Small) (id x : Nat), Small.get (Small.set s id) x = (decide (x = id) || Small.get s x)) ∧
    (∀ s : Small, (Small.sortUnique s).Pairwise (· < ·) ∧ ∀ x, x ∈ Small.sortUnique s ↔ x ∈ s) ∧
    (∀ s o : Small, s.Pairwise (· < ·) → o.Pairwise (· < ·) →
      (Small.mergeSorted s o).Pairwise (· < ·) ∧ ∀ x, x ∈ Small.mergeSorted s o ↔ (x ∈ s ∨ x ∈ o)) :=
  ⟨small_get_set, small_sortUnique, small_mergeSorted⟩

/-! ## RelationsMapStash / RelationsMapIndex -/

open Osmium.RelMap in
/-- FULL STATEMENT of the lookup clause: for all recorded (member, parent) pairs and every key,
    both indexes deliver exactly the recorded partners of the key, ascending, without duplicates. -/
def RelmapLookup : Prop :=
  ∀ (adds : List (Nat × Nat)) (k : Nat), InRange adds → k < 2 ^ 64 →
    LookupExact (recorded adds).buildMemberToParent adds k ∧
    LookupExact (recorded adds).buildParentToMember (adds.map swap) k

open Osmium.RelMap in
/-- After the F3 fix (a 32-bit index delivers nothing for a key that does not fit into 32 bits)
    the full statement holds. -/
theorem relmap_lookup : RelmapLookup :=
  fun adds k hr hk =>
    ⟨lookup_member_to_parent_full adds k hr hk, lookup_parent_to_member_full adds k hr hk⟩

open Osmium.RelMap in
/-- Lookups are exact whenever the key fits into 32 bits or the index is a 64-bit one. -/
theorem relmap_lookup_partial (adds : List (Nat × Nat)) (k : Nat) (hr : InRange adds)
    (hk : k < 2 ^ 64) (h : k < 2 ^ 32 ∨ Has64 adds) :
    LookupExact (recorded adds).buildMemberToParent adds k ∧
    LookupExact (recorded adds).buildParentToMember (adds.map swap) k :=
  ⟨lookup_member_to_parent adds k hr hk h, lookup_parent_to_member adds k hr hk h⟩

open Osmium.RelMap in
/-- `build_indexes()` returns exactly the indexes of the two single builders (for every stash). -/
theorem relmap_build_variants_agree (s : Stash) :
    s.buildIndexes = (s.buildMemberToParent, s.buildParentToMember) :=
  build_variants_agree s

open Osmium.RelMap in
/-- No duplicates are stored: the index size is the number of distinct recorded pairs. -/
theorem relmap_index_size (adds : List (Nat × Nat)) (hr : InRange adds) :
    ∃ l : List (Nat × Nat), l.Nodup ∧ (∀ p, p ∈ l ↔ p ∈ adds) ∧
      (recorded adds).buildMemberToParent.size = l.length :=
  index_size adds hr

open Osmium.RelMap in
/-- "Without duplicates" as a MULTISET statement, for every add-history — repeated pairs included, in any
    order — and every index the three builders return: `for_each(k)` calls the function with `v` exactly once
    if the pair was recorded and never otherwise (a value delivered twice would make the count 2). -/
theorem relmap_lookup_each_once (adds : List (Nat × Nat)) (k : Nat) (hr : InRange adds) (hk : k < 2 ^ 64)
    (v : Nat) :
    ((recorded adds).buildMemberToParent.forEach k).count v = (if (k, v) ∈ adds then 1 else 0) ∧
    ((recorded adds).buildParentToMember.forEach k).count v = (if (v, k) ∈ adds then 1 else 0) ∧
    ((recorded adds).buildIndexes.1.forEach k).count v = (if (k, v) ∈ adds then 1 else 0) ∧
    ((recorded adds).buildIndexes.2.forEach k).count v = (if (v, k) ∈ adds then 1 else 0) := by
  have h1 := count_of_lookupExact (lookup_member_to_parent_full adds k hr hk) v
  have h2 := count_of_lookupExact (lookup_parent_to_member_full adds k hr hk) v
  have e : (k, v) ∈ adds.map swap ↔ (v, k) ∈ adds := by rw [mem_map_swap]; rfl
  simp only [e] at h2
  rw [build_variants_agree]
  exact ⟨h1, h2, h1, h2⟩

open Osmium.RelMap in
/-- `size()` of every index is the number of DISTINCT recorded pairs, however often and in whatever order a
    pair was added; `empty()` iff nothing was added. -/
theorem relmap_index_sizes (adds : List (Nat × Nat)) (hr : InRange adds) :
    (recorded adds).buildMemberToParent.size = (distinct adds).length ∧
    (recorded adds).buildParentToMember.size = (distinct adds).length ∧
    (recorded adds).buildIndexes.1.size = (distinct adds).length ∧
    (recorded adds).buildIndexes.2.size = (distinct adds).length ∧
    (recorded adds).buildMemberToParent.empty = adds.isEmpty ∧
    (recorded adds).buildParentToMember.empty = adds.isEmpty :=
  ⟨(index_sizes adds hr).1, (index_sizes adds hr).2.1, (index_sizes adds hr).2.2.1, (index_sizes adds hr).2.2.2,
   (index_empty adds hr).1, (index_empty adds hr).2⟩

open Osmium.RelMap in
/-- The indexes are a function of the SET of recorded pairs: two add-histories that record the same pairs —
    in any order, with any repetitions, hence with any sortedness of the internal vectors at build time —
    yield identical indexes from each of the three builders. -/
theorem relmap_index_canonical (a b : List (Nat × Nat)) (ha : InRange a) (hb : InRange b)
    (h : ∀ p, p ∈ a ↔ p ∈ b) :
    (recorded a).buildMemberToParent = (recorded b).buildMemberToParent ∧
    (recorded a).buildParentToMember = (recorded b).buildParentToMember ∧
    (recorded a).buildIndexes = (recorded b).buildIndexes :=
  index_canonical a b ha hb h

open Osmium.RelMap in
/-- In particular adding a pair once more, at any position of the history, changes no index. -/
theorem relmap_repeated_add_irrelevant (pre post : List (Nat × Nat)) (p : Nat × Nat)
    (hr : InRange (pre ++ post)) (hp : p ∈ pre ++ post) :
    (recorded (pre ++ p :: post)).buildMemberToParent = (recorded (pre ++ post)).buildMemberToParent ∧
    (recorded (pre ++ p :: post)).buildParentToMember = (recorded (pre ++ post)).buildParentToMember ∧
    (recorded (pre ++ p :: post)).buildIndexes = (recorded (pre ++ post)).buildIndexes := by
  have hm : ∀ q, q ∈ pre ++ p :: post ↔ q ∈ pre ++ post := by
    intro q
    simp only [List.mem_append, List.mem_cons] at hp ⊢
    constructor
    · rintro (h | rfl | h)
      · exact Or.inl h
      · exact hp
      · exact Or.inr h
    · rintro (h | h)
      · exact Or.inl h
      · exact Or.inr (Or.inr h)
  exact index_canonical _ _ (fun q hq => hr q ((hm q).1 hq)) hr hm

/-! ## ItemStash -/

open Osmium.Stash in
/-- For every history of add_item / get_item / remove_item / garbage_collect / clear (with the
    automatic collections inside add_item, for every initial buffer size) the outputs are those of
    the handle ↦ content map: handles are 1, 2, 3, … since the last clear, a live handle always
    resolves to the unchanged content added under it, and the only precondition violations are
    calls with invalid / removed handles. -/
theorem stash_refines (ibs : Nat) (ops : List Op) :
    (run (init ibs) ops).2 = (specRun [] ops).2 :=
  refines ibs ops

open Osmium.Stash in
/-- The invariant behind it, for every reachable state: the non-REMOVED index entries, in handle
    order, are exactly the byte offsets of the non-removed buffer items, in buffer order, each
    item carrying the content of its handle; removed handles have the REMOVED marker; the item
    counter is the number of live handles. -/
theorem stash_index_invariant (ibs : Nat) (ops : List Op) :
    Inv (run (init ibs) ops).1 (specRun [] ops).1 :=
  reachable_inv ibs ops

open Osmium.Stash in
/-- Garbage collection of any reachable state succeeds (the helper never runs off the index) and
    every handle resolves to the same item before and after. -/
theorem gc_preserves_handles (ibs : Nat) (ops : List Op) :
    ∃ s', garbageCollect (run (init ibs) ops).1 = some s' ∧
      ∀ h, getItem s' h = getItem (run (init ibs) ops).1 h :=
  gc_preserves ibs ops

open Osmium.Stash in
/-- After garbage collection of any reachable state no removed item is left and the committed size
    is exactly the space of the live items: the space of removed items is reclaimed. -/
theorem gc_reclaims (ibs : Nat) (ops : List Op) (s' : State)
    (h : garbageCollect (run (init ibs) ops).1 = some s') :
    committed s' = liveBytes (run (init ibs) ops).1.items ∧
    (∀ i ∈ s'.items, i.removed = false) ∧ s'.countRemoved = 0 :=
  Osmium.Stash.gc_reclaims ibs ops s' h

/-! ## non-vacuity: the hypotheses are met by non-trivial histories -/

-- a history inside the domain of `idset_iteration_partial` that crosses two chunk boundaries
open Osmium.IdSet in
example : (∀ op ∈ [Op.set 127, .set 128, .set 300, .unset 128], op.inRange 32) ∧
    toList 32 4 (run 32 4 {} [.set 127, .set 128, .set 300, .unset 128]).1 = some [127, 300] := by
  refine ⟨by simp [Op.inRange], by decide⟩

-- a 64-bit index and a 32-bit index probed inside the domain of `relmap_lookup_partial`
open Osmium.RelMap in
example : Has64 [(5, 7), (2 ^ 32 + 5, 1)] ∧ InRange [(5, 7), (2 ^ 32 + 5, 1)] := by
  refine ⟨⟨(2 ^ 32 + 5, 1), by simp, by simp⟩, ?_⟩
  intro p hp
  simp at hp
  rcases hp with rfl | rfl <;> simp

-- a history with a REPEATED pair added in sorted position (32- and 64-bit map, the witness of seed C15-6) is
-- inside the domain of `relmap_lookup_each_once` / `relmap_index_sizes`; the parent 2^33+1 is delivered once
open Osmium.RelMap in
example : InRange [(1, 2 ^ 33 + 1), (1, 2 ^ 33 + 1), (2, 1)] ∧ ¬ [(1, 2 ^ 33 + 1), (1, 2 ^ 33 + 1), (2, 1)].Nodup ∧
    ((recorded [(1, 2 ^ 33 + 1), (1, 2 ^ 33 + 1), (2, 1)]).buildMemberToParent.forEach 1).count (2 ^ 33 + 1) = 1 ∧
    (recorded [(1, 2 ^ 33 + 1), (1, 2 ^ 33 + 1), (2, 1)]).buildIndexes.2.size = 2 := by
  have hr : InRange [(1, 2 ^ 33 + 1), (1, 2 ^ 33 + 1), (2, 1)] := by
    intro p hp
    simp at hp
    rcases hp with rfl | rfl <;> simp
  refine ⟨hr, by decide, ?_, ?_⟩
  · rw [(relmap_lookup_each_once _ 1 hr (by decide) _).1]; simp
  · rw [(relmap_index_sizes _ hr).2.2.2.1]; decide

-- a stash history with a removal and a collection after which the later handle still resolves
open Osmium.Stash in
example : (run (init 64) [.add [1], .add [2, 3], .remove 1, .gc, .get 2, .get 1]).2 =
    [.handle 1, .handle 2, .unit, .unit, .item 10 false [2, 3], .ub] := by decide

/-- Tie of the stash constants to the CURRENT source (regenerated `Generated/Consts.lean`): the
    removed marker and the four thresholds of `should_gc()`. -/
theorem consts_tie_stash :
    Osmium.Stash.REMOVED = Osmium.Generated.Consts.stashRemovedItemOffset ∧
    ∀ s : Osmium.Stash.State, Osmium.Stash.shouldGc s =
      (if s.countRemoved < Osmium.Generated.Consts.stashGcMinRemoved then false
       else if s.countRemoved > Osmium.Generated.Consts.stashGcMaxRemoved then true
       else if s.countRemoved * Osmium.Generated.Consts.stashGcFactor < s.countItems then false
       else decide (s.capacity - Osmium.Stash.committed s < Osmium.Generated.Consts.stashGcFreeBytes)) := by
  refine ⟨by decide, fun s => ?_⟩
  simp only [Osmium.Stash.shouldGc, Osmium.Generated.Consts.stashGcMinRemoved, Osmium.Generated.Consts.stashGcMaxRemoved, Osmium.Generated.Consts.stashGcFactor, Osmium.Generated.Consts.stashGcFreeBytes]
  rfl

/-! ### source ties (tools/cxx2lean.py): the functions REGENERATED from /repo's C++ source on every run
    (Osmium/Generated/Src.lean) equal the hand-written model functions the theorems above are about.
    Both instantiations `IdSetDense<uint64_t>` and `IdSetDense<uint32_t>` (chunk_bits = 22) are translated. -/

section SrcTies
open Osmium.Generated Osmium.CxxSem Osmium.SrcTie

/-- `IdSetDense::chunk_id(id)` = `IdSet.chunkId 22` -/
theorem src_tie_chunk_id (id : Nat) :
    Src.IdSet.IdSetDense_u64_22.chunk_id (id : Int) = (IdSet.chunkId 22 id : Int) ∧
    Src.IdSet.IdSetDense_u32_22.chunk_id (id : Int) = (IdSet.chunkId 22 id : Int) := by
  have e : wrapU 64 (22 + 3) = ((25 : Nat) : Int) := by decide
  simp only [Src.IdSet.IdSetDense_u64_22.chunk_id, Src.IdSet.IdSetDense_u32_22.chunk_id, IdSet.chunkId, e, shr_nat]
  simp

/-- `IdSetDense::offset(id)` = `IdSet.offset 22` -/
theorem src_tie_offset (id : Nat) :
    Src.IdSet.IdSetDense_u64_22.offset (id : Int) = (IdSet.offset 22 id : Int) ∧
    Src.IdSet.IdSetDense_u32_22.offset (id : Int) = (IdSet.offset 22 id : Int) := by
  have e : wrapU 32 (shl 32 1 22 - 1) = ((4194303 : Nat) : Int) := by decide
  have e3 : (3 : Int) = ((3 : Nat) : Int) := rfl
  simp only [Src.IdSet.IdSetDense_u64_22.offset, Src.IdSet.IdSetDense_u32_22.offset, IdSet.offset, e]
  rw [e3, shr_nat, band_nat]
  simp

/-- `IdSetDense::bitmask(id)` = `IdSet.bitmask` (the model keeps the low byte, the value is ≤ 128) -/
theorem src_tie_bitmask (id : Nat) :
    Src.IdSet.IdSetDense_u64_22.bitmask (id : Int) = ((IdSet.bitmask id).toNat : Int) ∧
    Src.IdSet.IdSetDense_u32_22.bitmask (id : Int) = ((IdSet.bitmask id).toNat : Int) := by
  have e7 : (7 : Int) = ((7 : Nat) : Int) := rfl
  have e1 : (1 : Int) = ((1 : Nat) : Int) := rfl
  simp only [Src.IdSet.IdSetDense_u64_22.bitmask, Src.IdSet.IdSetDense_u32_22.bitmask, IdSet.bitmask]
  rw [e7, band_nat, e1, shl_nat]
  have h7 : id &&& 7 < 8 := by
    have := @Nat.and_le_right id 7; omega
  have : ∀ k, k < 8 → ((1 <<< k) % 2 ^ 32 : Nat) = (1#8 <<< k).toNat := by decide
  simp [this _ h7]

/-- none of the shifts in the three helpers can be undefined (amounts 25, 3, 22 and `id & 7` < 32) -/
theorem src_defined_idset (id : Nat) :
    Src.IdSet.IdSetDense_u64_22.chunk_id_defined (id : Int) = true ∧ Src.IdSet.IdSetDense_u64_22.offset_defined (id : Int) = true ∧
    Src.IdSet.IdSetDense_u64_22.bitmask_defined (id : Int) = true ∧ Src.IdSet.IdSetDense_u32_22.chunk_id_defined (id : Int) = true ∧
    Src.IdSet.IdSetDense_u32_22.offset_defined (id : Int) = true ∧ Src.IdSet.IdSetDense_u32_22.bitmask_defined (id : Int) = true := by
  have e7 : (7 : Int) = ((7 : Nat) : Int) := rfl
  have h7 : id &&& 7 < 8 := by
    have := @Nat.and_le_right id 7; omega
  simp only [Src.IdSet.IdSetDense_u64_22.chunk_id_defined, Src.IdSet.IdSetDense_u64_22.offset_defined,
    Src.IdSet.IdSetDense_u64_22.bitmask_defined, Src.IdSet.IdSetDense_u32_22.chunk_id_defined,
    Src.IdSet.IdSetDense_u32_22.offset_defined, Src.IdSet.IdSetDense_u32_22.bitmask_defined, e7, band_nat, shiftOk_iff]
  refine ⟨by decide, by decide, ?_, by decide, by decide, ?_⟩ <;> omega

/-- `ItemStash::should_gc()` = `Stash.shouldGc` on every stash whose members are size_t values with
    `committed ≤ capacity` (the buffer invariant; without it the unsigned difference wraps).  Supersedes the
    regex route of `consts_tie_stash`: the whole function, not only its four thresholds, comes from the source. -/
theorem src_tie_should_gc (s : Src.ItemStash.ItemStash) (ht : Src.ItemStash.ItemStash.typed s = true)
    (hc : s.m_buffer.m_committed ≤ s.m_buffer.m_capacity) :
    Src.ItemStash.ItemStash.should_gc s = Stash.shouldGc (stashOfSrc s) := by
  simp only [Src.ItemStash.ItemStash.typed, Src.Buffer.Buffer.typed, Bool.and_eq_true, inU_iff, inS_iff] at ht
  dsimp only [Stash.shouldGc, Stash.committed, stashOfSrc, Src.ItemStash.ItemStash.should_gc, Src.Buffer.Buffer.capacity,
    Src.Buffer.Buffer.committed]
  have e1 : wrapU 64 (10 * 1000) = 10000 := by decide
  have e2 : wrapU 64 (wrapU 64 (5 * 1000) * 1000) = 5000000 := by decide
  have e4 : wrapU 64 (10 * 1024) = 10240 := by decide
  have e5 : wrapU 64 (s.m_buffer.m_capacity - s.m_buffer.m_committed) = s.m_buffer.m_capacity - s.m_buffer.m_committed := by
    apply wrapU_eq <;> omega
  rw [e1, e2, e4, e5]
  by_cases c1 : s.m_count_removed < 10000
  · have : s.m_count_removed.toNat < 10 * 1000 := by omega
    simp [c1, this]
  · have n1 : ¬ s.m_count_removed.toNat < 10 * 1000 := by omega
    by_cases c2 : 5000000 < s.m_count_removed
    · have : s.m_count_removed.toNat > 5 * 1000 * 1000 := by omega
      simp [c1, n1, c2, this]
    · have n2 : ¬ s.m_count_removed.toNat > 5 * 1000 * 1000 := by omega
      have e3 : wrapU 64 (s.m_count_removed * 5) = s.m_count_removed * 5 := by
        apply wrapU_eq <;> omega
      rw [e3]
      by_cases c3 : s.m_count_removed * 5 < s.m_count_items
      · have : s.m_count_removed.toNat * 5 < s.m_count_items.toNat := by omega
        simp [c1, n1, c2, n2, c3, this]
      · have n3 : ¬ s.m_count_removed.toNat * 5 < s.m_count_items.toNat := by omega
        simp only [c1, n1, c2, n2, c3, n3, lt_iff, gt_iff, ite_false]
        rw [Bool.eq_iff_iff, lt_iff]; refine Iff.trans ?_ decide_eq_true_iff.symm
        omega

example : Src.ItemStash.ItemStash.typed ⟨⟨1048576, 4096, 4096, 1⟩, ⟨12⟩, 20000, 15000⟩ = true ∧
    (4096 : Int) ≤ 1048576 := by decide

/-! #### index/relations_map.hpp: `kv_pair`, the 32-bit guards (fix 9f963df) -/

/-- `kv_pair::operator<` (`std::tie(key, value) < std::tie(other.key, other.value)`) of the 32-bit map = `RelMap.kvLt` -/
theorem src_tie_kv_pair_lt_32 (a b : Src.RelationsMap.flat_map_u64_u32_u64_u32.kv_pair)
    (ha : Src.RelationsMap.flat_map_u64_u32_u64_u32.kv_pair.typed a = true)
    (hb : Src.RelationsMap.flat_map_u64_u32_u64_u32.kv_pair.typed b = true) :
    Src.RelationsMap.flat_map_u64_u32_u64_u32.kv_pair.op_lt_kv_pair a b
      = RelMap.kvLt (a.key.toNat, a.value.toNat) (b.key.toNat, b.value.toNat) := by
  simp only [Src.RelationsMap.flat_map_u64_u32_u64_u32.kv_pair.typed, Bool.and_eq_true, inU_iff] at ha hb
  rw [Bool.eq_iff_iff]
  by_cases h1 : a.key < b.key <;> by_cases h2 : b.key < a.key <;> by_cases h3 : a.value < b.value <;>
    simp [Src.RelationsMap.flat_map_u64_u32_u64_u32.kv_pair.op_lt_kv_pair, RelMap.kvLt, *] <;> omega

/-- the same for the 64-bit map -/
theorem src_tie_kv_pair_lt_64 (a b : Src.RelationsMap.flat_map_u64_u64_u64_u64.kv_pair)
    (ha : Src.RelationsMap.flat_map_u64_u64_u64_u64.kv_pair.typed a = true)
    (hb : Src.RelationsMap.flat_map_u64_u64_u64_u64.kv_pair.typed b = true) :
    Src.RelationsMap.flat_map_u64_u64_u64_u64.kv_pair.op_lt_kv_pair a b
      = RelMap.kvLt (a.key.toNat, a.value.toNat) (b.key.toNat, b.value.toNat) := by
  simp only [Src.RelationsMap.flat_map_u64_u64_u64_u64.kv_pair.typed, Bool.and_eq_true, inU_iff] at ha hb
  rw [Bool.eq_iff_iff]
  by_cases h1 : a.key < b.key <;> by_cases h2 : b.key < a.key <;> by_cases h3 : a.value < b.value <;>
    simp [Src.RelationsMap.flat_map_u64_u64_u64_u64.kv_pair.op_lt_kv_pair, RelMap.kvLt, *] <;> omega

/-- `kv_pair::operator==` (what `std::unique` in `sort_unique()` uses) = equality of the model's pairs -/
theorem src_tie_kv_pair_eq (a b : Src.RelationsMap.flat_map_u64_u32_u64_u32.kv_pair)
    (a' b' : Src.RelationsMap.flat_map_u64_u64_u64_u64.kv_pair)
    (ha : Src.RelationsMap.flat_map_u64_u32_u64_u32.kv_pair.typed a = true)
    (hb : Src.RelationsMap.flat_map_u64_u32_u64_u32.kv_pair.typed b = true)
    (ha' : Src.RelationsMap.flat_map_u64_u64_u64_u64.kv_pair.typed a' = true)
    (hb' : Src.RelationsMap.flat_map_u64_u64_u64_u64.kv_pair.typed b' = true) :
    Src.RelationsMap.flat_map_u64_u32_u64_u32.kv_pair.op_eq_kv_pair a b
      = decide ((a.key.toNat, a.value.toNat) = (b.key.toNat, b.value.toNat)) ∧
    Src.RelationsMap.flat_map_u64_u64_u64_u64.kv_pair.op_eq_kv_pair a' b'
      = decide ((a'.key.toNat, a'.value.toNat) = (b'.key.toNat, b'.value.toNat)) := by
  simp only [Src.RelationsMap.flat_map_u64_u32_u64_u32.kv_pair.typed, Src.RelationsMap.flat_map_u64_u64_u64_u64.kv_pair.typed,
    Bool.and_eq_true, inU_iff] at ha hb ha' hb'
  constructor <;> rw [Bool.eq_iff_iff] <;>
    simp only [Src.RelationsMap.flat_map_u64_u32_u64_u32.kv_pair.op_eq_kv_pair, Src.RelationsMap.flat_map_u64_u64_u64_u64.kv_pair.op_eq_kv_pair,
      Bool.and_eq_true, eq_iff, decide_eq_true_eq, Prod.mk.injEq] <;> omega

/-- `kv_pair(key_id, value_id)`: the `static_cast`s to the internal types are the model's `cast iw`
    (`FlatMap.set`), for both maps -/
theorem src_tie_kv_pair_ctor (k v : Nat) (hk : k < 2 ^ 64) (hv : v < 2 ^ 64) :
    Src.RelationsMap.flat_map_u64_u32_u64_u32.kv_pair.ctor_u64_u64 k v = ⟨(RelMap.cast 32 k : Nat), (RelMap.cast 32 v : Nat)⟩ ∧
    Src.RelationsMap.flat_map_u64_u64_u64_u64.kv_pair.ctor_u64_u64 k v = ⟨(RelMap.cast 64 k : Nat), (RelMap.cast 64 v : Nat)⟩ := by
  have e64 : ∀ n : Nat, n < 2 ^ 64 → RelMap.cast 64 n = n := fun n h => by simp [RelMap.cast, Nat.mod_eq_of_lt h]
  refine ⟨?_, by rw [e64 k hk, e64 v hv]; rfl⟩
  simp only [Src.RelationsMap.flat_map_u64_u32_u64_u32.kv_pair.ctor_u64_u64, wrapU, RelMap.cast]
  congr 1 <;> simp

/-- the guard of fix 9f963df in `RelationsMapIndex::for_each` (`id > numeric_limits<uint32_t>::max()` ⇒ nothing is
    looked up in the 32-bit map) is the model's `id > max32` of `Index.forEach` -/
theorem src_tie_for_each_guard (id : Nat) :
    Src.RelationsMap.for_each_cond_id_above_32bit id = decide (id > RelMap.max32) := by
  rw [Bool.eq_iff_iff]
  refine Iff.trans ?_ decide_eq_true_iff.symm
  simp only [Src.RelationsMap.for_each_cond_id_above_32bit, gt_iff, RelMap.max32]
  omega

/-- `RelationsMapStash::add`: `member_id <= max32 && relation_id <= max32` selects the 32-bit map exactly as `Stash.add` -/
theorem src_tie_stash_add_cond (m r : Nat) :
    Src.RelationsMap.add_cond_fits_32bit m r = (decide (m ≤ RelMap.max32) && decide (r ≤ RelMap.max32)) := by
  rw [Bool.eq_iff_iff, Bool.and_eq_true]
  refine Iff.trans ?_ (and_congr decide_eq_true_iff.symm decide_eq_true_iff.symm)
  simp only [Src.RelationsMap.add_cond_fits_32bit, Src.RelationsMap.RelationsMapStash.add.max32, Bool.and_eq_true, le_iff, RelMap.max32]
  omega

/-- the translator's RECORD of `flat_map` (every data member inside the subset becomes a field; the vector is an
    opaque value with a `size`): both instantiations have the vector as their ONLY state — two flat_maps with the same
    vector are the same object, so no method can behave differently on them (a flag such as "already sorted" would be
    a second field and refute this) — and `size()` reads the vector. -/
theorem src_tie_flat_map_state (a b : Src.RelationsMap.flat_map_u64_u32_u64_u32) (a' b' : Src.RelationsMap.flat_map_u64_u64_u64_u64) :
    (a.m_map = b.m_map → a = b) ∧ (a'.m_map = b'.m_map → a' = b') ∧
    Src.RelationsMap.flat_map_u64_u32_u64_u32.size a = a.m_map.size ∧
    Src.RelationsMap.flat_map_u64_u64_u64_u64.size a' = a'.m_map.size := by
  refine ⟨?_, ?_, rfl, rfl⟩
  · cases a; cases b; intro h; simp_all
  · cases a'; cases b'; intro h; simp_all

example : Src.RelationsMap.flat_map_u64_u32_u64_u32.kv_pair.typed ⟨4294967295, 0⟩ = true := by decide

end SrcTies

/-! ### shape ties (tools/props/c15.py `regen_shape` → Osmium/Generated/C15Shape.lean): the container methods whose bodies
    are calls of std algorithms on a `std::vector` are outside the translator's subset; their STATEMENT SEQUENCES are
    read off clang's AST of the current source on every run (normalised: one string per statement) and compared here
    with the sequences the model functions of `Model/RelMap.lean` / `Model/IdSet.lean` transcribe.  What each theorem
    pins: no statement before / between / after the listed ones — in particular no early `return`, no branch, no
    second data member a method could consult (the `*_fields` lists). -/

section ShapeTies
open Osmium.Generated

/-- `flat_map` (both instantiations) and `RelationsMapStash` / `IdSetSmall` have no state besides their vectors:
    nothing (no "already sorted" flag, no cached size) can make `sort_unique()` or a lookup depend on the HISTORY of
    the object rather than on the content of the vector — `Model.RelMap.FlatMap` is a plain `List`. -/
theorem src_shape_state :
    C15Shape.flat_map32_fields = ["m_map"] ∧ C15Shape.flat_map64_fields = ["m_map"] ∧
    C15Shape.stash_fields = ["m_map32", "m_map64"] ∧ C15Shape.small_fields = ["m_data"] :=
  ⟨rfl, rfl, rfl, rfl⟩

/-- `flat_map::set` appends one pair and does nothing else (`FlatMap.set`: `m ++ [(cast k, cast v)]`; the casts are
    `src_tie_kv_pair_ctor`). -/
theorem src_shape_flat_map_set :
    C15Shape.flat_map32_set = ["m_map.emplace_back(key, value)"] ∧
    C15Shape.flat_map64_set = ["m_map.emplace_back(key, value)"] :=
  ⟨rfl, rfl⟩

/-- `flat_map::sort_unique` is UNCONDITIONALLY sort; unique; erase-the-tail on the whole vector
    (`FlatMap.sortUnique m = uniq (m.mergeSort kvLe)`; order and equality of the pairs are `src_tie_kv_pair_lt_*`,
    `src_tie_kv_pair_eq`): no early return, no branch. -/
theorem src_shape_flat_map_sort_unique :
    C15Shape.flat_map32_sort_unique =
      ["sort(m_map.begin(), m_map.end())", "let last = unique(m_map.begin(), m_map.end())", "m_map.erase(last, m_map.end())"] ∧
    C15Shape.flat_map64_sort_unique = C15Shape.flat_map32_sort_unique :=
  ⟨rfl, rfl⟩

/-- `flip_in_place` swaps key and value of every pair, `flip_copy` sets (value, key) of every pair into a fresh map
    (`FlatMap.flip`); `clear` empties the vector; `get` is one `equal_range` over the whole vector with the key-only
    comparator and the probe `kv_pair{key}` (`FlatMap.get`); `empty`/`size` read the vector. -/
theorem src_shape_flat_map_flip_clear_get :
    C15Shape.flat_map32_flip_in_place = ["for p in m_map", "swap(p.key, p.value)", "endfor"] ∧
    C15Shape.flat_map64_flip_in_place = C15Shape.flat_map32_flip_in_place ∧
    C15Shape.flat_map32_flip_copy =
      ["let map = flat_map{}", "map.reserve(m_map.size())", "for p in m_map", "map.set(p.value, p.key)", "endfor", "return map"] ∧
    C15Shape.flat_map64_flip_copy = C15Shape.flat_map32_flip_copy ∧
    C15Shape.flat_map32_clear = ["m_map.clear()", "m_map.shrink_to_fit()"] ∧
    C15Shape.flat_map32_get =
      ["return equal_range(m_map.begin(), m_map.end(), kv_pair{key}, lambda{return (lhs.key < rhs.key)})"] ∧
    C15Shape.flat_map64_get = C15Shape.flat_map32_get ∧
    C15Shape.flat_map32_empty = ["return m_map.empty()"] ∧ C15Shape.flat_map64_empty = ["return m_map.empty()"] ∧
    C15Shape.flat_map32_size = ["return m_map.size()"] ∧ C15Shape.flat_map64_size = ["return m_map.size()"] :=
  ⟨rfl, rfl, rfl, rfl, rfl, rfl, rfl, rfl, rfl, rfl, rfl⟩

/-- `RelationsMapStash::add` (`Stash.add`; the condition is `src_tie_stash_add_cond`) and `append32to64`
    (`RelMap.append32to64`: sort_unique the 64-bit map, set every 32-bit pair into it, sort_unique again). -/
theorem src_shape_stash_add_append :
    C15Shape.stash_add =
      ["let max32 = max()", "if ((member_id <= max32) && (relation_id <= max32))", "m_map32.set(member_id, relation_id)",
       "else", "m_map64.set(member_id, relation_id)", "endif"] ∧
    C15Shape.stash_append32to64 =
      ["map64.sort_unique()", "map64.reserve((map64.size() + map32.size()))", "for item in map32",
       "map64.set(item.key, item.value)", "endfor", "map64.sort_unique()", "map32.clear()"] ∧
    C15Shape.stash_empty = ["return (m_map32.empty() && m_map64.empty())"] ∧
    C15Shape.stash_size = ["return (m_map32.size() + m_map64.size())"] ∧
    C15Shape.stash_sizes = ["return make_pair(m_map32.size(), m_map64.size())"] :=
  ⟨rfl, rfl, rfl, rfl, rfl⟩

/-- the three builders (`Stash.buildMemberToParent`, `Stash.buildParentToMember`, `Stash.buildIndexes`) -/
theorem src_shape_stash_builders :
    C15Shape.stash_build_member_to_parent_index =
      ["m_map32.sort_unique()", "if m_map64.empty()", "return RelationsMapIndex{move(m_map32)}", "endif",
       "append32to64(m_map32, m_map64)", "return RelationsMapIndex{move(m_map64)}"] ∧
    C15Shape.stash_build_parent_to_member_index =
      ["m_map32.flip_in_place()", "m_map32.sort_unique()", "if m_map64.empty()", "return RelationsMapIndex{move(m_map32)}", "endif",
       "m_map64.flip_in_place()", "append32to64(m_map32, m_map64)", "return RelationsMapIndex{move(m_map64)}"] ∧
    C15Shape.stash_build_indexes =
      ["let reverse_map32 = m_map32.flip_copy()", "reverse_map32.sort_unique()", "m_map32.sort_unique()", "if m_map64.empty()",
       "return RelationsMapIndexes{move(m_map32), move(reverse_map32)}", "endif", "let reverse_map64 = m_map64.flip_copy()",
       "append32to64(reverse_map32, reverse_map64)", "append32to64(m_map32, m_map64)",
       "return RelationsMapIndexes{move(m_map64), move(reverse_map64)}"] :=
  ⟨rfl, rfl, rfl⟩

/-- `IdSetSmall<uint64_t>`: `set` (`Small.set`: append unless equal to the last element), `get` (linear `find`),
    `get_binary_search`, `sort_unique` (unconditional sort; unique; erase — `Small.sortUnique`), `merge_sorted`
    (one `set_union` of the two whole vectors into a fresh vector that replaces `m_data` — `Small.mergeSorted`: no
    fast path), `clear`, `size`, `empty`. -/
theorem src_shape_idsetsmall :
    C15Shape.small_set = ["if (m_data.empty() || (m_data.back() != id))", "m_data.push_back(id)", "endif"] ∧
    C15Shape.small_get = ["let it = find(m_data.cbegin(), m_data.cend(), id)", "return operator!=(it, m_data.cend())"] ∧
    C15Shape.small_get_binary_search = ["return binary_search(m_data.cbegin(), m_data.cend(), id)"] ∧
    C15Shape.small_sort_unique =
      ["sort(m_data.begin(), m_data.end())", "let last = unique(m_data.begin(), m_data.end())", "m_data.erase(last, m_data.end())"] ∧
    C15Shape.small_merge_sorted =
      ["let new_data = vector{}", "new_data.reserve((m_data.size() + other.m_data.size()))",
       "set_union(m_data.cbegin(), m_data.cend(), other.m_data.cbegin(), other.m_data.cend(), back_inserter(new_data))",
       "swap(new_data, m_data)"] ∧
    C15Shape.small_clear = ["m_data.clear()"] ∧ C15Shape.small_size = ["return m_data.size()"] ∧
    C15Shape.small_empty = ["return m_data.empty()"] :=
  ⟨rfl, rfl, rfl, rfl, rfl, rfl, rfl, rfl⟩

end ShapeTies


end Osmium.C15
