/-
C15 — Id sets, relation maps and the item stash match their set/map models.

Property theorems only (helper lemmas, the specification machines and the invariants live in
Osmium/Lemmas/{IdSet,RelMap,Stash}.lean).  Every theorem quantifies over ALL histories of the
models: all operation lists, all ids of the id type, all chunk sizes, all payloads.

Two clauses of the property were refuted by the code before the fixes for findings F2, F3 of
DESIGN.md §5.  This file is the version for the code AFTER the two fixes (`FIXED_F2`, `FIXED_F3`
= true in the models): the full statements (`def … : Prop`) are now proved (`idset_iteration` for
every id type narrower than 64 bits, `relmap_lookup` without restriction); the `_partial`
theorems are kept (for the id sets they also cover T = uint64).
-/
import Osmium.Lemmas.IdSet
import Osmium.Lemmas.RelMap
import Osmium.Lemmas.Stash
import Osmium.Generated.Consts
import Osmium.Lemmas.SrcTie

namespace Osmium.C15

/-! ## IdSetDense<T, chunk_bits>  (w = bits of T, cb = chunk_bits) -/

open Osmium.IdSet in
/-- get / size / empty / check_and_set / set / unset / clear / copy: for every chunk size, every id
    width and every history whose ids are values of `T`, the outputs of all calls are those of the
    mathematical set (`size` in the arithmetic of `T`), across all chunk boundaries; the final
    membership function is that of the set. -/
theorem idset_refines (w cb : Nat) (ops : List Op) (h : ∀ op ∈ ops, op.inRange w) :
    (run w cb {} ops).2 = (specRun w [] ops).2 ∧
    (∀ id, id < 2 ^ w → get cb (run w cb {} ops).1 id = decide (id ∈ (specRun w [] ops).1)) ∧
    (specRun w [] ops).1.Nodup ∧ (∀ id ∈ (specRun w [] ops).1, id < 2 ^ w) :=
  refines w cb ops h

open Osmium.IdSet in
/-- `size()` is exact (not only modulo 2^w) unless the set contains every value of `T`
    (`m_size` has type `T`: a set holding all 2^w values reports size 0). -/
theorem idset_size_exact (w cb : Nat) (ops : List Op) (h : ∀ op ∈ ops, op.inRange w)
    (hc : (specRun w [] ops).1.length < 2 ^ w) :
    (run w cb {} ops).1.size = (specRun w [] ops).1.length := by
  rw [size_eq w cb ops h, Nat.mod_eq_of_lt hc]

open Osmium.IdSet in
/-- FULL STATEMENT of the iteration clause: after any history the iterator delivers exactly the
    elements, ascending, each once. -/
def IdsetIteration (w cb : Nat) : Prop :=
  ∀ ops : List Op, (∀ op ∈ ops, op.inRange w) → IterExact w cb (run w cb {} ops).1

open Osmium.IdSet in
/-- After the F2 fix (iterator positions kept in 64 bits) the full statement holds for every id
    type narrower than 64 bits, in particular T = uint32 with every chunk size: `last()` can no
    longer wrap, and the chunk vector of a reachable state never extends beyond the id space. -/
theorem idset_iteration (w cb : Nat) (hcb : cb + 3 ≤ w) (hw : w < 64) : IdsetIteration w cb :=
  fun ops h => iter_exact_full w cb hcb hw ops h

open Osmium.IdSet in
/-- Iteration is exact for every history that never touches the top chunk of the id space
    (all ids given to set/unset/check_and_set are below 2^w − 2^(chunk_bits+3)). -/
theorem idset_iteration_partial (w cb : Nat) (hcb : cb + 3 ≤ w) (ops : List Op)
    (h : ∀ op ∈ ops, op.inRange w)
    (htop : ∀ op ∈ ops, match op with
      | .set id | .unset id | .checkAndSet id => id < 2 ^ w - 2 ^ (cb + 3)
      | _ => True) :
    IterExact w cb (run w cb {} ops).1 :=
  iter_exact_of_no_wrap w cb hcb ops h (no_wrap_of_ids_below_top w cb hcb ops htop)

open Osmium.IdSet in
/-- The sharp domain: iteration is exact after every history at whose end `last()` does not wrap,
    i.e. the chunk vector does not reach the top of the id space (this includes histories that
    touched the top chunk and called `clear()` afterwards). -/
theorem idset_iteration_partial_no_wrap (w cb : Nat) (hcb : cb + 3 ≤ w) (ops : List Op)
    (h : ∀ op ∈ ops, op.inRange w)
    (hn : (run w cb {} ops).1.nchunks * 2 ^ (cb + 3) < 2 ^ w) :
    IterExact w cb (run w cb {} ops).1 :=
  iter_exact_of_no_wrap w cb hcb ops h hn

/-! ## IdSetSmall -/

open Osmium.IdSet in
theorem idsetsmall_refines :
    (∀ (s : Small) (id x : Nat), Small.get (Small.set s id) x = (decide (x = id) || Small.get s x)) ∧
    (∀ s : Small, (Small.sortUnique s).Pairwise (· < ·) ∧ ∀ x, x ∈ Small.sortUnique s ↔ x ∈ s) ∧
    (∀ s o : Small, s.Pairwise (· < ·) → o.Pairwise (· < ·) →
      (Small.mergeSorted s o).Pairwise (· < ·) ∧ ∀ x, x ∈ Small.mergeSorted s o ↔ (x ∈ s ∨ x ∈ o)) :=
  ⟨small_get_set, small_sortUnique, small_mergeSorted⟩

/-! ## RelationsMapStash / RelationsMapIndex -/

open Osmium.RelMap in
/-- FULL STATEMENT of the lookup clause: for all recorded (member, parent) pairs and every key,
    both indexes deliver exactly the recorded partners of the key, ascending, without duplicates. -/
def RelmapLookup : Prop :=
  ∀ (adds : List (Nat × Nat)) (k : Nat), InRange adds → k < 2 ^ 64 →
    LookupExact (recorded adds).buildMemberToParent adds k ∧
    LookupExact (recorded adds).buildParentToMember (adds.map swap) k

open Osmium.RelMap in
/-- After the F3 fix (a 32-bit index delivers nothing for a key that does not fit into 32 bits)
    the full statement holds. -/
theorem relmap_lookup : RelmapLookup :=
  fun adds k hr hk =>
    ⟨lookup_member_to_parent_full adds k hr hk, lookup_parent_to_member_full adds k hr hk⟩

open Osmium.RelMap in
/-- Lookups are exact whenever the key fits into 32 bits or the index is a 64-bit one. -/
theorem relmap_lookup_partial (adds : List (Nat × Nat)) (k : Nat) (hr : InRange adds)
    (hk : k < 2 ^ 64) (h : k < 2 ^ 32 ∨ Has64 adds) :
    LookupExact (recorded adds).buildMemberToParent adds k ∧
    LookupExact (recorded adds).buildParentToMember (adds.map swap) k :=
  ⟨lookup_member_to_parent adds k hr hk h, lookup_parent_to_member adds k hr hk h⟩

open Osmium.RelMap in
/-- `build_indexes()` returns exactly the indexes of the two single builders (for every stash). -/
theorem relmap_build_variants_agree (s : Stash) :
    s.buildIndexes = (s.buildMemberToParent, s.buildParentToMember) :=
  build_variants_agree s

open Osmium.RelMap in
/-- No duplicates are stored: the index size is the number of distinct recorded pairs. -/
theorem relmap_index_size (adds : List (Nat × Nat)) (hr : InRange adds) :
    ∃ l : List (Nat × Nat), l.Nodup ∧ (∀ p, p ∈ l ↔ p ∈ adds) ∧
      (recorded adds).buildMemberToParent.size = l.length :=
  index_size adds hr

/-! ## ItemStash -/

open Osmium.Stash in
/-- For every history of add_item / get_item / remove_item / garbage_collect / clear (with the
    automatic collections inside add_item, for every initial buffer size) the outputs are those of
    the handle ↦ content map: handles are 1, 2, 3, … since the last clear, a live handle always
    resolves to the unchanged content added under it, and the only precondition violations are
    calls with invalid / removed handles. -/
theorem stash_refines (ibs : Nat) (ops : List Op) :
    (run (init ibs) ops).2 = (specRun [] ops).2 :=
  refines ibs ops

open Osmium.Stash in
/-- The invariant behind it, for every reachable state: the non-REMOVED index entries, in handle
    order, are exactly the byte offsets of the non-removed buffer items, in buffer order, each
    item carrying the content of its handle; removed handles have the REMOVED marker; the item
    counter is the number of live handles. -/
theorem stash_index_invariant (ibs : Nat) (ops : List Op) :
    Inv (run (init ibs) ops).1 (specRun [] ops).1 :=
  reachable_inv ibs ops

open Osmium.Stash in
/-- Garbage collection of any reachable state succeeds (the helper never runs off the index) and
    every handle resolves to the same item before and after. -/
theorem gc_preserves_handles (ibs : Nat) (ops : List Op) :
    ∃ s', garbageCollect (run (init ibs) ops).1 = some s' ∧
      ∀ h, getItem s' h = getItem (run (init ibs) ops).1 h :=
  gc_preserves ibs ops

open Osmium.Stash in
/-- After garbage collection of any reachable state no removed item is left and the committed size
    is exactly the space of the live items: the space of removed items is reclaimed. -/
theorem gc_reclaims (ibs : Nat) (ops : List Op) (s' : State)
    (h : garbageCollect (run (init ibs) ops).1 = some s') :
    committed s' = liveBytes (run (init ibs) ops).1.items ∧
    (∀ i ∈ s'.items, i.removed = false) ∧ s'.countRemoved = 0 :=
  Osmium.Stash.gc_reclaims ibs ops s' h

/-! ## non-vacuity: the hypotheses are met by non-trivial histories -/

-- a history inside the domain of `idset_iteration_partial` that crosses two chunk boundaries
open Osmium.IdSet in
example : (∀ op ∈ [Op.set 127, .set 128, .set 300, .unset 128], op.inRange 32) ∧
    toList 32 4 (run 32 4 {} [.set 127, .set 128, .set 300, .unset 128]).1 = some [127, 300] := by
  refine ⟨by simp [Op.inRange], by decide⟩

-- a 64-bit index and a 32-bit index probed inside the domain of `relmap_lookup_partial`
open Osmium.RelMap in
example : Has64 [(5, 7), (2 ^ 32 + 5, 1)] ∧ InRange [(5, 7), (2 ^ 32 + 5, 1)] := by
  refine ⟨⟨(2 ^ 32 + 5, 1), by simp, by simp⟩, ?_⟩
  intro p hp
  simp at hp
  rcases hp with rfl | rfl <;> simp

-- a stash history with a removal and a collection after which the later handle still resolves
open Osmium.Stash in
example : (run (init 64) [.add [1], .add [2, 3], .remove 1, .gc, .get 2, .get 1]).2 =
    [.handle 1, .handle 2, .unit, .unit, .item 10 false [2, 3], .ub] := by decide

/-- Tie of the stash constants to the CURRENT source (regenerated `Generated/Consts.lean`): the
    removed marker and the four thresholds of `should_gc()`. -/
theorem consts_tie_stash :
    Osmium.Stash.REMOVED = Osmium.Generated.Consts.stashRemovedItemOffset ∧
    ∀ s : Osmium.Stash.State, Osmium.Stash.shouldGc s =
      (if s.countRemoved < Osmium.Generated.Consts.stashGcMinRemoved then false
       else if s.countRemoved > Osmium.Generated.Consts.stashGcMaxRemoved then true
       else if s.countRemoved * Osmium.Generated.Consts.stashGcFactor < s.countItems then false
       else decide (s.capacity - Osmium.Stash.committed s < Osmium.Generated.Consts.stashGcFreeBytes)) := by
  refine ⟨by decide, fun s => ?_⟩
  simp only [Osmium.Stash.shouldGc, Osmium.Generated.Consts.stashGcMinRemoved, Osmium.Generated.Consts.stashGcMaxRemoved, Osmium.Generated.Consts.stashGcFactor, Osmium.Generated.Consts.stashGcFreeBytes]
  rfl

/-! ### source ties (tools/cxx2lean.py): the functions REGENERATED from /repo's C++ source on every run
    (Osmium/Generated/Src.lean) equal the hand-written model functions the theorems above are about.
    Both instantiations `IdSetDense<uint64_t>` and `IdSetDense<uint32_t>` (chunk_bits = 22) are translated. -/

section SrcTies
open Osmium.Generated Osmium.CxxSem Osmium.SrcTie

/-- `IdSetDense::chunk_id(id)` = `IdSet.chunkId 22` -/
theorem src_tie_chunk_id (id : Nat) :
    Src.IdSet.IdSetDense_u64_22.chunk_id (id : Int) = (IdSet.chunkId 22 id : Int) ∧
    Src.IdSet.IdSetDense_u32_22.chunk_id (id : Int) = (IdSet.chunkId 22 id : Int) := by
  have e : wrapU 64 (22 + 3) = ((25 : Nat) : Int) := by decide
  simp only [Src.IdSet.IdSetDense_u64_22.chunk_id, Src.IdSet.IdSetDense_u32_22.chunk_id, IdSet.chunkId, e, shr_nat]
  simp

/-- `IdSetDense::offset(id)` = `IdSet.offset 22` -/
theorem src_tie_offset (id : Nat) :
    Src.IdSet.IdSetDense_u64_22.offset (id : Int) = (IdSet.offset 22 id : Int) ∧
    Src.IdSet.IdSetDense_u32_22.offset (id : Int) = (IdSet.offset 22 id : Int) := by
  have e : wrapU 32 (shl 32 1 22 - 1) = ((4194303 : Nat) : Int) := by decide
  have e3 : (3 : Int) = ((3 : Nat) : Int) := rfl
  simp only [Src.IdSet.IdSetDense_u64_22.offset, Src.IdSet.IdSetDense_u32_22.offset, IdSet.offset, e]
  rw [e3, shr_nat, band_nat]
  simp

/-- `IdSetDense::bitmask(id)` = `IdSet.bitmask` (the model keeps the low byte, the value is ≤ 128) -/
theorem src_tie_bitmask (id : Nat) :
    Src.IdSet.IdSetDense_u64_22.bitmask (id : Int) = ((IdSet.bitmask id).toNat : Int) ∧
    Src.IdSet.IdSetDense_u32_22.bitmask (id : Int) = ((IdSet.bitmask id).toNat : Int) := by
  have e7 : (7 : Int) = ((7 : Nat) : Int) := rfl
  have e1 : (1 : Int) = ((1 : Nat) : Int) := rfl
  simp only [Src.IdSet.IdSetDense_u64_22.bitmask, Src.IdSet.IdSetDense_u32_22.bitmask, IdSet.bitmask]
  rw [e7, band_nat, e1, shl_nat]
  have h7 : id &&& 7 < 8 := by
    have := @Nat.and_le_right id 7; omega
  have : ∀ k, k < 8 → ((1 <<< k) % 2 ^ 32 : Nat) = (1#8 <<< k).toNat := by decide
  simp [this _ h7]

/-- none of the shifts in the three helpers can be undefined (amounts 25, 3, 22 and `id & 7` < 32) -/
theorem src_defined_idset (id : Nat) :
    Src.IdSet.IdSetDense_u64_22.chunk_id_defined (id : Int) = true ∧ Src.IdSet.IdSetDense_u64_22.offset_defined (id : Int) = true ∧
    Src.IdSet.IdSetDense_u64_22.bitmask_defined (id : Int) = true ∧ Src.IdSet.IdSetDense_u32_22.chunk_id_defined (id : Int) = true ∧
    Src.IdSet.IdSetDense_u32_22.offset_defined (id : Int) = true ∧ Src.IdSet.IdSetDense_u32_22.bitmask_defined (id : Int) = true := by
  have e7 : (7 : Int) = ((7 : Nat) : Int) := rfl
  have h7 : id &&& 7 < 8 := by
    have := @Nat.and_le_right id 7; omega
  simp only [Src.IdSet.IdSetDense_u64_22.chunk_id_defined, Src.IdSet.IdSetDense_u64_22.offset_defined,
    Src.IdSet.IdSetDense_u64_22.bitmask_defined, Src.IdSet.IdSetDense_u32_22.chunk_id_defined,
    Src.IdSet.IdSetDense_u32_22.offset_defined, Src.IdSet.IdSetDense_u32_22.bitmask_defined, e7, band_nat, shiftOk_iff]
  refine ⟨by decide, by decide, ?_, by decide, by decide, ?_⟩ <;> omega

/-- `ItemStash::should_gc()` = `Stash.shouldGc` on every stash whose members are size_t values with
    `committed ≤ capacity` (the buffer invariant; without it the unsigned difference wraps).  Supersedes the
    regex route of `consts_tie_stash`: the whole function, not only its four thresholds, comes from the source. -/
theorem src_tie_should_gc (s : Src.ItemStash.ItemStash) (ht : Src.ItemStash.ItemStash.typed s = true)
    (hc : s.m_buffer.m_committed ≤ s.m_buffer.m_capacity) :
    Src.ItemStash.ItemStash.should_gc s = Stash.shouldGc (stashOfSrc s) := by
  simp only [Src.ItemStash.ItemStash.typed, Src.Buffer.Buffer.typed, Bool.and_eq_true, inU_iff, inS_iff] at ht
  dsimp only [Stash.shouldGc, Stash.committed, stashOfSrc, Src.ItemStash.ItemStash.should_gc, Src.Buffer.Buffer.capacity,
    Src.Buffer.Buffer.committed]
  have e1 : wrapU 64 (10 * 1000) = 10000 := by decide
  have e2 : wrapU 64 (wrapU 64 (5 * 1000) * 1000) = 5000000 := by decide
  have e4 : wrapU 64 (10 * 1024) = 10240 := by decide
  have e5 : wrapU 64 (s.m_buffer.m_capacity - s.m_buffer.m_committed) = s.m_buffer.m_capacity - s.m_buffer.m_committed := by
    apply wrapU_eq <;> omega
  rw [e1, e2, e4, e5]
  by_cases c1 : s.m_count_removed < 10000
  · have : s.m_count_removed.toNat < 10 * 1000 := by omega
    simp [c1, this]
  · have n1 : ¬ s.m_count_removed.toNat < 10 * 1000 := by omega
    by_cases c2 : 5000000 < s.m_count_removed
    · have : s.m_count_removed.toNat > 5 * 1000 * 1000 := by omega
      simp [c1, n1, c2, this]
    · have n2 : ¬ s.m_count_removed.toNat > 5 * 1000 * 1000 := by omega
      have e3 : wrapU 64 (s.m_count_removed * 5) = s.m_count_removed * 5 := by
        apply wrapU_eq <;> omega
      rw [e3]
      by_cases c3 : s.m_count_removed * 5 < s.m_count_items
      · have : s.m_count_removed.toNat * 5 < s.m_count_items.toNat := by omega
        simp [c1, n1, c2, n2, c3, this]
      · have n3 : ¬ s.m_count_removed.toNat * 5 < s.m_count_items.toNat := by omega
        simp only [c1, n1, c2, n2, c3, n3, lt_iff, gt_iff, ite_false]
        rw [Bool.eq_iff_iff, lt_iff]; refine Iff.trans ?_ decide_eq_true_iff.symm
        omega

example : Src.ItemStash.ItemStash.typed ⟨⟨1048576, 4096, 4096, 1⟩, ⟨12⟩, 20000, 15000⟩ = true ∧
    (4096 : Int) ≤ 1048576 := by decide

/-! #### index/relations_map.hpp: `kv_pair`, the 32-bit guards (fix 9f963df) -/

/-- `kv_pair::operator<` (`std::tie(key, value) < std::tie(other.key, other.value)`) of the 32-bit map = `RelMap.kvLt` -/
theorem src_tie_kv_pair_lt_32 (a b : Src.RelationsMap.flat_map_u64_u32_u64_u32.kv_pair)
    (ha : Src.RelationsMap.flat_map_u64_u32_u64_u32.kv_pair.typed a = true)
    (hb : Src.RelationsMap.flat_map_u64_u32_u64_u32.kv_pair.typed b = true) :
    Src.RelationsMap.flat_map_u64_u32_u64_u32.kv_pair.op_lt_kv_pair a b
      = RelMap.kvLt (a.key.toNat, a.value.toNat) (b.key.toNat, b.value.toNat) := by
  simp only [Src.RelationsMap.flat_map_u64_u32_u64_u32.kv_pair.typed, Bool.and_eq_true, inU_iff] at ha hb
  rw [Bool.eq_iff_iff]
  by_cases h1 : a.key < b.key <;> by_cases h2 : b.key < a.key <;> by_cases h3 : a.value < b.value <;>
    simp [Src.RelationsMap.flat_map_u64_u32_u64_u32.kv_pair.op_lt_kv_pair, RelMap.kvLt, *] <;> omega

/-- the same for the 64-bit map -/
theorem src_tie_kv_pair_lt_64 (a b : Src.RelationsMap.flat_map_u64_u64_u64_u64.kv_pair)
    (ha : Src.RelationsMap.flat_map_u64_u64_u64_u64.kv_pair.typed a = true)
    (hb : Src.RelationsMap.flat_map_u64_u64_u64_u64.kv_pair.typed b = true) :
    Src.RelationsMap.flat_map_u64_u64_u64_u64.kv_pair.op_lt_kv_pair a b
      = RelMap.kvLt (a.key.toNat, a.value.toNat) (b.key.toNat, b.value.toNat) := by
  simp only [Src.RelationsMap.flat_map_u64_u64_u64_u64.kv_pair.typed, Bool.and_eq_true, inU_iff] at ha hb
  rw [Bool.eq_iff_iff]
  by_cases h1 : a.key < b.key <;> by_cases h2 : b.key < a.key <;> by_cases h3 : a.value < b.value <;>
    simp [Src.RelationsMap.flat_map_u64_u64_u64_u64.kv_pair.op_lt_kv_pair, RelMap.kvLt, *] <;> omega

/-- `kv_pair::operator==` (what `std::unique` in `sort_unique()` uses) = equality of the model's pairs -/
theorem src_tie_kv_pair_eq (a b : Src.RelationsMap.flat_map_u64_u32_u64_u32.kv_pair)
    (a' b' : Src.RelationsMap.flat_map_u64_u64_u64_u64.kv_pair)
    (ha : Src.RelationsMap.flat_map_u64_u32_u64_u32.kv_pair.typed a = true)
    (hb : Src.RelationsMap.flat_map_u64_u32_u64_u32.kv_pair.typed b = true)
    (ha' : Src.RelationsMap.flat_map_u64_u64_u64_u64.kv_pair.typed a' = true)
    (hb' : Src.RelationsMap.flat_map_u64_u64_u64_u64.kv_pair.typed b' = true) :
    Src.RelationsMap.flat_map_u64_u32_u64_u32.kv_pair.op_eq_kv_pair a b
      = decide ((a.key.toNat, a.value.toNat) = (b.key.toNat, b.value.toNat)) ∧
    Src.RelationsMap.flat_map_u64_u64_u64_u64.kv_pair.op_eq_kv_pair a' b'
      = decide ((a'.key.toNat, a'.value.toNat) = (b'.key.toNat, b'.value.toNat)) := by
  simp only [Src.RelationsMap.flat_map_u64_u32_u64_u32.kv_pair.typed, Src.RelationsMap.flat_map_u64_u64_u64_u64.kv_pair.typed,
    Bool.and_eq_true, inU_iff] at ha hb ha' hb'
  constructor <;> rw [Bool.eq_iff_iff] <;>
    simp only [Src.RelationsMap.flat_map_u64_u32_u64_u32.kv_pair.op_eq_kv_pair, Src.RelationsMap.flat_map_u64_u64_u64_u64.kv_pair.op_eq_kv_pair,
      Bool.and_eq_true, eq_iff, decide_eq_true_eq, Prod.mk.injEq] <;> omega

/-- `kv_pair(key_id, value_id)`: the `static_cast`s to the internal types are the model's `cast iw`
    (`FlatMap.set`), for both maps -/
theorem src_tie_kv_pair_ctor (k v : Nat) (hk : k < 2 ^ 64) (hv : v < 2 ^ 64) :
    Src.RelationsMap.flat_map_u64_u32_u64_u32.kv_pair.ctor_u64_u64 k v = ⟨(RelMap.cast 32 k : Nat), (RelMap.cast 32 v : Nat)⟩ ∧
    Src.RelationsMap.flat_map_u64_u64_u64_u64.kv_pair.ctor_u64_u64 k v = ⟨(RelMap.cast 64 k : Nat), (RelMap.cast 64 v : Nat)⟩ := by
  have e64 : ∀ n : Nat, n < 2 ^ 64 → RelMap.cast 64 n = n := fun n h => by simp [RelMap.cast, Nat.mod_eq_of_lt h]
  refine ⟨?_, by rw [e64 k hk, e64 v hv]; rfl⟩
  simp only [Src.RelationsMap.flat_map_u64_u32_u64_u32.kv_pair.ctor_u64_u64, wrapU, RelMap.cast]
  congr 1 <;> simp

/-- the guard of fix 9f963df in `RelationsMapIndex::for_each` (`id > numeric_limits<uint32_t>::max()` ⇒ nothing is
    looked up in the 32-bit map) is the model's `id > max32` of `Index.forEach` -/
theorem src_tie_for_each_guard (id : Nat) :
    Src.RelationsMap.for_each_cond_id_above_32bit id = decide (id > RelMap.max32) := by
  rw [Bool.eq_iff_iff]
  refine Iff.trans ?_ decide_eq_true_iff.symm
  simp only [Src.RelationsMap.for_each_cond_id_above_32bit, gt_iff, RelMap.max32]
  omega

/-- `RelationsMapStash::add`: `member_id <= max32 && relation_id <= max32` selects the 32-bit map exactly as `Stash.add` -/
theorem src_tie_stash_add_cond (m r : Nat) :
    Src.RelationsMap.add_cond_fits_32bit m r = (decide (m ≤ RelMap.max32) && decide (r ≤ RelMap.max32)) := by
  rw [Bool.eq_iff_iff, Bool.and_eq_true]
  refine Iff.trans ?_ (and_congr decide_eq_true_iff.symm decide_eq_true_iff.symm)
  simp only [Src.RelationsMap.add_cond_fits_32bit, Src.RelationsMap.RelationsMapStash.add.max32, Bool.and_eq_true, le_iff, RelMap.max32]
  omega

example : Src.RelationsMap.flat_map_u64_u32_u64_u32.kv_pair.typed ⟨4294967295, 0⟩ = true := by decide

end SrcTies

end Osmium.C15
