/-
C16 — Object orderings are consistent strict weak orders; the order checker agrees.

Property theorems only (helper lemmas live in Osmium/Lemmas).  Every theorem quantifies
over ALL objects / ALL streams of the model (ids are unbounded integers, which contains
the property's domain (INT64_MIN, INT64_MAX]).
-/
import Osmium.Lemmas.Order
import Osmium.Lemmas.SrcTie

namespace Osmium.Order.C16

open Osmium.Order

/-- "timestamp is set" -/
def TsSet (o : Obj) : Prop := o.ts ≠ 0

/-- The id rule: `id_order` is the strict order "0, then negatives, then positives, each by
    absolute value" — it is exactly the (id > 0, |id|) key that every object comparator
    uses. -/
theorem id_order_is_key_order (a b : Int) : idOrder a b = lexLt (idKey a) (idKey b) :=
  idOrder_eq_key a b

theorem id_order_strict_weak : StrictWeakOn (fun _ : Int => True) idOrder :=
  strictWeakOn_of_key _ _ idKey 2 (by simp [idKey]) (fun a b _ _ => idOrder_eq_key a b)

/-- `operator<` / `object_order_type_id_version` is a strict weak ordering on objects whose
    timestamps are all set. -/
theorem lt_strict_weak_ts_set : StrictWeakOn TsSet objLt :=
  strictWeakOn_of_key _ _ (fun o => tiKey o ++ [o.version, o.ts]) 5 (by simp [tiKey, idKey])
    (fun a b ha hb => by
      simp only [TsSet] at ha hb
      simp [objLt, maskTs, tiKey, idKey, ha, hb])

/-- ... and on objects whose timestamps are all unset. -/
theorem lt_strict_weak_ts_unset : StrictWeakOn (fun o => o.ts = 0) objLt :=
  strictWeakOn_of_key _ _ (fun o => tiKey o ++ [o.version, 0]) 5 (by simp [tiKey, idKey])
    (fun a b ha hb => by simp [objLt, maskTs, tiKey, idKey, ha, hb])

/-- The ordering that ignores timestamps is a strict weak ordering on all objects. -/
theorem lt_no_ts_strict_weak : StrictWeakOn (fun _ => True) objLtNoTs :=
  strictWeakOn_of_key _ _ (fun o => tiKey o ++ [o.version]) 4 (by simp [tiKey, idKey])
    (fun a b _ _ => by simp [objLtNoTs, tiKey, idKey])

/-- The newest-first ordering is a strict weak ordering on objects whose timestamps are all
    set. -/
theorem lt_rev_strict_weak_ts_set : StrictWeakOn TsSet objLtRev :=
  strictWeakOn_of_key_rev _ _ tiKey (fun o => [o.version, o.ts, b2n o.visible]) 3 3
    (by simp [tiKey, idKey]) (by simp)
    (fun a b ha hb => by
      simp only [TsSet] at ha hb
      simp [objLtRev, maskTs, tiKey, idKey, ha, hb])

/-- Irreflexivity and asymmetry of `operator<` need no timestamp hypothesis at all. -/
theorem lt_irrefl (a : Obj) : objLt a a = false := by simp [objLt, lexLt_irrefl]

theorem lt_asymm (a b : Obj) (h : objLt a b = true) : objLt b a = false := by
  have hm : ∀ x, maskTs b a x = maskTs a b x := by
    intro x; simp only [maskTs, Bool.and_comm]
  simp only [objLt, hm] at *
  exact lexLt_asymm _ _ (by simp) h

/-- Why the property restricts itself to "timestamps all set or ignored": with mixed
    set/unset timestamps incomparability under `operator<` is NOT transitive. -/
theorem lt_incomp_not_trans_mixed_ts :
    ∃ a b c : Obj, objLt a b = false ∧ objLt b a = false ∧ objLt b c = false ∧ objLt c b = false ∧
      objLt c a = true :=
  ⟨⟨1, 1, 1, 5, true⟩, ⟨1, 1, 1, 0, true⟩, ⟨1, 1, 1, 3, true⟩, by decide⟩

/-- Mutual consistency with equality: two objects are equivalent under the
    timestamp-ignoring order exactly when `==` (type, id, version) holds. -/
theorem no_ts_equiv_iff_eq (a b : Obj) :
    (objLtNoTs a b = false ∧ objLtNoTs b a = false) ↔ objEq a b = true := by
  constructor
  · rintro ⟨h1, h2⟩
    have e := lexLt_total _ _ (by simp) h1 h2
    simp only [List.cons.injEq, and_true] at e
    obtain ⟨e1, e2, e3, e4⟩ := e
    have : a.id = b.id := idKey_inj _ _ (by simp [idKey, e2, e3])
    simp [objEq, e1, this, e4]
  · intro h
    simp only [objEq, Bool.and_eq_true, beq_iff_eq] at h
    obtain ⟨⟨e1, e2⟩, e3⟩ := h
    simp [objLtNoTs, e1, e2, e3, lexLt_irrefl]

/-- Equal objects (`==`) are never ordered by the timestamp-ignoring order, and `operator<`
    refines it: whenever the (type, id, version) part differs the two agree. -/
theorem lt_agrees_with_no_ts (a b : Obj) (h : objEq a b = false) : objLt a b = objLtNoTs a b := by
  have h1 : objLt a b = lexLt ((tiKey a ++ [a.version]) ++ [maskTs a b a.ts])
      ((tiKey b ++ [b.version]) ++ [maskTs a b b.ts]) := by simp [objLt, tiKey, idKey]
  have h2 : objLtNoTs a b = lexLt (tiKey a ++ [a.version]) (tiKey b ++ [b.version]) := by
    simp [objLtNoTs, tiKey, idKey]
  rw [h1, h2, lexLt_append _ _ _ _ (by simp [tiKey, idKey])]
  cases hab : lexLt (tiKey a ++ [a.version]) (tiKey b ++ [b.version]) with
  | true => simp
  | false =>
    cases hba : lexLt (tiKey b ++ [b.version]) (tiKey a ++ [a.version]) with
    | true => simp
    | false =>
      exfalso
      have := (no_ts_equiv_iff_eq a b).1 ⟨by rw [h2]; exact hab, by
        simp only [objLtNoTs]; simpa [tiKey, idKey] using hba⟩
      rw [h] at this; exact absurd this (by decide)

/-- The newest-first order agrees with `operator<` on objects of different (type, id), and
    reverses it between versions of one object. -/
theorem rev_agrees_on_different_objects (a b : Obj) (h : objEqTypeId a b = false) :
    objLtRev a b = objLt a b := by
  have h1 : objLtRev a b = lexLt (tiKey a ++ [b.version, maskTs a b b.ts, b2n b.visible])
      (tiKey b ++ [a.version, maskTs a b a.ts, b2n a.visible]) := by simp [objLtRev, tiKey, idKey]
  have h2 : objLt a b = lexLt (tiKey a ++ [a.version, maskTs a b a.ts])
      (tiKey b ++ [b.version, maskTs a b b.ts]) := by simp [objLt, tiKey, idKey]
  rw [h1, h2, lexLt_append _ _ _ _ (by simp [tiKey, idKey]), lexLt_append _ _ _ _ (by simp [tiKey, idKey])]
  cases hab : lexLt (tiKey a) (tiKey b) with
  | true => simp
  | false =>
    cases hba : lexLt (tiKey b) (tiKey a) with
    | true => simp
    | false =>
      exfalso
      have e := lexLt_total _ _ (by simp [tiKey, idKey]) hab hba
      simp only [tiKey, List.cons.injEq] at e
      have : a.id = b.id := idKey_inj _ _ e.2
      simp [objEqTypeId, e.1, this] at h

theorem rev_reverses_versions (a b : Obj) (h : objEqTypeId a b = true) (hv : a.version ≠ b.version) :
    objLtRev a b = objLt b a := by
  simp only [objEqTypeId, Bool.and_eq_true, beq_iff_eq] at h
  obtain ⟨e1, e2⟩ := h
  have hm : ∀ x, maskTs b a x = maskTs a b x := by
    intro x; simp only [maskTs, Bool.and_comm]
  simp only [objLtRev, objLt, e1, e2, hm, lexLt]
  by_cases h1 : a.version < b.version <;> by_cases h2 : b.version < a.version <;> simp [h1, h2] <;> omega

/-! ### the order checker -/

/-- CheckOrder accepts a stream exactly when it is strictly ascending by type and then by
    id under the id rule — for all streams, all ids. -/
theorem checkorder_accepts_iff (xs : List (Kind × Int)) : accepts xs = ascending xs := by
  cases xs with
  | nil => rfl
  | cons x rest =>
    obtain ⟨k, id⟩ := x
    obtain ⟨s', e, hinv⟩ := checkStep_init k id
    simp only [accepts, checkRun, e]
    exact checkRun_inv s' (k, id) rest hinv

/-- "adjacent ascending" is the same as "every earlier element strictly before every later
    one" (so the accepted streams are exactly the strictly sorted, duplicate-free ones). -/
theorem ascending_iff_pairwise (xs : List (Kind × Int)) :
    ascending xs = true ↔ xs.Pairwise (fun a b => ckLt a b = true) := by
  induction xs with
  | nil => simp [ascending]
  | cons a rest ih =>
    cases rest with
    | nil => simp [ascending]
    | cons b rest' =>
      simp only [ascending, Bool.and_eq_true, ih, List.pairwise_cons]
      constructor
      · rintro ⟨hab, hb, hrest⟩
        refine ⟨?_, hb, hrest⟩
        intro c hc
        rcases List.mem_cons.1 hc with rfl | hc
        · exact hab
        · exact lexLt_trans _ _ _ (by simp [ckey, idKey]) (by simp [ckey, idKey]) hab (hb c hc)
      · rintro ⟨ha, hb, hrest⟩
        exact ⟨ha b (List.mem_cons_self), hb, hrest⟩

/-- Kind of an object by its numeric item type (nodes, ways, relations only). -/
def kindOf (t : Nat) : Kind := if t = 1 then .node else if t = 2 then .way else .relation

def proj (o : Obj) : Kind × Int := (kindOf o.type, o.id)

def IsNWR (o : Obj) : Prop := o.type = 1 ∨ o.type = 2 ∨ o.type = 3

/-- every adjacent pair of the list satisfies `R` -/
def AdjAll {α : Type} (R : α → α → Prop) : List α → Prop
  | [] => True
  | [_] => True
  | a :: b :: rest => R a b ∧ AdjAll R (b :: rest)

/-- A collection sorted with `operator<` (adjacent elements never out of order — what
    `std::sort` guarantees) whose (type, id) pairs are distinct is accepted by CheckOrder,
    whatever the versions and timestamps are. -/
theorem sorted_accepted : ∀ (xs : List Obj), (∀ o ∈ xs, IsNWR o) →
    AdjAll (fun a b => objLt b a = false ∧ objEqTypeId a b = false) xs →
    accepts (xs.map proj) = true := by
  intro xs hk hs
  rw [checkorder_accepts_iff]
  induction xs with
  | nil => rfl
  | cons a rest ih =>
    cases rest with
    | nil => rfl
    | cons b rest' =>
      simp only [AdjAll] at hs
      obtain ⟨⟨hba, hne⟩, hs'⟩ := hs
      simp only [List.map_cons, ascending, Bool.and_eq_true]
      refine ⟨?_, ih (fun o ho => hk o (List.mem_cons_of_mem _ ho)) hs'⟩
      -- objLt b a = false and (type,id) differ ⇒ ckLt (proj a) (proj b)
      have h2 : objLt b a = lexLt (tiKey b ++ [b.version, maskTs b a b.ts])
          (tiKey a ++ [a.version, maskTs b a a.ts]) := by simp [objLt, tiKey, idKey]
      rw [h2, lexLt_append _ _ _ _ (by simp [tiKey, idKey])] at hba
      simp only [Bool.or_eq_false_iff] at hba
      have hba1 := hba.1
      have ha := hk a (List.mem_cons_self)
      have hb := hk b (List.mem_cons_of_mem _ List.mem_cons_self)
      have kk : ∀ o : Obj, IsNWR o → ckey (proj o) = tiKey o := by
        intro o ho
        rcases ho with h | h | h <;> simp [ckey, proj, kindOf, tiKey, Kind.toNat, h]
      simp only [ckLt, kk a ha, kk b hb]
      cases hab : lexLt (tiKey a) (tiKey b) with
      | true => rfl
      | false =>
        exfalso
        have e := lexLt_total _ _ (by simp [tiKey, idKey]) hab hba1
        simp only [tiKey, List.cons.injEq] at e
        have : a.id = b.id := idKey_inj _ _ e.2
        simp [objEqTypeId, e.1, this] at hne

/-! ### non-vacuity: the hypotheses are met by concrete non-trivial objects -/

example : TsSet ⟨1, -5, 2, 1000, true⟩ ∧ TsSet ⟨2, 7, 1, 2000, false⟩ := by
  simp [TsSet]

example : objLt ⟨1, -5, 2, 1000, true⟩ ⟨1, 3, 1, 2000, true⟩ = true := by decide
example : objLtRev ⟨1, 3, 2, 1000, true⟩ ⟨1, 3, 1, 900, true⟩ = true := by decide
example : accepts [(.node, 0), (.node, -1), (.node, -7), (.node, 3), (.way, -2), (.relation, 1)] = true := by decide
example : accepts [(.node, 3), (.node, -1)] = false := by decide

/-! ### source ties (tools/cxx2lean.py): the functions REGENERATED from /repo's C++ source on every run
    (Osmium/Generated/Src.lean) equal the hand-written model functions the theorems above are about.
    `SrcTie.objOfSrc` reads the members `m_type`, `m_id`, `m_version`, `m_timestamp`, `m_deleted` of the translated
    `OSMObject` record; `typed` = every member holds a value of its C++ type. -/

section SrcTies
open Osmium.Generated Osmium.CxxSem Osmium.SrcTie

/-- `id_order::operator()` — for ALL integers (no arithmetic, nothing can wrap or be undefined) -/
theorem src_tie_id_order (a b : Int) :
    Src.ObjectComparisons.id_order.op_call_i64_i64 a b = idOrder a b := by
  unfold Src.ObjectComparisons.id_order.op_call_i64_i64 idOrder
  rw [Bool.eq_iff_iff]
  by_cases h1 : b = 0 <;> by_cases h2 : a = 0 <;> by_cases h3 : a < 0 <;> by_cases h4 : b > 0 <;>
    by_cases h5 : b < 0 <;> simp [*] <;> omega

/-- `object_equal_type_id::operator()(const OSMObject&, const OSMObject&)` -/
theorem src_tie_object_equal_type_id (l r : Src.Object.OSMObject)
    (hl : Src.Object.OSMObject.typed l = true) (hr : Src.Object.OSMObject.typed r = true) :
    Src.ObjectComparisons.object_equal_type_id.op_call_OSMObject_OSMObject l r = objEqTypeId (objOfSrc l) (objOfSrc r) := by
  have fl := obj_typed_facts l hl
  have fr := obj_typed_facts r hr
  rw [Bool.eq_iff_iff]
  simp [Src.ObjectComparisons.object_equal_type_id.op_call_OSMObject_OSMObject, objEqTypeId, objOfSrc,
    Src.Item.Item.type, Src.Object.OSMObject.id]
  omega

/-- `operator==(const OSMObject&, const OSMObject&)` = `object_equal_type_id_version` -/
theorem src_tie_object_eq (l r : Src.Object.OSMObject)
    (hl : Src.Object.OSMObject.typed l = true) (hr : Src.Object.OSMObject.typed r = true) :
    Src.Object.op_eq_OSMObject_OSMObject l r = objEq (objOfSrc l) (objOfSrc r) := by
  have fl := obj_typed_facts l hl
  have fr := obj_typed_facts r hr
  rw [Bool.eq_iff_iff]
  simp [Src.Object.op_eq_OSMObject_OSMObject, objEq, objOfSrc,
    Src.Item.Item.type, Src.Object.OSMObject.id, Src.Object.OSMObject.version]
  omega

/-- `object_order_type_id_version_without_timestamp` (the `const_tie(...) < const_tie(...)` comparison) -/
theorem src_tie_object_lt_no_ts (l r : Src.Object.OSMObject)
    (hl : Src.Object.OSMObject.typed l = true) (hr : Src.Object.OSMObject.typed r = true) :
    Src.ObjectComparisons.object_order_type_id_version_without_timestamp.op_call_OSMObject_OSMObject l r
      = objLtNoTs (objOfSrc l) (objOfSrc r) := by
  have fl := obj_typed_facts l hl
  have fr := obj_typed_facts r hr
  rw [Bool.eq_iff_iff]
  simp only [objLtNoTs, objOfSrc]
  by_cases p1 : 0 < l.m_id <;> by_cases p2 : 0 < r.m_id <;>
  simp [Src.ObjectComparisons.object_order_type_id_version_without_timestamp.op_call_OSMObject_OSMObject, lexLt, b2n,
    Src.Item.Item.type, Src.Object.OSMObject.id, Src.Object.OSMObject.version, positive_id_eq l hl, positive_id_eq r hr, *] <;>
  omega

/-- `operator<(const OSMObject&, const OSMObject&)` = `object_order_type_id_version` -/
theorem src_tie_object_lt (l r : Src.Object.OSMObject)
    (hl : Src.Object.OSMObject.typed l = true) (hr : Src.Object.OSMObject.typed r = true) :
    Src.Object.op_lt_OSMObject_OSMObject l r = objLt (objOfSrc l) (objOfSrc r) := by
  have fl := obj_typed_facts l hl
  have fr := obj_typed_facts r hr
  rw [Bool.eq_iff_iff]
  simp only [objLt, maskTs, objOfSrc]
  have tl : l.m_timestamp.m_timestamp = 0 ∨ (0 < l.m_timestamp.m_timestamp ∧ l.m_timestamp.m_timestamp ≠ 0) := by omega
  have tr : r.m_timestamp.m_timestamp = 0 ∨ (0 < r.m_timestamp.m_timestamp ∧ r.m_timestamp.m_timestamp ≠ 0) := by omega
  by_cases p1 : 0 < l.m_id <;> by_cases p2 : 0 < r.m_id <;>
  rcases tl with t1 | ⟨t1, t1'⟩ <;> rcases tr with t2 | ⟨t2, t2'⟩ <;>
  simp [Src.Object.op_lt_OSMObject_OSMObject, lexLt, b2n, Src.Timestamp.op_lt_Timestamp_Timestamp,
    Src.Timestamp.Timestamp.op_unsigned_int, Src.Timestamp.Timestamp.valid, Src.Timestamp.Timestamp.ctor, Src.Object.OSMObject.timestamp,
    Src.Item.Item.type, Src.Object.OSMObject.id, Src.Object.OSMObject.version, positive_id_eq l hl, positive_id_eq r hr, *] <;>
  omega

/-- `object_order_type_id_reverse_version` -/
theorem src_tie_object_lt_rev (l r : Src.Object.OSMObject)
    (hl : Src.Object.OSMObject.typed l = true) (hr : Src.Object.OSMObject.typed r = true) :
    Src.ObjectComparisons.object_order_type_id_reverse_version.op_call_OSMObject_OSMObject l r = objLtRev (objOfSrc l) (objOfSrc r) := by
  have fl := obj_typed_facts l hl
  have fr := obj_typed_facts r hr
  rw [Bool.eq_iff_iff]
  simp only [objLtRev, maskTs, objOfSrc]
  have tl : l.m_timestamp.m_timestamp = 0 ∨ (0 < l.m_timestamp.m_timestamp ∧ l.m_timestamp.m_timestamp ≠ 0) := by omega
  have tr : r.m_timestamp.m_timestamp = 0 ∨ (0 < r.m_timestamp.m_timestamp ∧ r.m_timestamp.m_timestamp ≠ 0) := by omega
  by_cases p1 : 0 < l.m_id <;> by_cases p2 : 0 < r.m_id <;>
  rcases tl with t1 | ⟨t1, t1'⟩ <;> rcases tr with t2 | ⟨t2, t2'⟩ <;>
  cases v1 : l.m_deleted <;> cases v2 : r.m_deleted <;>
  simp [Src.ObjectComparisons.object_order_type_id_reverse_version.op_call_OSMObject_OSMObject, lexLt, b2n, Src.Timestamp.op_lt_Timestamp_Timestamp,
    Src.Timestamp.Timestamp.op_unsigned_int, Src.Timestamp.Timestamp.valid, Src.Timestamp.Timestamp.ctor, Src.Object.OSMObject.timestamp,
    Src.Object.OSMObject.visible, Src.Object.OSMObject.deleted,
    Src.Item.Item.type, Src.Object.OSMObject.id, Src.Object.OSMObject.version, positive_id_eq l hl, positive_id_eq r hr, *] <;>
  omega

/-- the only undefined behaviour in the three orderings is `std::abs(INT64_MIN)` in `positive_id()`:
    the translated no-UB condition is exactly the model's id domain (INT64_MIN, INT64_MAX] -/
theorem src_defined_object_lt (l r : Src.Object.OSMObject)
    (hl : Src.Object.OSMObject.typed l = true) (hr : Src.Object.OSMObject.typed r = true) :
    Src.Object.op_lt_OSMObject_OSMObject_defined l r = true ↔
      l.m_id ≠ -9223372036854775808 ∧ r.m_id ≠ -9223372036854775808 := by
  have fl := obj_typed_facts l hl
  have fr := obj_typed_facts r hr
  simp only [Src.Object.op_lt_OSMObject_OSMObject_defined, Src.Object.OSMObject.positive_id_defined, Bool.and_eq_true, inS_iff]
  omega

-- the hypotheses are satisfiable: a typed object, and one on which the comparison is defined
example : Src.Object.OSMObject.typed ⟨⟨⟨⟨⟩, 40, 1, 0, 0, 0⟩⟩, -17, false, 3, ⟨1000⟩, 0, 0⟩ = true := by decide
example : Src.Object.op_lt_OSMObject_OSMObject_defined ⟨⟨⟨⟨⟩, 40, 1, 0, 0, 0⟩⟩, -17, false, 3, ⟨1000⟩, 0, 0⟩
    ⟨⟨⟨⟨⟩, 40, 1, 0, 0, 0⟩⟩, 5, false, 1, ⟨0⟩, 0, 0⟩ = true := by decide

/-! #### `handler::CheckOrder` — translated as a state transformer (members read AND written, `throw`) -/

/-- `CheckOrder::node(const Node&)`: for EVERY object state and node, the translated method returns
    normally with the state `checkStep` computes, or throws exactly when `checkStep` is `none` -/
theorem src_tie_checkorder_node (s : Src.CheckOrder.CheckOrder) (n : Src.Node.Node) :
    checkResult (Src.CheckOrder.CheckOrder.node s n) = checkStep (checkOfSrc s) .node n.toBase_OSMObject.m_id ∧
    ThrowsOutOfOrder (Src.CheckOrder.CheckOrder.node s n) s := by
  rcases s with ⟨b, mn, mw, mr, hn, hw, hr⟩
  cases hn <;> cases hw <;> cases hr <;> by_cases e : mn = n.toBase_OSMObject.m_id <;>
    (try have e' : ¬ n.toBase_OSMObject.m_id = mn := fun h => e h.symm) <;>
    cases h : idOrder n.toBase_OSMObject.m_id mn <;>
    simp [Src.CheckOrder.CheckOrder.node, checkStep, checkResult, checkOfSrc, ThrowsOutOfOrder, Src.Object.OSMObject.id,
      src_tie_id_order, *]

/-- `CheckOrder::way(const Way&)` -/
theorem src_tie_checkorder_way (s : Src.CheckOrder.CheckOrder) (w : Src.Way.Way) :
    checkResult (Src.CheckOrder.CheckOrder.way s w) = checkStep (checkOfSrc s) .way w.toBase_OSMObject.m_id ∧
    ThrowsOutOfOrder (Src.CheckOrder.CheckOrder.way s w) s := by
  rcases s with ⟨b, mn, mw, mr, hn, hw, hr⟩
  cases hn <;> cases hw <;> cases hr <;> by_cases e : mw = w.toBase_OSMObject.m_id <;>
    (try have e' : ¬ w.toBase_OSMObject.m_id = mw := fun h => e h.symm) <;>
    cases h : idOrder w.toBase_OSMObject.m_id mw <;>
    simp [Src.CheckOrder.CheckOrder.way, checkStep, checkResult, checkOfSrc, ThrowsOutOfOrder, Src.Object.OSMObject.id,
      src_tie_id_order, *]

/-- `CheckOrder::relation(const Relation&)` -/
theorem src_tie_checkorder_relation (s : Src.CheckOrder.CheckOrder) (r : Src.Relation.Relation) :
    checkResult (Src.CheckOrder.CheckOrder.relation s r) = checkStep (checkOfSrc s) .relation r.toBase_OSMObject.m_id ∧
    ThrowsOutOfOrder (Src.CheckOrder.CheckOrder.relation s r) s := by
  rcases s with ⟨b, mn, mw, mr, hn, hw, hr⟩
  cases hn <;> cases hw <;> cases hr <;> by_cases e : mr = r.toBase_OSMObject.m_id <;>
    (try have e' : ¬ r.toBase_OSMObject.m_id = mr := fun h => e h.symm) <;>
    cases h : idOrder r.toBase_OSMObject.m_id mr <;>
    simp [Src.CheckOrder.CheckOrder.relation, checkStep, checkResult, checkOfSrc, ThrowsOutOfOrder, Src.Object.OSMObject.id,
      src_tie_id_order, *]

/-- one step of the order checker, whatever the kind of the object: translated source = `checkStep` -/
theorem src_tie_checkorder_step (s : Src.CheckOrder.CheckOrder) (n : Src.Node.Node) (w : Src.Way.Way) (r : Src.Relation.Relation) :
    checkResult (Src.CheckOrder.CheckOrder.node s n) = checkStep (checkOfSrc s) .node n.toBase_OSMObject.m_id ∧
    checkResult (Src.CheckOrder.CheckOrder.way s w) = checkStep (checkOfSrc s) .way w.toBase_OSMObject.m_id ∧
    checkResult (Src.CheckOrder.CheckOrder.relation s r) = checkStep (checkOfSrc s) .relation r.toBase_OSMObject.m_id :=
  ⟨(src_tie_checkorder_node s n).1, (src_tie_checkorder_way s w).1, (src_tie_checkorder_relation s r).1⟩

/-- the three getters read the model's maxima -/
theorem src_tie_checkorder_getters (s : Src.CheckOrder.CheckOrder) :
    Src.CheckOrder.CheckOrder.max_node_id s = (checkOfSrc s).maxNode ∧
    Src.CheckOrder.CheckOrder.max_way_id s = (checkOfSrc s).maxWay ∧
    Src.CheckOrder.CheckOrder.max_relation_id s = (checkOfSrc s).maxRel := ⟨rfl, rfl, rfl⟩

/-- `operator>`, `operator<=`, `operator>=`, `operator!=` on OSMObject as the CURRENT source defines them:
    all four are the one order `operator<` (resp. `operator==`) read the other way round — in particular `<=` is
    NOT "less or `==`" (see `le_is_not_lt_or_eq`). -/
theorem src_tie_object_gt_le_ge_ne (l r : Src.Object.OSMObject)
    (hl : Src.Object.OSMObject.typed l = true) (hr : Src.Object.OSMObject.typed r = true) :
    Src.Object.op_gt_OSMObject_OSMObject l r = objGt (objOfSrc l) (objOfSrc r) ∧
    Src.Object.op_le_OSMObject_OSMObject l r = objLe (objOfSrc l) (objOfSrc r) ∧
    Src.Object.op_ge_OSMObject_OSMObject l r = objGe (objOfSrc l) (objOfSrc r) ∧
    Src.Object.op_ne_OSMObject_OSMObject l r = objNe (objOfSrc l) (objOfSrc r) := by
  have h1 := src_tie_object_lt l r hl hr
  have h2 := src_tie_object_lt r l hr hl
  have h3 := src_tie_object_eq l r hl hr
  refine ⟨?_, ?_, ?_, ?_⟩
  · show Src.Object.op_lt_OSMObject_OSMObject r l = objLt (objOfSrc r) (objOfSrc l); exact h2
  · show (!Src.Object.op_lt_OSMObject_OSMObject r l) = !objLt (objOfSrc r) (objOfSrc l); rw [h2]
  · show (!Src.Object.op_lt_OSMObject_OSMObject l r) = !objLt (objOfSrc l) (objOfSrc r); rw [h1]
  · show (!Src.Object.op_eq_OSMObject_OSMObject l r) = !objEq (objOfSrc l) (objOfSrc r); rw [h3]

end SrcTies

/-! ## the derived relational operators describe the same order -/

/-- mutual consistency of the four relational operators, for ALL objects: `a > b ↔ b < a`, `a <= b ↔ ¬ a > b`,
    `a >= b ↔ ¬ a < b`, and never `a < b` together with `b <= a` -/
theorem relational_operators_one_order (a b : Obj) :
    objGt a b = objLt b a ∧ objLe a b = !objGt a b ∧ objGe a b = !objLt a b ∧
    (objLt a b = true → objLe b a = false) ∧ objNe a b = !objEq a b := by
  refine ⟨rfl, rfl, rfl, ?_, rfl⟩
  intro h; simp [objLe, h]

/-- `<=` is total on objects whose timestamps are all set (or all unset: same proof through asymmetry) -/
theorem le_total_ts_set (a b : Obj) (ha : TsSet a) (hb : TsSet b) : objLe a b = true ∨ objLe b a = true := by
  by_cases h : objLt b a = true
  · right
    have := lt_strict_weak_ts_set.asymm b a hb ha h
    simp [objLe, this]
  · left; simp [objLe, h]

/-- the "textbook" definition `a <= b := a < b || a == b` is a DIFFERENT relation: `==` ignores the timestamps
    that `<` orders by (two versions 1 of node 1 with timestamps 5 and 9) -/
theorem le_is_not_lt_or_eq :
    ∃ a b : Obj, TsSet a ∧ TsSet b ∧ objLe a b ≠ (objLt a b || objEq a b) := by
  refine ⟨⟨1, 1, 1, 9, true⟩, ⟨1, 1, 1, 5, true⟩, by simp [TsSet], by simp [TsSet], by decide⟩

end Osmium.Order.C16
