/-
C04 — Buffers and builders keep objects intact across growth, commit, rollback, purge.

Property theorems about the model `Osmium.Buf` (lean/Osmium/Model/Buf.lean, Layout.lean); helper
lemmas live in Osmium/Lemmas/{Buf,BufSim,BufPurge,BufLaws}.lean.  `run s ops` executes a script; `St.init`
creates buf0 = Buffer(c0, m0) and the auxiliary buf1 = Buffer(c1, m1).  `fixF4 = true` is the
CURRENT code (ChangesetDiscussionBuilder keeps the pending comment as an offset — /repo d30efa2 — and
its destructor finishes a pending comment — /repo 5690f83); `fixF4 = false` is the original code
(m_comment is a raw pointer, finding F4).  tools/props/c04.py determines on every run which of the
two the source in /repo is and runs the correspondence check against that variant.
-/
import Osmium.Lemmas.BufBridgeSeq
import Osmium.Lemmas.BufFieldLaws
import Osmium.Lemmas.BufBuildFields
import Osmium.Generated.Src
import Osmium.Lemmas.CxxSem
import Osmium.Lemmas.SrcTie

namespace Osmium.Buf.C04

open Osmium.Layout Osmium.Buf

/-! ### buf_inv -/

/-- `0 ≤ committed ≤ written ≤ capacity` (and capacity ≥ min_capacity) in EVERY reachable state:
    all scripts, all initial capacities, all grow modes, both buffers. -/
theorem buf_inv_bounds (ops : List Op) (c0 c1 : Nat) (m0 m1 : Mode) (fill : UInt8) (fix : Bool) :
    let s := run (St.init c0 m0 c1 m1 fill fix) ops
    (s.b0.committed ≤ s.b0.written ∧ s.b0.written ≤ s.b0.cap ∧ 64 ≤ s.b0.cap) ∧
    (s.b1.committed ≤ s.b1.written ∧ s.b1.written ≤ s.b1.cap ∧ 64 ≤ s.b1.cap) :=
  run_bounds ops _ ⟨bounds_mk _ _ _, bounds_mk _ _ _⟩

/-- The invariant is inductive: one operation from any state satisfying it. -/
theorem buf_inv_step (s : St) (op : Op) (h : s.Bounds) : (step s op).1.Bounds := step_bounds s op h

/-- Alignment clause of buf_inv, FULL: in EVERY reachable state — all scripts (builder calls, nested
    sub-builders, buffer operations, in any order, including calls that end in buffer_is_full and
    unwind the open builders), all initial capacities, all grow modes, both variants, both buffers —
    `committed` and the capacities are multiples of 8, the auxiliary buffer's `written` is, and
    `written` of buf0 is whenever no builder is open.  (No hypothesis about undefined-behaviour
    outcomes is needed: a run that died keeps the invariant of the state it died in.) -/
theorem buf_inv_aligned (ops : List Op) (c0 c1 : Nat) (m0 m1 : Mode) (fill : UInt8) (fix : Bool) :
    let s := run (St.init c0 m0 c1 m1 fill fix) ops
    s.b0.committed % 8 = 0 ∧ s.b0.cap % 8 = 0 ∧ (s.stack = [] → s.b0.written % 8 = 0) ∧
    s.b1.committed % 8 = 0 ∧ s.b1.written % 8 = 0 ∧ s.b1.cap % 8 = 0 := by
  intro s
  have hA : AInv s := (run_ainv ops _ (ainv_init c0 c1 m0 m1 fill fix) (by simp [St.init])).1
  refine ⟨hA.c0, hA.cap0, fun hst => ?_, hA.a1.1, hA.a1.2, hA.cap1⟩
  exact ((ainv_nil_iff s hst).1 hA).2.1.2

/-- The byte-level invariant behind it, in every reachable state: every open LIST builder's size
    field is congruent (mod 8) to the number of bytes written since its item started — `add_padding`
    pads by the size FIELD —, item offsets are multiples of 8, and an open object builder with all
    its sub-builders closed ends on an 8-byte boundary. -/
theorem open_builders_sizes_congruent (ops : List Op) (c0 c1 : Nat) (m0 m1 : Mode) (fill : UInt8) (fix : Bool) :
    let s := run (St.init c0 m0 c1 m1 fill fix) ops
    (∀ f ∈ s.stack, f.off % 8 = 0 ∧ f.off + 8 ≤ s.b0.pend.length ∧
      (f.kind.isObj = false → u32At s.b0.pend f.off % 8 = (s.b0.pend.length - f.off) % 8)) ∧
    (∀ f r, s.stack = f :: r → f.kind.isObj = true → s.b0.pend.length % 8 = 0) := by
  intro s
  have hA : AInv s := (run_ainv ops _ (ainv_init c0 c1 m0 m1 fill fix) (by simp [St.init])).1
  refine ⟨?_, fun f r hst hk => ?_⟩
  · have key : ∀ (st : List Frame) (ub : Nat), FramesOK s.b0.pend ub st → ub ≤ s.b0.pend.length →
        ∀ f ∈ st, f.off % 8 = 0 ∧ f.off + 8 ≤ s.b0.pend.length ∧
          (f.kind.isObj = false → u32At s.b0.pend f.off % 8 = (s.b0.pend.length - f.off) % 8) := by
      intro st
      induction st with
      | nil => intro _ _ _ f hf; cases hf
      | cons g rest ih =>
        intro ub h hub f hf
        rcases List.mem_cons.1 hf with rfl | hf'
        · exact ⟨h.1, by have := h.2.1; omega, h.2.2.2.1⟩
        · exact ih g.off h.2.2.2.2.2 (by have := h.2.1; omega) f hf'
    exact key s.stack _ hA.pinv.1 (Nat.le_refl _)
  · have := hA.pinv.2
    rw [hst] at this
    exact this hk

/-- The invariant is inductive: one operation from ANY state satisfying it (not only reachable ones). -/
theorem buf_inv_aligned_step (s : St) (op : Op) (h : AInv s) : AInv (step s op).1 := (step_ainv s op h).1

/-- Consequence: a builder destructor never throws.  The padding a destructor appends always fits
    (capacity and item start are multiples of 8, size ≡ extent), and the repair of a pending
    discussion comment swallows its own buffer_is_full — so `std::terminate` (status `terminate`, a
    run that died with `full`) is unreachable: all scripts, capacities, modes (also `auto_grow::no`
    with buffer_is_full thrown at any call and all open builders unwinding). -/
theorem destructors_never_throw (ops : List Op) (c0 c1 : Nat) (m0 m1 : Mode) (fill : UInt8) (fix : Bool) :
    (run (St.init c0 m0 c1 m1 fill fix) ops).dead ≠ some .full ∧
    ∀ op, (step (run (St.init c0 m0 c1 m1 fill fix) ops) op).2.1 ≠ .terminate := by
  have h := run_ainv ops _ (ainv_init c0 c1 m0 m1 fill fix) (by simp [St.init])
  exact ⟨h.2, fun op => ((step_ainv _ op h.1).2 h.2).1⟩

/-- The outcome `misaligned` (`assert(buffer.is_aligned())` in the Builder constructor and in
    reserve_space_for — an assertion of the real code too) arises in exactly one situation: a
    sub-builder is constructed, or a node ref / relation member / comment struct is reserved, inside
    an open LIST builder whose content so far is not a multiple of 8 bytes long (e.g. a second
    TagListBuilder inside a TagListBuilder after a 4-byte tag).  Never at top level, never directly
    inside an object builder. -/
theorem misaligned_only_inside_unaligned_list (ops : List Op) (op : Op) (c0 c1 : Nat) (m0 m1 : Mode) (fill : UInt8) (fix : Bool)
    (hd : (run (St.init c0 m0 c1 m1 fill fix) ops).dead ≠ some .misaligned)
    (h : (step (run (St.init c0 m0 c1 m1 fill fix) ops) op).1.dead = some .misaligned) :
    let s := run (St.init c0 m0 c1 m1 fill fix) ops
    s.b0.pend.length % 8 ≠ 0 ∧ ∃ f r, s.stack = f :: r ∧ f.kind.isObj = false := by
  intro s
  have hA : AInv s := (run_ainv ops _ (ainv_init c0 c1 m0 m1 fill fix) (by simp [St.init])).1
  rcases step_misaligned s op h with h1 | h1
  · exact absurd h1 hd
  · refine ⟨h1, ?_⟩
    have ht := hA.pinv.2
    cases hst : s.stack with
    | nil => rw [hst] at ht; exact absurd ht h1
    | cons f r =>
      rw [hst] at ht
      refine ⟨f, r, rfl, ?_⟩
      cases hk : f.kind.isObj with
      | false => rfl
      | true => exact absurd (ht hk) h1

/-- non-vacuity: such a script exists (the outcome is reachable), and the same calls with an 8-byte
    tag are fine -/
example : (run (St.init 64 .yes 64 .yes 190 true) [.open .taglist, .tag [97] [98], .open .taglist]).dead = some .misaligned ∧
    (run (St.init 64 .yes 64 .yes 190 true) [.open .taglist, .tag [97, 98, 99] [100, 101, 102], .open .taglist]).dead = none := by
  decide +kernel

/-- non-vacuity of the quantifier "also when a call ends in buffer_is_full": mode `no`, capacity 96,
    a comment whose user name does not fit — add_comment throws with the comment pending, the two
    builders unwind (the discussion destructor repairs the comment), the state stays aligned and alive -/
example :
    let s := run (St.init 96 .no 64 .yes 190 true) [.open .changeset, .open .disc, .comment 7 8 (List.replicate 200 117)]
    s.dead = none ∧ s.stack = [] ∧ s.b0.written = 96 ∧ s.b0.committed = 0 := by decide +kernel

theorem buf_inv_aligned_init (c0 c1 : Nat) (m0 m1 : Mode) (fill : UInt8) (fix : Bool) :
    (St.init c0 m0 c1 m1 fill fix).b0.Aligned ∧ (St.init c0 m0 c1 m1 fill fix).b1.Aligned :=
  ⟨aligned_mk _ _ _, aligned_mk _ _ _⟩

/-! ### built_content — what the builder calls leave in the buffer

`HostileLayout.ObjS` describes one object by its builder calls: kind, user name, and per sub-builder
block its tags / node refs / members with roles / discussion comments (with or without text);
`HostileLayout.script o` is that call sequence (constructor, set_user, per block: sub-builder
constructor, add_xxx calls, destructor; destructor; commit), `HostileLayout.build fill o` the byte
string an obviously-correct layout function assigns to it (header with the total size, fixed part,
user name, zero padding, per block: header with the unpadded size, body, zero padding), and
`HostileLayout.subTree` / `builders_traverse_complete` (C03) the tree it decodes to. -/

open Osmium.HostileLayout in
/-- `SubOK` (the only restriction on the calls): node-list blocks use one of the three node-list
    builders, and inside a discussion block every `add_comment` but the last is followed by
    `add_comment_text` (the destructor finishes the last one; a text-less comment in the middle makes
    the next `add_comment` start at an unaligned address — the library's own `assert(is_aligned())`). -/
theorem built_bytes (o : ObjS) (hf : o.fixed = ctorFixed o.kind) (hs : ∀ s ∈ o.subs, SubOK s)
    (c c1 : Nat) (m m1 : Mode) (hm : m ≠ .no) (fill : UInt8) :
    let s := run (St.init c m c1 m1 fill true) (script o)
    s.dead = none ∧ s.stack = [] ∧ s.b0.pend = [] ∧ s.b0.done = build fill o := by
  intro s
  have h := run_script (St.init c m c1 m1 fill true) ⟨hm, rfl, ⟨bounds_mk _ _ _, bounds_mk _ _ _⟩⟩ rfl rfl rfl rfl o hf hs
  obtain ⟨_, h2, _, h4, h5, _, _, h8⟩ := h
  refine ⟨h2, h4, h5, ?_⟩
  rw [h8]
  simp [St.init, Buf.mk', Buf.done, Buf.comm]

open Osmium.HostileLayout in
/-- … for any number of objects built one after the other, every initial capacity, both auto-grow
    modes (so: wherever the memory has to grow or move): the committed bytes are exactly the objects'
    layouts one after the other. -/
theorem built_bytes_sequence (os : List ObjS) (hf : ∀ o ∈ os, o.fixed = ctorFixed o.kind)
    (hs : ∀ o ∈ os, ∀ s ∈ o.subs, SubOK s) (c c1 : Nat) (m m1 : Mode) (hm : m ≠ .no) (fill : UInt8) :
    let s := run (St.init c m c1 m1 fill true) (os.map script).flatten
    s.dead = none ∧ s.b0.pend = [] ∧ s.b0.done = (os.map (build fill)).flatten := by
  intro s
  have h := run_scripts os hf hs (St.init c m c1 m1 fill true) ⟨hm, rfl, ⟨bounds_mk _ _ _, bounds_mk _ _ _⟩⟩ rfl rfl rfl rfl
  refine ⟨h.1, h.2.1, ?_⟩
  rw [h.2.2]
  simp [St.init, Buf.mk', Buf.done, Buf.comm]

open Osmium.HostileLayout in
theorem subOK_of_guards {fill : UInt8} {o : ObjS} (g : Guards fill o) : ∀ s ∈ o.subs, SubOK s := by
  intro s hs
  have he := g.extra s hs
  cases s with
  | tags kvs => trivial
  | members ms => trivial
  | nodes t ns =>
    simp only [SubS.extraOk, Bool.or_eq_true, beq_iff_eq] at he
    rcases he with (h | h) | h
    · exact Or.inl h
    · exact Or.inr (Or.inl h)
    · exact Or.inr (Or.inr h)
  | discussion cs =>
    simp only [SubS.extraOk] at he
    show lastPendingOnly cs = true
    have key : ∀ (cs : List CommentS),
        ((finishLast cs).all fun c => noNul c.user && (match c.text with | some t => noNul t | none => false)) = true →
        lastPendingOnly cs = true := by
      intro cs
      induction cs with
      | nil => intro _; rfl
      | cons c r ih =>
        cases r with
        | nil => intro _; rfl
        | cons d r' =>
          intro h
          simp only [finishLast, List.all_cons, Bool.and_eq_true] at h
          simp only [lastPendingOnly, Bool.and_eq_true]
          refine ⟨?_, ih (by simpa [List.all_cons] using h.2)⟩
          cases ht : c.text with
          | none => rw [ht] at h; simp at h
          | some t => rfl
    exact key cs he

open Osmium.HostileLayout in
/-- built_content: for every object description that satisfies `Guards` (the builders' own length
    checks, NUL-free strings, item < 4 GiB — see Props/C03Layout.lean for why each is needed), every
    initial capacity and both auto-grow modes, the builder calls run without dying and the committed
    item sequence (`view` = what every traversal of the library reads) is exactly ONE item with the
    kind, the user name and, block by block, the tags / node refs / members with roles / comments with
    user and text that were passed in; the committed region is well-formed (`Layout.WF`: every read in
    bounds, length a multiple of 8). -/
theorem built_content (o : ObjS) (fill : UInt8) (g : Guards fill o) (hf : o.fixed = ctorFixed o.kind)
    (c c1 : Nat) (m m1 : Mode) (hm : m ≠ .no) :
    let s := run (St.init c m c1 m1 fill true) (script o)
    s.dead = none ∧ Layout.WF s.b0.done = true ∧
    ∃ fields, view s.b0 = .ok [.mk o.kind.ty false fields [o.user] (o.subs.map subTree)] := by
  intro s
  obtain ⟨h1, _, _, h4⟩ := built_bytes o hf (subOK_of_guards g) c c1 m m1 hm fill
  refine ⟨h1, ?_, ?_⟩
  · show Layout.WF s.b0.done = true
    rw [h4]
    obtain ⟨fields, hd⟩ := decodeAll_build fill o g
    unfold Layout.WF
    rw [hd]
    simpa using build_length_mod fill o g
  · unfold view
    show ∃ fields, decodeAll s.b0.done = _
    rw [h4]
    exact decodeAll_build fill o g

open Osmium.HostileLayout in
/-- built_content for item SEQUENCES: any number of objects built and committed one after the other
    (each under `Guards`), any initial capacity, both auto-grow modes: the run does not die, the
    committed region is well-formed, and the view is, item by item (`TreesOf`: same length, i-th tree
    = kind / user / blocks of the i-th description), what was passed in. -/
theorem built_content_sequence (os : List ObjS) (fill : UInt8) (hg : ∀ o ∈ os, Guards fill o)
    (hf : ∀ o ∈ os, o.fixed = ctorFixed o.kind) (c c1 : Nat) (m m1 : Mode) (hm : m ≠ .no) :
    let s := run (St.init c m c1 m1 fill true) (os.map script).flatten
    s.dead = none ∧ Layout.WF s.b0.done = true ∧ ∃ trees, view s.b0 = .ok trees ∧ TreesOf os trees := by
  intro s
  obtain ⟨h1, _, h3⟩ := built_bytes_sequence os hf (fun o ho => subOK_of_guards (hg o ho)) c c1 m m1 hm fill
  obtain ⟨trees, hd, ht⟩ := decodeAll_builds fill os hg
  refine ⟨h1, ?_, trees, ?_, ht⟩
  · show Layout.WF s.b0.done = true
    rw [h3]
    unfold Layout.WF
    rw [hd]
    simpa using builds_length_mod fill os hg
  · unfold view
    show decodeAll s.b0.done = _
    rw [h3]; exact hd

open Osmium.HostileLayout in
/-- non-vacuity: a changeset with a user name, a discussion (one complete comment, one pending at
    destruction) and a tag list satisfies all hypotheses; at capacity 64 the buffer grows three
    times while it is built -/
example :
    let o : ObjS := { kind := .changeset, fixed := ctorFixed .changeset, user := [98, 111, 98],
                      subs := [.discussion [⟨7, 8, [97], some [104, 105]⟩, ⟨9, 10, [], none⟩], .tags [([107], [118])]] }
    Guards 190 o ∧ o.fixed = ctorFixed o.kind ∧
    (run (St.init 64 .internal 64 .yes 190 true) (script o)).b0.done = build 190 o ∧
    (build 190 o).length = 136 := by decide +kernel

/-! ### the fixed fields: `set_xxx` -/

/-- A field setter of an object builder (`set_id`, `set_uid`, `set_timestamp`, `set_changeset`,
    `set_location`, the changeset's fields: a `w`-byte field at offset `fo` of the item) writes the
    two's-complement encoding of `v` into exactly these `w` bytes; all other uncommitted bytes, the
    committed data, the builder stack and the other buffer are untouched; it cannot fail — in any
    state, any grow mode, any capacity. -/
theorem set_field_writes_exactly_the_field (s : St) (f : Frame) (rest : List Frame) (fo w : Nat) (v : Int)
    (hd : s.dead = none) (hv : s.b0.valid = true) (hb : s.Bounds) (hst : s.stack = f :: rest) (hk : f.kind.isObj = true)
    (hin : f.off + fo + w ≤ s.b0.pend.length) :
    let s' := (step s (.setField fo w v)).1
    (step s (.setField fo w v)).2.1 = .ok ∧ s'.b0.done = s.b0.done ∧ s'.stack = s.stack ∧ s'.b1 = s.b1 ∧
    s'.b0.pend.length = s.b0.pend.length ∧
    leAt s'.b0.pend (f.off + fo) w = (v % (256 ^ w : Nat)).toNat % 256 ^ w ∧
    (∀ j, (j < f.off + fo ∨ f.off + fo + w ≤ j) → s'.b0.pend[j]? = s.b0.pend[j]?) := by
  intro s'
  obtain ⟨h1, h2, h3, h4, _, h6⟩ := setField_law s f rest fo w v hd hv hb.1.1 hst hk
  refine ⟨h1, h3, h4, h6, ?_, ?_, ?_⟩
  · show (step s (.setField fo w v)).1.b0.pend.length = _
    rw [h2]; simp
  · show leAt (step s (.setField fo w v)).1.b0.pend _ _ = _
    rw [h2]; exact field_read_back _ _ _ _ hin
  · intro j hj
    show (step s (.setField fo w v)).1.b0.pend[j]? = _
    rw [h2]
    exact writeAt_getElem?_out _ _ _ _ (by rw [leBytesInt_len]; exact hj)

/-- `set_version` and `set_deleted` share one 32-bit word (version : 31, deleted : 1); each sets its part
    and keeps the other -/
theorem set_version_deleted_share_a_word (p : Pend) (o ver : Nat) (d : Bool) (h : o + 4 ≤ p.length)
    (hver : ver < 2 ^ 31) (hlt : u32At p o < 4294967296) :
    (u32At (setLE p o (u32At p o % 2 + 2 * ver) 4) o / 2 = ver ∧
     u32At (setLE p o (u32At p o % 2 + 2 * ver) 4) o % 2 = u32At p o % 2) ∧
    (u32At (setLE p o (u32At p o / 2 * 2 + (if d then 1 else 0)) 4) o / 2 = u32At p o / 2 ∧
     u32At (setLE p o (u32At p o / 2 * 2 + (if d then 1 else 0)) 4) o % 2 = (if d then 1 else 0)) :=
  ⟨version_word p o ver h hver, deleted_word p o d h hlt⟩

/-- non-vacuity: `set_id(-7)` on a freshly constructed node reads back as 2^64 - 7 in the 8 bytes at
    offset 8 (what `OSMObject::id()` reinterprets as int64 -7) -/
example :
    let s := run (St.init 64 .no 64 .yes 190 true) [.open .node, .setField 8 8 (-7)]
    s.dead = none ∧ leAt s.b0.pend 8 8 = 2 ^ 64 - 7 ∧ toSigned (leAt s.b0.pend 8 8) 64 = -7 := by decide +kernel

open Osmium.HostileLayout in
/-- built_content with field setters: any sequence `fops` of field setters inside the fixed part
    (`fieldsRun` = their effect on the fixed bytes, starting from what the constructor leaves) between
    the constructor and `set_user` changes the fixed part of the object and NOTHING else: the committed
    bytes are `build` of the description with that fixed part, hence (under `Guards`) well-formed and
    decoded to the same kind / user name / blocks.  Any capacity, both auto-grow modes. -/
theorem built_content_with_fields (o : ObjS) (fops : List Op) (pre : Bytes) (fill : UInt8)
    (hfo : fieldsRun (preOf o.kind.bufKind) fops = some pre) (hf : o.fixed = fixedOf o.kind pre)
    (g : Guards fill o) (c c1 : Nat) (m m1 : Mode) (hm : m ≠ .no) :
    let s := run (St.init c m c1 m1 fill true) (scriptWith fops o)
    s.dead = none ∧ s.b0.pend = [] ∧ s.b0.done = build fill o ∧ Layout.WF s.b0.done = true ∧
    ∃ fields, view s.b0 = .ok [.mk o.kind.ty false fields [o.user] (o.subs.map subTree)] := by
  intro s
  have h := run_script_with (St.init c m c1 m1 fill true) ⟨hm, rfl, ⟨bounds_mk _ _ _, bounds_mk _ _ _⟩⟩ rfl rfl rfl rfl
    o fops pre hfo hf (subOK_of_guards g)
  obtain ⟨h1, _, h3, h4⟩ := h
  have h4' : s.b0.done = build fill o := by
    show (run (St.init c m c1 m1 fill true) (scriptWith fops o)).b0.done = _
    rw [h4]; simp [St.init, Buf.mk', Buf.done, Buf.comm]
  obtain ⟨fields, hd⟩ := decodeAll_build fill o g
  refine ⟨h1, h3, h4', ?_, fields, ?_⟩
  · rw [h4']
    unfold Layout.WF
    rw [hd]
    simpa using build_length_mod fill o g
  · unfold view
    show decodeAll s.b0.done = _
    rw [h4']; exact hd

open Osmium.HostileLayout in
/-- non-vacuity: a node with `set_id(-7)`, `set_uid(1000)` (offset 24), a user name and a tag -/
example :
    let fops := [Op.setField 8 8 (-7), Op.setField 24 4 1000]
    let pre := (fieldsRun (preOf .node) fops).getD []
    let o : ObjS := { kind := .node, fixed := fixedOf .node pre, user := [97, 98], subs := [.tags [([107], [118])]] }
    fieldsRun (preOf o.kind.bufKind) fops = some pre ∧ Guards 190 o ∧
    (run (St.init 64 .yes 64 .yes 190 true) (scriptWith fops o)).b0.done = build 190 o := by decide +kernel

/-! ### capacity_independent — the central theorem -/

/-- Same script (builder calls, commit, rollback, add_buffer, push_back, move), ANY two initial
    capacities, ANY two of the grow modes yes/internal: unless a run hits an undefined-behaviour
    outcome (stale pointer — the original code only, finding F4 —, null m_comment, misaligned builder start), both runs
    end with byte-identical committed data (nested buffers oldest first) and byte-identical
    uncommitted data.  Where and how often the memory was reallocated or chained is unobservable. -/
theorem capacity_independent_bytes (ops : List Op) (hg : ∀ op ∈ ops, GrowOp op = true)
    (c c' caux : Nat) (m m' maux : Mode) (hm : m ≠ .no) (hm' : m' ≠ .no) (fill : UInt8) (fix : Bool)
    (d : (run (St.init c m caux maux fill fix) ops).dead = none)
    (d' : (run (St.init c' m' caux maux fill fix) ops).dead = none) :
    (run (St.init c m caux maux fill fix) ops).b0.done = (run (St.init c' m' caux maux fill fix) ops).b0.done ∧
    (run (St.init c m caux maux fill fix) ops).b0.pend = (run (St.init c' m' caux maux fill fix) ops).b0.pend := by
  have h0 : Sim (St.init c m caux maux fill fix) (St.init c' m' caux maux fill fix) :=
    ⟨rfl, rfl, rfl, rfl, rfl, rfl, rfl, rfl, rfl, hm, hm', ⟨bounds_mk _ _ _, bounds_mk _ _ _⟩, ⟨bounds_mk _ _ _, bounds_mk _ _ _⟩⟩
  have h := run_sim ops _ _ hg h0 d d'
  exact ⟨h.done, h.pend⟩

/-- ... hence the same `View` (list of committed items as trees). -/
theorem capacity_independent (ops : List Op) (hg : ∀ op ∈ ops, GrowOp op = true)
    (c c' caux : Nat) (m m' maux : Mode) (hm : m ≠ .no) (hm' : m' ≠ .no) (fill : UInt8) (fix : Bool)
    (d : (run (St.init c m caux maux fill fix) ops).dead = none)
    (d' : (run (St.init c' m' caux maux fill fix) ops).dead = none) :
    view (run (St.init c m caux maux fill fix) ops).b0 = view (run (St.init c' m' caux maux fill fix) ops).b0 := by
  unfold view
  rw [(capacity_independent_bytes ops hg c c' caux m m' maux hm hm' fill fix d d').1]

/-- Every single operation gives the same status (ok / bad-op) in both runs. -/
theorem capacity_independent_step (s1 s2 : St) (op : Op) (hg : GrowOp op = true) (hs : Sim s1 s2)
    (d1 : (step s1 op).1.dead = none) (d2 : (step s2 op).1.dead = none) :
    (step s1 op).2.1 = (step s2 op).2.1 ∧ Sim (step s1 op).1 (step s2 op).1 :=
  ⟨(step_sim s1 s2 op hg hs d1 d2).2, (step_sim s1 s2 op hg hs d1 d2).1⟩

/-- non-vacuity: a script that builds a node with a tag list and commits it satisfies the
    hypotheses at capacities 64 (grows twice) and 4096 (never grows) -/
example :
    let ops := [Op.open .node, .user [97, 98, 99, 100, 101, 102, 103], .open .taglist, .tag [107] [118], .close, .close, .commit]
    (∀ op ∈ ops, GrowOp op = true) ∧ (run (St.init 64 .internal 64 .yes 190 false) ops).dead = none ∧
    (run (St.init 4096 .yes 64 .yes 190 false) ops).dead = none ∧
    (run (St.init 64 .internal 64 .yes 190 false) ops).b0.done.length = 72 := by decide

/-! ### no_stale_pointer — fails for the ORIGINAL builder code (finding F4, repaired in /repo d30efa2), holds for the current one -/

/-- The full statement: no script ever dereferences a pointer into memory that has been
    reallocated since the pointer was taken.  (`fix = false`: the original code, `true`: the current code.) -/
def NoStalePointer (fix : Bool) : Prop :=
  ∀ (ops : List Op) (c0 c1 : Nat) (m0 m1 : Mode) (fill : UInt8),
    (run (St.init c0 m0 c1 m1 fill fix) ops).dead ≠ some .stale

/-- F4 witness: capacity 64, a changeset discussion comment whose user name has 200 bytes:
    `add_comment` keeps `m_comment`, `add_user` appends the name (the buffer grows 64 → 512),
    `add_comment_text` writes the text size through the dangling pointer. -/
def f4Witness : List Op :=
  [.open .changeset, .open .disc, .comment 1 2 (List.replicate 200 117), .commentText [116, 101, 120, 116]]

theorem no_stale_pointer_fails_today : ¬ NoStalePointer false :=
  fun h => h f4Witness 64 64 .yes .yes 190 (by decide +kernel)

/-- the same script is fine when the buffer is large enough — which is why no unit test sees it -/
theorem f4_witness_fine_at_large_capacity :
    (run (St.init 4096 .yes 64 .yes 190 false) f4Witness).dead = none := by decide +kernel

/-- and it is fine at capacity 64 once `m_comment` is an offset instead of a pointer -/
theorem f4_witness_fine_when_fixed :
    (run (St.init 64 .yes 64 .yes 190 true) f4Witness).dead = none := by decide +kernel

/-- The full statement HOLDS for the current code (m_comment kept as an offset): all scripts,
    capacities, modes. -/
theorem no_stale_pointer_fixed : NoStalePointer true := by
  intro ops c0 c1 m0 m1 fill
  exact (run_fixOk ops _ ⟨rfl, by simp [St.init]⟩).2

/-- consequently the hypothesis "no undefined-behaviour outcome" of `capacity_independent` could not be
    dropped for the original code: the outcome of `f4Witness` depended on the capacity. -/
theorem capacity_dependent_today :
    (run (St.init 64 .yes 64 .yes 190 false) f4Witness).dead ≠ (run (St.init 4096 .yes 64 .yes 190 false) f4Witness).dead := by
  decide +kernel

/-! ### purge_spec -/

/-- `purge_removed(callback)` on a committed region that is a sequence of OSM entities (what the
    object builders produce; DESIGN.md O1 for the precondition): the result is exactly the byte
    ranges of the non-removed items in their order, and the callbacks are exactly (old, new) for the
    kept items that moved, in order. -/
theorem purge_spec (c : Bytes) (hs : List Hdr) (hh : headersAll c = .ok hs)
    (hent : ∀ h ∈ hs, isEntity h.ty = true) :
    purgeBytes c = (specBytes c hs, specCallbacks hs) := purgeBytes_spec c hs hh hent

/-- kept = the non-removed items, in order -/
theorem purge_keeps_non_removed (w : Nat) (hs : List Hdr) :
    (keptFrom w hs).map (·.1) = hs.filter (fun h => !h.removed) := keptFrom_items w hs

/-- new offsets = prefix sums of the padded sizes of the kept items -/
theorem purge_new_offsets (w : Nat) (hs : List Hdr) :
    (keptFrom w hs).map (·.2) = runningSums w ((hs.filter (fun h => !h.removed)).map (·.psize)) :=
  keptFrom_offsets w hs

theorem purge_length (c : Bytes) (hs : List Hdr) (hh : headersAll c = .ok hs) :
    (specBytes c hs).length = ((hs.filter (fun h => !h.removed)).map (·.psize)).sum := specBytes_length c hs hh

/-! ### commit / rollback / clear / swap -/

/-- rollback drops exactly the uncommitted data: committed bytes unchanged, nothing pending -/
theorem rollback_drops_only_uncommitted (s : St) (hd : s.dead = none) (hv : s.b0.valid = true) (he : s.stack = []) :
    (step s .rollback).1.b0.done = s.b0.done ∧ (step s .rollback).1.b0.pend = [] ∧
    (step s .rollback).1.b0.committed = s.b0.committed ∧ (step s .rollback).2.1 = .ok := by
  have h := rollback_abs s.b0
  simp only [Buf.done, Buf.comm, Buf.pend] at h
  simp only [step, hd, hv, he, frameSig, plan, execBufOp]
  simpa [Buf.done, Buf.comm, Buf.pend] using h

/-- commit makes exactly the pending bytes visible, after the ones already committed -/
theorem commit_appends_pending (s : St) (hd : s.dead = none) (hv : s.b0.valid = true) (he : s.stack = [])
    (hb : s.b0.committed ≤ s.b0.written) :
    (step s .commit).1.b0.done = s.b0.done ++ s.b0.pend ∧ (step s .commit).1.b0.pend = [] := by
  have h := commit_done s.b0 hb
  simp only [Buf.done, Buf.comm, Buf.pend, Buf.written] at h
  simp only [step, hd, hv, he, frameSig, plan, execBufOp]
  simpa [Buf.done, Buf.comm, Buf.pend, Buf.written] using h

/-- clear empties the buffer (the current one; nested buffers are handed out separately) -/
theorem clear_empties (s : St) (hd : s.dead = none) (hv : s.b0.valid = true) (he : s.stack = []) :
    (step s .clear).1.b0.comm = [] ∧ (step s .clear).1.b0.pend = [] ∧ (step s .clear).1.b0.written = 0 := by
  simp [step, hd, hv, he, frameSig, plan, execBufOp, Buf.comm, Buf.pend, Buf.written]

/-- add_buffer appends exactly the committed bytes of the other buffer (uncommitted until the next
    commit); the data committed so far is untouched -/
theorem add_buffer_appends (s : St) (hd : s.dead = none) (hv : s.b0.valid = true) (hv1 : s.b1.valid = true)
    (he : s.stack = []) (hm : s.b0.mode ≠ .no) (hb : s.Bounds) :
    (step s .addBuffer).1.b0.pend = s.b0.pend ++ s.b1.comm ∧ (step s .addBuffer).1.b0.done = s.b0.done ∧
    (step s .addBuffer).2.1 = .ok := addBuffer_abs s hd hv hv1 he hm hb

/-- swap exchanges the two buffers completely -/
theorem swap_swaps (s : St) (hd : s.dead = none) (hv : s.b0.valid = true) (he : s.stack = []) :
    (step s .swap).1.b0 = s.b1 ∧ (step s .swap).1.b1 = s.b0 := by
  simp [step, hd, hv, he, frameSig, plan, execBufOp]

/-! ### source ties (tools/cxx2lean.py): the functions REGENERATED from /repo's C++ source on every run
    (Osmium/Generated/Src.lean) equal the hand-written model functions the theorems above are about. -/

section SrcTies
open Osmium.Generated Osmium.CxxSem

/-- `osmium::memory::padded_length` (memory/item.hpp) = `Layout.padded`, on every length for which the
    unsigned 64-bit sum `length + align_bytes - 1` does not wrap (beyond that the C++ function wraps to a
    small value and the model does not: the model's domain is sizes that fit a buffer) -/
theorem src_tie_padded_length (n : Nat) (h : n + 7 < 2 ^ 64) :
    Src.Item.padded_length (n : Int) = (Layout.padded n : Int) := by
  unfold Src.Item.padded_length
  rw [band_congr_nat (n + 7) 18446744073709551608, and_not7 _ h]
  · rfl
  · simp only [wrapU, Src.Item.align_bytes]; omega
  · simp only [wrapU, bnot, Src.Item.align_bytes]; omega

example : ∃ n : Nat, n + 7 < 2 ^ 64 := ⟨1000, by decide⟩

/-- `Buffer::calculate_capacity` (memory/buffer.hpp) = `Buf.calcCap` -/
theorem src_tie_calculate_capacity (c : Nat) (h : c + 7 < 2 ^ 64) :
    Src.Buffer.Buffer.calculate_capacity (c : Int) = (calcCap c : Int) := by
  unfold Src.Buffer.Buffer.calculate_capacity calcCap minCapacity
  rw [src_tie_padded_length c h]
  simp only [Src.Buffer.Buffer.calculate_capacity.min_capacity, lt]
  by_cases hc : c < 64
  · have : ((c : Int) < 64) := by omega
    simp [hc, this]
  · have : ¬ ((c : Int) < 64) := by omega
    simp [hc, this]

/-- neither function has undefined behaviour (all arithmetic is unsigned) -/
theorem src_defined_padded_length (n : Int) :
    Src.Item.padded_length_defined n = true ∧ Src.Buffer.Buffer.calculate_capacity_defined n = true := by
  constructor <;> rfl

/-! #### the counter methods of `Buffer`, translated as state transformers over the members
     (`Src.Buffer.Buffer`: m_capacity, m_written, m_committed, m_auto_grow), against `execBufOp` / `reserve` -/
open Osmium.SrcTie

/-- `Buffer::commit()`: returns the old `committed`, new state represents the model's commit -/
theorem src_tie_buffer_commit (s : Src.Buffer.Buffer) (b : Buf) (h : BufRep s b) :
    ∃ s', Src.Buffer.Buffer.commit s = .normal s' (b.committed : Int) ∧ BufRep s' { b with committed := b.written } := by
  obtain ⟨h1, h2, h3, h4⟩ := h
  rw [← h3]
  exact ⟨_, rfl, h1, h2, h2, h4⟩

/-- `Buffer::rollback()` (model: `bytes := comm`), on every buffer with `committed ≤ written` -/
theorem src_tie_buffer_rollback (s : Src.Buffer.Buffer) (b : Buf) (h : BufRep s b) (hc : b.committed ≤ b.written) :
    ∃ s', Src.Buffer.Buffer.rollback s = .normal s' () ∧ BufRep s' { b with bytes := b.comm } := by
  obtain ⟨h1, h2, h3, h4⟩ := h
  refine ⟨_, rfl, h1, ?_, h3, h4⟩
  have : (b.bytes.take b.committed).length = b.committed := by
    rw [List.length_take]; unfold Buf.written at hc; omega
  simp only [Buf.written, Buf.comm, this]; exact h3

/-- `Buffer::clear()`: returns the old `committed` -/
theorem src_tie_buffer_clear (s : Src.Buffer.Buffer) (b : Buf) (h : BufRep s b) :
    ∃ s', Src.Buffer.Buffer.clear s = .normal s' (b.committed : Int) ∧ BufRep s' { b with bytes := [], committed := 0 } := by
  obtain ⟨h1, h2, h3, h4⟩ := h
  rw [← h3]
  refine ⟨_, rfl, h1, ?_, ?_, h4⟩ <;> simp [Buf.written]

/-- `capacity()`, `written()`, `committed()` -/
theorem src_tie_buffer_getters (s : Src.Buffer.Buffer) (b : Buf) (h : BufRep s b) :
    Src.Buffer.Buffer.capacity s = (b.cap : Int) ∧ Src.Buffer.Buffer.written s = (b.written : Int) ∧
    Src.Buffer.Buffer.committed s = (b.committed : Int) := ⟨h.1, h.2.1, h.2.2.1⟩

/-- `is_aligned()`; with an aligned `committed` (true in every reachable state) it is the model's test on the
    length of the uncommitted part (`plan`: `pendLen % 8 ≠ 0 → misaligned`) -/
theorem src_tie_buffer_is_aligned (s : Src.Buffer.Buffer) (b : Buf) (h : BufRep s b) :
    Src.Buffer.Buffer.is_aligned_defined s = true ∧
    Src.Buffer.Buffer.is_aligned s = (decide (b.written % 8 = 0) && decide (b.committed % 8 = 0)) ∧
    (b.committed % 8 = 0 → b.committed ≤ b.written →
      Src.Buffer.Buffer.is_aligned s = decide (b.pend.length % 8 = 0)) := by
  obtain ⟨h1, h2, h3, h4⟩ := h
  have e : Src.Buffer.Buffer.is_aligned s = (decide (b.written % 8 = 0) && decide (b.committed % 8 = 0)) := by
    rw [Bool.eq_iff_iff]
    simp only [Src.Buffer.Buffer.is_aligned, Src.Item.align_bytes, h2, h3, Bool.and_eq_true, eq_iff, decide_eq_true_eq,
      show (8 : Int) = ((8 : Nat) : Int) from rfl, tmod_nat]
    omega
  refine ⟨by simp [Src.Buffer.Buffer.is_aligned_defined, Src.Item.align_bytes], e, fun ha hc => ?_⟩
  have hl : b.pend.length = b.written - b.committed := by simp [Buf.pend, Buf.written]
  rw [e, hl, Bool.eq_iff_iff]
  simp only [Bool.and_eq_true, decide_eq_true_eq]
  omega

/-- the two capacity tests of `reserve_space(n)` (`m_written + size > m_capacity`), as long as the unsigned sum
    does not wrap -/
theorem src_tie_reserve_space_cond_full (s : Src.Buffer.Buffer) (b : Buf) (n : Nat) (h : BufRep s b)
    (hn : b.written + n < 2 ^ 64) :
    Src.Buffer.reserve_space_cond_full s n = decide (b.written + n > b.cap) ∧
    Src.Buffer.reserve_space_cond_still_full s n = decide (b.written + n > b.cap) := by
  obtain ⟨h1, h2, h3, h4⟩ := h
  have e : wrapU 64 ((b.written : Int) + (n : Int)) = ((b.written + n : Nat) : Int) := by
    rw [← Int.natCast_add]; exact wrapU_nat hn
  constructor <;> rw [Bool.eq_iff_iff] <;>
    simp only [Src.Buffer.reserve_space_cond_full, Src.Buffer.reserve_space_cond_still_full, h1, h2, e, gt_iff,
      decide_eq_true_eq] <;> omega

/-- `m_auto_grow == auto_grow::internal && m_committed != 0` is the guard of `growInternal` in `growFor` -/
theorem src_tie_reserve_space_cond_grow_internal (s : Src.Buffer.Buffer) (b : Buf) (h : BufRep s b) :
    Src.Buffer.reserve_space_cond_grow_internal s = decide (b.mode = .internal ∧ b.committed ≠ 0) := by
  obtain ⟨h1, h2, h3, h4⟩ := h
  rw [Bool.eq_iff_iff]
  simp only [Src.Buffer.reserve_space_cond_grow_internal, h3, h4, Bool.and_eq_true, eq_iff, ne_iff, decide_eq_true_eq]
  cases b.mode <;> simp [modeCode, Src.Buffer.Buffer.auto_grow.internal] <;> omega

/-- one run of the translated doubling loop against the model's `dbl`, for any fuel that covers it -/
theorem reserve_loop_aux (s : Src.Buffer.Buffer) (size : Int) (need : Nat)
    (hneed : wrapU 64 (s.m_written + size) = (need : Int)) (h63 : need < 2 ^ 63) :
    ∀ (f1 f2 c : Nat), 0 < c → need < c * 2 ^ f1 → need < c * 2 ^ f2 →
      Src.Buffer.reserve_space_loop_double (fuel := f1 + 1) (self := s) (size := size) (new_capacity := (c : Int))
        = some ((dbl f2 need c : Nat) : Int) := by
  intro f1
  induction f1 with
  | zero =>
    intro f2 c hc h1 h2
    have hle : ¬ (c < need) := by omega
    have hi : ¬ ((c : Int) < (need : Int)) := by omega
    have hi2 : (need : Int) ≤ (c : Int) := by omega
    unfold Src.Buffer.reserve_space_loop_double
    simp only [hneed, gt, lt, ge, le, gt_iff_lt, ge_iff_le, Int.not_lt, Int.not_le, hi, hi2, decide_false, decide_true, Bool.not_true,
      Bool.not_false, Bool.false_eq_true, if_false]
    cases f2 with
    | zero => rfl
    | succ f2 => simp [dbl, hle]
  | succ f1 ih =>
    intro f2 c hc h1 h2
    unfold Src.Buffer.reserve_space_loop_double
    by_cases hlt : c < need
    · have hi : ((c : Int) < (need : Int)) := by omega
      have hi2 : ¬ (need : Int) ≤ (c : Int) := by omega
      have e2 : wrapU 64 ((c : Int) * 2) = ((c * 2 : Nat) : Int) := by
        rw [show (c : Int) * 2 = ((c * 2 : Nat) : Int) by omega]; exact wrapU_nat (by omega)
      have e3 : wrapU 64 (2 * (c : Int)) = ((c * 2 : Nat) : Int) := by rw [Int.mul_comm]; exact e2
      simp only [hneed, gt, lt, ge, le, gt_iff_lt, ge_iff_le, hi, hi2, decide_true, decide_false, Bool.not_true, Bool.not_false,
        Bool.false_eq_true, if_true, if_false, e2, e3]
      cases f2 with
      | zero => omega
      | succ f2 =>
        have a1 : c * 2 ^ (f1 + 1) = c * 2 * 2 ^ f1 := by rw [Nat.pow_succ]; ac_rfl
        have a2 : c * 2 ^ (f2 + 1) = c * 2 * 2 ^ f2 := by rw [Nat.pow_succ]; ac_rfl
        have := ih f2 (c * 2) (by omega) (by omega) (by omega)
        simp only [dbl, gt_iff_lt, hlt, if_true]
        exact this
    · have hi : ¬ ((c : Int) < (need : Int)) := by omega
      have hi2 : (need : Int) ≤ (c : Int) := by omega
      simp only [hneed, gt, lt, ge, le, gt_iff_lt, ge_iff_le, hi, hi2, decide_false, decide_true, Bool.not_true, Bool.not_false,
        Bool.false_eq_true, if_false]
      cases f2 with
      | zero => rfl
      | succ f2 => simp [dbl, hlt]

/-- the capacity `reserve_space(n)` passes to `grow()`: the translated initialiser `m_capacity * 2` followed by
    the translated loop `while (m_written + size > new_capacity) new_capacity *= 2` returns — within 64
    iterations, so for every fuel ≥ 64 — exactly the model's `dbl need need (cap * 2)` of `growFor`,
    for every buffer of non-zero capacity below 2^62 and `written + n < 2^63`.
    (Beyond 2^63 the unsigned `new_capacity` wraps to 0 and the C++ loop does not terminate.) -/
theorem src_tie_reserve_space_doubling (s : Src.Buffer.Buffer) (b : Buf) (n : Nat) (h : BufRep s b)
    (hcap : 0 < b.cap) (hcap2 : b.cap < 2 ^ 62) (hn : b.written + n < 2 ^ 63) (fuel : Nat) (hf : 64 ≤ fuel) :
    Src.Buffer.reserve_space_new_capacity s = ((b.cap * 2 : Nat) : Int) ∧
    Src.Buffer.reserve_space_loop_double (fuel := fuel) (self := s) (size := n) (new_capacity := Src.Buffer.reserve_space_new_capacity s) =
      some ((dbl (b.written + n) (b.written + n) (b.cap * 2) : Nat) : Int) := by
  obtain ⟨h1, h2, h3, h4⟩ := h
  have e1 : Src.Buffer.reserve_space_new_capacity s = ((b.cap * 2 : Nat) : Int) := by
    simp only [Src.Buffer.reserve_space_new_capacity, h1]
    rw [show (b.cap : Int) * 2 = ((b.cap * 2 : Nat) : Int) by omega]; exact wrapU_nat (by omega)
  refine ⟨e1, ?_⟩
  rw [e1]
  have hneed : wrapU 64 (s.m_written + (n : Int)) = ((b.written + n : Nat) : Int) := by
    rw [h2, ← Int.natCast_add]; exact wrapU_nat (by omega)
  obtain ⟨f, rfl⟩ : ∃ f, fuel = f + 1 := ⟨fuel - 1, by omega⟩
  have p1 : (2 : Nat) ^ 63 ≤ 2 ^ f := Nat.pow_le_pow_right (by decide) (by omega)
  have p2 : b.written + n < 2 ^ (b.written + n) := Nat.lt_two_pow_self
  apply reserve_loop_aux s n (b.written + n) hneed hn f (b.written + n) (b.cap * 2) (by omega)
  · calc b.written + n < 2 ^ 63 := hn
      _ ≤ 2 ^ f := p1
      _ ≤ b.cap * 2 * 2 ^ f := Nat.le_mul_of_pos_left _ (by omega)
  · calc b.written + n < 2 ^ (b.written + n) := p2
      _ ≤ b.cap * 2 * 2 ^ (b.written + n) := Nat.le_mul_of_pos_left _ (by omega)

-- the hypotheses are satisfiable
example : BufRep ⟨64, 24, 8, 2⟩
    ({ cap := 64, committed := 8, bytes := List.replicate 24 0, nested := [], mode := Mode.internal, epoch := 0, fill := 0, valid := true } : Buf) := by
  refine ⟨rfl, ?_, rfl, rfl⟩; simp [Buf.written]
-- and the translated loop really runs: 64 → 128 → 256 for written + size = 200
example : Src.Buffer.reserve_space_loop_double (fuel := 64) (self := ⟨64, 24, 8, 2⟩) (size := 176) (new_capacity := 128) = some 256 := by
  decide

/-! #### `OSMObject::set_version / set_deleted / set_visible`: writes to the bit-fields `m_version : 31`,
     `m_deleted : 1` (the translator stores `wrapU 31 version`), against the word update of `plan (.setVersion v)` /
     `plan (.setDeleted d)`: `u32 % 2 + 2 * v`, `u32 / 2 * 2 + (if d then 1 else 0)` -/

/-- `set_version(v)`: only the version bits of the shared word change, to `v mod 2^31`; the model writes
    `(old % 2 + 2 * v) mod 2^32` (`setLE … 4`) -/
theorem src_tie_set_version (o : Src.Object.OSMObject) (v : Nat) :
    ∃ o', Src.Object.OSMObject.set_version_u32 o v = .normal o' () ∧
      versionWord o' = (versionWord o % 2 + 2 * (v : Int)) % 2 ^ 32 ∧
      o' = { o with m_version := o'.m_version } := by
  refine ⟨_, rfl, ?_, rfl⟩
  simp only [versionWord, wrapU, ofBool]
  cases o.m_deleted <;> simp <;> omega

/-- `set_deleted(d)` / `set_visible(!d)`: only bit 0 of the word changes -/
theorem src_tie_set_deleted (o : Src.Object.OSMObject) (d : Bool) :
    (∃ o', Src.Object.OSMObject.set_deleted o d = .normal o' () ∧
      versionWord o' = versionWord o / 2 * 2 + (if d then 1 else 0) ∧ o' = { o with m_deleted := d }) ∧
    Src.Object.OSMObject.set_visible_b o (!d) = Src.Object.OSMObject.set_deleted o d := by
  refine ⟨⟨_, rfl, ?_, rfl⟩, by simp [Src.Object.OSMObject.set_visible_b, Src.Object.OSMObject.set_deleted]⟩
  simp only [versionWord, ofBool]
  cases o.m_deleted <;> cases d <;> simp <;> omega

/-- the numeric values of `item_type` the layout model hard-codes are the enumerators of the source -/
theorem src_tie_item_type_values :
    (tyNode : Int) = Src.ItemType.item_type.node ∧ (tyWay : Int) = Src.ItemType.item_type.way ∧
    (tyRelation : Int) = Src.ItemType.item_type.relation ∧ (tyArea : Int) = Src.ItemType.item_type.area ∧
    (tyChangeset : Int) = Src.ItemType.item_type.changeset ∧ (tyTagList : Int) = Src.ItemType.item_type.tag_list ∧
    (tyWayNodeList : Int) = Src.ItemType.item_type.way_node_list ∧
    (tyMemberList : Int) = Src.ItemType.item_type.relation_member_list ∧
    (tyMemberListFull : Int) = Src.ItemType.item_type.relation_member_list_with_full_members ∧
    (tyOuterRing : Int) = Src.ItemType.item_type.outer_ring ∧ (tyInnerRing : Int) = Src.ItemType.item_type.inner_ring ∧
    (tyDiscussion : Int) = Src.ItemType.item_type.changeset_discussion := by decide

end SrcTies

end Osmium.Buf.C04
