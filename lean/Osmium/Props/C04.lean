/-
C04 — Buffers and builders keep objects intact across growth, commit, rollback, purge.

Property theorems about the model `Osmium.Buf` (lean/Osmium/Model/Buf.lean, Layout.lean); helper
lemmas live in Osmium/Lemmas/{Buf,BufSim,BufPurge,BufLaws}.lean.  `run s ops` executes a script; `St.init`
creates buf0 = Buffer(c0, m0) and the auxiliary buf1 = Buffer(c1, m1).  `fixF4 = false` is the
CURRENT code (ChangesetDiscussionBuilder::m_comment is a raw pointer), `true` the repaired one.
-/
import Osmium.Lemmas.BufLaws

namespace Osmium.Buf.C04

open Osmium.Layout Osmium.Buf

/-! ### buf_inv -/

/-- `0 ≤ committed ≤ written ≤ capacity` (and capacity ≥ min_capacity) in EVERY reachable state:
    all scripts, all initial capacities, all grow modes, both buffers. -/
theorem buf_inv_bounds (ops : List Op) (c0 c1 : Nat) (m0 m1 : Mode) (fill : UInt8) (fix : Bool) :
    let s := run (St.init c0 m0 c1 m1 fill fix) ops
    (s.b0.committed ≤ s.b0.written ∧ s.b0.written ≤ s.b0.cap ∧ 64 ≤ s.b0.cap) ∧
    (s.b1.committed ≤ s.b1.written ∧ s.b1.written ≤ s.b1.cap ∧ 64 ≤ s.b1.cap) :=
  run_bounds ops _ ⟨bounds_mk _ _ _, bounds_mk _ _ _⟩

/-- The invariant is inductive: one operation from any state satisfying it. -/
theorem buf_inv_step (s : St) (op : Op) (h : s.Bounds) : (step s op).1.Bounds := step_bounds s op h

/-- Alignment clause of buf_inv (8 ∣ committed, and 8 ∣ written when no builder is open) — PARTIAL:
    it holds initially and every operation of the Buffer class itself (commit, rollback, clear,
    add_buffer, push_back, swap, move, set_removed, purge_removed, get_last_nested) preserves it, for
    both buffers, in every grow mode (including a throwing add_buffer/push_back in mode `no`).
    MISSING for the full clause: "a completed top-level builder leaves `written` aligned", which
    needs the byte-level invariant that every open builder's size field is congruent mod 8 to the
    extent actually written (add_padding pads by the size FIELD); that part is covered by the
    `buf-inv` and `item-walk` monitors of the check on every op of every run, not by a theorem. -/
theorem buf_inv_aligned_partial (s : St) (op : Op) (hop : BufferOp op = true) (he : s.stack = [])
    (hs : s.Bounds) (h0 : s.b0.Aligned) (h1 : s.b1.Aligned) :
    (step s op).1.b0.Aligned ∧ (step s op).1.b1.Aligned := step_aligned_bufferop s op hop he hs h0 h1

theorem buf_inv_aligned_init (c0 c1 : Nat) (m0 m1 : Mode) (fill : UInt8) (fix : Bool) :
    (St.init c0 m0 c1 m1 fill fix).b0.Aligned ∧ (St.init c0 m0 c1 m1 fill fix).b1.Aligned :=
  ⟨aligned_mk _ _ _, aligned_mk _ _ _⟩

/-! ### capacity_independent — the central theorem -/

/-- Same script (builder calls, commit, rollback, add_buffer, push_back, move), ANY two initial
    capacities, ANY two of the grow modes yes/internal: unless a run hits an undefined-behaviour
    outcome (stale pointer — finding F4 —, null m_comment, misaligned builder start), both runs
    end with byte-identical committed data (nested buffers oldest first) and byte-identical
    uncommitted data.  Where and how often the memory was reallocated or chained is unobservable. -/
theorem capacity_independent_bytes (ops : List Op) (hg : ∀ op ∈ ops, GrowOp op = true)
    (c c' caux : Nat) (m m' maux : Mode) (hm : m ≠ .no) (hm' : m' ≠ .no) (fill : UInt8) (fix : Bool)
    (d : (run (St.init c m caux maux fill fix) ops).dead = none)
    (d' : (run (St.init c' m' caux maux fill fix) ops).dead = none) :
    (run (St.init c m caux maux fill fix) ops).b0.done = (run (St.init c' m' caux maux fill fix) ops).b0.done ∧
    (run (St.init c m caux maux fill fix) ops).b0.pend = (run (St.init c' m' caux maux fill fix) ops).b0.pend := by
  have h0 : Sim (St.init c m caux maux fill fix) (St.init c' m' caux maux fill fix) :=
    ⟨rfl, rfl, rfl, rfl, rfl, rfl, rfl, rfl, rfl, hm, hm', ⟨bounds_mk _ _ _, bounds_mk _ _ _⟩, ⟨bounds_mk _ _ _, bounds_mk _ _ _⟩⟩
  have h := run_sim ops _ _ hg h0 d d'
  exact ⟨h.done, h.pend⟩

/-- ... hence the same `View` (list of committed items as trees). -/
theorem capacity_independent (ops : List Op) (hg : ∀ op ∈ ops, GrowOp op = true)
    (c c' caux : Nat) (m m' maux : Mode) (hm : m ≠ .no) (hm' : m' ≠ .no) (fill : UInt8) (fix : Bool)
    (d : (run (St.init c m caux maux fill fix) ops).dead = none)
    (d' : (run (St.init c' m' caux maux fill fix) ops).dead = none) :
    view (run (St.init c m caux maux fill fix) ops).b0 = view (run (St.init c' m' caux maux fill fix) ops).b0 := by
  unfold view
  rw [(capacity_independent_bytes ops hg c c' caux m m' maux hm hm' fill fix d d').1]

/-- Every single operation gives the same status (ok / bad-op) in both runs. -/
theorem capacity_independent_step (s1 s2 : St) (op : Op) (hg : GrowOp op = true) (hs : Sim s1 s2)
    (d1 : (step s1 op).1.dead = none) (d2 : (step s2 op).1.dead = none) :
    (step s1 op).2.1 = (step s2 op).2.1 ∧ Sim (step s1 op).1 (step s2 op).1 :=
  ⟨(step_sim s1 s2 op hg hs d1 d2).2, (step_sim s1 s2 op hg hs d1 d2).1⟩

/-- non-vacuity: a script that builds a node with a tag list and commits it satisfies the
    hypotheses at capacities 64 (grows twice) and 4096 (never grows) -/
example :
    let ops := [Op.open .node, .user [97, 98, 99, 100, 101, 102, 103], .open .taglist, .tag [107] [118], .close, .close, .commit]
    (∀ op ∈ ops, GrowOp op = true) ∧ (run (St.init 64 .internal 64 .yes 190 false) ops).dead = none ∧
    (run (St.init 4096 .yes 64 .yes 190 false) ops).dead = none ∧
    (run (St.init 64 .internal 64 .yes 190 false) ops).b0.done.length = 72 := by decide

/-! ### no_stale_pointer — FAILS for the current code (finding F4) -/

/-- The full statement: no script ever dereferences a pointer into memory that has been
    reallocated since the pointer was taken.  (`fixF4 = false`: the current code.) -/
def NoStalePointer (fix : Bool) : Prop :=
  ∀ (ops : List Op) (c0 c1 : Nat) (m0 m1 : Mode) (fill : UInt8),
    (run (St.init c0 m0 c1 m1 fill fix) ops).dead ≠ some .stale

/-- F4 witness: capacity 64, a changeset discussion comment whose user name has 200 bytes:
    `add_comment` keeps `m_comment`, `add_user` appends the name (the buffer grows 64 → 512),
    `add_comment_text` writes the text size through the dangling pointer. -/
def f4Witness : List Op :=
  [.open .changeset, .open .disc, .comment 1 2 (List.replicate 200 117), .commentText [116, 101, 120, 116]]

theorem no_stale_pointer_fails_today : ¬ NoStalePointer false :=
  fun h => h f4Witness 64 64 .yes .yes 190 (by decide +kernel)

/-- the same script is fine when the buffer is large enough — which is why no unit test sees it -/
theorem f4_witness_fine_at_large_capacity :
    (run (St.init 4096 .yes 64 .yes 190 false) f4Witness).dead = none := by decide +kernel

/-- and it is fine at capacity 64 once `m_comment` is an offset instead of a pointer -/
theorem f4_witness_fine_when_fixed :
    (run (St.init 64 .yes 64 .yes 190 true) f4Witness).dead = none := by decide +kernel

/-- The full statement HOLDS for the repaired variant (m_comment kept as an offset, see
    .build/proposed_fixes/C04-discussion-comment-stale-pointer.diff): all scripts, capacities, modes. -/
theorem no_stale_pointer_fixed : NoStalePointer true := by
  intro ops c0 c1 m0 m1 fill
  exact (run_fixOk ops _ ⟨rfl, by simp [St.init]⟩).2

/-- consequently the hypothesis "no undefined-behaviour outcome" of `capacity_independent` cannot be
    dropped for the current code: the outcome of `f4Witness` depends on the capacity. -/
theorem capacity_dependent_today :
    (run (St.init 64 .yes 64 .yes 190 false) f4Witness).dead ≠ (run (St.init 4096 .yes 64 .yes 190 false) f4Witness).dead := by
  decide +kernel

/-! ### purge_spec -/

/-- `purge_removed(callback)` on a committed region that is a sequence of OSM entities (what the
    object builders produce; DESIGN.md O1 for the precondition): the result is exactly the byte
    ranges of the non-removed items in their order, and the callbacks are exactly (old, new) for the
    kept items that moved, in order. -/
theorem purge_spec (c : Bytes) (hs : List Hdr) (hh : headersAll c = .ok hs)
    (hent : ∀ h ∈ hs, isEntity h.ty = true) :
    purgeBytes c = (specBytes c hs, specCallbacks hs) := purgeBytes_spec c hs hh hent

/-- kept = the non-removed items, in order -/
theorem purge_keeps_non_removed (w : Nat) (hs : List Hdr) :
    (keptFrom w hs).map (·.1) = hs.filter (fun h => !h.removed) := keptFrom_items w hs

/-- new offsets = prefix sums of the padded sizes of the kept items -/
theorem purge_new_offsets (w : Nat) (hs : List Hdr) :
    (keptFrom w hs).map (·.2) = runningSums w ((hs.filter (fun h => !h.removed)).map (·.psize)) :=
  keptFrom_offsets w hs

theorem purge_length (c : Bytes) (hs : List Hdr) (hh : headersAll c = .ok hs) :
    (specBytes c hs).length = ((hs.filter (fun h => !h.removed)).map (·.psize)).sum := specBytes_length c hs hh

/-! ### commit / rollback / clear / swap -/

/-- rollback drops exactly the uncommitted data: committed bytes unchanged, nothing pending -/
theorem rollback_drops_only_uncommitted (s : St) (hd : s.dead = none) (hv : s.b0.valid = true) (he : s.stack = []) :
    (step s .rollback).1.b0.done = s.b0.done ∧ (step s .rollback).1.b0.pend = [] ∧
    (step s .rollback).1.b0.committed = s.b0.committed ∧ (step s .rollback).2.1 = .ok := by
  have h := rollback_abs s.b0
  simp only [Buf.done, Buf.comm, Buf.pend] at h
  simp only [step, hd, hv, he, frameSig, plan, execBufOp]
  simpa [Buf.done, Buf.comm, Buf.pend] using h

/-- commit makes exactly the pending bytes visible, after the ones already committed -/
theorem commit_appends_pending (s : St) (hd : s.dead = none) (hv : s.b0.valid = true) (he : s.stack = [])
    (hb : s.b0.committed ≤ s.b0.written) :
    (step s .commit).1.b0.done = s.b0.done ++ s.b0.pend ∧ (step s .commit).1.b0.pend = [] := by
  have h := commit_done s.b0 hb
  simp only [Buf.done, Buf.comm, Buf.pend, Buf.written] at h
  simp only [step, hd, hv, he, frameSig, plan, execBufOp]
  simpa [Buf.done, Buf.comm, Buf.pend, Buf.written] using h

/-- clear empties the buffer (the current one; nested buffers are handed out separately) -/
theorem clear_empties (s : St) (hd : s.dead = none) (hv : s.b0.valid = true) (he : s.stack = []) :
    (step s .clear).1.b0.comm = [] ∧ (step s .clear).1.b0.pend = [] ∧ (step s .clear).1.b0.written = 0 := by
  simp [step, hd, hv, he, frameSig, plan, execBufOp, Buf.comm, Buf.pend, Buf.written]

/-- add_buffer appends exactly the committed bytes of the other buffer (uncommitted until the next
    commit); the data committed so far is untouched -/
theorem add_buffer_appends (s : St) (hd : s.dead = none) (hv : s.b0.valid = true) (hv1 : s.b1.valid = true)
    (he : s.stack = []) (hm : s.b0.mode ≠ .no) (hb : s.Bounds) :
    (step s .addBuffer).1.b0.pend = s.b0.pend ++ s.b1.comm ∧ (step s .addBuffer).1.b0.done = s.b0.done ∧
    (step s .addBuffer).2.1 = .ok := addBuffer_abs s hd hv hv1 he hm hb

/-- swap exchanges the two buffers completely -/
theorem swap_swaps (s : St) (hd : s.dead = none) (hv : s.b0.valid = true) (he : s.stack = []) :
    (step s .swap).1.b0 = s.b1 ∧ (step s .swap).1.b1 = s.b0 := by
  simp [step, hd, hv, he, frameSig, plan, execBufOp]

end Osmium.Buf.C04
