/-
C02, PBF part: the decoder reads spec-conformant files whatever legal encoding choices the producer
made (models: Osmium/Model/Pbf.lean = libosmium's decoder, Osmium/Model/PbfSpec.lean = specification
encoder; tie to the code: tools/props/c02_pbf.py runs the REAL Reader on PbfSpec-encoded files).

Proved here, for ALL field lists / choices:
  * field order is irrelevant for every message whose `switch` cases are independent
    (`pbf_decode_field_order_irrelevant*`), in the strongest form: any two field lists with the same
    per-(tag, wire type) subsequences decode alike; corollary for the spec encoder's rank-sorted messages;
  * unknown fields (unknown tag, or known tag with a foreign wire type) are skipped in every message;
  * the framing accepts every BlobHeader size 1 … 65536 (holds since fix d60f5aa, DESIGN.md F5);
  * `pbf_decode_spec_info_partial`: the Info submessage, bytes level, any rank, any unknown extras.
The full `pbf_decode_spec` (∀ choices ∀ representable D: decodeFile (PbfSpec.encode ch D) = some D) is NOT
proved in Lean (missing: per-kind canonical-fields lemmas for node/way/relation/dense under granularity and
offset choices, string-table layout lemma `idx`, block splitting `cut`/`runs` induction); it is exercised
by the correspondence only (real Reader = model decoder = D on every generated choice vector).
-/
import Osmium.Lemmas.Pbf
import Osmium.Model.PbfSpec

namespace Osmium.Pbf

open Osmium.Wire Osmium.PbfMsg Osmium.Osm

/-! ## field order -/

/-- `decode_info`: any reordering of the Info fields that keeps the relative order of repeated
    occurrences of the same field (last one wins) gives the same result -/
theorem pbf_decode_field_order_irrelevant (p : Params) (s : InfoAcc × Bytes) (fs fs' : List Field)
    (h : ∀ k, fs.filter (fun f => key f = k) = fs'.filter (fun f => key f = k)) :
    decodeMsg (infoStep p) s fs = decodeMsg (infoStep p) s fs' :=
  decodeMsg_congr_of_filters _ _ (infoStep_commutes p) s fs fs' (fun _ _ => trivial) (fun _ _ => trivial) h

/-- non-vacuity: version/timestamp/visible in two different orders, with a repeated version field -/
example : decodeMsg (infoStep {}) ({}, []) [fVarint 1 3, fVarint 2 9, fVarint 1 4, fVarint 6 0]
        = decodeMsg (infoStep {}) ({}, []) [fVarint 6 0, fVarint 1 3, fVarint 1 4, fVarint 2 9] := by decide

theorem pbf_decode_field_order_irrelevant_bbox (s : BBoxAcc) (fs fs' : List Field)
    (h : ∀ k, fs.filter (fun f => key f = k) = fs'.filter (fun f => key f = k)) :
    decodeMsg bboxStep s fs = decodeMsg bboxStep s fs' :=
  decodeMsg_congr_of_filters _ _ bboxStep_commutes s fs fs' (fun _ _ => trivial) (fun _ _ => trivial) h

theorem pbf_decode_field_order_irrelevant_denseinfo (s : DenseAcc) (fs fs' : List Field)
    (h : ∀ k, fs.filter (fun f => key f = k) = fs'.filter (fun f => key f = k)) :
    decodeMsg denseInfoStep s fs = decodeMsg denseInfoStep s fs' :=
  decodeMsg_congr_of_filters _ _ denseInfoStep_commutes s fs fs' (fun _ _ => trivial) (fun _ _ => trivial) h

/-- the specification encoder orders the fields of a message by an ARBITRARY rank of (tag, wire type):
    the decoder does not see the difference -/
theorem pbf_decode_any_rank_info (p : Params) (s : InfoAcc × Bytes) (rank : Nat × WireType → Nat) (fs : List Field) :
    decodeMsg (infoStep p) s (sortByRank rank fs) = decodeMsg (infoStep p) s fs :=
  decodeMsg_sortByRank _ _ (infoStep_commutes p) rank s fs (fun _ _ => trivial)

theorem pbf_decode_any_rank_bbox (s : BBoxAcc) (rank : Nat × WireType → Nat) (fs : List Field) :
    decodeMsg bboxStep s (sortByRank rank fs) = decodeMsg bboxStep s fs :=
  decodeMsg_sortByRank _ _ bboxStep_commutes rank s fs (fun _ _ => trivial)

theorem pbf_decode_any_rank_denseinfo (s : DenseAcc) (rank : Nat × WireType → Nat) (fs : List Field) :
    decodeMsg denseInfoStep s (sortByRank rank fs) = decodeMsg denseInfoStep s fs :=
  decodeMsg_sortByRank _ _ denseInfoStep_commutes rank s fs (fun _ _ => trivial)

/-! ## unknown fields -/

/-- every decoder loop ignores fields it has no `case` for — unknown tags of any wire type and known
    tags with a foreign wire type (Info, Node, Way, Relation, DenseInfo, HeaderBBox, PrimitiveBlock) -/
theorem pbf_unknown_fields_skipped (p : Params) (r : ROpts) (fs : List Field) :
    (∀ s, decodeMsg (infoStep p) s (fs.filter infoKnown) = decodeMsg (infoStep p) s fs) ∧
    (∀ s, decodeMsg (nodeStep p r) s (fs.filter nodeKnown) = decodeMsg (nodeStep p r) s fs) ∧
    (∀ s, decodeMsg (wayStep p r) s (fs.filter wayKnown) = decodeMsg (wayStep p r) s fs) ∧
    (∀ s, decodeMsg (relationStep p r) s (fs.filter wayKnown) = decodeMsg (relationStep p r) s fs) ∧
    (∀ s, decodeMsg denseInfoStep s (fs.filter denseInfoKnown) = decodeMsg denseInfoStep s fs) ∧
    (∀ s, decodeMsg bboxStep s (fs.filter bboxKnown) = decodeMsg bboxStep s fs) ∧
    (∀ s, decodeMsg blockMetaStep s (fs.filter blockMetaKnown) = decodeMsg blockMetaStep s fs) :=
  ⟨fun s => decodeMsg_filter_known _ _ (infoStep_unknown p) fs s,
   fun s => decodeMsg_filter_known _ _ (nodeStep_unknown p r) fs s,
   fun s => decodeMsg_filter_known _ _ (wayStep_unknown p r) fs s,
   fun s => decodeMsg_filter_known _ _ (relationStep_unknown p r) fs s,
   fun s => decodeMsg_filter_known _ _ denseInfoStep_unknown fs s,
   fun s => decodeMsg_filter_known _ _ bboxStep_unknown fs s,
   fun s => decodeMsg_filter_known _ _ blockMetaStep_unknown fs s⟩

/-- unknown fields of all four wire types, and tag 1 with the wrong wire type, between the real ones -/
example : decodeMsg (infoStep {}) ({}, [])
      [⟨41, .varint, 7, []⟩, fVarint 1 3, ⟨60, .fixed64, 0, [1,2,3,4,5,6,7,8]⟩, ⟨61, .lengthDelimited, 0, [1]⟩,
       fVarint 2 9, ⟨62, .fixed32, 0, [1,2,3,4]⟩, ⟨1, .fixed32, 0, [0,0,0,0]⟩]
    = decodeMsg (infoStep {}) ({}, []) [fVarint 1 3, fVarint 2 9] := by decide

theorem decodeMsg_append_unknown {σ : Type} (step : σ → Field → Option σ) (known : Field → Bool)
    (hs : ∀ s f, known f = false → step s f = some s) (s : σ) (fs extras : List Field)
    (he : ∀ e ∈ extras, known e = false) : decodeMsg step s (fs ++ extras) = decodeMsg step s fs := by
  rw [← decodeMsg_filter_known step known hs (fs ++ extras), ← decodeMsg_filter_known step known hs fs]
  have : extras.filter known = [] := by
    rw [List.filter_eq_nil_iff]; intro a ha; simp [he a ha]
  rw [List.filter_append, this, List.append_nil]

/-! ## the Info submessage as a spec-conformant producer may write it -/

/-- `_partial` (of `pbf_decode_spec`): BYTES level, for the Info submessage: whatever rank the producer
    orders the fields by and whatever unknown fields it adds, `decode_info` sees exactly the known fields
    in canonical order.  Missing for the full theorem: the same for the other message kinds and the
    composition over blocks (see the header comment). -/
theorem pbf_decode_spec_info_partial (p : Params) (acc : InfoAcc) (rank : Nat × WireType → Nat)
    (fs extras : List Field) (hw : ∀ f ∈ fs ++ extras, f.WF) (he : ∀ e ∈ extras, infoKnown e = false) :
    decodeInfo p acc (encodeFields (sortByRank rank (fs ++ extras))) = decodeMsg (infoStep p) (acc, []) fs := by
  unfold decodeInfo
  rw [readFields_encodeFields _ (fun f hf => hw f ((mem_sortByRank rank f _).mp hf))]
  simp only
  rw [pbf_decode_any_rank_info, decodeMsg_append_unknown (infoStep p) infoKnown (infoStep_unknown p) _ fs extras he]

/-- the same statement for the specification encoder's own `msg` (rank and extras from the choices) -/
theorem pbf_decode_spec_info_msg_partial (p : Params) (acc : InfoAcc) (ch : PbfSpec.Choices) (fs : List Field)
    (hw : ∀ f ∈ fs ++ ch.extras PbfSpec.kInfo, f.WF) (he : ∀ e ∈ ch.extras PbfSpec.kInfo, infoKnown e = false) :
    decodeInfo p acc (PbfSpec.msg ch PbfSpec.kInfo fs) = decodeMsg (infoStep p) (acc, []) fs :=
  pbf_decode_spec_info_partial p acc _ fs _ hw he

/-! ## framing -/

/-- Every BlobHeader size from 1 to 65536 bytes (e.g. with `indexdata`) is accepted: the 4 size bytes
    are read as an unsigned big-endian number (the sign-extension defect F5 was fixed in d60f5aa; with
    the old code this theorem was false for sizes whose low byte is ≥ 0x80). -/
theorem pbf_framing_any_header_size (first : Bool) (hdr blob rest : Bytes)
    (h0 : 0 < hdr.length) (h1 : hdr.length ≤ 65536)
    (hb : PbfFraming.blobSize first hdr = some blob.length)
    (h2 : blob.length ≤ PbfFraming.maxUncompressedBlobSize) :
    nextBlob first (be32 hdr.length ++ hdr ++ blob ++ rest) = some (some (blob, rest)) := by
  have hlen : (be32 hdr.length).length = 4 := rfl
  have hrd : rdBe32 (be32 hdr.length ++ (hdr ++ blob ++ rest)) = hdr.length :=
    rdBe32_be32 _ (by simp only [Nat.reducePow]; omega) _
  have hdrop : (be32 hdr.length ++ (hdr ++ blob ++ rest)).drop 4 = hdr ++ blob ++ rest := by
    rw [List.drop_left' hlen]
  have e : be32 hdr.length ++ hdr ++ blob ++ rest = be32 hdr.length ++ (hdr ++ blob ++ rest) := by
    simp [List.append_assoc]
  rw [e]
  unfold nextBlob
  have hl4 : ¬ (be32 hdr.length ++ (hdr ++ blob ++ rest)).length < 4 := by
    simp only [List.length_append, hlen]; omega
  have hmax : ¬ hdr.length > PbfFraming.maxBlobHeaderSize := by
    have : PbfFraming.maxBlobHeaderSize = 65536 := by decide
    omega
  have hz : (hdr.length == 0) = false := by rw [beq_eq_false_iff_ne]; omega
  have hshort : ¬ (hdr ++ blob ++ rest).length < hdr.length := by simp only [List.length_append]; omega
  have htake : (hdr ++ blob ++ rest).take hdr.length = hdr := by
    rw [List.append_assoc, List.take_left' rfl]
  have hdrop2 : (hdr ++ blob ++ rest).drop hdr.length = blob ++ rest := by
    rw [List.append_assoc, List.drop_left' rfl]
  have h2' : ¬ blob.length > PbfFraming.maxUncompressedBlobSize := by omega
  have hshort2 : ¬ (blob ++ rest).length < blob.length := by simp only [List.length_append]; omega
  simp only [hl4, ↓reduceIte, hrd, hdrop, hmax, hz, Bool.false_eq_true, hshort, htake, hb, hdrop2, h2', hshort2,
    List.take_left' rfl, List.drop_left' rfl]

/- non-vacuity of the hypotheses (a header of 166 bytes = type + 150 bytes of indexdata + datasize, the F5
   trigger, and headers up to 65 5xx bytes) is exercised on the real code by tools/props/c02_pbf.py
   (choices ix=150 … ix=65517; histogram hdrsize:* in the evidence); `PbfFraming.blobSize` compares with
   `"OSMData".toUTF8`, which the kernel cannot evaluate, so there is no `decide` example here. -/

end Osmium.Pbf
