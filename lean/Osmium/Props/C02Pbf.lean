/-
C02, PBF part: the decoder reads spec-conformant files whatever legal encoding choices the producer
made (models: Osmium/Model/Pbf.lean = libosmium's decoder, Osmium/Model/PbfSpec.lean = specification
encoder; tie to the code: tools/props/c02_pbf.py runs the REAL Reader on PbfSpec-encoded files).

Proved here, for ALL field lists / choices:
  * field order is irrelevant for every message whose `switch` cases are independent
    (`pbf_decode_field_order_irrelevant*`), in the strongest form: any two field lists with the same
    per-(tag, wire type) subsequences decode alike; corollary for the spec encoder's rank-sorted messages;
  * unknown fields (unknown tag, or known tag with a foreign wire type) are skipped in every message;
  * the framing accepts every BlobHeader size 1 … 65536 (holds since fix d60f5aa, DESIGN.md F5);
  * `pbf_decode_spec`: the FULL clause — for every legal choice vector (`ChoicesOk`: any rank per message kind,
    any well-formed unknown extras per message kind, granularity / date granularity positive int32, offsets up to
    2^61 nanodegrees, plain or dense nodes, defaults written or omitted, version -1, indexdata, string-table padding
    and duplicates, any block / group splitting) and every data set representable under it (`Representable`) within
    the format limits (`Fits`: BlobHeader ≤ 64 KiB, Blob ≤ 32 MiB): `decodeFile (PbfSpec.encode ch D) = some D`.
    Per message kind (Lemmas/PbfSpec*.lean): BlobHeader, Blob, HeaderBlock, HeaderBBox, PrimitiveBlock, StringTable,
    PrimitiveGroup, Node, Way, Relation, Info, DenseNodes, DenseInfo.
-/
import Osmium.Lemmas.Pbf
import Osmium.Model.PbfSpec
import Osmium.Lemmas.PbfSpecFile
import Osmium.Lemmas.PbfSpecDec
import Osmium.Generated.Consts

namespace Osmium.Pbf

open Osmium.Wire Osmium.PbfMsg Osmium.Osm

/-! ## field order -/

/-- `decode_info`: any reordering of the Info fields that keeps the relative order of repeated
    occurrences of the same field (last one wins) gives the same result -/
theorem pbf_decode_field_order_irrelevant (p : Params) (s : InfoAcc × Bytes) (fs fs' : List Field)
    (h : ∀ k, fs.filter (fun f => key f = k) = fs'.filter (fun f => key f = k)) :
    decodeMsg (infoStep p) s fs = decodeMsg (infoStep p) s fs' :=
  decodeMsg_congr_of_filters _ _ (infoStep_commutes p) s fs fs' (fun _ _ => trivial) (fun _ _ => trivial) h

/-- non-vacuity: version/timestamp/visible in two different orders, with a repeated version field -/
example : decodeMsg (infoStep {}) ({}, []) [fVarint 1 3, fVarint 2 9, fVarint 1 4, fVarint 6 0]
        = decodeMsg (infoStep {}) ({}, []) [fVarint 6 0, fVarint 1 3, fVarint 1 4, fVarint 2 9] := by decide

theorem pbf_decode_field_order_irrelevant_bbox (s : BBoxAcc) (fs fs' : List Field)
    (h : ∀ k, fs.filter (fun f => key f = k) = fs'.filter (fun f => key f = k)) :
    decodeMsg bboxStep s fs = decodeMsg bboxStep s fs' :=
  decodeMsg_congr_of_filters _ _ bboxStep_commutes s fs fs' (fun _ _ => trivial) (fun _ _ => trivial) h

theorem pbf_decode_field_order_irrelevant_denseinfo (s : DenseAcc) (fs fs' : List Field)
    (h : ∀ k, fs.filter (fun f => key f = k) = fs'.filter (fun f => key f = k)) :
    decodeMsg denseInfoStep s fs = decodeMsg denseInfoStep s fs' :=
  decodeMsg_congr_of_filters _ _ denseInfoStep_commutes s fs fs' (fun _ _ => trivial) (fun _ _ => trivial) h

/-- the specification encoder orders the fields of a message by an ARBITRARY rank of (tag, wire type):
    the decoder does not see the difference -/
theorem pbf_decode_any_rank_info (p : Params) (s : InfoAcc × Bytes) (rank : Nat × WireType → Nat) (fs : List Field) :
    decodeMsg (infoStep p) s (sortByRank rank fs) = decodeMsg (infoStep p) s fs :=
  decodeMsg_sortByRank _ _ (infoStep_commutes p) rank s fs (fun _ _ => trivial)

theorem pbf_decode_any_rank_bbox (s : BBoxAcc) (rank : Nat × WireType → Nat) (fs : List Field) :
    decodeMsg bboxStep s (sortByRank rank fs) = decodeMsg bboxStep s fs :=
  decodeMsg_sortByRank _ _ bboxStep_commutes rank s fs (fun _ _ => trivial)

theorem pbf_decode_any_rank_denseinfo (s : DenseAcc) (rank : Nat × WireType → Nat) (fs : List Field) :
    decodeMsg denseInfoStep s (sortByRank rank fs) = decodeMsg denseInfoStep s fs :=
  decodeMsg_sortByRank _ _ denseInfoStep_commutes rank s fs (fun _ _ => trivial)

/-! ## unknown fields -/

/-- every decoder loop ignores fields it has no `case` for — unknown tags of any wire type and known
    tags with a foreign wire type (Info, Node, Way, Relation, DenseInfo, HeaderBBox, PrimitiveBlock) -/
theorem pbf_unknown_fields_skipped (p : Params) (r : ROpts) (fs : List Field) :
    (∀ s, decodeMsg (infoStep p) s (fs.filter infoKnown) = decodeMsg (infoStep p) s fs) ∧
    (∀ s, decodeMsg (nodeStep p r) s (fs.filter nodeKnown) = decodeMsg (nodeStep p r) s fs) ∧
    (∀ s, decodeMsg (wayStep p r) s (fs.filter wayKnown) = decodeMsg (wayStep p r) s fs) ∧
    (∀ s, decodeMsg (relationStep p r) s (fs.filter wayKnown) = decodeMsg (relationStep p r) s fs) ∧
    (∀ s, decodeMsg denseInfoStep s (fs.filter denseInfoKnown) = decodeMsg denseInfoStep s fs) ∧
    (∀ s, decodeMsg bboxStep s (fs.filter bboxKnown) = decodeMsg bboxStep s fs) ∧
    (∀ s, decodeMsg blockMetaStep s (fs.filter blockMetaKnown) = decodeMsg blockMetaStep s fs) :=
  ⟨fun s => decodeMsg_filter_known _ _ (infoStep_unknown p) fs s,
   fun s => decodeMsg_filter_known _ _ (nodeStep_unknown p r) fs s,
   fun s => decodeMsg_filter_known _ _ (wayStep_unknown p r) fs s,
   fun s => decodeMsg_filter_known _ _ (relationStep_unknown p r) fs s,
   fun s => decodeMsg_filter_known _ _ denseInfoStep_unknown fs s,
   fun s => decodeMsg_filter_known _ _ bboxStep_unknown fs s,
   fun s => decodeMsg_filter_known _ _ blockMetaStep_unknown fs s⟩

/-- unknown fields of all four wire types, and tag 1 with the wrong wire type, between the real ones -/
example : decodeMsg (infoStep {}) ({}, [])
      [⟨41, .varint, 7, []⟩, fVarint 1 3, ⟨60, .fixed64, 0, [1,2,3,4,5,6,7,8]⟩, ⟨61, .lengthDelimited, 0, [1]⟩,
       fVarint 2 9, ⟨62, .fixed32, 0, [1,2,3,4]⟩, ⟨1, .fixed32, 0, [0,0,0,0]⟩]
    = decodeMsg (infoStep {}) ({}, []) [fVarint 1 3, fVarint 2 9] := by decide

theorem decodeMsg_append_unknown {σ : Type} (step : σ → Field → Option σ) (known : Field → Bool)
    (hs : ∀ s f, known f = false → step s f = some s) (s : σ) (fs extras : List Field)
    (he : ∀ e ∈ extras, known e = false) : decodeMsg step s (fs ++ extras) = decodeMsg step s fs := by
  rw [← decodeMsg_filter_known step known hs (fs ++ extras), ← decodeMsg_filter_known step known hs fs]
  have : extras.filter known = [] := by
    rw [List.filter_eq_nil_iff]; intro a ha; simp [he a ha]
  rw [List.filter_append, this, List.append_nil]

/-! ## the Info submessage as a spec-conformant producer may write it -/

/-- BYTES level, for the Info submessage: whatever rank the producer orders the fields by and whatever unknown
    fields it adds, `decode_info` sees exactly the known fields in canonical order (the instance of
    `pbf_decode_arranged` below for one message kind; the full clause is `pbf_decode_spec`). -/
theorem pbf_decode_spec_info (p : Params) (acc : InfoAcc) (rank : Nat × WireType → Nat)
    (fs extras : List Field) (hw : ∀ f ∈ fs ++ extras, f.WF) (he : ∀ e ∈ extras, infoKnown e = false) :
    decodeInfo p acc (encodeFields (sortByRank rank (fs ++ extras))) = decodeMsg (infoStep p) (acc, []) fs := by
  unfold decodeInfo
  rw [readFields_encodeFields _ (fun f hf => hw f ((mem_sortByRank rank f _).mp hf))]
  simp only
  rw [pbf_decode_any_rank_info, decodeMsg_append_unknown (infoStep p) infoKnown (infoStep_unknown p) _ fs extras he]

/-- the same statement for the specification encoder's own `msg` (rank and extras from the choices) -/
theorem pbf_decode_spec_info_msg (p : Params) (acc : InfoAcc) (ch : PbfSpec.Choices) (fs : List Field)
    (hw : ∀ f ∈ fs ++ ch.extras PbfSpec.kInfo, f.WF) (he : ∀ e ∈ ch.extras PbfSpec.kInfo, infoKnown e = false) :
    decodeInfo p acc (PbfSpec.msg ch PbfSpec.kInfo fs) = decodeMsg (infoStep p) (acc, []) fs :=
  pbf_decode_spec_info p acc _ fs _ hw he

/-! ## framing -/

/-- Every BlobHeader size from 1 to 65536 bytes (e.g. with `indexdata`) is accepted: the 4 size bytes
    are read as an unsigned big-endian number (the sign-extension defect F5 was fixed in d60f5aa; with
    the old code this theorem was false for sizes whose low byte is ≥ 0x80). -/
theorem pbf_framing_any_header_size (first : Bool) (hdr blob rest : Bytes)
    (h0 : 0 < hdr.length) (h1 : hdr.length ≤ 65536)
    (hb : PbfFraming.blobSize first hdr = some blob.length)
    (h2 : blob.length ≤ PbfFraming.maxUncompressedBlobSize) :
    nextBlob first (be32 hdr.length ++ hdr ++ blob ++ rest) = some (some (blob, rest)) :=
  nextBlob_framed first hdr blob rest h0 h1 hb h2

/- non-vacuity of the hypotheses (a header of 166 bytes = type + 150 bytes of indexdata + datasize, the F5
   trigger, and headers up to 65 5xx bytes) is exercised on the real code by tools/props/c02_pbf.py
   (choices ix=150 … ix=65517; histogram hdrsize:* in the evidence); `PbfFraming.blobSize` compares with
   `"OSMData".toUTF8`, which the kernel cannot evaluate, so there is no `decide` example here. -/

/-! ## the full clause -/

/-- every message kind: the decoder loop over a message whose fields were arranged by an ARBITRARY rank and
    extended by unknown extras equals the loop over the canonical field list — the generalisation of
    `pbf_decode_any_rank_*` + `pbf_unknown_fields_skipped` the per-kind lemmas are built on -/
theorem pbf_decode_arranged {σ : Type} (step : σ → Field → Option σ) (known : Field → Bool)
    (hs : ∀ s f, known f = false → step s f = some s) (hc : CommutesOn step (fun _ => True))
    (ch : PbfSpec.Choices) (k : Nat) (fs : List Field) (s : σ) (he : ∀ e ∈ ch.extras k, known e = false) :
    decodeMsg step s (PbfSpec.arrange ch k fs) = decodeMsg step s fs :=
  decodeMsg_arrange' step known hs hc ch k fs s he

/-- `pbf_decode_spec`: ∀ legal choice vectors `ch`, ∀ data sets `(h, os)` representable under `ch` and within the
    format limits: the Reader (`PBFParser::run` + `decode_blob` + `decode_header_block` +
    `PBFPrimitiveBlockDecoder`, any `inflate` — raw blobs do not use it) returns exactly the header and the objects
    the file describes.
    `ChoicesOk` (Lemmas/PbfSpecBase): 0 < granularity, date_granularity < 2^31; |lat/lon offset| ≤ 2^61; padding
    strings ≤ 1024 bytes; per message kind the extras are well-formed fields the kind's `switch` has no case for.
    `Representable` (Lemmas/PbfSpecFile, `ObjRep` in PbfSpecBase): C01's value domain, coordinates / timestamps on
    the granularity grids (`CoordRep`, `StampRep`), invisible nodes without location, ways with locations for all
    nodes or none, delta chains within sint64 (`DeltaRep`), header boxes with ordered valid corners, no changesets.
    `Fits`: every BlobHeader ≤ 64 KiB, every Blob and its payload ≤ 32 MiB. -/
theorem pbf_decode_spec (inflate : Nat → Bytes → Nat → Option Bytes) (ch : PbfSpec.Choices) (h : Header) (os : List Object)
    (hch : ChoicesOk ch) (hrep : Representable ch h os) (hfit : Fits ch h os) :
    decodeFile inflate {} (PbfSpec.encode ch h os) = some (h, os) :=
  spec_file inflate ch h os hch hrep hfit

/-- a choice vector using every freedom: granularity 1000 with offsets, date granularity 500, dense nodes, defaults
    omitted, version −1, a seeded rank, unknown extras of all four wire types in every message, indexdata, table
    padding and duplicates, blocks of 2 objects, groups of 1 -/
def exChoices : PbfSpec.Choices where
  dense := true
  granularity := 1000
  latOffset := 500
  lonOffset := -300
  dateGranularity := 500
  omitDefaults := true
  versionMinusOne := true
  rank := PbfSpec.rankOfSeed 7
  extras := fun k => if k < 13 then PbfSpec.extrasOfSeed 3 k else []     -- the 13 message kinds that exist
  indexdata := some [1, 2, 3]
  tablePrefix := [[0x70]]
  tableDup := true
  split := [2]
  blockRest := 2
  groupSize := 1

def exHeader : Header := { generator := [0x67], boxes := [(⟨-1301, -5⟩, ⟨7, 9⟩)], multipleVersions := true }

def exObjects : List Object :=
  [.node { id := 1, version := 0, user := [0x75], tags := [⟨[0x6b], [0x76]⟩] } ⟨-3, 55⟩,
   .node { id := -5, version := 2, visible := false, uid := 7, timestamp := 3 } Location.undefined,
   .way { id := 9223372036854775807, uid := 2147483647 } [⟨1, ⟨17, 25⟩⟩, ⟨-5, ⟨-23, 5⟩⟩],
   .relation { id := 3, changeset := 4294967295, timestamp := 4294967295 } [⟨1, 5, [0x72]⟩, ⟨3, -5, []⟩]]

theorem exExtras_ok : ∀ k, k < 13 → ∀ e ∈ PbfSpec.extrasOfSeed 3 k, e.WF ∧ knownOf k e = false := by decide

/-- non-vacuity of the three hypotheses of `pbf_decode_spec` … -/
example : ChoicesOk exChoices where
  gran := by decide
  dgran := by decide
  latOff := by decide
  lonOff := by decide
  pad := by decide
  extrasWF := by
    intro k e he
    by_cases hk : k < 13
    · simp only [exChoices, hk, ↓reduceIte] at he; exact (exExtras_ok k hk e he).1
    · simp [exChoices, hk] at he
  extrasUnknown := by
    intro k e he
    by_cases hk : k < 13
    · simp only [exChoices, hk, ↓reduceIte] at he; exact (exExtras_ok k hk e he).2
    · simp [exChoices, hk] at he

example : Representable exChoices exHeader exObjects where
  boxes := by decide +kernel
  objs := by decide +kernel
  dense := by decide +kernel

example : Fits exChoices exHeader exObjects where
  header := by decide +kernel
  blocks := by decide +kernel

/-- … and the conclusion on that file, evaluated through both models -/
example : decodeFile noInflate {} (PbfSpec.encode exChoices exHeader exObjects) = some (exHeader, exObjects) := by
  decide +kernel

/-- the grids matter: a latitude off the granularity grid does not come back (so `Representable` is not idle) -/
example : decodeFile noInflate {} (PbfSpec.encode exChoices exHeader [.node { id := 1 } ⟨-3, 50⟩]) ≠
    some (exHeader, [.node { id := 1 } ⟨-3, 50⟩]) := by
  decide +kernel

/-- Tie of the decoder model's limits to the CURRENT source (regenerated `Generated/Consts.lean`). -/
theorem consts_tie_pbf_reader :
    Osmium.PbfFraming.maxBlobHeaderSize = Osmium.Generated.Consts.pbfMaxBlobHeaderSize ∧
    Osmium.PbfFraming.maxUncompressedBlobSize = Osmium.Generated.Consts.pbfMaxUncompressedBlobSize ∧
    maxOsmStringLength = Osmium.Generated.Consts.maxOsmStringLength ∧
    Osmium.Generated.Consts.pbfLonlatResolution = 1000000000 ∧ Osmium.Generated.Consts.pbfResolutionConvert = 100 := by decide

end Osmium.Pbf
