/-
C19 — Thread-safe queue is FIFO and loss-free; the pool runs every task exactly once.

Every theorem quantifies over ALL reachable states of the monitor machines of
Model/QueueSM.lean / Model/PoolSM.lean: any number of threads, any interleaving of the
lock-granular steps, runs of any length, any queue bound, with or without spurious wake-ups
(`c.spurious`).  The tie to the C++ code is the trace validation of tools/props/c19.py.

Notation: `called` push() calls in call order, `pushed` enqueues in lock order, `removed`
everything that left the front in lock order, `popped` (consumer, element) handed out in lock
order, `inflight s p` the element producer `p` is carrying through push() right now,
`byProd p l` the elements of producer `p` in `l`.
-/
import Osmium.Lemmas.QueueSM
import Osmium.Lemmas.PoolSM
import Osmium.Lemmas.PoolSM2Dtor
import Osmium.Lemmas.PoolSM2Rank2
import Osmium.Lemmas.PoolSMOutcome

namespace Osmium.C19

open Osmium.Mon Osmium.QueueSM

variable {α : Type} [DecidableEq α]

/-- the queue machine -/
abbrev Q (α : Type) [DecidableEq α] (c : Cfg) := machine α c

/-! ## the validator is sound -/

/-- A trace accepted by the validator (what lean/Driver/C19.lean runs) is a run of the model:
    its final state is reachable. -/
theorem validator_sound {σ ε : Type} (m : Machine σ ε) (s' : σ) (tr : List ε)
    (h : m.run? m.init tr = .ok s') : m.Reachable s' :=
  m.run?_reachable m.init s' tr 0 .init h

/-! ## FIFO, no loss, no duplication -/

/-- The queue is a FIFO: what was enqueued (in lock order) is what left the front (in lock
    order) followed by what is still queued; while the queue is in use everything that left
    the front was handed to a consumer, so `pushed = popped ++ items`. -/
theorem queue_conservation (c : Cfg) (s : State α) (h : (Q α c).Reachable s) :
    s.pushed = s.removed ++ s.items ∧
    (s.inUse = true → s.pushed = s.popped.map (fun p => p.2) ++ s.items) ∧
    (s.popped.map (fun p => p.2)).Sublist s.removed := by
  refine ⟨inv_cons c s h, fun hu => ?_, inv_popped_sublist c s h⟩
  rw [inv_cons c s h, inv_popped c s h hu]

/-- Per-producer FIFO.  While the queue is in use: (1) the elements of producer `p` handed out
    so far are a PREFIX of the elements `p` enqueued, in the same order; (2) what `p` enqueued,
    followed by the element it is pushing right now, is exactly the sequence of its push()
    calls — nothing of `p` is lost or reordered on the way in. -/
theorem per_producer_fifo (c : Cfg) (s : State α) (h : (Q α c).Reachable s) (hu : s.inUse = true) (p : Tid) :
    byProd p (s.popped.map (fun x => x.2)) <+: byProd p s.pushed ∧
    byProd p s.called = byProd p s.pushed ++ inflight s p := by
  refine ⟨?_, (inv_called c s h hu).2 p⟩
  have := (queue_conservation c s h).2.1 hu
  rw [this, byProd_append]
  exact List.prefix_append _ _

/-- … and at any time (also after shutdown) what any single consumer received from producer
    `p` is a subsequence, in order, of what `p` enqueued. -/
theorem per_consumer_order (c : Cfg) (s : State α) (h : (Q α c).Reachable s) (p cons : Tid) :
    (byProd p ((s.popped.filter (fun x => x.1 == cons)).map (fun x => x.2))).Sublist (byProd p s.pushed) := by
  have h1 : ((s.popped.filter (fun x => x.1 == cons)).map (fun x => x.2)).Sublist (s.popped.map (fun x => x.2)) :=
    List.filter_sublist.map _
  have h2 := (queue_conservation c s h).2.2
  have h3 : s.removed.Sublist s.pushed := by
    rw [(queue_conservation c s h).1]; exact List.sublist_append_left _ _
  exact ((h1.trans h2).trans h3).filter _

/-- No duplication, no loss.  If all push() calls carry distinct (producer, element) pairs
    then nothing is enqueued or handed out twice, and while the queue is in use every element
    ever passed to push() has been handed out, is still queued, or is being pushed right now. -/
theorem no_dup_no_loss (c : Cfg) (s : State α) (h : (Q α c).Reachable s) (hd : s.called.Nodup) :
    s.pushed.Nodup ∧ (s.popped.map (fun p => p.2) ++ s.items).Nodup ∧
    (s.inUse = true → s.dropped = [] ∧ ∀ x ∈ s.called,
        x ∈ s.popped.map (fun p => p.2) ∨ x ∈ s.items ∨ x ∈ inflight s x.1) := by
  have hn := (inv_nodup c s h hd).1
  have hc := queue_conservation c s h
  refine ⟨hn, ?_, fun hu => ⟨(inv_called c s h hu).1, fun x hx => ?_⟩⟩
  · have : (s.popped.map (fun p => p.2) ++ s.items).Sublist s.pushed := by
      rw [hc.1]; exact List.Sublist.append hc.2.2 (List.Sublist.refl _)
    exact this.nodup hn
  · have hx' : x ∈ byProd x.1 s.called := by simp [byProd, hx]
    rw [(inv_called c s h hu).2 x.1, List.mem_append] at hx'
    rcases hx' with hx' | hx'
    · have : x ∈ s.pushed := (List.mem_filter.mp hx').1
      rw [hc.2.1 hu, List.mem_append] at this
      rcases this with h1 | h1
      · exact .inl h1
      · exact .inr (.inl h1)
    · exact .inr (.inr hx')

/-! ## the size bound -/

/-- The bound is soft, exactly as the code is written (`size() >= m_max_size` is evaluated
    outside the critical section that enqueues): with `P` distinct producer threads the queue
    never holds more than `max + P - 1` elements … -/
theorem soft_bound (c : Cfg) (hmax : 0 < c.max) (s : State α) (h : (Q α c).Reachable s) :
    s.items.length + 1 ≤ c.max + s.producers.length ∧
    s.items.length + s.ready.length + 1 ≤ c.max + s.producers.length := by
  have := inv_softBound c hmax s h
  exact ⟨by omega, this⟩

/-- … and with a single producer the bound is hard. -/
theorem hard_bound_single_producer (c : Cfg) (hmax : 0 < c.max) (s : State α) (h : (Q α c).Reachable s)
    (h1 : s.producers.length ≤ 1) : s.items.length ≤ c.max := by
  have := (soft_bound c hmax s h).1
  omega

/-- A producer only enqueues after having observed `size() < max`, and a producer that has
    observed `size() >= max` cannot enqueue: its only enabled step is the (timed) wait, after
    which it looks at the size again. -/
theorem producer_blocks_when_full (c : Cfg) (hmax : 0 < c.max) (s : State α) (h : (Q α c).Reachable s)
    (t : Tid) (x : α) :
    (s.pc t = .pushReady x → ∃ n, s.sawSize t = some n ∧ n < c.max) ∧
    (s.pc t = .pushMustWait x →
       (∃ n, s.sawSize t = some n ∧ c.max ≤ n) ∧
       (∀ e s', (Q α c).Step s e s' → e.tid = t → ∃ n, e = .pushFullWaited t n) ∧
       ∀ s', (Q α c).Step s (.pushFullWaited t s.items.length) s' → s'.pc t = .pushPolling x) := by
  have hs := inv_sawSize c s h hmax t x
  refine ⟨hs.1, fun hpc => ⟨hs.2 hpc, ?_, ?_⟩⟩
  · intro e s' hst htid
    simp only [Machine.Step, machine] at hst
    cases e <;> simp only [Ev.tid] at htid <;> subst htid <;> simp [step?, hpc] at hst ⊢
  · intro s' hst
    simp only [Machine.Step, machine, step?, hpc] at hst
    simp at hst
    subst hst
    simp

/-! ## wake-ups -/

/-- state after consumer `w` left wait() and took the front element (if any) -/
def wakeState (s : State α) (w : Tid) : State α :=
  take { s with pc := setPc s.pc w .idle, waiters := s.waiters.remove w } w

/-- No lost wake-up (holds with and without spurious wake-ups): either every queued element
    is matched by a consumer that has been notified and not yet run, or nobody is waiting
    un-notified. -/
theorem no_lost_wakeup (c : Cfg) (s : State α) (h : (Q α c).Reachable s) :
    s.items.length ≤ s.waiters.numNotified ∨ s.waiters.numUnnotified = 0 :=
  inv_wakeup c s h

/-- Consequence, in the adversarial model WITHOUT spurious wake-ups: whenever a consumer
    is blocked in wait_and_pop although its predicate `!m_in_use || !empty` holds, some step
    that makes progress for a blocked consumer is enabled (a notified consumer can run, or a
    shutdown() that has set the flag is about to notify_all). -/
theorem blocked_consumer_can_progress (c : Cfg) (s : State α) (h : (Q α c).Reachable s)
    (t : Tid) (ht : s.pc t = .popWaiting) (hp : pred s = true) :
    (∃ w s', (Q α c).Step s (.popWake w s.items.length s.items.head?) s') ∨
    (∃ u s', (Q α c).Step s (.sdLocked u) s') := by
  have hw := inv_waiters c s h
  have hwake : ∀ w, (w, true) ∈ s.waiters → ∃ s', (Q α c).Step s (.popWake w s.items.length s.items.head?) s' := by
    intro w hwm
    have hk : w ∈ s.waiters.keys := List.mem_map.mpr ⟨_, hwm, rfl⟩
    have hpc := (hw.1 w).mp hk
    refine ⟨wakeState s w, ?_⟩
    simp only [Machine.Step, machine, step?, wakeState]
    rw [if_pos]
    refine ⟨hpc, ?_, trivial, hp, trivial⟩
    simp [CondVar.canWake, (CondVar.waiting_iff _ _).mpr hk, (CondVar.notified_iff _ _).mpr hwm]
  have hall : s.waiters.numUnnotified = 0 → ∃ s', (Q α c).Step s (.popWake t s.items.length s.items.head?) s' := by
    intro h0
    obtain ⟨a, ha, hat⟩ := List.mem_map.mp ((hw.1 t).mpr ht)
    have := (CondVar.numUnnotified_eq_zero_iff _).mp h0 a ha
    apply hwake t
    rw [← hat, ← this]; exact ha
  by_cases hne : s.items = []
  · -- predicate true and queue empty: not in use any more
    have hin : s.inUse = false := by simpa [pred, hne] using hp
    rcases inv_shutdown c s h hin with ⟨u, hu⟩ | h0
    · right
      exact ⟨u, _, by simp only [Machine.Step, machine, step?]; rw [if_pos hu]⟩
    · left; exact ⟨t, hall h0⟩
  · rcases no_lost_wakeup c s h with h1 | h0
    · have : 0 < s.waiters.numNotified := by
        have : 0 < s.items.length := List.length_pos_iff.mpr hne
        omega
      obtain ⟨w, hwm⟩ := CondVar.exists_notified_of_pos _ this
      left; exact ⟨w, hwake w hwm⟩
    · left; exact ⟨t, hall h0⟩

/-- shutdown() wakes every waiting consumer: once a shutdown() has returned, every consumer
    still inside wait() is notified, its wake-up step is enabled even without spurious
    wake-ups, and that step makes it RETURN (it never waits again); it returns without an
    element unless a producer that had passed the unlocked `m_in_use` test before the flag
    was set enqueued after the drain (then it receives that element). -/
theorem shutdown_wakes_all (c : Cfg) (s : State α) (h : (Q α c).Reachable s) (hd : s.sdDone = true)
    (t : Tid) (ht : s.pc t = .popWaiting) :
    (t, true) ∈ s.waiters ∧ s.inUse = false ∧
    ∃ s', (Q α c).Step s (.popWake t s.items.length s.items.head?) s' ∧ s'.pc t = .idle ∧
      (∀ s'', ¬ (Q α c).Step s (.popRewait t) s'') ∧
      (s.items = [] → s'.popped = s.popped) := by
  have hw := inv_waiters c s h
  obtain ⟨hin, h0⟩ := inv_sdDone c s h hd
  obtain ⟨a, ha, hat⟩ := List.mem_map.mp ((hw.1 t).mpr ht)
  have hb := (CondVar.numUnnotified_eq_zero_iff _).mp h0 a ha
  have hmem : (t, true) ∈ s.waiters := by rw [← hat, ← hb]; exact ha
  have hp : pred s = true := by simp [pred, hin]
  have hk : t ∈ s.waiters.keys := (hw.1 t).mpr ht
  refine ⟨hmem, hin, wakeState s t, ?_, ?_, ?_, ?_⟩
  · simp only [Machine.Step, machine, step?, wakeState]
    rw [if_pos]
    refine ⟨ht, ?_, trivial, hp, trivial⟩
    simp [CondVar.canWake, (CondVar.waiting_iff _ _).mpr hk, (CondVar.notified_iff _ _).mpr hmem]
  · simp [wakeState]
  · intro s'' hst
    simp [Machine.Step, machine, step?, hp] at hst
  · intro he; simp [wakeState, he]

/-! ## no stuck state -/

/-- Every thread that is inside a queue operation, other than a consumer blocked in wait(),
    has an enabled step (producers never block indefinitely: the wait for space is timed). -/
theorem active_thread_enabled (c : Cfg) (s : State α) (t : Tid)
    (h1 : s.pc t ≠ .idle) (h2 : s.pc t ≠ .popWaiting) : ∃ e s', (Q α c).Step s e s' ∧ e.tid = t := by
  cases hpc : s.pc t with
  | idle => exact absurd hpc h1
  | popWaiting => exact absurd hpc h2
  | pushEntered x =>
    refine ⟨.pushTest t s.inUse, ?_⟩
    simp only [Machine.Step, machine, step?, hpc, Ev.tid]
    cases s.inUse <;> simp <;> split <;> simp
  | pushPolling x =>
    refine ⟨.pushSize t s.items.length, ?_⟩
    simp only [Machine.Step, machine, step?, hpc, Ev.tid]
    simp; split <;> simp
  | pushMustWait x =>
    refine ⟨.pushFullWaited t s.items.length, ?_⟩
    simp [Machine.Step, machine, step?, hpc, Ev.tid]
  | pushReady x =>
    rcases CondVar.all_or_unnotified s.waiters with hall | ⟨w, hw⟩
    · refine ⟨.pushLocked t (s.items.length + 1) none, ?_⟩
      simp [Machine.Step, machine, step?, hpc, Ev.tid, CondVar.notifyOneOk, hall]
    · refine ⟨.pushLocked t (s.items.length + 1) (some w), ?_⟩
      simp [Machine.Step, machine, step?, hpc, Ev.tid, CondVar.notifyOneOk, hw]
  | sdEntered =>
    refine ⟨.sdFlag t, ?_⟩
    simp [Machine.Step, machine, step?, hpc, Ev.tid]
  | sdFlagged =>
    refine ⟨.sdLocked t, ?_⟩
    simp [Machine.Step, machine, step?, hpc, Ev.tid]

/-- No stuck state, for the adversarial model without spurious wake-ups too: in every
    reachable state in which some thread is inside a queue operation, some step is enabled —
    unless every such thread is a consumer legitimately waiting on an EMPTY queue that is
    still IN USE (then only the client can help: push or shutdown, both enabled for any idle
    thread). -/
theorem no_stuck_state (c : Cfg) (s : State α) (h : (Q α c).Reachable s) (t : Tid) (ht : s.pc t ≠ .idle) :
    (Q α c).Enabled s ∨
    (s.items = [] ∧ s.inUse = true ∧ ∀ u, s.pc u = .idle ∨ s.pc u = .popWaiting) := by
  by_cases hex : ∃ u, s.pc u ≠ .idle ∧ s.pc u ≠ .popWaiting
  · obtain ⟨u, hu1, hu2⟩ := hex
    obtain ⟨e, s', hst, _⟩ := active_thread_enabled c s u hu1 hu2
    exact .inl ⟨e, s', hst⟩
  · have hall : ∀ u, s.pc u = .idle ∨ s.pc u = .popWaiting := by
      intro u
      by_cases h1 : s.pc u = .idle
      · exact .inl h1
      · by_cases h2 : s.pc u = .popWaiting
        · exact .inr h2
        · exact absurd ⟨u, h1, h2⟩ hex
    have htw : s.pc t = .popWaiting := (hall t).resolve_left ht
    by_cases hp : pred s = true
    · rcases blocked_consumer_can_progress c s h t htw hp with ⟨w, s', hst⟩ | ⟨u, s', hst⟩
      · exact .inl ⟨_, s', hst⟩
      · exact .inl ⟨_, s', hst⟩
    · have := pred_false (by simpa using hp : pred s = false)
      exact .inr ⟨this.2, this.1, hall⟩

/-! ## non-vacuity: concrete reachable states (evaluated by the kernel) -/

/-- run a trace from the initial state -/
def runTrace (c : Cfg) (tr : List (Ev Nat)) : Option (State Nat) :=
  tr.foldlM (step? c) (init Nat)

theorem foldlM_reachable (c : Cfg) (tr : List (Ev Nat)) (s0 s : State Nat) (h0 : (Q Nat c).Reachable s0)
    (h : tr.foldlM (step? c) s0 = some s) : (Q Nat c).Reachable s := by
  induction tr generalizing s0 with
  | nil => simp at h; exact h ▸ h0
  | cons e rest ih =>
    simp only [List.foldlM_cons, Option.bind_eq_bind, Option.bind_eq_some_iff] at h
    obtain ⟨s1, h1, h2⟩ := h
    exact ih s1 (.step h0 h1) h2

theorem trace_witness (c : Cfg) (tr : List (Ev Nat)) (P : State Nat → Bool)
    (h : (runTrace c tr).map P = some true) : ∃ s, (Q Nat c).Reachable s ∧ P s = true := by
  simp only [Option.map_eq_some_iff] at h
  obtain ⟨s, hs, hp⟩ := h
  exact ⟨s, foldlM_reachable c tr _ s .init hs, hp⟩

/-- two producers, bound 1: both pass the bound check, the queue holds 2 = max + P - 1 -/
def overshoot : List (Ev Nat) :=
  [.pushEnter 1 10, .pushEnter 2 20, .pushTest 1 true, .pushTest 2 true, .pushSize 1 0, .pushSize 2 0,
   .pushLocked 1 1 none, .pushLocked 2 2 none]

example : ∃ s, (Q Nat ⟨1, false⟩).Reachable s ∧
    (decide (s.items.length = 2) && decide (s.producers.length = 2)) = true :=
  trace_witness _ overshoot _ (by decide)

/-- a consumer blocks, shutdown() runs: hypotheses of `shutdown_wakes_all` are satisfiable -/
def blockedThenShutdown : List (Ev Nat) :=
  [.popBlock 7, .sdEnter 9, .sdFlag 9, .sdLocked 9]

example : ∃ s, (Q Nat ⟨0, false⟩).Reachable s ∧
    (s.sdDone && decide (s.pc 7 = .popWaiting)) = true :=
  trace_witness _ blockedThenShutdown _ (by decide)

/-- FINDING (liveness of push() after shutdown(), outside the statement of C19): two producers
    pass the unlocked `m_in_use` test on a queue with bound 1, shutdown() runs and every
    consumer has gone; the first producer enqueues, the second one sees `size() >= max` for
    ever — the loop `while (size() >= m_max_size)` never looks at `m_in_use` again, so push()
    only returns if somebody keeps popping from a queue that is shut down. -/
def pushSpins : List (Ev Nat) :=
  [.pushEnter 1 10, .pushEnter 2 20, .pushTest 1 true, .pushTest 2 true,
   .sdEnter 9, .sdFlag 9, .sdLocked 9,
   .pushSize 1 0, .pushLocked 1 1 none, .pushSize 2 1, .pushFullWaited 2 1, .pushSize 2 1]

example : ∃ s, (Q Nat ⟨1, false⟩).Reachable s ∧
    (!s.inUse && s.sdDone && decide (s.pc 2 = .pushMustWait 20) && decide (s.items.length = 1)
      && decide (s.pc 1 = .idle) && decide (s.pc 9 = .idle)) = true :=
  trace_witness _ pushSpins _ (by decide)

/-! ## the pool -/

open Osmium.PoolSM in
/-- The work queue of ANY pool run (any number of workers and submitters, any interleaving) is
    a run of the queue machine, so everything above holds for `m_work_queue`: it is FIFO, loses
    and duplicates nothing, respects the soft bound and never loses a wake-up. -/
theorem pool_work_queue_fifo (c : PoolSM.Cfg) (s : PoolSM.State) (h : (PoolSM.machine c).Reachable s) :
    (Q PoolSM.Task c.qc).Reachable s.q ∧
    s.q.pushed = s.q.removed ++ s.q.items ∧
    (s.q.items.length ≤ s.q.waiters.numNotified ∨ s.q.waiters.numUnnotified = 0) := by
  have hq := PoolSM.reachable_q c s h
  exact ⟨hq, (queue_conservation c.qc s.q hq).1, no_lost_wakeup c.qc s.q hq⟩

/-- Exactly once (any number of workers and submitters, any interleaving, any queue bound,
    with or without spurious wake-ups).  In EVERY reachable state of the pool:
    (1) submitted job ids are distinct;
    (2) every submitted job is at exactly one of four places — carried through push() by a
        submitter, in the work queue, in a worker's hands (returned by wait_and_pop, not yet
        executed), or done — and its run counter is 0 and its future not ready at the first
        three, 1 with the future holding the job's outcome (value or exception) when done;
    (3) every place holds it at most once: one submitter, one queue slot, one worker;
    (4) nothing else is anywhere: whatever is in push(), queued or in a hand was submitted, and
        ids that were not submitted never run;
    (5) no job ever runs twice, and `future.get()` can only deliver the outcome of the job,
        after it ran;
    (6) when the pool has terminated (destructor returned; the constructor guarantees at least
        one worker) every submitted job has run exactly once and `future.get()` returns its
        outcome. -/
theorem pool_exactly_once (c : PoolSM.Cfg) (s : PoolSM.State) (h : (PoolSM.machine c).Reachable s) :
    (s.submitted.map (·.1)).Nodup ∧
    (∀ id out, (id, out) ∈ s.submitted →
      (PoolSM.InPush s id out ∧ ¬ PoolSM.InQueue s id out ∧ ¬ PoolSM.InHands s id out ∧ PoolSM.NotRun s id) ∨
      (¬ PoolSM.InPush s id out ∧ PoolSM.InQueue s id out ∧ ¬ PoolSM.InHands s id out ∧ PoolSM.NotRun s id) ∨
      (¬ PoolSM.InPush s id out ∧ ¬ PoolSM.InQueue s id out ∧ PoolSM.InHands s id out ∧ PoolSM.NotRun s id) ∨
      (¬ PoolSM.InPush s id out ∧ ¬ PoolSM.InQueue s id out ∧ ¬ PoolSM.InHands s id out ∧
        PoolSM.RanOnce s id out)) ∧
    ((∀ id o1 o2 t1 t2, (t1, PoolSM.Task.job id o1) ∈ inflight s.q t1 →
        (t2, PoolSM.Task.job id o2) ∈ inflight s.q t2 → t1 = t2 ∧ o1 = o2) ∧
     (s.q.items.filterMap PoolSM.jid).Nodup ∧
     (∀ id o1 o2 w1 w2, PoolSM.Holds s.wpc w1 id o1 → PoolSM.Holds s.wpc w2 id o2 → w1 = w2 ∧ o1 = o2)) ∧
    ((∀ id out, PoolSM.InPush s id out ∨ PoolSM.InQueue s id out ∨ PoolSM.InHands s id out →
        (id, out) ∈ s.submitted) ∧
     (∀ id, id ∉ s.submitted.map (·.1) → PoolSM.NotRun s id)) ∧
    ((∀ id, s.runCount id ≤ 1) ∧
     (∀ id out, (id, out) ∈ s.submitted → ∀ t o s', (PoolSM.machine c).Step s (.futureGet t id o) s' →
        o = out ∧ s.runCount id = 1)) ∧
    (s.dtor = .done → c.workers ≠ [] → ∀ id out, (id, out) ∈ s.submitted →
      s.runCount id = 1 ∧ s.future id = some out ∧ ∀ t, (PoolSM.machine c).Step s (.futureGet t id out) s) := by
  have hplace := fun id out hs => PoolSM.job_place c s h (id := id) (out := out) hs
  have hcount : ∀ id out, (id, out) ∈ s.submitted → s.runCount id ≤ 1 ∧
      (∀ o, s.future id = some o → o = out ∧ s.runCount id = 1) := by
    intro id out hs
    rcases hplace id out hs with ⟨_, _, _, hn⟩ | ⟨_, _, _, hn⟩ | ⟨_, _, _, hn⟩ | ⟨_, _, _, hr⟩
    · exact ⟨by rw [hn.1]; omega, fun o ho => by rw [hn.2] at ho; cases ho⟩
    · exact ⟨by rw [hn.1]; omega, fun o ho => by rw [hn.2] at ho; cases ho⟩
    · exact ⟨by rw [hn.1]; omega, fun o ho => by rw [hn.2] at ho; cases ho⟩
    · refine ⟨by rw [hr.1]; omega, fun o ho => ?_⟩
      rw [hr.2] at ho
      exact ⟨(Option.some.inj ho).symm, hr.1⟩
  refine ⟨(PoolSM.inv_submitted c s h).2, hplace, ⟨?_, PoolSM.items_ids_nodup c s h, ?_⟩,
    ⟨fun id out => PoolSM.located_submitted c s h, fun id => PoolSM.unsubmitted_not_run c s h⟩,
    ⟨?_, ?_⟩, ?_⟩
  · intro id o1 o2 t1 t2 h1 h2
    exact PoolSM.inPush_unique c s h h1 h2
  · intro id o1 o2 w1 w2 h1 h2
    exact PoolSM.inHands_unique c s h h1 h2
  · intro id
    by_cases hs : id ∈ s.submitted.map (·.1)
    · obtain ⟨⟨id', out⟩, hm, rfl⟩ := List.mem_map.mp hs
      exact (hcount _ out hm).1
    · rw [(PoolSM.unsubmitted_not_run c s h hs).1]; omega
  · intro id out hs t o s' hst
    simp only [Machine.Step, PoolSM.machine, PoolSM.step?] at hst
    split at hst
    · rename_i hf; exact (hcount id out hs).2 o hf
    · cases hst
  · intro hd hw id out hs
    have hr := PoolSM.done_all_ran c s h hd hw hs
    refine ⟨hr.1, hr.2, fun t => ?_⟩
    simp [Machine.Step, PoolSM.machine, PoolSM.step?, hr.2]

/-- The destructor joins all workers only after every queued task has run (any number of
    workers and submitters, any interleaving).  In EVERY reachable state of the pool:
    (1) FIFO shape of the work queue over all interleavings: the enqueue order (lock order)
        is "all jobs, then all stop tasks";
    (2) stop tasks are handed to push() only by the destructor thread — none before the
        destructor started, `k` while it is `pushing k`, N = number of workers afterwards;
    (3) once the destructor has started every submit() has enqueued its job (domain: no submit
        concurrent with the destructor);
    (4) a worker's thread function only returns after the worker popped a stop task from the
        work queue; the destructor only joins workers that have returned;
    (5) when the destructor has returned: all N workers have been joined after exiting, each
        after popping a stop task; nobody is inside push(); and (at least one worker) the work
        queue is EMPTY and everything that was ever enqueued was handed to a worker in enqueue
        order — all jobs before all stop tasks —, so every job queued before the destruction
        was popped before the last stop task and has run exactly once: no queued task is lost. -/
theorem pool_destructor_joins_after_queued_tasks (c : PoolSM.Cfg) (s : PoolSM.State)
    (h : (PoolSM.machine c).Reachable s) :
    (s.q.pushed = s.q.pushed.filter (fun x => !PoolSM.isStop x) ++ s.q.pushed.filter PoolSM.isStop) ∧
    ((∀ x ∈ s.q.called, PoolSM.isStop x = true → x = (s.dtorTid, .stop)) ∧
     (s.q.called.filter PoolSM.isStop).length = PoolSM.dtorK c s.dtor ∧
     PoolSM.dtorK c s.dtor ≤ c.workers.length ∧
     (s.dtor = .notStarted → ∀ x ∈ s.q.called, PoolSM.isStop x = false)) ∧
    (s.dtor ≠ .notStarted → ∀ id out, ¬ PoolSM.InPush s id out) ∧
    ((∀ w ∈ s.exitedL, s.wpc w = .exited ∧ ∃ t, (w, (t, PoolSM.Task.stop)) ∈ s.q.popped) ∧
     (∀ w ∈ s.joined, w ∈ s.exitedL ∧ w ∈ c.workers) ∧ s.joined.Nodup) ∧
    (s.dtor = .done →
      (∀ w ∈ c.workers, w ∈ s.joined ∧ s.wpc w = .exited ∧ ∃ t, (w, (t, PoolSM.Task.stop)) ∈ s.q.popped) ∧
      (∀ t, inflight s.q t = []) ∧
      (c.workers ≠ [] →
        s.q.items = [] ∧ s.q.popped.map (fun p => p.2) = s.q.pushed ∧
        ∀ id out, (id, out) ∈ s.submitted →
          (∃ w t, (w, (t, PoolSM.Task.job id out)) ∈ s.q.popped) ∧ PoolSM.RanOnce s id out)) := by
  have hq := PoolSM.reachable_q c s h
  have hu := PoolSM.inv_inUse c s h
  obtain ⟨s1, s2, s3⟩ := PoolSM.inv_stops_called c s h
  obtain ⟨e1, _⟩ := PoolSM.inv_exitedL c s h
  obtain ⟨j1, j2, _⟩ := PoolSM.inv_joined c s h
  have hstop : ∀ w, s.wpc w = .exited → ∃ t, (w, (t, PoolSM.Task.stop)) ∈ s.q.popped :=
    fun w hw => PoolSM.inv_stop_link c s h w (.inr (.inr hw))
  refine ⟨PoolSM.inv_pushed_shape c s h, ⟨s3, s1, s2, fun hd => PoolSM.no_stop_before_dtor c s h hd⟩, ?_,
    ⟨fun w hw => ⟨(e1 w).mp hw, hstop w ((e1 w).mp hw)⟩, j2, j1⟩, ?_⟩
  · rintro hd id out ⟨t, ht⟩
    have := PoolSM.inv_noJobInflight c s h hd t _ ht
    simp at this
  · intro hd
    have hnofl := PoolSM.inv_noInflight_joining c s h (.inr hd)
    refine ⟨fun w hw => ?_, hnofl, fun hw => ?_⟩
    · obtain ⟨a, b⟩ := PoolSM.done_all_exited c s h hd w hw
      exact ⟨a, b, hstop w b⟩
    · have hempty := PoolSM.done_queue_empty c s h hd hw
      have hpe : s.q.popped.map (fun p => p.2) = s.q.pushed := by
        rw [pushed_eq c.qc s.q hq hu, hempty, List.append_nil]
      refine ⟨hempty, hpe, fun id out hs => ⟨?_, PoolSM.done_all_ran c s h hd hw hs⟩⟩
      obtain ⟨t, ht⟩ := PoolSM.submitted_called c s h hs
      rcases called_cases c.qc s.q hq hu ht with hp | hf
      · rw [← hpe] at hp
        obtain ⟨⟨w, x⟩, hm, hx⟩ := List.mem_map.mp hp
        simp only at hx
        subst hx
        exact ⟨w, t, hm⟩
      · rw [hnofl] at hf; cases hf

/-- Destroying the pool joins all workers — as a PROGRESS statement (threads distinct).  From
    `dtorStart` on, in every reachable state and for every interleaving:
    (1) every fair step of ANY thread strictly decreases the natural-number measure
        `PoolSM.rank` (fair = not a time-out of push()'s timed wait on a still-full queue, not
        a spurious wake-up of a consumer, not a client reading a future — see `PoolSM.Fair`);
    (2) as long as the destructor has not returned some fair step is enabled (no stuck state,
        also for the adversarial condition variable without spurious wake-ups);
    (3) hence every run of fair steps has at most `rank` steps, and a run that cannot be
        extended by a fair step ends with the destructor returned — then, by
        `pool_destructor_joins_after_queued_tasks`, all workers are joined and every queued
        task has run. -/
theorem pool_destructor_terminates (c : PoolSM.Cfg) (hnd : c.workers.Nodup) (s : PoolSM.State)
    (h : (PoolSM.machine c).Reachable s) (hd : s.dtor ≠ .notStarted) :
    (∀ e s', (PoolSM.machine c).Step s e s' → PoolSM.Fair c s e → PoolSM.rank c s' < PoolSM.rank c s) ∧
    (s.dtor ≠ .done → ∃ e s', (PoolSM.machine c).Step s e s' ∧ PoolSM.Fair c s e) ∧
    (∀ es s', PoolSM.FairRun c s es s' → es.length ≤ PoolSM.rank c s ∧
      ((¬ ∃ e s'', (PoolSM.machine c).Step s' e s'' ∧ PoolSM.Fair c s' e) → s'.dtor = .done)) :=
  ⟨fun e s' hst hf => PoolSM.dtor_rank_decreases c hnd s s' e h hd hst hf,
   fun hdone => PoolSM.dtor_phase_fair_enabled c hnd s h hd hdone,
   fun es s' hr => ⟨PoolSM.fair_run_length_le c hnd s s' es h hd hr,
     fun hmax => (PoolSM.dtor_phase_terminates c hnd s s' es h hd hr hmax).1⟩⟩

/-- Step-local complement of `pool_exactly_once`: running a job is only possible for the worker
    that holds it; the step executes it once (counter + 1), stores its outcome in the shared
    state of its future, touches no other job, and the worker gives the job up (back to the
    loop); `future.get()` can then only observe that outcome. -/
theorem pool_task_run_step (c : PoolSM.Cfg) (s s' : PoolSM.State) (w : Tid) (id : Nat)
    (h : (PoolSM.machine c).Step s (.taskRun w id) s') :
    ∃ out, s.wpc w = .running id out ∧ s'.runCount id = s.runCount id + 1 ∧
      s'.future id = some out ∧ s'.wpc w = .loop ∧
      (∀ j, j ≠ id → s'.runCount j = s.runCount j ∧ s'.future j = s.future j) ∧
      (∀ t o s'', (PoolSM.machine c).Step s' (.futureGet t id o) s'' → o = out) := by
  simp only [Machine.Step, PoolSM.machine, PoolSM.step?] at h
  split at h
  · rename_i id' out hw
    split at h
    · rename_i hid
      subst hid
      simp only [Option.some.injEq] at h
      subst h
      refine ⟨out, hw, by simp, by simp, by simp, fun j hj => by simp [setPc_apply, hj], ?_⟩
      intro t o s'' hst
      simp [Machine.Step, PoolSM.machine, PoolSM.step?] at hst
      exact hst.1.symm
    · simp at h
  · simp at h

/-- Step-local complement of `pool_destructor_joins_after_queued_tasks` (the guards of the
    destructor-side steps): the destructor can only join a worker whose thread function has
    returned, only finishes after one join per worker, a worker only returns after receiving a
    stop task, stop tasks are only pushed by the destructor after it started, which requires
    that no submit() is in progress. -/
theorem pool_destructor_step_guards (c : PoolSM.Cfg) (s s' : PoolSM.State) (d w : Tid) :
    ((PoolSM.machine c).Step s (.dtorJoin d w) s' → w ∈ s.exitedL ∧ w ∈ c.workers ∧ w ∉ s.joined) ∧
    ((PoolSM.machine c).Step s (.dtorDone d) s' → s.joined.length = c.workers.length) ∧
    ((PoolSM.machine c).Step s (.workerExit w) s' → s.wpc w = .stopping) ∧
    ((PoolSM.machine c).Step s (.workerGot w true) s' → s'.wpc w = .stopping → s.wpc w = .got (some .stop)) ∧
    (∀ t, (PoolSM.machine c).Step s (.q (.pushEnter t .stop)) s' → ∃ k, s.dtor = .pushing k ∧ k < c.workers.length) ∧
    ((PoolSM.machine c).Step s (.dtorStart d) s' → PoolSM.noPushInProgress s = true) := by
  refine ⟨?_, ?_, ?_, ?_, ?_, ?_⟩
  · intro h
    simp [Machine.Step, PoolSM.machine, PoolSM.step?] at h
    exact ⟨h.1.2.2.2.1, h.1.2.2.1, h.1.2.2.2.2⟩
  · intro h
    simp [Machine.Step, PoolSM.machine, PoolSM.step?] at h
    exact h.1.2.2
  · intro h
    simp [Machine.Step, PoolSM.machine, PoolSM.step?] at h
    exact h.1
  · intro h hs
    simp only [Machine.Step, PoolSM.machine, PoolSM.step?] at h
    split at h
    · rename_i r hr
      split at h
      · simp only [Option.some.injEq] at h
        subst h
        simp only [setPc_same] at hs
        rw [hr]
        cases r with
        | none => simp [PoolSM.afterGot] at hs
        | some tk => cases tk <;> simp [PoolSM.afterGot] at hs ⊢
      · simp at h
    · simp at h
  · intro t h
    simp only [Machine.Step, PoolSM.machine, PoolSM.step?] at h
    split at h
    · rename_i k hk
      split at h
      · rename_i hg
        exact ⟨k, hk, hg.2⟩
      · simp at h
    · simp at h
  · intro h
    simp [Machine.Step, PoolSM.machine, PoolSM.step?] at h
    exact h.1.2.2


/-! ## the outcome of a task: value, exception derived from std::exception, any other type -/

/-- Result OR EXCEPTION arrives in the future — for every kind of outcome (`PoolSM.Outcome`:
    a value, a thrown object derived from std::exception, a thrown object of any other type),
    any number of workers and submitters, any interleaving.  In every reachable state:
    (1) the future of every submitted job is either not ready with the job not run, or holds
        EXACTLY the job's own outcome — same kind, same class/type, same payload — with the job
        run once; `future.get()` is then enabled with that outcome and with no other;
    (2) a `taskRun` step executes a submitted job that had not run, and transfers its outcome
        into the job's future whatever its kind;
    (3) no other future is affected: any step that changes the shared state of job `j`'s
        future is `taskRun` of job `j` itself;
    (4) the wrapper is what makes this true: the pool with the task wrapper explicit
        (`PoolSM.xmachine`) and `std::packaged_task` as the wrapper has exactly the runs of the
        pool machine and never reaches `terminated`; for ANY wrapper a `taskRun` step
        terminates the process iff the job throws an object the wrapper's handler does not
        catch, and otherwise the future holds the outcome and the worker is back in its loop. -/
theorem pool_outcome_in_future (c : PoolSM.Cfg) (s : PoolSM.State) (h : (PoolSM.machine c).Reachable s) :
    (∀ id out, (id, out) ∈ s.submitted →
      ((s.runCount id = 0 ∧ s.future id = none) ∨ (s.runCount id = 1 ∧ s.future id = some out)) ∧
      (∀ t o s', (PoolSM.machine c).Step s (.futureGet t id o) s' → o = out) ∧
      (s.runCount id = 1 → ∀ t, (PoolSM.machine c).Step s (.futureGet t id out) s)) ∧
    (∀ w id s', (PoolSM.machine c).Step s (.taskRun w id) s' →
      ∃ out, (id, out) ∈ s.submitted ∧ s.wpc w = .running id out ∧ s.runCount id = 0 ∧ s.future id = none ∧
        s'.runCount id = 1 ∧ s'.future id = some out) ∧
    (∀ e s', (PoolSM.machine c).Step s e s' → ∀ j, s'.future j ≠ s.future j → ∃ w, e = .taskRun w j) ∧
    ((∀ x, (PoolSM.xmachine PoolSM.Wrapper.packagedTask c).Reachable x →
        x.terminated = none ∧ (PoolSM.machine c).Reachable x.base) ∧
     (PoolSM.xmachine PoolSM.Wrapper.packagedTask c).Reachable ⟨s, none⟩ ∧
     (∀ wr x x' w id, PoolSM.xstep? wr c x (.taskRun w id) = some x' →
        ∃ out, x.base.wpc w = .running id out ∧
          (x'.terminated.isSome = true ↔ (out.isException = true ∧ wr.catches out = false)) ∧
          (x'.terminated = none → x'.base.future id = some out ∧ x'.base.wpc w = .loop))) := by
  have hplace := fun id out hs => PoolSM.job_place c s h (id := id) (out := out) hs
  have hstate : ∀ id out, (id, out) ∈ s.submitted →
      (s.runCount id = 0 ∧ s.future id = none) ∨ (s.runCount id = 1 ∧ s.future id = some out) := by
    intro id out hs
    rcases hplace id out hs with ⟨_, _, _, hn⟩ | ⟨_, _, _, hn⟩ | ⟨_, _, _, hn⟩ | ⟨_, _, _, hr⟩
    · exact .inl hn
    · exact .inl hn
    · exact .inl hn
    · exact .inr hr
  refine ⟨fun id out hs => ⟨hstate id out hs, ?_, ?_⟩, ?_, ?_, ?_⟩
  · intro t o s' hst
    simp only [Machine.Step, PoolSM.machine, PoolSM.step?] at hst
    split at hst
    · rename_i hf
      rcases hstate id out hs with ⟨_, h0⟩ | ⟨_, h1⟩
      · rw [h0] at hf; cases hf
      · rw [h1] at hf; exact (Option.some.inj hf).symm
    · cases hst
  · intro h1 t
    rcases hstate id out hs with ⟨h0, _⟩ | ⟨_, hf⟩
    · omega
    · simp [Machine.Step, PoolSM.machine, PoolSM.step?, hf]
  · intro w id s' hst
    obtain ⟨out, hw, hrc, hfut, _, _, _⟩ := pool_task_run_step c s s' w id hst
    have hh : PoolSM.InHands s id out := ⟨w, .inr hw⟩
    have hs := PoolSM.located_submitted c s h (.inr (.inr hh))
    rcases hplace id out hs with ⟨_, _, hn, _⟩ | ⟨_, _, hn, _⟩ | ⟨_, _, _, hn⟩ | ⟨_, _, hn, _⟩
    · exact absurd hh hn
    · exact absurd hh hn
    · exact ⟨out, hs, hw, hn.1, hn.2, by rw [hrc, hn.1], hfut⟩
    · exact absurd hh hn
  · intro e s' hst j hj
    exact PoolSM.future_changed_by_own_run c s s' e hst j hj
  · exact ⟨fun x hx => PoolSM.xreachable_packagedTask c x hx, PoolSM.reachable_xpackagedTask c s h,
      fun wr x x' w id hx => PoolSM.xstep_terminates_iff wr c x x' w id hx⟩

/-- A throwing task never removes a worker (any outcome kind, any interleaving, any pool size):
    (1) a `taskRun` step — whatever the job returns or throws — puts the running worker back
        into its loop (`wait_and_pop` for the next task) and changes no other worker, no exit
        list, no join list, not the destructor, not the queue: the list of live workers is
        the same before and after;
    (2) until the destructor starts ALL workers of the pool are live: none has exited, none is
        about to exit, none holds a stop task — `liveWorkers = workers`, so their number is the
        pool size N whatever tasks have run;
    (3) afterwards a worker only ever leaves through a stop task popped from the work queue
        (one per worker, pushed by the destructor) — never through a task. -/
theorem worker_survives_task_exception (c : PoolSM.Cfg) (s : PoolSM.State)
    (h : (PoolSM.machine c).Reachable s) :
    (∀ w id s', (PoolSM.machine c).Step s (.taskRun w id) s' →
      s'.wpc w = .loop ∧ (∀ u, u ≠ w → s'.wpc u = s.wpc u) ∧ s'.exitedL = s.exitedL ∧
      s'.joined = s.joined ∧ s'.dtor = s.dtor ∧ s'.q = s.q ∧
      PoolSM.liveWorkers c s' = PoolSM.liveWorkers c s) ∧
    (s.dtor = .notStarted →
      PoolSM.liveWorkers c s = c.workers ∧ s.exitedL = [] ∧
      ∀ w, s.wpc w ≠ .got (some .stop) ∧ s.wpc w ≠ .stopping ∧ s.wpc w ≠ .exited) ∧
    (∀ w, (s.wpc w = .stopping ∨ s.wpc w = .exited) → ∃ t, (w, (t, PoolSM.Task.stop)) ∈ s.q.popped) := by
  refine ⟨fun w id s' hst => PoolSM.taskRun_workers c s s' w id hst, fun hd => ⟨?_, ?_, ?_⟩, ?_⟩
  · exact PoolSM.liveWorkers_before_dtor c s h hd
  · cases he : s.exitedL with
    | nil => rfl
    | cons w rest =>
      have : w ∈ s.exitedL := by rw [he]; exact List.mem_cons_self
      exact absurd (((PoolSM.inv_exitedL c s h).1 w).mp this) (PoolSM.all_workers_live_before_dtor c s h hd w).2.2
  · exact PoolSM.all_workers_live_before_dtor c s h hd
  · intro w hw
    exact PoolSM.inv_stop_link c s h w (.inr hw)

/-! ## non-vacuity for the pool: a complete life of a pool (evaluated by the kernel) -/

/-- run a pool trace from the initial state -/
def runPool (c : PoolSM.Cfg) (tr : List PoolSM.Ev) : Option PoolSM.State :=
  tr.foldlM (PoolSM.step? c) PoolSM.init

theorem pool_foldlM_reachable (c : PoolSM.Cfg) (tr : List PoolSM.Ev) (s0 s : PoolSM.State)
    (h0 : (PoolSM.machine c).Reachable s0) (h : tr.foldlM (PoolSM.step? c) s0 = some s) :
    (PoolSM.machine c).Reachable s := by
  induction tr generalizing s0 with
  | nil => simp at h; exact h ▸ h0
  | cons e rest ih =>
    simp only [List.foldlM_cons, Option.bind_eq_bind, Option.bind_eq_some_iff] at h
    obtain ⟨s1, h1, h2⟩ := h
    exact ih s1 (.step h0 h1) h2

theorem pool_trace_witness (c : PoolSM.Cfg) (tr : List PoolSM.Ev) (P : PoolSM.State → Bool)
    (h : (runPool c tr).map P = some true) : ∃ s, (PoolSM.machine c).Reachable s ∧ P s = true := by
  simp only [Option.map_eq_some_iff] at h
  obtain ⟨s, hs, hp⟩ := h
  exact ⟨s, pool_foldlM_reachable c tr _ s .init hs, hp⟩

/-- two workers (1, 2), submitter 5, destructor thread 9, bound 1: two jobs (a value and an
    exception) are submitted and run, worker 2 blocks on the empty queue and is woken by a stop
    task, the destructor pushes two stop tasks (waiting once for space), joins and returns -/
def poolLife : List PoolSM.Ev :=
  [.q (.popBlock 2),
   .q (.pushEnter 5 (.job 7 (.value 42))), .q (.pushTest 5 true), .q (.pushSize 5 0),
   .q (.pushLocked 5 1 (some 2)),
   .q (.popNow 1 1 (some (5, .job 7 (.value 42)))), .q (.popRewait 2), .workerGot 1 true,
   .q (.pushEnter 5 (.job 8 (.stdExc 1 3))), .q (.pushTest 5 true), .q (.pushSize 5 0),
   .q (.pushLocked 5 1 (some 2)),
   .taskRun 1 7, .futureGet 5 7 (.value 42),
   .q (.popWake 2 1 (some (5, .job 8 (.stdExc 1 3)))), .workerGot 2 true,
   .dtorStart 9,
   .q (.pushEnter 9 .stop), .q (.pushTest 9 true), .q (.pushSize 9 0), .q (.pushLocked 9 1 none),
   .q (.pushEnter 9 .stop), .q (.pushTest 9 true), .q (.pushSize 9 1), .q (.pushFullWaited 9 1),
   .q (.popNow 1 1 (some (9, .stop))), .q (.pushSize 9 0), .q (.pushLocked 9 1 none),
   .dtorPushed 9,
   .taskRun 2 8, .q (.popNow 2 1 (some (9, .stop))), .workerGot 1 true, .workerGot 2 true,
   .workerExit 2, .workerExit 1, .dtorJoin 9 1, .dtorJoin 9 2, .dtorDone 9,
   .futureGet 5 8 (.stdExc 1 3)]

/-- the hypotheses of the termination clauses (`s.dtor = .done`, `c.workers ≠ []`, a submitted
    job) are satisfiable -/
example : ∃ s, (PoolSM.machine ⟨[1, 2], ⟨1, false⟩⟩).Reachable s ∧
    (decide (s.dtor = .done) && decide (s.submitted = [(7, .value 42), (8, .stdExc 1 3)])
      && decide (s.runCount 7 = 1) && decide (s.runCount 8 = 1)
      && decide (s.future 8 = some (.stdExc 1 3)) && decide (s.q.items = [])) = true :=
  pool_trace_witness _ poolLife _ (by decide)

/-- the hypotheses of `pool_destructor_terminates` (distinct worker threads, destructor started,
    not yet returned) are satisfiable: the state right after `dtorStart`, one worker holding a job -/
example : [1, 2].Nodup ∧ ∃ s, (PoolSM.machine ⟨[1, 2], ⟨1, false⟩⟩).Reachable s ∧
    (decide (s.dtor = .pushing 0) && decide (s.wpc 2 = .running 8 (.stdExc 1 3))) = true :=
  ⟨by decide, pool_trace_witness _ (poolLife.take 17) _ (by decide)⟩

/-- a pool life with one task of every outcome kind: a value (job 1), an exception derived from
    std::exception (job 2), exceptions of other types (jobs 3 and 4: say an `int` and a struct),
    run by ONE worker one after the other — the worker survives all of them — then destroyed -/
def poolKinds : List PoolSM.Ev :=
  let sub (id : Nat) (o : PoolSM.Outcome) : List PoolSM.Ev :=
    [.q (.pushEnter 5 (.job id o)), .q (.pushTest 5 true), .q (.pushLocked 5 1 none),
     .q (.popNow 1 1 (some (5, .job id o))), .workerGot 1 true, .taskRun 1 id]
  sub 1 (.value 42) ++ sub 2 (.stdExc 0 7) ++ sub 3 (.otherExc 0 9) ++ sub 4 (.otherExc 1 11) ++
  [.futureGet 5 3 (.otherExc 0 9), .futureGet 5 2 (.stdExc 0 7),
   .dtorStart 9, .q (.pushEnter 9 .stop), .q (.pushTest 9 true), .q (.pushLocked 9 1 none), .dtorPushed 9,
   .q (.popNow 1 1 (some (9, .stop))), .workerGot 1 true, .workerExit 1, .dtorJoin 9 1, .dtorDone 9,
   .futureGet 5 4 (.otherExc 1 11), .futureGet 5 1 (.value 42)]

/-- … is a run of the pool machine (hypotheses of `pool_outcome_in_future` /
    `worker_survives_task_exception` with every kind of outcome are satisfiable), every future
    holds its own outcome -/
example : ∃ s, (PoolSM.machine ⟨[1], ⟨0, false⟩⟩).Reachable s ∧
    (decide (s.dtor = .done) && decide (s.submitted = [(1, .value 42), (2, .stdExc 0 7), (3, .otherExc 0 9), (4, .otherExc 1 11)])
      && decide (s.future 1 = some (.value 42)) && decide (s.future 2 = some (.stdExc 0 7))
      && decide (s.future 3 = some (.otherExc 0 9)) && decide (s.future 4 = some (.otherExc 1 11))
      && decide (s.runCount 3 = 1) && decide (s.exitedL = [1])) = true :=
  pool_trace_witness _ poolKinds _ (by decide)

/-- before the destructor, after three throwing tasks: the worker is live and in its loop -/
example : ∃ s, (PoolSM.machine ⟨[1], ⟨0, false⟩⟩).Reachable s ∧
    (decide (s.dtor = .notStarted) && decide (s.wpc 1 = .loop) && decide (s.runCount 4 = 1)
      && decide (PoolSM.liveWorkers ⟨[1], ⟨0, false⟩⟩ s = [1])) = true :=
  pool_trace_witness _ (poolKinds.take 24) _ (by decide)

/-- The wrapper matters (clause 4 of `pool_outcome_in_future` is not vacuous): the SAME run with
    a wrapper whose handler is `catch (const std::exception&)` gets through the value and the
    std::exception-derived job and is terminated by job 3 — its exception leaves the worker's
    thread function, its future never becomes ready, job 4 is lost with the process. -/
example : ((poolKinds.take 18).foldlM (PoolSM.xstep? PoolSM.Wrapper.stdExceptionOnly ⟨[1], ⟨0, false⟩⟩) PoolSM.xinit).map
      (fun x => decide (x.terminated = some (1, 3, .otherExc 0 9)) && decide (x.base.future 3 = none)
        && decide (x.base.future 2 = some (.stdExc 0 7)) && decide (x.base.runCount 3 = 1)) = some true ∧
    ((poolKinds.take 19).foldlM (PoolSM.xstep? PoolSM.Wrapper.stdExceptionOnly ⟨[1], ⟨0, false⟩⟩) PoolSM.xinit).isNone = true ∧
    ((poolKinds.foldlM (PoolSM.xstep? PoolSM.Wrapper.packagedTask ⟨[1], ⟨0, false⟩⟩) PoolSM.xinit).map
      (fun x => decide (x.terminated = none) && decide (x.base.dtor = .done))) = some true := by
  refine ⟨by decide, by decide, by decide⟩

end Osmium.C19
