/-
C03 (PBF part) — hostile PBF input: the block decoder returns objects or an error for EVERY byte
string, every string-table access is bounds-checked, and what it hands to the builders satisfies
the builders' guards, so that every delivered object can be traversed in bounds
(`pbf_decoded_objects_wf`, FULL since repair da64936 rejects string-table entries with an embedded
NUL byte; before that repair the statement was refuted by finding F13a — the witness is kept below
as regression documentation, section "F13a").

Model: `Osmium.Pbf` (Model/Pbf.lean; C01/C02): `decodeFile noInflate r bs : Option (Header × List Object)`
is a total function of the bytes — `none` = an exception derived from std::exception
(osmium::pbf_error, std::out_of_range from `m_stringtable.at()`, protozero exceptions), `some` =
objects.  It is structurally recursive / fuelled by the input length: it terminates for every input.
Accesses: the protobuf cursor is `Wire.readField` / `PbfMsg.unpack` (every varint / length read
checks the remaining bytes: `Wire` is the contract assumed for protozero's end-pointer checks —
protozero itself is outside), string-table indices go through `StringTable.lookup` (= `vector::at`),
packed arrays are consumed with `pop` / pattern matching on the remaining list (= `empty()` checks).
There is no unchecked access in the model; `pbf_reads_in_bounds_partial` states what that means for
the index accesses and `pbf_strings_come_from_table` that nothing else reaches the builders.
NOT proved (named `_partial`): a cursor-level copy of protozero's pointer arithmetic; zlib / lz4.
-/
import Osmium.Lemmas.HostilePbf
import Osmium.Lemmas.HostileLayout
import Osmium.Lemmas.HostileGuards

namespace Osmium.HostilePbf.C03

open Osmium.Osm Osmium.Pbf Osmium.HostileLayout Osmium.HostilePbf
open Osmium.StringTable (lookup)

/-! ### totality and checked accesses -/

/-- For EVERY byte string presented as a PBF file the decoder model returns objects or an error. -/
theorem pbf_decoder_total (r : ROpts) (bs : Bytes) :
    decodeFile noInflate r bs = none ∨ ∃ h objs, decodeFile noInflate r bs = some (h, objs) := by
  cases hd : decodeFile noInflate r bs with
  | none => exact Or.inl rfl
  | some p => exact Or.inr ⟨p.1, p.2, rfl⟩

/-- `m_stringtable.at(i)`: the access is performed only for `0 ≤ i < size`; every other index is
    the error outcome (std::out_of_range), never a read outside the table.  Negative indices
    (a signed index converted to size_t) are out of range as well. -/
theorem pbf_reads_in_bounds_partial (strs : List Bytes) (i : Int) :
    (∀ s, lookup strs i = some s → 0 ≤ i ∧ i.toNat < strs.length ∧ strs[i.toNat]? = some s) ∧
    (lookup strs i = none ↔ (i < 0 ∨ strs.length ≤ i.toNat)) := by
  unfold lookup
  by_cases hi : i < 0
  · simp [hi]
  · simp only [hi, if_false, false_or]
    constructor
    · intro s hs
      have := List.getElem?_eq_some_iff.mp hs
      obtain ⟨hlt, _⟩ := this
      exact ⟨by omega, hlt, hs⟩
    · exact List.getElem?_eq_none_iff

/-- Every string the decoder passes to a builder (user names, tag keys and values, roles) is an
    entry of the block's string table or the empty default, hence at most
    `max_osm_string_length` = 1024 bytes long and contains no NUL byte (`decode_stringtable`
    rejects longer entries and, since repair da64936, entries with an embedded NUL) — for ANY byte
    string as input. -/
theorem pbf_strings_come_from_table (r : ROpts) (bs : Bytes) (h : Header) (objs : List Object)
    (hd : decodeFile noInflate r bs = some (h, objs)) :
    ∀ o ∈ objs, ∀ s ∈ strsOf o, s.length ≤ maxOsmStringLength ∧ noNul s = true :=
  fun o ho s hs => ⟨decodeFile_strings_le r bs h objs hd o ho s hs, decodeFile_strings_nulfree r bs h objs hd o ho s hs⟩

/-! ### decoded objects and the builders' guards -/

/-- THE FULL STATEMENT: whatever the PBF decoder builds from any byte string can be traversed in
    bounds.  (`fixed`: the integer fields written by `set_xxx`, of the size the constructor
    reserves; the item is smaller than 4 GiB — the size field of an item is 32 bits; a block is at
    most 32 MiB of input, but no bound on the decoded object is carried through the decoder here.) -/
def PbfDecodedObjectsWF : Prop :=
  ∀ (r : ROpts) (bs : Bytes) (h : Header) (objs : List Object) (fill : UInt8) (fixed : Bytes),
    decodeFile noInflate r bs = some (h, objs) → ∀ o ∈ objs,
      fixed.length = (toObjS fixed o).kind.sizeT - 8 → objSize fill (toObjS fixed o) < 2 ^ 32 →
      Layout.WF (build fill (toObjS fixed o)) = true

/-- `pbf_decoded_objects_wf` at full strength (since repair da64936): an object decoded from ANY
    byte string satisfies all builder `Guards` — its strings are table entries, hence ≤ 1024 bytes
    and NUL-free — so (`builders_produce_wf`) the item the builders write for it is well-formed and
    its complete traversal (user, tags, node references, members and roles) stays in bounds and
    delivers exactly what the decoder put in. -/
theorem pbf_decoded_objects_guards (r : ROpts) (bs : Bytes) (h : Header) (objs : List Object)
    (fill : UInt8) (fixed : Bytes)
    (hd : decodeFile noInflate r bs = some (h, objs)) (o : Object) (ho : o ∈ objs)
    (hf : fixed.length = (toObjS fixed o).kind.sizeT - 8)
    (hs : objSize fill (toObjS fixed o) < 2 ^ 32) :
    Guards fill (toObjS fixed o) ∧ Layout.WF (build fill (toObjS fixed o)) = true ∧
    ∃ fields, Layout.decodeAll (build fill (toObjS fixed o)) =
      .ok [.mk (toObjS fixed o).kind.ty false fields [(toObjS fixed o).user] ((toObjS fixed o).subs.map subTree)] := by
  have g : Guards fill (toObjS fixed o) :=
    toObjS_guards fill fixed o
      (fun s hs' => ⟨decodeFile_strings_le r bs h objs hd o ho s hs', decodeFile_strings_nulfree r bs h objs hd o ho s hs'⟩)
      (decodeFile_no_changeset r bs h objs hd o ho) hf hs
  exact ⟨g, (guards_wf fill _ g).1, (guards_wf fill _ g).2⟩

theorem pbf_decoded_objects_wf : PbfDecodedObjectsWF :=
  fun r bs h objs fill fixed hd o ho hf hs => (pbf_decoded_objects_guards r bs h objs fill fixed hd o ho hf hs).2.1

/-- non-vacuity: an 80-byte file with the string table ["", "axb", "v"] and one node with
    keys = [1], vals = [2] decodes to that node … -/
def okFile : Bytes :=
  [0x00, 0x00, 0x00, 0x0d, 0x0a, 0x09, 0x4f, 0x53, 0x4d, 0x48, 0x65, 0x61, 0x64, 0x65, 0x72, 0x18, 0x12,
   0x0a, 0x10, 0x22, 0x0e, 0x4f, 0x73, 0x6d, 0x53, 0x63, 0x68, 0x65, 0x6d, 0x61, 0x2d, 0x56, 0x30, 0x2e, 0x36,
   0x00, 0x00, 0x00, 0x0b, 0x0a, 0x07, 0x4f, 0x53, 0x4d, 0x44, 0x61, 0x74, 0x61, 0x18, 0x1e,
   0x0a, 0x1c, 0x0a, 0x0a, 0x0a, 0x00, 0x0a, 0x03, 0x61, 0x78, 0x62, 0x0a, 0x01, 0x76,
   0x12, 0x0e, 0x0a, 0x0c, 0x08, 0x02, 0x12, 0x01, 0x01, 0x1a, 0x01, 0x02, 0x40, 0x14, 0x48, 0x28]

def okNode : Object := .node { id := 1, tags := [⟨[0x61, 0x78, 0x62], [0x76]⟩] } ⟨20, 10⟩

example : decodeFile noInflate {} okFile = some ({}, [okNode]) := by decide +kernel

/-- … and the premises on `fixed` and the size are satisfiable for it -/
example : (ctorFixed .node).length = (toObjS (ctorFixed .node) okNode).kind.sizeT - 8 ∧
    objSize 0 (toObjS (ctorFixed .node) okNode) < 2 ^ 32 := by decide

/-! ### F13a (repaired by da64936): regression documentation

Before the repair `decode_stringtable` checked only the length of an entry; the tag key "a\0b" went
through to `TagListBuilder::add_tag`, `Tag::next()` (two `after_null`s) desynchronised and the tag
walk left the tag list.  Kept: the input, the item the builders would write for the node the OLD
decoder delivered and the proof that it cannot be traversed in bounds, the OLD string-table function
accepting the table, the CURRENT one (and the whole current decoder) rejecting it.  The hostile
tier replays `f13aFile` on the real Reader every run (corpus/C03/pbf_findings.ops, probe
`pbf-embedded-nul-tag`): anything but pbf_error is reported as REGRESSION of fix da64936. -/

/-- the 80-byte PBF file of the finding: `okFile` with the key "a\0b" -/
def f13aFile : Bytes := okFile.set 59 0x00

/-- the node the decoder delivered for it before the repair: tag key "a\0b" -/
def f13aNode : Object :=
  .node { id := 1, tags := [⟨[0x61, 0x00, 0x62], [0x76]⟩] } ⟨20, 10⟩

/-- the StringTable message of `f13aFile`: entries "", "a\0b", "v" -/
def f13aTable : Bytes := [0x0a, 0x00, 0x0a, 0x03, 0x61, 0x00, 0x62, 0x0a, 0x01, 0x76]

/-- pre-fix: the string table with the embedded NUL was accepted -/
theorem f13a_prefix_stringtable_accepted_nul :
    Pre.decodeStringTable [] f13aTable = some [[], [0x61, 0x00, 0x62], [0x76]] := by decide +kernel

/-- now: the table is rejected (pbf_error "string with embedded NUL byte in string table") … -/
theorem f13a_stringtable_rejects_nul : decodeStringTable [] f13aTable = none := by decide +kernel

/-- … and with it the whole file -/
theorem f13a_decoder_rejects_embedded_nul : decodeFile noInflate {} f13aFile = none := by
  decide +kernel

theorem f13a_not_nul_free : ¬ NulFree f13aNode := by
  intro h
  have := h [0x61, 0x00, 0x62] (by decide)
  exact absurd this (by decide)

/-- Bool test for the `oob` outcome -/
def isOob {α : Type} : Except Layout.DErr α → Bool
  | .error .oob => true
  | _ => false

/-- the item the builders write for that node cannot be traversed in bounds (why the repair was
    needed: the builders themselves do not look for NUL bytes) -/
theorem f13a_built_node_traverse_oob :
    isOob (Layout.decodeAll (build 0 (toObjS (ctorFixed .node) f13aNode))) = true ∧
    Layout.WF (build 0 (toObjS (ctorFixed .node) f13aNode)) = false := by
  decide +kernel

/-- Hence a decoder that delivers `f13aNode` (the pre-fix one did, for `f13aFile`) refutes the full
    statement: the NUL check of the string table is NECESSARY for `pbf_decoded_objects_wf`. -/
theorem f13a_prefix_witness_refutes (dec : ROpts → Bytes → Option (Header × List Object))
    (hdec : dec {} f13aFile = some ({}, [f13aNode])) :
    ¬ (∀ (r : ROpts) (bs : Bytes) (h : Header) (objs : List Object) (fill : UInt8) (fixed : Bytes),
        dec r bs = some (h, objs) → ∀ o ∈ objs,
        fixed.length = (toObjS fixed o).kind.sizeT - 8 → objSize fill (toObjS fixed o) < 2 ^ 32 →
        Layout.WF (build fill (toObjS fixed o)) = true) := by
  intro h
  have := h {} f13aFile {} [f13aNode] 0 (ctorFixed .node) hdec f13aNode
    (List.mem_singleton.mpr rfl) (by decide) (by decide)
  rw [f13a_built_node_traverse_oob.2] at this
  exact Bool.noConfusion this

end Osmium.HostilePbf.C03
