/-
C03 (PBF part) — hostile PBF input: the block decoder returns objects or an error for EVERY byte
string, every string-table access is bounds-checked, and what it hands to the builders satisfies
the builders' guards — except for embedded NUL bytes (finding F13a).

Model: `Osmium.Pbf` (Model/Pbf.lean; C01/C02): `decodeFile noInflate r bs : Option (Header × List Object)`
is a total function of the bytes — `none` = an exception derived from std::exception
(osmium::pbf_error, std::out_of_range from `m_stringtable.at()`, protozero exceptions), `some` =
objects.  It is structurally recursive / fuelled by the input length: it terminates for every input.
Accesses: the protobuf cursor is `Wire.readField` / `PbfMsg.unpack` (every varint / length read
checks the remaining bytes: `Wire` is the contract assumed for protozero's end-pointer checks —
protozero itself is outside), string-table indices go through `StringTable.lookup` (= `vector::at`),
packed arrays are consumed with `pop` / pattern matching on the remaining list (= `empty()` checks).
There is no unchecked access in the model; `pbf_reads_in_bounds_partial` states what that means for
the index accesses and `pbf_strings_come_from_table` that nothing else reaches the builders.
NOT proved (named `_partial`): a cursor-level copy of protozero's pointer arithmetic; zlib / lz4.
-/
import Osmium.Lemmas.HostilePbf
import Osmium.Lemmas.HostileLayout

namespace Osmium.HostilePbf.C03

open Osmium.Osm Osmium.Pbf Osmium.HostileLayout Osmium.HostilePbf
open Osmium.StringTable (lookup)

/-! ### totality and checked accesses -/

/-- For EVERY byte string presented as a PBF file the decoder model returns objects or an error. -/
theorem pbf_decoder_total (r : ROpts) (bs : Bytes) :
    decodeFile noInflate r bs = none ∨ ∃ h objs, decodeFile noInflate r bs = some (h, objs) := by
  cases hd : decodeFile noInflate r bs with
  | none => exact Or.inl rfl
  | some p => exact Or.inr ⟨p.1, p.2, rfl⟩

/-- `m_stringtable.at(i)`: the access is performed only for `0 ≤ i < size`; every other index is
    the error outcome (std::out_of_range), never a read outside the table.  Negative indices
    (a signed index converted to size_t) are out of range as well. -/
theorem pbf_reads_in_bounds_partial (strs : List Bytes) (i : Int) :
    (∀ s, lookup strs i = some s → 0 ≤ i ∧ i.toNat < strs.length ∧ strs[i.toNat]? = some s) ∧
    (lookup strs i = none ↔ (i < 0 ∨ strs.length ≤ i.toNat)) := by
  unfold lookup
  by_cases hi : i < 0
  · simp [hi]
  · simp only [hi, if_false, false_or]
    constructor
    · intro s hs
      have := List.getElem?_eq_some_iff.mp hs
      obtain ⟨hlt, _⟩ := this
      exact ⟨by omega, hlt, hs⟩
    · exact List.getElem?_eq_none_iff

/-- Every string the decoder passes to a builder (user names, tag keys and values, roles) is an
    entry of the block's string table or the empty default, hence at most
    `max_osm_string_length` = 1024 bytes long — for ANY byte string as input. -/
theorem pbf_strings_come_from_table (r : ROpts) (bs : Bytes) (h : Header) (objs : List Object)
    (hd : decodeFile noInflate r bs = some (h, objs)) :
    ∀ o ∈ objs, ∀ s ∈ strsOf o, s.length ≤ maxOsmStringLength :=
  decodeFile_strings_le r bs h objs hd

/-! ### decoded objects and the builders' guards -/

theorem mem_tagStrings_key {ts : List Tag} {t : Tag} (h : t ∈ ts) : t.key ∈ tagStrings ts := by
  unfold tagStrings; exact List.mem_flatMap.mpr ⟨t, h, by simp⟩

theorem mem_tagStrings_value {ts : List Tag} {t : Tag} (h : t ∈ ts) : t.value ∈ tagStrings ts := by
  unfold tagStrings; exact List.mem_flatMap.mpr ⟨t, h, by simp⟩

theorem tagsSub_lengths (ts : List Tag) (h : ∀ s ∈ tagStrings ts, s.length ≤ maxStr) :
    ∀ s ∈ tagsSub ts, s.lengthsOk = true := by
  intro s hs
  unfold tagsSub at hs
  split at hs
  · cases hs
  · simp only [List.mem_singleton] at hs
    subst hs
    simp only [SubS.lengthsOk, List.all_eq_true, List.mem_map, Bool.and_eq_true, decide_eq_true_eq]
    rintro kv ⟨t, ht, rfl⟩
    exact ⟨h _ (mem_tagStrings_key ht), h _ (mem_tagStrings_value ht)⟩

theorem tagsSub_extra (ts : List Tag) (h : ∀ s ∈ tagStrings ts, noNul s = true) :
    ∀ s ∈ tagsSub ts, s.extraOk = true := by
  intro s hs
  unfold tagsSub at hs
  split at hs
  · cases hs
  · simp only [List.mem_singleton] at hs
    subst hs
    simp only [SubS.extraOk, List.all_eq_true, List.mem_map, Bool.and_eq_true]
    rintro kv ⟨t, ht, rfl⟩
    exact ⟨h _ (mem_tagStrings_key ht), h _ (mem_tagStrings_value ht)⟩

/-- THE FULL STATEMENT one would like: whatever the PBF decoder builds from any byte string can be
    traversed in bounds. -/
def PbfDecodedObjectsWF : Prop :=
  ∀ (r : ROpts) (bs : Bytes) (h : Header) (objs : List Object) (fill : UInt8) (fixed : Bytes),
    decodeFile noInflate r bs = some (h, objs) → ∀ o ∈ objs,
      fixed.length = (toObjS fixed o).kind.sizeT - 8 → objSize fill (toObjS fixed o) < 2 ^ 32 →
      Layout.WF (build fill (toObjS fixed o)) = true

/-- `pbf_decoded_objects_wf`, except for the embedded-NUL case: an object decoded from ANY byte
    string whose strings contain no NUL byte satisfies all builder `Guards`; hence
    (`builders_produce_wf_partial`) the item the builders write for it is well-formed and its
    complete traversal stays in bounds.  (`fixed`: the integer fields written by `set_xxx`, of the
    size the constructor reserves; `hs`: the item is smaller than 4 GiB — a block is at most 32 MiB
    of input, but that bound is not carried through the decoder here.) -/
theorem pbf_decoded_objects_wf_partial (r : ROpts) (bs : Bytes) (h : Header) (objs : List Object)
    (fill : UInt8) (fixed : Bytes)
    (hd : decodeFile noInflate r bs = some (h, objs)) (o : Object) (ho : o ∈ objs)
    (hn : NulFree o)
    (hf : fixed.length = (toObjS fixed o).kind.sizeT - 8)
    (hs : objSize fill (toObjS fixed o) < 2 ^ 32) :
    Guards fill (toObjS fixed o) ∧ Layout.WF (build fill (toObjS fixed o)) = true := by
  have hle := decodeFile_strings_le r bs h objs hd o ho
  have hnc := decodeFile_no_changeset r bs h objs hd o ho
  have hmax : maxOsmStringLength = maxStr := rfl
  have g : Guards fill (toObjS fixed o) := by
    cases o with
    | node m l =>
      refine ⟨hf, ?_, ?_, ?_, ?_, hs⟩
      · exact tagsSub_lengths _ (fun s hs' => hmax ▸ hle s (List.mem_cons_of_mem _ hs'))
      · have := hle m.user (List.mem_cons_self ..)
        show m.user.length + 1 < 2 ^ 16
        simp only [maxOsmStringLength] at this; omega
      · exact hn m.user (List.mem_cons_self ..)
      · exact tagsSub_extra _ (fun s hs' => hn s (List.mem_cons_of_mem _ hs'))
    | way m ns =>
      refine ⟨hf, ?_, ?_, ?_, ?_, hs⟩
      · intro s hs'
        simp only [toObjS, List.mem_append] at hs'
        rcases hs' with hs' | hs'
        · split at hs'
          · cases hs'
          · simp only [List.mem_singleton] at hs'; subst hs'; rfl
        · exact tagsSub_lengths _ (fun s hs'' => hmax ▸ hle s (List.mem_cons_of_mem _ hs'')) s hs'
      · have := hle m.user (List.mem_cons_self ..)
        show m.user.length + 1 < 2 ^ 16
        simp only [maxOsmStringLength] at this; omega
      · exact hn m.user (List.mem_cons_self ..)
      · intro s hs'
        simp only [toObjS, List.mem_append] at hs'
        rcases hs' with hs' | hs'
        · split at hs'
          · cases hs'
          · simp only [List.mem_singleton] at hs'; subst hs'; rfl
        · exact tagsSub_extra _ (fun s hs'' => hn s (List.mem_cons_of_mem _ hs'')) s hs'
    | relation m ms =>
      have hrole : ∀ x ∈ ms, x.role ∈ strsOf (.relation m ms) := by
        intro x hx
        simp only [strsOf, List.mem_cons, List.mem_append, List.mem_map]
        exact Or.inr ⟨x, hx, rfl⟩
      have htag : ∀ s ∈ tagStrings m.tags, s ∈ strsOf (.relation m ms) := by
        intro s hs'
        simp only [strsOf, List.mem_cons, List.mem_append]
        exact Or.inl (Or.inr hs')
      refine ⟨hf, ?_, ?_, ?_, ?_, hs⟩
      · intro s hs'
        simp only [toObjS, List.mem_append] at hs'
        rcases hs' with hs' | hs'
        · split at hs'
          · cases hs'
          · simp only [List.mem_singleton] at hs'; subst hs'
            simp only [SubS.lengthsOk, List.all_eq_true, List.mem_map, decide_eq_true_eq]
            rintro mm ⟨x, hx, rfl⟩
            exact hmax ▸ hle _ (hrole x hx)
        · exact tagsSub_lengths _ (fun s hs'' => hmax ▸ hle s (htag s hs'')) s hs'
      · have := hle m.user (List.mem_cons_self ..)
        show m.user.length + 1 < 2 ^ 16
        simp only [maxOsmStringLength] at this; omega
      · exact hn m.user (List.mem_cons_self ..)
      · intro s hs'
        simp only [toObjS, List.mem_append] at hs'
        rcases hs' with hs' | hs'
        · split at hs'
          · cases hs'
          · simp only [List.mem_singleton] at hs'; subst hs'
            simp only [SubS.extraOk, List.all_eq_true, List.mem_map]
            rintro mm ⟨x, hx, rfl⟩
            exact hn _ (hrole x hx)
        · exact tagsSub_extra _ (fun s hs'' => hn s (htag s hs'')) s hs'
    | changeset a b c d e f g i j k l => exact absurd rfl (hnc a b c d e f g i j k l)
  refine ⟨g, ?_⟩
  obtain ⟨fields, hdec⟩ := decodeAll_build fill _ g
  unfold Layout.WF
  rw [hdec]
  simpa using build_length_mod fill _ g

/-! ### F13a: the decoder does not establish `NulFree` -/

/-- an 80-byte PBF file (corpus/C03/pbf_findings.ops, first line): header blob, one data blob with
    the string table ["", "a\0b", "v"] and one node with keys = [1], vals = [2] -/
def f13aFile : Bytes :=
  [0x00, 0x00, 0x00, 0x0d, 0x0a, 0x09, 0x4f, 0x53, 0x4d, 0x48, 0x65, 0x61, 0x64, 0x65, 0x72, 0x18, 0x12,
   0x0a, 0x10, 0x22, 0x0e, 0x4f, 0x73, 0x6d, 0x53, 0x63, 0x68, 0x65, 0x6d, 0x61, 0x2d, 0x56, 0x30, 0x2e, 0x36,
   0x00, 0x00, 0x00, 0x0b, 0x0a, 0x07, 0x4f, 0x53, 0x4d, 0x44, 0x61, 0x74, 0x61, 0x18, 0x1e,
   0x0a, 0x1c, 0x0a, 0x0a, 0x0a, 0x00, 0x0a, 0x03, 0x61, 0x00, 0x62, 0x0a, 0x01, 0x76,
   0x12, 0x0e, 0x0a, 0x0c, 0x08, 0x02, 0x12, 0x01, 0x01, 0x1a, 0x01, 0x02, 0x40, 0x14, 0x48, 0x28]

/-- the node the decoder delivers for it: tag key "a\0b" -/
def f13aNode : Object :=
  .node { id := 1, tags := [⟨[0x61, 0x00, 0x62], [0x76]⟩] } ⟨20, 10⟩

theorem f13a_decoder_accepts_embedded_nul :
    decodeFile noInflate {} f13aFile = some ({}, [f13aNode]) := by
  decide +kernel

theorem f13a_not_nul_free : ¬ NulFree f13aNode := by
  intro h
  have := h [0x61, 0x00, 0x62] (by decide)
  exact absurd this (by decide)

/-- Bool test for the `oob` outcome -/
def isOob {α : Type} : Except Layout.DErr α → Bool
  | .error .oob => true
  | _ => false

/-- … and the item the builders write for that node cannot be traversed in bounds -/
theorem f13a_built_node_traverse_oob :
    isOob (Layout.decodeAll (build 0 (toObjS (ctorFixed .node) f13aNode))) = true ∧
    Layout.WF (build 0 (toObjS (ctorFixed .node) f13aNode)) = false := by
  decide +kernel

/-- The full statement is FALSE for the code as it is. -/
theorem pbf_decoded_objects_wf_refuted : ¬ PbfDecodedObjectsWF := by
  intro h
  have := h {} f13aFile {} [f13aNode] 0 (ctorFixed .node) f13a_decoder_accepts_embedded_nul f13aNode
    (List.mem_singleton.mpr rfl) (by decide) (by decide)
  rw [f13a_built_node_traverse_oob.2] at this
  exact Bool.noConfusion this

/-- non-vacuity of `pbf_decoded_objects_wf_partial`: the same file with the key "axb" -/
example :
    decodeFile noInflate {} (f13aFile.set 59 0x78) =
      some ({}, [.node { id := 1, tags := [⟨[0x61, 0x78, 0x62], [0x76]⟩] } ⟨20, 10⟩]) := by
  decide +kernel

end Osmium.HostilePbf.C03
