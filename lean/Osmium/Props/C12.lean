/-
C12 — All id-to-value index implementations behave as one mathematical map.

Property theorems only (models: Osmium/Model/IndexMap.lean, helper lemmas:
Osmium/Lemmas/IndexMap.lean).  Every theorem quantifies over ALL insertion histories / ALL
node-and-way streams of the model; the hypotheses are the property's domain:
`DistinctIds` (distinct ids), `NonEmptyVals` (no inserted value is the "empty" value).
The FlexMem theorems hold for ANY `FlexParams` (bits, min_dense_entries, density_factor), so
the quick tier's `-DOSMIUM_VERIF_FLEXMEM_MIN_DENSE_ENTRIES=200` build and the real threshold
(`Generated.C12.flexMinDenseEntries`) are covered by one and the same statement.
-/
import Osmium.Lemmas.IndexMap
import Osmium.Generated.C12Constants
import Osmium.Generated.Src
import Osmium.Lemmas.CxxSem

set_option linter.unusedSectionVars false

namespace Osmium.IndexMap.C12

open Osmium.IndexMap

variable {V : Type} [DecidableEq V]

/-- The specification is "exactly the inserted pairs": for distinct ids, `specOf h id = some v`
    iff `(id, v)` was inserted, and `none` iff the id was never inserted. -/
theorem spec_is_inserted_pairs (h : Hist V) (hd : DistinctIds h) (id : Nat) :
    (∀ v, specOf h id = some v ↔ (id, v) ∈ h) ∧ (specOf h id = none ↔ id ∉ h.map (·.1)) :=
  ⟨fun v => specOf_iff_mem hd id v, specOf_eq_none_iff id⟩

/-- dense_mem_array (VectorBasedDenseMap over std::vector): after any insertions with distinct
    ids in any order, `get` = the inserted value / not_found, `get_noexcept` = value / empty.
    Needs value-initialised slots to be the empty value (true for Location, see
    `dense_mem_vinit_is_empty` and the counterexample `dense_value_init_not_empty_refuted`). -/
theorem dense_refines (e : V) (h : Hist V) (hd : DistinctIds h) (hn : NonEmptyVals e h) (id : Nat) :
    (denseImpl e e).get ((denseImpl e e).build h) id = specOf h id ∧
    (denseImpl e e).getNoexcept ((denseImpl e e).build h) id = (specOf h id).getD e :=
  (denseLaws e).refines h hd hn id

/-- sparse_mem_array (VectorBasedSparseMap over std::vector): sorted before lookup. -/
theorem sparse_refines (bs : Nat) (e : V) (h : Hist V) (hd : DistinctIds h) (hn : NonEmptyVals e h)
    (id : Nat) :
    (sparseImpl bs e).get ((sparseImpl bs e).sort ((sparseImpl bs e).build h)) id = specOf h id ∧
    (sparseImpl bs e).getNoexcept ((sparseImpl bs e).sort ((sparseImpl bs e).build h)) id =
      (specOf h id).getD e :=
  (sparseLaws bs e).refines h hd hn id

/-- sparse_mem_map (std::map) -/
theorem stdmap_refines (e : V) (h : Hist V) (hd : DistinctIds h) (hn : NonEmptyVals e h) (id : Nat) :
    (stdMapImpl e).get ((stdMapImpl e).build h) id = specOf h id :=
  ((stdMapLaws e).refines h hd hn id).1

/-- flex_mem for ANY bits / min_dense_entries / density_factor: whether or not (and whenever)
    the automatic sparse→dense switch happens during the insertions, after the sort step every
    lookup is the lookup in the mathematical map. -/
theorem flexmem_refines (P : FlexParams) (e : V) (h : Hist V) (hd : DistinctIds h)
    (hn : NonEmptyVals e h) (id : Nat) :
    (flexImpl P e).get ((flexImpl P e).sort ((flexImpl P e).build h)) id = specOf h id ∧
    (flexImpl P e).getNoexcept ((flexImpl P e).sort ((flexImpl P e).build h)) id =
      (specOf h id).getD e :=
  (flexLaws P e).refines h hd hn id

/-- `switch_to_dense()` (automatic or called by the user) carries every entry over: a FlexMem
    that represents `h` still represents `h` afterwards, is in dense mode, and needs no sort. -/
theorem switch_preserves (P : FlexParams) (e : V) (s : Flex V) (h : Hist V)
    (hr : FlexRep P e s h) (hd : DistinctIds h) (hn : NonEmptyVals e h) (id : Nat) :
    (Flex.switchToDense P e s).dense = true ∧
    Flex.get P e (Flex.switchToDense P e s) id = specOf h id := by
  obtain ⟨h1, h2⟩ := Flex.switch_rep P e s h hr hd
  exact ⟨h2, (flexLaws P e).get_ok _ h h1 (Or.inl h2) hd hn id⟩

/-- … and on an index whose lookups were valid before, no lookup changes. -/
theorem switch_preserves_lookups (P : FlexParams) (e : V) (s : Flex V) (h : Hist V)
    (hr : FlexRep P e s h) (hrd : FlexReady s) (hd : DistinctIds h) (hn : NonEmptyVals e h) (id : Nat) :
    Flex.get P e (Flex.switchToDense P e s) id = Flex.get P e s id := by
  rw [(switch_preserves P e s h hr hd hn id).2]
  exact ((flexLaws P e).get_ok s h hr hrd hd hn id).symm

/-- Corollary: any two implementations that satisfy the laws (all of the above, in any
    combination, with any FlexMem parameters) answer every lookup identically on the same
    insertion history. -/
theorem all_impls_equal {I J : Impl V} {e : V} (LI : Laws I e) (LJ : Laws J e) (h : Hist V)
    (hd : DistinctIds h) (hn : NonEmptyVals e h) (id : Nat) :
    I.get (I.sort (I.build h)) id = J.get (J.sort (J.build h)) id ∧
    I.getNoexcept (I.sort (I.build h)) id = J.getNoexcept (J.sort (J.build h)) id := by
  rw [(LI.refines h hd hn id).1, (LJ.refines h hd hn id).1, (LI.refines h hd hn id).2,
    (LJ.refines h hd hn id).2]
  exact ⟨rfl, rfl⟩

/-- the insertion order is irrelevant -/
theorem order_irrelevant {I : Impl V} {e : V} (L : Laws I e) (h h' : Hist V) (hp : h.Perm h')
    (hd : DistinctIds h) (hn : NonEmptyVals e h) (id : Nat) :
    I.get (I.sort (I.build h)) id = I.get (I.sort (I.build h')) id := by
  rw [(L.refines h hd hn id).1, (L.refines h' (hd.perm hp) (hn.perm hp) id).1]
  exact specOf_perm hd hp id

/-! ### the mmap-backed variants — `_partial`: under the OS contract `GrowOk`

`MemoryMapping::resize` (mremap / munmap+ftruncate+mmap) and `mmap` itself are operating-system
behaviour.  The model takes them as a parameter `g : Grow` with the contract `GrowOk g`: "the new
mapping has the requested size and the old content is still there".  NOTHING is assumed about
the new area — the theorems go through because the code `std::fill`s it with the empty value. -/

/-- dense_mmap_array / dense_file_array -/
theorem mmap_dense_refines_partial (g : Grow V) (hg : GrowOk g) (inc : Nat) (e : V) (h : Hist V)
    (hd : DistinctIds h) (hn : NonEmptyVals e h) (id : Nat) :
    (mdenseImpl g inc e).get ((mdenseImpl g inc e).build h) id = specOf h id ∧
    (mdenseImpl g inc e).getNoexcept ((mdenseImpl g inc e).build h) id = (specOf h id).getD e :=
  (mdenseLaws g hg inc e).refines h hd hn id

/-- sparse_mmap_array / sparse_file_array (growth by push_back past the capacity included) -/
theorem mmap_sparse_refines_partial (g : Grow (Nat × V)) (hg : GrowOk g) (inc bs : Nat) (e : V)
    (pe : Nat × V) (h : Hist V) (hd : DistinctIds h) (hn : NonEmptyVals e h) (id : Nat) :
    (msparseImpl g inc bs e pe).get
      ((msparseImpl g inc bs e pe).sort ((msparseImpl g inc bs e pe).build h)) id = specOf h id :=
  ((msparseLaws g hg inc bs e pe).refines h hd hn id).1

/-- every capacity growth leaves `[m_size, capacity)` reading as the empty value (the state
    invariant of `mmap_vector_base` the dense lookups rely on) -/
theorem mmap_growth_keeps_empty_fill_partial (g : Grow V) (hg : GrowOk g) (inc : Nat) (e : V)
    (mv : MmapVec V) (hi : MInv e mv) (id : Nat) (v : V) :
    MInv e (MDense.set g inc e mv id v) :=
  (MDense.set_spec g hg inc e mv hi id v).1

/-! ### dump / load -/

/-- Dumping a dense index as an array and opening the file as `dense_file_array`, and dumping a
    sorted sparse index as a list and opening the file as `sparse_file_array`, preserve every
    lookup.  (`_partial` in the same sense as above: the loader maps the file through `g`.) -/
theorem dump_load_roundtrip_partial (gd : Grow V) (hgd : GrowOk gd) (gs : Grow (Nat × V))
    (hgs : GrowOk gs) (inc : Nat) (e : V) (k0 : Nat) :
    (∀ (a : Array V) (id : Nat),
      MDense.get e (MmapVec.load gd inc e a) id = Dense.get e a id ∧
      MDense.getNoexcept e (MmapVec.load gd inc e a) id = Dense.getNoexcept e a id) ∧
    (∀ (a : Array (Nat × V)) (id : Nat), (∀ p ∈ a.toList, p.2 ≠ e) →
      Sparse.getN (MmapVec.load gs inc (k0, e) a).data (MmapVec.load gs inc (k0, e) a).size id =
        Sparse.get a id) := by
  refine ⟨fun a id => Dense.dump_load gd hgd inc e a id, fun a id hne => ?_⟩
  obtain ⟨h1, h2⟩ := Sparse.dump_load_list gs hgs inc (k0, e) a
    (fun p hp heq => hne p hp (by rw [heq]))
  rw [MSparse.get_view _ h1, h2]

/-- … hence a dumped-and-reloaded index still is the map of the insertion history. -/
theorem dump_load_is_same_map_partial (gs : Grow (Nat × V)) (hgs : GrowOk gs) (inc bs : Nat) (e : V)
    (k0 : Nat) (h : Hist V) (hd : DistinctIds h) (hn : NonEmptyVals e h) (id : Nat) :
    let a := (sparseImpl bs e).sort ((sparseImpl bs e).build h)
    Sparse.getN (MmapVec.load gs inc (k0, e) a).data (MmapVec.load gs inc (k0, e) a).size id = specOf h id := by
  intro a
  have hrep := (sparseLaws bs e).rep_sort _ _ ((sparseLaws bs e).build_rep h hd hn)
  have hne : ∀ p ∈ (a : Array (Nat × V)).toList, p.2 ≠ e := fun p hp =>
    hn p ((hrep.trans (List.reverse_perm h)).mem_iff.1 hp)
  rw [(dump_load_roundtrip_partial (fun a n => a ++ Array.replicate (n - a.size) e)
    (fun a n hle => ⟨by simp; omega, fun i hi => by simp [Array.getElem?_append, hi]⟩) gs hgs inc e k0).2 a id hne]
  exact ((sparseLaws bs e).refines h hd hn id).1

/-- Dumping a sorted sparse index as a dense array (`dump_as_array`, windows of `bs` slots,
    last window partial) produces exactly the array the dense index built from the same
    insertions holds — for every buffer size `bs > 0`. -/
theorem sparse_dump_as_array_eq_dense (bs : Nat) (hbs : 0 < bs) (e : V) (h : Hist V)
    (hd : DistinctIds h) (hn : NonEmptyVals e h) :
    (sparseImpl bs e).dumpAsArray ((sparseImpl bs e).sort ((sparseImpl bs e).build h)) =
      (denseImpl e e).dumpAsArray ((denseImpl e e).build h) :=
  Sparse.dumpAsArray_eq_dense bs hbs e h hd hn

/-- the buffer size of the current source is positive -/
theorem dump_buffer_size_pos : 0 < Generated.C12.dumpBufferBytes / Generated.C12.sizeofLocation := by decide

/-! ### NodeLocationsForWays -/

/-- For every arrival order of the nodes: when `way()` performs its lookups both storages are
    "ready" (sorted, or never needed sorting) — `m_must_sort` is false only if they are, and the
    sort step at the start of `way()` establishes it otherwise. -/
theorem nlfw_sort_flag {Ip In : Impl V} {e : V} (Lp : Laws Ip e) (Ln : Laws In e) (ign : Bool)
    (s : NLFW Ip In) (ns : List (Int × V)) (hi : NInv Lp Ln ign s ns) (hok : NodesOk e ns) :
    Lp.Ready s.prepare.pos ∧ Ln.Ready s.prepare.neg := by
  obtain ⟨hp, hms⟩ := hi.prepare hok
  obtain ⟨r1, r2, _⟩ := hp.ready hms
  exact ⟨r1, r2⟩

/-- … and that invariant holds after every prefix of every stream of nodes. -/
theorem nlfw_invariant_nodes {Ip In : Impl V} {e : V} (Lp : Laws Ip e) (Ln : Laws In e) (ign : Bool) :
    ∀ (ns : List (Int × V)), NodesOk e ns →
      NInv Lp Ln ign (ns.foldr (fun p s => s.node p.1 p.2) (NLFW.init Ip In ign)) ns := by
  intro ns
  induction ns with
  | nil => intro _; exact NInv.init Lp Ln ign
  | cons p t ih =>
    intro hok
    exact (ih (NodesOk.suffix (l1 := [p]) hok)).node p.1 p.2 hok

/-- Ways passed through the handler receive for every node ref the location of the node with
    that (positive or negative) id among the nodes that arrived before the way — regardless of
    arrival order, with ways and nodes interleaved arbitrarily — and `not_found` is thrown
    exactly when some ref has no (fully defined) location and errors are not ignored. -/
theorem nlfw_ways_get_locations {Ip In : Impl V} {e : V} (Lp : Laws Ip e) (Ln : Laws In e)
    (ok : V → Bool) (ign : Bool) (evs : List (Ev V)) (hok : NodesOk e (nodesOf evs)) :
    (NLFW.run ok (NLFW.init Ip In ign) evs).2 = specRun ok e ign [] evs := by
  apply NInv.run ok evs _ _ (NInv.init Lp Ln ign)
  obtain ⟨h1, h2, h3⟩ := hok
  refine ⟨?_, ?_, ?_⟩
  · simpa using (List.Perm.nodup_iff ((List.reverse_perm (nodesOf evs)).map _)).2 h1
  · intro p hp; exact h2 p (by simpa using hp)
  · intro p hp; exact h3 p (by simpa using hp)

/-! ### the constants of the current source satisfy the side conditions -/

/-- `Location{}` (what `std::vector::resize` fills with) is `empty_value<Location>()` -/
theorem dense_mem_vinit_is_empty : Generated.C12.locValueInit = Generated.C12.locEmpty := by decide

/-- OBSERVATION (outside C12's registered types): for `size_t` values the value-initialised
    slot (0) is not the empty value (SIZE_MAX), and then the dense std::vector map is NOT a map:
    after set(5, 100) the never-inserted id 3 is found with value 0. -/
theorem dense_value_init_not_empty_refuted :
    Generated.C12.sizetValueInit ≠ Generated.C12.sizetEmpty ∧
    (denseImpl Generated.C12.sizetValueInit Generated.C12.sizetEmpty).get
      ((denseImpl Generated.C12.sizetValueInit Generated.C12.sizetEmpty).build [(5, 100)]) 3 = some 0 := by
  decide

/-! ### non-vacuity -/

example : DistinctIds [(5, (1 : Int)), (3, 7), (65536, 2)] ∧ NonEmptyVals (0 : Int) [(5, 1), (3, 7), (65536, 2)] := by
  simp [DistinctIds, NonEmptyVals]

-- unsorted sparse lookups really fail (the sort step matters) …
example : (sparseImpl 4 (0 : Int)).get ((sparseImpl 4 0).build [(5, 1), (3, 7), (4, 9)]) 5 = none := by decide +kernel
-- … and succeed after it (through the theorem: its hypotheses are met by this history)
example : (sparseImpl 4 (0 : Int)).get ((sparseImpl 4 0).sort ((sparseImpl 4 0).build [(5, 1), (3, 7), (4, 9)])) 5 = some 1 :=
  (sparse_refines 4 0 [(5, 1), (3, 7), (4, 9)] (by simp [DistinctIds]) (by simp [NonEmptyVals]) 5).1.trans (by decide)

-- a FlexMem history that crosses the switch (threshold 3, factor 3, 2-bit blocks)
example : ((flexImpl ⟨2, 3, 3⟩ (0 : Int)).build [(1, 11), (2, 12), (3, 13)]).dense = true := by decide
example : (flexImpl ⟨2, 3, 3⟩ (0 : Int)).get ((flexImpl ⟨2, 3, 3⟩ 0).build [(1, 11), (2, 12), (3, 13), (9, 19)]) 9 = some 19 := by decide

-- a stream that needs the sort step: nodes 5, -3, 2, a way, a late node 1, another way
example : (NLFW.run (fun (l : Int) => l != 0) (NLFW.init (sparseImpl 4 (0 : Int)) (sparseImpl 4 0) false)
    [.node 5 50, .node (-3) 30, .node 2 20, .way [2, -3, 5, 7], .node 1 10, .way [1, 5]]).2 =
    [([20, 30, 50, 0], true), ([10, 50], false)] :=
  (nlfw_ways_get_locations (sparseLaws 4 0) (sparseLaws 4 0) _ false _
    ⟨by decide, by decide, by intro p hp; simp [nodesOf] at hp; rcases hp with rfl | rfl | rfl | rfl <;> simp [idMax]⟩).trans
    (by decide)

-- GrowOk is satisfiable: Linux hands out zero pages
example : GrowOk (fun (a : Array Int) n => a ++ Array.replicate (n - a.size) 7) :=
  fun a n hle => ⟨by simp; omega, fun i hi => by simp [Array.getElem?_append, hi]⟩

-- a dump that needs three windows of 2 slots, the last one partial
example : (sparseImpl 2 (0 : Int)).dumpAsArray #[(1, 11), (4, 44)] = some #[0, 11, 0, 0, 44] := by decide

example : NodesOk (0 : Int) [(5, 50), (-3, 30), (2, 20)] := by
  refine ⟨by decide, by decide, ?_⟩
  intro p hp; simp at hp; rcases hp with rfl | rfl | rfl <;> simp [idMax]

/-! ### source ties (tools/cxx2lean.py): the functions REGENERATED from /repo's C++ source on every run
    (Osmium/Generated/Src.lean) equal the expressions the model `Flex` uses (Model/IndexMap.lean writes
    `block(id)` as `id / 2 ^ P.bits`, `offset(id)` as `id % 2 ^ P.bits`, and the switch test of `set_sparse` as
    `s.sparse.size ≥ P.minDense` / `s.maxId < s.sparse.size * P.factor`), at the parameters of the source
    (instantiation `FlexMem<uint64_t, Location>`; `Generated.C12` are the constants the check regenerates). -/

section SrcTies
open Osmium.Generated Osmium.CxxSem

/-- `FlexMem::block(id)` = `id / 2 ^ bits`, `FlexMem::offset(id)` = `id % 2 ^ bits`; never undefined -/
theorem src_tie_flex_block_offset (id : Nat) :
    Src.FlexMem.FlexMem_u64_Location.block (id : Int) = ((id / 2 ^ Generated.C12.flexBits : Nat) : Int) ∧
    Src.FlexMem.FlexMem_u64_Location.offset (id : Int) = ((id % 2 ^ Generated.C12.flexBits : Nat) : Int) ∧
    Src.FlexMem.FlexMem_u64_Location.block_defined (id : Int) = true ∧
    Src.FlexMem.FlexMem_u64_Location.offset_defined (id : Int) = true := by
  have e : wrapS 32 Src.FlexMem.FlexMem_u64_Location.bits = ((16 : Nat) : Int) := by decide
  have e' : wrapU 64 (Src.FlexMem.FlexMem_u64_Location.block_size - 1) = ((2 ^ 16 - 1 : Nat) : Int) := by decide
  have eb : Generated.C12.flexBits = 16 := by decide
  refine ⟨?_, ?_, ?_, ?_⟩
  · simp only [Src.FlexMem.FlexMem_u64_Location.block, e, shr_nat, Nat.shiftRight_eq_div_pow, eb]
  · simp only [Src.FlexMem.FlexMem_u64_Location.offset, e', band_nat, Nat.and_two_pow_sub_one_eq_mod, eb]
  · simp only [Src.FlexMem.FlexMem_u64_Location.block_defined]; decide
  · simp only [Src.FlexMem.FlexMem_u64_Location.offset_defined]

/-- the two nested conditions of `set_sparse` (`size() >= min_dense_entries`, `m_max_id < size() * density_factor`)
    = the model's switch test, as long as `size * density_factor` does not wrap in 64 bits -/
theorem src_tie_flex_switch (s : Src.FlexMem.FlexMem_u64_Location) (ht : Src.FlexMem.FlexMem_u64_Location.typed s = true)
    (hs : s.m_sparse_entries.size * 3 < 2 ^ 64) :
    (Src.FlexMem.set_sparse_cond_min_entries s = true ↔ s.m_sparse_entries.size.toNat ≥ Generated.C12.flexMinDenseEntries) ∧
    (Src.FlexMem.set_sparse_cond_density s = true ↔
      s.m_max_id.toNat < s.m_sparse_entries.size.toNat * Generated.C12.flexDensityFactor) := by
  simp only [Src.FlexMem.FlexMem_u64_Location.typed, Bool.and_eq_true, inU_iff] at ht
  have e1 : wrapU 64 Src.FlexMem.FlexMem_u64_Location.min_dense_entries = 16777215 := by decide
  have e2 : wrapU 64 (s.m_sparse_entries.size * Src.FlexMem.FlexMem_u64_Location.density_factor) = s.m_sparse_entries.size * 3 := by
    apply wrapU_eq <;> simp only [Src.FlexMem.FlexMem_u64_Location.density_factor] <;> omega
  have c1 : Generated.C12.flexMinDenseEntries = 16777215 := by decide
  have c2 : Generated.C12.flexDensityFactor = 3 := by decide
  simp only [Src.FlexMem.set_sparse_cond_min_entries, Src.FlexMem.set_sparse_cond_density, e1, e2, c1, c2, ge_iff, lt_iff]
  constructor <;> omega

example : Src.FlexMem.FlexMem_u64_Location.typed ⟨⟨⟩, ⟨16777215⟩, ⟨0⟩, 40000000, false⟩ = true ∧
    (16777215 : Int) * 3 < 2 ^ 64 := by decide

end SrcTies

end Osmium.IndexMap.C12
